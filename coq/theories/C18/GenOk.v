(* C18/GenOk.v — obligations on the data re-read from /repo/polygon.go on THIS run
   (coq/gen/GenPolygon.v, written by translator/cmd/polygon).  Each is a finite check by
   [vm_compute] over the generated table; when the table in the source is altered (an entry
   removed, a whitelist turned into a blacklist, a value misspelt, an unknown condition name)
   the corresponding lemma stops compiling and the check reports the broken obligation, then
   looks for a misclassified way with the harness. *)
From Coq Require Import String List Bool.
From Verif Require Import C18.Model C18.Spec C18.Equiv C18.StrOrder C18.Proofs.
From VerifGen Require Import GenPolygon.
Import ListNotations.

(* the three condition names are pairwise different, so the if / else-if chain of the code
   (and [decode_cond]) distinguishes them *)
Lemma gen_condition_names_distinct :
  negb (String.eqb cond_all cond_whitelist) && negb (String.eqb cond_all cond_blacklist)
  && negb (String.eqb cond_whitelist cond_blacklist) = true.
Proof. vm_compute. reflexivity. Qed.

(* every rule of the source table has one of the three conditions *)
Lemma gen_conditions_known :
  forallb (fun r => negb (cond_eqb (rcond r) COther)) RT = true.
Proof. vm_compute. reflexivity. Qed.

(* the table of the code (after init) has the same rules as the published table:
   same keys, same kind per key, same value sets *)
Lemma gen_table_matches_published : table_matchesb RT SpecTable = true.
Proof. vm_compute. reflexivity. Qed.

(* its value lists are sorted.  This one does not depend on the data: init sorts every list. *)
Lemma gen_table_sorted : table_sortedb RT = true.
Proof. apply init_table_sorted. Qed.

(* same fact by evaluation, as a cross-check of the sorting model on the actual data *)
Lemma gen_table_sorted_computed : table_sortedb RT = true.
Proof. vm_compute. reflexivity. Qed.
