(* C18/Spec.v — ground truth for the area classification, independent of Model.v.

   SpecTable is a hand copy of the published Overpass-turbo "Polygon Features" table
   (https://wiki.openstreetmap.org/wiki/Overpass_turbo/Polygon_Features), in the revision
   embedded by paulmach/osm at the pinned commit (also the table of tyrasd/osmtogeojson).
   It is NOT derived from /repo: GenOk.v shows that the table re-read from /repo on every run
   has the same rules (as sets), and the harness checks it against the run-time table.

   The specification is declarative: plain list membership, no sorting, no search, and it
   speaks about the tag SET (a relation key -> value), not about a tag list.

   Two readings of the rules are defined here and kept apart:
   - [published_polygon]: the LITERAL rule of the property text and of the published table
     (osmtogeojson): a listed key counts when it is PRESENT with a value other than "no" —
     an empty value is a value.  (For the area tag the text itself says "non-empty".)
   - [spec_polygon]: the same with an empty value read as absent, which is all that a lookup
     through Tags.Find (it returns "" for "not found") can see.
   They agree on every tag set in which no listed key carries an empty value
   (Proofs.published_area_iff_spec_area); on the others the code follows the second reading and
   therefore deviates from the first: known finding "empty-value-on-listed-key"
   (Properties: C18_empty_value_refuted). *)
From Coq Require Import String List Bool Arith ZArith.
Import ListNotations.
Open Scope string_scope.
Open Scope list_scope.
Open Scope nat_scope.

Inductive scond := All | Whitelist | Blacklist.

Definition srule := (string * scond * list string)%type.

Definition SpecTable : list srule := [
  ("building", All, []);
  ("highway", Whitelist, ["services"; "rest_area"; "escape"; "elevator"]);
  ("natural", Blacklist, ["coastline"; "cliff"; "ridge"; "arete"; "tree_row"]);
  ("landuse", All, []);
  ("waterway", Whitelist, ["riverbank"; "dock"; "boatyard"; "dam"]);
  ("amenity", All, []);
  ("leisure", All, []);
  ("barrier", Whitelist, ["city_wall"; "ditch"; "hedge"; "retaining_wall"; "wall"; "spikes"]);
  ("railway", Whitelist, ["station"; "turntable"; "roundhouse"; "platform"]);
  ("boundary", All, []);
  ("man_made", Blacklist, ["cutline"; "embankment"; "pipeline"]);
  ("power", Whitelist, ["plant"; "substation"; "generator"; "transformer"]);
  ("place", All, []);
  ("shop", All, []);
  ("aeroway", Blacklist, ["taxiway"]);
  ("tourism", All, []);
  ("historic", All, []);
  ("public_transport", All, []);
  ("office", All, []);
  ("building:part", All, []);
  ("military", All, []);
  ("ruins", All, []);
  ("area:highway", All, []);
  ("craft", All, []);
  ("golf", All, []);
  ("indoor", All, [])
].

(* ------------------------------------------------------------------ *)
(* Declarative specification (Prop), over tag sets                     *)
(* ------------------------------------------------------------------ *)

(* the way's tags, as a set of (key, value) pairs *)
Definition has (ts : list (string * string)) (k v : string) : Prop := In (k, v) ts.

(* "closed with more than three node refs": first = last and at least two nodes in between *)
Definition closed_ring (nodes : list Z) : Prop :=
  exists a mid, nodes = a :: mid ++ [a] /\ 2 <= length mid.

Definition rule_ok (c : scond) (vals : list string) (v : string) : Prop :=
  match c with
  | All => True
  | Whitelist => In v vals
  | Blacklist => ~ In v vals
  end.

(* never for area=no; always for any other non-empty area value; otherwise when some listed
   key has a (non-empty) value other than "no" that passes that key's rule *)
Definition spec_area (S : list srule) (ts : list (string * string)) : Prop :=
  ~ has ts "area" "no" /\
  ((exists v, has ts "area" v /\ v <> "") \/
   (exists k c vals v, In (k, c, vals) S /\ has ts k v /\ v <> "" /\ v <> "no" /\ rule_ok c vals v)).

Definition spec_polygon (nodes : list Z) (ts : list (string * string)) : Prop :=
  closed_ring nodes /\ spec_area SpecTable ts.

Definition spec_relation (ts : list (string * string)) : Prop :=
  has ts "type" "multipolygon" \/ has ts "type" "boundary".

(* ------------------------------------------------------------------ *)
(* The same specification as a boolean function of a lookup            *)
(* (used as the property oracle in Check.v and as the middle step of   *)
(* the proofs).  [val k] is the value of key k, "" when absent.        *)
(* ------------------------------------------------------------------ *)

Definition listed (v : string) (vals : list string) : bool := existsb (String.eqb v) vals.

Definition rule_okb (c : scond) (vals : list string) (v : string) : bool :=
  match c with
  | All => true
  | Whitelist => listed v vals
  | Blacklist => negb (listed v vals)
  end.

Definition srule_fires (val : string -> string) (r : srule) : bool :=
  let '(k, c, vals) := r in
  let v := val k in
  negb (String.eqb v "") && negb (String.eqb v "no") && rule_okb c vals v.

Definition spec_areab (S : list srule) (val : string -> string) : bool :=
  negb (String.eqb (val "area") "no") &&
  (negb (String.eqb (val "area") "") || existsb (srule_fires val) S).

(* closed ring, decided from both ends of the list without indexing *)
Definition closed_ringb (nodes : list Z) : bool :=
  match nodes with
  | [] => false
  | a :: rest =>
      match rev rest with
      | [] => false
      | b :: mid => Z.eqb a b && (2 <=? length mid)
      end
  end.

Definition spec_polygonb (nodes : list Z) (val : string -> string) : bool :=
  closed_ringb nodes && spec_areab SpecTable val.

Definition spec_relationb (val : string -> string) : bool :=
  String.eqb (val "type") "multipolygon" || String.eqb (val "type") "boundary".

(* lookup in a tag set with unique keys, written without "first match":
   the value of the only tag with that key, "" if there is none (or several) *)
Definition lookup (ts : list (string * string)) (k : string) : string :=
  match filter (fun t => String.eqb (fst t) k) ts with
  | [(_, v)] => v
  | _ => ""
  end.

Fixpoint nodupb (l : list string) : bool :=
  match l with
  | [] => true
  | x :: r => negb (existsb (String.eqb x) r) && nodupb r
  end.

Definition keys (ts : list (string * string)) : list string := map fst ts.

(* ------------------------------------------------------------------ *)
(* The literal published rule: presence, not non-emptiness             *)
(* ------------------------------------------------------------------ *)

Definition published_area (S : list srule) (ts : list (string * string)) : Prop :=
  ~ has ts "area" "no" /\
  ((exists v, has ts "area" v /\ v <> "") \/
   (exists k c vals v, In (k, c, vals) S /\ has ts k v /\ v <> "no" /\ rule_ok c vals v)).

Definition published_polygon (nodes : list Z) (ts : list (string * string)) : Prop :=
  closed_ring nodes /\ published_area SpecTable ts.

(* no listed key is present with an empty value *)
Definition no_empty_listed (ts : list (string * string)) : Prop :=
  forall k c vals, In (k, c, vals) SpecTable -> ~ has ts k "".

Definition no_empty_listedb (ts : list (string * string)) : bool :=
  forallb (fun r : srule =>
             let '(k, _, _) := r in
             negb (existsb (fun t => String.eqb (fst t) k && String.eqb (snd t) "") ts))
          SpecTable.

(* boolean form over an OPTIONAL lookup (None = the key is absent) *)
Definition lookup_opt (ts : list (string * string)) (k : string) : option string :=
  match filter (fun t => String.eqb (fst t) k) ts with
  | [(_, v)] => Some v
  | _ => None
  end.

Definition psrule_fires (oval : string -> option string) (r : srule) : bool :=
  let '(k, c, vals) := r in
  match oval k with
  | Some v => negb (String.eqb v "no") && rule_okb c vals v
  | None => false
  end.

Definition published_areab (S : list srule) (oval : string -> option string) : bool :=
  let a := match oval "area" with Some v => v | None => "" end in
  negb (String.eqb a "no") && (negb (String.eqb a "") || existsb (psrule_fires oval) S).

Definition published_polygonb (nodes : list Z) (oval : string -> option string) : bool :=
  closed_ringb nodes && published_areab SpecTable oval.
