(* C18/Proofs.v — lemmas for property C18 (statements collected in Properties/C18.v).

   Route:  binary search is a correct lower-bound search on sorted lists
        -> each rule test of the code equals plain membership
        -> the rule loop equals [existsb] over the table
        -> [way_polygon T] = boolean spec over T, for every sorted table T
        -> tables equal as sets of rules give the same boolean spec
        -> boolean spec over the lookup [find] = declarative spec over the tag set (unique keys)
        -> only [find] on relevant keys matters: permutations, unrelated tags, duplicates. *)
From Coq Require Import String Ascii List Bool Arith ZArith Lia Permutation.
From Verif Require Import C18.Model C18.Spec C18.Equiv C18.StrOrder.
Import ListNotations.
Open Scope string_scope.
Open Scope list_scope.
Open Scope nat_scope.

(* ------------------------------------------------------------------ *)
(* 1. sort.SearchStrings                                               *)
(* ------------------------------------------------------------------ *)

Lemma half_between (i j : nat) : i < j -> i <= (i + j) / 2 < j.
Proof.
  intros H. split.
  - apply Nat.div_le_lower_bound; lia.
  - apply Nat.div_lt_upper_bound; lia.
Qed.

Lemma search_loop_ok : forall fuel a x i j,
  sortedb a = true -> i <= j -> j <= length a -> j - i <= fuel ->
  (forall p u, p < i -> nth_error a p = Some u -> String.ltb u x = true) ->
  (forall p u, j <= p -> nth_error a p = Some u -> String.ltb u x = false) ->
  exists k, search_loop fuel a x i j = Val k /\ k <= length a /\
    (forall p u, p < k -> nth_error a p = Some u -> String.ltb u x = true) /\
    (forall p u, k <= p -> nth_error a p = Some u -> String.ltb u x = false).
Proof.
  induction fuel as [|f IH]; intros a x i j Hs Hij Hj Hf Hlo Hhi.
  - cbn [search_loop]. assert (i = j) by lia. subst j. rewrite Nat.ltb_irrefl.
    exists i. repeat split; assumption.
  - cbn [search_loop]. destruct (i <? j) eqn:E.
    + apply Nat.ltb_lt in E. pose proof (half_between i j E) as Hh.
      set (h := (i + j) / 2) in *.
      destruct (nth_error a h) as [u|] eqn:Eh.
      2:{ apply nth_error_None in Eh. lia. }
      destruct (String.ltb u x) eqn:Eu.
      * apply IH; try assumption; try lia.
        intros p w Hp Hw.
        assert (Hle : String.leb w u = true).
        { apply (sortedb_nth a Hs p h w u); [lia|exact Hw|exact Eh]. }
        exact (leb_ltb_trans _ _ _ Hle Eu).
      * apply IH; try assumption; try lia.
        intros p w Hp Hw.
        assert (Hle : String.leb u w = true).
        { apply (sortedb_nth a Hs h p u w); [lia|exact Eh|exact Hw]. }
        destruct (String.ltb w x) eqn:Ew; [|reflexivity].
        rewrite (leb_ltb_trans _ _ _ Hle Ew) in Eu. discriminate.
    + apply Nat.ltb_ge in E. assert (i = j) by lia. subst j.
      exists i. repeat split; assumption.
Qed.

(* On a sorted list the search never runs out of fuel, never indexes out of range, and
   returns the lower bound: the number k of elements < x (they are exactly those before k). *)
Lemma search_strings_lower_bound : forall a x, sortedb a = true ->
  exists k, search_strings a x = Val k /\ k <= length a /\
    (forall p u, nth_error a p = Some u -> (p < k <-> String.ltb u x = true)).
Proof.
  intros a x Hs. unfold search_strings.
  assert (Hlo0 : forall p u, p < 0 -> nth_error a p = Some u -> String.ltb u x = true)
    by (intros p u Hp; lia).
  assert (Hhi0 : forall p u, length a <= p -> nth_error a p = Some u -> String.ltb u x = false).
  { intros p u Hp Hu. apply nth_error_None in Hp. congruence. }
  assert (Hf : length a - 0 <= length a) by lia.
  destruct (search_loop_ok (length a) a x 0 (length a) Hs (Nat.le_0_l _) (le_n _) Hf Hlo0 Hhi0)
    as [k [Hk [Hle [Hlo Hhi]]]].
  - exists k. split; [exact Hk|]. split; [exact Hle|].
    intros p u Hu. split.
    + intros Hp. exact (Hlo p u Hp Hu).
    + intros Hlt. destruct (Nat.lt_ge_cases p k) as [H|H]; [exact H|].
      rewrite (Hhi p u H Hu) in Hlt. discriminate.
Qed.

Lemma listed_In (v : string) (l : list string) : listed v l = true <-> In v l.
Proof.
  unfold listed. rewrite existsb_exists. split.
  - intros [x [Hx E]]. apply String.eqb_eq in E. subst. exact Hx.
  - intros H. exists v. split; [exact H|apply String.eqb_refl].
Qed.

(* ... and the element at the returned index is x exactly when x is in the list *)
Lemma search_strings_hit : forall a x, sortedb a = true ->
  exists k, search_strings a x = Val k /\
    ((k = length a /\ listed x a = false) \/
     (k < length a /\ exists u, nth_error a k = Some u /\ String.eqb u x = listed x a)).
Proof.
  intros a x Hs.
  destruct (search_strings_lower_bound a x Hs) as [k [Hk [Hle Hiff]]].
  exists k. split; [exact Hk|].
  assert (Hpos : forall p, nth_error a p = Some x -> k <= p).
  { intros p Hp. destruct (Nat.lt_ge_cases p k) as [H|H]; [|exact H].
    apply (Hiff p x Hp) in H. rewrite ltb_irrefl in H. discriminate. }
  destruct (Nat.eq_dec k (length a)) as [E|E].
  - left. split; [exact E|].
    destruct (listed x a) eqn:L; [|reflexivity].
    apply listed_In in L. apply In_nth_error in L. destruct L as [p Hp].
    pose proof (Hpos p Hp) as H1.
    assert (p < length a) by (apply nth_error_Some; congruence). lia.
  - right. split; [lia|].
    destruct (nth_error a k) as [u|] eqn:Eu.
    2:{ apply nth_error_None in Eu. lia. }
    exists u. split; [reflexivity|].
    destruct (String.eqb u x) eqn:Eux.
    + apply String.eqb_eq in Eux. subst u. symmetry. apply listed_In.
      eapply nth_error_In. exact Eu.
    + symmetry. destruct (listed x a) eqn:L; [|reflexivity].
      apply listed_In in L. apply In_nth_error in L. destruct L as [p Hp].
      pose proof (Hpos p Hp) as H1.
      assert (Hux : String.leb u x = true) by (apply (sortedb_nth a Hs k p u x); assumption).
      assert (Hxu : String.leb x u = true).
      { apply ltb_false_leb. destruct (String.ltb u x) eqn:Elt; [|reflexivity].
        apply (Hiff k u Eu) in Elt. lia. }
      rewrite (String.leb_antisym _ _ Hux Hxu), String.eqb_refl in Eux. discriminate.
Qed.

(* the statement one expects of a search: the element at the returned index is x iff x occurs *)
Lemma search_strings_finds : forall a x, sortedb a = true ->
  exists k, search_strings a x = Val k /\ k <= length a /\
    (In x a <-> nth_error a k = Some x).
Proof.
  intros a x Hs.
  destruct (search_strings_hit a x Hs) as [k [Hk [[E L]|[Hlt [u [Hu E]]]]]];
    exists k; (split; [exact Hk|]).
  - split; [lia|]. subst k. split.
    + intros Hin. apply listed_In in Hin. congruence.
    + intros Hn. assert (Hnone : nth_error a (length a) = None) by (apply nth_error_None; lia).
      congruence.
  - split; [lia|]. rewrite <- listed_In, <- E, Hu, String.eqb_eq. split.
    + intros ->. reflexivity.
    + intros H. injection H as ->. reflexivity.
Qed.

(* ------------------------------------------------------------------ *)
(* 2. one rule, the loop, the function                                 *)
(* ------------------------------------------------------------------ *)

(* what a rule of the code's table says, with plain membership *)
Definition rule_firesb (c : rule) (v : string) : bool :=
  match rcond c with
  | CAll => true
  | CWhitelist => listed v (rvalues c)
  | CBlacklist => negb (listed v (rvalues c))
  | COther => false
  end.

Lemma rule_fires_spec (c : rule) (v : string) :
  sortedb (rvalues c) = true -> rule_fires c v = Val (rule_firesb c v).
Proof.
  intros Hs. unfold rule_fires, rule_firesb.
  destruct (rcond c); try reflexivity.
  - destruct (search_strings_hit (rvalues c) v Hs) as [k [Hk [[E L]|[Hlt [u [Hu E]]]]]]; rewrite Hk.
    + subst k. rewrite Nat.eqb_refl. cbn [negb]. rewrite L. reflexivity.
    + assert (Hne : (k =? length (rvalues c)) = false) by (apply Nat.eqb_neq; lia).
      rewrite Hne. cbn [negb]. rewrite Hu, E. reflexivity.
  - destruct (search_strings_hit (rvalues c) v Hs) as [k [Hk [[E L]|[Hlt [u [Hu E]]]]]]; rewrite Hk.
    + subst k. rewrite Nat.eqb_refl. rewrite L. reflexivity.
    + assert (Hne : (k =? length (rvalues c)) = false) by (apply Nat.eqb_neq; lia).
      rewrite Hne. rewrite Hu, E. reflexivity.
Qed.

Definition code_fires (val : string -> string) (c : rule) : bool :=
  let v := val (rkey c) in
  negb (String.eqb v "") && negb (String.eqb v "no") && rule_firesb c v.

Lemma rule_loop_spec (T : list rule) (ts : tags) :
  table_sortedb T = true ->
  rule_loop T ts = Val (existsb (code_fires (fun k => find k ts)) T).
Proof.
  induction T as [|c T IH]; intros Hs; [reflexivity|].
  cbn [table_sortedb forallb] in Hs. apply andb_true_iff in Hs. destruct Hs as [Hc HT].
  cbn [rule_loop existsb]. unfold code_fires at 1.
  destruct (String.eqb (find (rkey c) ts) "") eqn:E1; cbn [orb negb andb]; [exact (IH HT)|].
  destruct (String.eqb (find (rkey c) ts) "no") eqn:E2; cbn [orb negb andb]; [exact (IH HT)|].
  rewrite (rule_fires_spec c _ Hc).
  destruct (rule_firesb c (find (rkey c) ts)); cbn [orb]; [reflexivity|exact (IH HT)].
Qed.

(* the area clause over a code-side table *)
Definition code_areab (T : list rule) (val : string -> string) : bool :=
  negb (String.eqb (val "area") "no") &&
  (negb (String.eqb (val "area") "") || existsb (code_fires val) T).

(* the ring test of the code (length, first, last by index) = the spec's ring test *)
Lemma ring_test (nodes : list Z) :
  (length nodes <=? 3 = true /\ closed_ringb nodes = false) \/
  (length nodes <=? 3 = false /\ exists a b,
     nth_error nodes 0 = Some a /\ nth_error nodes (length nodes - 1) = Some b /\
     closed_ringb nodes = Z.eqb a b).
Proof.
  destruct (length nodes <=? 3) eqn:E.
  - left. split; [reflexivity|]. apply Nat.leb_le in E.
    destruct nodes as [|a rest]; [reflexivity|]. cbn [closed_ringb].
    destruct (rev rest) as [|b mid] eqn:Er; [reflexivity|].
    assert (Hl : length rest = S (length mid)).
    { rewrite <- (rev_length rest), Er. reflexivity. }
    cbn [length] in E.
    assert (H2 : (2 <=? length mid) = false) by (apply Nat.leb_gt; lia).
    rewrite H2. apply andb_false_r.
  - right. split; [reflexivity|]. apply Nat.leb_gt in E.
    destruct nodes as [|a rest]; [cbn in E; lia|].
    cbn [length] in E. cbn [closed_ringb].
    destruct (rev rest) as [|b mid] eqn:Er.
    { assert (length rest = 0) by (rewrite <- (rev_length rest), Er; reflexivity). lia. }
    assert (Hrest : rest = rev mid ++ [b]).
    { rewrite <- (rev_involutive rest), Er. reflexivity. }
    assert (Hl : length rest = S (length mid)).
    { rewrite <- (rev_length rest), Er. reflexivity. }
    exists a, b. split; [reflexivity|]. split.
    + cbn [length]. replace (S (length rest) - 1) with (S (length mid)) by lia.
      cbn [nth_error]. rewrite Hrest.
      rewrite nth_error_app2 by (rewrite rev_length; lia).
      rewrite rev_length, Nat.sub_diag. reflexivity.
    + assert (H2 : (2 <=? length mid) = true) by (apply Nat.leb_le; lia).
      rewrite H2. apply andb_true_r.
Qed.

Lemma way_polygon_code_spec (T : list rule) (nodes : list Z) (ts : tags) :
  table_sortedb T = true ->
  way_polygon T nodes ts = Val (closed_ringb nodes && code_areab T (fun k => find k ts)).
Proof.
  intros Hs. unfold way_polygon.
  destruct (ring_test nodes) as [[E R]|[E [a [b [Ha [Hb R]]]]]]; rewrite E.
  - rewrite R. reflexivity.
  - rewrite Ha, Hb, R. destruct (Z.eqb a b); cbn [negb andb]; [|reflexivity].
    unfold code_areab.
    destruct (String.eqb (find "area" ts) "no"); cbn [negb andb]; [reflexivity|].
    destruct (String.eqb (find "area" ts) ""); cbn [negb orb]; [|reflexivity].
    apply rule_loop_spec. exact Hs.
Qed.

(* ------------------------------------------------------------------ *)
(* 3. tables equal as sets of rules                                    *)
(* ------------------------------------------------------------------ *)

Lemma subsetb_listed (a b : list string) (v : string) :
  subsetb a b = true -> listed v a = true -> listed v b = true.
Proof.
  unfold subsetb. rewrite forallb_forall. intros H L.
  apply listed_In in L. exact (H v L).
Qed.

Lemma same_set_listed (a b : list string) (v : string) :
  subsetb a b = true -> subsetb b a = true -> listed v a = listed v b.
Proof.
  intros Hab Hba. apply eq_true_iff_eq. split; apply subsetb_listed; assumption.
Qed.

Lemma rule_matches_fires (val : string -> string) (c : rule) (s : srule) :
  rule_matches c s = true -> code_fires val c = srule_fires val s.
Proof.
  destruct s as [[k sc] vals]. unfold rule_matches, code_fires, srule_fires, rule_firesb.
  intros H. apply andb_true_iff in H. destruct H as [H Hv].
  apply andb_true_iff in H. destruct H as [Hk Hc].
  apply String.eqb_eq in Hk. rewrite Hk.
  destruct (rcond c), sc; cbn [cond_matches] in Hc; try discriminate; cbn [rule_okb];
    try reflexivity;
    apply andb_true_iff in Hv; destruct Hv as [H1 H2];
    rewrite (same_set_listed _ _ (val k) H1 H2); reflexivity.
Qed.

Lemma table_matches_exists (T : list rule) (S : list srule) (val : string -> string) :
  table_matchesb T S = true ->
  existsb (code_fires val) T = existsb (srule_fires val) S.
Proof.
  unfold table_matchesb. intros H. apply andb_true_iff in H. destruct H as [HT HS].
  rewrite forallb_forall in HT, HS.
  apply eq_true_iff_eq. rewrite !existsb_exists. split.
  - intros [c [Hc F]]. pose proof (HT c Hc) as M. apply existsb_exists in M.
    destruct M as [s [Hs M]]. exists s. split; [exact Hs|].
    rewrite <- (rule_matches_fires val c s M). exact F.
  - intros [s [Hs F]]. pose proof (HS s Hs) as M. apply existsb_exists in M.
    destruct M as [c [Hc M]]. exists c. split; [exact Hc|].
    rewrite (rule_matches_fires val c s M). exact F.
Qed.

Lemma table_matches_area (T : list rule) (S : list srule) (val : string -> string) :
  table_matchesb T S = true -> code_areab T val = spec_areab S val.
Proof.
  intros H. unfold code_areab, spec_areab. rewrite (table_matches_exists T S val H). reflexivity.
Qed.

(* the main step: for every table T that is sorted and equal to S as a set of rules,
   for all node lists and ALL tag lists (duplicate keys: first match, as Tags.Find) *)
Lemma way_polygon_bool_spec (T : list rule) (S : list srule) (nodes : list Z) (ts : tags) :
  table_sortedb T = true -> table_matchesb T S = true ->
  way_polygon T nodes ts = Val (closed_ringb nodes && spec_areab S (fun k => find k ts)).
Proof.
  intros Hs Hm. rewrite (way_polygon_code_spec T nodes ts Hs).
  rewrite (table_matches_area T S _ Hm). reflexivity.
Qed.

(* init() always produces sorted value lists (for any source table) *)
Lemma init_table_sorted (raw : list (string * string * list string)) :
  table_sortedb (init_table raw) = true.
Proof.
  unfold table_sortedb, init_table. rewrite forallb_forall. intros r Hr.
  apply in_map_iff in Hr. destruct Hr as [[[k c] vs] [E _]]. subst r.
  cbn [init_rule rvalues]. apply sort_strings_sorted.
Qed.

(* init() keeps keys, and the value SETS *)
Lemma init_rule_values (k c : string) (vs : list string) (v : string) :
  In v (rvalues (init_rule (k, c, vs))) <-> In v vs.
Proof. cbn [init_rule rvalues]. apply sort_strings_In. Qed.

(* ------------------------------------------------------------------ *)
(* 4. boolean spec over a lookup = declarative spec over the tag set   *)
(* ------------------------------------------------------------------ *)

Lemma find_notin (k : string) (ts : tags) : ~ In k (keys ts) -> find k ts = "".
Proof.
  induction ts as [|[k' v] r IH]; intros H; [reflexivity|].
  cbn [find]. destruct (String.eqb k' k) eqn:E.
  - apply String.eqb_eq in E. subst. exfalso. apply H. left. reflexivity.
  - apply IH. intros Hin. apply H. right. exact Hin.
Qed.

(* a non-empty answer of Find is the value of a tag that is there (any tag list) *)
Lemma find_nonempty_in (k v : string) (ts : tags) : find k ts = v -> v <> "" -> In (k, v) ts.
Proof.
  induction ts as [|[k' v'] r IH]; intros H Hne; [cbn in H; congruence|].
  cbn [find] in H. destruct (String.eqb k' k) eqn:E.
  - apply String.eqb_eq in E. subst. left. reflexivity.
  - right. exact (IH H Hne).
Qed.

(* with unique keys, Find returns the value of the tag with that key *)
Lemma find_in (k v : string) (ts : tags) : NoDup (keys ts) -> In (k, v) ts -> find k ts = v.
Proof.
  induction ts as [|[k' v'] r IH]; intros Hnd Hin; [contradiction|].
  cbn [keys map fst] in Hnd. inversion Hnd as [|? ? Hnotin Hnd']; subst.
  cbn [find]. destruct Hin as [E|Hin].
  - injection E as -> ->. rewrite String.eqb_refl. reflexivity.
  - destruct (String.eqb k' k) eqn:E.
    + apply String.eqb_eq in E. subst. exfalso. apply Hnotin.
      change (In k (keys r)). unfold keys. apply in_map_iff. exists (k, v). split; [reflexivity|exact Hin].
    + exact (IH Hnd' Hin).
Qed.

Lemma rule_okb_iff (c : scond) (vals : list string) (v : string) :
  rule_okb c vals v = true <-> rule_ok c vals v.
Proof.
  destruct c; cbn [rule_okb rule_ok].
  - split; auto.
  - apply listed_In.
  - rewrite negb_true_iff. rewrite <- listed_In. destruct (listed v vals); split; congruence.
Qed.

Lemma eqb_false_neq (a b : string) : String.eqb a b = false <-> a <> b.
Proof. apply String.eqb_neq. Qed.

Lemma spec_areab_iff (S : list srule) (ts : tags) :
  NoDup (keys ts) ->
  (spec_areab S (fun k => find k ts) = true <-> spec_area S ts).
Proof.
  intros Hnd. unfold spec_areab, spec_area, has. split.
  - intros H. apply andb_true_iff in H. destruct H as [Hno H].
    apply negb_true_iff, String.eqb_neq in Hno.
    split.
    + intros Hin. apply Hno. exact (find_in _ _ _ Hnd Hin).
    + apply orb_true_iff in H. destruct H as [H|H].
      * left. apply negb_true_iff, String.eqb_neq in H.
        exists (find "area" ts). split; [|exact H].
        apply find_nonempty_in; [reflexivity|exact H].
      * right. apply existsb_exists in H. destruct H as [[[k c] vals] [Hs F]].
        unfold srule_fires in F.
        apply andb_true_iff in F. destruct F as [F Hok].
        apply andb_true_iff in F. destruct F as [Hne Hnn].
        apply negb_true_iff, String.eqb_neq in Hne.
        apply negb_true_iff, String.eqb_neq in Hnn.
        exists k, c, vals, (find k ts).
        split; [exact Hs|]. split; [apply find_nonempty_in; [reflexivity|exact Hne]|].
        split; [exact Hne|]. split; [exact Hnn|]. apply rule_okb_iff. exact Hok.
  - intros [Hno H]. apply andb_true_iff. split.
    + apply negb_true_iff, String.eqb_neq. intros E. apply Hno.
      apply find_nonempty_in; [exact E|discriminate].
    + apply orb_true_iff. destruct H as [[v [Hin Hne]]|[k [c [vals [v [Hs [Hin [Hne [Hnn Hok]]]]]]]]].
      * left. apply negb_true_iff, String.eqb_neq. rewrite (find_in _ _ _ Hnd Hin). exact Hne.
      * right. apply existsb_exists. exists (k, c, vals). split; [exact Hs|].
        unfold srule_fires. rewrite (find_in _ _ _ Hnd Hin).
        apply andb_true_iff. split; [apply andb_true_iff; split|].
        -- apply negb_true_iff, String.eqb_neq. exact Hne.
        -- apply negb_true_iff, String.eqb_neq. exact Hnn.
        -- apply rule_okb_iff. exact Hok.
Qed.

Lemma closed_ringb_iff (nodes : list Z) : closed_ringb nodes = true <-> closed_ring nodes.
Proof.
  unfold closed_ring. split.
  - destruct nodes as [|a rest]; [discriminate|]. cbn [closed_ringb].
    destruct (rev rest) as [|b mid] eqn:Er; [discriminate|].
    intros H. apply andb_true_iff in H. destruct H as [Hab Hl].
    apply Z.eqb_eq in Hab. subst b. apply Nat.leb_le in Hl.
    exists a, (rev mid). split.
    + f_equal. rewrite <- (rev_involutive rest), Er. reflexivity.
    + rewrite rev_length. exact Hl.
  - intros [a [mid [E Hl]]]. subst nodes. cbn [closed_ringb].
    rewrite rev_app_distr. cbn [rev app].
    rewrite Z.eqb_refl, rev_length. cbn [andb]. apply Nat.leb_le. exact Hl.
Qed.

Lemma spec_polygonb_iff (nodes : list Z) (ts : tags) :
  NoDup (keys ts) ->
  (spec_polygonb nodes (fun k => find k ts) = true <-> spec_polygon nodes ts).
Proof.
  intros Hnd. unfold spec_polygonb, spec_polygon.
  rewrite andb_true_iff, closed_ringb_iff, (spec_areab_iff SpecTable ts Hnd). reflexivity.
Qed.

(* the oracle's lookup (Check.v) is Find on tag sets *)
Lemma filter_key_notin (k : string) (ts : tags) :
  ~ In k (keys ts) -> filter (fun t => String.eqb (fst t) k) ts = [].
Proof.
  induction ts as [|[k' v] r IH]; intros H; [reflexivity|].
  cbn [filter fst]. destruct (String.eqb k' k) eqn:E.
  - apply String.eqb_eq in E. subst. exfalso. apply H. left. reflexivity.
  - apply IH. intros Hin. apply H. right. exact Hin.
Qed.

Lemma lookup_find (ts : tags) (k : string) : NoDup (keys ts) -> lookup ts k = find k ts.
Proof.
  unfold lookup. induction ts as [|[k' v] r IH]; intros Hnd; [reflexivity|].
  cbn [keys map fst] in Hnd. inversion Hnd as [|? ? Hnotin Hnd']; subst.
  cbn [filter fst find]. destruct (String.eqb k' k) eqn:E.
  - apply String.eqb_eq in E. subst. rewrite (filter_key_notin k r Hnotin). reflexivity.
  - exact (IH Hnd').
Qed.

Lemma nodupb_NoDup (l : list string) : nodupb l = true <-> NoDup l.
Proof.
  induction l as [|x r IH]; cbn [nodupb].
  - split; [constructor|reflexivity].
  - rewrite andb_true_iff, negb_true_iff, IH. split.
    + intros [Hx Hr]. constructor; [|exact Hr].
      intros Hin. apply listed_In in Hin. unfold listed in Hin. congruence.
    + intros H. inversion H as [|? ? Hx Hr]; subst. split; [|exact Hr].
      destruct (existsb (String.eqb x) r) eqn:E; [|reflexivity].
      exfalso. apply Hx. apply listed_In. exact E.
Qed.

(* ------------------------------------------------------------------ *)
(* 5. only Find on the relevant keys matters                           *)
(* ------------------------------------------------------------------ *)

Definition relevant (T : list rule) (k : string) : Prop := k = "area" \/ In k (map rkey T).

Lemma rule_loop_ext (T : list rule) (ts ts' : tags) :
  (forall k, In k (map rkey T) -> find k ts = find k ts') -> rule_loop T ts = rule_loop T ts'.
Proof.
  induction T as [|c T IH]; intros H; [reflexivity|].
  cbn [rule_loop]. rewrite <- (H (rkey c)) by (left; reflexivity).
  assert (IH' : rule_loop T ts = rule_loop T ts') by (apply IH; intros k Hk; apply H; right; exact Hk).
  rewrite IH'. reflexivity.
Qed.

Lemma way_polygon_ext (T : list rule) (nodes : list Z) (ts ts' : tags) :
  (forall k, relevant T k -> find k ts = find k ts') ->
  way_polygon T nodes ts = way_polygon T nodes ts'.
Proof.
  intros H. unfold way_polygon.
  rewrite <- (H "area") by (left; reflexivity).
  rewrite (rule_loop_ext T ts ts') by (intros k Hk; apply H; right; exact Hk).
  reflexivity.
Qed.

(* permutations of a tag list with unique keys do not change Find *)
Lemma keys_perm (ts ts' : tags) : Permutation ts ts' -> Permutation (keys ts) (keys ts').
Proof. apply Permutation_map. Qed.

Lemma find_perm (ts ts' : tags) (k : string) :
  Permutation ts ts' -> NoDup (keys ts) -> find k ts = find k ts'.
Proof.
  intros HP Hnd.
  assert (Hnd' : NoDup (keys ts')) by (eapply Permutation_NoDup; [apply keys_perm; exact HP|exact Hnd]).
  destruct (in_dec string_dec k (keys ts)) as [Hin|Hnot].
  - unfold keys in Hin. apply in_map_iff in Hin. destruct Hin as [[k' v] [E Hin]]. cbn in E. subst k'.
    rewrite (find_in k v ts Hnd Hin).
    symmetry. apply (find_in k v ts' Hnd'). exact (Permutation_in _ HP Hin).
  - rewrite (find_notin k ts Hnot). symmetry. apply find_notin.
    intros Hin. apply Hnot. exact (Permutation_in _ (Permutation_sym (keys_perm _ _ HP)) Hin).
Qed.

Lemma way_polygon_perm (T : list rule) (nodes : list Z) (ts ts' : tags) :
  Permutation ts ts' -> NoDup (keys ts) -> way_polygon T nodes ts = way_polygon T nodes ts'.
Proof. intros HP Hnd. apply way_polygon_ext. intros k _. exact (find_perm ts ts' k HP Hnd). Qed.

(* tags with other keys, anywhere in the list *)
Lemma find_app_other (k k' v : string) (l1 l2 : tags) :
  k' <> k -> find k (l1 ++ (k', v) :: l2) = find k (l1 ++ l2).
Proof.
  intros Hne. induction l1 as [|[k1 v1] l1 IH]; cbn [app find].
  - apply String.eqb_neq in Hne. rewrite Hne. reflexivity.
  - rewrite IH. reflexivity.
Qed.

Lemma way_polygon_insert_irrelevant (T : list rule) (nodes : list Z) (l1 l2 : tags) (k v : string) :
  ~ relevant T k ->
  way_polygon T nodes (l1 ++ (k, v) :: l2) = way_polygon T nodes (l1 ++ l2).
Proof.
  intros Hirr. apply way_polygon_ext. intros k0 Hrel. apply find_app_other.
  intros E. subst. exact (Hirr Hrel).
Qed.

Lemma find_filter (p : string -> bool) (k : string) (ts : tags) :
  p k = true -> find k (filter (fun t => p (fst t)) ts) = find k ts.
Proof.
  intros Hp. induction ts as [|[k' v] r IH]; [reflexivity|].
  cbn [filter fst]. destruct (String.eqb k' k) eqn:E.
  - apply String.eqb_eq in E. subst k'. rewrite Hp. cbn [find]. rewrite String.eqb_refl. reflexivity.
  - destruct (p k'); cbn [find]; rewrite ?E; exact IH.
Qed.

Definition relevantb (T : list rule) (k : string) : bool :=
  String.eqb k "area" || existsb (fun c => String.eqb k (rkey c)) T.

Lemma relevantb_iff (T : list rule) (k : string) : relevantb T k = true <-> relevant T k.
Proof.
  unfold relevantb, relevant. rewrite orb_true_iff, String.eqb_eq, existsb_exists, in_map_iff.
  split; (intros [H|H]; [left; exact H|right]).
  - destruct H as [c [Hc E]]. apply String.eqb_eq in E. exists c. split; [symmetry; exact E|exact Hc].
  - destruct H as [c [E Hc]]. exists c. split; [exact Hc|]. apply String.eqb_eq. symmetry. exact E.
Qed.

(* dropping every tag whose key is neither "area" nor a rule key changes nothing *)
Lemma way_polygon_filter_relevant (T : list rule) (nodes : list Z) (ts : tags) :
  way_polygon T nodes (filter (fun t => relevantb T (fst t)) ts) = way_polygon T nodes ts.
Proof.
  apply way_polygon_ext. intros k Hrel. apply find_filter. apply relevantb_iff. exact Hrel.
Qed.

(* duplicate keys: the first tag of each key is the one that counts *)
Fixpoint dedup_first (ts : tags) : tags :=
  match ts with
  | [] => []
  | (k, v) :: r => (k, v) :: filter (fun t => negb (String.eqb (fst t) k)) (dedup_first r)
  end.

Lemma find_dedup_first (k : string) (ts : tags) : find k (dedup_first ts) = find k ts.
Proof.
  induction ts as [|[k' v] r IH]; [reflexivity|].
  cbn [dedup_first find]. destruct (String.eqb k' k) eqn:E; [reflexivity|].
  rewrite (find_filter (fun x => negb (String.eqb x k')) k).
  - exact IH.
  - rewrite String.eqb_sym, E. reflexivity.
Qed.

Lemma keys_filter (p : string -> bool) (ts : tags) :
  keys (filter (fun t => p (fst t)) ts) = filter p (keys ts).
Proof.
  induction ts as [|[k v] r IH]; [reflexivity|].
  cbn [filter keys map fst]. destruct (p k); cbn [keys map fst]; unfold keys in IH; rewrite IH; reflexivity.
Qed.

Lemma dedup_first_nodup (ts : tags) : NoDup (keys (dedup_first ts)).
Proof.
  induction ts as [|[k v] r IH]; [constructor|].
  cbn [dedup_first keys map fst]. change (map fst ?l) with (keys l).
  rewrite (keys_filter (fun x => negb (String.eqb x k))).
  constructor.
  - intros Hin. apply filter_In in Hin. destruct Hin as [_ H].
    rewrite String.eqb_refl in H. discriminate.
  - apply NoDup_filter. exact IH.
Qed.

Lemma dedup_first_incl (ts : tags) : incl (dedup_first ts) ts.
Proof.
  induction ts as [|[k v] r IH]; [apply incl_nil_l|].
  cbn [dedup_first]. intros t [E|Hin]; [left; exact E|right].
  apply filter_In in Hin. exact (IH t (proj1 Hin)).
Qed.

Lemma dedup_first_id (ts : tags) : NoDup (keys ts) -> dedup_first ts = ts.
Proof.
  induction ts as [|[k v] r IH]; intros Hnd; [reflexivity|].
  cbn [keys map fst] in Hnd. inversion Hnd as [|? ? Hnotin Hnd']; subst.
  cbn [dedup_first]. rewrite (IH Hnd'). f_equal.
  clear IH Hnd Hnd'. induction r as [|[k' v'] r IH]; [reflexivity|].
  cbn [filter fst]. destruct (String.eqb k' k) eqn:E.
  - apply String.eqb_eq in E. subst. exfalso. apply Hnotin. left. reflexivity.
  - cbn [negb]. f_equal. apply IH. intros Hin. apply Hnotin. right. exact Hin.
Qed.

Lemma way_polygon_dedup_first (T : list rule) (nodes : list Z) (ts : tags) :
  way_polygon T nodes ts = way_polygon T nodes (dedup_first ts).
Proof. apply way_polygon_ext. intros k _. symmetry. apply find_dedup_first. Qed.

(* ------------------------------------------------------------------ *)
(* 5b. full way nodes: only the refs are looked at                      *)
(* ------------------------------------------------------------------ *)

Lemma way_polygon_wn_ids (T : list rule) (ns : list waynode) (ts : tags) :
  way_polygon_wn T ns ts = way_polygon T (map wid ns) ts.
Proof.
  unfold way_polygon_wn, way_polygon. rewrite map_length.
  destruct (length ns <=? 3); [reflexivity|].
  rewrite !nth_error_map.
  destruct (nth_error ns 0) as [a|]; cbn [option_map]; [|reflexivity].
  destruct (nth_error ns (length ns - 1)) as [b|]; cbn [option_map]; reflexivity.
Qed.

Lemma way_polygon_wn_annotations (T : list rule) (ns ns' : list waynode) (ts : tags) :
  map wid ns = map wid ns' -> way_polygon_wn T ns ts = way_polygon_wn T ns' ts.
Proof. intros H. rewrite !way_polygon_wn_ids, H. reflexivity. Qed.

(* ------------------------------------------------------------------ *)
(* 6. relations                                                        *)
(* ------------------------------------------------------------------ *)

Lemma relation_polygon_bool_spec (ts : tags) :
  relation_polygon ts = spec_relationb (fun k => find k ts).
Proof. reflexivity. Qed.

Lemma relation_polygon_iff (ts : tags) :
  NoDup (keys ts) -> (relation_polygon ts = true <-> spec_relation ts).
Proof.
  intros Hnd. unfold relation_polygon, spec_relation, has.
  rewrite orb_true_iff, !String.eqb_eq. split; (intros [H|H]; [left|right]).
  - apply find_nonempty_in; [exact H|discriminate].
  - apply find_nonempty_in; [exact H|discriminate].
  - exact (find_in _ _ _ Hnd H).
  - exact (find_in _ _ _ Hnd H).
Qed.

Lemma relation_polygon_ext (ts ts' : tags) :
  find "type" ts = find "type" ts' -> relation_polygon ts = relation_polygon ts'.
Proof. intros H. unfold relation_polygon. rewrite H. reflexivity. Qed.

(* ------------------------------------------------------------------ *)
(* 7. boolean equality of code-side tables is equality                 *)
(* ------------------------------------------------------------------ *)

Lemma strs_eqb_eq (a b : list string) : strs_eqb a b = true -> a = b.
Proof.
  revert b. induction a as [|x a IH]; intros [|y b] H; try discriminate H; [reflexivity|].
  cbn [strs_eqb] in H. apply andb_true_iff in H. destruct H as [H1 H2].
  apply String.eqb_eq in H1. subst. f_equal. exact (IH b H2).
Qed.

Lemma rule_eqb_eq (a b : rule) : rule_eqb a b = true -> a = b.
Proof.
  destruct a as [ka ca va], b as [kb cb vb]. unfold rule_eqb. cbn [rkey rcond rvalues].
  intros H. apply andb_true_iff in H. destruct H as [H Hv].
  apply andb_true_iff in H. destruct H as [Hk Hc].
  apply String.eqb_eq in Hk. apply strs_eqb_eq in Hv. subst.
  destruct ca, cb; try discriminate Hc; reflexivity.
Qed.

Lemma rules_eqb_eq (a b : list rule) : rules_eqb a b = true -> a = b.
Proof.
  revert b. induction a as [|x a IH]; intros [|y b] H; try discriminate H; [reflexivity|].
  cbn [rules_eqb] in H. apply andb_true_iff in H. destruct H as [H1 H2].
  apply rule_eqb_eq in H1. subst. f_equal. exact (IH b H2).
Qed.

(* ------------------------------------------------------------------ *)
(* 8. the literal published rule vs the "empty value = absent" reading *)
(* ------------------------------------------------------------------ *)

Lemma published_area_iff_spec_area (ts : tags) :
  no_empty_listed ts -> (published_area SpecTable ts <-> spec_area SpecTable ts).
Proof.
  intros Hne. unfold published_area, spec_area. split; intros [Hno H]; (split; [exact Hno|]).
  - destruct H as [H|[k [c [vals [v [Hs [Hin [Hnn Hok]]]]]]]]; [left; exact H|right].
    exists k, c, vals, v. split; [exact Hs|]. split; [exact Hin|]. split; [|split; assumption].
    intros E. subst v. exact (Hne k c vals Hs Hin).
  - destruct H as [H|[k [c [vals [v [Hs [Hin [_ [Hnn Hok]]]]]]]]]; [left; exact H|right].
    exists k, c, vals, v. repeat split; assumption.
Qed.

Lemma no_empty_listedb_iff (ts : tags) : no_empty_listedb ts = true <-> no_empty_listed ts.
Proof.
  unfold no_empty_listedb, no_empty_listed, has. rewrite forallb_forall. split.
  - intros H k c vals Hs Hin. specialize (H (k, c, vals) Hs). cbn in H.
    apply negb_true_iff in H.
    assert (E : existsb (fun t => String.eqb (fst t) k && String.eqb (snd t) "") ts = true).
    { apply existsb_exists. exists (k, ""). split; [exact Hin|]. cbn. rewrite String.eqb_refl. reflexivity. }
    congruence.
  - intros H [[k c] vals] Hs. apply negb_true_iff.
    destruct (existsb (fun t => String.eqb (fst t) k && String.eqb (snd t) "") ts) eqn:E; [|reflexivity].
    exfalso. apply existsb_exists in E. destruct E as [[k' v'] [Hin E]]. cbn in E.
    apply andb_true_iff in E. destruct E as [E1 E2].
    apply String.eqb_eq in E1. apply String.eqb_eq in E2. cbn in E1, E2. rewrite E1, E2 in Hin.
    exact (H k c vals Hs Hin).
Qed.

(* the optional lookup on a tag set *)
Lemma lookup_opt_in (ts : tags) (k v : string) :
  NoDup (keys ts) -> (lookup_opt ts k = Some v <-> In (k, v) ts).
Proof.
  unfold lookup_opt. induction ts as [|[k' v'] r IH]; intros Hnd.
  - cbn. split; [discriminate|contradiction].
  - cbn [keys map fst] in Hnd. inversion Hnd as [|? ? Hnotin Hnd']; subst.
    cbn [filter fst]. destruct (String.eqb k' k) eqn:E.
    + apply String.eqb_eq in E. subst k'. rewrite (filter_key_notin k r Hnotin). split.
      * intros H. injection H as ->. left. reflexivity.
      * intros [H|H]; [injection H as ->; reflexivity|].
        exfalso. apply Hnotin. change (In k (keys r)). unfold keys. apply in_map_iff.
        exists (k, v). split; [reflexivity|exact H].
    + rewrite (IH Hnd'). apply String.eqb_neq in E. split; [intros H; right; exact H|].
      intros [H|H]; [injection H as -> _; contradiction|exact H].
Qed.

Lemma lookup_opt_none (ts : tags) (k : string) :
  NoDup (keys ts) -> lookup_opt ts k = None -> forall v, ~ In (k, v) ts.
Proof.
  intros Hnd H v Hin. apply (lookup_opt_in ts k v Hnd) in Hin. congruence.
Qed.

Lemma published_areab_iff (S : list srule) (ts : tags) :
  NoDup (keys ts) ->
  (published_areab S (lookup_opt ts) = true <-> published_area S ts).
Proof.
  intros Hnd. unfold published_areab, published_area, has. split.
  - intros H. apply andb_true_iff in H. destruct H as [Hno H].
    apply negb_true_iff, String.eqb_neq in Hno. split.
    + intros Hin. apply (lookup_opt_in ts "area" "no" Hnd) in Hin. rewrite Hin in Hno. congruence.
    + apply orb_true_iff in H. destruct H as [H|H].
      * left. apply negb_true_iff, String.eqb_neq in H.
        destruct (lookup_opt ts "area") as [a|] eqn:E; [|congruence].
        exists a. split; [apply (lookup_opt_in ts "area" a Hnd); exact E|exact H].
      * right. apply existsb_exists in H. destruct H as [[[k c] vals] [Hs F]].
        unfold psrule_fires in F. destruct (lookup_opt ts k) as [v|] eqn:E; [|discriminate].
        apply andb_true_iff in F. destruct F as [Hnn Hok].
        apply negb_true_iff, String.eqb_neq in Hnn.
        exists k, c, vals, v. split; [exact Hs|]. split; [apply (lookup_opt_in ts k v Hnd); exact E|].
        split; [exact Hnn|apply rule_okb_iff; exact Hok].
  - intros [Hno H]. apply andb_true_iff. split.
    + apply negb_true_iff, String.eqb_neq. intros E. apply Hno.
      destruct (lookup_opt ts "area") as [a|] eqn:Ea; [|discriminate E].
      subst a. apply (lookup_opt_in ts "area" "no" Hnd). exact Ea.
    + apply orb_true_iff. destruct H as [[v [Hin Hne]]|[k [c [vals [v [Hs [Hin [Hnn Hok]]]]]]]].
      * left. apply (lookup_opt_in ts "area" v Hnd) in Hin. rewrite Hin.
        apply negb_true_iff, String.eqb_neq. exact Hne.
      * right. apply existsb_exists. exists (k, c, vals). split; [exact Hs|].
        unfold psrule_fires. apply (lookup_opt_in ts k v Hnd) in Hin. rewrite Hin.
        apply andb_true_iff. split; [apply negb_true_iff, String.eqb_neq; exact Hnn|apply rule_okb_iff; exact Hok].
Qed.

Lemma published_polygonb_iff (nodes : list Z) (ts : tags) :
  NoDup (keys ts) ->
  (published_polygonb nodes (lookup_opt ts) = true <-> published_polygon nodes ts).
Proof.
  intros Hnd. unfold published_polygonb, published_polygon.
  rewrite andb_true_iff, closed_ringb_iff, (published_areab_iff SpecTable ts Hnd). reflexivity.
Qed.
