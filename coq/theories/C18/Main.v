(* C18/Main.v — the lemmas of Proofs.v instantiated with the table of the code as it is now
   (Model.RT = init applied to the table re-read from /repo) through the obligations of GenOk.v. *)
From Coq Require Import String List Bool Arith ZArith Permutation.
From Verif Require Import C18.Model C18.Spec C18.Equiv C18.StrOrder C18.Proofs C18.GenOk.
Import ListNotations.
Open Scope string_scope.

(* the table the code has after its own init() is the model's table *)
Lemma runtime_table_is_RT : runtime_table = RT.
Proof. apply rules_eqb_eq. exact gen_runtime_dump_is_model_init. Qed.

(* all node lists, ALL tag lists; duplicate keys resolved as Tags.Find does (first match) *)
Lemma way_polygon_RT_bool (nodes : list Z) (ts : tags) :
  way_polygon RT nodes ts = Val (spec_polygonb nodes (fun k => find k ts)).
Proof.
  unfold spec_polygonb.
  exact (way_polygon_bool_spec RT SpecTable nodes ts gen_table_sorted gen_table_matches_published).
Qed.

(* tag sets (unique keys): the declarative specification *)
Lemma way_polygon_RT_spec (nodes : list Z) (ts : tags) :
  NoDup (keys ts) ->
  exists b, way_polygon RT nodes ts = Val b /\ (b = true <-> spec_polygon nodes ts).
Proof.
  intros Hnd. exists (spec_polygonb nodes (fun k => find k ts)).
  split; [apply way_polygon_RT_bool|apply spec_polygonb_iff; exact Hnd].
Qed.

(* any tag list: the declarative specification of the list with later duplicates removed *)
Lemma way_polygon_RT_spec_dups (nodes : list Z) (ts : tags) :
  exists b, way_polygon RT nodes ts = Val b /\ (b = true <-> spec_polygon nodes (dedup_first ts)).
Proof.
  rewrite (way_polygon_dedup_first RT nodes ts).
  apply way_polygon_RT_spec. apply dedup_first_nodup.
Qed.

Lemma way_polygon_RT_total (nodes : list Z) (ts : tags) :
  way_polygon RT nodes ts <> IndexPanic /\ way_polygon RT nodes ts <> NoFuel.
Proof. rewrite way_polygon_RT_bool. split; discriminate. Qed.

(* full way nodes *)
Lemma way_polygon_wn_RT_spec (ns : list waynode) (ts : tags) :
  NoDup (keys ts) ->
  exists b, way_polygon_wn RT ns ts = Val b /\ (b = true <-> spec_polygon (map wid ns) ts).
Proof. rewrite way_polygon_wn_ids. apply way_polygon_RT_spec. Qed.

Lemma way_polygon_wn_RT_bool (ns : list waynode) (ts : tags) :
  way_polygon_wn RT ns ts = Val (spec_polygonb (map wid ns) (fun k => find k ts)).
Proof. rewrite way_polygon_wn_ids. apply way_polygon_RT_bool. Qed.

Lemma spec_areab_ext (S : list srule) (val val' : string -> string) :
  (forall k, val k = val' k) -> spec_areab S val = spec_areab S val'.
Proof.
  intros H. unfold spec_areab. rewrite (H "area"). f_equal. f_equal.
  induction S as [|[[k c] vals] S IH]; [reflexivity|].
  cbn [existsb]. rewrite IH. unfold srule_fires. rewrite (H k). reflexivity.
Qed.

(* the property oracle of Check.v is the declarative specification *)
Lemma oracle_is_spec (nodes : list Z) (ts : tags) :
  nodupb (keys ts) = true ->
  (spec_polygonb nodes (lookup ts) = true <-> spec_polygon nodes ts).
Proof.
  intros H. apply nodupb_NoDup in H.
  assert (E : spec_polygonb nodes (lookup ts) = spec_polygonb nodes (fun k => find k ts)).
  { unfold spec_polygonb. f_equal. apply spec_areab_ext. intros k. apply lookup_find. exact H. }
  rewrite E. apply spec_polygonb_iff. exact H.
Qed.

Lemma oracle_relation_is_spec (ts : tags) :
  nodupb (keys ts) = true ->
  (spec_relationb (lookup ts) = true <-> spec_relation ts).
Proof.
  intros H. apply nodupb_NoDup in H.
  unfold spec_relationb. rewrite (lookup_find ts "type" H).
  exact (relation_polygon_iff ts H).
Qed.

(* ---- the literal published rule ---- *)

(* outside the class "a listed key present with an empty value" the code IS the literal rule *)
Lemma way_polygon_RT_published (nodes : list Z) (ts : tags) :
  NoDup (keys ts) -> no_empty_listed ts ->
  exists b, way_polygon RT nodes ts = Val b /\ (b = true <-> published_polygon nodes ts).
Proof.
  intros Hnd Hne. destruct (way_polygon_RT_spec nodes ts Hnd) as [b [Hb Hiff]].
  exists b. split; [exact Hb|]. rewrite Hiff. unfold spec_polygon, published_polygon.
  rewrite (published_area_iff_spec_area ts Hne). reflexivity.
Qed.

(* inside the class it is not: building="" on a closed ring is an area by the literal rule, the
   code says no *)
Lemma empty_value_refuted :
  exists nodes ts,
    NoDup (keys ts) /\ way_polygon RT nodes ts = Val false /\ published_polygon nodes ts.
Proof.
  exists [100; 101; 102; 100]%Z, [("building", "")].
  split; [repeat constructor; cbn; intuition|]. split; [vm_compute; reflexivity|].
  split.
  - exists 100%Z, [101; 102]%Z. split; [reflexivity|apply le_n].
  - split; [intros [H|[]]; discriminate H|].
    right. exists "building", All, [], "". split; [left; reflexivity|].
    split; [left; reflexivity|]. split; [discriminate|exact I].
Qed.

Lemma published_oracle_is_spec (nodes : list Z) (ts : tags) :
  nodupb (keys ts) = true ->
  (published_polygonb nodes (lookup_opt ts) = true <-> published_polygon nodes ts).
Proof. intros H. apply nodupb_NoDup in H. exact (published_polygonb_iff nodes ts H). Qed.
