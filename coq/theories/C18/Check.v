(* C18/Check.v — correspondence + property oracle for one harness case (executable only).

   Strings travel packed: length n, then ceil(n/7) raw tokens of up to 7 bytes each, big-endian
   (the last token holds n mod 7 bytes when that is not 0).

   Case layouts (first token = tag, zigzag-encoded by the harness: 1 -> 2, 2 -> 4, 3 -> 6):
   1 WAY   : way nodes | tags (list of key value) | observed (0 false, 1 true, 2 panic)
             a way node is  id 0  (bare ref: version, changeset, lat, lon all zero)
                        or  id 1 version changeset lat lon  (annotated; lat/lon in 1e-7 degree)
   2 REL   : tags | observed (0 false, 1 true, 2 panic)
   4 FIND  : tags | key | observed string (Tags.Find)
   5 TAGS  : tags | key | HasTag | FindTag: present, key, value | Map()[key]: present, value
             | AnyInteresting
   6 UNINT : the keys of UninterestingTags mapped to true at run time
             (judgement 1: the same set as the one re-read from tag.go by the translator)
   7 WSEQ  : n steps, each: way nodes | tags | observed.  All steps are calls of Polygon() on the
             SAME Way value, which the harness edits in place between the calls (same number of
             nodes and tags, or not).  Every step is judged like a WAY case: the answer of a call
             depends on the nodes and tags the way has AT THAT CALL, not on earlier calls.
   3 TABLE : the three condition names at run time (all, whitelist, blacklist)
             | run-time table after init: list of (key, condition, list of values)
             | the harness's own copy of the published table: list of (key, 0 all/1 white/2 black, values)
   codes: 1 = model <> implementation
          2 = property oracle fails on the observation
              (WAY/WSEQ: the LITERAL published rule, Spec.published_polygonb over an optional
               lookup: a listed key present with an EMPTY value counts.  The code skips it: known
               finding class "empty-value-on-listed-key", assigned by the harness from the input.
               FIND: with distinct keys the observed value is the value of the tag with that key,
               "" if there is none.
               WAY/REL: the observed answer is not the declarative spec's answer for that tag set;
               only evaluated when the keys are distinct, a panic always fails it.
               TABLE: the run-time table is not sorted or is not the published table as sets)
          3 = TABLE: the harness's copy of the published table differs from Spec.SpecTable
          0 = case does not parse. *)
From Coq Require Import ZArith String Ascii List Bool Arith.
From Verif Require Import Base.Wire C18.Model C18.Spec C18.Equiv C18.Tags.
From VerifGen Require Import GenPolygon.
Import ListNotations.
Open Scope Z_scope.
Open Scope wire_scope.

(* n bytes out of w, most significant first *)
Fixpoint unpack_bytes (n : nat) (w : Z) : list Z :=
  match n with
  | O => []
  | S k => Z.land (Z.shiftr w (8 * Z.of_nat k)) 255 :: unpack_bytes k w
  end.

Fixpoint pchunks (fuel : nat) (n : nat) : P (list Z) :=
  match fuel with
  | O => pfail
  | S f =>
      if (n =? 0)%nat then ret []
      else
        let m := Nat.min n 7 in
        w <- ptok ;; r <- pchunks f (n - m)%nat ;; ret (unpack_bytes m w ++ r)%list
  end.

Definition ppacked : P string :=
  n <- pnat ;; l <- pchunks (S n) n ;; ret (string_of_bytes l).

Definition ptags : P tags := plist (ppair ppacked ppacked).

Definition obs_code (r : res bool) : Z :=
  match r with
  | Val false => 0
  | Val true => 1
  | IndexPanic => 2
  | NoFuel => 3
  end.

Definition b2z (b : bool) : Z := if b then 1 else 0.

(* ---- WAY ---- *)
Definition pwaynode : P waynode :=
  id <- pint ;; ann <- pbool ;;
  if ann then
    (v <- pint ;; cs <- pint ;; lat <- pint ;; lon <- pint ;; ret (mkWayNode id v cs lat lon))
  else ret (mkWayNode id 0 0 0 0).

(* judgement 2 demands that closedness is decided by the node REFS alone: the spec sees
   [map wid nodes] and nothing else of the way nodes *)
Definition check_way : P (list Z) :=
  nodes <- plist pwaynode ;; ts <- ptags ;; obs <- pint ;;
  let j1 := obs_code (way_polygon_wn RT nodes ts) =? obs in
  let j2 :=
    (obs <? 2) &&
    (if nodupb (keys ts) then obs =? b2z (published_polygonb (map wid nodes) (lookup_opt ts)) else true) in
  ret (code_if j1 1 ++ code_if j2 2)%list.

(* ---- WSEQ: several calls on one Way, edited in place in between ---- *)
Definition pstep : P (list waynode * tags * Z) :=
  nodes <- plist pwaynode ;; ts <- ptags ;; obs <- pint ;; ret (nodes, ts, obs).

Definition step_judgements (st : list waynode * tags * Z) : bool * bool :=
  let '(nodes, ts, obs) := st in
  (obs_code (way_polygon_wn RT nodes ts) =? obs,
   (obs <? 2) &&
   (if nodupb (keys ts) then obs =? b2z (published_polygonb (map wid nodes) (lookup_opt ts)) else true)).

Definition check_wseq : P (list Z) :=
  steps <- plist pstep ;;
  let js := map step_judgements steps in
  ret (code_if (forallb fst js) 1 ++ code_if (forallb snd js) 2)%list.

(* ---- REL ---- *)
Definition check_rel : P (list Z) :=
  ts <- ptags ;; obs <- pint ;;
  let j1 := b2z (relation_polygon ts) =? obs in
  let j2 :=
    (obs <? 2) &&
    (if nodupb (keys ts) then obs =? b2z (spec_relationb (lookup ts)) else true) in
  ret (code_if j1 1 ++ code_if j2 2)%list.

(* ---- FIND ---- *)
Definition check_find : P (list Z) :=
  ts <- ptags ;; k <- ppacked ;; obs <- ppacked ;;
  let j1 := String.eqb (find k ts) obs in
  let j2 := if nodupb (keys ts) then String.eqb (lookup ts k) obs else true in
  ret (code_if j1 1 ++ code_if j2 2)%list.

(* ---- TAGS: the other helpers of tag.go ---- *)
Definition otag_eqb (a b : option tag) : bool :=
  match a, b with
  | None, None => true
  | Some x, Some y => String.eqb (fst x) (fst y) && String.eqb (snd x) (snd y)
  | _, _ => false
  end.
Definition ostr_eqb (a b : option string) : bool :=
  match a, b with
  | None, None => true
  | Some x, Some y => String.eqb x y
  | _, _ => false
  end.

Definition check_tagsops : P (list Z) :=
  ts <- ptags ;; k <- ppacked ;; has <- pbool ;;
  ftp <- pbool ;; ftk <- ppacked ;; ftv <- ppacked ;;
  mp <- pbool ;; mv <- ppacked ;; ai <- pbool ;;
  let oft := if ftp then Some (ftk, ftv) else None in
  let omv := if mp then Some mv else None in
  let j1 :=
    Bool.eqb (has_tag k ts) has && otag_eqb (find_tag k ts) oft && ostr_eqb (tags_map ts k) omv
    && Bool.eqb (any_interesting_now ts) ai in
  (* oracle on tag sets, by membership only *)
  let present := listed k (keys ts) in
  let j2 :=
    if nodupb (keys ts) then
      Bool.eqb has present
      && otag_eqb oft (if present then Some (k, lookup ts k) else None)
      && ostr_eqb omv (if present then Some (lookup ts k) else None)
      && Bool.eqb ai (existsb (fun t => negb (listed (fst t) uninteresting_tags)) ts)
    else true in
  ret (code_if j1 1 ++ code_if j2 2)%list.

Definition check_unint : P (list Z) :=
  l <- plist ppacked ;;
  ret (code_if (subsetb l uninteresting_tags && subsetb uninteresting_tags l) 1).

(* ---- TABLE ---- *)
Definition prt_rule : P rule :=
  k <- ppacked ;; c <- ppacked ;; vs <- plist ppacked ;; ret (mkRule k (decode_cond c) vs).

Definition phs_rule : P rule :=
  k <- ppacked ;; c <- pint ;; vs <- plist ppacked ;;
  ret (mkRule k (if c =? 0 then CAll else if c =? 1 then CWhitelist else if c =? 2 then CBlacklist else COther) vs).

Definition check_table : P (list Z) :=
  n_all <- ppacked ;; n_white <- ppacked ;; n_black <- ppacked ;;
  rt <- plist prt_rule ;; hs <- plist phs_rule ;;
  let j1 :=
    String.eqb n_all cond_all && String.eqb n_white cond_whitelist && String.eqb n_black cond_blacklist
    && rules_eqb rt RT in
  let j2 := table_sortedb rt && table_matchesb rt SpecTable in
  let j3 := table_matchesb hs SpecTable in
  ret (code_if j1 1 ++ code_if j2 2 ++ code_if j3 3)%list.

Definition check_case (t : toks) : list Z :=
  match t with
  | tag :: rest =>
      let p := if tag =? 2 then check_way
               else if tag =? 4 then check_rel
               else if tag =? 6 then check_table
               else if tag =? 8 then check_find
               else if tag =? 10 then check_tagsops
               else if tag =? 12 then check_unint
               else if tag =? 14 then check_wseq
               else pfail in
      match parse_all p rest with Some codes => codes | None => [0] end
  | [] => [0]
  end.
