(* C18/StrOrder.v — the bytewise order on strings ([String.compare], what Go's < on strings
   computes) is a total order; boolean sortedness; insertion sort returns THE sorted
   permutation. *)
From Coq Require Import String Ascii List Bool Arith NArith Lia Permutation.
From Verif Require Import C18.Model C18.Spec C18.Equiv.
Import ListNotations.

(* ---------- comparison facts ---------- *)

Lemma ascii_compare_refl (a : ascii) : Ascii.compare a a = Eq.
Proof. unfold Ascii.compare. apply N.compare_refl. Qed.

Lemma ascii_compare_lt_trans (a b c : ascii) :
  Ascii.compare a b = Lt -> Ascii.compare b c = Lt -> Ascii.compare a c = Lt.
Proof.
  unfold Ascii.compare. rewrite !N.compare_lt_iff. intros Hab Hbc.
  exact (N.lt_trans _ _ _ Hab Hbc).
Qed.

Lemma str_compare_refl (s : string) : String.compare s s = Eq.
Proof.
  induction s as [|a s IH]; [reflexivity|].
  cbn [String.compare]. rewrite ascii_compare_refl. exact IH.
Qed.

Lemma str_compare_lt_trans (a b c : string) :
  String.compare a b = Lt -> String.compare b c = Lt -> String.compare a c = Lt.
Proof.
  revert b c. induction a as [|x a IH]; intros b c Hab Hbc.
  - destruct b as [|y b]; [discriminate|]. destruct c as [|z c]; [discriminate|reflexivity].
  - destruct b as [|y b]; [discriminate|]. destruct c as [|z c]; [discriminate|].
    cbn [String.compare] in *.
    destruct (Ascii.compare x y) eqn:Exy; try discriminate.
    + apply Ascii.compare_eq_iff in Exy. subst y.
      destruct (Ascii.compare x z) eqn:Exz; try discriminate; [|reflexivity].
      exact (IH _ _ Hab Hbc).
    + destruct (Ascii.compare y z) eqn:Eyz; try discriminate.
      * apply Ascii.compare_eq_iff in Eyz. subst z. rewrite Exy. reflexivity.
      * rewrite (ascii_compare_lt_trans _ _ _ Exy Eyz). reflexivity.
Qed.

Lemma ltb_lt (a b : string) : String.ltb a b = true <-> String.compare a b = Lt.
Proof. unfold String.ltb. destruct (String.compare a b); split; intros H; try reflexivity; try discriminate H; try congruence. Qed.

Lemma leb_le (a b : string) : String.leb a b = true <-> String.compare a b <> Gt.
Proof. unfold String.leb. destruct (String.compare a b); split; intros H; try reflexivity; try discriminate H; try congruence. Qed.

Lemma compare_gt_lt (a b : string) : String.compare a b = Gt <-> String.compare b a = Lt.
Proof.
  rewrite (String.compare_antisym b a). destruct (String.compare a b); cbn; split; intros H; try reflexivity; try discriminate H; try congruence.
Qed.

(* a >= x  <->  not (a < x) *)
Lemma ltb_false_leb (a b : string) : String.ltb a b = false <-> String.leb b a = true.
Proof.
  unfold String.ltb, String.leb. rewrite (String.compare_antisym a b).
  destruct (String.compare b a); cbn; split; intros H; try reflexivity; try discriminate H; try congruence.
Qed.

Lemma ltb_irrefl (a : string) : String.ltb a a = false.
Proof. unfold String.ltb. rewrite str_compare_refl. reflexivity. Qed.

Lemma leb_refl (a : string) : String.leb a a = true.
Proof. unfold String.leb. rewrite str_compare_refl. reflexivity. Qed.

Lemma leb_cases (a b : string) : String.leb a b = true -> a = b \/ String.ltb a b = true.
Proof.
  unfold String.leb, String.ltb. destruct (String.compare a b) eqn:E; intros H; try discriminate.
  - left. apply String.compare_eq_iff. exact E.
  - right. reflexivity.
Qed.

Lemma ltb_leb (a b : string) : String.ltb a b = true -> String.leb a b = true.
Proof. unfold String.leb, String.ltb. destruct (String.compare a b); intros H; try reflexivity; discriminate H. Qed.

Lemma ltb_trans (a b c : string) :
  String.ltb a b = true -> String.ltb b c = true -> String.ltb a c = true.
Proof. rewrite !ltb_lt. apply str_compare_lt_trans. Qed.

Lemma leb_ltb_trans (a b c : string) :
  String.leb a b = true -> String.ltb b c = true -> String.ltb a c = true.
Proof.
  intros Hab Hbc. destruct (leb_cases _ _ Hab) as [->|Hlt]; [exact Hbc|].
  exact (ltb_trans _ _ _ Hlt Hbc).
Qed.

Lemma ltb_leb_trans (a b c : string) :
  String.ltb a b = true -> String.leb b c = true -> String.ltb a c = true.
Proof.
  intros Hab Hbc. destruct (leb_cases _ _ Hbc) as [<-|Hlt]; [exact Hab|].
  exact (ltb_trans _ _ _ Hab Hlt).
Qed.

Lemma leb_trans (a b c : string) :
  String.leb a b = true -> String.leb b c = true -> String.leb a c = true.
Proof.
  intros Hab Hbc. destruct (leb_cases _ _ Hab) as [->|Hlt]; [exact Hbc|].
  apply ltb_leb. exact (ltb_leb_trans _ _ _ Hlt Hbc).
Qed.

Lemma leb_false_ltb (a b : string) : String.leb a b = false -> String.ltb b a = true.
Proof.
  intros H. destruct (String.ltb b a) eqn:E; [reflexivity|].
  apply ltb_false_leb in E. congruence.
Qed.

Lemma ltb_not_eq (a b : string) : String.ltb a b = true -> a <> b.
Proof. intros H ->. rewrite ltb_irrefl in H. discriminate. Qed.

(* ---------- sortedness ---------- *)

Lemma sortedb_cons (a : string) (l : list string) :
  sortedb (a :: l) = true -> Forall (fun x => String.leb a x = true) l /\ sortedb l = true.
Proof.
  revert a. induction l as [|b l IH]; intros a H.
  - split; [constructor|reflexivity].
  - cbn [sortedb] in H. apply andb_true_iff in H. destruct H as [Hab Hs].
    destruct (IH b Hs) as [Hall Hs'].
    split; [|exact Hs].
    constructor; [exact Hab|].
    eapply Forall_impl; [|exact Hall]. intros x Hx. exact (leb_trans _ _ _ Hab Hx).
Qed.

Lemma sortedb_cons_intro (a : string) (l : list string) :
  Forall (fun x => String.leb a x = true) l -> sortedb l = true -> sortedb (a :: l) = true.
Proof.
  intros Hall Hs. destruct l as [|b l]; [reflexivity|].
  cbn [sortedb]. apply andb_true_iff. split; [|exact Hs].
  inversion Hall; assumption.
Qed.

(* index form: earlier elements are <= later ones *)
Lemma sortedb_nth (l : list string) :
  sortedb l = true ->
  forall p q u w, p <= q -> nth_error l p = Some u -> nth_error l q = Some w ->
                  String.leb u w = true.
Proof.
  induction l as [|a l IH]; intros Hs p q u w Hpq Hp Hq.
  - destruct p; discriminate.
  - destruct (sortedb_cons _ _ Hs) as [Hall Hs'].
    destruct p as [|p].
    + cbn in Hp. injection Hp as <-.
      destruct q as [|q].
      * cbn in Hq. injection Hq as <-. apply leb_refl.
      * cbn in Hq. rewrite Forall_forall in Hall. apply Hall.
        eapply nth_error_In. exact Hq.
    + destruct q as [|q]; [lia|]. cbn in Hp, Hq.
      apply (IH Hs' p q u w); [lia|exact Hp|exact Hq].
Qed.

(* ---------- insertion sort ---------- *)

Lemma insert_str_perm (x : string) (l : list string) : Permutation (x :: l) (insert_str x l).
Proof.
  induction l as [|y l IH]; cbn [insert_str]; [apply Permutation_refl|].
  destruct (String.leb x y); [apply Permutation_refl|].
  eapply Permutation_trans; [apply perm_swap|]. apply perm_skip. exact IH.
Qed.

Lemma sort_strings_perm (l : list string) : Permutation l (sort_strings l).
Proof.
  induction l as [|x l IH]; cbn [sort_strings fold_right]; [constructor|].
  eapply Permutation_trans; [|apply insert_str_perm]. apply perm_skip. exact IH.
Qed.

Lemma insert_str_sorted (x : string) (l : list string) :
  sortedb l = true -> sortedb (insert_str x l) = true.
Proof.
  induction l as [|y l IH]; intros Hs; [reflexivity|].
  cbn [insert_str]. destruct (String.leb x y) eqn:E.
  - cbn [sortedb]. rewrite E. exact Hs.
  - destruct (sortedb_cons _ _ Hs) as [Hall Hs'].
    apply sortedb_cons_intro; [|exact (IH Hs')].
    assert (Hyx : String.leb y x = true) by (apply ltb_leb, leb_false_ltb; exact E).
    rewrite Forall_forall. intros z Hz.
    apply (Permutation_in _ (Permutation_sym (insert_str_perm x l))) in Hz.
    destruct Hz as [<-|Hz]; [exact Hyx|].
    rewrite Forall_forall in Hall. exact (Hall z Hz).
Qed.

Lemma sort_strings_sorted (l : list string) : sortedb (sort_strings l) = true.
Proof.
  induction l as [|x l IH]; [reflexivity|].
  cbn [sort_strings fold_right]. apply insert_str_sorted. exact IH.
Qed.

Lemma sort_strings_In (l : list string) (x : string) : In x (sort_strings l) <-> In x l.
Proof.
  split; intros H.
  - exact (Permutation_in _ (Permutation_sym (sort_strings_perm l)) H).
  - exact (Permutation_in _ (sort_strings_perm l) H).
Qed.

(* a sorted permutation is unique: whatever algorithm sort.Sort uses, its result on a list of
   strings is this list *)
Lemma sorted_perm_unique (l1 l2 : list string) :
  Permutation l1 l2 -> sortedb l1 = true -> sortedb l2 = true -> l1 = l2.
Proof.
  revert l2. induction l1 as [|a l1 IH]; intros l2 HP H1 H2.
  - apply Permutation_nil in HP. subst. reflexivity.
  - destruct l2 as [|b l2]; [apply Permutation_sym, Permutation_nil in HP; discriminate|].
    destruct (sortedb_cons _ _ H1) as [Ha H1'].
    destruct (sortedb_cons _ _ H2) as [Hb H2'].
    rewrite Forall_forall in Ha, Hb.
    assert (Hab : a = b).
    { assert (Hin_b : In b (a :: l1)) by (apply (Permutation_in _ (Permutation_sym HP)); left; reflexivity).
      assert (Hin_a : In a (b :: l2)) by (apply (Permutation_in _ HP); left; reflexivity).
      destruct Hin_b as [E|Hin_b]; [exact E|].
      destruct Hin_a as [E|Hin_a]; [symmetry; exact E|].
      apply String.leb_antisym; [exact (Ha _ Hin_b)|exact (Hb _ Hin_a)]. }
    subst b. f_equal. apply IH; [|exact H1'|exact H2'].
    exact (Permutation_cons_inv HP).
Qed.
