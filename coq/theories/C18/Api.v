(* C18/Api.v — stable interface of the C18 development for other properties (C17 uses it to
   decide whether a way is an area).

   Importing this file gives, unchanged and under their own names (they are re-exported, not
   copied): from C18.Model  [tag], [tags], [find], [res]/[Val], [rule], [RT], [way_polygon],
   [waynode]/[wid], [way_polygon_wn], [relation_polygon]; from C18.Spec [spec_polygon],
   [spec_relation], [closed_ring], [keys], [SpecTable]; from C18.Tags [find_tag], [has_tag],
   [tags_map], [any_interesting], [any_interesting_now].
   Also still valid (C17 imports them qualified): C18.Main.way_polygon_RT_bool,
   C18.Main.way_polygon_RT_spec_dups, C18.Proofs.dedup_first.

   On top of that it defines total boolean entry points (no [res] wrapper) together with the
   theorems that justify using them:
     way_is_area nodes ts          = what (Way).Polygon() returns for node refs [nodes], tags [ts]
     relation_is_area ts           = what (Relation).Polygon() returns
   These names, their types and the statements below will not change. *)
From Coq Require Import String List Bool ZArith Permutation.
From Verif Require Export C18.Model C18.Spec C18.Tags.
From Verif Require Import C18.Equiv C18.StrOrder C18.Proofs C18.GenOk C18.Main.
Import ListNotations.
Open Scope string_scope.

Definition way_is_area (nodes : list Z) (ts : tags) : bool :=
  spec_polygonb nodes (fun k => find k ts).

Definition relation_is_area (ts : tags) : bool := relation_polygon ts.

(* it is the code's answer (model of Way.Polygon on the table of the code as it is now):
   for all node lists and all tag lists, the function returns normally with this value *)
Theorem way_is_area_is_the_model : forall (nodes : list Z) (ts : tags),
  way_polygon RT nodes ts = Val (way_is_area nodes ts).
Proof. exact way_polygon_RT_bool. Qed.

Theorem way_is_area_waynodes : forall (ns : list waynode) (ts : tags),
  way_polygon_wn RT ns ts = Val (way_is_area (map wid ns) ts).
Proof. exact way_polygon_wn_RT_bool. Qed.

(* the main specification theorem: on tag sets it is the published rule *)
Theorem way_is_area_spec : forall (nodes : list Z) (ts : tags),
  NoDup (keys ts) -> (way_is_area nodes ts = true <-> spec_polygon nodes ts).
Proof. intros nodes ts H. exact (spec_polygonb_iff nodes ts H). Qed.

(* any tag list: first tag per key *)
Theorem way_is_area_spec_any : forall (nodes : list Z) (ts : tags),
  way_is_area nodes ts = true <-> spec_polygon nodes (dedup_first ts).
Proof.
  intros nodes ts.
  destruct (way_polygon_RT_spec_dups nodes ts) as [b [Hb Hiff]].
  rewrite way_is_area_is_the_model in Hb. injection Hb as Hb. rewrite Hb. exact Hiff.
Qed.

(* useful consequences *)
Theorem way_is_area_closed : forall (nodes : list Z) (ts : tags),
  way_is_area nodes ts = true -> closed_ring nodes.
Proof.
  intros nodes ts H. unfold way_is_area, spec_polygonb in H.
  apply andb_true_iff in H. apply closed_ringb_iff. exact (proj1 H).
Qed.

Theorem way_is_area_perm : forall (nodes : list Z) (ts ts' : tags),
  Permutation ts ts' -> NoDup (keys ts) -> way_is_area nodes ts = way_is_area nodes ts'.
Proof.
  intros nodes ts ts' HP Hnd.
  pose proof (way_polygon_perm RT nodes ts ts' HP Hnd) as H.
  rewrite !way_is_area_is_the_model in H. injection H as H. exact H.
Qed.

Theorem relation_is_area_spec : forall ts : tags,
  NoDup (keys ts) -> (relation_is_area ts = true <-> spec_relation ts).
Proof. exact relation_polygon_iff. Qed.

Theorem relation_is_area_find : forall ts : tags,
  relation_is_area ts = true <-> find "type" ts = "multipolygon" \/ find "type" ts = "boundary".
Proof.
  intros ts. unfold relation_is_area, relation_polygon. rewrite orb_true_iff, !String.eqb_eq. reflexivity.
Qed.
