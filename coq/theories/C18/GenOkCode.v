(* C18/GenOkCode.v — the bodies of Way.Polygon, Relation.Polygon (polygon.go) and Tags.Find,
   FindTag, HasTag, Map, AnyInteresting (tag.go), regenerated from /repo's source on every run
   (VerifGen.GenPolygonCode, translator/cmd/polygoncode with tr/loops.go), equal the hand
   models of C18/Model.v and C18/Tags.v, for all inputs.  The rule table is a parameter: a list
   of (key, condition string, values) as the Go code holds it; the model's table is its image
   under [decode_rule].  Results of functions that may panic are options ([res_opt]).

   The proof of Way.Polygon is SEMANTIC: it does not follow the shape of the generated term.
   Helpers of the Go package are inlined by the translator, index loops over a slice are
   normalised to element loops (cmd/polygoncode/normalise.go), and the script
     - decides the ring part by cases on the length and the two end nodes,
     - captures whatever loop body the source has and proves, by induction on the table and for
       every loop state, that the loop computes the model's [rule_loop]; one step is a case
       analysis on the atoms the MODEL tests (value empty / "no", the three condition names, the
       search result — shown total, so it may be computed before or inside the condition tests —,
       index = length, the element at the index), each leaf closed by computation,
     - decides the area part by cases.
   So extracted helpers, switch vs if-chain, inverted guards, index vs range loops, a shared
   [listed] for both list tests, reordered tests all leave the script valid; a change of meaning
   leaves some leaf unprovable. *)
From Coq Require Import ZArith String List Bool Arith Lia.
From Verif Require Import Base.GenLoop C18.Model C18.Tags C18.GenSupport.
From VerifGen Require Import GenPolygon GenPolygonCode.
Import ListNotations.
Open Scope string_scope.

(* ---- tag.go ---- *)
Lemma gen_tags_find_ok ts k : gen_tags_find ts k = find k ts.
Proof.
  unfold gen_tags_find. induction ts as [|[k' v] r IH]; [reflexivity|].
  rewrite loop_fold_cons. cbn [fst snd find]. destruct (String.eqb k' k); [reflexivity|exact IH].
Qed.

Lemma gen_tags_find_tag_ok ts k : gen_tags_find_tag ts k = find_tag k ts.
Proof.
  unfold gen_tags_find_tag. induction ts as [|t r IH]; [reflexivity|].
  rewrite loop_fold_cons. cbn [find_tag]. destruct (String.eqb (fst t) k); [reflexivity|exact IH].
Qed.

Lemma gen_tags_has_tag_ok ts k : gen_tags_has_tag ts k = has_tag k ts.
Proof.
  unfold gen_tags_has_tag. induction ts as [|t r IH]; [reflexivity|].
  rewrite loop_fold_cons. cbn [has_tag]. destruct (String.eqb (fst t) k); [reflexivity|exact IH].
Qed.

Lemma gen_tags_map_ok ts : gen_tags_map ts = tags_map ts.
Proof. reflexivity. Qed.

Lemma gen_tags_any_interesting_ok ts : gen_tags_any_interesting ts = any_interesting_now ts.
Proof.
  unfold gen_tags_any_interesting, any_interesting_now. induction ts as [|t r IH]; [reflexivity|].
  rewrite loop_fold_cons. cbn [any_interesting]. cbv zeta.
  destruct (uninteresting uninteresting_tags (fst t)); cbn [negb]; [exact IH|reflexivity].
Qed.

(* ---- polygon.go ---- *)
Lemma gen_relation_polygon_ok ts : gen_relation_polygon ts = relation_polygon ts.
Proof.
  unfold gen_relation_polygon, relation_polygon, gr_tags. cbv beta zeta.
  rewrite ?gen_tags_find_ok. reflexivity.
Qed.

Lemma Z_of_nat_eqb (a b : nat) : (Z.of_nat a =? Z.of_nat b)%Z = (a =? b)%nat.
Proof.
  destruct (a =? b)%nat eqn:E.
  - apply Nat.eqb_eq in E. subst. apply Z.eqb_refl.
  - apply Nat.eqb_neq in E. apply Z.eqb_neq. lia.
Qed.

Lemma Z_of_nat_leb3 (n : nat) : (Z.of_nat n <=? 3)%Z = (n <=? 3)%nat.
Proof.
  destruct (n <=? 3)%nat eqn:E.
  - apply Nat.leb_le in E. apply Z.leb_le. lia.
  - apply Nat.leb_gt in E. apply Z.leb_gt. lia.
Qed.

Lemma Z_3_ltb_of_nat (n : nat) : (3 <? Z.of_nat n)%Z = negb (n <=? 3)%nat.
Proof.
  destruct (n <=? 3)%nat eqn:E; cbn [negb].
  - apply Nat.leb_le in E. apply Z.ltb_ge. lia.
  - apply Nat.leb_gt in E. apply Z.ltb_lt. lia.
Qed.

Lemma Z_of_nat_ltb (a b : nat) : (Z.of_nat a <? Z.of_nat b)%Z = (a <? b)%nat.
Proof.
  destruct (a <? b)%nat eqn:E.
  - apply Nat.ltb_lt in E. apply Z.ltb_lt. lia.
  - apply Nat.ltb_ge in E. apply Z.ltb_ge. lia.
Qed.

(* the search is total on EVERY list (sorted or not): it returns an index in [0, len] *)
Lemma search_loop_total : forall fuel a x i j,
  (i <= j)%nat -> (j <= List.length a)%nat -> (j - i <= fuel)%nat ->
  exists k, search_loop fuel a x i j = Val k /\ (i <= k <= j)%nat.
Proof.
  induction fuel as [|f IH]; intros a x i j Hij Hj Hf; cbn [search_loop].
  - assert (i = j) by lia. subst. rewrite Nat.ltb_irrefl. exists j. split; [reflexivity|lia].
  - destruct (i <? j)%nat eqn:E.
    + apply Nat.ltb_lt in E.
      assert (Hh : (i <= (i + j) / 2 < j)%nat).
      { split; [apply Nat.div_le_lower_bound; lia|apply Nat.div_lt_upper_bound; lia]. }
      destruct (nth_error a ((i + j) / 2)) as [u|] eqn:Eu.
      2:{ apply nth_error_None in Eu. lia. }
      destruct (String.ltb u x).
      * destruct (IH a x ((i + j) / 2 + 1)%nat j) as [k [Hk Hr]]; try lia. exists k. split; [exact Hk|lia].
      * destruct (IH a x i ((i + j) / 2)%nat) as [k [Hk Hr]]; try lia. exists k. split; [exact Hk|lia].
    + exists i. split; [reflexivity|]. apply Nat.ltb_ge in E. lia.
Qed.

Lemma search_strings_total a x :
  exists k, search_strings a x = Val k /\ (k <= List.length a)%nat.
Proof.
  unfold search_strings.
  destruct (search_loop_total (List.length a) a x 0 (List.length a)) as [k [Hk Hr]]; try lia.
  exists k. split; [exact Hk|lia].
Qed.

Lemma ltb_as_eqb (i n : nat) : (i <= n)%nat -> (i <? n)%nat = negb (i =? n)%nat.
Proof.
  intros H. destruct (i =? n)%nat eqn:E.
  - apply Nat.eqb_eq in E. subst. apply Nat.ltb_irrefl.
  - apply Nat.eqb_neq in E. apply Nat.ltb_lt. lia.
Qed.

Local Ltac simp := cbn [oand oor olift2 option_map negb andb orb res_opt fst snd].

(* one rule of the table: every atom the model tests, then computation *)
Local Ltac rule_step IH c ts :=
  cbv beta zeta; rewrite ?gen_tags_find_ok;
  change (rkey (decode_rule c)) with (rr_key c);
  set (v := find (rr_key c) ts);
  unfold rule_fires;
  change (rcond (decode_rule c)) with (decode_cond (rr_cond c));
  change (rvalues (decode_rule c)) with (rr_values c);
  unfold decode_cond, search_strings_z;
  let i := fresh "i" in let Es := fresh "Es" in let Hle := fresh "Hle" in
  destruct (search_strings_total (rr_values c) v) as [i [Es Hle]];
  rewrite ?Es; rewrite ?Z_of_nat_eqb, ?Z_of_nat_ltb, ?get_at_nat, ?(ltb_as_eqb _ _ Hle);
  let Ea := fresh "Ea" in let Ew := fresh "Ew" in let Eb := fresh "Eb" in
  let Ei := fresh "Ei" in let En := fresh "En" in
  destruct (String.eqb v ""); destruct (String.eqb v "no");
  destruct (String.eqb (rr_cond c) cond_all) eqn:Ea;
  destruct (String.eqb (rr_cond c) cond_whitelist) eqn:Ew;
  destruct (String.eqb (rr_cond c) cond_blacklist) eqn:Eb;
  destruct (i =? List.length (rr_values c))%nat eqn:Ei;
  destruct (nth_error (rr_values c) i) as [?u|] eqn:En;
  simp;
  try match goal with |- context [String.eqb ?u v] => destruct (String.eqb u v) end;
  simp;
  first [ reflexivity
        | apply IH
        | (* two different condition names cannot both match *)
          exfalso; apply String.eqb_eq in Ew; apply String.eqb_eq in Eb; rewrite Ew in Eb;
          unfold cond_whitelist, cond_blacklist in Eb; discriminate Eb
        | exfalso; apply String.eqb_eq in Ea; apply String.eqb_eq in Ew; rewrite Ea in Ew;
          unfold cond_all, cond_whitelist in Ew; discriminate Ew
        | exfalso; apply String.eqb_eq in Ea; apply String.eqb_eq in Eb; rewrite Ea in Eb;
          unfold cond_all, cond_blacklist in Eb; discriminate Eb
        | (* the search result is a valid index unless it is the length *)
          exfalso; apply nth_error_None in En; apply Nat.eqb_neq in Ei; lia ].

Theorem gen_way_polygon_ok (T : list raw_rule) (nodes : list waynode) (ts : tags) :
  gen_way_polygon T (nodes, ts) = res_opt (way_polygon_wn (map decode_rule T) nodes ts).
Proof.
  unfold gen_way_polygon, way_polygon_wn, gw_nodes, gw_tags. cbn [fst snd]. cbv beta zeta.
  rewrite ?gen_tags_find_ok.
  (* the rule loop, whatever its body and its state *)
  match goal with
  | |- context [loop_fold ?F T ?s0] =>
      assert (HL : forall st,
                 match loop_fold F T st with LRet r => r | LNext _ => Some false end
                 = res_opt (rule_loop (map decode_rule T) ts))
  end.
  { induction T as [|c T IH]; intros st; [reflexivity|].
    rewrite loop_fold_cons. cbn [map rule_loop]. rule_step IH c ts. }
  (* the ring *)
  rewrite ?Z_of_nat_leb3, ?Z_3_ltb_of_nat.
  destruct (List.length nodes <=? 3)%nat eqn:Elen; simp; [reflexivity|].
  apply Nat.leb_gt in Elen.
  change 0%Z with (Z.of_nat 0). rewrite ?get_at_nat.
  replace (Z.of_nat (List.length nodes) - 1)%Z with (Z.of_nat (List.length nodes - 1)) by lia.
  rewrite ?get_at_nat.
  destruct (nth_error nodes 0) as [a|]; simp; [|reflexivity].
  destruct (nth_error nodes (List.length nodes - 1)) as [b|]; simp; [|reflexivity].
  destruct (wid a =? wid b)%Z; simp; [|reflexivity].
  (* the area tag and the loop *)
  cbv beta. rewrite ?HL.
  destruct (String.eqb (find "area" ts) "no"); simp; [reflexivity|].
  destruct (String.eqb (find "area" ts) ""); simp; [|reflexivity].
  destruct (rule_loop (map decode_rule T) ts) as [[]| |]; reflexivity.
Qed.

(* with the table of the code as it is now: the raw table is the source table with each value
   list sorted (what init() does), and its image under decode_rule is the model's RT *)
Definition raw_table_now : list raw_rule :=
  map (fun r : string * string * list string => let '(k, c, vs) := r in (k, c, sort_strings vs)) poly_json_rules.

Lemma raw_table_now_is_RT : map decode_rule raw_table_now = RT.
Proof.
  unfold raw_table_now, RT, init_table. rewrite map_map. apply map_ext.
  intros [[k c] vs]. reflexivity.
Qed.

Corollary gen_way_polygon_now nodes ts :
  gen_way_polygon raw_table_now (nodes, ts) = res_opt (way_polygon_wn RT nodes ts).
Proof. rewrite gen_way_polygon_ok, raw_table_now_is_RT. reflexivity. Qed.
