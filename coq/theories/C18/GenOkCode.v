(* C18/GenOkCode.v — the bodies of Way.Polygon, Relation.Polygon (polygon.go) and Tags.Find,
   FindTag, HasTag, Map, AnyInteresting (tag.go), regenerated from /repo's source on every run
   (VerifGen.GenPolygonCode, translator/cmd/polygoncode with tr/loops.go), equal the hand
   models of C18/Model.v and C18/Tags.v, for all inputs.  The rule table is a parameter: a list
   of (key, condition string, values) as the Go code holds it; the model's table is its image
   under [decode_rule].  Results of functions that may panic are options ([res_opt]). *)
From Coq Require Import ZArith String List Bool Arith Lia.
From Verif Require Import Base.GenLoop C18.Model C18.Tags C18.GenSupport.
From VerifGen Require Import GenPolygon GenPolygonCode.
Import ListNotations.
Open Scope string_scope.

(* ---- tag.go ---- *)
Lemma gen_tags_find_ok ts k : gen_tags_find ts k = find k ts.
Proof.
  unfold gen_tags_find. induction ts as [|[k' v] r IH]; [reflexivity|].
  rewrite loop_fold_cons. cbn [fst snd find]. destruct (String.eqb k' k); [reflexivity|exact IH].
Qed.

Lemma gen_tags_find_tag_ok ts k : gen_tags_find_tag ts k = find_tag k ts.
Proof.
  unfold gen_tags_find_tag. induction ts as [|t r IH]; [reflexivity|].
  rewrite loop_fold_cons. cbn [find_tag]. destruct (String.eqb (fst t) k); [reflexivity|exact IH].
Qed.

Lemma gen_tags_has_tag_ok ts k : gen_tags_has_tag ts k = has_tag k ts.
Proof.
  unfold gen_tags_has_tag. induction ts as [|t r IH]; [reflexivity|].
  rewrite loop_fold_cons. cbn [has_tag]. destruct (String.eqb (fst t) k); [reflexivity|exact IH].
Qed.

Lemma gen_tags_map_ok ts : gen_tags_map ts = tags_map ts.
Proof. reflexivity. Qed.

Lemma gen_tags_any_interesting_ok ts : gen_tags_any_interesting ts = any_interesting_now ts.
Proof.
  unfold gen_tags_any_interesting, any_interesting_now. induction ts as [|t r IH]; [reflexivity|].
  rewrite loop_fold_cons. cbn [any_interesting]. cbv zeta.
  destruct (uninteresting uninteresting_tags (fst t)); cbn [negb]; [exact IH|reflexivity].
Qed.

(* ---- polygon.go ---- *)
Lemma gen_relation_polygon_ok ts : gen_relation_polygon ts = relation_polygon ts.
Proof. unfold gen_relation_polygon, relation_polygon. cbv zeta. rewrite gen_tags_find_ok. reflexivity. Qed.

Lemma Z_of_nat_eqb (a b : nat) : (Z.of_nat a =? Z.of_nat b)%Z = (a =? b)%nat.
Proof.
  destruct (a =? b)%nat eqn:E.
  - apply Nat.eqb_eq in E. subst. apply Z.eqb_refl.
  - apply Nat.eqb_neq in E. apply Z.eqb_neq. lia.
Qed.

Lemma Z_of_nat_leb3 (n : nat) : (Z.of_nat n <=? 3)%Z = (n <=? 3)%nat.
Proof.
  destruct (n <=? 3)%nat eqn:E.
  - apply Nat.leb_le in E. apply Z.leb_le. lia.
  - apply Nat.leb_gt in E. apply Z.leb_gt. lia.
Qed.

Lemma Z_of_nat_ltb (a b : nat) : (Z.of_nat a <? Z.of_nat b)%Z = (a <? b)%nat.
Proof.
  destruct (a <? b)%nat eqn:E.
  - apply Nat.ltb_lt in E. apply Z.ltb_lt. lia.
  - apply Nat.ltb_ge in E. apply Z.ltb_ge. lia.
Qed.

(* the search returns an index inside [0, len] whatever the list (sorted or not) *)
Lemma search_loop_range : forall fuel a x i j k,
  (i <= j)%nat -> search_loop fuel a x i j = Val k -> (i <= k <= j)%nat.
Proof.
  induction fuel as [|f IH]; intros a x i j k Hij H; cbn [search_loop] in H.
  - destruct (i <? j)%nat eqn:E; [discriminate|]. inversion H; subst. apply Nat.ltb_ge in E. lia.
  - destruct (i <? j)%nat eqn:E.
    + apply Nat.ltb_lt in E.
      assert (Hh : (i <= (i + j) / 2 < j)%nat).
      { split; [apply Nat.div_le_lower_bound; lia|apply Nat.div_lt_upper_bound; lia]. }
      destruct (nth_error a ((i + j) / 2)) as [u|]; [|discriminate].
      destruct (String.ltb u x).
      * apply IH in H; lia.
      * apply IH in H; lia.
    + inversion H; subst. lia.
Qed.

Lemma search_strings_le a x k : search_strings a x = Val k -> (k <= List.length a)%nat.
Proof. intro H. apply search_loop_range in H; lia. Qed.

Theorem gen_way_polygon_ok (T : list raw_rule) (nodes : list waynode) (ts : tags) :
  gen_way_polygon T nodes ts = res_opt (way_polygon_wn (map decode_rule T) nodes ts).
Proof.
  unfold gen_way_polygon, way_polygon_wn. cbv zeta. rewrite Z_of_nat_leb3.
  destruct (List.length nodes <=? 3)%nat eqn:Elen; [reflexivity|].
  apply Nat.leb_gt in Elen.
  change 0%Z with (Z.of_nat 0). rewrite get_at_nat.
  replace (Z.of_nat (List.length nodes) - 1)%Z with (Z.of_nat (List.length nodes - 1)) by lia.
  rewrite get_at_nat.
  destruct (nth_error nodes 0) as [a|]; [|reflexivity].
  destruct (nth_error nodes (List.length nodes - 1)) as [b|]; [|reflexivity].
  cbn [option_map olift2]. destruct (wid a =? wid b)%Z; cbn [negb]; [|reflexivity].
  rewrite !gen_tags_find_ok.
  destruct (String.eqb (find "area" ts) "no"); [reflexivity|].
  destruct (String.eqb (find "area" ts) ""); cbn [negb]; [|reflexivity].
  (* the rule loop: the script only uses the tests the model makes, not how the source spells
     or nests them (inline chain, switch, or the helpers matches / sortedContains) *)
  induction T as [|c T IH]; [reflexivity|].
  rewrite loop_fold_cons. cbn [map rule_loop]. cbv zeta. rewrite ?gen_tags_find_ok.
  change (rkey (decode_rule c)) with (rr_key c).
  set (v := find (rr_key c) ts).
  unfold rule_fires.
  change (rcond (decode_rule c)) with (decode_cond (rr_cond c)).
  change (rvalues (decode_rule c)) with (rr_values c). unfold decode_cond, search_strings_z.
  Local Ltac fin IH := cbn [oand oor olift2 option_map negb andb orb]; first [reflexivity | exact IH].
  Local Ltac searched IH c v :=
    let i := fresh "i" in let Es := fresh "Es" in let Hle := fresh "Hle" in let Hlt := fresh "Hlt" in
    destruct (search_strings (rr_values c) v) as [i| |] eqn:Es; [|fin IH|fin IH];
    pose proof (search_strings_le _ _ _ Es) as Hle;
    assert (Hlt : (i <? List.length (rr_values c))%nat = negb (i =? List.length (rr_values c))%nat)
      by (destruct (i =? List.length (rr_values c))%nat eqn:E;
          [apply Nat.eqb_eq in E; rewrite E; apply Nat.ltb_irrefl
          |apply Nat.eqb_neq in E; apply Nat.ltb_lt; lia]);
    rewrite ?Z_of_nat_eqb, ?Z_of_nat_ltb, ?get_at_nat, ?Hlt;
    destruct (i =? List.length (rr_values c))%nat; [fin IH|];
    destruct (nth_error (rr_values c) i); [|fin IH];
    cbn [oand oor olift2 option_map negb andb orb];
    match goal with |- context [String.eqb ?u v] => destruct (String.eqb u v) end; fin IH.
  destruct (String.eqb v "" || String.eqb v "no"); [fin IH|].
  destruct (String.eqb (rr_cond c) cond_all); [fin IH|].
  destruct (String.eqb (rr_cond c) cond_whitelist); [searched IH c v|].
  destruct (String.eqb (rr_cond c) cond_blacklist); [searched IH c v|].
  fin IH.
Qed.

(* with the table of the code as it is now: the raw table is the source table with each value
   list sorted (what init() does), and its image under decode_rule is the model's RT *)
Definition raw_table_now : list raw_rule :=
  map (fun r : string * string * list string => let '(k, c, vs) := r in (k, c, sort_strings vs)) poly_json_rules.

Lemma raw_table_now_is_RT : map decode_rule raw_table_now = RT.
Proof.
  unfold raw_table_now, RT, init_table. rewrite map_map. apply map_ext.
  intros [[k c] vs]. reflexivity.
Qed.

Corollary gen_way_polygon_now nodes ts :
  gen_way_polygon raw_table_now nodes ts = res_opt (way_polygon_wn RT nodes ts).
Proof. rewrite gen_way_polygon_ok, raw_table_now_is_RT. reflexivity. Qed.
