(* C14/ProofsProto.v — the producer's program is the walk (its sends are the ids emitted), and
   the producer / Next / Close / cancel transition system over it. *)
From Coq Require Import ZArith List Bool Lia.
From Verif Require Import C14.Model C14.Proofs.
Import ListNotations.
Open Scope Z_scope.

Lemma sends_app : forall a b, sends (a ++ b) = sends a ++ sends b.
Proof.
  induction a as [|x a IH]; intros b; [reflexivity|]. destruct x; cbn [app sends]; rewrite IH; reflexivity.
Qed.

Section Prog.
  Variable ds : Z -> hist.

  Definition proj (r : status * list Z * list act) : status * list Z * list Z :=
    match r with (s, v, a) => (s, v, sends a) end.

  Lemma loop_t_loop : forall rec_t rec x p,
    (forall mid pp vis, proj (rec_t mid pp vis) = rec mid pp vis) ->
    forall ms vis acts,
      proj (walk_loop_t rec_t x p ms vis acts) = walk_loop rec x p ms vis (sends acts).
  Proof.
    intros rec_t rec x p Hrec. induction ms as [|mid rest IH]; intros vis acts.
    - cbn [walk_loop_t walk_loop proj]. rewrite sends_app. reflexivity.
    - cbn [walk_loop_t walk_loop]. destruct (memZ mid p); [reflexivity|].
      specialize (Hrec mid (p ++ [mid]) vis).
      destruct (rec_t mid (p ++ [mid]) vis) as [[s v] a]. cbn [proj] in Hrec. rewrite <- Hrec.
      destruct s; [rewrite IH, sends_app; reflexivity| |]; cbn [proj]; rewrite sends_app; reflexivity.
  Qed.

  (* the actions of walk_t project to what walk computes: same status, same visited set, and the
     ids sent are the sends *)
  Lemma walk_t_walk : forall fuel x p vis, proj (walk_t ds fuel x p vis) = walk ds fuel x p vis.
  Proof.
    induction fuel as [|f IH]; intros x p vis; [reflexivity|].
    cbn [walk_t walk]. destruct (memZ x vis); [reflexivity|].
    destruct (ds x) as [vs| |]; [|reflexivity|reflexivity].
    rewrite (loop_t_loop (walk_t ds f) (walk ds f) x p IH). reflexivity.
  Qed.

  Lemma order_from_t_order : forall fuel ids vis,
    proj (order_from_t ds fuel ids vis) = order_from ds fuel ids vis.
  Proof.
    intros fuel. induction ids as [|i rest IH]; intros vis; [reflexivity|].
    cbn [order_from_t order_from]. pose proof (walk_t_walk fuel i [] vis) as W.
    destruct (walk_t ds fuel i [] vis) as [[s v] a]. cbn [proj] in W. rewrite <- W.
    destruct s; [|reflexivity|reflexivity].
    specialize (IH v). destruct (order_from_t ds fuel rest v) as [[s2 v2] a2]. cbn [proj] in IH.
    rewrite <- IH. cbn [proj]. rewrite sends_app. reflexivity.
  Qed.

  Theorem program_order : forall fuel ids,
    order ds fuel ids = (fst (program ds fuel ids), sends (snd (program ds fuel ids))).
  Proof.
    intros fuel ids. unfold order, program. pose proof (order_from_t_order fuel ids []) as H.
    destruct (order_from_t ds fuel ids []) as [[s v] a]. cbn [proj] in H. rewrite <- H. reflexivity.
  Qed.
End Prog.

(* ------------------------------------------------------------------ producer / Next / Close / cancel *)

Lemma lbs_le : forall p, (lookups_before_send p <= length p)%nat.
Proof. induction p as [|a p IH]; [cbn; lia|]. destruct a; cbn [lookups_before_send length]; lia. Qed.

(* once the context is cancelled every step brings the producer closer to having returned *)
Theorem cancelled_steps_down : forall s s',
  cancelled s = true -> step s s' ->
  cancelled s' = true /\
  (after_cancel_bound (prod s') < after_cancel_bound (prod s))%nat /\
  (received s' = received s \/
   exists id p, prod s = PSend id p /\ received s' = received s ++ [id]).
Proof.
  intros s s' Hc H. inversion H; subst; cbn [cancelled prod received after_cancel_bound lookups_before_send] in *;
    try discriminate; (split; [assumption || reflexivity|]); (split; [lia|]); try (left; reflexivity).
  right. exists id, p. split; reflexivity.
Qed.

(* no deadlock: a cancelled system whose producer has not returned can always move *)
Theorem cancelled_progress : forall s,
  cancelled s = true -> prod s <> PDone -> exists s', step s s'.
Proof.
  intros [p c r] Hc Hp. cbn in *. subst c. destruct p as [prog|prog|id prog|].
  - destruct prog as [|[|id] prog].
    + eexists. apply st_walk_end.
    + eexists. apply st_lookup_start.
    + eexists. apply st_walk_cancelled.
  - eexists. apply st_lookup_return.
  - eexists. apply st_send_cancelled.
  - contradiction.
Qed.

(* a returned producer stays returned and nothing is delivered any more *)
Theorem done_is_final : forall s s', prod s = PDone -> step s s' ->
  prod s' = PDone /\ received s' = received s.
Proof. intros s s' Hp H. inversion H; subst; cbn in *; try discriminate; split; assumption || reflexivity. Qed.

Inductive steps : nat -> sys -> sys -> Prop :=
| steps_O : forall s, steps O s s
| steps_S : forall n s s' s'', step s s' -> steps n s' s'' -> steps (S n) s s''.

Lemma steps_cancelled : forall n s s', cancelled s = true -> steps n s s' ->
  cancelled s' = true /\ (n + after_cancel_bound (prod s') <= after_cancel_bound (prod s))%nat.
Proof.
  intros n s s' Hc H. induction H as [s|n s s1 s2 H1 H2 IH]; [split; [exact Hc|lia]|].
  destruct (cancelled_steps_down s s1 Hc H1) as (C1 & C2 & _). destruct (IH C1) as (I1 & I2).
  split; [exact I1|lia].
Qed.

(* Close / cancel at any point: after the cancellation only finitely many steps are possible --
   at most the lookups left before the next send, each started and returned, plus two -- and at
   most ONE more id is delivered (to a Next that was already waiting when the context was
   cancelled); the run cannot get stuck before the producer has returned (cancelled_progress) *)
Theorem close_terminates : forall s n s',
  cancelled s = true -> steps n s s' ->
  (n <= after_cancel_bound (prod s))%nat /\ cancelled s' = true /\
  (received s' = received s \/ exists id p, prod s = PSend id p /\ received s' = received s ++ [id]).
Proof.
  intros s n s' Hc H. destruct (steps_cancelled n s s' Hc H) as (C & B). split; [lia|]. split; [exact C|].
  clear B C. induction H as [s|n s s1 s2 H1 H2 IH]; [left; reflexivity|].
  destruct (cancelled_steps_down s s1 Hc H1) as (C1 & _ & R1).
  destruct (IH C1) as [R2|(id & p & P2 & R2)].
  - destruct R1 as [R1|R1]; [left; congruence|].
    destruct R1 as (id & p & P & R). right. exists id, p. split; [exact P|congruence].
  - (* a second delivery would need the producer to be in PSend again after a cancelled step *)
    exfalso. inversion H1; subst; cbn [prod cancelled] in *; try discriminate.
Qed.

Theorem close_bound_program : forall prog c r, 
  (after_cancel_bound (prod {| prod := PRun prog; cancelled := c; received := r |}) <= 2 * length prog + 1)%nat.
Proof. intros prog c r. cbn. pose proof (lbs_le prog). lia. Qed.
