(* C14/ProofsTerm.v — the walk never runs out of fuel above (#relations with history) + 3;
   the datasource error status only appears when the datasource fails; and the
   producer / Next / Close / cancel transition system. *)
From Coq Require Import ZArith List Bool Lia.
From Verif Require Import C14.Model C14.Proofs.
Import ListNotations.
Open Scope Z_scope.

Section Term.
  Variable ds : Z -> hist.
  (* a list holding every id with a history *)
  Variable hs : list Z.
  Hypothesis hs_all : forall id, has_history ds id = true -> In id hs.

  Lemma in_removelast_or_last : forall (p : list Z) y d, In y p -> In y (removelast p) \/ y = last p d.
  Proof.
    intros p y d H. destruct p as [|a p]; [destruct H|].
    rewrite (app_removelast_last d) in H at 1 by discriminate.
    apply in_app_or in H. destruct H as [H|[H|[]]]; [left; exact H|right; symmetry; exact H].
  Qed.

  Lemma path_short : forall p, NoDup p -> (forall y, In y (removelast p) -> has_history ds y = true) ->
    (length p <= length hs + 1)%nat.
  Proof.
    intros p Hnd Hh.
    assert (length (removelast p) <= length hs)%nat.
    { apply NoDup_incl_length.
      - destruct p as [|a p]; [constructor|].
        rewrite (app_removelast_last 0) in Hnd by discriminate.
        assert (N : NoDup (removelast (a :: p) ++ [])) by (apply NoDup_remove_1 with (a := last (a :: p) 0); exact Hnd).
        rewrite app_nil_r in N. exact N.
      - intros y Hy. apply hs_all. apply Hh. exact Hy. }
    destruct p as [|a p]; [cbn; lia|].
    rewrite (app_removelast_last 0) at 1 by discriminate. rewrite app_length. cbn [length]. lia.
  Qed.

  Definition path_ok (x : Z) (p : list Z) : Prop :=
    NoDup p /\ (forall y, In y (removelast p) -> has_history ds y = true) /\ (p = [] \/ last p 0 = x).

  Lemma loop_fuel : forall rec x p,
    has_history ds x = true -> path_ok x p ->
    (forall mid vis, path_ok mid (p ++ [mid]) -> st_of (rec mid (p ++ [mid]) vis) <> SFuel) ->
    forall ms vis out, st_of (walk_loop rec x p ms vis out) <> SFuel.
  Proof.
    intros rec x p Hx (P1 & P2 & P3) Hrec. induction ms as [|mid rest IH]; intros vis out.
    - cbn. discriminate.
    - cbn [walk_loop]. destruct (memZ mid p) eqn:E; [cbn; discriminate|].
      apply memZ_not_In in E.
      assert (Hok : path_ok mid (p ++ [mid])).
      { split; [|split].
        - apply nodup_app; [exact P1|constructor; [intros []|constructor]|].
          intros y Hy [Hm|[]]. subst y. contradiction.
        - rewrite removelast_last. intros y Hy.
          destruct (in_removelast_or_last p y 0 Hy) as [H|H]; [apply P2; exact H|].
          destruct P3 as [P3|P3]; [subst p; destruct Hy|]. rewrite P3 in H. subst y. exact Hx.
        - right. apply last_last. }
      specialize (Hrec mid vis Hok).
      destruct (rec mid (p ++ [mid]) vis) as [[s v] o]. cbn [st_of fst] in Hrec.
      destruct s; [apply IH|cbn; discriminate|contradiction].
  Qed.

  Lemma walk_fuel : forall fuel x p vis,
    path_ok x p -> (length hs + 3 <= fuel + length p)%nat ->
    st_of (walk ds fuel x p vis) <> SFuel.
  Proof.
    induction fuel as [|f IH]; intros x p vis Hok Hf.
    - exfalso. destruct Hok as (P1 & P2 & _). pose proof (path_short p P1 P2). lia.
    - cbn [walk]. destruct (memZ x vis); [cbn; discriminate|].
      destruct (ds x) as [vs| |] eqn:D; [|cbn; discriminate|cbn; discriminate].
      apply loop_fuel; [exact (hist_found ds x vs D)|exact Hok|].
      intros mid vis0 Hok'. apply IH; [exact Hok'|]. rewrite app_length. cbn [length]. lia.
  Qed.

  Lemma order_from_fuel : forall fuel ids vis, (length hs + 3 <= fuel)%nat ->
    st_of (order_from ds fuel ids vis) <> SFuel.
  Proof.
    intros fuel ids. induction ids as [|i rest IH]; intros vis Hf; [cbn; discriminate|].
    cbn [order_from].
    assert (H : st_of (walk ds fuel i [] vis) <> SFuel).
    { apply walk_fuel; [|cbn [length]; lia]. split; [constructor|]. split; [intros y []|left; reflexivity]. }
    destruct (walk ds fuel i [] vis) as [[s v] o]. cbn [st_of fst] in H.
    destruct s; [|cbn; discriminate|contradiction].
    specialize (IH v Hf). destruct (order_from ds fuel rest v) as [[s2 v2] o2]. exact IH.
  Qed.

  Theorem order_terminates : forall fuel ids, (length hs + 3 <= fuel)%nat ->
    fst (order ds fuel ids) <> SFuel.
  Proof.
    intros fuel ids Hf. unfold order. pose proof (order_from_fuel fuel ids [] Hf).
    destruct (order_from ds fuel ids []) as [[s v] o]. exact H.
  Qed.

  (* ---- the error status needs a failing datasource ---- *)
  Hypothesis no_err : forall id, ds id <> HErr.

  Lemma loop_no_err : forall rec x p,
    (forall mid pp vis, st_of (rec mid pp vis) <> SErr) ->
    forall ms vis out, st_of (walk_loop rec x p ms vis out) <> SErr.
  Proof.
    intros rec x p Hrec. induction ms as [|mid rest IH]; intros vis out; [cbn; discriminate|].
    cbn [walk_loop]. destruct (memZ mid p); [cbn; discriminate|].
    specialize (Hrec mid (p ++ [mid]) vis).
    destruct (rec mid (p ++ [mid]) vis) as [[s v] o]. cbn [st_of fst] in Hrec.
    destruct s; [apply IH|contradiction|cbn; discriminate].
  Qed.

  Lemma walk_no_err : forall fuel x p vis, st_of (walk ds fuel x p vis) <> SErr.
  Proof.
    induction fuel as [|f IH]; intros x p vis; [cbn; discriminate|].
    cbn [walk]. destruct (memZ x vis); [cbn; discriminate|].
    destruct (ds x) as [vs| |] eqn:D; [|cbn; discriminate|exfalso; exact (no_err x D)].
    apply loop_no_err. exact IH.
  Qed.

  Theorem order_ok : forall fuel ids, (length hs + 3 <= fuel)%nat -> fst (order ds fuel ids) = SOk.
  Proof.
    intros fuel ids Hf. pose proof (order_terminates fuel ids Hf) as T.
    assert (E : fst (order ds fuel ids) <> SErr).
    { unfold order. clear T. generalize (@nil Z). induction ids as [|i rest IH]; intros vis; [cbn; discriminate|].
      cbn [order_from]. pose proof (walk_no_err fuel i [] vis) as W.
      destruct (walk ds fuel i [] vis) as [[s v] o]. cbn [st_of fst] in W.
      destruct s; [|contradiction|cbn; discriminate].
      specialize (IH v). destruct (order_from ds fuel rest v) as [[s2 v2] o2]. exact IH. }
    destruct (fst (order ds fuel ids)); [reflexivity|contradiction|contradiction].
  Qed.
End Term.


(* CompletedIndex after a run that was not stopped by an error: the index of the last id *)
Lemma completed_from_ok : forall ds fuel ids vis i cur s v o,
  order_from ds fuel ids vis = (s, v, o) -> s = SOk ->
  completed_from ds fuel ids vis i cur = match ids with [] => cur | _ => i + Z.of_nat (length ids) - 1 end.
Proof.
  intros ds fuel. induction ids as [|id rest IH]; intros vis i cur s v o H Hs; [reflexivity|].
  cbn [order_from completed_from] in *.
  destruct (walk ds fuel id [] vis) as [[s1 v1] o1]. destruct s1.
  - destruct (order_from ds fuel rest v1) as [[s2 v2] o2] eqn:O.
    assert (E : s2 = SOk) by congruence.
    rewrite (IH v1 (i + 1) i s2 v2 o2 O E). destruct rest; cbn [length]; lia.
  - inversion H; subst. discriminate.
  - inversion H; subst. discriminate.
Qed.

Theorem completed_index_ok : forall ds fuel ids out,
  order ds fuel ids = (SOk, out) ->
  completed_index ds fuel ids = Z.max 0 (Z.of_nat (length ids) - 1).
Proof.
  intros ds fuel ids out H. unfold order in H. unfold completed_index.
  destruct (order_from ds fuel ids []) as [[s v] o] eqn:O. inversion H; subst.
  rewrite (completed_from_ok ds fuel ids [] 0 0 SOk v out O eq_refl). destruct ids; cbn [length]; lia.
Qed.
