(* C14/Check.v — correspondence + property oracle for one harness case (executable only).

   Case layout (see harness/cmd/c14/main.go):
   1 ORDER : nodes: list of (id, kind (0 history, 2 datasource error), versions: list of list of (isrel, ref))
             requests: list of id;  mode(0 run to the end, 1 Close after k Next, 2 cancel after k Next,
             3 Close while the datasource is inside the lookup of relation k and honours only its context,
             4 cancel then Close after k Next) k
           | emitted: list of id;  err (mode 0: 0 nil, 1 cancelled, 2 datasource error; else 0 nil, 1 non-nil)
             terminated (Next false afterwards, goroutine gone within the deadline)
             CompletedIndex read after Close (mode 0; -1 otherwise)
   codes: 1 = model <> implementation, 2 = property oracle fails on the observation,
          3 = the rank and the closure reading of acyclicity differ (oracle self-check),
          0 = case does not parse. *)
From Coq Require Import ZArith List Bool.
From Verif Require Import Base.Wire C14.Model.
Import ListNotations.
Open Scope Z_scope.
Open Scope wire_scope.

Definition node := (Z * Z * list (list member))%type.

Definition ds_of (nodes : list node) (id : Z) : hist :=
  match find (fun n => fst (fst n) =? id) nodes with
  | Some (_, k, vs) => if k =? 0 then HFound vs else HErr
  | None => HNotFound
  end.

Definition pnode : P node :=
  id <- pint ;; k <- pint ;; vs <- plist (plist (ppair pbool pint)) ;; ret (id, k, vs).

Definition check_order : P (list Z) :=
  nodes <- plist pnode ;; reqs <- plist pint ;; mode <- pint ;; k <- pnat ;;
  seq <- plist pint ;; err <- pint ;; term <- pbool ;; ci <- pint ;;
  let ds := ds_of nodes in
  let ids := map (fun n => fst (fst n)) nodes in
  let n := S (List.length nodes) in
  let '(s, out) := order ds (n + 3) reqs in
  (* mode 3: everything sent before the lookup of relation k = the run in which that lookup fails *)
  let ds3 := fun id => if id =? Z.of_nat k then match ds id with HFound _ => HErr | h => h end else ds id in
  let '(s3, out3) := order ds3 (n + 3) reqs in
  let has_err := existsb (fun nd => negb (snd (fst nd) =? 0)) nodes in
  let j1 :=
    match s with
    | SFuel => false
    | _ =>
        term &&
        if mode =? 0 then list_eqb Z.eqb seq out && (err =? match s with SErr => 2 | _ => 0 end)
                          && (ci =? completed_index ds (n + 3) reqs)
        else if mode =? 3 then list_eqb Z.eqb seq out3 && negb (err =? 0)
                               && match s3 with SFuel => false | _ => true end
        else list_eqb Z.eqb seq (firstn k out) && negb (err =? 0)
    end in
  let j2 :=
    term
    && nodupb seq
    && forallb (has_history ds) seq
    && (if (mode =? 0) && (err =? 0)
        then forallb (fun r => negb (has_history ds r) || memZ r seq) reqs else true)
    && (if mode =? 0 then (err =? 0) || ((err =? 2) && has_err) else negb (err =? 0))
    && (if acyclicb ds ids then members_firstb ds [] seq else true) in
  (* 3: the two executable readings of "acyclic" (rank / closure) and of "children first"
     (members / descendants) agree on this graph (small graphs only: the closures are costly) *)
  let j3 := if (List.length nodes <=? 14)%nat
            then Bool.eqb (acyclicb ds ids) (acyclic_closureb ds ids)
                 && (if acyclicb ds ids then Bool.eqb (members_firstb ds [] seq) (children_firstb ds n [] seq) else true)
            else true in
  ret (code_if j1 1 ++ code_if j2 2 ++ code_if j3 3)%list.

(* 2 BIG : n step nrepeat | count firstdup firstdiff err terminated
   a run too large to ship; the harness compared the emission sequence with its closed form.
   What the theorems say about it (C14_order_nodup, _only_with_history, _complete on a graph in
   which every id 1..n has a history): exactly n ids, none twice, no error. *)
Definition check_big : P (list Z) :=
  n <- pint ;; step <- pint ;; nrep <- pint ;;
  count <- pint ;; firstdup <- pint ;; firstdiff <- pint ;; err <- pint ;; term <- pbool ;;
  let ok := term && (count =? n) && (firstdup =? 0) && (firstdiff =? -1) && (err =? 0) in
  ret (code_if ok 1 ++ code_if ok 2)%list.

Definition check_case (t : toks) : list Z :=
  match t with
  | tag :: rest =>
      let p := if tag =? 2 then check_order else if tag =? 4 then check_big else pfail in   (* tags 1, 2 arrive zigzag-encoded as 2, 4 *)
      match parse_all p rest with Some codes => codes | None => [0] end
  | [] => [0]
  end.
