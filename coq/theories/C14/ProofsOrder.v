(* C14/ProofsOrder.v — children first on acyclic member graphs.

   Acyclicity is stated through a rank (a topological numbering): every member edge between
   two relations with history goes to a strictly smaller rank.  For a finite graph this is
   the same as having no cycle (and no self reference). *)
From Coq Require Import ZArith List Bool Lia.
From Verif Require Import C14.Model C14.Proofs.
Import ListNotations.
Open Scope Z_scope.

Section Order.
  Variable ds : Z -> hist.
  Variable rank : Z -> nat.
  Hypothesis rank_edge : forall x m,
    has_history ds x = true -> In m (members_of ds x) -> has_history ds m = true ->
    (rank m < rank x)%nat.

  Notation hist_of := (hist_of ds).

  (* [cf before out]: every id in [out] is preceded (in [out], or in [before]) by all its
     relation members that have a history *)
  Fixpoint cf (before out : list Z) : Prop :=
    match out with
    | [] => True
    | r :: rest =>
        (forall m, In m (members_of ds r) -> hist_of m -> In m before) /\ cf (r :: before) rest
    end.

  Lemma cf_incl : forall out b b', incl b b' -> cf b out -> cf b' out.
  Proof.
    induction out as [|r rest IH]; intros b b' Hi H; [exact I|]. destruct H as [H1 H2]. split.
    - intros m Hm Hh. apply Hi. apply H1; assumption.
    - apply (IH (r :: b)); [|exact H2]. intros z [E|Hz]; [left; exact E|right; apply Hi; exact Hz].
  Qed.

  Lemma cf_app : forall o1 o2 b, cf b o1 -> cf (rev o1 ++ b) o2 -> cf b (o1 ++ o2).
  Proof.
    induction o1 as [|r rest IH]; intros o2 b H1 H2; [exact H2|].
    destruct H1 as [Ha Hb]. cbn [app cf]. split; [exact Ha|].
    apply IH; [exact Hb|]. cbn [rev] in H2. rewrite <- app_assoc in H2. exact H2.
  Qed.

  Lemma cf_split : forall l1 r l2 b, cf b (l1 ++ r :: l2) ->
    forall m, In m (members_of ds r) -> hist_of m -> In m (rev l1 ++ b).
  Proof.
    induction l1 as [|a l1 IH]; intros r l2 b H m Hm Hh.
    - destruct H as [H _]. apply H; assumption.
    - destruct H as [_ H]. cbn [rev]. rewrite <- app_assoc. apply (IH r l2 (a :: b) H m Hm Hh).
  Qed.

  (* the path of a walk on an acyclic graph: ranks only go down *)
  Definition pinv (x : Z) (p : list Z) : Prop :=
    hist_of x -> forall y, In y p -> hist_of y /\ (rank x <= rank y)%nat.

  Lemma walk_cf : forall fuel x p vis,
    pinv x p ->
    cf vis (out_of (walk ds fuel x p vis)) /\
    (st_of (walk ds fuel x p vis) = SOk -> hist_of x -> In x (vis_of (walk ds fuel x p vis))).
  Proof.
    induction fuel as [|f IHf]; intros x p vis Hp.
    - cbn. split; [exact I|discriminate].
    - cbn [walk]. destruct (memZ x vis) eqn:E.
      + cbn. split; [exact I|]. intros _ _. apply memZ_In. exact E.
      + destruct (ds x) as [vs| |] eqn:D.
        * assert (Hx : hist_of x) by exact (hist_found ds x vs D).
          rewrite <- (members_found ds x vs D).
          assert (Inner : forall ms vis1 out,
                    incl ms (members_of ds x) ->
                    (forall m, In m (members_of ds x) -> hist_of m -> In m ms \/ In m vis1) ->
                    vis1 = rev out ++ vis -> cf vis out ->
                    cf vis (out_of (walk_loop (walk ds f) x p ms vis1 out)) /\
                    (st_of (walk_loop (walk ds f) x p ms vis1 out) = SOk ->
                     In x (vis_of (walk_loop (walk ds f) x p ms vis1 out)))).
          { induction ms as [|mid rest IHm]; intros vis1 out Hincl Hmem Hvis Hcf.
            - cbn [walk_loop out_of vis_of st_of fst snd]. split; [|intros _; left; reflexivity].
              apply cf_app; [exact Hcf|]. cbn [cf]. split; [|exact I].
              intros m Hm Hh. destruct (Hmem m Hm Hh) as [[]|Hv]. rewrite <- Hvis. exact Hv.
            - assert (Hmid : In mid (members_of ds x)) by (apply Hincl; left; reflexivity).
              cbn [walk_loop]. destruct (memZ mid p) eqn:Ec.
              + exfalso. apply memZ_In in Ec. destruct (Hp Hx mid Ec) as [Hhm Hr].
                pose proof (rank_edge x mid Hx Hmid Hhm). lia.
              + assert (Hpc : pinv mid (p ++ [mid])).
                { intros Hhm y Hy. apply in_app_or in Hy. destruct Hy as [Hy|[Hy|[]]].
                  - destruct (Hp Hx y Hy) as [H1 H2]. split; [exact H1|].
                    pose proof (rank_edge x mid Hx Hmid Hhm). lia.
                  - subst y. split; [exact Hhm|lia]. }
                destruct (IHf mid (p ++ [mid]) vis1 Hpc) as [C1 C2].
                pose proof (walk_good ds f mid (p ++ [mid]) vis1) as (G1 & _ & _).
                destruct (walk ds f mid (p ++ [mid]) vis1) as [[s vis'] out'] eqn:W.
                cbn [out_of vis_of st_of fst snd] in C1, C2, G1.
                assert (Hcf' : cf vis (out ++ out')).
                { apply cf_app; [exact Hcf|]. rewrite <- Hvis. exact C1. }
                destruct s.
                * apply IHm.
                  -- intros z Hz. apply Hincl. right. exact Hz.
                  -- intros m Hm Hh. destruct (Hmem m Hm Hh) as [[Em|Hr]|Hv].
                     ++ subst m. right. apply C2; [reflexivity|exact Hh].
                     ++ left. exact Hr.
                     ++ right. rewrite G1. apply in_or_app. right. exact Hv.
                  -- rewrite G1, Hvis, rev_app_distr, app_assoc. reflexivity.
                  -- exact Hcf'.
                * cbn [out_of vis_of st_of fst snd]. split; [exact Hcf'|discriminate].
                * cbn [out_of vis_of st_of fst snd]. split; [exact Hcf'|discriminate]. }
          destruct (Inner (members_of ds x) vis []) as [I1 I2].
          -- apply incl_refl.
          -- intros m Hm _. left. exact Hm.
          -- reflexivity.
          -- exact I.
          -- split; [exact I1|]. intros Hs _. exact (I2 Hs).
        * cbn. split; [exact I|]. intros _ Hh. unfold Proofs.hist_of, has_history in Hh.
          rewrite D in Hh. discriminate.
        * cbn. split; [exact I|discriminate].
  Qed.

  Lemma order_from_cf : forall fuel ids vis, cf vis (out_of (order_from ds fuel ids vis)).
  Proof.
    intros fuel. induction ids as [|i rest IH]; intros vis; [exact I|].
    cbn [order_from].
    destruct (walk_cf fuel i [] vis) as [C1 _]; [intros _ y []|].
    pose proof (walk_good ds fuel i [] vis) as (G1 & _ & _).
    destruct (walk ds fuel i [] vis) as [[s v] o] eqn:W. cbn [out_of vis_of fst snd] in C1, G1.
    destruct s; [|exact C1|exact C1].
    specialize (IH v). destruct (order_from ds fuel rest v) as [[s2 v2] o2]. cbn [out_of snd] in *.
    apply cf_app; [exact C1|]. rewrite <- G1. exact IH.
  Qed.

  (* every relation member with a history of an emitted relation was emitted before it *)
  Theorem order_members_first : forall fuel ids s l1 r l2,
    order ds fuel ids = (s, l1 ++ r :: l2) ->
    forall m, In m (members_of ds r) -> has_history ds m = true -> In m l1.
  Proof.
    intros fuel ids s l1 r l2 H m Hm Hh. unfold order in H.
    pose proof (order_from_cf fuel ids []) as C.
    destruct (order_from ds fuel ids []) as [[s' v] o]. inversion H; subst. cbn [out_of snd] in C.
    pose proof (cf_split l1 r l2 [] C m Hm Hh) as Hin. rewrite app_nil_r in Hin.
    apply in_rev in Hin. exact Hin.
  Qed.

  (* reachability through relation members of relations with history *)
  Inductive reach : Z -> Z -> Prop :=
  | reach_step : forall x m, has_history ds x = true -> In m (members_of ds x) -> reach x m
  | reach_trans : forall x m y, has_history ds x = true -> In m (members_of ds x) ->
      has_history ds m = true -> reach m y -> reach x y.

  (* ... hence every relation with a history reachable from it *)
  Theorem order_children_first : forall fuel ids s out,
    order ds fuel ids = (s, out) ->
    forall r y, reach r y -> has_history ds y = true ->
    forall l1 l2, out = l1 ++ r :: l2 -> In y l1.
  Proof.
    intros fuel ids s out H r y Hreach. induction Hreach as [x m Hx Hm|x m y Hx Hm Hhm Hr IH];
      intros Hy l1 l2 Hout.
    - subst out. apply (order_members_first fuel ids s l1 x l2 H m Hm Hy).
    - subst out. pose proof (order_members_first fuel ids s l1 x l2 H m Hm Hhm) as Hin.
      apply in_split in Hin. destruct Hin as (a & b & Hab). subst l1.
      specialize (IH Hy a (b ++ x :: l2)).
      rewrite <- app_assoc in IH. cbn [app] in IH. specialize (IH eq_refl).
      apply in_or_app. left. exact IH.
  Qed.
End Order.

(* ------------------------------------------------------------------ the oracle's acyclicity
   test yields the rank hypothesis *)
Lemma acyclicb_rank : forall ds nodes,
  acyclicb ds nodes = true ->
  (forall id, has_history ds id = true -> In id nodes) ->
  forall x m, has_history ds x = true -> In m (members_of ds x) -> has_history ds m = true ->
    (rank_of ds nodes m < rank_of ds nodes x)%nat.
Proof.
  intros ds nodes H Hall x m Hx Hm Hh. unfold acyclicb in H. cbv zeta in H. rewrite forallb_forall in H.
  specialize (H x (Hall x Hx)). rewrite Hx in H. cbn [negb orb] in H.
  rewrite forallb_forall in H. specialize (H m Hm). rewrite Hh in H. cbn [negb orb] in H.
  apply Nat.ltb_lt. exact H.
Qed.

Theorem order_children_first_acyclicb : forall ds nodes,
  acyclicb ds nodes = true ->
  (forall id, has_history ds id = true -> In id nodes) ->
  forall fuel ids s out, order ds fuel ids = (s, out) ->
  forall r y, reach ds r y -> has_history ds y = true ->
  forall l1 l2, out = l1 ++ r :: l2 -> In y l1.
Proof.
  intros ds nodes H Hall. exact (order_children_first ds (rank_of ds nodes) (acyclicb_rank ds nodes H Hall)).
Qed.

(* conversely a cycle is rejected: on an acyclic verdict nobody reaches itself *)
Lemma acyclicb_no_cycle : forall ds nodes,
  acyclicb ds nodes = true ->
  (forall id, has_history ds id = true -> In id nodes) ->
  forall x y, reach ds x y -> has_history ds y = true -> (rank_of ds nodes y < rank_of ds nodes x)%nat.
Proof.
  intros ds nodes H Hall x y Hr. induction Hr as [x m Hx Hm|x m y Hx Hm Hhm Hr IH]; intros Hy.
  - exact (acyclicb_rank ds nodes H Hall x m Hx Hm Hy).
  - pose proof (acyclicb_rank ds nodes H Hall x m Hx Hm Hhm). specialize (IH Hy). lia.
Qed.

(* ------------------------------------------------------------------ the executable oracle of
   C14/Check.v (judgement 2) is the theorems' predicates, and it holds of the model's own output *)
Lemma nodupb_NoDup : forall l, nodupb l = true <-> NoDup l.
Proof.
  induction l as [|x r IH]; cbn [nodupb]; [split; [constructor|reflexivity]|].
  rewrite andb_true_iff, negb_true_iff, IH. split.
  - intros [H1 H2]. constructor; [apply memZ_not_In; exact H1|exact H2].
  - intros H. inversion H; subst. split; [apply memZ_not_In; assumption|assumption].
Qed.

Lemma members_firstb_cf : forall ds l before, members_firstb ds before l = true <-> cf ds before l.
Proof.
  intros ds. induction l as [|r rest IH]; intros before; cbn [members_firstb cf]; [tauto|].
  rewrite andb_true_iff, IH, forallb_forall. split; intros [H1 H2]; (split; [|exact H2]).
  - intros m Hm Hh. specialize (H1 m Hm). unfold Proofs.hist_of in Hh. rewrite Hh in H1. cbn in H1.
    apply memZ_In. exact H1.
  - intros m Hm. destruct (has_history ds m) eqn:E; [|reflexivity]. cbn. apply memZ_In. apply H1; assumption.
Qed.

Theorem oracle_holds_of_model : forall ds nodes fuel ids s out,
  order ds fuel ids = (s, out) ->
  (forall id, has_history ds id = true -> In id nodes) ->
  nodupb out = true /\
  forallb (has_history ds) out = true /\
  (s = SOk -> forallb (fun r => negb (has_history ds r) || memZ r out) ids = true) /\
  (acyclicb ds nodes = true -> members_firstb ds [] out = true).
Proof.
  intros ds nodes fuel ids s out H Hall. split; [|split; [|split]].
  - apply nodupb_NoDup. exact (order_nodup ds fuel ids s out H).
  - apply forallb_forall. intros y Hy. exact (order_only_with_history ds fuel ids s out H y Hy).
  - intros Hs. subst s. apply forallb_forall. intros r Hr.
    destruct (has_history ds r) eqn:E; [|reflexivity]. cbn. apply memZ_In.
    exact (order_complete ds fuel ids out H r Hr E).
  - intros Ha. apply members_firstb_cf.
    pose proof (order_from_cf ds (rank_of ds nodes) (acyclicb_rank ds nodes Ha Hall) fuel ids []) as C.
    unfold order in H. destruct (order_from ds fuel ids []) as [[s' v] o]. inversion H; subst. exact C.
Qed.
