(* C14/Model.v — executable model of /repo/annotate/order.go (ChildFirstOrdering).

   [ds id] is what RelationHistory returns for a relation id: all its versions, each with its
   members (is_relation, ref); NotFound; or another datasource error.  [walk] is the method of
   the same name, on depth fuel (running out is the explicit status [SFuel]); its inner loop over
   all members of all versions is structural.  Sending on the unbuffered channel is modelled
   by appending to the output list; the visited map is the list [vis] (newest first).
   The producer goroutine / Next / Close / cancel protocol is the small transition system at
   the end.  Definitions only; proofs in Proofs*.v. *)
From Coq Require Import ZArith List Bool.
Import ListNotations.
Open Scope Z_scope.

Definition member := (bool * Z)%type.              (* (Type == relation, Ref) *)
Inductive hist :=
| HFound (versions : list (list member))
| HNotFound
| HErr.

Inductive status := SOk | SErr | SFuel.

Definition memZ (x : Z) (l : list Z) : bool := existsb (Z.eqb x) l.

(* for _, r := range relations { for _, m := range r.Members { if m.Type != relation continue ... *)
Definition rel_members (versions : list (list member)) : list Z :=
  map snd (filter fst (concat versions)).

Section Walk.
  Variable ds : Z -> hist.

  (* the member loop of walk(id, path), with the recursive call abstracted as [rec]:
       for each relation member mid (all versions, in order):
         if mid is on the path: return nil          -- from the walk of id, nothing sent
         err := o.walk(mid, append(path, mid))
       o.visited[id] = {}; o.out <- id *)
  Fixpoint walk_loop (rec : Z -> list Z -> list Z -> status * list Z * list Z)
           (id : Z) (path : list Z) (ms : list Z) (vis : list Z) (out : list Z)
    : status * list Z * list Z :=
    match ms with
    | [] => (SOk, id :: vis, out ++ [id])
    | mid :: rest =>
        if memZ mid path then (SOk, vis, out)
        else
          match rec mid (path ++ [mid]) vis with
          | (SOk, vis', out') => walk_loop rec id path rest vis' (out ++ out')
          | (s, vis', out') => (s, vis', out ++ out')
          end
    end.

  (* walk(id, path): returns (status, visited afterwards, ids sent on the channel) *)
  Fixpoint walk (fuel : nat) (id : Z) (path : list Z) (vis : list Z) : status * list Z * list Z :=
    match fuel with
    | O => (SFuel, vis, [])
    | S f =>
        if memZ id vis then (SOk, vis, [])              (* already visited *)
        else
          match ds id with
          | HNotFound => (SOk, vis, [])                 (* o.ds.NotFound(err): return nil *)
          | HErr => (SErr, vis, [])
          | HFound versions => walk_loop (walk f) id path (rel_members versions) vis []
          end
    end.

  (* the producer: for i, id := range ids { err := o.walk(id, path[:0]) ; if err != nil return } *)
  Fixpoint order_from (fuel : nat) (ids : list Z) (vis : list Z) : status * list Z * list Z :=
    match ids with
    | [] => (SOk, vis, [])
    | id :: rest =>
        match walk fuel id [] vis with
        | (SOk, vis', out) =>
            match order_from fuel rest vis' with
            | (s, vis'', out') => (s, vis'', out ++ out')
            end
        | r => r
        end
    end.

  Definition order (fuel : nat) (ids : list Z) : status * list Z :=
    match order_from fuel ids [] with (s, _, out) => (s, out) end.

  (* CompletedIndex: set to i after the walk of ids[i] returned nil; 0 before *)
  Fixpoint completed_from (fuel : nat) (ids : list Z) (vis : list Z) (i cur : Z) : Z :=
    match ids with
    | [] => cur
    | id :: rest =>
        match walk fuel id [] vis with
        | (SOk, vis', _) => completed_from fuel rest vis' (i + 1) i
        | _ => cur
        end
    end.
  Definition completed_index (fuel : nat) (ids : list Z) : Z := completed_from fuel ids [] 0 0.

  Definition has_history (id : Z) : bool :=
    match ds id with HFound _ => true | _ => false end.

  Definition members_of (id : Z) : list Z :=
    match ds id with HFound vs => rel_members vs | _ => [] end.
End Walk.

(* ------------------------------------------------------------------ specification side
   (used by the property oracle on what the implementation emitted) *)

Fixpoint nodupb (l : list Z) : bool :=
  match l with [] => true | x :: r => negb (memZ x r) && nodupb r end.

(* ids with history reachable from the ids in [front] through relation members, by
   breadth-first closure on fuel *)
Fixpoint closure (ds : Z -> hist) (fuel : nat) (seen front : list Z) : list Z :=
  match fuel with
  | O => seen
  | S f =>
      let next := filter (fun m => has_history ds m && negb (memZ m seen))
                         (concat (map (members_of ds) front)) in
      match next with
      | [] => seen
      | _ => closure ds f (nodup Z.eq_dec (next ++ seen)) (nodup Z.eq_dec next)
      end
  end.

(* strict descendants with history of [r] *)
Definition descendants (ds : Z -> hist) (n : nat) (r : Z) : list Z := closure ds n [] [r].

(* the member graph over [nodes] has no cycle: nobody is its own descendant (closure form,
   used only as a cross-check of [acyclicb] in the case checker) *)
Definition acyclic_closureb (ds : Z -> hist) (nodes : list Z) : bool :=
  forallb (fun r => negb (memZ r (descendants ds (S (length nodes)) r))) nodes.

(* length of the longest chain of member edges between relations with history that starts at
   x, explored to depth k: computed for all [nodes] at once, k rounds over a table (a direct
   recursion would enumerate every path) *)
Definition lookup_rank (tbl : list (Z * nat)) (x : Z) : nat :=
  match find (fun p => fst p =? x) tbl with Some p => snd p | None => O end.

Definition heights_step (ds : Z -> hist) (nodes : list Z) (tbl : list (Z * nat)) : list (Z * nat) :=
  map (fun x =>
         (x, if has_history ds x
             then S (fold_right (fun m acc => Nat.max (if has_history ds m then lookup_rank tbl m else O) acc)
                                O (members_of ds x))
             else O)) nodes.

Fixpoint heights (ds : Z -> hist) (nodes : list Z) (k : nat) : list (Z * nat) :=
  match k with
  | O => map (fun x => (x, O)) nodes
  | S j => heights_step ds nodes (heights ds nodes j)
  end.

(* acyclicity as the case oracle decides it: the heights are a rank that strictly decreases
   along every member edge between relations with history.  This is literally the hypothesis
   of the children-first theorem (Properties/C14.v, C14_acyclicb_rank). *)
Definition rank_of (ds : Z -> hist) (nodes : list Z) : Z -> nat :=
  lookup_rank (heights ds nodes (S (length nodes))).

Definition acyclicb (ds : Z -> hist) (nodes : list Z) : bool :=
  let r := rank_of ds nodes in      (* the table is computed once *)
  forallb (fun x =>
             negb (has_history ds x) ||
             forallb (fun m => negb (has_history ds m) || (r m <? r x)%nat) (members_of ds x))
          nodes.

(* every id is preceded by all its relation members that have a history (applied to every
   emitted id this is the same as "preceded by all its descendants": the members are emitted
   too, and so have theirs before them; it costs a list scan instead of a closure) *)
Fixpoint members_firstb (ds : Z -> hist) (before : list Z) (l : list Z) : bool :=
  match l with
  | [] => true
  | r :: rest => forallb (fun m => negb (has_history ds m) || memZ m before) (members_of ds r)
                 && members_firstb ds (r :: before) rest
  end.

(* every id is preceded by all its descendants *)
Fixpoint children_firstb (ds : Z -> hist) (n : nat) (before : list Z) (l : list Z) : bool :=
  match l with
  | [] => true
  | r :: rest => forallb (fun d => memZ d before) (descendants ds n r)
                 && children_firstb ds n (r :: before) rest
  end.

(* ------------------------------------------------------------------ what the producer does, step by step

   The same walk, returning the sequence of ACTIONS of the producer goroutine instead of only
   the ids sent: a datasource lookup (o.ds.RelationHistory), or a send on the channel.  The ids
   sent are [sends] of it (Proofs: walk_t_walk), so this is the program the goroutine executes
   between creation and return when nobody cancels. *)
Inductive act := ALookup | ASend (id : Z).

Fixpoint sends (l : list act) : list Z :=
  match l with [] => [] | ALookup :: r => sends r | ASend id :: r => id :: sends r end.

Section WalkT.
  Variable ds : Z -> hist.

  Fixpoint walk_loop_t (rec : Z -> list Z -> list Z -> status * list Z * list act)
           (id : Z) (path : list Z) (ms : list Z) (vis : list Z) (acts : list act)
    : status * list Z * list act :=
    match ms with
    | [] => (SOk, id :: vis, acts ++ [ASend id])
    | mid :: rest =>
        if memZ mid path then (SOk, vis, acts)
        else
          match rec mid (path ++ [mid]) vis with
          | (SOk, vis', a') => walk_loop_t rec id path rest vis' (acts ++ a')
          | (s, vis', a') => (s, vis', acts ++ a')
          end
    end.

  Fixpoint walk_t (fuel : nat) (id : Z) (path : list Z) (vis : list Z) : status * list Z * list act :=
    match fuel with
    | O => (SFuel, vis, [])
    | S f =>
        if memZ id vis then (SOk, vis, [])
        else
          match ds id with                                (* one lookup *)
          | HNotFound => (SOk, vis, [ALookup])
          | HErr => (SErr, vis, [ALookup])
          | HFound versions => walk_loop_t (walk_t f) id path (rel_members versions) vis [ALookup]
          end
    end.

  Fixpoint order_from_t (fuel : nat) (ids : list Z) (vis : list Z) : status * list Z * list act :=
    match ids with
    | [] => (SOk, vis, [])
    | id :: rest =>
        match walk_t fuel id [] vis with
        | (SOk, vis', a) =>
            match order_from_t fuel rest vis' with
            | (s, vis'', a') => (s, vis'', a ++ a')
            end
        | r => r
        end
    end.

  (* the program of the producer goroutine for a request list *)
  Definition program (fuel : nat) (ids : list Z) : status * list act :=
    match order_from_t fuel ids [] with (s, _, a) => (s, a) end.
End WalkT.

(* ------------------------------------------------------------------ the goroutine protocol

   Producer P, consumer side C (Next / Close / cancel), one unbuffered channel, one context
   DERIVED from the caller's (Close cancels it; cancelling the caller's context cancels it too).
   P executes a finite program [prog : list act] (for the real producer: [program ds fuel ids],
   finite because the walk terminates -- C14_walk_terminates).  Where the Go code looks at the
   context:
     - NOT before a lookup: walk calls o.ds.RelationHistory(o.ctx, id) without testing ctx;
     - a lookup in progress may return its answer at any time, cancelled or not (datasources
       that ignore the context, such as osm.HistoryDatasource), or -- once the context is
       cancelled -- end with the context's error (datasources that honour it; the lookup is
       handed the derived context);
     - before a send: `if o.ctx.Err() != nil { return }`, then the select of the send with
       ctx.Done(); a consumer already blocked in Next may still receive the id when the context
       is cancelled at the same moment (Go's select chooses among the ready cases). *)
Inductive pstate :=
| PRun (prog : list act)            (* between actions: walking *)
| PLookup (prog : list act)         (* inside o.ds.RelationHistory(o.ctx, id); prog = what follows *)
| PSend (id : Z) (prog : list act)  (* blocked in  select { case o.out <- id: ; case <-ctx.Done(): } *)
| PDone.                            (* returned: channel closed, wg.Done() *)

Record sys := { prod : pstate; cancelled : bool; received : list Z }.

Inductive step : sys -> sys -> Prop :=
| st_lookup_start : forall p c r,          (* the walk calls the datasource (no ctx test first) *)
    step {| prod := PRun (ALookup :: p); cancelled := c; received := r |}
         {| prod := PLookup p; cancelled := c; received := r |}
| st_lookup_return : forall p c r,         (* the lookup returns its answer -- cancelled or not *)
    step {| prod := PLookup p; cancelled := c; received := r |}
         {| prod := PRun p; cancelled := c; received := r |}
| st_lookup_cancelled : forall p r,        (* the lookup sees its (derived) context done: error, walk returns *)
    step {| prod := PLookup p; cancelled := true; received := r |}
         {| prod := PDone; cancelled := true; received := r |}
| st_walk_send : forall id p r,            (* ctx.Err() == nil: the walk enters the select of the send *)
    step {| prod := PRun (ASend id :: p); cancelled := false; received := r |}
         {| prod := PSend id p; cancelled := false; received := r |}
| st_walk_cancelled : forall id p r,       (* if o.ctx.Err() != nil { return } *)
    step {| prod := PRun (ASend id :: p); cancelled := true; received := r |}
         {| prod := PDone; cancelled := true; received := r |}
| st_walk_end : forall c r,                (* all ids walked *)
    step {| prod := PRun []; cancelled := c; received := r |}
         {| prod := PDone; cancelled := c; received := r |}
| st_rendezvous : forall id p c r,         (* Next receives -- possibly while the context is being cancelled *)
    step {| prod := PSend id p; cancelled := c; received := r |}
         {| prod := PRun p; cancelled := c; received := r ++ [id] |}
| st_send_cancelled : forall id p r,       (* case <-o.ctx.Done(): return o.ctx.Err() *)
    step {| prod := PSend id p; cancelled := true; received := r |}
         {| prod := PDone; cancelled := true; received := r |}
| st_cancel : forall p r,                  (* Close() / parent context cancelled, at any time *)
    step {| prod := p; cancelled := false; received := r |}
         {| prod := p; cancelled := true; received := r |}.

(* steps the system can still make once the context is cancelled: bounded by the rest of the
   program up to its next send (every lookup left may still be started and may return) *)
Fixpoint lookups_before_send (p : list act) : nat :=
  match p with ALookup :: r => S (lookups_before_send r) | _ => O end.

Definition after_cancel_bound (p : pstate) : nat :=
  match p with
  | PRun prog => 2 * lookups_before_send prog + 1
  | PLookup prog => 2 * lookups_before_send prog + 2
  | PSend _ prog => 2 * lookups_before_send prog + 2
  | PDone => 0
  end.
