(* C14/GenOk.v — fingerprint tie for annotate/order.go (added by the C15/C13 builder, wave 3).

   walk is recursive over the data source with early returns inside nested loops and a channel
   send inside a select: outside what the body translators can regenerate, so the hand model
   (C14/Model.v: walk_loop / walk / order_from) is tied to the code by correspondence.  What CAN be
   re-read from the source on every run is the sequence of calls and the integer literals of
   walk, NewChildFirstOrdering, Next, Err and Close (VerifGen.GenOrder, translator/cmd/order).
   The obligations below say that the source still has the skeleton the model assumes:
     walk:  RelationHistory, then NotFound, before any member is looked at; the member's id by
            the conversion osm.RelationID; exactly one recursive call, on append(path, mid);
            the context is consulted (Err, Done) after the recursion, before/at the send;
            no integer literal (no depth limit, no special id);
     producer: WithCancel, wg.Add, the deferred Done and close(out), then the walks;
     Next:  consults Err and Done; its only literal is the zero id that ends the stream;
     Close: done() then Wait().
   Added calls keep them true (sub-sequence); removing or reordering one of these breaks them. *)
From Coq Require Import ZArith List String Bool.
From VerifGen Require Import GenOrder.
Import ListNotations.
Open Scope string_scope.

Fixpoint subseqb (pat l : list string) : bool :=
  match pat, l with
  | [], _ => true
  | _ :: _, [] => false
  | p :: pr, x :: r => if String.eqb p x then subseqb pr r else subseqb pat r
  end.

Definition count_of (s : string) (l : list string) : nat :=
  List.length (filter (String.eqb s) l).

Lemma gen_walk_skeleton :
  subseqb [".RelationHistory"; ".NotFound"; "osm.RelationID"; "o.walk"; "append"; ".Err"; ".Done"]
          calls_ChildFirstOrdering_walk = true.
Proof. vm_compute. reflexivity. Qed.

Lemma gen_walk_one_lookup_one_recursion :
  count_of ".RelationHistory" calls_ChildFirstOrdering_walk = 1%nat /\
  count_of "o.walk" calls_ChildFirstOrdering_walk = 1%nat /\
  count_of ".NotFound" calls_ChildFirstOrdering_walk = 1%nat.
Proof. vm_compute. repeat split. Qed.

Lemma gen_walk_no_literals :
  ints_ChildFirstOrdering_walk = [] /\ lits_ChildFirstOrdering_walk = [].
Proof. vm_compute. split; reflexivity. Qed.

Lemma gen_producer_skeleton :
  subseqb ["context.WithCancel"; ".Add"; ".Done"; "close"; "o.walk"] calls_NewChildFirstOrdering = true /\
  existsb (Z.eqb 1) ints_NewChildFirstOrdering = true.
Proof. vm_compute. split; reflexivity. Qed.

Lemma gen_next_skeleton :
  subseqb [".Err"; ".Done"] calls_ChildFirstOrdering_Next = true /\
  ints_ChildFirstOrdering_Next = [0%Z].
Proof. vm_compute. split; reflexivity. Qed.

Lemma gen_err_close_skeleton :
  subseqb [".Err"] calls_ChildFirstOrdering_Err = true /\
  subseqb ["o.done"; ".Wait"] calls_ChildFirstOrdering_Close = true.
Proof. vm_compute. split; reflexivity. Qed.
