(* C14/GenOk.v — fingerprint tie for annotate/order.go (added by the C15/C13 builder, wave 3).

   walk is recursive over the data source with early returns inside nested loops and a channel
   send inside a select: outside what the body translators can regenerate, so the hand model
   (C14/Model.v: walk_loop / walk / order_from) is tied to the code by correspondence.  What CAN be
   re-read from the source on every run is the sequence of calls and the integer literals of
   walk, NewChildFirstOrdering, Next, Err and Close (VerifGen.GenOrder, translator/cmd/order).
   The obligations below say that the source still has the skeleton the model assumes:
     walk:  RelationHistory, then NotFound, before any member is looked at; the member's id by
            the conversion osm.RelationID; exactly one recursive call, on append(path, mid);
            the context is consulted (Err, Done) after the recursion, before/at the send;
            no integer literal (no depth limit, no special id);
     producer: WithCancel, wg.Add, the deferred Done and close(out), then the walks;
     Next:  consults Err and Done; its only literal is the zero id that ends the stream;
     Close: done() then Wait().
   Added calls keep them true (sub-sequence); removing or reordering one of these breaks them. *)
From Coq Require Import ZArith List String Ascii Bool.
From VerifGen Require Import GenOrder.
Import ListNotations.
Open Scope string_scope.

Fixpoint subseqb (pat l : list string) : bool :=
  match pat, l with
  | [], _ => true
  | _ :: _, [] => false
  | p :: pr, x :: r => if String.eqb p x then subseqb pr r else subseqb pat r
  end.

Definition count_of (s : string) (l : list string) : nat :=
  List.length (filter (String.eqb s) l).

(* Robustness (C14 builder, robustness wave): call names are compared after dropping the
   qualifier -- "o.walk", "c.walk" and ".walk" are the same call, so renaming the receiver or a
   package alias does not matter; and the producer's two deferred calls (wg.Done, close(out))
   are required to be present, in any order and inside one deferred closure or two; Close must
   call something (the cancel function, whatever its field is called) before Wait; and the
   fingerprints are the FLATTENED ones (flat_*: helper bodies spliced in at the call site by
   translator/cmd/order), so extracting emit / history / walkMembers / run changes nothing. *)
Fixpoint after_dot (s : string) : option string :=
  match s with
  | EmptyString => None
  | String c r =>
      match after_dot r with
      | Some t => Some t
      | None => if Ascii.eqb c "."%char then Some (String c r) else None
      end
  end.
Definition norm (s : string) : string := match after_dot s with Some t => t | None => s end.
Definition ncalls (l : list string) : list string := map norm l.

Lemma gen_walk_skeleton :
  subseqb [".RelationHistory"; ".NotFound"; ".RelationID"; ".walk"; "append"; ".Err"; ".Done"]
          (ncalls flat_calls_ChildFirstOrdering_walk) = true.
Proof. vm_compute. reflexivity. Qed.

Lemma gen_walk_one_lookup_one_recursion :
  count_of ".RelationHistory" (ncalls flat_calls_ChildFirstOrdering_walk) = 1%nat /\
  count_of ".walk" (ncalls flat_calls_ChildFirstOrdering_walk) = 1%nat /\
  count_of ".NotFound" (ncalls flat_calls_ChildFirstOrdering_walk) = 1%nat.
Proof. vm_compute. repeat split. Qed.

(* no depth limit, size threshold or special id in walk (helpers included): its only integer
   literals, if any, are the 0 and 1 of an index loop; no string literal *)
Lemma gen_walk_no_literals :
  forallb (fun z => existsb (Z.eqb z) [0; 1]%Z) flat_ints_ChildFirstOrdering_walk = true /\
  flat_lits_ChildFirstOrdering_walk = [].
Proof. vm_compute. split; reflexivity. Qed.

(* the producer: derived context, then the walks; it closes the output channel when it returns
   and signals its completion -- through a WaitGroup (Add before, Done deferred) or through a
   second channel it closes (channel operations appear in the flattened fingerprint as "<-" and
   "send") *)
Definition completion_by_waitgroup : bool :=
  subseqb [".Add"; ".walk"] (ncalls flat_calls_NewChildFirstOrdering)
  && (1 <=? count_of ".Done" (ncalls flat_calls_NewChildFirstOrdering))%nat
  && existsb (Z.eqb 1) flat_ints_NewChildFirstOrdering
  && existsb (String.eqb ".Wait") (ncalls flat_calls_ChildFirstOrdering_Close).
Definition completion_by_channel : bool :=
  (2 <=? count_of "close" (ncalls flat_calls_NewChildFirstOrdering))%nat
  && existsb (String.eqb "<-") (ncalls flat_calls_ChildFirstOrdering_Close).

Lemma gen_producer_skeleton :
  subseqb [".WithCancel"; ".walk"] (ncalls flat_calls_NewChildFirstOrdering) = true /\
  (1 <=? count_of "close" (ncalls flat_calls_NewChildFirstOrdering))%nat = true /\
  completion_by_waitgroup || completion_by_channel = true.
Proof. vm_compute. repeat split; reflexivity. Qed.

Lemma gen_next_skeleton :
  subseqb [".Err"; ".Done"] (ncalls flat_calls_ChildFirstOrdering_Next) = true /\
  (* the only literal of Next (helpers included) is the zero id that ends the stream *)
  negb (match flat_ints_ChildFirstOrdering_Next with [] => true | _ => false end) &&
  forallb (Z.eqb 0) flat_ints_ChildFirstOrdering_Next = true.
Proof. vm_compute. split; reflexivity. Qed.

Lemma gen_err_close_skeleton :
  subseqb [".Err"] (ncalls flat_calls_ChildFirstOrdering_Err) = true /\
  (* Close: first a call (the cancel function, whatever its field is called), then it waits for the
     producer: WaitGroup.Wait or a receive from the completion channel *)
  match ncalls flat_calls_ChildFirstOrdering_Close with
  | c :: rest => negb (String.eqb c ".Wait") && negb (String.eqb c "<-")
                 && existsb (fun x => String.eqb x ".Wait" || String.eqb x "<-") rest
  | [] => false
  end = true.
Proof. vm_compute. split; reflexivity. Qed.

(* the datasource lookups are handed the SAME context the send selects on (the derived one that
   Close cancels): this is what the LTS of C14/Model.v assumes of a lookup in progress
   (st_lookup_cancelled).  Field names are free; only their equality is required. *)
Lemma gen_walk_lookup_context :
  negb (match walk_lookup_ctx with [] => true | _ => false end) &&
  negb (match walk_done_ctx with [] => true | _ => false end) &&
  forallb (fun c => existsb (String.eqb c) walk_done_ctx) walk_lookup_ctx = true.
Proof. vm_compute. reflexivity. Qed.

(* no size threshold in the producer loop: its only integer literals are the WaitGroup count, the
   initial length and the initial capacity of the path buffer (the visited set lives as long as
   the iteration; C14_order_nodup relies on it) *)
Lemma gen_producer_literals :
  forallb (fun z => existsb (Z.eqb z) [0; 1; 100]%Z) flat_ints_NewChildFirstOrdering = true.
Proof. vm_compute. reflexivity. Qed.
