(* C14/Proofs.v — the walk: fuel bound, no duplicates, only ids with history, completeness. *)
From Coq Require Import ZArith List Bool Lia.
From Verif Require Import C14.Model.
Import ListNotations.
Open Scope Z_scope.

Lemma memZ_In : forall x l, memZ x l = true <-> In x l.
Proof.
  intros x l. unfold memZ. rewrite existsb_exists. split.
  - intros (y & Hy & E). apply Z.eqb_eq in E. subst. exact Hy.
  - intros H. exists x. split; [exact H|apply Z.eqb_refl].
Qed.

Lemma memZ_not_In : forall x l, memZ x l = false <-> ~ In x l.
Proof.
  intros x l. rewrite <- memZ_In. destruct (memZ x l); split; intros H.
  - discriminate.
  - exfalso. apply H. reflexivity.
  - intros H'. discriminate.
  - reflexivity.
Qed.

Lemma nodup_app : forall (a b : list Z), NoDup a -> NoDup b -> (forall x, In x a -> ~ In x b) -> NoDup (a ++ b).
Proof.
  induction a as [|x a IH]; intros b Ha Hb Hd; cbn [app]; [exact Hb|].
  inversion Ha; subst. constructor.
  - rewrite in_app_iff. intros [H|H]; [contradiction|]. apply (Hd x); [left; reflexivity|exact H].
  - apply IH; [assumption|assumption|]. intros y Hy. apply Hd. right. exact Hy.
Qed.

Section Walk.
  Variable ds : Z -> hist.

  Definition hist_of (id : Z) : Prop := has_history ds id = true.

  Lemma members_found : forall id vs, ds id = HFound vs -> members_of ds id = rel_members vs.
  Proof. intros id vs H. unfold members_of. rewrite H. reflexivity. Qed.

  Lemma hist_found : forall id vs, ds id = HFound vs -> hist_of id.
  Proof. intros id vs H. unfold hist_of, has_history. rewrite H. reflexivity. Qed.

  Definition out_of (r : status * list Z * list Z) : list Z := snd r.
  Definition vis_of (r : status * list Z * list Z) : list Z := snd (fst r).
  Definition st_of (r : status * list Z * list Z) : status := fst (fst r).

  (* ---------------------------------------------------------------- an id whose member is on
     the path is never sent below that point *)
  Definition blocked (p : list Z) (y : Z) : Prop := exists m, In m (members_of ds y) /\ In m p.

  Lemma blocked_app : forall p q y, blocked p y -> blocked (p ++ q) y.
  Proof. intros p q y (m & H1 & H2). exists m. split; [exact H1|apply in_or_app; left; exact H2]. Qed.

  Lemma loop_no_emit : forall rec x p y,
    (forall mid vis, ~ In mid p -> ~ In y (out_of (rec mid (p ++ [mid]) vis))) ->
    forall ms vis out,
      ~ In y out -> (x = y -> exists m, In m ms /\ In m p) ->
      ~ In y (out_of (walk_loop rec x p ms vis out)).
  Proof.
    intros rec x p y Hrec. induction ms as [|mid rest IH]; intros vis out Hout Hxy.
    - cbn [walk_loop out_of snd]. rewrite in_app_iff. intros [H|[H|[]]]; [contradiction|].
      destruct (Hxy H) as (m & [] & _).
    - cbn [walk_loop]. destruct (memZ mid p) eqn:E; [exact Hout|].
      apply memZ_not_In in E. specialize (Hrec mid vis E).
      destruct (rec mid (p ++ [mid]) vis) as [[s vis'] out'] eqn:R. cbn [out_of snd] in Hrec.
      assert (Hno : ~ In y (out ++ out')) by (rewrite in_app_iff; intros [H|H]; contradiction).
      destruct s; [|exact Hno|exact Hno].
      apply IH; [exact Hno|]. intros Hx. destruct (Hxy Hx) as (m & [Hm|Hm] & Hp).
      + subst m. contradiction.
      + exists m. split; assumption.
  Qed.

  Lemma walk_no_emit : forall fuel x p vis y, blocked p y -> ~ In y (out_of (walk ds fuel x p vis)).
  Proof.
    induction fuel as [|f IH]; intros x p vis y Hb; [cbn; tauto|].
    cbn [walk]. destruct (memZ x vis); [cbn; tauto|].
    destruct (ds x) as [vs| |] eqn:D; [|cbn; tauto|cbn; tauto].
    apply loop_no_emit.
    - intros mid vis0 _. apply IH. apply blocked_app. exact Hb.
    - cbn; tauto.
    - intros Hx. subst y. destruct Hb as (m & H1 & H2). rewrite (members_found x vs D) in H1.
      exists m. split; assumption.
  Qed.

  (* ---------------------------------------------------------------- what a walk does to the
     visited set and what it sends *)
  Definition good (vis : list Z) (r : status * list Z * list Z) : Prop :=
    vis_of r = rev (out_of r) ++ vis /\ NoDup (out_of r) /\
    forall y, In y (out_of r) -> ~ In y vis /\ hist_of y.

  Lemma loop_good : forall rec x p vs vis0,
    ds x = HFound vs -> ~ In x vis0 ->
    (forall mid vis, In mid (rel_members vs) -> ~ In mid p ->
       good vis (rec mid (p ++ [mid]) vis) /\ ~ In x (out_of (rec mid (p ++ [mid]) vis))) ->
    forall ms vis out,
      incl ms (rel_members vs) ->
      vis = rev out ++ vis0 -> NoDup out -> ~ In x out ->
      (forall y, In y out -> ~ In y vis0 /\ hist_of y) ->
      good vis0 (walk_loop rec x p ms vis out).
  Proof.
    intros rec x p vs vis0 D Hx Hrec. induction ms as [|mid rest IH]; intros vis out Hincl Hvis Hnd Hxo Hout.
    - cbn [walk_loop]. unfold good. cbn [vis_of out_of fst snd]. split; [|split].
      + rewrite rev_app_distr. cbn [rev app]. rewrite Hvis. reflexivity.
      + apply nodup_app; [exact Hnd|constructor; [intros []|constructor]|].
        intros y Hy [E|[]]. subst y. contradiction.
      + intros y Hy. apply in_app_or in Hy. destruct Hy as [Hy|[E|[]]]; [apply Hout; exact Hy|].
        subst y. split; [exact Hx|exact (hist_found x vs D)].
    - cbn [walk_loop]. destruct (memZ mid p) eqn:E.
      + unfold good. cbn [vis_of out_of fst snd]. split; [exact Hvis|]. split; [exact Hnd|exact Hout].
      + apply memZ_not_In in E.
        destruct (Hrec mid vis (Hincl mid (or_introl eq_refl)) E) as [(G1 & G2 & G3) Gx].
        destruct (rec mid (p ++ [mid]) vis) as [[s vis'] out'] eqn:R.
        cbn [vis_of out_of fst snd] in G1, G2, G3, Gx.
        assert (Hnd' : NoDup (out ++ out')).
        { apply nodup_app; [exact Hnd|exact G2|]. intros y Hy Hy'.
          destruct (G3 y Hy') as [Hn _]. apply Hn. rewrite Hvis. apply in_or_app. left.
          apply in_rev in Hy. exact Hy. }
        assert (Hvis' : vis' = rev (out ++ out') ++ vis0).
        { rewrite G1, Hvis, rev_app_distr, app_assoc. reflexivity. }
        assert (Hxo' : ~ In x (out ++ out')) by (rewrite in_app_iff; intros [H|H]; contradiction).
        assert (Hout' : forall y, In y (out ++ out') -> ~ In y vis0 /\ hist_of y).
        { intros y Hy. apply in_app_or in Hy. destruct Hy as [Hy|Hy]; [apply Hout; exact Hy|].
          destruct (G3 y Hy) as [Hn Hh]. split; [|exact Hh]. intros Hv. apply Hn. rewrite Hvis.
          apply in_or_app. right. exact Hv. }
        destruct s.
        * apply IH; try assumption. intros z Hz. apply Hincl. right. exact Hz.
        * unfold good. cbn [vis_of out_of fst snd]. split; [exact Hvis'|]. split; [exact Hnd'|exact Hout'].
        * unfold good. cbn [vis_of out_of fst snd]. split; [exact Hvis'|]. split; [exact Hnd'|exact Hout'].
  Qed.

  Lemma walk_good : forall fuel x p vis, good vis (walk ds fuel x p vis).
  Proof.
    induction fuel as [|f IH]; intros x p vis.
    - cbn [walk]. unfold good. cbn. split; [reflexivity|]. split; [constructor|intros y []].
    - cbn [walk]. destruct (memZ x vis) eqn:E.
      + unfold good. cbn. split; [reflexivity|]. split; [constructor|intros y []].
      + apply memZ_not_In in E. destruct (ds x) as [vs| |] eqn:D.
        * apply (loop_good (walk ds f) x p vs vis D E).
          -- intros mid vis1 Hm Hp. split; [apply IH|]. apply walk_no_emit.
             exists mid. split; [rewrite (members_found x vs D); exact Hm|].
             apply in_or_app. right. left. reflexivity.
          -- apply incl_refl.
          -- reflexivity.
          -- constructor.
          -- intros [].
          -- intros y [].
        * unfold good. cbn. split; [reflexivity|]. split; [constructor|intros y []].
        * unfold good. cbn. split; [reflexivity|]. split; [constructor|intros y []].
  Qed.

  Lemma order_from_good : forall fuel ids vis, good vis (order_from ds fuel ids vis).
  Proof.
    intros fuel. induction ids as [|id rest IH]; intros vis.
    - cbn [order_from]. unfold good. cbn. split; [reflexivity|]. split; [constructor|intros y []].
    - cbn [order_from]. pose proof (walk_good fuel id [] vis) as (G1 & G2 & G3).
      destruct (walk ds fuel id [] vis) as [[s vis'] out] eqn:W. cbn [vis_of out_of fst snd] in *.
      destruct s; [|unfold good; cbn; auto|unfold good; cbn; auto].
      pose proof (IH vis') as (H1 & H2 & H3).
      destruct (order_from ds fuel rest vis') as [[s2 vis2] out2] eqn:O. cbn [vis_of out_of fst snd] in *.
      unfold good. cbn [vis_of out_of fst snd]. split; [|split].
      + rewrite H1, G1, rev_app_distr, app_assoc. reflexivity.
      + apply nodup_app; [exact G2|exact H2|]. intros y Hy Hy'. destruct (H3 y Hy') as [Hn _].
        apply Hn. rewrite G1. apply in_or_app. left. apply in_rev in Hy. exact Hy.
      + intros y Hy. apply in_app_or in Hy. destruct Hy as [Hy|Hy]; [apply G3; exact Hy|].
        destruct (H3 y Hy) as [Hn Hh]. split; [|exact Hh]. intros Hv. apply Hn. rewrite G1.
        apply in_or_app. right. exact Hv.
  Qed.

  Theorem order_nodup : forall fuel ids s out, order ds fuel ids = (s, out) -> NoDup out.
  Proof.
    intros fuel ids s out H. unfold order in H. pose proof (order_from_good fuel ids []) as (_ & G & _).
    destruct (order_from ds fuel ids []) as [[s' v] o]. inversion H; subst. exact G.
  Qed.

  Theorem order_only_with_history : forall fuel ids s out,
    order ds fuel ids = (s, out) -> forall y, In y out -> has_history ds y = true.
  Proof.
    intros fuel ids s out H y Hy. unfold order in H.
    pose proof (order_from_good fuel ids []) as (_ & _ & G).
    destruct (order_from ds fuel ids []) as [[s' v] o]. inversion H; subst. apply (G y Hy).
  Qed.

  (* ---------------------------------------------------------------- completeness: a root call
     (empty path) is never cut *)
  Lemma loop_root_complete : forall rec x ms vis out s vis' out',
    walk_loop rec x [] ms vis out = (s, vis', out') -> s = SOk -> In x vis'.
  Proof.
    intros rec x. induction ms as [|mid rest IH]; intros vis out s vis' out' H Hs.
    - cbn [walk_loop] in H. inversion H; subst. left. reflexivity.
    - cbn [walk_loop memZ existsb] in H.
      destruct (rec mid ([] ++ [mid]) vis) as [[s1 v1] o1]. destruct s1.
      + apply (IH _ _ _ _ _ H Hs).
      + inversion H; subst. discriminate.
      + inversion H; subst. discriminate.
  Qed.

  Lemma walk_root_complete : forall fuel x vis s vis' out,
    walk ds fuel x [] vis = (s, vis', out) -> s = SOk -> hist_of x -> In x vis'.
  Proof.
    intros fuel x vis s vis' out H Hs Hh. destruct fuel as [|f]; [cbn in H; inversion H; subst; discriminate|].
    cbn [walk] in H. destruct (memZ x vis) eqn:E.
    - inversion H; subst. apply memZ_In. exact E.
    - unfold hist_of, has_history in Hh. destruct (ds x) as [vs| |] eqn:D; try discriminate.
      apply (loop_root_complete _ _ _ _ _ _ _ _ H Hs).
  Qed.

  Lemma order_from_complete : forall fuel ids vis s vis' out,
    order_from ds fuel ids vis = (s, vis', out) -> s = SOk ->
    forall id, (In id ids /\ hist_of id) \/ In id vis -> In id vis'.
  Proof.
    intros fuel. induction ids as [|i rest IH]; intros vis s vis' out H Hs id Hid.
    - cbn in H. inversion H; subst. destruct Hid as [[[] _]|Hv]. exact Hv.
    - cbn [order_from] in H. pose proof (walk_good fuel i [] vis) as (G1 & _ & _).
      destruct (walk ds fuel i [] vis) as [[s1 v1] o1] eqn:W. cbn [vis_of out_of fst snd] in G1.
      destruct s1; [|inversion H; subst; discriminate|inversion H; subst; discriminate].
      destruct (order_from ds fuel rest v1) as [[s2 v2] o2] eqn:O. inversion H; subst.
      apply (IH _ _ _ _ O eq_refl). destruct Hid as [[[E|Hr] Hh]|Hv].
      + subst i. right. apply (walk_root_complete _ _ _ _ _ _ W eq_refl Hh).
      + left. split; assumption.
      + right. apply in_or_app. right. exact Hv.
  Qed.

  Theorem order_complete : forall fuel ids out,
    order ds fuel ids = (SOk, out) ->
    forall id, In id ids -> has_history ds id = true -> In id out.
  Proof.
    intros fuel ids out H id Hid Hh. unfold order in H.
    pose proof (order_from_good fuel ids []) as (G1 & _ & _).
    destruct (order_from ds fuel ids []) as [[s v] o] eqn:O. inversion H; subst.
    cbn [vis_of out_of fst snd] in G1. rewrite app_nil_r in G1.
    assert (In id v) by (apply (order_from_complete _ _ _ _ _ _ O eq_refl); left; split; assumption).
    rewrite G1 in H0. apply in_rev in H0. exact H0.
  Qed.
End Walk.
