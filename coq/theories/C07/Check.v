(* C07/Check.v — correspondence + property oracle for one C07 harness case (executable only).

   tag 1 (PBF history): procs resume items* mode filter calls* rac hdrLate leaked
   tag 2 (XML history): nobjs final_err calls* extra_bytes_after_stop   (final_err: io.EOF, or the
     error of an element that fails to decode after the nobjs objects)
   call triples (code, a, b): 0 Scan (ok, id) | 1 Header (err) | 2 Err (err) | 3 Close | 4 Cancel
     (scanning goroutine) | 5 marker: the scanning goroutine has seen that the other goroutine's
     cancel returned | 6 marker: the other goroutine was launched.
   codes: 1 = model run <> observed outputs (only for histories whose stops are issued by the
          scanning goroutine: their outputs are schedule independent),
          2 = property oracle fails on the observation, 0 = case does not parse. *)
From Coq Require Import ZArith List Bool Arith.
From Verif Require Import Base.Wire Pipeline.Model Pipeline.Exec Pipeline.Source.
From VerifGen Require GenPipeline.
Import ListNotations.
Open Scope Z_scope.
Open Scope wire_scope.

Definition ids_of_block (filter : Z) (b : nat) (n : nat) : list obj :=
  if (filter =? 1) || ((filter =? 2) && Nat.odd b) then []
  else map (fun j => Z.of_nat b * 1000 + Z.of_nat j + 1) (seq 0 n).

Fixpoint mk_input (filter : Z) (b : nat) (its : list (Z * Z)) : input :=
  match its with
  | [] => []
  | (k, x) :: r =>
      (if k =? 0 then IBlock (ids_of_block filter b (Z.to_nat x))
       else if k =? 1 then IBad x else IRdErr x) :: mk_input filter (S b) r
  end.

Definition ptriple : P (Z * Z * Z) := c <- pint ;; a <- pint ;; b <- pint ;; ret (c, a, b).

Definition call_of (c : Z) : option call :=
  if c =? 0 then Some CScan else if c =? 1 then Some CHeader else if c =? 2 then Some CErr
  else if c =? 3 then Some CCloseCall else if c =? 4 then Some CCancel else None.

Fixpoint calls_of (l : list (Z * Z * Z)) : list call :=
  match l with
  | [] => []
  | (c, _, _) :: r => match call_of c with Some a => a :: calls_of r | None => calls_of r end
  end.

Definition out_matches (t : Z * Z * Z) (o : list output) : bool :=
  let '(c, a, b) := t in
  match o with
  | [OScan ok v] => (c =? 0) && Bool.eqb ok (a =? 1) && (if ok then v =? b else true)
  | [OHeader e] => (c =? 1) && (e =? a)
  | [OErr e] => (c =? 2) && (e =? a)
  | [OClose] => (c =? 3)
  | [] => (c =? 4)
  | _ => false
  end.

Fixpoint outs_match (l : list (Z * Z * Z)) (os : list (list output)) : bool :=
  match l, os with
  | [], [] => true
  | t :: l', o :: os' => out_matches t o && outs_match l' os'
  | _, _ => false
  end.

(* ---- the property oracle, evaluated on the observed history alone ---- *)
Record ost := mkOst {
  rem : list obj;       (* objects still to come, in file order *)
  o_closed : bool; o_cancelled : bool;   (* stop issued by the scanning goroutine (or seen) *)
  o_maybe : bool;       (* another goroutine may have cancelled already *)
  o_ended : bool;       (* a Scan has returned false *)
  o_rec : err;          (* what the scan ended with when it ended by itself: eEOF = complete *)
  o_cut : bool;         (* a Scan returned false with objects still to come (only legal after a stop) *)
  o_bad : bool }.

Definition spec_err (o : ost) : err :=
  if o_rec o =? eEOF then 0 else if is_err (o_rec o) then o_rec o
  else if o_closed o then eClosed else if o_cancelled o then eCtx else 0.

Definition bad (o : ost) : ost :=
  mkOst (rem o) (o_closed o) (o_cancelled o) (o_maybe o) (o_ended o) (o_rec o) (o_cut o) true.

Definition ostep (ferr : err) (o : ost) (t : Z * Z * Z) : ost :=
  let '(c, a, b) := t in
  let stopped := o_closed o || o_cancelled o in
  if c =? 0 then
    if a =? 1 then
      match rem o with
      | v :: r => if (v =? b) && negb stopped && negb (o_ended o)
                  then mkOst r (o_closed o) (o_cancelled o) (o_maybe o) false (o_rec o) (o_cut o) (o_bad o)
                  else bad o
      | [] => bad o
      end
    else
      if stopped || o_ended o then o
      else match rem o with
           | [] => if o_maybe o   (* complete, or cut by the concurrent cancel: both legal *)
                   then mkOst [] (o_closed o) (o_cancelled o) true true (o_rec o) true (o_bad o)
                   else mkOst [] (o_closed o) (o_cancelled o) false true ferr (o_cut o) (o_bad o)
           | _ :: _ => if o_maybe o
                       then mkOst (rem o) (o_closed o) (o_cancelled o) true true (o_rec o) true (o_bad o)
                       else bad o                                  (* objects lost *)
           end
  else if c =? 1 then o   (* Header: its error value is not part of the property (model comparison only) *)
  else if c =? 2 then
    if o_cut o then
      (* a Scan returned false while another goroutine's cancel was in flight: the scan was cut
         short (the context's error, or the close error after Close) or had just ended by itself
         (only possible when every object had been delivered: the file's own final error, nil
         for EOF); never nil with objects still to come *)
      if (a =? eCtx) || ((a =? eClosed) && o_closed o)
         || (match rem o with [] => a =? (if ferr =? eEOF then 0 else ferr) | _ => false end)
      then o else bad o
    else if o_maybe o && negb (o_cancelled o) then
      if (a =? spec_err o) || ((a =? eCtx) && negb (o_closed o)) then o else bad o
    else if a =? spec_err o then o else bad o
  else if c =? 3 then mkOst (rem o) true (o_cancelled o) (o_maybe o) (o_ended o) (o_rec o) (o_cut o) (o_bad o)
  else if (c =? 4) || (c =? 5) then mkOst (rem o) (o_closed o) true (o_maybe o) (o_ended o) (o_rec o) (o_cut o) (o_bad o)
  else if c =? 6 then mkOst (rem o) (o_closed o) (o_cancelled o) true (o_ended o) (o_rec o) (o_cut o) (o_bad o)
  else bad o.

Definition oracle (exp : list obj) (ferr : err) (calls : list (Z * Z * Z)) : bool :=
  negb (o_bad (fold_left (ostep ferr) calls (mkOst exp false false false false 0 false false))).

(* decoder.Start failed with error h on the first Header/Scan: every Scan is false, every Header
   returns h, Err reports h whatever follows (the earlier recorded error wins; nil for io.EOF) *)
Definition oracle_start_failed (h : err) (calls : list (Z * Z * Z)) : bool :=
  forallb (fun t => let '(c, a, b) := t in
             if c =? 0 then a =? 0
             else if c =? 1 then a =? h
             else if c =? 2 then
               (* before the first Header/Scan nothing is recorded yet: handled by the model comparison *)
               true
             else true) calls
  && (let fix go (started closed cancelled : bool) (l : list (Z * Z * Z)) : bool :=
        match l with
        | [] => true
        | (c, a, _) :: r =>
            if (c =? 0) || (c =? 1) then go true closed cancelled r
            else if c =? 2 then
              (if started then a =? (if h =? eEOF then 0 else h)
               else a =? (if closed then eClosed else if cancelled then eCtx else 0))
              && go started closed cancelled r
            else if c =? 3 then go started true cancelled r
            else if c =? 4 then go started closed true r
            else go started closed cancelled r
        end in go false false false calls).

(* tag 4: the reader blocks in Read at block `stall`, then the context is cancelled from another
   goroutine / its deadline expires while Scan waits: Scan returns (not hung), what was delivered
   is a prefix of the elements before the stall, Err is the context's error, nothing is left *)
Definition check_stalled : P (list Z) :=
  n <- pnat ;; resume <- pbool ;; its <- plist (ppair pint pint) ;;
  stall <- pnat ;; kind <- pint ;; ids <- plist pint ;; e <- pint ;; hung <- pbool ;; leaked <- pint ;;
  let inp := mk_input 0 0 its in
  let j2 := negb hung && prefixb ids (expected (firstn stall inp)) && (e =? eCtx) && (leaked =? 0) in
  ret (code_if j2 2)%list.

(* tag 5: a run of foreign fileblocks; if the reader got into the run, another goroutine cancelled:
   what was delivered is a prefix of the elements, Err is the file's error (the reader stopped at
   the first foreign block) or the context's error, at most one block read started after the
   cancel, nothing hung, nothing left *)
Definition check_foreign_run : P (list Z) :=
  n <- pnat ;; resume <- pbool ;; its <- plist (ppair pint pint) ;;
  ids <- plist pint ;; e <- pint ;; hung <- pbool ;; rac <- pint ;; leaked <- pint ;;
  let inp := mk_input 0 0 its in
  let j2 := negb hung && prefixb ids (expected inp)
            && ((e =? eCtx) || (list_eqb Z.eqb ids (expected inp) && (e =? final_err inp)))
            && (rac <=? 1) && (leaked =? 0) in
  ret (code_if j2 2)%list.

(* tag 6: Close (or cancel then Close, or Header then Close) on a slow reader: delivered prefix;
   when Close has returned no Read is in progress, none begins later, no goroutine is left *)
Definition check_slow_close : P (list Z) :=
  n <- pnat ;; resume <- pbool ;; its <- plist (ppair pint pint) ;;
  stop <- pint ;; ids <- plist pint ;; inread <- pint ;; later <- pint ;; leaked <- pint ;;
  let inp := mk_input 0 0 its in
  let j2 := prefixb ids (expected inp) && (inread =? 0) && (later =? 0) && (leaked =? 0) in
  ret (code_if j2 2)%list.

(* tag 7 (known finding class close-while-read-blocked): Close is called while the reader goroutine
   is blocked in Read; the property text wants Close to return; once the Read has returned Close
   must return and nothing may be left *)
Definition check_blocked_close : P (list Z) :=
  n <- pnat ;; returned <- pbool ;; after_ <- pbool ;; leaked <- pint ;;
  ret (code_if (returned && after_ && (leaked =? 0)) 2)%list.

Definition check_pbf : P (list Z) :=
  n <- pnat ;; resume <- pbool ;; hdrerr <- pint ;; its <- plist (ppair pint pint) ;;
  mode <- pint ;; filter <- pint ;; calls <- plist ptriple ;;
  rac <- pint ;; hdrlate <- pint ;; leaked <- pint ;;
  let inp := mk_input filter 0 its in
  let c := cfg_of_source n inp resume hdrerr in
  let fuel := (4 * length its + 4 * n + 60)%nat in
  let j1 :=
    if mode =? 0 then
      let '(s, outs, ok) := exec_hist c fuel (calls_of calls) (init c) in
      let '(s', done) := drain c fuel s in
      ok && outs_match calls outs && done
    else true in
  let j2 :=
    wf_cfg c &&
    (if hdrerr =? 0 then oracle (expected inp) (final_err inp) calls
     else oracle_start_failed hdrerr calls)
    && (rac <=? 1) && (hdrlate <=? 1) && (leaked =? 0) in
  ret (code_if j1 1 ++ code_if j2 2)%list.

Definition check_xml : P (list Z) :=
  n <- pnat ;; ferr <- pint ;; calls <- plist ptriple ;; extra <- pint ;;
  let objs := map (fun j => Z.of_nat j + 1) (seq 0 n) in
  let '(x, outs) := xrun (calls_of calls) (xinit objs ferr) in
  let j1 := outs_match calls outs in
  let j2 := is_err ferr && oracle objs ferr calls && (extra =? 0) in
  ret (code_if j1 1 ++ code_if j2 2)%list.

(* tag 3: XML scan, context cancelled from another goroutine inside a long run of tokens that yield
   no object: nodes_before run_length nodes_after | ids err scan_again fired reads_after_cancel.
   Oracle: the nodes before the run were delivered in order and nothing else, Err is the context's
   error, a further Scan is false, and at most the reads of the token in progress plus one further
   token follow the cancel (the token-level model Pipeline/Exec.v xtstep reads at most one more
   token, theorem C07_xml_bounded_read_ahead; a token of this document is < 48 bytes = 1 Read) *)
Definition check_xml_cancel : P (list Z) :=
  before <- pnat ;; skip <- pnat ;; after_ <- pnat ;;
  ids <- plist pint ;; e <- pint ;; again <- pbool ;; fired <- pbool ;; reads <- pint ;;
  let toks := map (fun j => XObj (Z.of_nat j + 1)) (seq 0 before) ++ repeat XSkip skip
              ++ map (fun j => XObj (Z.of_nat (before + j) + 1)) (seq 0 after_) in
  (* the model, cancelled in the middle of the run: same delivered objects, same Err *)
  let sched := repeat (XLCall CScan) 1 ++ flat_map (fun _ => [XLStep; XLStep; XLCall CScan]) (seq 0 before)
               ++ repeat XLStep (skip / 2) ++ [XLCancel3] ++ repeat XLStep 4 ++ [XLCall CErr] in
  let '(x, outs) := xtrun (negb GenPipeline.xml_scan_guards) sched (xtinit toks) in
  let j1 := list_eqb Z.eqb (xt_delivered x) ids
            && match last outs (OErr (-1)) with OErr me => me =? e | _ => false end in
  let j2 := fired && list_eqb Z.eqb ids (map (fun j => Z.of_nat j + 1) (seq 0 before))
            && (e =? eCtx) && negb again && (reads <=? 2) in
  ret (code_if j1 1 ++ code_if j2 2)%list.

Definition check_case (t : toks) : list Z :=
  match t with
  | tag :: rest =>
      let p := if tag =? 2 then check_pbf else if tag =? 4 then check_xml
               else if tag =? 6 then check_xml_cancel else if tag =? 8 then check_stalled
               else if tag =? 10 then check_foreign_run else if tag =? 12 then check_slow_close
               else if tag =? 14 then check_blocked_close else pfail in
      match parse_all p rest with Some codes => codes | None => [0] end
  | [] => [0]
  end.
