(* C15/Spec.v — ground truth for "applying updates up to t", written without loops over the
   element: per child, look only at the sub-list of updates that name it and are not too late. *)
From Coq Require Import ZArith List Bool Sorted.
From Verif Require Import C15.Model.
Import ListNotations.
Open Scope Z_scope.

(* the updates naming child i and stamped at or before t, in stored order *)
Definition matching (t i : Z) (us : list update) : list update :=
  filter (fun u => (u_ts u <=? t) && (u_index u =? i)) us.

Definition last_opt {A} (l : list A) : option A := fold_left (fun _ x => Some x) l None.

(* SPEC way node: overwritten by the LAST matching update (id kept) *)
Definition spec_node (t : Z) (us : list update) (i : Z) (n : wnode) : wnode :=
  match last_opt (matching t i us) with
  | None => n
  | Some u => mkNode (n_id n) (u_ver u) (u_cs u) (u_lat u) (u_lon u)
  end.

(* SPEC relation member: same, and the orientation is multiplied by -1 once per matching
   update that carries the reverse flag, see [flipped] (type, ref, role kept) *)
(* the orientation after k flips, in int8 arithmetic as the code computes it (for the values
   -1, 0, 1 that occur: o if k is even, -o if k is odd) *)
Definition flipped (o : Z) (k : nat) : Z :=
  if Nat.eqb k 0 then o else wrap8 (if Nat.even k then o else - o).

Definition spec_member (t : Z) (us : list update) (i : Z) (m : member) : member :=
  let l := matching t i us in
  let o := flipped (m_orient m) (length (filter u_rev l)) in
  match last_opt l with
  | None => m
  | Some u => mkMember (m_type m) (m_ref m) (m_role m) (u_ver u) (u_cs u) (u_lat u) (u_lon u) o (m_nodes m)
  end.

Fixpoint mapi_from {A B} (i : Z) (f : Z -> A -> B) (l : list A) : list B :=
  match l with
  | [] => []
  | x :: r => f i x :: mapi_from (i + 1) f r
  end.
Definition mapi {A B} (f : Z -> A -> B) (l : list A) : list B := mapi_from 0 f l.

Definition spec_nodes (t : Z) (us : list update) (ns : list wnode) : list wnode :=
  mapi (spec_node t us) ns.
Definition spec_members (t : Z) (us : list update) (ms : list member) : list member :=
  mapi (spec_member t us) ms.

(* pending = the later updates in their original order *)
Definition spec_pending (t : Z) (us : list update) : list update :=
  filter (fun u => t <? u_ts u) us.

(* an update that has to be applied and names a child beyond the list *)
Definition bad (t : Z) (n : nat) (u : update) : bool :=
  (u_ts u <=? t) && (Z.of_nat n <=? u_index u).

(* every update that has to be applied names an existing child *)
Definition all_in_range (t : Z) (n : nat) (us : list update) : bool :=
  forallb (fun u => (t <? u_ts u) || ((0 <=? u_index u) && (u_index u <? Z.of_nat n))) us.

Definition nonneg_indices (us : list update) : bool := forallb (fun u => 0 <=? u_index u) us.

(* "each child's updates are in time order": for stored positions a < b naming the same child,
   ts a <= ts b *)
Fixpoint per_index_sorted (us : list update) : bool :=
  match us with
  | [] => true
  | u :: r =>
      forallb (fun v => negb (u_index v =? u_index u) || (u_ts u <=? u_ts v)) r && per_index_sorted r
  end.

(* observable part of a result (the half-updated children of an error are not compared) *)
Inductive obs (C : Type) := OOk (cs : list C) (pend : list update) | OErr (idx : Z) | OPanic.
Arguments OOk {C}. Arguments OErr {C}. Arguments OPanic {C}.
Definition obs_of {C} (r : ares C) : obs C :=
  match r with AOk cs p => OOk cs p | AErr i _ _ => OErr i | APanic => OPanic end.

(* geometry: hypotheses of the agreement theorem *)
Definition annotated_u (u : update) : bool :=
  negb (u_ver u =? 0) || negb (u_lon u =? 0) || negb (u_lat u =? 0).
Definition fully_annotated (ns : list wnode) : bool := forallb annotated ns.
(* every update that has to be applied is in range and annotated *)
Definition updates_ok (t : Z) (n : nat) (us : list update) : bool :=
  forallb (fun u => (t <? u_ts u) ||
                    ((0 <=? u_index u) && (u_index u <? Z.of_nat n) && annotated_u u)) us.

(* "fully annotated" read at time t: the stored way is fully annotated, every due update names an
   existing node, and the way with the updates applied (by the specification) is still fully
   annotated.  Weaker than [fully_annotated ns && updates_ok ..]: an all-zero due update is
   allowed when a later one for the same node overwrites it. *)
Definition annotated_at (t : Z) (ns : list wnode) (us : list update) : bool :=
  fully_annotated ns && all_in_range t (length ns) us && fully_annotated (spec_nodes t us ns).

(* what sort.Sort establishes for a strict weak order [less]: no later element is Less than
   an earlier one *)
Definition sorted_for (less : update -> update -> bool) (l : list update) : Prop :=
  StronglySorted (fun a b => less b a = false) l.
