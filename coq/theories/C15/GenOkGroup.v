(* C15/GenOkGroup.v — internal/mputil.Group, regenerated from /repo's source on every run
   (VerifGen.GenGroup, translator/cmd/group with tr/loops.go), equals the hand model
   C15.Model.group.  Atoms of the translation (the harness interns the same way): member type
   "way" = 1, roles "outer" = 0 and "inner" = 1, the ways map as an association list (find_way),
   uint32(i) = i; Way.LineStringAt is the model's line_string_at (itself proved equal to the
   regenerated body in GenOk.v); Segment.Reverse is seg_reverse. *)
From Coq Require Import ZArith List Bool Arith Lia.
From Verif Require Import Base.GenLoop C15.Model C15.Spec C15.Proofs C15.GenOk.
From VerifGen Require Import GenGroup.
Import ListNotations.
Open Scope Z_scope.

Lemma Z_of_nat_eqb' (a b : nat) : (Z.of_nat a =? Z.of_nat b) = Nat.eqb a b.
Proof.
  destruct (Nat.eqb a b) eqn:E.
  - apply Nat.eqb_eq in E. subst. apply Z.eqb_refl.
  - apply Nat.eqb_neq in E. apply Z.eqb_neq. lia.
Qed.

(* a way without updates looks the same at every time: LineStringAt is LineString
   (a fast path some spellings of Group take) *)
Lemma keep_annotated_points ns : keep_annotated ns (map node_point ns) = line_string ns.
Proof.
  unfold line_string. induction ns as [|n ns IH]; [reflexivity|].
  cbn [map keep_annotated filter]. destruct (annotated n); cbn [map]; rewrite IH; reflexivity.
Qed.

Lemma way_line_string_at_no_updates w at_ :
  (Z.of_nat (length (w_updates w)) =? 0) = true ->
  way_line_string_at w at_ = Some (way_line_string w).
Proof.
  intro H. apply Z.eqb_eq in H. destruct (w_updates w) as [|u us] eqn:Eu; [|cbn in H; lia].
  unfold way_line_string_at, way_line_string, line_string_at, line_string_at_gen. rewrite Eu.
  cbn [lsat_loop]. rewrite keep_annotated_points. reflexivity.
Qed.

Theorem gen_group_ok ws ms at_ : gen_group ws ms at_ = group ms ws at_.
Proof.
  unfold gen_group, group. cbv zeta.
  match goal with
  | |- match loop_fold ?F ms _ with _ => _ end = _ =>
      assert (H : forall ms i o n t,
                 loop_fold F ms (i, o, n, t) =
                 match group_loop i ms ws at_ o n t with
                 | GOk o' n' t' => LNext (i + Z.of_nat (length ms), o', n', t')
                 | GPanic => LRet GPanic
                 end)
  end.
  { clear ms. induction ms as [|m r IH]; intros i o n t.
    - cbn. rewrite Z.add_0_r. reflexivity.
    - rewrite loop_fold_cons. cbn [group_loop].
      assert (Hlen : i + 1 + Z.of_nat (length r) = i + Z.of_nat (length (m :: r))) by (cbn [length]; lia).
      destruct (m_type m =? 1); cbn [negb].
      2:{ rewrite IH, Hlen. reflexivity. }
      destruct (find_way (m_ref m) ws) as [w|].
      2:{ rewrite IH, Hlen. reflexivity. }
      (* the line of the way: LineStringAt, or LineString on the fast path for ways without
         updates if the source has one *)
      first
        [ match goal with
          | |- context [Z.of_nat (length (w_updates w)) =? 0] =>
              let Eu := fresh "Eu" in
              destruct (Z.of_nat (length (w_updates w)) =? 0) eqn:Eu;
              [ let Hl := fresh "Hl" in
                pose proof (way_line_string_at_no_updates w at_ Eu) as Hl;
                unfold way_line_string_at in Hl; rewrite Hl; clear Hl;
                generalize (way_line_string w); intro line
              | unfold way_line_string_at;
                destruct (line_string_at at_ (w_nodes w) (w_updates w)) as [line|]; [|reflexivity] ]
          end
        | unfold way_line_string_at;
          destruct (line_string_at at_ (w_nodes w) (w_updates w)) as [line|]; [|reflexivity] ];
      rewrite Z_of_nat_eqb';
      destruct (Nat.eqb (length line) (length (w_nodes w))); cbn [negb];
        (destruct line as [|p line];
         [cbn [length Z.of_nat Z.eqb]; rewrite IH, Hlen; reflexivity|];
         replace (Z.of_nat (length (p :: line)) =? 0) with false by reflexivity;
         cbn [s_orient];
         destruct (m_role m =? 0);
         [destruct (m_orient m =? -1); cbn [seg_reverse s_index s_orient s_reversed s_line negb];
          rewrite IH, Hlen; reflexivity|];
         destruct (m_role m =? 1);
         [destruct (m_orient m =? 1); cbn [seg_reverse s_index s_orient s_reversed s_line negb];
          rewrite IH, Hlen; reflexivity|];
         rewrite IH, Hlen; reflexivity). }
  rewrite H. destruct (group_loop 0 ms ws at_ [] [] false); reflexivity.
Qed.

(* Segment.Reverse as regenerated from mputil.go is the model's seg_reverse (the only thing left
   to the model of package orb is that LineString.Reverse reverses the list in place) *)
Lemma gen_segment_reverse_ok s :
  gen_segment_reverse (s_index s) (s_orient s) (s_reversed s) (s_line s) = seg_reverse s.
Proof. reflexivity. Qed.
