(* C15/Model.v — executable model of applying updates (way.go, relation.go, update.go) and of the
   geometry-at-time query; the consumer in internal/mputil.Group.  Definitions only.

   Times are Z nanoseconds (time.Time.After / Before = strict comparison of instants),
   coordinates are Z (the harness uses integer-valued float64, exact), ids/versions/changesets Z.
   A point is (lon, lat) as orb.Point{Lon, Lat}.

   Loops are transcribed one by one:
     Way.ApplyUpdatesUpTo / Relation.ApplyUpdatesUpTo  -> [apply_loop] (generic in the child type)
     applyUpdate                                       -> the index test + [update_nth]
     Way.LineString                                    -> [line_string]
     Way.LineStringAt                                  -> [line_string_at]   (code after the fix: `continue`)
                                                          [line_string_at_break] (code before: `break`)
     Updates.UpTo                                      -> [up_to]
     updatesSortTS.Less / updatesSortIndex.Less        -> [less_ts] / [less_index]
     mputil.Group (way members)                        -> [group]
   Go panics (negative index) are the explicit results [LPanic] / [None]. *)
From Coq Require Import ZArith List Bool.
Import ListNotations.
Open Scope Z_scope.

Record update := mkUpdate {
  u_index : Z; u_ver : Z; u_ts : Z; u_cs : Z; u_lat : Z; u_lon : Z; u_rev : bool }.

Record wnode := mkNode { n_id : Z; n_ver : Z; n_cs : Z; n_lat : Z; n_lon : Z }.

(* m_type: 0 node, 1 way, 2 relation; m_role: interned role string (0 "outer", 1 "inner", ...);
   m_nodes: the node path Member.Nodes of a way member, interned by content (0 = nil): no function of
   this package reads or writes it *)
Record member := mkMember {
  m_type : Z; m_ref : Z; m_role : Z; m_ver : Z; m_cs : Z; m_lat : Z; m_lon : Z; m_orient : Z; m_nodes : Z }.

Definition point := (Z * Z)%type.

(* w.Nodes[i] = f (w.Nodes[i]) for i < len *)
Fixpoint update_nth {A} (n : nat) (f : A -> A) (l : list A) : list A :=
  match l, n with
  | [], _ => []
  | x :: r, O => f x :: r
  | x :: r, S k => x :: update_nth k f r
  end.

(* way.go applyUpdate: the four assignments *)
Definition upd_node (u : update) (n : wnode) : wnode :=
  mkNode (n_id n) (u_ver u) (u_cs u) (u_lat u) (u_lon u).

(* orb.Orientation is an int8: arithmetic on it wraps *)
Definition wrap8 (z : Z) : Z := (z + 128) mod 256 - 128.

(* relation.go applyUpdate: the four assignments and  if u.Reverse { Orientation *= -1 } *)
Definition upd_member (u : update) (m : member) : member :=
  mkMember (m_type m) (m_ref m) (m_role m) (u_ver u) (u_cs u) (u_lat u) (u_lon u)
           (if u_rev u then wrap8 (- m_orient m) else m_orient m) (m_nodes m).

Section Apply.
  Context {C : Type}.
  Variable upd : update -> C -> C.

  Inductive loop_res :=
  | LDone (cs : list C) (pend : list update)
  | LErr (idx : Z) (cs : list C)     (* return err: children half-updated, w.Updates not assigned *)
  | LPanic.                          (* negative index: Go run-time panic on w.Nodes[u.Index] *)

  (* for _, u := range w.Updates { if u.Timestamp.After(t) { notApplied = append(..); continue }
                                    if err := w.applyUpdate(u); err != nil { return err } } *)
  Fixpoint apply_loop (t : Z) (us : list update) (cs : list C) (pend : list update) : loop_res :=
    match us with
    | [] => LDone cs pend
    | u :: r =>
        if t <? u_ts u then apply_loop t r cs (pend ++ [u])
        else if Z.of_nat (length cs) <=? u_index u then LErr (u_index u) cs
        else if u_index u <? 0 then LPanic
        else apply_loop t r (update_nth (Z.to_nat (u_index u)) (upd u) cs) pend
    end.

  Inductive ares :=
  | AOk (cs : list C) (pend : list update)
  | AErr (idx : Z) (cs : list C) (us : list update)
  | APanic.

  Definition apply_updates_up_to (t : Z) (cs : list C) (us : list update) : ares :=
    match apply_loop t us cs [] with
    | LDone cs' p => AOk cs' p
    | LErr i cs' => AErr i cs' us
    | LPanic => APanic
    end.
End Apply.

Arguments loop_res : clear implicits.
Arguments ares : clear implicits.

(* applyUpdate on its own (one iteration of the loop above that is not skipped), the form in
   which the translator regenerates it from way.go / relation.go (C15/GenOk.v) *)
Inductive au_res (C : Type) := AU_Ok (cs : list C) | AU_Err (idx : Z) | AU_Panic.
Arguments AU_Ok {C} _.
Arguments AU_Err {C} _.

Definition apply_update {C} (upd : update -> C -> C) (cs : list C) (u : update) : au_res C :=
  if Z.of_nat (length cs) <=? u_index u then AU_Err (u_index u)
  else if u_index u <? 0 then AU_Panic C
  else AU_Ok (update_nth (Z.to_nat (u_index u)) (upd u) cs).

(* support for generated code: Go's bounds-checked  l[i] = f(l[i]) ; k *)
Definition set_at {C R} (l : list C) (i : Z) (f : C -> C) (panic : R) (k : list C -> R) : R :=
  if (i <? 0) || (Z.of_nat (length l) <=? i) then panic else k (update_nth (Z.to_nat i) f l).

Definition way_apply := apply_updates_up_to upd_node.
Definition rel_apply := apply_updates_up_to upd_member.

(* Updates.UpTo *)
Definition up_to (t : Z) (us : list update) : list update :=
  filter (fun u => negb (t <? u_ts u)) us.

(* Way.LineString *)
Definition annotated (n : wnode) : bool :=
  negb (n_ver n =? 0) || negb (n_lon n =? 0) || negb (n_lat n =? 0).
Definition node_point (n : wnode) : point := (n_lon n, n_lat n).
Definition line_string (ns : list wnode) : list point :=
  map node_point (filter annotated ns).

(* Way.LineStringAt: second loop.  [brk] = true is the code before the repair (`break` on the
   first too-late update), false the repaired code (`continue`). *)
Fixpoint lsat_loop (brk : bool) (t : Z) (us : list update) (ls : list point) : option (list point) :=
  match us with
  | [] => Some ls
  | u :: r =>
      if t <? u_ts u then (if brk then Some ls else lsat_loop brk t r ls)
      else if Z.of_nat (length ls) <=? u_index u then lsat_loop brk t r ls
      else if u_index u <? 0 then None
      else lsat_loop brk t r (update_nth (Z.to_nat (u_index u)) (fun _ => (u_lon u, u_lat u)) ls)
  end.

(* third loop: keep ls[i] unless w.Nodes[i] is all zeros *)
Fixpoint keep_annotated (ns : list wnode) (ls : list point) : list point :=
  match ns, ls with
  | n :: ns', p :: ls' => if annotated n then p :: keep_annotated ns' ls' else keep_annotated ns' ls'
  | _, _ => []
  end.

Definition line_string_at_gen (brk : bool) (t : Z) (ns : list wnode) (us : list update)
  : option (list point) :=
  match lsat_loop brk t us (map node_point ns) with
  | Some ls => Some (keep_annotated ns ls)
  | None => None
  end.

Definition line_string_at := line_string_at_gen false.        (* /repo now *)
Definition line_string_at_break := line_string_at_gen true.   (* /repo before the fix commit *)

(* the two Less functions of update.go *)
Definition less_ts (a b : update) : bool := u_ts a <? u_ts b.
(* updatesSortIndex.Less after /repo fix 47692a5: (index, timestamp, version) *)
Definition less_index (a b : update) : bool :=
  if negb (u_index a =? u_index b) then u_index a <? u_index b
  else if negb (u_ts a =? u_ts b) then u_ts a <? u_ts b
  else u_ver a <? u_ver b.

(* ---- consumer: mputil.Group, restricted to what it does with way members ---- *)
Record way := mkWay { w_id : Z; w_nodes : list wnode; w_updates : list update }.
Record segment := mkSeg { s_index : Z; s_orient : Z; s_reversed : bool; s_line : list point }.

(* Segment.Reverse (mputil.go): flips the flag and reverses the line in place (orb.LineString.Reverse) *)
Definition seg_reverse (s : segment) : segment :=
  mkSeg (s_index s) (s_orient s) (negb (s_reversed s)) (rev (s_line s)).

Fixpoint find_way (id : Z) (ws : list way) : option way :=
  match ws with
  | [] => None
  | w :: r => if w_id w =? id then Some w else find_way id r
  end.

(* w.LineStringAt(at) on a way value *)
Definition way_line_string (w : way) : list point := line_string (w_nodes w).
Definition way_line_string_at (w : way) (at_ : Z) : option (list point) :=
  line_string_at at_ (w_nodes w) (w_updates w).

Inductive group_res :=
| GOk (outer inner : list segment) (tainted : bool)
| GPanic.

(* role codes: 0 = "outer", 1 = "inner", anything else = other *)
Fixpoint group_loop (i : Z) (ms : list member) (ws : list way) (at_ : Z)
         (outer inner : list segment) (tainted : bool) : group_res :=
  match ms with
  | [] => GOk outer inner tainted
  | m :: r =>
      if negb (m_type m =? 1) then group_loop (i + 1) r ws at_ outer inner tainted
      else match find_way (m_ref m) ws with
           | None => group_loop (i + 1) r ws at_ outer inner true
           | Some w =>
               match line_string_at at_ (w_nodes w) (w_updates w) with
               | None => GPanic
               | Some line =>
                   let tainted' := if negb (Nat.eqb (length line) (length (w_nodes w))) then true else tainted in
                   match line with
                   | [] => group_loop (i + 1) r ws at_ outer inner tainted'
                   | _ =>
                       if m_role m =? 0 then
                         let s := if m_orient m =? -1 then mkSeg i (m_orient m) true (rev line)
                                  else mkSeg i (m_orient m) false line in
                         group_loop (i + 1) r ws at_ (outer ++ [s]) inner tainted'
                       else if m_role m =? 1 then
                         let s := if m_orient m =? 1 then mkSeg i (m_orient m) true (rev line)
                                  else mkSeg i (m_orient m) false line in
                         group_loop (i + 1) r ws at_ outer (inner ++ [s]) tainted'
                       else group_loop (i + 1) r ws at_ outer inner tainted'
                   end
               end
           end
  end.

Definition group (ms : list member) (ws : list way) (at_ : Z) : group_res :=
  group_loop 0 ms ws at_ [] [] false.
