(* C15/Proofs.v — lemmas about applying updates (generic in the child type). *)
From Coq Require Import ZArith List Bool Lia Sorted Permutation.
From Verif Require Import C15.Model C15.Spec.
Import ListNotations.
Open Scope Z_scope.

(* ---------- update_nth ---------- *)
Lemma update_nth_length {A} (f : A -> A) (l : list A) : forall n, length (update_nth n f l) = length l.
Proof. induction l as [|x r IH]; intros [|k]; cbn; auto. Qed.

Lemma nth_error_update_nth {A} (f : A -> A) (l : list A) : forall n k,
  nth_error (update_nth n f l) k =
  if Nat.eqb k n then option_map f (nth_error l k) else nth_error l k.
Proof.
  induction l as [|x r IH]; intros n k.
  - destruct n; destruct k; cbn; try reflexivity; destruct (Nat.eqb k n); reflexivity.
  - destruct n as [|n]; destruct k as [|k]; cbn; try reflexivity. apply IH.
Qed.

Lemma map_update_nth {A B} (g : A -> B) (f : A -> A) (h : B -> B) (l : list A) :
  (forall x, g (f x) = h (g x)) ->
  forall n, map g (update_nth n f l) = update_nth n h (map g l).
Proof.
  intros Hgf. induction l as [|x r IH]; intros [|n]; cbn; try reflexivity.
  - rewrite Hgf. reflexivity.
  - rewrite IH. reflexivity.
Qed.

Lemma nth_error_ext {A} (l1 l2 : list A) :
  (forall k, nth_error l1 k = nth_error l2 k) -> l1 = l2.
Proof.
  revert l2. induction l1 as [|x r IH]; intros [|y s] H.
  - reflexivity.
  - specialize (H O). discriminate.
  - specialize (H O). discriminate.
  - pose proof (H O) as H0. cbn in H0. inversion H0; subst. f_equal.
    apply IH. intro k. exact (H (S k)).
Qed.

Lemma nth_error_mapi_from {A B} (f : Z -> A -> B) (l : list A) : forall i k,
  nth_error (mapi_from i f l) k = option_map (f (i + Z.of_nat k)) (nth_error l k).
Proof.
  induction l as [|x r IH]; intros i k.
  - destruct k; reflexivity.
  - destruct k as [|k]; cbn [mapi_from nth_error option_map].
    + f_equal. f_equal. lia.
    + rewrite IH. f_equal. f_equal. lia.
Qed.

Lemma nth_error_mapi {A B} (f : Z -> A -> B) (l : list A) k :
  nth_error (mapi f l) k = option_map (f (Z.of_nat k)) (nth_error l k).
Proof. unfold mapi. rewrite nth_error_mapi_from. reflexivity. Qed.

Lemma filter_filter_impl {A} (p q : A -> bool) (l : list A) :
  (forall x, p x = true -> q x = true) -> filter p (filter q l) = filter p l.
Proof.
  intros H. induction l as [|x r IH]; cbn; [reflexivity|].
  destruct (q x) eqn:Eq; cbn.
  - rewrite IH. reflexivity.
  - destruct (p x) eqn:Ep; [rewrite (H x Ep) in Eq; discriminate|exact IH].
Qed.

(* ---------- the loop, generic in the child type ---------- *)
Section Generic.
  Context {C : Type}.
  Variable upd : update -> C -> C.

  (* what one stored update does to child i *)
  Definition step (t i : Z) (c : C) (u : update) : C :=
    if (u_ts u <=? t) && (u_index u =? i) then upd u c else c.
  Definition child_after (t i : Z) (us : list update) (c : C) : C := fold_left (step t i) us c.

  Lemma child_after_cons t i u r c : child_after t i (u :: r) c = child_after t i r (step t i c u).
  Proof. reflexivity. Qed.
  Lemma step_late t i c u : (t <? u_ts u) = true -> step t i c u = c.
  Proof. intro H. unfold step. replace (u_ts u <=? t) with false by lia. reflexivity. Qed.
  Lemma step_other t i c u : (u_index u =? i) = false -> step t i c u = c.
  Proof. intro H. unfold step. rewrite H, andb_false_r. reflexivity. Qed.
  Lemma step_due t i c u : (t <? u_ts u) = false -> (u_index u =? i) = true -> step t i c u = upd u c.
  Proof. intros H1 H2. unfold step. rewrite H2. replace (u_ts u <=? t) with true by lia. reflexivity. Qed.

  Lemma child_after_matching t i us : forall c,
    child_after t i us c = fold_left (fun c u => upd u c) (matching t i us) c.
  Proof.
    unfold child_after, matching. induction us as [|u r IH]; intro c; cbn; [reflexivity|].
    unfold step at 2. destruct ((u_ts u <=? t) && (u_index u =? i)); cbn; apply IH.
  Qed.

  Lemma apply_loop_done t : forall us cs pend cs' p,
    apply_loop upd t us cs pend = LDone cs' p ->
    p = pend ++ spec_pending t us /\ length cs' = length cs /\
    forall k, nth_error cs' k = option_map (child_after t (Z.of_nat k) us) (nth_error cs k).
  Proof.
    induction us as [|u r IH]; intros cs pend cs' p H; cbn in H.
    - inversion H; subst. rewrite app_nil_r. repeat split.
      intro k. cbn. destruct (nth_error cs' k); reflexivity.
    - unfold spec_pending. cbn [filter]. destruct (t <? u_ts u) eqn:Elate.
      + apply IH in H. destruct H as (Hp & Hl & Hk). repeat split.
        * rewrite Hp. rewrite <- app_assoc. reflexivity.
        * exact Hl.
        * intro k. rewrite Hk. destruct (nth_error cs k) as [c|]; cbn [option_map]; [|reflexivity].
          rewrite child_after_cons, (step_late _ _ _ _ Elate). reflexivity.
      + destruct (Z.of_nat (length cs) <=? u_index u) eqn:Ehi; [discriminate|].
        destruct (u_index u <? 0) eqn:Eneg; [discriminate|].
        apply IH in H. destruct H as (Hp & Hl & Hk). rewrite update_nth_length in Hl.
        repeat split; [exact Hp|exact Hl|].
        intro k. rewrite Hk. rewrite nth_error_update_nth.
        destruct (Nat.eqb k (Z.to_nat (u_index u))) eqn:Ek.
        * apply Nat.eqb_eq in Ek. assert (Ei : (u_index u =? Z.of_nat k) = true) by lia.
          destruct (nth_error cs k) as [c|]; cbn [option_map]; [|reflexivity].
          rewrite child_after_cons, (step_due _ _ _ _ Elate Ei). reflexivity.
        * apply Nat.eqb_neq in Ek. assert (Ei : (u_index u =? Z.of_nat k) = false) by lia.
          destruct (nth_error cs k) as [c|]; cbn [option_map]; [|reflexivity].
          rewrite child_after_cons, (step_other _ _ _ _ Ei). reflexivity.
  Qed.

  (* which way the loop ends depends only on t, the number of children and the updates *)
  Inductive status := SOk | SErr (idx : Z) | SPanic.
  Fixpoint status_of (t : Z) (n : nat) (us : list update) : status :=
    match us with
    | [] => SOk
    | u :: r => if t <? u_ts u then status_of t n r
                else if Z.of_nat n <=? u_index u then SErr (u_index u)
                else if u_index u <? 0 then SPanic
                else status_of t n r
    end.
  Definition status_of_loop (r : loop_res C) : status :=
    match r with LDone _ _ => SOk | LErr i _ => SErr i | LPanic => SPanic end.

  Lemma apply_loop_status t : forall us cs pend,
    status_of_loop (apply_loop upd t us cs pend) = status_of t (length cs) us.
  Proof.
    induction us as [|u r IH]; intros cs pend; cbn; [reflexivity|].
    destruct (t <? u_ts u); [apply IH|].
    destruct (Z.of_nat (length cs) <=? u_index u); [reflexivity|].
    destruct (u_index u <? 0); [reflexivity|].
    rewrite IH. rewrite update_nth_length. reflexivity.
  Qed.

  Lemma apply_loop_err_length t : forall us cs pend i cs',
    apply_loop upd t us cs pend = LErr i cs' -> length cs' = length cs.
  Proof.
    induction us as [|u r IH]; intros cs pend i cs' H; cbn in H; [discriminate|].
    destruct (t <? u_ts u); [exact (IH _ _ _ _ H)|].
    destruct (Z.of_nat (length cs) <=? u_index u); [inversion H; reflexivity|].
    destruct (u_index u <? 0); [discriminate|].
    apply IH in H. rewrite update_nth_length in H. exact H.
  Qed.

  (* the half-updated children of an error are the result of applying the prefix before the
     offending update *)
  Lemma apply_loop_err_prefix t : forall us cs pend i cs',
    apply_loop upd t us cs pend = LErr i cs' ->
    exists us1 u us2 p, us = us1 ++ u :: us2 /\ bad t (length cs) u = true /\ u_index u = i /\
                        existsb (bad t (length cs)) us1 = false /\
                        apply_loop upd t us1 cs pend = LDone cs' p.
  Proof.
    induction us as [|u r IH]; intros cs pend i cs' H; cbn in H; [discriminate|].
    destruct (t <? u_ts u) eqn:Elate.
    - apply IH in H. destruct H as (us1 & v & us2 & p & E & Hb & Hi & Hn & Hd).
      exists (u :: us1), v, us2, p. subst r. repeat split; auto.
      + cbn. unfold bad at 1. replace (u_ts u <=? t) with false by lia. exact Hn.
      + cbn. rewrite Elate. exact Hd.
    - destruct (Z.of_nat (length cs) <=? u_index u) eqn:Ehi.
      + inversion H; subst. exists [], u, r, pend. repeat split; auto.
        unfold bad. rewrite Ehi. replace (u_ts u <=? t) with true by lia. reflexivity.
      + destruct (u_index u <? 0) eqn:Eneg; [discriminate|].
        apply IH in H. destruct H as (us1 & v & us2 & p & E & Hb & Hi & Hn & Hd).
        rewrite update_nth_length in Hb, Hn.
        exists (u :: us1), v, us2, p. subst r. repeat split; auto.
        * cbn. unfold bad at 1. rewrite Ehi, andb_false_r. exact Hn.
        * cbn. rewrite Elate, Ehi, Eneg. exact Hd.
  Qed.

  Lemma status_all_in_range t n us : all_in_range t n us = true -> status_of t n us = SOk.
  Proof.
    induction us as [|u r IH]; cbn; [reflexivity|]. intro H. apply andb_prop in H as [Hu Hr].
    destruct (t <? u_ts u); [exact (IH Hr)|]. cbn in Hu. apply andb_prop in Hu as [H0 H1].
    replace (Z.of_nat n <=? u_index u) with false by lia.
    replace (u_index u <? 0) with false by lia. exact (IH Hr).
  Qed.

  Lemma status_ok_all_in_range t n us : status_of t n us = SOk -> all_in_range t n us = true.
  Proof.
    induction us as [|u r IH]; [reflexivity|]. cbn [status_of]. intro H.
    unfold all_in_range. cbn [forallb]. fold (all_in_range t n r).
    destruct (t <? u_ts u); cbn [orb]; [exact (IH H)|].
    destruct (Z.of_nat n <=? u_index u) eqn:Ehi; [discriminate|].
    destruct (u_index u <? 0) eqn:Eneg; [discriminate|].
    rewrite (IH H). replace (0 <=? u_index u) with true by lia.
    replace (u_index u <? Z.of_nat n) with true by lia. reflexivity.
  Qed.

  Lemma status_nonneg_no_panic t n us :
    nonneg_indices us = true -> status_of t n us <> SPanic.
  Proof.
    induction us as [|u r IH]; cbn; [discriminate|]. intro H. apply andb_prop in H as [Hu Hr].
    destruct (t <? u_ts u); [exact (IH Hr)|].
    destruct (Z.of_nat n <=? u_index u); [discriminate|].
    replace (u_index u <? 0) with false by lia. exact (IH Hr).
  Qed.

  (* the error names the FIRST stored update that is due and out of range *)
  Lemma status_first_bad t n us :
    nonneg_indices us = true ->
    status_of t n us = match find (bad t n) us with Some u => SErr (u_index u) | None => SOk end.
  Proof.
    induction us as [|u r IH]; cbn; [reflexivity|]. intro H. apply andb_prop in H as [Hu Hr].
    unfold bad at 1. destruct (t <? u_ts u) eqn:El.
    - replace (u_ts u <=? t) with false by lia. cbn. exact (IH Hr).
    - replace (u_ts u <=? t) with true by lia. cbn.
      destruct (Z.of_nat n <=? u_index u); [reflexivity|].
      replace (u_index u <? 0) with false by lia. exact (IH Hr).
  Qed.

  (* ----- top level ----- *)
  Lemma apply_ok_inv t cs us cs' p :
    apply_updates_up_to upd t cs us = AOk cs' p ->
    p = spec_pending t us /\ length cs' = length cs /\
    forall k, nth_error cs' k = option_map (child_after t (Z.of_nat k) us) (nth_error cs k).
  Proof.
    unfold apply_updates_up_to. intro H.
    destruct (apply_loop upd t us cs []) as [cs1 p1|i cs1|] eqn:E; inversion H; subst.
    exact (apply_loop_done _ _ _ _ _ _ E).
  Qed.

  Lemma apply_status t cs us :
    match apply_updates_up_to upd t cs us with
    | AOk _ _ => SOk | AErr i _ _ => SErr i | APanic => SPanic
    end = status_of t (length cs) us.
  Proof.
    unfold apply_updates_up_to. rewrite <- (apply_loop_status t us cs []).
    destruct (apply_loop upd t us cs []); reflexivity.
  Qed.

  Lemma apply_succeeds t cs us :
    all_in_range t (length cs) us = true ->
    exists cs', apply_updates_up_to upd t cs us = AOk cs' (spec_pending t us).
  Proof.
    intro H. pose proof (apply_status t cs us) as Hs. rewrite (status_all_in_range _ _ _ H) in Hs.
    destruct (apply_updates_up_to upd t cs us) as [cs' p|i cs' us'|] eqn:E; try discriminate.
    exists cs'. f_equal. exact (proj1 (apply_ok_inv _ _ _ _ _ E)).
  Qed.

  Lemma apply_err_inv t cs us i cs' us' :
    apply_updates_up_to upd t cs us = AErr i cs' us' ->
    us' = us /\ length cs' = length cs /\
    exists us1 u us2, us = us1 ++ u :: us2 /\ bad t (length cs) u = true /\ u_index u = i /\
                      existsb (bad t (length cs)) us1 = false /\
                      exists p, apply_updates_up_to upd t cs us1 = AOk cs' p.
  Proof.
    unfold apply_updates_up_to. intro H.
    destruct (apply_loop upd t us cs []) as [cs1 p1|j cs1|] eqn:E; inversion H; subst.
    split; [reflexivity|]. split; [exact (apply_loop_err_length _ _ _ _ _ _ E)|].
    destruct (apply_loop_err_prefix _ _ _ _ _ _ E) as (us1 & u & us2 & p & E1 & Hb & Hi & Hn & Hd).
    exists us1, u, us2. repeat split; auto. exists p. rewrite Hd. reflexivity.
  Qed.

  (* ----- composition ----- *)
  Lemma child_after_no_due t i us c :
    forallb (fun v => negb (u_index v =? i) || (t <? u_ts v)) us = true ->
    child_after t i us c = c.
  Proof.
    revert c. induction us as [|u r IH]; intros c H; [reflexivity|].
    cbn in H. apply andb_prop in H as [Hu Hr]. rewrite child_after_cons.
    assert (Es : step t i c u = c).
    { unfold step. replace ((u_ts u <=? t) && (u_index u =? i)) with false by lia. reflexivity. }
    rewrite Es. exact (IH c Hr).
  Qed.

  Lemma child_compose t1 t2 i : t1 <= t2 -> forall us c,
    per_index_sorted us = true ->
    child_after t2 i (spec_pending t1 us) (child_after t1 i us c) = child_after t2 i us c.
  Proof.
    intros Ht. induction us as [|u r IH]; intros c Hs; [reflexivity|].
    cbn in Hs. apply andb_prop in Hs as [Hu Hr].
    unfold spec_pending. cbn [filter]. fold (spec_pending t1 r).
    rewrite !(child_after_cons _ _ u r).
    destruct (t1 <? u_ts u) eqn:El1.
    - (* u stays pending after t1 *)
      rewrite child_after_cons. rewrite (step_late t1 _ _ _ El1).
      destruct ((t2 <? u_ts u) || negb (u_index u =? i)) eqn:Edue.
      + assert (E2 : forall c', step t2 i c' u = c').
        { intro c'. unfold step. replace ((u_ts u <=? t2) && (u_index u =? i)) with false by lia. reflexivity. }
        rewrite !E2. exact (IH c Hr).
      + (* u is due at t2 for child i: no later update of child i is due at t1 *)
        assert (E2 : forall c', step t2 i c' u = upd u c').
        { intro c'. unfold step. replace ((u_ts u <=? t2) && (u_index u =? i)) with true by lia. reflexivity. }
        rewrite !E2.
        assert (Hnone : forall c', child_after t1 i r c' = c').
        { intro c'. apply child_after_no_due. rewrite forallb_forall in Hu |- *. intros v Hv.
          specialize (Hu v Hv). lia. }
        rewrite Hnone. rewrite <- (IH (upd u c) Hr). rewrite Hnone. reflexivity.
    - (* u was applied at t1, and is also due at t2 *)
      assert (E12 : step t2 i c u = step t1 i c u).
      { unfold step. replace (u_ts u <=? t1) with true by lia. replace (u_ts u <=? t2) with true by lia. reflexivity. }
      rewrite E12. exact (IH _ Hr).
  Qed.

  Lemma status_compose t1 t2 n : t1 <= t2 -> forall us,
    status_of t1 n us = SOk -> status_of t2 n (spec_pending t1 us) = status_of t2 n us.
  Proof.
    intros Ht. induction us as [|u r IH]; intro H; [reflexivity|].
    unfold spec_pending. cbn [filter]. fold (spec_pending t1 r). cbn in H.
    destruct (t1 <? u_ts u) eqn:El1.
    - cbn. destruct (t2 <? u_ts u); [exact (IH H)|].
      destruct (Z.of_nat n <=? u_index u); [reflexivity|].
      destruct (u_index u <? 0); [reflexivity|exact (IH H)].
    - destruct (Z.of_nat n <=? u_index u) eqn:Ehi; [discriminate|].
      destruct (u_index u <? 0) eqn:Eneg; [discriminate|].
      cbn. replace (t2 <? u_ts u) with false by lia. rewrite Ehi, Eneg. exact (IH H).
  Qed.

  Lemma apply_compose_obs t1 t2 cs us cs1 p1 :
    per_index_sorted us = true -> t1 <= t2 ->
    apply_updates_up_to upd t1 cs us = AOk cs1 p1 ->
    obs_of (apply_updates_up_to upd t2 cs1 p1) = obs_of (apply_updates_up_to upd t2 cs us).
  Proof.
    intros Hs Ht H1.
    destruct (apply_ok_inv _ _ _ _ _ H1) as (Hp1 & Hl1 & Hk1). subst p1.
    pose proof (apply_status t1 cs us) as S1. rewrite H1 in S1. symmetry in S1.
    pose proof (status_compose t1 t2 (length cs) Ht us S1) as Sc.
    pose proof (apply_status t2 cs1 (spec_pending t1 us)) as Sa. pose proof (apply_status t2 cs us) as Sb.
    rewrite Hl1, Sc, <- Sb in Sa. clear Sb Sc.
    destruct (apply_updates_up_to upd t2 cs us) as [cs2 p2|i2 cs2 us2|] eqn:E2;
      destruct (apply_updates_up_to upd t2 cs1 (spec_pending t1 us)) as [cs3 p3|i3 cs3 us3|] eqn:E3;
      try discriminate; cbn.
    - destruct (apply_ok_inv _ _ _ _ _ E2) as (Hp2 & Hl2 & Hk2).
      destruct (apply_ok_inv _ _ _ _ _ E3) as (Hp3 & Hl3 & Hk3).
      f_equal.
      + apply nth_error_ext. intro k. rewrite Hk3, Hk2, Hk1.
        destruct (nth_error cs k) as [c|]; cbn; [|reflexivity].
        rewrite (child_compose t1 t2 _ Ht us c Hs). reflexivity.
      + rewrite Hp3, Hp2. unfold spec_pending. apply filter_filter_impl. intros x Hx. lia.
    - inversion Sa. reflexivity.
    - reflexivity.
  Qed.
End Generic.

(* ---------- ways: the last matching update wins ---------- *)
Lemma last_opt_app {A} (l : list A) x : last_opt (l ++ [x]) = Some x.
Proof. unfold last_opt. rewrite fold_left_app. reflexivity. Qed.

Lemma fold_upd_node l : forall n,
  fold_left (fun c u => upd_node u c) l n =
  match last_opt l with
  | None => n
  | Some u => mkNode (n_id n) (u_ver u) (u_cs u) (u_lat u) (u_lon u)
  end.
Proof.
  induction l as [|u r IH] using rev_ind; intro n; [reflexivity|].
  rewrite fold_left_app, last_opt_app. cbn. rewrite IH. unfold upd_node.
  destruct (last_opt r); reflexivity.
Qed.

Lemma child_after_node t i us n : child_after upd_node t i us n = spec_node t us i n.
Proof. rewrite child_after_matching. unfold spec_node. apply fold_upd_node. Qed.

Lemma wrap8_opp_wrap8 x : wrap8 (- wrap8 x) = wrap8 (- x).
Proof. unfold wrap8. Z.div_mod_to_equations. lia. Qed.

Lemma wrap8_small x : -128 <= x <= 127 -> wrap8 x = x.
Proof. unfold wrap8. intro H. Z.div_mod_to_equations. lia. Qed.

Lemma flipped_succ o k : wrap8 (- flipped o k) = flipped o (S k).
Proof.
  unfold flipped. cbn [Nat.eqb]. rewrite Nat.even_succ, <- Nat.negb_even.
  destruct k as [|k]; [reflexivity|]. cbn [Nat.eqb]. rewrite wrap8_opp_wrap8.
  destruct (Nat.even (S k)); cbn [negb]; [reflexivity|]. rewrite Z.opp_involutive. reflexivity.
Qed.

(* on the orientations that occur (-1, 0, 1) this is plain negation per flip *)
Lemma flipped_small o k : -127 <= o <= 127 -> flipped o k = if Nat.even k then o else - o.
Proof.
  intro H. unfold flipped. destruct k as [|k]; [reflexivity|]. cbn [Nat.eqb].
  destruct (Nat.even (S k)); apply wrap8_small; lia.
Qed.

Lemma fold_upd_member l : forall m,
  fold_left (fun c u => upd_member u c) l m =
  match last_opt l with
  | None => m
  | Some u => mkMember (m_type m) (m_ref m) (m_role m) (u_ver u) (u_cs u) (u_lat u) (u_lon u)
                       (flipped (m_orient m) (length (filter u_rev l))) (m_nodes m)
  end.
Proof.
  induction l as [|u r IH] using rev_ind; intro m; [reflexivity|].
  rewrite fold_left_app, last_opt_app. cbn [fold_left]. rewrite IH.
  rewrite filter_app, app_length. cbn [filter].
  set (k := length (filter u_rev r)).
  assert (Hor : m_orient (match last_opt r with
                          | None => m
                          | Some u0 => mkMember (m_type m) (m_ref m) (m_role m) (u_ver u0) (u_cs u0)
                                         (u_lat u0) (u_lon u0) (flipped (m_orient m) k) (m_nodes m)
                          end) = flipped (m_orient m) k).
  { destruct (last_opt r) eqn:El; [reflexivity|]. subst k.
    destruct r as [|a r'] using rev_ind; [reflexivity|]. rewrite last_opt_app in El. discriminate. }
  unfold upd_member. rewrite Hor.
  assert (Hty : forall x, m_type (match last_opt r with None => m | Some u0 => mkMember (m_type m) (m_ref m) (m_role m) (u_ver u0) (u_cs u0) (u_lat u0) (u_lon u0) x (m_nodes m) end) = m_type m)
    by (intro; destruct (last_opt r); reflexivity).
  assert (Hrf : forall x, m_ref (match last_opt r with None => m | Some u0 => mkMember (m_type m) (m_ref m) (m_role m) (u_ver u0) (u_cs u0) (u_lat u0) (u_lon u0) x (m_nodes m) end) = m_ref m)
    by (intro; destruct (last_opt r); reflexivity).
  assert (Hro : forall x, m_role (match last_opt r with None => m | Some u0 => mkMember (m_type m) (m_ref m) (m_role m) (u_ver u0) (u_cs u0) (u_lat u0) (u_lon u0) x (m_nodes m) end) = m_role m)
    by (intro; destruct (last_opt r); reflexivity).
  assert (Hnd : forall x, m_nodes (match last_opt r with None => m | Some u0 => mkMember (m_type m) (m_ref m) (m_role m) (u_ver u0) (u_cs u0) (u_lat u0) (u_lon u0) x (m_nodes m) end) = m_nodes m)
    by (intro; destruct (last_opt r); reflexivity).
  rewrite Hty, Hrf, Hro, Hnd. f_equal.
  destruct (u_rev u); cbn [length].
  - rewrite Nat.add_1_r. apply flipped_succ.
  - rewrite Nat.add_0_r. reflexivity.
Qed.

Lemma child_after_member t i us m : child_after upd_member t i us m = spec_member t us i m.
Proof. rewrite child_after_matching. unfold spec_member. apply fold_upd_member. Qed.

(* exactness in list form, for any child type whose per-child spec is [spec] *)
Lemma apply_exact_gen {C} (upd : update -> C -> C) (spec : Z -> list update -> Z -> C -> C) :
  (forall t i us c, child_after upd t i us c = spec t us i c) ->
  forall t cs us cs' p,
    apply_updates_up_to upd t cs us = AOk cs' p ->
    cs' = mapi (spec t us) cs /\ p = spec_pending t us.
Proof.
  intros Hspec t cs us cs' p H. destruct (apply_ok_inv _ _ _ _ _ _ H) as (Hp & Hl & Hk).
  split; [|exact Hp]. apply nth_error_ext. intro k. rewrite Hk, nth_error_mapi.
  destruct (nth_error cs k); cbn; [rewrite Hspec|]; reflexivity.
Qed.

(* ---------- UpTo ---------- *)
Lemma up_to_spec t us : up_to t us = filter (fun u => u_ts u <=? t) us.
Proof.
  unfold up_to. apply filter_ext. intro u. lia.
Qed.

Lemma up_to_pending_partition t us :
  Permutation us (up_to t us ++ spec_pending t us).
Proof.
  unfold up_to, spec_pending. induction us as [|u r IH]; cbn; [constructor|].
  destruct (t <? u_ts u); cbn.
  - apply Permutation_cons_app. exact IH.
  - constructor. exact IH.
Qed.

(* ---------- geometry at time ---------- *)
Lemma annotated_upd_node u n : annotated_u u = true -> annotated (upd_node u n) = true.
Proof. intro H. exact H. Qed.

Lemma forallb_update_nth {A} (q : A -> bool) (f : A -> A) (l : list A) :
  forallb q l = true -> (forall x, q (f x) = true) ->
  forall n, forallb q (update_nth n f l) = true.
Proof.
  intros Hl Hf. induction l as [|x r IH]; intros [|n]; cbn; try reflexivity;
    cbn in Hl; apply andb_prop in Hl as [Hx Hr].
  - rewrite Hf, Hr. reflexivity.
  - rewrite Hx, (IH Hr). reflexivity.
Qed.

Lemma lsat_loop_agrees t : forall us ns pend,
  fully_annotated ns = true -> updates_ok t (length ns) us = true ->
  exists ns' p, apply_loop upd_node t us ns pend = LDone ns' p /\
                fully_annotated ns' = true /\ length ns' = length ns /\
                lsat_loop false t us (map node_point ns) = Some (map node_point ns').
Proof.
  induction us as [|u r IH]; intros ns pend Hfa Hok.
  - exists ns, pend. cbn. auto.
  - cbn in Hok. apply andb_prop in Hok as [Hu Hr]. cbn [apply_loop lsat_loop].
    rewrite map_length. destruct (t <? u_ts u) eqn:El.
    + apply IH; assumption.
    + cbn in Hu. apply andb_prop in Hu as [Hu Han]. apply andb_prop in Hu as [H0 H1].
      replace (Z.of_nat (length ns) <=? u_index u) with false by lia.
      replace (u_index u <? 0) with false by lia.
      set (ns1 := update_nth (Z.to_nat (u_index u)) (upd_node u) ns).
      assert (Hfa1 : fully_annotated ns1 = true).
      { apply forallb_update_nth; [exact Hfa|]. intro x. exact (annotated_upd_node u x Han). }
      assert (Hl1 : length ns1 = length ns) by apply update_nth_length.
      rewrite <- Hl1 in Hr.
      destruct (IH ns1 pend Hfa1 Hr) as (ns' & p & Hd & Hfa' & Hl' & Hls).
      exists ns', p. repeat split; [exact Hd|exact Hfa'|lia|].
      rewrite <- Hls. f_equal. unfold ns1. symmetry.
      apply map_update_nth. intro x. reflexivity.
Qed.

Lemma keep_annotated_all ns : forall ls,
  fully_annotated ns = true -> length ls = length ns -> keep_annotated ns ls = ls.
Proof.
  induction ns as [|n r IH]; intros [|p ls] Hfa Hl; cbn in *; try reflexivity; try discriminate.
  apply andb_prop in Hfa as [Hn Hr]. rewrite Hn. f_equal. apply IH; [exact Hr|lia].
Qed.

Lemma filter_all {A} (q : A -> bool) l : forallb q l = true -> filter q l = l.
Proof.
  induction l as [|x r IH]; cbn; [reflexivity|]. intro H. apply andb_prop in H as [Hx Hr].
  rewrite Hx, (IH Hr). reflexivity.
Qed.

Lemma line_string_at_agrees_lemma t ns us :
  fully_annotated ns = true -> updates_ok t (length ns) us = true ->
  exists ns' p, way_apply t ns us = AOk ns' p /\
                line_string_at t ns us = Some (line_string ns').
Proof.
  intros Hfa Hok. destruct (lsat_loop_agrees t us ns [] Hfa Hok) as (ns' & p & Hd & Hfa' & Hl & Hls).
  exists ns', p. unfold way_apply, apply_updates_up_to, line_string_at, line_string_at_gen.
  rewrite Hd, Hls. split; [reflexivity|]. f_equal.
  rewrite keep_annotated_all; [|exact Hfa|rewrite map_length; exact Hl].
  unfold line_string. fold (fully_annotated ns') in *. unfold fully_annotated in Hfa'.
  rewrite (filter_all _ _ Hfa'). reflexivity.
Qed.

(* the code before the repair does not satisfy the agreement *)
Definition refuted_nodes := [mkNode 1 1 0 1 1; mkNode 2 1 0 2 2].
Definition refuted_updates := [mkUpdate 0 2 200 0 10 10 false; mkUpdate 1 2 100 0 20 20 false].

Lemma line_string_at_break_refuted_lemma :
  exists t ns us ns' p,
    fully_annotated ns = true /\ updates_ok t (length ns) us = true /\
    way_apply t ns us = AOk ns' p /\ line_string_at_break t ns us <> Some (line_string ns').
Proof.
  exists 150, refuted_nodes, refuted_updates.
  eexists. eexists. split; [reflexivity|]. split; [reflexivity|]. split; [vm_compute; reflexivity|].
  vm_compute. discriminate.
Qed.

(* ---------- the sorts ---------- *)
Lemma less_ts_irrefl a : less_ts a a = false.
Proof. unfold less_ts. lia. Qed.
Lemma less_ts_trans a b c : less_ts a b = true -> less_ts b c = true -> less_ts a c = true.
Proof. unfold less_ts. lia. Qed.
Lemma less_ts_incomp_trans a b c :
  less_ts a b = false -> less_ts b a = false -> less_ts b c = false -> less_ts c b = false ->
  less_ts a c = false /\ less_ts c a = false.
Proof. unfold less_ts. lia. Qed.

Ltac less_index_cases :=
  unfold less_index;
  repeat match goal with
         | |- context [?x =? ?y] => let E := fresh "E" in destruct (x =? y) eqn:E
         end; cbn [negb]; try lia.

Lemma less_index_irrefl a : less_index a a = false.
Proof. unfold less_index. rewrite !Z.eqb_refl. cbn. lia. Qed.
Lemma less_index_trans a b c :
  less_index a b = true -> less_index b c = true -> less_index a c = true.
Proof. less_index_cases. Qed.
Lemma less_index_incomp_trans a b c :
  less_index a b = false -> less_index b a = false -> less_index b c = false -> less_index c b = false ->
  less_index a c = false /\ less_index c a = false.
Proof. less_index_cases. Qed.

Lemma sorted_ts_per_index_sorted l : sorted_for less_ts l -> per_index_sorted l = true.
Proof.
  unfold sorted_for. induction 1 as [|a l Hs IH Hall]; cbn; [reflexivity|].
  rewrite IH, andb_true_r. rewrite forallb_forall. intros v Hv.
  rewrite Forall_forall in Hall. specialize (Hall v Hv). unfold less_ts in Hall. lia.
Qed.

Lemma sorted_index_per_index_sorted l : sorted_for less_index l -> per_index_sorted l = true.
Proof.
  unfold sorted_for. induction 1 as [|a l Hs IH Hall]; cbn; [reflexivity|].
  rewrite IH, andb_true_r. rewrite forallb_forall. intros v Hv.
  rewrite Forall_forall in Hall. specialize (Hall v Hv). revert Hall. less_index_cases.
Qed.

(* a Less-sorted list is ordered by the intended key *)
Lemma sorted_ts_nondecreasing l :
  sorted_for less_ts l -> StronglySorted (fun a b => u_ts a <= u_ts b) l.
Proof.
  unfold sorted_for. induction 1 as [|a l Hs IH Hall]; constructor; [exact IH|].
  eapply Forall_impl; [|exact Hall]. intros b Hb. unfold less_ts in Hb. lia.
Qed.

Lemma sorted_index_lex l :
  sorted_for less_index l ->
  StronglySorted (fun a b => u_index a < u_index b \/ (u_index a = u_index b /\
      (u_ts a < u_ts b \/ (u_ts a = u_ts b /\ u_ver a <= u_ver b)))) l.
Proof.
  unfold sorted_for. induction 1 as [|a l Hs IH Hall]; constructor; [exact IH|].
  eapply Forall_impl; [|exact Hall]. intros b. less_index_cases.
Qed.

(* ---------- the consumer: mputil.Group ---------- *)
Definition ways_ok (at_ : Z) (ws : list way) : bool :=
  forallb (fun w => fully_annotated (w_nodes w) && updates_ok at_ (length (w_nodes w)) (w_updates w)) ws.

(* the segment is the geometry of its member's way with the updates applied up to [at_] *)
Definition seg_ok (ms : list member) (ws : list way) (at_ : Z) (s : segment) : Prop :=
  exists m w ns' p,
    0 <= s_index s /\ nth_error ms (Z.to_nat (s_index s)) = Some m /\ m_type m = 1 /\
    s_orient s = m_orient m /\
    find_way (m_ref m) ws = Some w /\
    way_apply at_ (w_nodes w) (w_updates w) = AOk ns' p /\
    (if s_reversed s then rev (s_line s) else s_line s) = line_string ns'.

Lemma find_way_in id ws w : find_way id ws = Some w -> In w ws.
Proof.
  induction ws as [|x r IH]; cbn; [discriminate|].
  destruct (w_id x =? id); [intro H; inversion H; auto|auto].
Qed.

Lemma group_loop_segments at_ ws all : ways_ok at_ ws = true ->
  forall ms pre outer inner tainted o' i' t',
    all = pre ++ ms ->
    Forall (seg_ok all ws at_) outer -> Forall (seg_ok all ws at_) inner ->
    group_loop (Z.of_nat (length pre)) ms ws at_ outer inner tainted = GOk o' i' t' ->
    Forall (seg_ok all ws at_) o' /\ Forall (seg_ok all ws at_) i'.
Proof.
  intros Hws. induction ms as [|m r IH]; intros pre outer inner tainted o' i' t' Hall Ho Hi H.
  - cbn in H. inversion H; subst. auto.
  - assert (Hnext : all = (pre ++ [m]) ++ r) by (rewrite <- app_assoc; exact Hall).
    assert (Hlen : Z.of_nat (length pre) + 1 = Z.of_nat (length (pre ++ [m])))
      by (rewrite app_length; cbn; lia).
    assert (Hnth : nth_error all (Z.to_nat (Z.of_nat (length pre))) = Some m).
    { rewrite Nat2Z.id, Hall, nth_error_app2, Nat.sub_diag; [reflexivity|lia]. }
    cbn [group_loop] in H. rewrite Hlen in H.
    destruct (negb (m_type m =? 1)) eqn:Ety; [exact (IH _ _ _ _ _ _ _ Hnext Ho Hi H)|].
    destruct (find_way (m_ref m) ws) as [w|] eqn:Efw; [|exact (IH _ _ _ _ _ _ _ Hnext Ho Hi H)].
    pose proof (find_way_in _ _ _ Efw) as Hin. unfold ways_ok in Hws.
    rewrite forallb_forall in Hws. specialize (Hws w Hin). apply andb_prop in Hws as [Hfa Hok].
    destruct (line_string_at_agrees_lemma at_ (w_nodes w) (w_updates w) Hfa Hok) as (ns' & p & Happ & Hls).
    rewrite Hls in H.
    assert (Hseg : forall (rv : bool) (line : list point), (if rv then rev line else line) = line_string ns' ->
                   seg_ok all ws at_ (mkSeg (Z.of_nat (length pre)) (m_orient m) rv line)).
    { intros rv line Hl. exists m, w, ns', p. cbn [s_index s_orient s_reversed s_line].
      repeat split; auto; lia. }
    destruct (line_string ns') as [|pt l] eqn:Eline; [exact (IH _ _ _ _ _ _ _ Hnext Ho Hi H)|].
    destruct (m_role m =? 0).
    + refine (IH _ _ _ _ _ _ _ Hnext _ Hi H). apply Forall_app. split; [exact Ho|].
      constructor; [|constructor]. destruct (m_orient m =? -1); apply Hseg;
        [apply rev_involutive|reflexivity].
    + destruct (m_role m =? 1); [|exact (IH _ _ _ _ _ _ _ Hnext Ho Hi H)].
      refine (IH _ _ _ _ _ _ _ Hnext Ho _ H). apply Forall_app. split; [exact Hi|].
      constructor; [|constructor]. destruct (m_orient m =? 1); apply Hseg;
        [apply rev_involutive|reflexivity].
Qed.

Lemma group_segments ms ws at_ outer inner tainted :
  ways_ok at_ ws = true -> group ms ws at_ = GOk outer inner tainted ->
  Forall (seg_ok ms ws at_) outer /\ Forall (seg_ok ms ws at_) inner.
Proof.
  intros Hws H. unfold group in H.
  exact (group_loop_segments at_ ws ms Hws ms [] [] [] false _ _ _ eq_refl (Forall_nil _) (Forall_nil _) H).
Qed.

(* ---------- LineStringAt in general (no annotation hypothesis) ---------- *)
Lemma lsat_loop_general t : forall us ns pend,
  all_in_range t (length ns) us = true ->
  exists ns' p, apply_loop upd_node t us ns pend = LDone ns' p /\ length ns' = length ns /\
                lsat_loop false t us (map node_point ns) = Some (map node_point ns').
Proof.
  induction us as [|u r IH]; intros ns pend Hok.
  - exists ns, pend. cbn. auto.
  - cbn in Hok. apply andb_prop in Hok as [Hu Hr]. cbn [apply_loop lsat_loop].
    rewrite map_length. destruct (t <? u_ts u) eqn:El.
    + apply IH; assumption.
    + cbn in Hu. apply andb_prop in Hu as [H0 H1].
      replace (Z.of_nat (length ns) <=? u_index u) with false by lia.
      replace (u_index u <? 0) with false by lia.
      set (ns1 := update_nth (Z.to_nat (u_index u)) (upd_node u) ns).
      assert (Hl1 : length ns1 = length ns) by apply update_nth_length.
      rewrite <- Hl1 in Hr.
      destruct (IH ns1 pend Hr) as (ns' & p & Hd & Hl' & Hls).
      exists ns', p. repeat split; [exact Hd|lia|].
      rewrite <- Hls. f_equal. unfold ns1. symmetry.
      apply map_update_nth. intro x. reflexivity.
Qed.

Lemma line_string_at_general_lemma t ns us :
  all_in_range t (length ns) us = true ->
  exists ns' p, way_apply t ns us = AOk ns' p /\
                line_string_at t ns us = Some (keep_annotated ns (map node_point ns')).
Proof.
  intro Hok. destruct (lsat_loop_general t us ns [] Hok) as (ns' & p & Hd & Hl & Hls).
  exists ns', p. unfold way_apply, apply_updates_up_to, line_string_at, line_string_at_gen.
  rewrite Hd, Hls. split; reflexivity.
Qed.

(* ---------- a Less-sorted permutation has a unique key sequence ---------- *)
Lemma sorted_perm_unique_gen {K} (le : K -> K -> Prop) :
  (forall a b, le a b -> le b a -> a = b) ->
  forall k1 k2, Permutation k1 k2 -> StronglySorted le k1 -> StronglySorted le k2 -> k1 = k2.
Proof.
  intros Hanti. induction k1 as [|a r1 IH]; intros k2 Hp H1 H2.
  - apply Permutation_nil in Hp. subst. reflexivity.
  - destruct k2 as [|b r2]; [apply Permutation_sym, Permutation_nil in Hp; discriminate|].
    apply StronglySorted_inv in H1 as [Hs1 Ha]. apply StronglySorted_inv in H2 as [Hs2 Hb].
    rewrite Forall_forall in Ha, Hb.
    assert (Hab : a = b).
    { assert (Hina : In a (b :: r2)) by (eapply Permutation_in; [exact Hp|left; reflexivity]).
      assert (Hinb : In b (a :: r1)) by (eapply Permutation_in; [apply Permutation_sym; exact Hp|left; reflexivity]).
      destruct Hina as [E|Hina]; [symmetry; exact E|].
      destruct Hinb as [E|Hinb]; [exact E|].
      apply Hanti; [exact (Ha b Hinb)|exact (Hb a Hina)]. }
    subst b. f_equal. apply IH; [|exact Hs1|exact Hs2].
    eapply Permutation_cons_inv. exact Hp.
Qed.

Lemma sorted_map {A K} (R : A -> A -> Prop) (le : K -> K -> Prop) (key : A -> K) l :
  (forall a b, R a b -> le (key a) (key b)) ->
  StronglySorted R l -> StronglySorted le (map key l).
Proof.
  intros HR. induction 1 as [|a l Hs IH Hall]; cbn; constructor; [exact IH|].
  rewrite Forall_map. eapply Forall_impl; [|exact Hall]. intros b Hb. exact (HR a b Hb).
Qed.

Definition key_index (u : update) : Z * Z := (u_index u, u_ts u).
Definition lex_le (a b : Z * Z) : Prop := fst a < fst b \/ (fst a = fst b /\ snd a <= snd b).

Lemma less_ts_le a b : less_ts b a = false -> u_ts a <= u_ts b.
Proof. unfold less_ts. lia. Qed.

Lemma sorted_ts_keys_unique l1 l2 :
  Permutation l1 l2 -> sorted_for less_ts l1 -> sorted_for less_ts l2 ->
  map u_ts l1 = map u_ts l2.
Proof.
  intros Hp H1 H2. apply (sorted_perm_unique_gen Z.le).
  - intros a b Hab Hba. lia.
  - apply Permutation_map. exact Hp.
  - exact (sorted_map _ Z.le u_ts _ less_ts_le H1).
  - exact (sorted_map _ Z.le u_ts _ less_ts_le H2).
Qed.

Lemma less_index_lex a b : less_index b a = false -> lex_le (key_index a) (key_index b).
Proof.
  unfold lex_le, key_index. cbn [fst snd]. less_index_cases.
Qed.

Lemma sorted_index_keys_unique l1 l2 :
  Permutation l1 l2 -> sorted_for less_index l1 -> sorted_for less_index l2 ->
  map key_index l1 = map key_index l2.
Proof.
  intros Hp H1 H2. apply (sorted_perm_unique_gen lex_le).
  - intros [a1 a2] [b1 b2]. unfold lex_le. cbn. intros Hab Hba. f_equal; lia.
  - apply Permutation_map. exact Hp.
  - exact (sorted_map _ lex_le key_index _ less_index_lex H1).
  - exact (sorted_map _ lex_le key_index _ less_index_lex H2).
Qed.


(* ---------- agreement under the hypothesis read at time t ---------- *)
Lemma line_string_at_agrees_at_t t ns us :
  annotated_at t ns us = true ->
  way_apply t ns us = AOk (spec_nodes t us ns) (spec_pending t us) /\
  line_string_at t ns us = Some (line_string (spec_nodes t us ns)).
Proof.
  unfold annotated_at. intro H. apply andb_prop in H as [H Hafter]. apply andb_prop in H as [Hfa Hrange].
  destruct (line_string_at_general_lemma t ns us Hrange) as (ns' & p & Happ & Hls).
  destruct (apply_exact_gen upd_node spec_node child_after_node _ _ _ _ _ Happ) as [Ens Ep].
  unfold spec_nodes in *. subst ns' p. split; [exact Happ|]. rewrite Hls. f_equal.
  destruct (apply_ok_inv _ _ _ _ _ _ Happ) as (_ & Hlen & _).
  rewrite keep_annotated_all; [|exact Hfa|rewrite map_length; exact Hlen].
  unfold line_string. unfold fully_annotated in Hafter. rewrite (filter_all _ _ Hafter). reflexivity.
Qed.

(* the former, stronger hypothesis implies the one read at time t *)
Lemma updates_ok_annotated_at t ns us :
  fully_annotated ns = true -> updates_ok t (length ns) us = true -> annotated_at t ns us = true.
Proof.
  intros Hfa Hok. unfold annotated_at. rewrite Hfa. cbn [andb].
  assert (Hrange : all_in_range t (length ns) us = true).
  { unfold all_in_range, updates_ok in *. rewrite forallb_forall in Hok |- *. intros u Hu.
    specialize (Hok u Hu). destruct (t <? u_ts u); [reflexivity|]. cbn in *.
    apply andb_prop in Hok as [Hok _]. exact Hok. }
  rewrite Hrange. cbn [andb].
  destruct (line_string_at_agrees_lemma t ns us Hfa Hok) as (ns' & p & Happ & _).
  destruct (lsat_loop_agrees t us ns [] Hfa Hok) as (ns2 & p2 & Hd & Hfa2 & _ & _).
  unfold way_apply, apply_updates_up_to in Happ. rewrite Hd in Happ. inversion Happ; subst ns' p.
  assert (Happ' : way_apply t ns us = AOk ns2 p2) by (unfold way_apply, apply_updates_up_to; rewrite Hd; reflexivity).
  destruct (apply_exact_gen upd_node spec_node child_after_node _ _ _ _ _ Happ') as [Ens _].
  unfold spec_nodes. rewrite <- Ens. exact Hfa2.
Qed.
