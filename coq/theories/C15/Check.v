(* C15/Check.v — correspondence + property oracle for one harness case (executable only).

   Case layouts (first token = tag, zigzag-encoded by wire.Int):
   1 WAY_APPLY : t nodes updates | status erridx nodes' updates' original_updates_afterwards
   2 REL_APPLY : t members updates | status erridx members' updates' original_updates_afterwards
   3 COMPOSE   : kind(0 way,1 relation) t1 t2 children updates
                 | A1(status erridx children updates)   apply up to t1
                   A2(status erridx children updates)   then up to t2 on the same element (if A1 ok)
                   B (status erridx children updates)   apply up to t2 on a fresh copy
   4 LSAT      : t nodes updates | panicked points_at status_apply points_of_applied_copy
                                   nodes_afterwards updates_afterwards (of the queried way)
   5 UPTO      : t updates | updates'
   6 SORT      : which(0 timestamp,1 index) updates | updates'
   7 GROUP     : at members ways(id nodes updates) | panicked outer inner tainted
   status: 0 ok, 1 UpdateIndexOutOfRangeError, 2 panic, 3 any other error.
   node = id ver cs lat lon;  member = type ref role ver cs lat lon orient;
   update = index ver ts cs lat lon reverse (ts and every time t: seconds, nanoseconds);  segment = index orient reversed points.
   codes: 1 = model <> implementation (projected observables), 2 = property oracle fails on the
          observation, 0 = case does not parse. *)
From Coq Require Import ZArith List Bool.
From Verif Require Import Base.Wire C15.Model C15.Spec.
Import ListNotations.
Open Scope Z_scope.
Open Scope wire_scope.

(* an instant: seconds and nanoseconds since the Unix epoch (instants outside the int64
   nanosecond range occur) *)
Definition ptime : P Z := s <- pint ;; n <- pint ;; ret (s * 1000000000 + n).

Definition pupdate : P update :=
  i <- pint ;; v <- pint ;; ts <- ptime ;; cs <- pint ;; la <- pint ;; lo <- pint ;; r <- pbool ;;
  ret (mkUpdate i v ts cs la lo r).
Definition pnode : P wnode :=
  i <- pint ;; v <- pint ;; cs <- pint ;; la <- pint ;; lo <- pint ;; ret (mkNode i v cs la lo).
Definition pmember : P member :=
  ty <- pint ;; rf <- pint ;; ro <- pint ;; v <- pint ;; cs <- pint ;; la <- pint ;; lo <- pint ;;
  o <- pint ;; nd <- pint ;; ret (mkMember ty rf ro v cs la lo o nd).
Definition ppoint : P point := ppair pint pint.

Definition update_eqb (a b : update) : bool :=
  (u_index a =? u_index b) && (u_ver a =? u_ver b) && (u_ts a =? u_ts b) && (u_cs a =? u_cs b)
  && (u_lat a =? u_lat b) && (u_lon a =? u_lon b) && Bool.eqb (u_rev a) (u_rev b).
Definition node_eqb (a b : wnode) : bool :=
  (n_id a =? n_id b) && (n_ver a =? n_ver b) && (n_cs a =? n_cs b) && (n_lat a =? n_lat b)
  && (n_lon a =? n_lon b).
Definition member_eqb (a b : member) : bool :=
  (m_type a =? m_type b) && (m_ref a =? m_ref b) && (m_role a =? m_role b) && (m_ver a =? m_ver b)
  && (m_cs a =? m_cs b) && (m_lat a =? m_lat b) && (m_lon a =? m_lon b) && (m_orient a =? m_orient b)
  && (m_nodes a =? m_nodes b).
Definition point_eqb (a b : point) : bool := (fst a =? fst b) && (snd a =? snd b).

(* an observation of ApplyUpdatesUpTo: status, error index, children and Updates afterwards *)
Record observed (C : Type) := mkObs { o_status : Z; o_idx : Z; o_cs : list C; o_us : list update }.
Arguments mkObs {C}. Arguments o_status {C}. Arguments o_idx {C}. Arguments o_cs {C}. Arguments o_us {C}.

Definition pobs {C} (pc : P C) : P (observed C) :=
  st <- pint ;; idx <- pint ;; cs <- plist pc ;; us <- plist pupdate ;; ret (mkObs st idx cs us).

(* judgement 1 on projected observables: success = children and pending; error = the index and
   the update list, which must be left as it was (a retry must find every update); the
   half-updated children are not part of the property *)
Definition res_matches {C} (ceqb : C -> C -> bool) (r : ares C) (o : observed C) : bool :=
  match r with
  | AOk cs p => (o_status o =? 0) && list_eqb ceqb cs (o_cs o) && list_eqb update_eqb p (o_us o)
  | AErr i _ us => (o_status o =? 1) && (i =? o_idx o) && list_eqb update_eqb us (o_us o)
  | APanic => o_status o =? 2
  end.

(* judgement 2: the property evaluated on the observation, using Spec only *)
Definition applicable_nonneg (t : Z) (us : list update) : bool :=
  forallb (fun u => (t <? u_ts u) || (0 <=? u_index u)) us.

Definition apply_oracle {C} (ceqb : C -> C -> bool) (spec : Z -> list update -> Z -> C -> C)
           (t : Z) (cs : list C) (us : list update) (o : observed C) : bool :=
  if negb (applicable_nonneg t us)
  then (o_status o =? 1) || (o_status o =? 2)   (* a due negative index: an error or a panic, never a success *)
  else if all_in_range t (length cs) us then
    (o_status o =? 0) && list_eqb ceqb (mapi (spec t us) cs) (o_cs o)
    && list_eqb update_eqb (spec_pending t us) (o_us o)
  else
    (o_status o =? 1) && existsb (fun u => bad t (length cs) u && (u_index u =? o_idx o)) us
    && Nat.eqb (length (o_cs o)) (length cs)
    && list_eqb update_eqb us (o_us o).   (* an error leaves the update list as it was *)

Definition check_apply {C} (pc : P C) (upd : update -> C -> C) (ceqb : C -> C -> bool)
           (spec : Z -> list update -> Z -> C -> C) : P (list Z) :=
  t <- ptime ;; cs <- plist pc ;; us <- plist pupdate ;; o <- pobs pc ;;
  orig_after <- plist pupdate ;;
  let j1 := res_matches ceqb (apply_updates_up_to upd t cs us) o in
  (* the call ran on an ordinary copy (cp := *w, cloned children, shared update list): the
     ORIGINAL's update list must be what it was *)
  let j2 := apply_oracle ceqb spec t cs us o && list_eqb update_eqb us orig_after in
  ret (code_if j1 1 ++ code_if j2 2)%list.

(* ---- COMPOSE ---- *)
Definition obs_same {C} (ceqb : C -> C -> bool) (a b : observed C) : bool :=
  (o_status a =? o_status b) &&
  (if o_status a =? 0 then list_eqb ceqb (o_cs a) (o_cs b) && list_eqb update_eqb (o_us a) (o_us b)
   else if o_status a =? 1 then o_idx a =? o_idx b else true).

Definition check_compose_k {C} (pc : P C) (upd : update -> C -> C) (ceqb : C -> C -> bool) : P (list Z) :=
  t1 <- ptime ;; t2 <- ptime ;; cs <- plist pc ;; us <- plist pupdate ;;
  a1 <- pobs pc ;; a2 <- pobs pc ;; b <- pobs pc ;;
  let m1 := apply_updates_up_to upd t1 cs us in
  let j1 :=
    res_matches ceqb m1 a1 && res_matches ceqb (apply_updates_up_to upd t2 cs us) b &&
    match m1 with
    | AOk cs1 p1 => res_matches ceqb (apply_updates_up_to upd t2 cs1 p1) a2
    | _ => true
    end in
  let j2 :=
    if per_index_sorted us && (t1 <=? t2) && (o_status a1 =? 0) then obs_same ceqb a2 b else true in
  ret (code_if j1 1 ++ code_if j2 2)%list.

Definition check_compose : P (list Z) :=
  k <- pint ;;
  if k =? 0 then check_compose_k pnode upd_node node_eqb
  else check_compose_k pmember upd_member member_eqb.

(* ---- LSAT ---- *)
Definition check_lsat : P (list Z) :=
  t <- ptime ;; ns <- plist pnode ;; us <- plist pupdate ;;
  panicked <- pbool ;; at_ <- plist ppoint ;; st <- pint ;; ls <- plist ppoint ;;
  ns_after <- plist pnode ;; us_after <- plist pupdate ;;
  let j1 :=
    match line_string_at t ns us with
    | Some l => negb panicked && list_eqb point_eqb l at_
    | None => panicked
    end &&
    match way_apply t ns us with
    | AOk ns' _ => (st =? 0) && list_eqb point_eqb (line_string ns') ls
    | AErr _ _ _ => st =? 1
    | APanic => st =? 2
    end in
  (* the property, from Spec only: when the way is fully annotated at t (before and after the
     due updates, all of them in range) both queries give the points of the specified nodes *)
  let j2 :=
    if annotated_at t ns us
    then negb panicked && (st =? 0) && list_eqb point_eqb at_ ls
         && list_eqb point_eqb at_ (map node_point (spec_nodes t us ns))
    else true in
  (* a query: the way is what it was *)
  let j2 := j2 && list_eqb node_eqb ns ns_after && list_eqb update_eqb us us_after in
  ret (code_if j1 1 ++ code_if j2 2)%list.

(* ---- UPTO ---- *)
Definition check_upto : P (list Z) :=
  t <- ptime ;; us <- plist pupdate ;; o <- plist pupdate ;;
  let j1 := list_eqb update_eqb (up_to t us) o in
  let j2 := list_eqb update_eqb (filter (fun u => u_ts u <=? t) us) o in
  ret (code_if j1 1 ++ code_if j2 2)%list.

(* ---- SORT ---- *)
Fixpoint insert_by (less : update -> update -> bool) (x : update) (l : list update) : list update :=
  match l with
  | [] => [x]
  | y :: r => if less y x then y :: insert_by less x r else x :: l
  end.
Definition isort_by less (l : list update) : list update := fold_right (insert_by less) [] l.

Fixpoint remove_one (x : update) (l : list update) : option (list update) :=
  match l with
  | [] => None
  | y :: r => if update_eqb x y then Some r
              else match remove_one x r with Some r' => Some (y :: r') | None => None end
  end.
Fixpoint perm_eqb (a b : list update) : bool :=
  match a with
  | [] => match b with [] => true | _ => false end
  | x :: a' => match remove_one x b with Some b' => perm_eqb a' b' | None => false end
  end.
(* no later element is Less than an earlier one *)
Fixpoint sorted_forb (less : update -> update -> bool) (l : list update) : bool :=
  match l with
  | [] => true
  | x :: r => forallb (fun y => negb (less y x)) r && sorted_forb less r
  end.

Definition check_sort : P (list Z) :=
  which <- pint ;; us <- plist pupdate ;; o <- plist pupdate ;;
  let less := if which =? 0 then less_ts else less_index in
  let key := fun u => if which =? 0 then (0, u_ts u) else (u_index u, u_ts u) in
  (* the key sequence of a Less-sorted permutation is unique; full records may tie *)
  let key2 := fun u => if which =? 0 then 0 else u_ver u in   (* third component of the index order *)
  let j1 := list_eqb point_eqb (map key (isort_by less us)) (map key o)
            && list_eqb Z.eqb (map key2 (isort_by less us)) (map key2 o) in
  let j2 := perm_eqb us o && sorted_forb less o in
  ret (code_if j1 1 ++ code_if j2 2)%list.

(* ---- GROUP ---- *)
Definition pway : P way :=
  id <- pint ;; ns <- plist pnode ;; us <- plist pupdate ;; ret (mkWay id ns us).
Definition psegment : P segment :=
  i <- pint ;; o <- pint ;; r <- pbool ;; l <- plist ppoint ;; ret (mkSeg i o r l).
Definition segment_eqb (a b : segment) : bool :=
  (s_index a =? s_index b) && (s_orient a =? s_orient b) && Bool.eqb (s_reversed a) (s_reversed b)
  && list_eqb point_eqb (s_line a) (s_line b).

(* oracle: every returned segment is the geometry of its member's way with the updates applied
   up to [at_] (reversed when flagged), whenever that way meets the agreement hypotheses *)
(* Spec only: the way of the member, when fully annotated at [at_], contributes exactly the
   points of its specified nodes (reversed when flagged) *)
Definition segment_ok (ms : list member) (ws : list way) (at_ : Z) (s : segment) : bool :=
  match nth_error ms (Z.to_nat (s_index s)) with
  | Some m =>
      match find_way (m_ref m) ws with
      | Some w =>
          if annotated_at at_ (w_nodes w) (w_updates w) then
            list_eqb point_eqb (if s_reversed s then rev (s_line s) else s_line s)
                     (map node_point (spec_nodes at_ (w_updates w) (w_nodes w)))
          else true
      | None => false
      end
  | None => false
  end.

(* no way can make LineStringAt panic: every due update has a non-negative index *)
Definition ways_cannot_panic (ws : list way) (at_ : Z) : bool :=
  forallb (fun w => applicable_nonneg at_ (w_updates w)) ws.

Definition check_group : P (list Z) :=
  at_ <- ptime ;; ms <- plist pmember ;; ws <- plist pway ;;
  panicked <- pbool ;; outer <- plist psegment ;; inner <- plist psegment ;; tainted <- pbool ;;
  let j1 :=
    match group ms ws at_ with
    | GOk o i t => negb panicked && list_eqb segment_eqb o outer && list_eqb segment_eqb i inner
                   && Bool.eqb t tainted
    | GPanic => panicked
    end in
  let j2 :=
    (if ways_cannot_panic ws at_ then negb panicked else true) &&
    (panicked || forallb (segment_ok ms ws at_) (outer ++ inner)) in
  ret (code_if j1 1 ++ code_if j2 2)%list.

Definition check_case (t : toks) : list Z :=
  match t with
  | tag :: rest =>
      let p := if tag =? 2 then check_apply pnode upd_node node_eqb spec_node
               else if tag =? 4 then check_apply pmember upd_member member_eqb spec_member
               else if tag =? 6 then check_compose
               else if tag =? 8 then check_lsat
               else if tag =? 10 then check_upto
               else if tag =? 12 then check_sort
               else if tag =? 14 then check_group
               else pfail in
      match parse_all p rest with Some codes => codes | None => [0] end
  | [] => [0]
  end.
