(* C15/GenOk.v — the functions regenerated from /repo's source on every run
   (VerifGen.GenUpdates, by translator/cmd/updates with tr/loops.go) equal the hand model the
   theorems are stated over.  If update.go / way.go / relation.go change so that a regenerated
   body differs in meaning (or can no longer be translated), these obligations fail. *)
From Coq Require Import ZArith List Bool Lia.
From Verif Require Import C15.Model C15.Spec C15.Proofs.
From VerifGen Require Import GenUpdates.
Import ListNotations.
Open Scope Z_scope.

(* updatesSortTS.Less, updatesSortIndex.Less *)
Lemma gen_less_ts_ok a b : gen_less_ts a b = less_ts a b.
Proof. reflexivity. Qed.

Lemma gen_less_index_ok a b : gen_less_index a b = less_index a b.
Proof.
  unfold gen_less_index, less_index. cbv zeta.
  destruct (u_index a =? u_index b); destruct (u_ts a =? u_ts b); reflexivity.
Qed.

(* Updates.UpTo (the script does not depend on how the loop body spells the test) *)
Lemma gen_up_to_ok us t : gen_up_to us t = up_to t us.
Proof.
  unfold gen_up_to, up_to. cbv zeta.
  match goal with
  | |- fold_left ?F us ?a = _ =>
      assert (H : forall acc, fold_left F us acc
                              = (acc ++ filter (fun u => negb (t <? u_ts u)) us)%list)
  end.
  { induction us as [|u r IH]; intro acc; cbn [fold_left filter].
    - rewrite app_nil_r. reflexivity.
    - rewrite IH. cbv beta zeta. destruct (t <? u_ts u); cbn [negb]; rewrite <- ?app_assoc; reflexivity. }
  exact (H []).
Qed.

(* Way.applyUpdate, Relation.applyUpdate *)
Lemma update_nth_twice {A} (f g : A -> A) (l : list A) : forall n,
  update_nth n f (update_nth n g l) = update_nth n (fun x => f (g x)) l.
Proof. induction l as [|x r IH]; intros [|n]; cbn; try reflexivity. rewrite IH. reflexivity. Qed.

Lemma update_nth_ext {A} (f g : A -> A) (l : list A) :
  (forall x, f x = g x) -> forall n, update_nth n f l = update_nth n g l.
Proof.
  intro H. induction l as [|x r IH]; intros [|n]; cbn; try reflexivity.
  - rewrite H. reflexivity.
  - rewrite IH. reflexivity.
Qed.

Lemma set_at_in_range {C R} (l : list C) i f (p : R) k :
  (i <? 0) = false -> (Z.of_nat (length l) <=? i) = false ->
  set_at l i f p k = k (update_nth (Z.to_nat i) f l).
Proof. intros H1 H2. unfold set_at. rewrite H1, H2. reflexivity. Qed.

(* The script does not depend on the order of the (independent) stores, on whether the flip is
   written `*= -1` or `= -x`, before or after the other stores, or on tuple assignment: it
   normalises every store to update_nth, fuses them, and compares the resulting record field by
   field. *)
Ltac apply_update_tie upd :=
  unfold apply_update;
  match goal with
  | |- context [Z.of_nat (length ?l) <=? u_index ?u] =>
      let Ehi := fresh "Ehi" in let Eneg := fresh "Eneg" in let Er := fresh "Er" in
      destruct (Z.of_nat (length l) <=? u_index u) eqn:Ehi; [reflexivity|];
      destruct (u_index u <? 0) eqn:Eneg;
      [ cbv zeta; destruct (u_rev u); unfold set_at; rewrite ?Eneg; reflexivity
      | cbv zeta; destruct (u_rev u) eqn:Er;
        repeat (rewrite set_at_in_range; [|exact Eneg|rewrite ?update_nth_length; exact Ehi]);
        rewrite ?update_nth_twice; apply (f_equal AU_Ok); apply update_nth_ext;
        let x := fresh "x" in intros x; destruct x; unfold upd; rewrite ?Er; cbn;
        repeat match goal with
               | |- context [?a * -1] => replace (a * -1) with (- a) by lia
               end;
        reflexivity ]
  end.

Lemma gen_way_apply_update_ok ns u : gen_way_apply_update ns u = apply_update upd_node ns u.
Proof. unfold gen_way_apply_update. apply_update_tie upd_node. Qed.

Lemma gen_rel_apply_update_ok ms u : gen_rel_apply_update ms u = apply_update upd_member ms u.
Proof. unfold gen_rel_apply_update. apply_update_tie upd_member. Qed.

(* the loop of ApplyUpdatesUpTo in terms of the regenerated applyUpdate: one iteration *)
Lemma apply_loop_cons {C} (upd : update -> C -> C) t u r cs pend :
  apply_loop upd t (u :: r) cs pend =
  if t <? u_ts u then apply_loop upd t r cs (pend ++ [u])
  else match apply_update upd cs u with
       | AU_Err i => LErr i cs
       | AU_Panic _ => LPanic
       | AU_Ok cs' => apply_loop upd t r cs' pend
       end.
Proof.
  cbn [apply_loop]. unfold apply_update. destruct (t <? u_ts u); [reflexivity|].
  destruct (Z.of_nat (length cs) <=? u_index u); [reflexivity|].
  destruct (u_index u <? 0); reflexivity.
Qed.

Lemma way_apply_loop_gen t u r ns pend :
  apply_loop upd_node t (u :: r) ns pend =
  if t <? u_ts u then apply_loop upd_node t r ns (pend ++ [u])
  else match gen_way_apply_update ns u with
       | AU_Err i => LErr i ns
       | AU_Panic _ => LPanic
       | AU_Ok ns' => apply_loop upd_node t r ns' pend
       end.
Proof. rewrite gen_way_apply_update_ok. apply apply_loop_cons. Qed.

Lemma rel_apply_loop_gen t u r ms pend :
  apply_loop upd_member t (u :: r) ms pend =
  if t <? u_ts u then apply_loop upd_member t r ms (pend ++ [u])
  else match gen_rel_apply_update ms u with
       | AU_Err i => LErr i ms
       | AU_Panic _ => LPanic
       | AU_Ok ms' => apply_loop upd_member t r ms' pend
       end.
Proof. rewrite gen_rel_apply_update_ok. apply apply_loop_cons. Qed.

(* ================= wave 4: the loops ================= *)
From Verif Require Import Base.GenLoop.

Lemma loop_fold_ext {A S R} (f g : S -> A -> lstep S R) :
  (forall s x, f s x = g s x) -> forall l s, loop_fold f l s = loop_fold g l s.
Proof.
  intros H. induction l as [|x l IH]; intro s; [reflexivity|].
  rewrite !loop_fold_cons, H. destruct (g s x); [apply IH|reflexivity].
Qed.

(* ---- Way.ApplyUpdatesUpTo / Relation.ApplyUpdatesUpTo: the whole loop ---- *)
Section ApplyLoop.
  Context {C : Type}.
  Variable upd : update -> C -> C.
  Variable us0 : list update.
  Variable t : Z.

  Definition apply_body (st : list C * list update) (u : update) : lstep (list C * list update) (ares C) :=
    let '(cs, na) := st in
    if t <? u_ts u then LNext (cs, (na ++ [u])%list)
    else match apply_update upd cs u with
         | AU_Err e => LRet (AErr e cs us0)
         | AU_Ok cs' => LNext (cs', na)
         | AU_Panic _ => LRet APanic
         end.

  Lemma apply_body_loop : forall us cs na,
    loop_fold apply_body us (cs, na) =
    match apply_loop upd t us cs na with
    | LDone cs' p => LNext (cs', p)
    | LErr i cs' => LRet (AErr i cs' us0)
    | LPanic => LRet APanic
    end.
  Proof.
    induction us as [|u r IH]; intros cs na; [reflexivity|].
    rewrite loop_fold_cons, apply_loop_cons. unfold apply_body at 1.
    destruct (t <? u_ts u); [apply IH|].
    destruct (apply_update upd cs u) as [cs'|e|]; [apply IH|reflexivity|reflexivity].
  Qed.
End ApplyLoop.

Lemma gen_way_apply_updates_up_to_ok ns us t :
  gen_way_apply_updates_up_to ns us t = way_apply t ns us.
Proof.
  unfold gen_way_apply_updates_up_to, way_apply, apply_updates_up_to. cbv zeta.
  rewrite (loop_fold_ext _ (apply_body upd_node us t)).
  2:{ intros [cs na] u. unfold apply_body. rewrite gen_way_apply_update_ok. reflexivity. }
  rewrite apply_body_loop. destruct (apply_loop upd_node t us ns []); reflexivity.
Qed.

Lemma gen_rel_apply_updates_up_to_ok ms us t :
  gen_rel_apply_updates_up_to ms us t = rel_apply t ms us.
Proof.
  unfold gen_rel_apply_updates_up_to, rel_apply, apply_updates_up_to. cbv zeta.
  rewrite (loop_fold_ext _ (apply_body upd_member us t)).
  2:{ intros [cs na] u. unfold apply_body. rewrite gen_rel_apply_update_ok. reflexivity. }
  rewrite apply_body_loop. destruct (apply_loop upd_member t us ms []); reflexivity.
Qed.

(* ---- Way.LineString ---- *)
Lemma gen_way_line_string_ok ns : gen_way_line_string ns = line_string ns.
Proof.
  unfold gen_way_line_string, line_string. cbv zeta.
  match goal with
  | |- fold_left ?F ns ?a = _ =>
      assert (H : forall acc, fold_left F ns acc = (acc ++ map node_point (filter annotated ns))%list)
  end.
  { induction ns as [|n r IH]; intro acc; cbn [fold_left filter map].
    - rewrite app_nil_r. reflexivity.
    - rewrite IH. cbv beta zeta. unfold annotated at 2.
      destruct (n_ver n =? 0); destruct (n_lon n =? 0); destruct (n_lat n =? 0);
        cbn [negb orb andb map]; rewrite <- ?app_assoc; reflexivity. }
  exact (H []).
Qed.

(* ---- Way.LineStringAt ---- *)
Lemma points_of_nodes ns : forall acc,
  fold_left (fun st v_n => (st ++ [node_point v_n])%list) ns acc = (acc ++ map node_point ns)%list.
Proof.
  induction ns as [|n r IH]; intro acc; cbn [fold_left map]; [rewrite app_nil_r; reflexivity|].
  rewrite IH, <- app_assoc. reflexivity.
Qed.

(* second loop: the updates *)
Definition lsat_body (t : Z) (ls : list point) (u : update) : lstep (list point) (option (list point)) :=
  if (t <? u_ts u) || (Z.of_nat (length ls) <=? u_index u) then LNext ls
  else set_at ls (u_index u) (fun el => (u_lon u, snd el)) (LRet None) (fun ls1 =>
       set_at ls1 (u_index u) (fun el => (fst el, u_lat u)) (LRet None) (fun ls2 => LNext ls2)).

Lemma lsat_body_loop t : forall us ls,
  loop_fold (lsat_body t) us ls =
  match lsat_loop false t us ls with Some ls' => LNext ls' | None => LRet None end.
Proof.
  induction us as [|u r IH]; intro ls; [reflexivity|].
  rewrite loop_fold_cons. cbn [lsat_loop]. unfold lsat_body at 1.
  destruct (t <? u_ts u); [apply IH|]. cbn [orb].
  destruct (Z.of_nat (length ls) <=? u_index u) eqn:Ehi; [apply IH|].
  destruct (u_index u <? 0) eqn:Eneg.
  - unfold set_at at 1. rewrite Eneg. reflexivity.
  - rewrite set_at_in_range; [|exact Eneg|exact Ehi].
    rewrite set_at_in_range; [|exact Eneg|rewrite update_nth_length; exact Ehi].
    rewrite update_nth_twice.
    rewrite (update_nth_ext _ (fun _ => (u_lon u, u_lat u))); [apply IH|]. intros []. reflexivity.
Qed.

Lemma lsat_loop_length brk t : forall us ls ls',
  lsat_loop brk t us ls = Some ls' -> length ls' = length ls.
Proof.
  induction us as [|u r IH]; intros ls ls' H; cbn in H; [inversion H; reflexivity|].
  destruct (t <? u_ts u).
  - destruct brk; [inversion H; reflexivity|exact (IH _ _ H)].
  - destruct (Z.of_nat (length ls) <=? u_index u); [exact (IH _ _ H)|].
    destruct (u_index u <? 0); [discriminate|].
    apply IH in H. rewrite update_nth_length in H. exact H.
Qed.

(* third loop: in-place compaction.  L is the list before the loop (also the range operand),
   cur the list being overwritten, count the write position, i the read position *)
Definition compact_body (ns : list wnode) (st : Z * list point * Z) (_ : point)
  : lstep (Z * list point * Z) (option (list point)) :=
  let '(i, cur, count) := st in
  match get_at ns i with
  | Some n =>
      if (n_ver n =? 0) && (n_lon n =? 0) && (n_lat n =? 0) then LNext (i + 1, cur, count)
      else match get_at cur i with
           | Some x => set_at cur count (fun _ => x) (LRet None) (fun cur' => LNext (i + 1, cur', count + 1))
           | None => LRet None
           end
  | None => LRet None
  end.

Lemma keep_annotated_app ns1 : forall ls1 ns2 ls2,
  length ns1 = length ls1 ->
  keep_annotated (ns1 ++ ns2) (ls1 ++ ls2) = (keep_annotated ns1 ls1 ++ keep_annotated ns2 ls2)%list.
Proof.
  induction ns1 as [|n r IH]; intros [|p ls1] ns2 ls2 H; cbn in H; try discriminate; [reflexivity|].
  cbn [app keep_annotated]. rewrite IH by lia. destruct (annotated n); reflexivity.
Qed.

Lemma keep_annotated_length ns : forall ls, (length (keep_annotated ns ls) <= length ls)%nat.
Proof.
  induction ns as [|n r IH]; intros [|p ls]; cbn; try lia.
  specialize (IH ls). destruct (annotated n); cbn; lia.
Qed.

Lemma nth_error_update_nth_same {A} (l : list A) (n : nat) (x : A) :
  (n < length l)%nat -> nth_error (update_nth n (fun _ => x) l) n = Some x.
Proof.
  intro H. rewrite nth_error_update_nth, Nat.eqb_refl.
  destruct (nth_error l n) eqn:E; [reflexivity|]. apply nth_error_None in E. lia.
Qed.

Lemma firstn_S_nth {A} (l : list A) : forall k x,
  nth_error l k = Some x -> firstn (S k) l = (firstn k l ++ [x])%list.
Proof.
  induction l as [|y l IH]; intros [|k] x H; cbn in H; try discriminate.
  - inversion H. reflexivity.
  - cbn [firstn app]. f_equal. exact (IH k x H).
Qed.

Lemma compact_loop ns L : length ns = length L ->
  forall rest pre cur,
    L = (pre ++ rest)%list -> length cur = length L ->
    let kept := keep_annotated (firstn (length pre) ns) pre in
    (forall j, (j < length kept)%nat -> nth_error cur j = nth_error kept j) ->
    (forall j, (length pre <= j)%nat -> nth_error cur j = nth_error L j) ->
    exists cur',
      loop_fold (compact_body ns) rest (Z.of_nat (length pre), cur, Z.of_nat (length kept))
      = LNext (Z.of_nat (length L), cur', Z.of_nat (length (keep_annotated ns L))) /\
      length cur' = length L /\
      forall j, (j < length (keep_annotated ns L))%nat -> nth_error cur' j = nth_error (keep_annotated ns L) j.
Proof.
  intros Hlen. induction rest as [|p rest IH]; intros pre cur HL Hcl kept Hk Hrest.
  - rewrite app_nil_r in HL. subst pre. unfold kept in *.
    rewrite <- Hlen, firstn_all in *. exists cur. repeat split; auto.
  - assert (Hpre : (length pre < length ns)%nat).
    { rewrite Hlen, HL, app_length. cbn. lia. }
    destruct (nth_error ns (length pre)) as [n|] eqn:En; [|apply nth_error_None in En; lia].
    assert (Hfirst : firstn (length (pre ++ [p])) ns = (firstn (length pre) ns ++ [n])%list).
    { rewrite app_length. cbn [length]. rewrite Nat.add_1_r. apply firstn_S_nth. exact En. }
    assert (Hkept' : keep_annotated (firstn (length (pre ++ [p])) ns) (pre ++ [p])
                     = (kept ++ (if annotated n then [p] else []))%list).
    { rewrite Hfirst, keep_annotated_app.
      - cbn. destruct (annotated n); reflexivity.
      - rewrite firstn_length. lia. }
    assert (HL' : L = ((pre ++ [p]) ++ rest)%list) by (rewrite <- app_assoc; exact HL).
    assert (Hlen1 : (Z.of_nat (length pre) + 1)%Z = Z.of_nat (length (pre ++ [p])))
      by (rewrite app_length; cbn; lia).
    rewrite loop_fold_cons. unfold compact_body at 1. rewrite get_at_nat, En.
    assert (Hann : ((n_ver n =? 0) && (n_lon n =? 0) && (n_lat n =? 0)) = negb (annotated n)).
    { unfold annotated. destruct (n_ver n =? 0), (n_lon n =? 0), (n_lat n =? 0); reflexivity. }
    rewrite Hann. destruct (annotated n) eqn:Ea; cbn [negb].
    + (* annotated: copy L[i] to cur[count] *)
      rewrite get_at_nat, (Hrest _ (Nat.le_refl _)).
      assert (Hp : nth_error L (length pre) = Some p).
      { rewrite HL, nth_error_app2, Nat.sub_diag by lia. reflexivity. }
      rewrite Hp.
      assert (Hkl : (length kept <= length pre)%nat).
      { unfold kept. etransitivity; [apply keep_annotated_length|lia]. }
      rewrite set_at_in_range.
      2:{ lia. }
      2:{ apply Z.leb_gt. rewrite Hcl, HL, app_length. cbn. lia. }
      rewrite Nat2Z.id, Hlen1.
      replace (Z.of_nat (length kept) + 1)%Z with (Z.of_nat (length (kept ++ [p])))
        by (rewrite app_length; cbn; lia).
      rewrite <- Hkept'.
      apply (IH (pre ++ [p])%list); [exact HL'|rewrite update_nth_length; exact Hcl| |].
      * intros j Hj. rewrite Hkept' in *. rewrite app_length in Hj. cbn in Hj.
        rewrite nth_error_update_nth.
        destruct (Nat.eqb j (length kept)) eqn:Ej.
        -- apply Nat.eqb_eq in Ej. subst j.
           rewrite nth_error_app2, Nat.sub_diag by lia. cbn.
           destruct (nth_error cur (length kept)) eqn:Ec; [reflexivity|].
           apply nth_error_None in Ec. rewrite Hcl, HL, app_length in Ec. cbn in Ec. lia.
        -- apply Nat.eqb_neq in Ej. rewrite nth_error_app1 by lia. apply Hk. lia.
      * intros j Hj. rewrite app_length in Hj. cbn in Hj. rewrite nth_error_update_nth.
        replace (Nat.eqb j (length kept)) with false by (symmetry; apply Nat.eqb_neq; lia).
        apply Hrest. lia.
    + (* not annotated: skip *)
      rewrite Hlen1.
      replace (length kept) with (length (keep_annotated (firstn (length (pre ++ [p])) ns) (pre ++ [p])))
        by (rewrite Hkept', app_nil_r; reflexivity).
      apply (IH (pre ++ [p])%list); [exact HL'|exact Hcl| |].
      * rewrite Hkept', app_nil_r. exact Hk.
      * intros j Hj. rewrite app_length in Hj. cbn in Hj. apply Hrest. lia.
Qed.

Lemma firstn_of_prefix {A} (l k : list A) :
  (length k <= length l)%nat ->
  (forall j, (j < length k)%nat -> nth_error l j = nth_error k j) ->
  firstn (length k) l = k.
Proof.
  revert l. induction k as [|x k IH]; intros l Hl H; [reflexivity|].
  destruct l as [|y l]; cbn in Hl; [lia|].
  pose proof (H 0%nat ltac:(cbn; lia)) as H0. cbn in H0. inversion H0; subst y.
  cbn. f_equal. apply IH; [lia|]. intros j Hj. exact (H (S j) ltac:(cbn; lia)).
Qed.

(* the compaction loop, summarised *)
Lemma compact_final ns L : length L = length ns ->
  exists cur',
    loop_fold (compact_body ns) L (0, L, 0)
    = LNext (Z.of_nat (length L), cur', Z.of_nat (length (keep_annotated ns L))) /\
    firstn (length (keep_annotated ns L)) cur' = keep_annotated ns L.
Proof.
  intro HlenL.
  destruct (compact_loop ns L (eq_sym HlenL) L [] L eq_refl eq_refl) as (cur' & Hloop & Hcl & Hk).
  - intros j Hj. cbn in Hj. lia.
  - intros j _. reflexivity.
  - cbn [length firstn keep_annotated] in Hloop. change (Z.of_nat 0) with 0%Z in Hloop.
    exists cur'. split; [exact Hloop|]. apply firstn_of_prefix; [|exact Hk].
    pose proof (keep_annotated_length ns L) as Hkl. unfold point in *. lia.
Qed.

(* the same loop with the state stored as (i, count, cur) *)
Definition compact_body' (ns : list wnode) (st : Z * Z * list point) (_ : point)
  : lstep (Z * Z * list point) (option (list point)) :=
  let '(i, count, cur) := st in
  match get_at ns i with
  | Some n =>
      if (n_ver n =? 0) && (n_lon n =? 0) && (n_lat n =? 0) then LNext (i + 1, count, cur)
      else match get_at cur i with
           | Some x => set_at cur count (fun _ => x) (LRet None) (fun cur' => LNext (i + 1, count + 1, cur'))
           | None => LRet None
           end
  | None => LRet None
  end.

Lemma compact_body'_loop ns : forall l i cur count,
  loop_fold (compact_body' ns) l (i, count, cur) =
  match loop_fold (compact_body ns) l (i, cur, count) with
  | LNext (i', cur', count') => LNext (i', count', cur')
  | LRet r => LRet r
  end.
Proof.
  induction l as [|x l IH]; intros i cur count; [reflexivity|].
  rewrite !loop_fold_cons. unfold compact_body', compact_body.
  destruct (get_at ns i) as [n|]; [|reflexivity].
  destruct ((n_ver n =? 0) && (n_lon n =? 0) && (n_lat n =? 0)); [apply IH|].
  destruct (get_at cur i) as [y|]; [|reflexivity].
  unfold set_at. destruct ((count <? 0) || (Z.of_nat (length cur) <=? count)); [reflexivity|apply IH].
Qed.

Lemma loop_fold_filter {A S R} (p : A -> bool) (body : S -> A -> lstep S R) (l : list A) : forall s,
  loop_fold body (filter p l) s = loop_fold (fun s x => if p x then body s x else LNext s) l s.
Proof.
  induction l as [|a l IH]; intro s; cbn [filter]; [reflexivity|].
  rewrite (loop_fold_cons (fun s x => if p x then body s x else LNext s)).
  destruct (p a).
  - rewrite loop_fold_cons. destruct (body s a); [apply IH|reflexivity].
  - apply IH.
Qed.

(* one iteration of the update loop, whatever its spelling: separate or merged guards, After
   tested inline or through Updates.UpTo, `idx >= len` skipped or `idx < len` taken, two
   component stores or one store of the point *)
Ltac lsat_pointwise t :=
  let ls := fresh "ls" in let u := fresh "u" in
  intros ls u; unfold lsat_body; cbv beta zeta; unfold point;
  destruct (t <? u_ts u); cbn [negb orb]; try reflexivity;
  rewrite ?Z.ltb_antisym;
  let Ehi := fresh "Ehi" in let Eneg := fresh "Eneg" in
  match goal with |- context [Z.of_nat (@length ?A ls) <=? u_index u] =>
    destruct (Z.of_nat (@length A ls) <=? u_index u) eqn:Ehi end; cbn [negb orb]; try reflexivity;
  destruct (u_index u <? 0) eqn:Eneg;
  [ unfold set_at; rewrite ?Eneg; reflexivity
  | repeat (rewrite set_at_in_range; [|exact Eneg|rewrite ?update_nth_length; exact Ehi]);
    rewrite ?update_nth_twice; apply f_equal; apply update_nth_ext; intros []; reflexivity ].

Lemma gen_way_line_string_at_ok ns us t :
  gen_way_line_string_at ns us t = line_string_at t ns us.
Proof.
  unfold gen_way_line_string_at, line_string_at, line_string_at_gen. cbv zeta.
  rewrite (points_of_nodes ns []). cbn [app].
  rewrite ?gen_up_to_ok. unfold up_to. rewrite ?loop_fold_filter.
  rewrite (loop_fold_ext _ (lsat_body t)) by (lsat_pointwise t).
  rewrite lsat_body_loop.
  destruct (lsat_loop false t us (map node_point ns)) as [L|] eqn:EL; cbv beta iota zeta; [|reflexivity].
  pose proof (lsat_loop_length _ _ _ _ _ EL) as HlenL. rewrite map_length in HlenL.
  destruct (compact_final ns L HlenL) as (cur' & Hloop & Hfirst).
  first
    [ rewrite (loop_fold_ext _ (compact_body ns)) by (intros [[i cur] count] x; reflexivity)
    | rewrite (loop_fold_ext _ (compact_body' ns)) by (intros [[i count] cur] x; reflexivity);
      rewrite compact_body'_loop ].
  match goal with
       | |- context [loop_fold (compact_body ns) L ?s0] =>
           replace (loop_fold (compact_body ns) L s0)
             with (@LNext (Z * list point * Z) (option (list point))
                          (Z.of_nat (length L), cur', Z.of_nat (length (keep_annotated ns L))))
             by (symmetry; exact Hloop)
       end; cbv beta iota zeta; f_equal; rewrite Nat2Z.id; exact Hfirst.
Qed.

(* ---- the sorts are sort.Sort on the two Less types ---- *)
From Coq Require Import String.
(* SortByIndex and SortByTimestamp are one call of the package sort (sort.Sort on an adapter type or
   sort.Slice with a method value) on the receiver; the translator names the order of the first
   gen_less_index and of the second gen_less_ts (proved equal to less_index, less_ts above) *)
Definition sort_calls_expected : string * string := ("sort", "sort")%string.

Lemma gen_sort_calls :
  (sortform_Updates_SortByIndex, sortform_Updates_SortByTimestamp) = sort_calls_expected.
Proof. reflexivity. Qed.
