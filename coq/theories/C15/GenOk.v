(* C15/GenOk.v — the functions regenerated from /repo's source on every run
   (VerifGen.GenUpdates, by translator/cmd/updates with tr/loops.go) equal the hand model the
   theorems are stated over.  If update.go / way.go / relation.go change so that a regenerated
   body differs in meaning (or can no longer be translated), these obligations fail. *)
From Coq Require Import ZArith List Bool Lia.
From Verif Require Import C15.Model C15.Spec C15.Proofs.
From VerifGen Require Import GenUpdates.
Import ListNotations.
Open Scope Z_scope.

(* updatesSortTS.Less, updatesSortIndex.Less *)
Lemma gen_less_ts_ok a b : gen_less_ts a b = less_ts a b.
Proof. reflexivity. Qed.

Lemma gen_less_index_ok a b : gen_less_index a b = less_index a b.
Proof. reflexivity. Qed.

(* Updates.UpTo (the script does not depend on how the loop body spells the test) *)
Lemma gen_up_to_ok us t : gen_up_to us t = up_to t us.
Proof.
  unfold gen_up_to, up_to. cbv zeta.
  match goal with
  | |- fold_left ?F us ?a = _ =>
      assert (H : forall acc, fold_left F us acc
                              = (acc ++ filter (fun u => negb (t <? u_ts u)) us)%list)
  end.
  { induction us as [|u r IH]; intro acc; cbn [fold_left filter].
    - rewrite app_nil_r. reflexivity.
    - rewrite IH. cbv beta zeta. destruct (t <? u_ts u); cbn [negb]; rewrite <- ?app_assoc; reflexivity. }
  exact (H []).
Qed.

(* Way.applyUpdate, Relation.applyUpdate *)
Lemma update_nth_twice {A} (f g : A -> A) (l : list A) : forall n,
  update_nth n f (update_nth n g l) = update_nth n (fun x => f (g x)) l.
Proof. induction l as [|x r IH]; intros [|n]; cbn; try reflexivity. rewrite IH. reflexivity. Qed.

Lemma update_nth_ext {A} (f g : A -> A) (l : list A) :
  (forall x, f x = g x) -> forall n, update_nth n f l = update_nth n g l.
Proof.
  intro H. induction l as [|x r IH]; intros [|n]; cbn; try reflexivity.
  - rewrite H. reflexivity.
  - rewrite IH. reflexivity.
Qed.

Lemma set_at_in_range {C R} (l : list C) i f (p : R) k :
  (i <? 0) = false -> (Z.of_nat (length l) <=? i) = false ->
  set_at l i f p k = k (update_nth (Z.to_nat i) f l).
Proof. intros H1 H2. unfold set_at. rewrite H1, H2. reflexivity. Qed.

Lemma gen_way_apply_update_ok ns u : gen_way_apply_update ns u = apply_update upd_node ns u.
Proof.
  unfold gen_way_apply_update, apply_update.
  destruct (Z.of_nat (length ns) <=? u_index u) eqn:Ehi; [reflexivity|].
  destruct (u_index u <? 0) eqn:Eneg.
  - unfold set_at at 1. rewrite Eneg. reflexivity.
  - repeat (rewrite set_at_in_range; [|exact Eneg|rewrite ?update_nth_length; exact Ehi]).
    rewrite !update_nth_twice. reflexivity.
Qed.

Lemma gen_rel_apply_update_ok ms u : gen_rel_apply_update ms u = apply_update upd_member ms u.
Proof.
  unfold gen_rel_apply_update, apply_update.
  destruct (Z.of_nat (length ms) <=? u_index u) eqn:Ehi; [reflexivity|].
  destruct (u_index u <? 0) eqn:Eneg.
  - unfold set_at at 1. rewrite Eneg. reflexivity.
  - repeat (rewrite set_at_in_range; [|exact Eneg|rewrite ?update_nth_length; exact Ehi]).
    cbv zeta. unfold upd_member. destruct (u_rev u).
    + try (rewrite set_at_in_range; [|exact Eneg|rewrite ?update_nth_length; exact Ehi]).
      rewrite !update_nth_twice. apply (f_equal AU_Ok). apply update_nth_ext. intros x. cbn.
      f_equal. f_equal. lia.
    + rewrite !update_nth_twice. reflexivity.
Qed.

(* the loop of ApplyUpdatesUpTo in terms of the regenerated applyUpdate: one iteration *)
Lemma apply_loop_cons {C} (upd : update -> C -> C) t u r cs pend :
  apply_loop upd t (u :: r) cs pend =
  if t <? u_ts u then apply_loop upd t r cs (pend ++ [u])
  else match apply_update upd cs u with
       | AU_Err i => LErr i cs
       | AU_Panic _ => LPanic
       | AU_Ok cs' => apply_loop upd t r cs' pend
       end.
Proof.
  cbn [apply_loop]. unfold apply_update. destruct (t <? u_ts u); [reflexivity|].
  destruct (Z.of_nat (length cs) <=? u_index u); [reflexivity|].
  destruct (u_index u <? 0); reflexivity.
Qed.

Lemma way_apply_loop_gen t u r ns pend :
  apply_loop upd_node t (u :: r) ns pend =
  if t <? u_ts u then apply_loop upd_node t r ns (pend ++ [u])
  else match gen_way_apply_update ns u with
       | AU_Err i => LErr i ns
       | AU_Panic _ => LPanic
       | AU_Ok ns' => apply_loop upd_node t r ns' pend
       end.
Proof. rewrite gen_way_apply_update_ok. apply apply_loop_cons. Qed.

Lemma rel_apply_loop_gen t u r ms pend :
  apply_loop upd_member t (u :: r) ms pend =
  if t <? u_ts u then apply_loop upd_member t r ms (pend ++ [u])
  else match gen_rel_apply_update ms u with
       | AU_Err i => LErr i ms
       | AU_Panic _ => LPanic
       | AU_Ok ms' => apply_loop upd_member t r ms' pend
       end.
Proof. rewrite gen_rel_apply_update_ok. apply apply_loop_cons. Qed.
