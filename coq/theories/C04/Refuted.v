(* C04/Refuted.v — the defect found by this property (fixed in /repo by commit e8ed5c6), kept as
   a machine-checked regression witness: on the schema as it was before the fix — the Bounds
   type without a MarshalXML method — the container round trip is FALSE. *)
From Coq Require Import List String Bool ZArith.
From Verif Require Import Codec.Schema Codec.Value Codec.Xml Codec.Wf Codec.Scan.
From VerifGen Require Import GenSchema.
Import ListNotations.
Open Scope string_scope.
Open Scope Z_scope.

Definition drop_method (s : schema) (T m : string) : schema :=
  map (fun d => if String.eqb (t_name d) T
                then {| t_name := t_name d; t_anon := t_anon d; t_under := t_under d;
                        t_methods := filter (fun x => negb (String.eqb x m)) (t_methods d) |}
                else d) s.

(* the code before the fix: OSM.marshalInnerXML did e.Encode(o.Bounds) on a type without XMLName *)
Definition prefix_schema : schema := drop_method gen_schema "Bounds" "MarshalXML".

(* values are built by Go field name, so reordering struct fields in /repo does not matter *)
Definition mk (s : schema) (T : string) (l : list (string * value)) : value :=
  match lookup_type s T, zero s FUEL (TNamed T) with
  | Some d, VStruct vs =>
      VStruct (fold_left (fun acc nv => match fset_go (struct_fields d) acc (fst nv) (snd nv) with
                                        | Some a => a | None => acc end) l vs)
  | _, z => z
  end.

Definition unwrap (r : result xml) : xml := match r with Ok e => e | Err _ => Elem "" [] [] (AStr []) end.

Definition w_bounds : value :=
  Eval vm_compute in mk gen_schema "Bounds" [("MinLat", VFloat 128); ("MaxLat", VFloat 256); ("MinLon", VFloat 384); ("MaxLon", VFloat 512)].
(* &osm.OSM{Bounds: &osm.Bounds{1, 2, 3, 4}} *)
Definition w_osm : value := Eval vm_compute in mk gen_schema "OSM" [("Bounds", VPtr (Some w_bounds))].
(* &osm.Change{Create: &osm.OSM{Bounds: ...}} *)
Definition w_change : value := Eval vm_compute in mk gen_schema "Change" [("Create", VPtr (Some w_osm))].

Definition w_osm_xml : xml := Eval vm_compute in unwrap (encode1 prefix_schema "OSM" w_osm).
Definition w_change_xml : xml := Eval vm_compute in unwrap (encode1 prefix_schema "Change" w_change).

Lemma roundtrip_osm_refuted_prefix :
  exists v e, wfb prefix_schema "OSM" v = true /\ encode1 prefix_schema "OSM" v = Ok e /\
              decode prefix_schema "OSM" e <> Ok v /\
              (* the text names the element after the Go type *)
              map xname (xkids e) = ["Bounds"].
Proof.
  exists w_osm, w_osm_xml. split; [vm_compute; reflexivity|].
  split; [vm_compute; reflexivity|]. split; [vm_compute; discriminate | reflexivity].
Qed.

Lemma roundtrip_change_refuted_prefix :
  exists v e, wfb prefix_schema "Change" v = true /\ encode1 prefix_schema "Change" v = Ok e /\
              decode prefix_schema "Change" e <> Ok v.
Proof.
  exists w_change, w_change_xml. split; [vm_compute; reflexivity|].
  split; [vm_compute; reflexivity|]. vm_compute; discriminate.
Qed.

(* and the two readers disagreed on the library's own output: the scanner (case-folding the
   name) still saw the bounds the whole-document decoder dropped *)
Lemma scanner_decoder_disagreed_prefix :
  encode1 prefix_schema "OSM" w_osm = Ok w_osm_xml /\
  fst (scan_el prefix_schema w_osm_xml) = [("Bounds", w_bounds)] /\
  decode prefix_schema "OSM" w_osm_xml = Ok (zero prefix_schema FUEL (TNamed "OSM")).
Proof. split; [|split]; vm_compute; reflexivity. Qed.

(* ---------- known findings of C04 (known_findings.d/C04.json): values of the property's domain
   the XML formats cannot carry; excluded from wfb, refuted here on the CURRENT schema ---------- *)
Definition w_date_subsecond : value := Eval vm_compute in
  mk gen_schema "Note" [("ID", VInt 2); ("DateCreated", VStruct [VTime 1600000000500000000])].
Definition w_empty_discussion : value := Eval vm_compute in
  mk gen_schema "Changeset" [("ID", VInt 2); ("Discussion", VPtr (Some (VStruct [VList []])))].

Definition comes_back (T : string) (v : value) : result value :=
  match encode1 gen_schema T v with Ok e => decode gen_schema T e | Err e => Err e end.

(* class note-date-subsecond: a note date with a sub-second part comes back truncated *)
Lemma note_date_subsecond_refuted :
  wfb gen_schema "Note" w_date_subsecond = false /\
  exists v', comes_back "Note" w_date_subsecond = Ok v' /\ v' <> w_date_subsecond
             /\ v' = mk gen_schema "Note" [("ID", VInt 2); ("DateCreated", VStruct [VTime 1600000000000000000])].
Proof.
  split; [vm_compute; reflexivity|]. eexists. split; [vm_compute; reflexivity|].
  split; [vm_compute; discriminate | vm_compute; reflexivity].
Qed.

(* class changeset-empty-discussion: a non-nil empty discussion comes back nil *)
Lemma empty_discussion_refuted :
  wfb gen_schema "Changeset" w_empty_discussion = false /\
  exists v', comes_back "Changeset" w_empty_discussion = Ok v' /\ v' <> w_empty_discussion
             /\ v' = mk gen_schema "Changeset" [("ID", VInt 2)].
Proof.
  split; [vm_compute; reflexivity|]. eexists. split; [vm_compute; reflexivity|].
  split; [vm_compute; discriminate | vm_compute; reflexivity].
Qed.

(* non-trivial well-formed containers (non-vacuity of the container theorems) *)
Definition w_node (i : Z) : value := mk gen_schema "Node" [("ID", VInt i); ("Visible", VBool true); ("Version", VInt 2)].
Definition w_block : value := Eval vm_compute in
  mk gen_schema "OSM" [("Bounds", VPtr (Some w_bounds)); ("Nodes", VList [VPtr (Some (w_node 1)); VPtr (Some (w_node 2))])].
Definition w_created : value := Eval vm_compute in mk gen_schema "OSM" [("Nodes", VList [VPtr (Some (w_node 7))])].
Definition w_diff : value := Eval vm_compute in
  mk gen_schema "Diff"
     [("Actions", VList [mk gen_schema "Action" [("Type", VStr [99]); ("OSM", VPtr (Some w_created))];
                         mk gen_schema "Action" [("Type", VStr [109]); ("Old", VPtr (Some w_block)); ("New", VPtr (Some w_block))]])].
Definition w_osm_full : value := Eval vm_compute in
  mk gen_schema "OSM" [("Version", VStr [48]); ("Bounds", VPtr (Some w_bounds));
                       ("Nodes", VList [VPtr (Some (w_node 1))]);
                       ("Notes", VList [VPtr (Some (mk gen_schema "Note" [("ID", VInt 3)]))])].

Lemma containers_nonvacuous :
  wfb gen_schema "Diff" w_diff = true /\ comes_back "Diff" w_diff = Ok w_diff /\
  wfb gen_schema "OSM" w_osm_full = true /\ comes_back "OSM" w_osm_full = Ok w_osm_full.
Proof. repeat split; vm_compute; reflexivity. Qed.
