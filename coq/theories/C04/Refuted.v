(* C04/Refuted.v — the defect found by this property (fixed in /repo by commit e8ed5c6), kept as
   a machine-checked regression witness: on the schema as it was before the fix — the Bounds
   type without a MarshalXML method — the container round trip is FALSE. *)
From Coq Require Import List String Bool ZArith.
From Verif Require Import Codec.Schema Codec.Value Codec.Xml Codec.Wf Codec.Scan.
From VerifGen Require Import GenSchema.
Import ListNotations.
Open Scope string_scope.
Open Scope Z_scope.

Definition drop_method (s : schema) (T m : string) : schema :=
  map (fun d => if String.eqb (t_name d) T
                then {| t_name := t_name d; t_anon := t_anon d; t_under := t_under d;
                        t_methods := filter (fun x => negb (String.eqb x m)) (t_methods d) |}
                else d) s.

(* the code before the fix: OSM.marshalInnerXML did e.Encode(o.Bounds) on a type without XMLName *)
Definition prefix_schema : schema := drop_method gen_schema "Bounds" "MarshalXML".

Definition w_bounds : value := VStruct [VFloat 128; VFloat 256; VFloat 384; VFloat 512].
(* &osm.OSM{Bounds: &osm.Bounds{1, 2, 3, 4}} *)
Definition w_osm : value :=
  VStruct [VStr []; VStr []; VStr []; VStr []; VStr []; VPtr (Some w_bounds);
           VList []; VList []; VList []; VList []; VList []; VList []].
(* &osm.Change{Create: &osm.OSM{Bounds: ...}} *)
Definition w_change : value :=
  VStruct [VStr []; VStr []; VStr []; VStr []; VStr []; VPtr (Some w_osm); VPtr None; VPtr None].

Definition w_osm_xml : xml :=
  Elem "osm" [] [Elem "Bounds" [("minlat", AFloat 128); ("maxlat", AFloat 256); ("minlon", AFloat 384);
                                ("maxlon", AFloat 512)] [] (AStr [])] (AStr []).
Definition w_change_xml : xml :=
  Elem "osmChange" [] [Elem "create" [] [Elem "Bounds" [("minlat", AFloat 128); ("maxlat", AFloat 256);
                       ("minlon", AFloat 384); ("maxlon", AFloat 512)] [] (AStr [])] (AStr [])] (AStr []).

Lemma roundtrip_osm_refuted_prefix :
  exists v e, wfb prefix_schema "OSM" v = true /\ encode1 prefix_schema "OSM" v = Ok e /\
              decode prefix_schema "OSM" e <> Ok v /\
              (* the text names the element after the Go type *)
              map xname (xkids e) = ["Bounds"].
Proof.
  exists w_osm, w_osm_xml. split; [vm_compute; reflexivity|].
  split; [vm_compute; reflexivity|]. split; [vm_compute; discriminate | reflexivity].
Qed.

Lemma roundtrip_change_refuted_prefix :
  exists v e, wfb prefix_schema "Change" v = true /\ encode1 prefix_schema "Change" v = Ok e /\
              decode prefix_schema "Change" e <> Ok v.
Proof.
  exists w_change, w_change_xml. split; [vm_compute; reflexivity|].
  split; [vm_compute; reflexivity|]. vm_compute; discriminate.
Qed.

(* and the two readers disagreed on the library's own output: the scanner (case-folding the
   name) still saw the bounds the whole-document decoder dropped *)
Lemma scanner_decoder_disagreed_prefix :
  encode1 prefix_schema "OSM" w_osm = Ok w_osm_xml /\
  fst (scan_el prefix_schema w_osm_xml) = [("Bounds", w_bounds)] /\
  decode prefix_schema "OSM" w_osm_xml = Ok (zero prefix_schema FUEL (TNamed "OSM")).
Proof. split; [|split]; vm_compute; reflexivity. Qed.
