(* C04/Roundtrip.v — the XML round trip for the types of package osm, instances of the generic
   theorem (Codec.ProofsTop) on the schema regenerated from /repo.  The static side conditions
   (tyok, top_name_ok) are evaluated by vm_compute on every run. *)
From Coq Require Import List String Bool ZArith.
From Verif Require Import Codec.Schema Codec.Value Codec.Xml Codec.Wf Codec.ProofsRT Codec.ProofsTop.
From VerifGen Require Import GenSchema.
Import ListNotations.
Open Scope string_scope.

(* top-level objects: xml.Marshal(v) then xml.Unmarshal *)
Definition top_objects : list (string * string) :=
  [("Node", "node"); ("Way", "way"); ("Relation", "relation"); ("Changeset", "changeset");
   ("Note", "note"); ("User", "user"); ("Bounds", "bounds")].

Definition top_static_ok (p : string * string) : bool :=
  negb (String.eqb (snd p) "")
  && tyok gen_schema FUEL (TNamed (fst p)) (snd p) false false
  && top_name_ok gen_schema (TNamed (fst p)) (snd p)
  && is_struct (rk gen_schema (TNamed (fst p))).

Lemma top_static : forallb top_static_ok top_objects = true.
Proof. vm_compute. reflexivity. Qed.

Theorem roundtrip_object : forall T nm v,
  In (T, nm) top_objects ->
  wfb gen_schema T v = true ->
  exists e, encode1 gen_schema T v = Ok e /\ decode gen_schema T e = Ok v /\ xname e = nm.
Proof.
  intros T nm v Hin Hwf. pose proof top_static as H. rewrite forallb_forall in H. specialize (H _ Hin).
  unfold top_static_ok in H. cbn [fst snd] in H.
  apply andb_true_iff in H. destruct H as [H H4]. apply andb_true_iff in H. destruct H as [H H3].
  apply andb_true_iff in H. destruct H as [H1 H2]. apply negb_true_iff in H1. apply String.eqb_neq in H1.
  exact (roundtrip_top gen_schema T nm v H1 H2 H3 H4 Hwf).
Qed.

(* values written as a field of a parent element (name and omitempty from the parent's tag) *)
Definition field_types : list (gotype * string * bool) :=
  [(TNamed "WayNode", "nd", false); (TNamed "WayNodes", "nd", false);
   (TNamed "Member", "member", false); (TNamed "Members", "member", false);
   (TNamed "Update", "update", false); (TNamed "Updates", "update", true);
   (TNamed "Tag", "tag", false); (TNamed "Tags", "tag", false);
   (TNamed "ChangesetComment", "comment", false);
   (TPtr (TNamed "ChangesetDiscussion"), "discussion", true);
   (TNamed "NoteComment", "comment", false); (TNamed "Date", "date_created", false);
   (TPtr (TNamed "Bounds"), "bounds", true);
   (TNamed "Nodes", "node", false); (TNamed "Ways", "way", false); (TNamed "Relations", "relation", false);
   (TNamed "Changesets", "changeset", false); (TNamed "Notes", "note", false); (TNamed "Users", "user", false)].

Definition field_static_ok (p : gotype * string * bool) : bool :=
  negb (String.eqb (snd (fst p)) "") && tyok gen_schema FUEL (fst (fst p)) (snd (fst p)) (snd p) false.

Lemma field_static : forallb field_static_ok field_types = true.
Proof. vm_compute. reflexivity. Qed.

Theorem roundtrip_as_field : forall ty nm omit v,
  In (ty, nm, omit) field_types ->
  wf gen_schema FUEL ty v = true ->
  exists es, marshal gen_schema FUEL ty v (Some (nm, omit)) None = Ok es
             /\ Forall (fun e => xname e = nm) es
             /\ absorb gen_schema FUEL ty (zero gen_schema FUEL ty) es = Ok v.
Proof.
  intros ty nm omit v Hin Hwf. pose proof field_static as H. rewrite forallb_forall in H. specialize (H _ Hin).
  unfold field_static_ok in H. cbn [fst snd] in H. apply andb_true_iff in H. destruct H as [H1 H2].
  apply negb_true_iff in H1. apply String.eqb_neq in H1.
  exact (roundtrip_field gen_schema ty nm omit v H1 H2 Hwf).
Qed.

(* ---------- containers with hand-written MarshalXML ---------- *)
From Verif Require Import Codec.ProofsBlock Codec.ProofsContainers.

Definition d_of (T : string) : typedef :=
  match lookup_type gen_schema T with
  | Some d => d
  | None => {| t_name := ""; t_anon := false; t_under := UType TInt; t_methods := [] |}
  end.

Lemma containers_static :
  lookup_type gen_schema "OSM" = Some (d_of "OSM") /\ lookup_type gen_schema "Change" = Some (d_of "Change")
  /\ osm_top_static gen_schema (d_of "OSM") = true
  /\ osm_static gen_schema 15 (d_of "OSM") = true /\ osm_static gen_schema 13 (d_of "OSM") = true
  /\ change_static gen_schema (d_of "Change") = true.
Proof. repeat split; vm_compute; reflexivity. Qed.

Theorem roundtrip_OSM : forall v,
  wfb gen_schema "OSM" v = true ->
  exists e, encode1 gen_schema "OSM" v = Ok e /\ decode gen_schema "OSM" e = Ok v /\ xname e = "osm".
Proof.
  intros v Hwf. destruct containers_static as (H1 & H2 & H3 & H4 & H5 & H6).
  exact (roundtrip_osm gen_schema (d_of "OSM") v H1 H3 H4 Hwf).
Qed.

Theorem roundtrip_Change : forall v,
  wfb gen_schema "Change" v = true ->
  exists e, encode1 gen_schema "Change" v = Ok e /\ decode gen_schema "Change" e = Ok v /\ xname e = "osmChange".
Proof.
  intros v Hwf. destruct containers_static as (H1 & H2 & H3 & H4 & H5 & H6).
  exact (roundtrip_change gen_schema (d_of "Change") (d_of "OSM") v H2 H6 H1 H3 H5 Hwf).
Qed.

(* ---------- the marshalled text of an object is read by the streaming scanner ---------- *)
From Verif Require Import Codec.Scan.

Theorem scanner_reads_object : forall T nm v,
  In (T, nm) top_objects ->
  wfb gen_schema T v = true ->
  exists e, encode1 gen_schema T v = Ok e /\ scan_el gen_schema e = ([(T, v)], None).
Proof.
  intros T nm v Hin Hwf. destruct (roundtrip_object T nm v Hin Hwf) as [e [He [Hd Hn]]].
  exists e. split; [exact He|]. destruct e as [n a k t]. cbn [xname] in Hn. subst n.
  cbn [top_objects In] in Hin.
  repeat (destruct Hin as [Hin|Hin]; [inversion Hin; subst; clear Hin|]); try contradiction;
    cbn [scan_el];
    match goal with |- context[assoc_str scan_kinds (lower_ascii ?s)] =>
      let r := eval vm_compute in (assoc_str scan_kinds (lower_ascii s)) in
      change (assoc_str scan_kinds (lower_ascii s)) with r end;
    cbv iota beta; rewrite Hd; reflexivity.
Qed.

(* ---------- Diff (augmented diff: create / modify / delete actions) ---------- *)
From Verif Require Import Codec.ProofsDiff.

Lemma diff_statics :
  lookup_type gen_schema "Diff" = Some (d_of "Diff") /\ lookup_type gen_schema "Action" = Some (d_of "Action")
  /\ diff_static gen_schema 11 (d_of "Diff") = true /\ action_static gen_schema (d_of "Action") = true
  /\ osm_static gen_schema 11 (d_of "OSM") = true /\ elems_static gen_schema 11 (d_of "OSM") = true.
Proof. repeat split; vm_compute; reflexivity. Qed.

Theorem roundtrip_Diff : forall v,
  wfb gen_schema "Diff" v = true ->
  exists e, encode1 gen_schema "Diff" v = Ok e /\ decode gen_schema "Diff" e = Ok v /\ xname e = "osm".
Proof.
  intros v Hwf. destruct containers_static as (H1 & H2 & H3 & H4 & H5 & H6).
  destruct diff_statics as (D1 & D2 & D3 & D4 & D5 & D6).
  exact (roundtrip_diff gen_schema (d_of "Diff") (d_of "Action") (d_of "OSM") v D1 D3 D2 D4 H1 H3 D5 D6 Hwf).
Qed.

(* ---------- the scanner on the containers' marshalled text ---------- *)
From Verif Require Import Codec.ProofsScan.

Lemma scan_statics :
  scan_static gen_schema 15 (d_of "OSM") = true /\ scan_static gen_schema 13 (d_of "OSM") = true.
Proof. split; vm_compute; reflexivity. Qed.

Theorem scanner_reads_OSM : forall v,
  wfb gen_schema "OSM" v = true ->
  exists e, encode1 gen_schema "OSM" v = Ok e
            /\ scan_el gen_schema e = (osm_objects (d_of "OSM") v, None).
Proof.
  intros v Hwf. destruct containers_static as (H1 & H2 & H3 & H4 & H5 & H6). destruct scan_statics as [S1 S2].
  exact (scanner_osm gen_schema (d_of "OSM") v H1 H3 H4 S1 Hwf).
Qed.

Theorem scanner_reads_Change : forall v,
  wfb gen_schema "Change" v = true ->
  exists e, encode1 gen_schema "Change" v = Ok e
            /\ scan_el gen_schema e = (change_objects (d_of "Change") (d_of "OSM") v, None).
Proof.
  intros v Hwf. destruct containers_static as (H1 & H2 & H3 & H4 & H5 & H6). destruct scan_statics as [S1 S2].
  exact (scanner_change gen_schema (d_of "Change") (d_of "OSM") v H2 H6 H1 H3 H5 S2 Hwf).
Qed.

Lemma diff_scan_statics :
  scan_static gen_schema 11 (d_of "OSM") = true /\ diff_scan_static gen_schema 11 (d_of "Diff") = true.
Proof. split; vm_compute; reflexivity. Qed.

Theorem scanner_reads_Diff : forall v,
  wfb gen_schema "Diff" v = true ->
  exists e, encode1 gen_schema "Diff" v = Ok e
            /\ scan_el gen_schema e = (diff_objects (d_of "Diff") (d_of "Action") (d_of "OSM") v, None).
Proof.
  intros v Hwf. destruct containers_static as (H1 & H2 & H3 & H4 & H5 & H6).
  destruct diff_statics as (D1 & D2 & D3 & D4 & D5 & D6). destruct diff_scan_statics as [S1 S2].
  exact (scanner_diff gen_schema (d_of "Diff") (d_of "Action") (d_of "OSM") v H1 H3 D5 D6 S1 D2 D4 D1 D3 S2 Hwf).
Qed.
