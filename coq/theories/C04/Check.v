(* C04/Check.v — correspondence + property oracle for one harness case (executable only).

   Case layout:
     T (Go type name)  known-class?  value(T)  oracle-table
     marshal_ok  [ text-tree  unmarshal_ok [value(T)]  scan_ok  n (kind value(kind))* ]
   codes: 1 = model <> implementation (encoder text tree, decoder result, scanner result)
          2 = the property fails on the observation: the value does not come back equal, the
              scanner does not yield the value's objects, or the text uses a name outside the
              OSM XML vocabulary
          3 = the generated value is outside the well-formedness domain of the theorems although the
              harness assigned no known-finding class to it (or inside although it did)
          0 = the case does not parse. *)
From Coq Require Import ZArith List String Bool.
From Verif Require Import Base.Wire Codec.Schema Codec.Value Codec.Xml Codec.Scan Codec.SpecNames
     Codec.Transport Codec.Big Codec.Wf C04.Spec.
From VerifGen Require Import GenSchema.
Import ListNotations.
Open Scope Z_scope.
Open Scope wire_scope.

Definition PFUEL : nat := 24.

Definition pobj : P (string * value) :=
  k <- pstring ;;
  (if existsb (fun x => String.eqb (snd x) k) object_kinds
   then (v <- pvalue gen_schema PFUEL (TNamed k) ;; ret (k, v))
   else pfail).

Definition objs_eqb (a b : list (string * value)) : bool :=
  list_eqb (fun x y => String.eqb (fst x) (fst y) && value_eqb (snd x) (snd y)) a b.

Definition opt_ttree_eqb (a : option ttree) (b : ttree) : bool :=
  match a with Some t => ttree_eqb t b | None => false end.

Definition check_doc (T : string) : P (list Z) :=
  _u <- (if existsb (String.eqb T) top_types then ret tt else pfail) ;;
  known <- pbool ;;
  v <- pvalue gen_schema PFUEL (TNamed T) ;;
  o <- poracle ;;
  mok <- pbool ;;
  (* the harness assigns a known-finding class from the value alone exactly when the value is
     outside the domain of the theorems *)
  let j3 := Bool.eqb (wfb gen_schema T v) (negb known) in
  let me := encode1 gen_schema T v in
  if negb mok then
    ret (code_if (match me with Err _ => true | Ok _ => false end) 1 ++ [2] ++ code_if j3 3)%list
  else
    tree <- ptree 64 ;;
    uok <- pbool ;;
    v2 <- (if uok then (x <- pvalue gen_schema PFUEL (TNamed T) ;; ret (Some x)) else ret None) ;;
    sok <- pbool ;;
    sc <- plist pobj ;;
    let j1 :=
      match me with
      | Ok e =>
          opt_ttree_eqb (render o e) tree
          && result_value_eqb (decode gen_schema T e) v2
          && (let '(objs, er) := scan_el gen_schema e in
              objs_eqb objs sc && Bool.eqb (match er with None => true | Some _ => false end) sok)
      | Err _ => false
      end in
    let j2 :=
      match v2 with Some x => value_eqb x v | None => false end
      && sok && same_objects sc (collect gen_schema PFUEL (TNamed T) v)
      && match spec_of T with Some s => conforms 16 s tree | None => false end in
    ret (code_if j1 1 ++ code_if j2 2 ++ code_if j3 3)%list.

Definition check : P (list Z) :=
  T <- pstring ;;
  if String.eqb T "BIG" then check_big else check_doc T.

Definition check_case (t : toks) : list Z :=
  match parse_all check t with
  | Some l => l
  | None => [0]
  end.
