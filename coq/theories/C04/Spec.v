(* C04/Spec.v — what the round-trip property says about an observation, independent of the
   codec model: the objects a value contains (which a streaming reader of its XML text is to
   yield), and conformance of a text-level tree to the OSM XML vocabulary.
   Executable definitions only. *)
From Coq Require Import List String Bool ZArith.
From Verif Require Import Base.Wire Codec.Schema Codec.Value Codec.SpecNames Codec.Transport.
Import ListNotations.
Open Scope string_scope.
Open Scope list_scope.

Definition is_object_type (ty : gotype) : option string :=
  match ty with
  | TNamed nm => if existsb (fun k => String.eqb (snd k) nm) object_kinds then Some nm else None
  | _ => None
  end.

Section Collect.
Variable sch : schema.

(* the values of the seven object types inside v that are not inside another object,
   in field order; fields that XML does not carry (xml:"-") are not looked at *)
Fixpoint collect (n : nat) (ty : gotype) (v : value) : list (string * value) :=
  match n with
  | O => []
  | S n' =>
      match is_object_type ty with
      | Some T => [(T, v)]
      | None =>
          match rk sch ty, v with
          | RPtr t, VPtr (Some v') => collect n' t v'
          | RSlice t, VList l => flat_map (collect n' t) l
          | RStruct d, VStruct vs =>
              (fix go (fs : list field) (vs : list value) : list (string * value) :=
                 match fs, vs with
                 | f :: fs', v :: vs' =>
                     (if x_skip (f_xml f) then [] else collect n' (f_type f) v) ++ go fs' vs'
                 | _, _ => []
                 end) (struct_fields d) vs
          | _, _ => []
          end
      end
  end.

End Collect.

Definition of_kind (k : string) (l : list (string * value)) : list value :=
  map snd (filter (fun o => String.eqb (fst o) k) l).

Definition values_eqb := list_eqb value_eqb.

(* both sequences hold the same objects of every kind, in the same order within a kind *)
Definition same_objects (a b : list (string * value)) : bool :=
  forallb (fun k => values_eqb (of_kind (snd k) a) (of_kind (snd k) b)) object_kinds
  && Nat.eqb (List.length a) (List.length b).

(* every element and attribute name of the text is the vocabulary's, in its place *)
Fixpoint conforms (n : nat) (s : spec) (t : ttree) : bool :=
  match n with
  | O => false
  | S n' =>
      match t with
      | TNode nm attrs _ kids =>
          bytes_eqb nm (bytes_of_string (sname s))
          && forallb (fun a => existsb (fun x => bytes_eqb (fst a) (bytes_of_string x)) (sattrs s)) attrs
          && forallb (fun k => match k with
                               | TNode kn _ _ _ =>
                                   match find_spec (skids s) (string_of_bytes kn) with
                                   | Some ks => conforms n' ks k
                                   | None => false
                                   end
                               end) kids
      end
  end.
