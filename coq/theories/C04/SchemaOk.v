(* C04/SchemaOk.v — obligations on the schema regenerated from /repo (GenOk for C03/C04):
   every struct's attribute and element names (marshal side = unmarshal side: the same tag)
   equal the OSM XML vocabulary of Codec/SpecNames.v, names are distinct within a struct, the
   names hard-wired in the hand-written XML methods (marshal side of the containers) and in
   Scanner.Scan are the vocabulary's, and the types with hand-written XML methods are exactly
   the ones the model transcribes. *)
From Coq Require Import List String Bool ZArith.
From Verif Require Import Codec.Schema Codec.Value Codec.Xml Codec.Scan Codec.SpecNames
     Codec.ProofsAttr Codec.ProofsKids.
From VerifGen Require Import GenSchema.
Import ListNotations.
Open Scope string_scope.

Definition subset (a b : list string) : bool := forallb (fun x => existsb (String.eqb x) b) a.
Definition same_set (a b : list string) : bool := subset a b && subset b a.

Fixpoint strs_eqb (a b : list string) : bool :=
  match a, b with
  | [], [] => true
  | x :: a', y :: b' => String.eqb x y && strs_eqb a' b'
  | _, _ => false
  end.

Definition elem_key (sch : schema) (f : field) : string :=
  match x_parents (f_xml f) with p :: _ => p | [] => eff_name sch f end.

(* one struct against one specification element: same attribute names, same child names,
   no name twice, at most one level of a>b, XMLName tag (if any) is the element's name *)
Definition struct_vs_spec (sch : schema) (T : string) (s : spec) : bool :=
  match lookup_type sch T with
  | Some d =>
      let fs := struct_fields d in
      same_set (attr_names sch fs) (sattrs s)
      && same_set (map (elem_key sch) (filter is_elem fs)) (map sname (skids s))
      && nodup_strb (attr_names sch fs)
      && nodup_strb (map (elem_key sch) (filter is_elem fs))
      && forallb (fun f => Nat.leb (List.length (x_parents (f_xml f))) 1) fs
      && (String.eqb (xmlname_tag d) "" || String.eqb (xmlname_tag d) (sname s))
  | None => false
  end.

Definition kid (s : spec) (n : string) : spec :=
  match find_spec (skids s) n with Some k => k | None => SpecEl "?" [] [] end.

Definition struct_pairs : list (string * spec) :=
  [("Node", s_node); ("Way", s_way); ("WayNode", s_nd); ("Relation", s_relation); ("Member", s_member);
   ("Tag", s_tag); ("Update", s_update); ("Bounds", s_bounds); ("Changeset", s_changeset);
   ("ChangesetDiscussion", kid s_changeset "discussion");
   ("ChangesetComment", kid (kid s_changeset "discussion") "comment");
   ("Note", s_note); ("NoteComment", kid (kid s_note "comments") "comment");
   ("User", s_user); ("User.Img", kid s_user "img"); ("User.Changesets", kid s_user "changesets");
   ("User.Traces", kid s_user "traces"); ("User.Home", kid s_user "home");
   ("User.Blocks", kid s_user "blocks"); ("User.Blocks.Received", kid (kid s_user "blocks") "received");
   ("User.Messages", kid s_user "messages");
   ("User.Messages.Received", kid (kid s_user "messages") "received");
   ("User.Messages.Sent", kid (kid s_user "messages") "sent");
   (* containers: the unmarshal side is the struct tags *)
   ("OSM", s_osm); ("Change", s_change); ("Diff", s_diff)].

(* the types with XML methods: name, has MarshalXML, has UnmarshalXML *)
Definition xml_method_types (sch : schema) : list string :=
  flat_map (fun d =>
              (if has_method d "MarshalXML" then [String.append (t_name d) ".MarshalXML"] else [])
              ++ (if has_method d "UnmarshalXML" then [String.append (t_name d) ".UnmarshalXML"] else []))%list sch.

Definition expected_method_types : list string :=
  ["Action.MarshalXML"; "Action.UnmarshalXML"; "Bounds.MarshalXML"; "Change.MarshalXML";
   "ChangesetDiscussion.MarshalXML"; "Date.MarshalXML"; "Date.UnmarshalXML"; "OSM.MarshalXML"].

Definition nonempty (l : list string) : list string := filter (fun s => negb (String.eqb s "")) l.

(* marshal-side / unmarshal-side names written as literals in the hand-written methods: compared
   as SETS over everything reachable from all MarshalXML (resp. UnmarshalXML, Scan) methods, so
   moving a literal into a helper function or between these methods is not reported *)
Definition literals_okb : bool :=
  same_set (nonempty lits_xml_marshal_all)
           ("osm" :: "osmChange" :: header_attr_names
            ++ ["create"; "modify"; "delete"; "type"; "old"; "new"; "comment"; "bounds";
                "2006-01-02 15:04:05 MST"])%list
  && same_set (nonempty lits_xml_unmarshal_all)
              ["type"; "old"; "new"; "node"; "way"; "relation"; "2006-01-02 15:04:05 MST"]
  && same_set (nonempty lits_scanner_all) (map fst scan_kinds)
  && strs_eqb (map fst scan_kinds) (map fst object_kinds)
  && String.eqb c_dateLayout "2006-01-02 15:04:05 MST".

(* the encoder's hooks are declared on the VALUE receiver: only then does encoding/xml find them
   for every way a value reaches it (xml.Marshal(v) by value, a value field of a struct passed by
   value, the content of an interface), which is what the model's single encoding function of the
   value assumes.  A pointer-receiver MarshalXML / MarshalXMLAttr / MarshalText is found for
   addressable values only (wave 7, seeded C04-r5-1: Date.MarshalXML on *Date). *)
Definition marshal_hooks_on_value (sch : schema) : bool :=
  forallb (fun d => negb (existsb (fun m => String.eqb m "*MarshalXML" || String.eqb m "*MarshalXMLAttr"
                                            || String.eqb m "*MarshalText") (t_methods d))) sch.

Definition schema_okb (sch : schema) : bool :=
  forallb (fun p => struct_vs_spec sch (fst p) (snd p)) struct_pairs
  && strs_eqb (xml_method_types sch) expected_method_types
  && marshal_hooks_on_value sch.

Lemma gen_schema_ok : schema_okb gen_schema = true.
Proof. vm_compute. reflexivity. Qed.

Lemma gen_literals_ok : literals_okb = true.
Proof. vm_compute. reflexivity. Qed.

(* what the check means, spelled out for one struct *)
Lemma schema_ok_names : forall T s,
  In (T, s) struct_pairs -> struct_vs_spec gen_schema T s = true.
Proof.
  intros T s Hin. pose proof gen_schema_ok as H. unfold schema_okb in H.
  apply andb_true_iff in H. destruct H as [H _].
  apply andb_true_iff in H. destruct H as [H _]. rewrite forallb_forall in H. exact (H (T, s) Hin).
Qed.
