(* C01/Check.v — one harness case = one generated PBF file (executable only).

   Layout:  pool : list bytes                      (strings of the observed objects, interned)
            header : opt (header_d, tree, status, opt (observed header, tol))
            blocks : list (block_d, tree)          (tree = independent protowire parse of the
                                                    very bytes fed to the decoder)
            observations : list (procs list, status, list (obj, tol))
   Codes:   1  model (scan_file procs trees / decode_header tree) <> what the implementation returned
            2  property oracle: observed <> elements of the description (file order, field for
               field, coordinates as integer nanodegrees, tolerance flag), or Err() <> nil,
               or Header() <> the header description
            3  canonical form of the tree fed to the decoder <> encode_block/encode_header of the
               description (the inputs are the theorems' inputs).  Canonical form = canon_block, the
               hypothesis of field_order_irrelevant; failing that, mcanon_block (chunks of a split
               packed column concatenated: the format's equality; such inputs belong to the known
               finding "packed-column-split" and must fail judgement 2 under that class only)
            4  the description is outside format_valid_block/valid_header or has a coordinate beyond
               4e14 nanodegrees (coords_small: the domain of the 1e-10 degree clause; generator defect), or the
               model answers E_WIRE on a tree (the tree is not well-typed, see Pbf/Tree.v: outside
               the domain on which the model speaks for the implementation).
               format_valid_block = valid_block + plain Node items (known finding
               "plain-node-group": valid input, the decoder answers with an error)
            0  case does not parse *)
From Coq Require Import ZArith List Bool.
From Verif Require Import Base.Int64 Base.Wire Pbf.Tree Pbf.Model Pbf.Spec Pbf.Header Pbf.CheckLib.
Import ListNotations.
Open Scope Z_scope.
Open Scope wire_scope.

Record hcase := mkHC { hc_d : header_d; hc_tree : msg; hc_status : Z; hc_obs : option (header * bool) }.
Record ocase := mkOC { oc_procs : list Z; oc_status : Z; oc_objs : list (obj * bool) }.

Definition phcase : P hcase :=
  d <- pheader_d ;; t <- ptree ;; s <- pint ;; o <- popt pheader_obs ;; ret (mkHC d t s o).
Definition pocase (pool : list bytes) : P ocase :=
  p <- plist pint ;; s <- pint ;; o <- plist (pobj pool) ;; ret (mkOC p s o).

Definition header_codes (h : hcase) : list Z :=
  let model := decode_header (hc_tree h) in
  let j1 := match model, hc_obs h with
            | Ok m, Some (o, _) => (hc_status h =? 0) && header_eqb m o
            | Err _, None => negb (hc_status h =? 0)
            | _, _ => false
            end in
  let j2 := match hc_obs h with
            | Some (o, tol) => (hc_status h =? 0) && tol && header_eqb o (header_of (hc_d h))
            | None => false
            end in
  let j3 := msg_eqb (canon_header (hc_tree h)) (encode_header (hc_d h)) in
  code_if j1 1 ++ code_if j2 2 ++ code_if j3 3 ++ code_if (valid_header (hc_d h)) 4.

Definition obs_codes (trees : list msg) (expected : list obj) (o : ocase) : list Z :=
  let objs := map fst (oc_objs o) in
  let j1 := forallb (fun p =>
              match scan_file cfg_all (Z.to_nat p) trees with
              | Ok q => (oc_status o =? 0) && objs_eqb q objs
              | Err _ => oc_status o =? 1
              | Panic => oc_status o =? 2
              end) (oc_procs o) in
  let j2 := (oc_status o =? 0) && forallb snd (oc_objs o) && objs_eqb objs expected in
  code_if j1 1 ++ code_if j2 2.

Definition dedup (l : list Z) : list Z := nodup Z.eq_dec l.

Definition check_case (t : toks) : list Z :=
  match parse_all (pool <- plist pbytes ;; h <- popt phcase ;;
                   bs <- plist (ppair pblock_d ptree) ;; os <- plist (pocase pool) ;;
                   ret (h, bs, os)) t with
  | None => [0]
  | Some (h, bs, os) =>
      let trees := map snd bs in
      let expected := flat_map (fun b => elements (fst b)) bs in
      let j3 := forallb (fun b => msg_eqb (canon_block (snd b)) (encode_block (fst b))
                                   || msg_eqb (mcanon_block (snd b)) (encode_block (fst b))) bs in
      let j4 := forallb (fun b => format_valid_block (fst b) && coords_small (fst b)) bs
                && match scan_file cfg_all 1 trees with Err c => negb (c =? E_WIRE) | _ => true end in
      dedup ((match h with Some hc => header_codes hc | None => [] end)
             ++ flat_map (obs_codes trees expected) os
             ++ code_if j3 3 ++ code_if j4 4
             ++ code_if (negb (match os with [] => true | _ => false end)) 0)
  end.
