(* C01/Compose.v — composition of the block decoder (coq/theories/Pbf) with the pipeline LTS of C02
   (coq/theories/Pipeline).

   The pipeline model moves abstract objects (integers) and treats file block i as [IBlock os_i]: a block
   that decodes to os_i whichever worker, in whatever private state, decodes it.  That abstraction is
   justified here: for a valid file description f and a scanner configuration c, block i is instantiated
   with the POSITIONS (in the kept element sequence of the file) of the elements of block i, and
   [inst_blocks_decode] shows that scan_result c st (encode_block b_i) — for EVERY decoder state st —
   is exactly the list of objects carrying those positions.  The order theorems of C02 (every decoder
   count n >= 1, every schedule: every interleaving of reader, workers, serializer, consumer, API calls
   and every resolution of every select) then give: what Scan has delivered is always a prefix of
   filter (keeps c) (elements_file f), and a completed run delivers exactly that sequence with
   Err() = nil. *)
From Coq Require Import ZArith List Bool Arith Lia.
From Verif Require Pipeline.Model Pipeline.Exec Pipeline.ProofsBasic Pipeline.ProofsOrder Pipeline.Theorems.
From Verif Require Import Base.Int64 Pbf.Tree Pbf.Model Pbf.Spec Pbf.ProofsFilter Pbf.ProofsDecode Pbf.ProofsDense
     Pbf.ProofsAll Pbf.ProofsFile.
Import ListNotations.

Module PL := Verif.Pipeline.Model.
Module PB := Verif.Pipeline.ProofsBasic.
Module PO := Verif.Pipeline.ProofsOrder.
Module PT := Verif.Pipeline.Theorems.

(* the consumer-visible sequence the property talks about *)
Definition kept (c : cfg) (f : file_d) : list obj := filter (keeps c) (elements_file f).
Definition kept_block (c : cfg) (b : block_d) : list obj := filter (keeps c) (elements b).

Lemma kept_cons c b f : kept c (b :: f) = kept_block c b ++ kept c f.
Proof. unfold kept, kept_block, elements_file. simpl. apply filter_app. Qed.

(* ---------- the instantiation of the pipeline's input ---------- *)
Definition ids (off len : nat) : list Z := map Z.of_nat (seq off len).

Fixpoint inst_from (c : cfg) (off : nat) (f : file_d) : PL.input :=
  match f with
  | [] => []
  | b :: r => PL.IBlock (ids off (length (kept_block c b))) :: inst_from c (off + length (kept_block c b)) r
  end.
Definition inst (c : cfg) (f : file_d) : PL.input := inst_from c 0 f.

(* an abstract object is the position of an element in the kept sequence of the file *)
Definition dummy : obj := ONode node0.
Definition lab (c : cfg) (f : file_d) (k : Z) : obj := nth (Z.to_nat k) (kept c f) dummy.

Lemma wf_inst c : forall f off, PL.wf_input (inst_from c off f) = true.
Proof. induction f as [|b f IH]; intros off; simpl; auto. Qed.

Lemma final_inst c : forall f off, PL.final_err (inst_from c off f) = PL.eEOF.
Proof. induction f as [|b f IH]; intros off; simpl; auto. Qed.

Lemma expected_inst c : forall f off, PL.expected (inst_from c off f) = ids off (length (kept c f)).
Proof.
  induction f as [|b f IH]; intros off; simpl; [reflexivity|].
  rewrite IH, kept_cons, app_length. unfold ids. rewrite seq_app, map_app. reflexivity.
Qed.

Lemma map_nth_seq {A} (d : A) : forall pre l post,
  map (fun k => nth k (pre ++ l ++ post) d) (seq (length pre) (length l)) = l.
Proof.
  intros pre l. revert pre. induction l as [|a l IH]; intros pre post; simpl; [reflexivity|].
  f_equal.
  - rewrite app_nth2 by lia. rewrite Nat.sub_diag. reflexivity.
  - specialize (IH (pre ++ [a]) post). rewrite app_length in IH. simpl in IH.
    rewrite Nat.add_1_r in IH. rewrite <- app_assoc in IH. simpl in IH. exact IH.
Qed.

Lemma lab_ids c f pre l post : kept c f = pre ++ l ++ post ->
  map (lab c f) (ids (length pre) (length l)) = l.
Proof.
  intros E. unfold ids, lab. rewrite map_map. rewrite E.
  rewrite <- (map_nth_seq dummy pre l post) at 2. apply map_ext. intros k. rewrite Nat2Z.id. reflexivity.
Qed.

Lemma lab_expected c f : map (lab c f) (PL.expected (inst c f)) = kept c f.
Proof.
  unfold inst. rewrite expected_inst.
  apply (lab_ids c f [] (kept c f) []). rewrite app_nil_r. reflexivity.
Qed.

(* ---------- the abstraction "block i decodes to os_i in every worker state" is sound ---------- *)
Lemma inst_blocks_decode c f0 : forall f pre, valid_file f = true -> kept c f0 = pre ++ kept c f ->
  Forall2 (fun it b => exists os, it = PL.IBlock os /\
             forall st, scan_result c st (encode_block b) = Ok (map (lab c f0) os))
          (inst_from c (length pre) f) f.
Proof.
  induction f as [|b f IH]; intros pre Hv E; simpl; [constructor|].
  unfold valid_file in Hv. simpl in Hv. apply andb_prop in Hv. destruct Hv as [Hb Hf].
  rewrite kept_cons in E.
  constructor.
  - exists (ids (length pre) (length (kept_block c b))). split; [reflexivity|]. intros st.
    rewrite (lab_ids c f0 pre (kept_block c b) (kept c f) E).
    exact (decode_encode_filtered b Hb c st).
  - specialize (IH (pre ++ kept_block c b) Hf). rewrite app_length in IH. apply IH.
    rewrite <- app_assoc. exact E.
Qed.

Theorem instantiation_sound : forall c f, valid_file f = true ->
  Forall2 (fun it b => exists os, it = PL.IBlock os /\
             forall st, scan_result c st (encode_block b) = Ok (map (lab c f) os))
          (inst c f) f.
Proof. intros c f Hv. exact (inst_blocks_decode c f f [] Hv eq_refl). Qed.

(* ---------- pipeline configurations over an instantiated file ---------- *)
(* the code as it is now (all three repairs), n workers, any channel budget, file with a header *)
Definition pcfg (n budget : nat) (inp : PL.input) : PL.cfg := PL.mkCfg n inp false 0%Z true true true budget.

Lemma pcfg_wf c f n budget : (1 <= n)%nat -> PL.wf_cfg (pcfg n budget (inst c f)) = true.
Proof.
  intros Hn. unfold PL.wf_cfg, pcfg. simpl. unfold inst. rewrite wf_inst.
  destruct n; [lia|reflexivity].
Qed.

Lemma prefix_map c f (ds t : list Z) : ds ++ t = PL.expected (inst c f) ->
  map (lab c f) ds ++ map (lab c f) t = kept c f.
Proof. intros E. rewrite <- map_app, E. apply lab_expected. Qed.

(* 1. every reachable state of the pipeline: what the consumer was given is a prefix *)
Theorem delivered_prefix_of_elements : forall c f n budget s,
  valid_file f = true -> (1 <= n)%nat -> PB.reach (pcfg n budget (inst c f)) s ->
  exists t, map (lab c f) (PL.delivered s) ++ t = kept c f.
Proof.
  intros c f n budget s Hv Hn Hr.
  destruct (PO.delivered_is_prefix_all (pcfg n budget (inst c f)) s (pcfg_wf c f n budget Hn) eq_refl eq_refl Hr) as [t Ht].
  exists (map (lab c f) t). exact (prefix_map c f _ _ Ht).
Qed.

(* 2. every schedule, as a list of labels run from the initial state: the objects returned by the
   successful Scans are a prefix *)
Theorem scans_prefix_of_elements : forall c f n budget sched,
  valid_file f = true -> (1 <= n)%nat ->
  exists t, map (lab c f) (PO.scan_vals (snd (PL.run (pcfg n budget (inst c f)) sched (PL.init (pcfg n budget (inst c f)))))) ++ t
            = kept c f.
Proof.
  intros c f n budget sched Hv Hn.
  destruct (PO.scans_are_prefix (pcfg n budget (inst c f)) sched (pcfg_wf c f n budget Hn) eq_refl eq_refl) as [t Ht].
  exists (map (lab c f) t). exact (prefix_map c f _ _ Ht).
Qed.

(* 3. a completed run (no Close, no cancellation): exactly the kept elements, then EOF, Err() = nil *)
Theorem completed_run_delivers_elements : forall c f n budget s,
  valid_file f = true -> (1 <= n)%nat -> PB.reach (pcfg n budget (inst c f)) s ->
  PL.closed s = false -> PL.pcancelled s = false -> PL.s_err s <> 0%Z ->
  map (lab c f) (PL.delivered s) = kept c f /\ PL.s_err s = PL.eEOF /\ PL.err_value s = 0%Z.
Proof.
  intros c f n budget s Hv Hn Hr Hc Hp He.
  destruct (PT.T_completes (pcfg n budget (inst c f)) s (pcfg_wf c f n budget Hn) eq_refl Hr eq_refl Hc Hp He) as [Hd Hf].
  unfold pcfg in Hf. simpl in Hf. unfold inst in Hf. rewrite final_inst in Hf.
  split; [|split].
  - rewrite Hd. apply lab_expected.
  - symmetry. exact Hf.
  - unfold PL.err_value. rewrite <- Hf. reflexivity.
Qed.

(* ---------- the same for EVERY pipeline configuration (wave 5) ---------- *)
(* pcfg above fixes the flags of the pipeline model (the code as it is now, file with a header).  The
   statements below quantify over the whole configuration record pc: any worker count (wf_cfg: >= 1),
   any channel budget, with or without a header block (c_resume: a restart stream whose first block
   is data), any header error, and - for the prefix statements - either form of the reader's loop
   condition; the hypotheses on the repair flags are exactly those of the C02 theorems used. *)
Theorem delivered_prefix_any_cfg : forall c f pc s,
  valid_file f = true -> PL.c_inp pc = inst c f -> PL.wf_cfg pc = true ->
  PL.c_recheck pc = true -> PL.c_nextctx pc = true -> PB.reach pc s ->
  exists t, map (lab c f) (PL.delivered s) ++ t = kept c f.
Proof.
  intros c f pc s Hv Hi Hwf Hre Hnx Hr.
  destruct (PO.delivered_is_prefix_all pc s Hwf Hre Hnx Hr) as [t Ht]. rewrite Hi in Ht.
  exists (map (lab c f) t). exact (prefix_map c f _ _ Ht).
Qed.

Theorem scans_prefix_any_cfg : forall c f pc sched,
  valid_file f = true -> PL.c_inp pc = inst c f -> PL.wf_cfg pc = true ->
  PL.c_recheck pc = true -> PL.c_nextctx pc = true ->
  exists t, map (lab c f) (PO.scan_vals (snd (PL.run pc sched (PL.init pc)))) ++ t = kept c f.
Proof.
  intros c f pc sched Hv Hi Hwf Hre Hnx.
  destruct (PO.scans_are_prefix pc sched Hwf Hre Hnx) as [t Ht]. rewrite Hi in Ht.
  exists (map (lab c f) t). exact (prefix_map c f _ _ Ht).
Qed.

Theorem completed_run_any_cfg : forall c f pc s,
  valid_file f = true -> PL.c_inp pc = inst c f -> PL.wf_cfg pc = true -> PL.current pc = true ->
  PL.c_hdr_err pc = 0%Z -> PB.reach pc s ->
  PL.closed s = false -> PL.pcancelled s = false -> PL.s_err s <> 0%Z ->
  map (lab c f) (PL.delivered s) = kept c f /\ PL.s_err s = PL.eEOF /\ PL.err_value s = 0%Z.
Proof.
  intros c f pc s Hv Hi Hwf Hcur Hh Hr Hc Hp He.
  destruct (PT.T_completes pc s Hwf Hcur Hr Hh Hc Hp He) as [Hd Hf].
  rewrite Hi in Hd, Hf. unfold inst in Hf. rewrite final_inst in Hf.
  split; [|split].
  - rewrite Hd. apply lab_expected.
  - symmetry. exact Hf.
  - unfold PL.err_value. rewrite <- Hf. reflexivity.
Qed.

(* without filters the kept sequence is the whole file *)
Lemma keeps_all o : keeps cfg_all o = true.
Proof. destruct o; reflexivity. Qed.
Lemma kept_all f : kept cfg_all f = elements_file f.
Proof. unfold kept. induction (elements_file f) as [|o l IH]; simpl; [reflexivity|]. rewrite keeps_all, IH. reflexivity. Qed.

(* unfiltered instances of the any-configuration theorems *)
Theorem delivered_prefix_any_cfg_all : forall f pc s,
  valid_file f = true -> PL.c_inp pc = inst cfg_all f -> PL.wf_cfg pc = true ->
  PL.c_recheck pc = true -> PL.c_nextctx pc = true -> PB.reach pc s ->
  exists t, map (lab cfg_all f) (PL.delivered s) ++ t = elements_file f.
Proof.
  intros f pc s Hv Hi Hwf Hre Hnx Hr.
  destruct (delivered_prefix_any_cfg cfg_all f pc s Hv Hi Hwf Hre Hnx Hr) as [t Ht].
  exists t. rewrite Ht. apply kept_all.
Qed.

Theorem completed_run_any_cfg_all : forall f pc s,
  valid_file f = true -> PL.c_inp pc = inst cfg_all f -> PL.wf_cfg pc = true ->
  PL.current pc = true -> PL.c_hdr_err pc = 0%Z -> PB.reach pc s ->
  PL.closed s = false -> PL.pcancelled s = false -> PL.s_err s <> 0%Z ->
  map (lab cfg_all f) (PL.delivered s) = elements_file f /\ PL.s_err s = PL.eEOF /\ PL.err_value s = 0%Z.
Proof.
  intros f pc s Hv Hi Hwf Hc Hh Hr H1 H2 H3.
  destruct (completed_run_any_cfg cfg_all f pc s Hv Hi Hwf Hc Hh Hr H1 H2 H3) as (A & B & C).
  rewrite kept_all in A. auto.
Qed.
