(* C17/Model.v — executable model of osmgeojson.Convert (convert.go, build_polygon.go, options.go)
   and of the pieces of package osm it uses (Tags.Find/Map, UninterestingTags, Way.Polygon as an
   input flag).  Definitions only; proofs are in Proofs*.v.

   What is modelled, loop by loop (line numbers of /repo/osmgeojson/convert.go):
     47-57   wayMap (last way with an id wins), wayMember
     60-90   relationMember: summaries per member key, in relation order then member order,
             the noRelationMembership filter (node members are always kept), the
             "way member must be present" filter
     95-110  relation pass: type=route -> buildRouteLineString, multipolygon|boundary ->
             buildPolygon, everything else ignored
     112-122 way pass with the skippable set
     124-143 node pass with the interest rule
     165-231 nodeToFeature, wayToLineString, wayToFeature (toRing, reorient)
     233-301 buildRouteLineString
     303-387 addMetaProperties
     389-403 hasInterestingTags
   and build_polygon.go 12-243 (buildPolygon, addToMultiPolygon, polygonContains).

   ctx.skippable is only ever written during the relation pass and only read in the way
   pass, and nothing else of the context changes, so every relation is processed by a pure
   function  rel_result : relation -> (ids it adds to skippable, optional feature)  and the
   skippable set of the way pass is the union of the first components.

   internal/mputil (Join, MultiSegment.Ring) belongs to property C16: here the two functions
   are Section variables [join] and [ring_of]; C17/Mputil.v holds the executable instance
   used by the correspondence check.

   Coordinates are Z pairs (the harness uses integer-valued doubles of small magnitude, for
   which the shoelace products and the ray-casting quotient comparison are exact).
   Way.Polygon() (polygon.go) is property C18's model [C18.Model.way_polygon] applied to the rule
   table re-read from /repo ([way_area]); C18 proves it total, so the default is never taken.
   Identifiers are any int64.  Two places of the package go through the packed osm.FeatureID
   (type code in bits 56-62, 40 bits of ref in bits 16-55): the keys of ctx.relationMember
   (convert.go 60-90, read back by addMetaProperties and the node pass) and the identity tail of
   buildPolygon (featureID.Type(), featureID.Ref()).  Both are modelled through the packing
   functions regenerated from /repo's node.go/way.go/relation.go/feature.go (gen/GenIds.v, property
   C10): [fid], [unpack].  On ids outside [0,2^40) the packing loses information; the model
   follows the code there (known finding polygon-id-outside-packed-range). *)
From Coq Require Import ZArith String List Bool.
From VerifGen Require Import GenTags.
From VerifGen Require GenIds.
From Verif Require C18.Model.
Import ListNotations.
Open Scope string_scope.
Open Scope Z_scope.
Open Scope list_scope.

Definition pt := (Z * Z)%type.
Definition pt_eqb (a b : pt) : bool := (fst a =? fst b) && (snd a =? snd b).
Definition tags := list (string * string).

(* TNone: the type "" that FeatureID.Type() answers for type bits that are none of node, way,
   relation; it only ever occurs in the identity of a feature, never as the type of a member *)
Inductive etype := TNode | TWay | TRel | TNone.
Definition etype_eqb (a b : etype) : bool :=
  match a, b with
  | TNode, TNode | TWay, TWay | TRel, TRel | TNone, TNone => true
  | _, _ => false
  end.

(* the packed osm.FeatureID of an element or member: NodeID/WayID/RelationID.FeatureID() *)
Definition fid (t : etype) (r : Z) : Z :=
  match t with
  | TNode => GenIds.NodeID_FeatureID r
  | TWay => GenIds.WayID_FeatureID r
  | TRel => GenIds.RelationID_FeatureID r
  | TNone => 0
  end.
Definition etype_of_name (s : string) : etype :=
  if String.eqb s GenIds.c_TypeNode then TNode
  else if String.eqb s GenIds.c_TypeWay then TWay
  else if String.eqb s GenIds.c_TypeRelation then TRel
  else TNone.
(* what buildPolygon reads back: featureID.Type(), featureID.Ref() *)
Definition unpack (f : Z) : etype * Z := (etype_of_name (GenIds.FeatureID_Type f), GenIds.FeatureID_Ref f).

(* Timestamp: None = the zero time.Time; otherwise unix seconds *)
Record meta := { mt_ts : option Z; mt_version : Z; mt_changeset : Z; mt_user : string; mt_uid : Z }.
Definition meta0 : meta :=
  {| mt_ts := None; mt_version := 0; mt_changeset := 0; mt_user := EmptyString; mt_uid := 0 |}.

Record node := { n_id : Z; n_lon : Z; n_lat : Z; n_tags : tags; n_meta : meta }.
Record wnode := { wn_id : Z; wn_lon : Z; wn_lat : Z }.
Record way := { w_id : Z; w_nodes : list wnode; w_tags : tags; w_meta : meta }.
Record member := { m_type : etype; m_ref : Z; m_role : string; m_orient : Z; m_nodes : list wnode }.
Record relation := { r_id : Z; r_members : list member; r_tags : tags; r_meta : meta }.
Record osm := { nodes : list node; ways : list way; relations : list relation }.

Record opts := { noID : bool; noMeta : bool; noRelM : bool; inclInvalid : bool }.

(* ---- observable output ---- *)
Inductive geom :=
| GPoint (p : pt)
| GLine (l : list pt)
| GPoly (rs : list (list pt))
| GMultiLine (ls : list (list pt))
| GMultiPoly (ps : list (list (list pt))).

Record summary := { s_id : Z; s_role : string; s_tags : tags }.
Record metaobs := { mo_ts : option Z; mo_version : option Z; mo_changeset : option Z;
                    mo_user : option string; mo_uid : option Z }.
Record feature := {
  f_id : option (etype * Z);        (* Feature.ID "type/ref"; None under NoID *)
  f_type : etype; f_ref : Z;        (* Properties["type"], ["id"] *)
  f_tags : tags;                    (* Properties["tags"]: a map, unique keys *)
  f_tainted : bool;                 (* Properties["tainted"] present *)
  f_rels : option (list summary);   (* Properties["relations"]; None under NoRelationMembership *)
  f_meta : option metaobs;          (* Properties["meta"]; None under NoMeta *)
  f_geom : geom }.

(* ---- tags ---- *)
(* Tags.Find: first tag with the key, "" when absent *)
Fixpoint tag_find (ts : tags) (k : string) : string :=
  match ts with
  | [] => EmptyString
  | (k', v) :: r => if String.eqb k' k then v else tag_find r k
  end.

(* lookup in Tags.Map(): the last tag with the key wins; a Go map returns "" when absent *)
Fixpoint map_get (ts : tags) (k : string) : string :=
  match ts with
  | [] => EmptyString
  | (k', v) :: r => if existsb (fun kv => String.eqb (fst kv) k) r then map_get r k
                    else if String.eqb k' k then v else EmptyString
  end.

Definition has_key (ts : tags) (k : string) : bool := existsb (fun kv => String.eqb (fst kv) k) ts.

(* Tags.Map() as an association list with unique keys (the last occurrence of a key is kept) *)
Fixpoint tags_map (ts : tags) : tags :=
  match ts with
  | [] => []
  | (k, v) :: r => if has_key r k then tags_map r else (k, v) :: tags_map r
  end.

Definition uninteresting (k : string) : bool := existsb (String.eqb k) uninteresting_tags.

(* hasInterestingTags(tags, ignore); ignore = None is Go's nil map *)
Definition tag_interesting (ignore : option tags) (kv : string * string) : bool :=
  negb (uninteresting (fst kv)) &&
  match ignore with
  | None => true
  | Some ig => negb (String.eqb (map_get ig (fst kv)) "true" || String.eqb (map_get ig (fst kv)) (snd kv))
  end.
Definition has_interesting (ts : tags) (ignore : option tags) : bool :=
  existsb (tag_interesting ignore) ts.

(* ---- lookups ---- *)
Fixpoint find_last {A} (p : A -> bool) (l : list A) : option A :=
  match l with
  | [] => None
  | x :: r => match find_last p r with
              | Some y => Some y
              | None => if p x then Some x else None
              end
  end.

Definition way_lookup (d : osm) (id : Z) : option way := find_last (fun w => w_id w =? id) (ways d).
Definition node_lookup (d : osm) (id : Z) : option node := find_last (fun n => n_id n =? id) (nodes d).
Definition way_member (d : osm) (id : Z) : bool :=
  existsb (fun w => existsb (fun wn => wn_id wn =? id) (w_nodes w)) (ways d).

Definition is_some {A} (o : option A) : bool := match o with Some _ => true | None => false end.
Definition is_nil {A} (l : list A) : bool := match l with [] => true | _ => false end.
Definition olist {A} (o : option A) : list A := match o with Some a => [a] | None => [] end.
Definition memZ (x : Z) (l : list Z) : bool := existsb (Z.eqb x) l.

(* ---- relation membership (convert.go 60-90) ---- *)
Definition member_counts (o : opts) (d : osm) (m : member) : bool :=
  negb (noRelM o && negb (etype_eqb (m_type m) TNode)) &&
  (if etype_eqb (m_type m) TWay then is_some (way_lookup d (m_ref m)) else true).

(* ctx.relationMember[key.FeatureID()]: the map is keyed by the PACKED id *)
Definition rel_summaries (o : opts) (d : osm) (key : etype * Z) : list summary :=
  flat_map (fun r =>
    flat_map (fun m =>
      if member_counts o d m && (fid (m_type m) (m_ref m) =? fid (fst key) (snd key))
      then [{| s_id := r_id r; s_role := m_role m; s_tags := tags_map (r_tags r) |}]
      else []) (r_members r)) (relations d).

(* ---- addMetaProperties ---- *)
Definition nz (v : Z) : option Z := if v =? 0 then None else Some v.
Definition meta_obs (m : meta) : metaobs :=
  {| mo_ts := mt_ts m; mo_version := nz (mt_version m); mo_changeset := nz (mt_changeset m);
     mo_user := if String.eqb (mt_user m) "" then None else Some (mt_user m);
     mo_uid := nz (mt_uid m) |}.

Definition mk_feature (o : opts) (d : osm) (ty : etype) (ref : Z) (ts : tags) (tainted : bool)
           (m : meta) (g : geom) : feature :=
  {| f_id := if noID o then None else Some (ty, ref);
     f_type := ty; f_ref := ref; f_tags := tags_map ts; f_tainted := tainted;
     f_rels := if noRelM o then None else Some (rel_summaries o d (ty, ref));
     f_meta := if noMeta o then None else Some (meta_obs m);
     f_geom := g |}.

(* buildPolygon's identity tail: id, "id" and "type" come from tagObject.FeatureID() read back
   through Type() and Ref(); the memberships and meta are looked up with the element itself *)
Definition mk_poly_feature (o : opts) (d : osm) (ty : etype) (ref : Z) (ts : tags) (tainted : bool)
           (m : meta) (g : geom) : feature :=
  let k := unpack (fid ty ref) in
  {| f_id := if noID o then None else Some k;
     f_type := fst k; f_ref := snd k; f_tags := tags_map ts; f_tainted := tainted;
     f_rels := if noRelM o then None else Some (rel_summaries o d (ty, ref));
     f_meta := if noMeta o then None else Some (meta_obs m);
     f_geom := g |}.

(* ---- wayToLineString ---- *)
Definition resolve (d : osm) (wn : wnode) : option pt :=
  if negb (wn_lon wn =? 0) || negb (wn_lat wn =? 0) then Some (wn_lon wn, wn_lat wn)
  else match node_lookup d (wn_id wn) with
       | Some n => Some (n_lon n, n_lat n)
       | None => None
       end.

Fixpoint omap {A B} (f : A -> option B) (l : list A) : list B :=
  match l with
  | [] => []
  | a :: r => match f a with Some b => b :: omap f r | None => omap f r end
  end.

Definition way_line (d : osm) (wns : list wnode) : list pt * bool :=
  (omap (resolve d) wns, existsb (fun wn => negb (is_some (resolve d wn))) wns).

(* ---- orb.Ring.Orientation, toRing, reorient ---- *)
Definition cross (o a b : pt) : Z :=
  (fst a - fst o) * (snd b - snd o) - (fst b - fst o) * (snd a - snd o).
Fixpoint pair_sum (o : pt) (l : list pt) : Z :=
  match l with
  | a :: ((b :: _) as r) => cross o a b + pair_sum o r
  | _ => 0
  end.
(* r[0] is the offset; the loop runs over i = 1 .. len-2, i.e. over the consecutive pairs of
   the tail.  (Go panics on an empty ring; every call site has a non-empty ring.) *)
Definition ring_orientation (r : list pt) : Z :=
  match r with
  | [] => 0
  | o :: t => Z.sgn (pair_sum o t)
  end.

Definition to_ring (ls : list pt) : list pt :=
  match ls with
  | [] | [_] => ls
  | a :: _ => if pt_eqb a (last ls a) then ls else ls ++ [a]
  end.

Definition reorient_outer (r : list pt) : list pt :=
  if ring_orientation r =? 1 then r else rev r.

(* ---- nodes and ways ---- *)
Definition node_located (n : node) : bool :=
  negb ((n_lon n =? 0) && (n_lat n =? 0) && (mt_version (n_meta n) =? 0)).

Definition node_feature (o : opts) (d : osm) (n : node) : option feature :=
  if node_located n
  then Some (mk_feature o d TNode (n_id n) (n_tags n) false (n_meta n) (GPoint (n_lon n, n_lat n)))
  else None.

(* the interest rule of the node pass (convert.go 133-137) *)
Definition node_emitted (o : opts) (d : osm) (n : node) : bool :=
  negb (way_member d (n_id n) && is_nil (rel_summaries o d (TNode, n_id n))
        && negb (has_interesting (n_tags n) None)).

(* w.Polygon(): C18's model of polygon.go on the way's node ids and tags, with the rule table
   regenerated from /repo (C18.Model.RT).  Properties/C18 proves the result is always [Val _]. *)
Definition way_area (w : way) : bool :=
  match C18.Model.way_polygon C18.Model.RT (map wn_id (w_nodes w)) (w_tags w) with
  | C18.Model.Val b => b
  | _ => false
  end.

Definition way_geom (w : way) (ls : list pt) : geom :=
  if way_area w then GPoly [reorient_outer (to_ring ls)] else GLine ls.

Definition way_feature (o : opts) (d : osm) (w : way) : option feature :=
  let '(ls, t) := way_line d (w_nodes w) in
  if (List.length ls <=? 1)%nat then None
  else Some (mk_feature o d TWay (w_id w) (w_tags w) t (w_meta w) (way_geom w ls)).

(* ---- mputil.Segment ---- *)
Record seg := { sg_orient : Z; sg_rev : bool; sg_line : list pt }.
Definition seg_reverse (s : seg) : seg :=
  {| sg_orient := sg_orient s; sg_rev := negb (sg_rev s); sg_line := rev (sg_line s) |}.
(* MultiSegment.LineString *)
Definition ms_line (ms : list seg) : list pt := concat (map sg_line ms).

Definition ring_closed (r : list pt) : bool :=
  match r with [] => false | a :: _ => pt_eqb a (last r a) end.
Definition ring_invalid (r : list pt) : bool := (List.length r <? 4)%nat || negb (ring_closed r).

(* ---- polygonContains (even-odd ray casting; the float quotient compared exactly) ---- *)
Definition crosses (p a b : pt) : bool :=
  let '(x, y) := p in let '(xi, yi) := a in let '(xj, yj) := b in
  negb (Bool.eqb (y <? yi) (y <? yj)) &&
  (let den := yj - yi in let num := (xj - xi) * (y - yi) in
   if 0 <? den then (x - xi) * den <? num else num <? (x - xi) * den).
Fixpoint inside_aux (p prev : pt) (l : list pt) : bool :=
  match l with
  | [] => false
  | a :: r => xorb (crosses p a prev) (inside_aux p a r)
  end.
Definition inside (p : pt) (outer : list pt) : bool :=
  match outer with [] => false | a :: _ => inside_aux p (last outer a) outer end.
Definition polygon_contains (outer r : list pt) : bool := existsb (fun p => inside p outer) r.

(* a polygon under construction: outer ring and the inner rings appended so far *)
Definition poly := (list pt * list (list pt))%type.
Definition poly_rings (p : poly) : list (list pt) := fst p :: snd p.
Definition poly_add (p : poly) (ring : list pt) : poly := (fst p, snd p ++ [ring]).

Fixpoint add_first (pred : poly -> bool) (ring : list pt) (mp : list poly) : option (list poly) :=
  match mp with
  | [] => None
  | p :: r => if pred p then Some (poly_add p ring :: r)
              else match add_first pred ring r with Some r' => Some (p :: r') | None => None end
  end.

(* addToMultiPolygon *)
Definition add_to_mp (mp : list poly) (ring : list pt) (incl : bool) : list poly :=
  match add_first (fun p => polygon_contains (fst p) ring) ring mp with
  | Some mp' => mp'
  | None =>
      if negb incl then mp
      else match mp with
           | p0 :: r0 =>
               if negb (is_nil (fst p0)) && negb (ring_closed (fst p0)) then poly_add p0 ring :: r0
               else match add_first (fun p => is_nil (fst p)) ring mp with
                    | Some mp' => mp'
                    | None => mp ++ [([], [ring])]
                    end
           | [] => [([], [ring])]
           end
  end.

Definition pseudo_way (id : Z) (ns : list wnode) : way :=
  {| w_id := id; w_nodes := ns; w_tags := []; w_meta := meta0 |}.

(* per-member contribution of the buildPolygon loop (build_polygon.go 22-88) *)
Record pstep := { ps_cnt : Z; ps_taint : bool; ps_skips : list Z;
                  ps_outer : list (seg * way); ps_inner : list seg }.
Definition pstep0 : pstep :=
  {| ps_cnt := 0; ps_taint := false; ps_skips := []; ps_outer := []; ps_inner := [] |}.

Definition poly_step (d : osm) (rtags : tags) (m : member) : pstep :=
  match m_type m with
  | TWay =>
      let is_outer := String.eqb (m_role m) "outer" in
      if negb (is_outer || String.eqb (m_role m) "inner") then pstep0
      else
        let cnt := if is_outer then 1 else 0 in
        let ow := match way_lookup d (m_ref m) with
                  | Some w => Some w
                  | None => match m_nodes m with [] => None | ns => Some (pseudo_way (m_ref m) ns) end
                  end in
        match ow with
        | None => {| ps_cnt := cnt; ps_taint := true; ps_skips := []; ps_outer := []; ps_inner := [] |}
        | Some w =>
            let skips := if has_interesting (w_tags w) (if is_outer then Some rtags else None)
                         then [] else [w_id w] in
            let '(ls, t) := way_line d (w_nodes w) in
            match ls with
            | [] => {| ps_cnt := cnt; ps_taint := t; ps_skips := skips; ps_outer := []; ps_inner := [] |}
            | _ =>
                let s := {| sg_orient := m_orient m; sg_rev := false; sg_line := ls |} in
                if is_outer
                then {| ps_cnt := cnt; ps_taint := t; ps_skips := skips;
                        ps_outer := [(if m_orient m =? -1 then seg_reverse s else s, w)];
                        ps_inner := [] |}
                else {| ps_cnt := cnt; ps_taint := t; ps_skips := skips; ps_outer := [];
                        ps_inner := [if m_orient m =? 1 then seg_reverse s else s] |}
            end
        end
  | _ => pstep0
  end.

(* per-member contribution of the buildRouteLineString loop (convert.go 236-264) *)
Record rstep := { rs_taint : bool; rs_skips : list Z; rs_lines : list seg }.
Definition route_step (d : osm) (m : member) : rstep :=
  match m_type m with
  | TWay =>
      match way_lookup d (m_ref m) with
      | None => {| rs_taint := true; rs_skips := []; rs_lines := [] |}
      | Some w =>
          let skips := if has_interesting (w_tags w) None then [] else [w_id w] in
          let '(ls, t) := way_line d (w_nodes w) in
          {| rs_taint := t; rs_skips := skips;
             rs_lines := match ls with
                         | [] => []
                         | _ => [{| sg_orient := m_orient m; sg_rev := false; sg_line := ls |}]
                         end |}
      end
  | _ => {| rs_taint := false; rs_skips := []; rs_lines := [] |}
  end.

Definition old_style_ignore : tags := [("type", "true")]%string.

Section Convert.
  (* mputil.Join and MultiSegment.Ring (property C16) *)
  Variable join : list seg -> list (list seg).
  Variable ring_of : Z -> list seg -> list pt.

  Definition route_result (o : opts) (d : osm) (r : relation) : list Z * option feature :=
    let steps := map (route_step d) (r_members r) in
    let lines := flat_map rs_lines steps in
    let skips := flat_map rs_skips steps in
    match lines with
    | [] => (skips, None)
    | _ =>
        let g := match join lines with
                 | [s] => GLine (ms_line s)
                 | secs => GMultiLine (map ms_line secs)
                 end in
        (skips, Some (mk_feature o d TRel (r_id r) (r_tags r) (existsb rs_taint steps) (r_meta r) g))
    end.

  Definition mp_geom (mp : list poly) : option geom :=
    match mp with
    | [] => None
    | [p] => Some (GPoly (poly_rings p))
    | _ => Some (GMultiPoly (map poly_rings mp))
    end.

  Definition outer_polys (incl : bool) (outer : list seg) : list poly :=
    flat_map (fun os => let ring := ring_of 1 os in
                        if negb incl && ring_invalid ring then [] else [(ring, [])]) (join outer).

  Definition add_inners (incl : bool) (mp0 : list poly) (inner : list seg) : list poly :=
    fold_left (fun mp s => add_to_mp mp (ring_of (-1) s) incl) (join inner) mp0.

  (* [mk]: the identity tail (mk_poly_feature in the model; the proofs compare with mk_feature,
     which is the same on ids in [0,2^40): C17/ProofsPacked.v) *)
  Definition poly_result_with (mk : opts -> osm -> etype -> Z -> tags -> bool -> meta -> geom -> feature)
             (o : opts) (d : osm) (r : relation) : list Z * option feature :=
    let steps := map (poly_step d (r_tags r)) (r_members r) in
    let outer := flat_map ps_outer steps in
    let inner := flat_map ps_inner steps in
    let skips := flat_map ps_skips steps in
    let tainted := existsb ps_taint steps in
    let cnt := fold_right Z.add 0 (map ps_cnt steps) in
    let incl := inclInvalid o in
    if is_nil outer && negb incl then (skips, None)
    else
      match outer, cnt =? 1 with
      | [(s, w)], true =>
          (* old-style multipolygon: exactly one outer member *)
          let oring := ring_of 1 [s] in
          if ring_invalid oring then (skips, None)
          else
            let g := GPoly (oring :: map (ring_of (-1)) (join inner)) in
            if has_interesting (r_tags r) (Some old_style_ignore)
            then (skips, Some (mk o d TRel (r_id r) (r_tags r) tainted (r_meta r) g))
            else (skips ++ [w_id w],
                  Some (mk o d TWay (w_id w) (w_tags w) tainted (w_meta w) g))
      | _, _ =>
          let mp0 := outer_polys incl (map fst outer) in
          if is_nil mp0 && negb incl then (skips, None)
          else
            match mp_geom (add_inners incl mp0 inner) with
            | None => (skips, None)
            | Some g => (skips, Some (mk o d TRel (r_id r) (r_tags r) tainted (r_meta r) g))
            end
      end.
  Definition poly_result := poly_result_with mk_poly_feature.

  Definition rel_result (o : opts) (d : osm) (r : relation) : list Z * option feature :=
    let tt := tag_find (r_tags r) "type" in
    if String.eqb tt "route" then route_result o d r
    else if String.eqb tt "multipolygon" || String.eqb tt "boundary" then poly_result o d r
    else ([], None).

  Definition skippable (o : opts) (d : osm) : list Z :=
    flat_map (fun r => fst (rel_result o d r)) (relations d).

  Definition rel_features (o : opts) (d : osm) : list feature :=
    flat_map (fun r => olist (snd (rel_result o d r))) (relations d).

  Definition way_features (o : opts) (d : osm) : list feature :=
    flat_map (fun w => if memZ (w_id w) (skippable o d) then [] else olist (way_feature o d w)) (ways d).

  Definition node_features (o : opts) (d : osm) : list feature :=
    flat_map (fun n => if node_emitted o d n then olist (node_feature o d n) else []) (nodes d).

  (* Convert: the feature collection in output order (never returns an error: the four
     options cannot fail) *)
  Definition convert (o : opts) (d : osm) : list feature :=
    rel_features o d ++ way_features o d ++ node_features o d.
End Convert.
