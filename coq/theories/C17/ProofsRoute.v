(* C17/ProofsRoute.v — route relations: the feature's line geometry is the join of the member
   ways' resolvable coordinates, so every segment of every member way is preserved provided
   [join] conserves edges (that is property C16's join_conserves; here a hypothesis of the
   theorem, discharged for the executable instance in C17/ProofsJoin.v when present). *)
From Coq Require Import ZArith String List Bool Lia.
From Verif Require Import C17.Model C17.Spec C17.Proofs.
Import ListNotations.
Open Scope Z_scope.
Open Scope list_scope.

Arguments way_line : simpl never.
Arguments has_interesting : simpl never.

Definition all_edges (lines : list (list pt)) : list (pt * pt) := flat_map edges lines.

(* [join] conserves edges: each occurrence of an undirected edge of the input lines has its own
   occurrence in the joined lines *)
Definition join_conserves_edges (join : list seg -> list (list seg)) : Prop :=
  forall segs, edges_sub (all_edges (map sg_line segs)) (all_edges (map ms_line (join segs))) = true.

Lemma route_lines_edges d ms :
  all_edges (map sg_line (flat_map rs_lines (map (route_step d) ms))) =
  all_edges (flat_map (fun m => match m_type m with
                     | TWay => match way_lookup d (m_ref m) with
                               | Some w => [spec_coords d w]
                               | None => []
                               end
                     | _ => []
                     end) ms).
Proof.
  unfold all_edges. induction ms as [|m ms IH]; [reflexivity|].
  cbn [map flat_map]. rewrite map_app, !flat_map_app, IH. f_equal.
  unfold route_step. destruct (m_type m); try reflexivity.
  destruct (way_lookup d (m_ref m)) as [w|]; [|reflexivity].
  unfold way_line, spec_coords. cbn [rs_lines].
  destruct (omap (resolve d) (w_nodes w)); reflexivity.
Qed.

Lemma route_taint_spec d ms :
  existsb rs_taint (map (route_step d) ms) =
  existsb (fun m => match m_type m with
                    | TWay => match way_lookup d (m_ref m) with
                              | Some w => existsb (fun wn => negb (is_some (resolve d wn))) (w_nodes w)
                              | None => true
                              end
                    | _ => false
                    end) ms.
Proof.
  induction ms as [|m ms IH]; [reflexivity|]. cbn [map existsb]. rewrite IH. f_equal.
  unfold route_step. destruct (m_type m); try reflexivity.
  destruct (way_lookup d (m_ref m)) as [w|]; reflexivity.
Qed.

Section Route.
  Variable join : list seg -> list (list seg).
  Variable ring_of : Z -> list seg -> list pt.

  Theorem route_feature_geometry o d r f :
    String.eqb (tag_find (r_tags r) "type") "route" = true ->
    snd (rel_result join ring_of o d r) = Some f ->
    fkey f = (TRel, r_id r) /\ f_tags f = tags_map (r_tags r) /\
    f_tainted f = route_tainted d r /\
    geom_lines (f_geom f) =
      Some (map ms_line (join (flat_map rs_lines (map (route_step d) (r_members r))))).
  Proof.
    intros Ht. unfold rel_result. rewrite Ht. unfold route_result.
    destruct (flat_map rs_lines (map (route_step d) (r_members r))) as [|s0 l0] eqn:Hl; cbn [snd]; [discriminate|].
    intros H. injection H as <-. split; [reflexivity|]. split; [reflexivity|]. split.
    - cbn [f_tainted mk_feature]. unfold route_tainted. apply route_taint_spec.
    - cbn [f_geom mk_feature]. destruct (join (s0 :: l0)) as [|x [|y l]]; reflexivity.
  Qed.

  Theorem route_preserves_segments o d r f :
    join_conserves_edges join ->
    String.eqb (tag_find (r_tags r) "type") "route" = true ->
    snd (rel_result join ring_of o d r) = Some f ->
    route_geom_ok d r f = true.
  Proof.
    intros Hj Ht Hf. destruct (route_feature_geometry o d r f Ht Hf) as [_ [_ [Htaint Hg]]].
    unfold route_geom_ok. rewrite Hg, Htaint, eqb_reflx, andb_true_r.
    pose proof (Hj (flat_map rs_lines (map (route_step d) (r_members r)))) as H.
    rewrite route_lines_edges in H. exact H.
  Qed.
End Route.
