(* C17/ProofsPacked.v — the packed osm.FeatureID inside Convert: where it is harmless.

   The model goes through the packing regenerated from /repo (gen/GenIds.v) in two places:
   the keys of the membership map ([rel_summaries]) and the identity tail of buildPolygon
   ([mk_poly_feature]).  Property C10 proves the packing exact on refs in [0,2^40)
   (C10/Proofs.v: feature_id_pack, ref_pack, feature_type_pack).  Here:
     - reading the identity back is the identity on [0,2^40)            (unpack_fid)
     - the membership lookup is the exact (type, ref) lookup whenever no member entry packs
       to the FeatureID of a different element                           (rel_summaries_exact)
   and the class predicates of Spec.v ([poly_ids_ok], [key_clash]) in the form the other proof
   files use. *)
From Coq Require Import ZArith String List Bool Lia.
From Verif Require Import C17.Model C17.Spec.
From Verif Require C10.Model C10.Proofs.
From VerifGen Require GenIds.
Import ListNotations.
Open Scope Z_scope.

Definition kind_of (t : etype) : C10.Model.kind :=
  match t with
  | TNode => C10.Model.KNode | TWay => C10.Model.KWay | TRel => C10.Model.KRelation
  | TNone => C10.Model.KBounds
  end.

Lemma in40_range r : in40 r = true -> 0 <= r < C10.Model.two40.
Proof. unfold in40, C10.Model.two40. intros H. apply andb_prop in H. destruct H. lia. Qed.

Lemma fid_pack t r : t <> TNone -> in40 r = true -> fid t r = C10.Model.pack (kind_of t) r 0.
Proof.
  intros Ht Hr. apply in40_range in Hr.
  destruct t; try congruence; cbn [fid kind_of].
  - exact (C10.Proofs.feature_id_pack C10.Model.KNode r eq_refl Hr).
  - exact (C10.Proofs.feature_id_pack C10.Model.KWay r eq_refl Hr).
  - exact (C10.Proofs.feature_id_pack C10.Model.KRelation r eq_refl Hr).
Qed.

(* Type() and Ref() of the packed id of an element with an id in [0,2^40) are the element's *)
Lemma unpack_fid t r : t <> TNone -> in40 r = true -> unpack (fid t r) = (t, r).
Proof.
  intros Ht Hr. rewrite (fid_pack t r Ht Hr). apply in40_range in Hr.
  assert (Hin : C10.Model.in_range r 0) by (split; [exact Hr | unfold C10.Model.two16; lia]).
  unfold unpack. rewrite C10.Proofs.feature_ref_eq, (C10.Proofs.ref_pack _ _ _ Hin).
  assert (He : C10.Model.is_element (kind_of t) = true) by (destruct t; try congruence; reflexivity).
  rewrite (C10.Proofs.feature_type_pack _ _ _ He Hin).
  destruct t; try congruence; reflexivity.
Qed.

Lemma mk_poly_feature_exact o d t r ts tainted m g :
  t <> TNone -> in40 r = true ->
  mk_poly_feature o d t r ts tainted m g = mk_feature o d t r ts tainted m g.
Proof. intros Ht Hr. unfold mk_poly_feature. rewrite (unpack_fid t r Ht Hr). reflexivity. Qed.

(* ---- the membership map ---- *)
Lemma key_eqb_eq a b : key_eqb a b = true <-> a = b.
Proof.
  destruct a as [t r], b as [t' r']. unfold key_eqb. cbn [fst snd]. split.
  - intros H. apply andb_prop in H. destruct H as [Ht Hr]. apply Z.eqb_eq in Hr. subst.
    destruct t, t'; try discriminate; reflexivity.
  - intros H. inversion H. subst. rewrite Z.eqb_refl. destruct t'; reflexivity.
Qed.

Lemma key_clash_false d e r m :
  key_clash d = false -> In e (element_keys d) -> In r (relations d) -> In m (r_members r) ->
  (fid (m_type m) (m_ref m) =? fid (fst e) (snd e)) = key_eqb (m_type m, m_ref m) e.
Proof.
  intros Hc He Hr Hm.
  destruct (key_eqb (m_type m, m_ref m) e) eqn:Hk.
  - apply key_eqb_eq in Hk. subst e. cbn [fst snd]. apply Z.eqb_refl.
  - destruct (fid (m_type m) (m_ref m) =? fid (fst e) (snd e)) eqn:Hf; [|reflexivity].
    exfalso. unfold key_clash in Hc.
    assert (Ht : existsb (fun e0 => existsb (fun m0 => (fid (fst m0) (snd m0) =? fid (fst e0) (snd e0))
                                              && negb (key_eqb m0 e0)) (member_keys d)) (element_keys d) = true).
    { apply existsb_exists. exists e. split; [exact He|]. apply existsb_exists.
      exists (m_type m, m_ref m). split.
      - unfold member_keys. apply in_flat_map. exists r. split; [exact Hr|].
        apply in_map_iff. exists m. split; [reflexivity | exact Hm].
      - cbn [fst snd]. rewrite Hf, Hk. reflexivity. }
    rewrite Ht in Hc. discriminate.
Qed.

(* the exact lookup: summaries of the member entries that NAME the key *)
Definition rel_summaries_x (o : opts) (d : osm) (key : etype * Z) : list summary :=
  flat_map (fun r =>
    flat_map (fun m =>
      if member_counts o d m && etype_eqb (m_type m) (fst key) && (m_ref m =? snd key)
      then [{| s_id := r_id r; s_role := m_role m; s_tags := tags_map (r_tags r) |}]
      else []) (r_members r)) (relations d).

Lemma flat_map_ext_in {A B} (f g : A -> list B) l :
  (forall a, In a l -> f a = g a) -> flat_map f l = flat_map g l.
Proof.
  induction l as [|a l IH]; intros H; [reflexivity|]. cbn [flat_map].
  rewrite (H a (or_introl eq_refl)), IH; [reflexivity|]. intros b Hb. apply H. right. exact Hb.
Qed.

Lemma rel_summaries_exact o d e :
  key_clash d = false -> In e (element_keys d) -> rel_summaries o d e = rel_summaries_x o d e.
Proof.
  intros Hc He. unfold rel_summaries, rel_summaries_x.
  apply flat_map_ext_in. intros r Hr. apply flat_map_ext_in. intros m Hm.
  rewrite (key_clash_false d e r m Hc He Hr Hm). unfold key_eqb. cbn [fst snd].
  rewrite andb_assoc. reflexivity.
Qed.

(* ---- the class predicates, unfolded ---- *)
Lemma packed_ok_split d : packed_ok d = true -> poly_ids_ok d = true /\ key_clash d = false.
Proof.
  unfold packed_ok. intros H. apply andb_prop in H. destruct H as [H1 H2].
  split; [exact H1|]. destruct (key_clash d); [discriminate | reflexivity].
Qed.

Lemma node_key_in d n : In n (nodes d) -> In (TNode, n_id n) (element_keys d).
Proof. intros H. unfold element_keys. apply in_or_app. left. apply in_map_iff. exists n. split; [reflexivity|exact H]. Qed.
Lemma way_key_in d w : In w (ways d) -> In (TWay, w_id w) (element_keys d).
Proof.
  intros H. unfold element_keys. apply in_or_app. right. apply in_or_app. left.
  apply in_map_iff. exists w. split; [reflexivity|exact H].
Qed.
Lemma rel_key_in d r : In r (relations d) -> In (TRel, r_id r) (element_keys d).
Proof.
  intros H. unfold element_keys. apply in_or_app. right. apply in_or_app. right. apply in_or_app. left.
  apply in_map_iff. exists r. split; [reflexivity|exact H].
Qed.
Lemma outer_key_in d r m : In r (relations d) -> In m (r_members r) -> is_outer_way m = true ->
  In (TWay, m_ref m) (element_keys d).
Proof.
  intros H Hm Ho. unfold element_keys. apply in_or_app. right. apply in_or_app. right. apply in_or_app. right.
  apply in_flat_map. exists r. split; [exact H|]. apply in_map_iff. exists m. split; [reflexivity|].
  unfold outer_members. apply filter_In. split; assumption.
Qed.

Lemma poly_ids_ok_rel d r :
  poly_ids_ok d = true -> In r (relations d) -> is_mp r = true -> poly_in_range r = true.
Proof.
  unfold poly_ids_ok. intros H Hr Hm. rewrite forallb_forall in H. specialize (H r Hr).
  rewrite Hm in H. exact H.
Qed.

Lemma poly_in_range_outer r m :
  poly_in_range r = true -> In m (r_members r) -> is_outer_way m = true -> in40 (m_ref m) = true.
Proof.
  unfold poly_in_range. intros H Hm Ho. apply andb_prop in H. destruct H as [_ H].
  rewrite forallb_forall in H. apply H. unfold outer_members. apply filter_In. split; assumption.
Qed.
Lemma poly_in_range_id r : poly_in_range r = true -> in40 (r_id r) = true.
Proof. unfold poly_in_range. intros H. apply andb_prop in H. exact (proj1 H). Qed.
