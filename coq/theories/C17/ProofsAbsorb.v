(* C17/ProofsAbsorb.v — which ways get no feature of their own, and when a route relation yields
   a feature, characterised on the INPUT (C17/Spec.v [absorbed], [route_has_line]) and proved
   equal to what the model's relation pass computes (the skippable set; route_result). *)
From Coq Require Import ZArith String List Bool Lia.
From Verif Require Import C17.Model C17.Spec C17.Proofs C17.ProofsGeom C17.ProofsDup.
Import ListNotations.
Open Scope Z_scope.
Open Scope list_scope.

Arguments way_line : simpl never.
Arguments has_interesting : simpl never.

Ltac break_match :=
  repeat match goal with
         | |- context [match ?x with _ => _ end] => destruct x eqn:?
         end.

(* ---------- the spec-side coordinate of a way node is the model's ---------- *)
Lemma find_last_filter {A} (p : A -> bool) (l : list A) : find_last p l = hd_error (filter p (rev l)).
Proof.
  induction l as [|x l IH]; [reflexivity|]. cbn [find_last rev]. rewrite filter_app, IH.
  destruct (filter p (rev l)); cbn; [destruct (p x); reflexivity|reflexivity].
Qed.

Lemma resolve_spec d wn : resolve d wn = spec_resolve d wn.
Proof.
  unfold resolve, spec_resolve, node_lookup, spec_last_node. rewrite find_last_filter.
  destruct (wn_lon wn =? 0), (wn_lat wn =? 0); cbn; try reflexivity;
    destruct (hd_error _); reflexivity.
Qed.

(* ---------- routes ---------- *)
Lemma route_step_skips d m :
  rs_skips (route_step d m) =
  match m_type m with
  | TWay => match way_lookup d (m_ref m) with
            | Some w => if has_interesting (w_tags w) None then [] else [w_id w]
            | None => []
            end
  | _ => []
  end.
Proof. unfold route_step. break_match; reflexivity. Qed.

Lemma route_skips_absorbs d r id :
  In id (flat_map rs_skips (map (route_step d) (r_members r))) <-> route_absorbs d r id = true.
Proof.
  unfold route_absorbs. induction (r_members r) as [|m ms IH]; cbn [map flat_map existsb]; [split; [intros []|discriminate]|].
  rewrite in_app_iff, orb_true_iff, IH, route_step_skips.
  assert (Hno : forall P : Prop, (In id [] \/ P) <-> (false = true \/ P)) by (intros P; split; intros [H|H]; try tauto; try discriminate; destruct H).
  destruct (m_type m); cbn [etype_eqb andb]; try apply Hno.
  destruct (way_lookup d (m_ref m)) as [w|] eqn:Hl; [|rewrite andb_false_r; apply Hno].
  pose proof (proj2 (way_lookup_some _ _ _ Hl)) as Hid.
  destruct (has_interesting (w_tags w) None); cbn [negb]; [rewrite andb_false_r; apply Hno|].
  rewrite andb_true_r, Hid. cbn [In]. split.
  - intros [[H|[]]|H]; [left; apply Z.eqb_eq; exact H|right; exact H].
  - intros [H|H]; [left; left; apply Z.eqb_eq; exact H|right; exact H].
Qed.

Lemma route_result_fst join o d r :
  fst (route_result join o d r) = flat_map rs_skips (map (route_step d) (r_members r)).
Proof. unfold route_result. break_match; reflexivity. Qed.

(* a route relation yields a feature iff one of its member ways is in the data and has a
   resolvable coordinate *)
Lemma route_step_lines d m :
  is_nil (rs_lines (route_step d m)) =
  negb (etype_eqb (m_type m) TWay &&
        match way_lookup d (m_ref m) with
        | Some w => negb (is_nil (omap (resolve d) (w_nodes w)))
        | None => false
        end).
Proof.
  unfold route_step, way_line. destruct (m_type m); try reflexivity. cbn [etype_eqb andb].
  destruct (way_lookup d (m_ref m)) as [w|]; [|reflexivity]. cbn [rs_lines].
  destruct (omap (resolve d) (w_nodes w)); reflexivity.
Qed.

Theorem route_feature_exists join o d r :
  is_some (snd (route_result join o d r)) = route_has_line d r.
Proof.
  unfold route_result, route_has_line.
  assert (H : is_nil (flat_map rs_lines (map (route_step d) (r_members r))) =
              negb (existsb (fun m => etype_eqb (m_type m) TWay &&
                                      match way_lookup d (m_ref m) with
                                      | Some w => negb (is_nil (omap (resolve d) (w_nodes w)))
                                      | None => false
                                      end) (r_members r))).
  { induction (r_members r) as [|m ms IH]; [reflexivity|]. cbn [map flat_map existsb].
    rewrite negb_orb, <- IH, <- route_step_lines.
    destruct (rs_lines (route_step d m)); reflexivity. }
  destruct (flat_map rs_lines (map (route_step d) (r_members r))) eqn:E; cbn [is_nil] in H; cbn [snd is_some].
  - symmetry. apply negb_true_iff. symmetry. exact H.
  - symmetry. apply negb_false_iff. symmetry. exact H.
Qed.

(* ---------- multipolygons ---------- *)
Lemma poly_step_skips d rt m :
  ps_skips (poly_step d rt m) =
  match m_type m with
  | TWay =>
      if String.eqb (m_role m) "outer" || String.eqb (m_role m) "inner" then
        match member_way d m with
        | Some w => if has_interesting (w_tags w) (if String.eqb (m_role m) "outer" then Some rt else None)
                    then [] else [w_id w]
        | None => []
        end
      else []
  | _ => []
  end.
Proof. unfold poly_step, member_way. break_match; try reflexivity; cbn in *; try discriminate; try congruence. Qed.

Lemma member_way_id d m w : member_way d m = Some w -> w_id w = m_ref m.
Proof. unfold member_way. apply member_way_id. Qed.

Lemma poly_skips_absorbs d r id :
  In id (flat_map ps_skips (map (poly_step d (r_tags r)) (r_members r))) <->
  existsb (fun m => etype_eqb (m_type m) TWay && (m_ref m =? id) &&
                    (String.eqb (m_role m) "outer" || String.eqb (m_role m) "inner") &&
                    match member_way d m with
                    | Some w => negb (has_interesting (w_tags w)
                                        (if String.eqb (m_role m) "outer" then Some (r_tags r) else None))
                    | None => false
                    end) (r_members r) = true.
Proof.
  induction (r_members r) as [|m ms IH]; cbn [map flat_map existsb]; [split; [intros []|discriminate]|].
  rewrite in_app_iff, orb_true_iff, IH, poly_step_skips.
  assert (Hno : forall P : Prop, (In id [] \/ P) <-> (false = true \/ P)) by (intros P; split; intros [H|H]; try tauto; try discriminate; destruct H).
  destruct (m_type m); cbn [etype_eqb andb]; try apply Hno.
  destruct (String.eqb (m_role m) "outer" || String.eqb (m_role m) "inner"); [|rewrite andb_false_r; apply Hno].
  rewrite andb_true_r.
  destruct (member_way d m) as [w|] eqn:Hw; [|rewrite andb_false_r; apply Hno].
  rewrite (member_way_id d m w Hw).
  destruct (has_interesting (w_tags w) _); cbn [negb]; [rewrite andb_false_r; apply Hno|].
  rewrite andb_true_r. cbn [In]. split.
  - intros [[H|[]]|H]; [left; apply Z.eqb_eq; exact H|right; exact H].
  - intros [H|H]; [left; left; apply Z.eqb_eq; exact H|right; exact H].
Qed.

Section Absorb.
  Variable join : list seg -> list (list seg).
  Variable ring_of : Z -> list seg -> list pt.
  Hypothesis Hring : ring_single ring_of.
  Notation rel_result := (rel_result join ring_of).
  Notation poly_result := (poly_result join ring_of).
  Notation skippable := (skippable join ring_of).

  (* what buildPolygon adds to ctx.skippable does not depend on the identity tail *)
  Lemma poly_result_fst_mk mk o d r :
    fst (poly_result_with join ring_of mk o d r) = fst (poly_result_with join ring_of mk_feature o d r).
  Proof. unfold Model.poly_result_with. break_match; reflexivity. Qed.

  Lemma poly_result_fst o d r :
    fst (poly_result o d r) =
    flat_map ps_skips (map (poly_step d (r_tags r)) (r_members r))
    ++ way_keys (olist (snd (poly_result_with join ring_of mk_feature o d r))).
  Proof.
    unfold Model.poly_result. rewrite poly_result_fst_mk.
    unfold Model.poly_result_with. break_match; cbn; rewrite ?app_nil_r; reflexivity.
  Qed.

  Lemma rel_result_absorbs o d r id : In id (fst (rel_result o d r)) <-> rel_absorbs d r id = true.
  Proof.
    unfold rel_absorbs, is_route. unfold Model.rel_result in *.
    destruct (String.eqb (tag_find (r_tags r) "type") "route") eqn:Hroute.
    - rewrite route_result_fst. apply route_skips_absorbs.
    - unfold is_mp. rewrite Hroute. cbn [negb andb].
      destruct (String.eqb _ "multipolygon" || String.eqb _ "boundary") eqn:Hm.
      + assert (Hmp : is_mp r = true) by (unfold is_mp; rewrite Hroute, Hm; reflexivity).
        rewrite poly_result_fst, (poly_x_adopts join ring_of Hring o d r Hmp), in_app_iff.
        unfold mp_absorbs. rewrite orb_true_iff, poly_skips_absorbs.
        rewrite <- memZ_In. reflexivity.
      + cbn. split; [tauto|discriminate].
  Qed.

  (* the skippable set of the way pass is exactly the set of absorbed ways *)
  Theorem skippable_absorbed o d id : memZ id (skippable o d) = absorbed d id.
  Proof.
    apply eq_true_iff_eq. rewrite memZ_In. unfold Model.skippable, absorbed.
    rewrite in_flat_map, existsb_exists. split.
    - intros [r [Hr Hin]]. exists r. split; [exact Hr|apply rel_result_absorbs with (o := o); exact Hin].
    - intros [r [Hr Hab]]. exists r. split; [exact Hr|apply rel_result_absorbs; exact Hab].
  Qed.

  (* way geometry, with the input-level condition *)
  Theorem way_geometry_input o d w :
    In w (ways d) -> absorbed d (w_id w) = false ->
    (2 <= List.length (spec_coords d w))%nat ->
    exists f, In f (convert join ring_of o d) /\ fkey f = (TWay, w_id w) /\
              f_tainted f = unresolved d w /\ f_tags f = tags_map (w_tags w) /\
              way_geometry_spec w (spec_coords d w) (f_geom f).
  Proof. intros Hw Ha Hl. apply way_geometry; try assumption. rewrite skippable_absorbed. exact Ha. Qed.

  (* and an absorbed way has no feature from the way pass *)
  Theorem absorbed_no_way_feature o d f :
    In f (way_features join ring_of o d) -> absorbed d (f_ref f) = false.
  Proof.
    intros Hf. destruct (way_pass_feature _ _ _ _ _ Hf) as [w [_ [Hs [_ [Hk _]]]]].
    unfold fkey in Hk. injection Hk as _ Hk. rewrite Hk, <- (skippable_absorbed o). exact Hs.
  Qed.

  (* route features exist exactly when a member line exists *)
  Theorem route_relation_feature o d r :
    is_route r = true -> is_some (snd (rel_result o d r)) = route_has_line d r.
  Proof. intros H. unfold is_route in H. unfold Model.rel_result. rewrite H. apply route_feature_exists. Qed.
End Absorb.
