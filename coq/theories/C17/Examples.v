(* C17/Examples.v — concrete data sets used as non-vacuity witnesses and as the refutation
   witness of the unconditional at-most-one-feature claim (same data as the harness corpus). *)
From Coq Require Import ZArith String List Bool.
From Verif Require Import C17.Model C17.Mputil C17.Spec.
Import ListNotations.
Open Scope string_scope.
Open Scope Z_scope.
Open Scope list_scope.

Definition o0 : opts := {| noID := false; noMeta := false; noRelM := false; inclInvalid := false |}.
Definition meta1 : meta := {| mt_ts := None; mt_version := 1; mt_changeset := 0; mt_user := ""; mt_uid := 0 |}.
Definition nd (i x y : Z) : node := {| n_id := i; n_lon := x; n_lat := y; n_tags := []; n_meta := meta1 |}.
(* [area] documents what Way.Polygon() answers for the way; Properties/C17 checks it *)
Definition wy (i : Z) (ts : tags) (area : bool) (ids : list Z) : way :=
  {| w_id := i; w_nodes := map (fun j => {| wn_id := j; wn_lon := 0; wn_lat := 0 |}) ids;
     w_tags := ts; w_meta := meta1 |}.
Definition mw (ref : Z) (role : string) : member :=
  {| m_type := TWay; m_ref := ref; m_role := role; m_orient := 0; m_nodes := [] |}.
Definition mn (ref : Z) (role : string) : member :=
  {| m_type := TNode; m_ref := ref; m_role := role; m_orient := 0; m_nodes := [] |}.

(* harness corpus sharedOuter(): two old-style multipolygons over the same outer way 10 *)
Definition d_shared : osm :=
  {| nodes := [nd 1 10 10; nd 2 20 10; nd 3 20 20; nd 4 10 20; nd 5 12 12; nd 6 14 12; nd 7 14 14;
               nd 8 12 14; nd 9 16 16; nd 10 18 16; nd 11 18 18; nd 12 16 18];
     ways := [wy 10 [("building", "yes")] true [1; 2; 3; 4; 1]; wy 11 [] false [5; 6; 7; 8; 5];
              wy 12 [] false [9; 10; 11; 12; 9]];
     relations := [ {| r_id := 1; r_members := [mw 10 "outer"; mw 11 "inner"];
                       r_tags := [("type", "multipolygon")]; r_meta := meta0 |};
                    {| r_id := 2; r_members := [mw 10 "outer"; mw 12 "inner"];
                       r_tags := [("type", "multipolygon")]; r_meta := meta0 |} ] |}.

(* a data set with every feature class: a route over ways 11 and 12 (12 has a missing node and
   only an uninteresting tag), a tagged multipolygon with a hole, an area way, a plain way,
   tagged / untagged / way-member / relation-member nodes *)
Definition d_rich : osm :=
  {| nodes := [nd 1 10 10;
               {| n_id := 2; n_lon := 20; n_lat := 10; n_tags := [("barrier", "wall")]; n_meta := meta1 |};
               nd 3 20 20; nd 4 10 20; nd 5 30 10; nd 6 32 11; nd 7 35 10;
               {| n_id := 8; n_lon := 50; n_lat := 50; n_tags := [("amenity", "cafe"); ("source", "survey")];
                  n_meta := {| mt_ts := Some 1300000100; mt_version := 1; mt_changeset := 123;
                               mt_user := "bob"; mt_uid := 9 |} |};
               nd 9 12 12; nd 13 14 12; nd 14 14 14;
               {| n_id := 15; n_lon := 0; n_lat := 0; n_tags := [("name", "A")]; n_meta := meta0 |}];
     ways := [wy 10 [("building", "yes"); ("source", "x")] true [1; 2; 3; 4; 1];
              wy 11 [("highway", "residential")] false [5; 6];
              wy 12 [("created_by", "x")] false [6; 7; 901];
              wy 13 [("natural", "water")] true [9; 13; 14; 9];
              wy 14 [] false [3; 8]];
     relations := [ {| r_id := 1; r_members := [mw 12 "forward"; mw 11 ""; mn 5 "stop"];
                       r_tags := [("type", "route"); ("route", "bus")];
                       r_meta := {| mt_ts := None; mt_version := 3; mt_changeset := 0; mt_user := "alice"; mt_uid := 0 |} |};
                    {| r_id := 2; r_members := [mw 10 "outer"; mw 13 "inner"];
                       r_tags := [("type", "multipolygon"); ("landuse", "forest")]; r_meta := meta0 |} ] |}.

(* the scene of Properties/C16.v (ex8): a square cut into two outer ways (one annotated with
   coordinates and orientation), a triangular hole, a node member and a way with another role *)
Definition d_ex8 : osm :=
  {| nodes := [nd 1 1 1; nd 2 9 1; nd 3 9 9; nd 4 1 9; nd 5 3 3; nd 6 3 5; nd 7 5 5];
     ways := [ {| w_id := 11; w_nodes := [ {| wn_id := 3; wn_lon := 9; wn_lat := 9 |};
                                           {| wn_id := 2; wn_lon := 9; wn_lat := 1 |};
                                           {| wn_id := 1; wn_lon := 1; wn_lat := 1 |} ];
                  w_tags := []; w_meta := meta1 |};
               wy 12 [] false [3; 4; 1]; wy 13 [] false [5; 6; 7; 5]; wy 14 [] false [1; 5] ];
     relations := [ {| r_id := 1;
                       r_members := [ {| m_type := TWay; m_ref := 13; m_role := "inner"; m_orient := -1; m_nodes := [] |};
                                      mn 1 "outer"; mw 12 "outer"; mw 14 "label";
                                      {| m_type := TWay; m_ref := 11; m_role := "outer"; m_orient := -1; m_nodes := [] |} ];
                       r_tags := [("type", "multipolygon"); ("natural", "water")]; r_meta := meta0 |} ] |}.
Definition r_ex8 : relation := hd {| r_id := 0; r_members := []; r_tags := []; r_meta := meta0 |} (relations d_ex8).

(* IncludeInvalidPolygons and the holes of VALID polygons: a valid outer square (way 1), an
   unclosed outer (way 2: three sides of a bigger square, listed after way 1, so Join emits it
   first) and a hole (way 3) that ray casting finds inside both.  Without the option the unclosed
   ring is dropped and the hole belongs to the square; with it the unclosed ring comes first and
   claims the hole. *)
Definition d_hole : osm :=
  {| nodes := [nd 1 10 10; nd 2 20 10; nd 3 20 20; nd 4 10 20; nd 5 5 5; nd 6 25 5; nd 7 25 25; nd 8 5 25;
               nd 9 13 13; nd 10 16 13; nd 11 16 16; nd 12 13 16];
     ways := [wy 1 [] false [1; 2; 3; 4; 1]; wy 2 [] false [5; 6; 7; 8]; wy 3 [] false [9; 10; 11; 12; 9]];
     relations := [ {| r_id := 1; r_members := [mw 1 "outer"; mw 2 "outer"; mw 3 "inner"];
                       r_tags := [("type", "multipolygon"); ("natural", "water")]; r_meta := meta0 |} ] |}.
Definition r_hole : relation := hd {| r_id := 0; r_members := []; r_tags := []; r_meta := meta0 |} (relations d_hole).

(* harness corpus polyNegativeID(): a tagged multipolygon relation with id -1 (an editor object
   that is not uploaded yet) over the closed way 10.  buildPolygon reads type and ref back out of
   the packed FeatureID: type "", id 2^40-1. *)
Definition d_polyneg : osm :=
  {| nodes := [nd 1 1 1; nd 2 5 1; nd 3 5 5; nd 4 1 5];
     ways := [wy 10 [] false [1; 2; 3; 4; 1]];
     relations := [ {| r_id := -1; r_members := [mw 10 "outer"];
                       r_tags := [("type", "multipolygon"); ("natural", "water")]; r_meta := meta0 |} ] |}.

(* harness corpus keyClash(): way -1 is a member of route relation 5; node -1, an untagged node of
   that way, is not a member of anything — but NodeID(-1).FeatureID() = WayID(-1).FeatureID() *)
Definition d_clash : osm :=
  {| nodes := [nd 1 1 1; nd 2 5 1; nd (-1) 9 9];
     ways := [wy (-1) [] false [1; 2; -1]];
     relations := [ {| r_id := 5; r_members := [mw (-1) "forward"];
                       r_tags := [("type", "route")]; r_meta := meta0 |} ] |}.
