(* C17/ProofsIncl.v — IncludeInvalidPolygons conserves rings: every ring (outer or inner, counted
   with multiplicity) of a relation feature's geometry without the option is still present in
   the geometry with the option.  Together with ProofsOpts.v (same key, tags, meta, memberships,
   tainted; ways, nodes and the skippable set untouched) this is "the option only adds". *)
From Coq Require Import ZArith String List Bool Lia.
From Verif Require Import C17.Model C17.Spec C17.Proofs C17.ProofsOpts.
Import ListNotations.
Open Scope Z_scope.
Open Scope list_scope.

Arguments way_line : simpl never.
Arguments has_interesting : simpl never.

Definition R (mp : list poly) : list (list pt) := concat (map poly_rings mp).

Lemma cr_app r a b : count_ring r (a ++ b) = (count_ring r a + count_ring r b)%nat.
Proof. unfold count_ring. rewrite filter_app, app_length. reflexivity. Qed.

Lemma R_cons p mp : R (p :: mp) = poly_rings p ++ R mp.
Proof. reflexivity. Qed.
Lemma R_app a b : R (a ++ b) = R a ++ R b.
Proof. unfold R. rewrite map_app, concat_app. reflexivity. Qed.
Lemma poly_rings_add p ring : poly_rings (poly_add p ring) = poly_rings p ++ [ring].
Proof. reflexivity. Qed.

Lemma add_first_count r pred ring mp mp' :
  add_first pred ring mp = Some mp' ->
  count_ring r (R mp') = (count_ring r (R mp) + count_ring r [ring])%nat.
Proof.
  revert mp'. induction mp as [|p mp IH]; intros mp'; cbn [add_first]; [discriminate|].
  destruct (pred p).
  - intros H. injection H as <-. rewrite !R_cons, poly_rings_add, !cr_app. lia.
  - destruct (add_first pred ring mp) as [r'|]; [|discriminate].
    intros H. injection H as <-. rewrite !R_cons, !cr_app, (IH r' eq_refl). lia.
Qed.

Lemma add_to_mp_false_count r mp ring :
  (count_ring r (R (add_to_mp mp ring false)) <= count_ring r (R mp) + count_ring r [ring])%nat.
Proof.
  unfold add_to_mp.
  destruct (add_first (fun p => polygon_contains (fst p) ring) ring mp) as [mp'|] eqn:H1.
  - rewrite (add_first_count r _ _ _ _ H1). lia.
  - cbn [negb]. lia.
Qed.

Lemma add_to_mp_true_count r mp ring :
  (count_ring r (R mp) + count_ring r [ring] <= count_ring r (R (add_to_mp mp ring true)))%nat.
Proof.
  unfold add_to_mp.
  destruct (add_first (fun p => polygon_contains (fst p) ring) ring mp) as [mp'|] eqn:H1.
  { rewrite (add_first_count r _ _ _ _ H1). lia. }
  cbn [negb].
  destruct mp as [|p0 r0].
  { change (R [([], [ring])]) with ([[]] ++ [ring]). rewrite cr_app. change (count_ring r (R [])) with 0%nat. lia. }
  destruct (negb (is_nil (fst p0)) && negb (ring_closed (fst p0))).
  { rewrite !R_cons, poly_rings_add, !cr_app. lia. }
  destruct (add_first (fun p => is_nil (fst p)) ring (p0 :: r0)) as [mp'|] eqn:H2.
  { rewrite (add_first_count r _ _ _ _ H2). lia. }
  rewrite R_app. change (R [([], [ring])]) with ([[]] ++ [ring]). rewrite !cr_app. lia.
Qed.

Section InclRings.
  Variable join : list seg -> list (list seg).
  Variable ring_of : Z -> list seg -> list pt.
  Notation poly_result := (poly_result join ring_of).
  Notation rel_result := (rel_result join ring_of).

  Lemma fold_false_count r (l : list (list seg)) : forall mp,
    (count_ring r (R (fold_left (fun mp s => add_to_mp mp (ring_of (-1) s) false) l mp))
     <= count_ring r (R mp) + count_ring r (map (ring_of (-1)) l))%nat.
  Proof.
    induction l as [|s l IH]; intros mp; cbn [fold_left map]; [cbn; lia|].
    eapply Nat.le_trans; [apply IH|].
    pose proof (add_to_mp_false_count r mp (ring_of (-1) s)) as H.
    change (ring_of (-1) s :: map (ring_of (-1)) l) with ([ring_of (-1) s] ++ map (ring_of (-1)) l).
    rewrite cr_app. lia.
  Qed.

  Lemma fold_true_count r (l : list (list seg)) : forall mp,
    (count_ring r (R mp) + count_ring r (map (ring_of (-1)) l)
     <= count_ring r (R (fold_left (fun mp s => add_to_mp mp (ring_of (-1) s) true) l mp)))%nat.
  Proof.
    induction l as [|s l IH]; intros mp; cbn [fold_left map]; [cbn; lia|].
    eapply Nat.le_trans; [|apply IH].
    pose proof (add_to_mp_true_count r mp (ring_of (-1) s)) as H.
    change (ring_of (-1) s :: map (ring_of (-1)) l) with ([ring_of (-1) s] ++ map (ring_of (-1)) l).
    rewrite cr_app. lia.
  Qed.

  Lemma outer_polys_count r outer :
    (count_ring r (R (outer_polys join ring_of false outer)) <= count_ring r (R (outer_polys join ring_of true outer)))%nat.
  Proof.
    unfold outer_polys. induction (join outer) as [|s l IH]; cbn [flat_map]; [apply Nat.le_refl|].
    rewrite !R_app, !cr_app. cbn [negb andb] in *.
    destruct (ring_invalid (ring_of 1 s)); cbn [R map concat count_ring filter List.length app] in *; lia.
  Qed.

  Lemma mp_geom_rings mp g : mp_geom mp = Some g -> geom_rings g = R mp.
  Proof.
    destruct mp as [|p [|q mp]]; cbn [mp_geom]; [discriminate| |]; intros H; injection H as <-.
    - cbn [geom_rings R map concat]. rewrite app_nil_r. reflexivity.
    - reflexivity.
  Qed.

  Lemma rings_sub_of_counts a b :
    (forall r, (count_ring r a <= count_ring r b)%nat) -> rings_sub a b = true.
  Proof. intros H. unfold rings_sub. apply forallb_forall. intros r _. apply Nat.leb_le. apply H. Qed.

  Lemma multi_core outer inner g0 :
    mp_geom (add_inners join ring_of false (outer_polys join ring_of false outer) inner) = Some g0 ->
    forall g, mp_geom (add_inners join ring_of true (outer_polys join ring_of true outer) inner) = Some g ->
    rings_sub (geom_rings g0) (geom_rings g) = true.
  Proof.
    intros H0 g H1. rewrite (mp_geom_rings _ _ H0), (mp_geom_rings _ _ H1).
    apply rings_sub_of_counts. intros r. unfold add_inners.
    eapply Nat.le_trans; [apply fold_false_count|].
    eapply Nat.le_trans; [|apply fold_true_count].
    pose proof (outer_polys_count r outer). lia.
  Qed.

  Lemma rings_sub_refl a : rings_sub a a = true.
  Proof. apply rings_sub_of_counts. intros r. apply Nat.le_refl. Qed.

  (* the statement of ProofsOpts.rel_result_incl with ring conservation as conclusion *)
  Theorem rel_result_incl_rings o d r f :
    snd (rel_result (set_incl false o) d r) = Some f ->
    exists g, snd (rel_result (set_incl true o) d r) = Some (with_geom f g) /\
              rings_sub (geom_rings (f_geom f)) (geom_rings g) = true.
  Proof.
    intros Hf. destruct (rel_result_incl join ring_of o d r) as [_ [_ H3]].
    destruct (H3 f Hf) as [g [Hg Hor]]. exists g. split; [exact Hg|].
    destruct Hor as [->|_]; [apply rings_sub_refl|].
    (* a changed geometry arises only in the multi-outer branch of buildPolygon *)
    revert Hf Hg. unfold Model.rel_result.
    destruct (String.eqb (tag_find (r_tags r) "type") "route").
    { change (route_result join (set_incl true o) d r) with (route_result join (set_incl false o) d r).
      intros Hf Hg. rewrite Hf in Hg. injection Hg as Hg. rewrite Hg at 1. destruct f; cbn. apply rings_sub_refl. }
    destruct (_ || _); [|discriminate].
    unfold Model.poly_result, Model.poly_result_with. cbn [inclInvalid set_incl negb].
    set (steps := map (poly_step d (r_tags r)) (r_members r)).
    rewrite !andb_false_r, !andb_true_r.
    destruct (flat_map ps_outer steps) as [|[s w] rest] eqn:Houter; cbn [is_nil]; [discriminate|].
    assert (Hgen : forall outer,
      snd (let mp0 := outer_polys join ring_of false outer in
           if is_nil mp0 && true then (flat_map ps_skips steps, None)
           else match mp_geom (add_inners join ring_of false mp0 (flat_map ps_inner steps)) with
                | Some g => (flat_map ps_skips steps, Some (mk_poly_feature (set_incl false o) d TRel (r_id r) (r_tags r) (existsb ps_taint steps) (r_meta r) g))
                | None => (flat_map ps_skips steps, None)
                end) = Some f ->
      snd (let mp0 := outer_polys join ring_of true outer in
           if is_nil mp0 && false then (flat_map ps_skips steps, None)
           else match mp_geom (add_inners join ring_of true mp0 (flat_map ps_inner steps)) with
                | Some g => (flat_map ps_skips steps, Some (mk_poly_feature (set_incl true o) d TRel (r_id r) (r_tags r) (existsb ps_taint steps) (r_meta r) g))
                | None => (flat_map ps_skips steps, None)
                end) = Some (with_geom f g) ->
      rings_sub (geom_rings (f_geom f)) (geom_rings g) = true).
    { intros outer. cbn zeta. rewrite andb_false_r, andb_true_r.
      destruct (is_nil (outer_polys join ring_of false outer)); [discriminate|].
      destruct (mp_geom (add_inners join ring_of false _ _)) as [g0|] eqn:Hg0; [|discriminate].
      destruct (mp_geom (add_inners join ring_of true _ _)) as [g1|] eqn:Hg1; [|discriminate].
      cbn [snd]. intros H1 H2. injection H1 as <-. injection H2 as H2.
      cbn [f_geom mk_feature mk_poly_feature with_geom] in *. rewrite <- H2.
      exact (multi_core outer _ g0 Hg0 g1 Hg1). }
    destruct rest as [|p rest].
    - destruct (fold_right Z.add 0 (map ps_cnt steps) =? 1).
      + (* old-style branch: the option is not consulted *)
        destruct (ring_invalid _); [discriminate|].
        destruct (has_interesting _ _); cbn [snd]; intros Hf Hg; injection Hf as <-; injection Hg as Hg;
          cbn [f_geom mk_feature mk_poly_feature with_geom] in *; rewrite <- Hg; apply rings_sub_refl.
      + intros Hf Hg. apply (Hgen (map fst [(s, w)]));
          [cbn zeta; rewrite ?andb_true_r; exact Hf|cbn zeta; rewrite ?andb_false_r; exact Hg].
    - intros Hf Hg. apply (Hgen (map fst ((s, w) :: p :: rest)));
        [cbn zeta; rewrite ?andb_true_r; exact Hf|cbn zeta; rewrite ?andb_false_r; exact Hg].
  Qed.
End InclRings.
