(* C17/GenOkFlow.v — tie by translation for the control flow of osmgeojson, semantic version.

   gen/GenFlow.v (translator/cmd/convertflow, re-run on every check) lists, for every modelled
   function, the events of a path-sensitive symbolic execution with their path conditions, in a
   normal form (struct-typed identifiers named by type, single-assignment locals and helper
   functions inlined, switch = if-chain, string building normalised, x = x || e read as
   if e { x = true }, tags.AnyInteresting() read as hasInterestingTags(tags, nil), a call of an
   unexported helper that only returns an expression read as that expression — so a set type's
   s.has(id) is has(s[id]) and s.add(id) the map write —, conversions between bool types dropped,
   option closures read through method values, ...).  The
   remaining locals and parameters are named by their type and their declaration order within
   the function — "orb.LineString#0" is the first orb.LineString variable of the function (ls in
   wayToLineString), "bool#0" the first bool (tainted), "bool#1" the second (t) — so renaming a
   variable changes nothing here.  Each obligation here
   takes the DISJUNCTION of the path conditions of one event (pc_of: scope, kind, text) and shows
   that it evaluates — for ALL values of its leaves — to the boolean the model hard-codes for
   that decision.  The proofs compute the formula from the generated data and then go through
   the truth table of its atoms, so they do not depend on how the source arranges the branches
   (nested ifs, early continue/return, switch, extracted helpers, moved functions): only a change
   of the decision itself breaks them.  The [*_model] lemmas state what the leaves are in the
   model (they are the definitions of C17/Model.v, unfolded). *)
From Coq Require Import ZArith String List Bool Lia.
From Verif Require Import C17.CondAst C17.Model.
From VerifGen Require Import GenFlow.
Import ListNotations.
Open Scope string_scope.
Open Scope Z_scope.

Ltac eval_pc :=
  repeat match goal with
         | |- context [pc_of ?e ?s ?k ?t] =>
             let c := eval vm_compute in (pc_of e s k t) in change (pc_of e s k t) with c
         | |- context [pc_of_val ?e ?s ?k ?t ?v] =>
             let c := eval vm_compute in (pc_of_val e s k t v) in change (pc_of_val e s k t v) with c
         end.
Ltac gen_atoms :=
  repeat match goal with
         | |- context [String.eqb ?a ?b] => generalize (String.eqb a b); intro
         | |- context [Z.eqb ?a ?b] => generalize (Z.eqb a b); intro
         | |- context [Z.ltb ?a ?b] => generalize (Z.ltb a b); intro
         | |- context [Z.leb ?a ?b] => generalize (Z.leb a b); intro
         | |- context [Z.gtb ?a ?b] => generalize (Z.gtb a b); intro
         | |- context [Z.geb ?a ?b] => generalize (Z.geb a b); intro
         end.
Ltac all_bools := repeat match goal with b : bool |- _ => destruct b end.
Ltac truth_table := eval_pc; cbn; gen_atoms; all_bools; reflexivity.

Definition type_str (t : etype) : string :=
  match t with TNode => "node" | TWay => "way" | TRel => "relation" | TNone => "" end.
Lemma is_nil_len {A} (l : list A) : is_nil l = (Z.of_nat (List.length l) =? 0).
Proof. destruct l; reflexivity. Qed.

(* ================= Convert ================= *)
(* the membership map: which member entries are skipped *)
Lemma membership_skip_flow (r h : bool) (ty : string) :
  ceval (env_of [("context.noRelationMembership", VB r); ("Member.Type", VS ty);
                 ("has(context.wayMap[Member.Ref])", VB h)])
        (pc_of events_Convert "osm.Relations/osm.Members" "continue" "")
  = VB ((r && negb (String.eqb ty "node")) || (String.eqb ty "way" && negb h)).
Proof. truth_table. Qed.
Lemma membership_skip_model o d m :
  member_counts o d m =
  negb ((noRelM o && negb (String.eqb (type_str (m_type m)) "node"))
        || (String.eqb (type_str (m_type m)) "way" && negb (is_some (way_lookup d (m_ref m))))).
Proof. unfold member_counts. destruct (m_type m), (noRelM o), (is_some (way_lookup d (m_ref m))); reflexivity. Qed.

(* the node pass: which nodes are skipped *)
Lemma node_skip_flow (wm hi : bool) (nrels : Z) :
  ceval (env_of [("has(context.wayMember[Node.ID])", VB wm);
                 ("len(context.relationMember[Node.FeatureID()])", VZ nrels);
                 ("hasInterestingTags(Node.Tags, nil)", VB hi)])
        (pc_of events_Convert "osm.Nodes" "continue" "")
  = VB (wm && (nrels =? 0) && negb hi).
Proof. truth_table. Qed.
Lemma node_skip_model o d n :
  node_emitted o d n =
  negb (way_member d (n_id n) && (Z.of_nat (List.length (rel_summaries o d (TNode, n_id n))) =? 0)
        && negb (has_interesting (n_tags n) None)).
Proof. unfold node_emitted. rewrite is_nil_len. reflexivity. Qed.

(* dispatch on the relation type; the skippable test of the way pass *)
Lemma dispatch_flow (tt : string) :
  let env := env_of [("Relation.Tags.Find(""type"")", VS tt)] in
  ceval env (pc_of events_Convert "osm.Relations" "call" "context.buildRouteLineString(Relation)")
  = VB (String.eqb tt "route") /\
  ceval env (pc_of events_Convert "osm.Relations" "call" "context.buildPolygon(Relation)")
  = VB (negb (String.eqb tt "route") && (String.eqb tt "multipolygon" || String.eqb tt "boundary")).
Proof. split; truth_table. Qed.
Lemma dispatch_model join ring_of o d r :
  rel_result join ring_of o d r =
  let tt := tag_find (r_tags r) "type" in
  if String.eqb tt "route" then route_result join o d r
  else if String.eqb tt "multipolygon" || String.eqb tt "boundary" then poly_result join ring_of o d r
  else ([], None).
Proof. reflexivity. Qed.

Lemma way_pass_flow (skip : bool) :
  let env := env_of [("has(context.skippable[Way.ID])", VB skip)] in
  ceval env (pc_of events_Convert "osm.Ways" "continue" "") = VB skip /\
  ceval env (pc_of events_Convert "osm.Ways" "call" "context.wayToFeature(Way)") = VB (negb skip).
Proof. split; truth_table. Qed.

(* ================= nodeToFeature ================= *)
Lemma node_feature_flow (lon lat ver : Z) (noid : bool) :
  let env := env_of [("Node.Lon", VZ lon); ("Node.Lat", VZ lat); ("Node.Version", VZ ver); ("context.noID", VB noid)] in
  ceval env (pc_of events_context_nodeToFeature "" "return" "nil")
  = VB ((lon =? 0) && (lat =? 0) && (ver =? 0)) /\
  ceval env (pc_of_val events_context_nodeToFeature "" "assign" "Feature.ID" """node/"" ++ dec(Node.ID)")
  = VB (negb ((lon =? 0) && (lat =? 0) && (ver =? 0)) && negb noid) /\
  ceval env (pc_of events_context_nodeToFeature "" "assign" "Feature.ID")
  = VB (negb ((lon =? 0) && (lat =? 0) && (ver =? 0)) && negb noid) /\
  ceval env (pc_of_val events_context_nodeToFeature "" "assign" "Feature.Properties[""type""]" """node""")
  = VB (negb ((lon =? 0) && (lat =? 0) && (ver =? 0))).
Proof. repeat split; truth_table. Qed.
Lemma node_feature_model n :
  node_located n = negb ((n_lon n =? 0) && (n_lat n =? 0) && (mt_version (n_meta n) =? 0)).
Proof. reflexivity. Qed.

(* ================= wayToLineString ================= *)
Definition is_prefix (p s : string) : bool := String.eqb p (String.substring 0 (String.length p) s).
Definition vals_of (evs : list event) (text : string) : list string :=
  map ev_val (filter (fun e => String.eqb (ev_kind e) "assign" && String.eqb (ev_text e) text) evs).

Lemma way_line_flow (lon lat : Z) (nonode : bool) :
  let env := env_of [("WayNode.Lon", VZ lon); ("WayNode.Lat", VZ lat); ("Node", VNil nonode)] in
  ceval env (pc_of events_context_wayToLineString "osm.WayNodes" "call" "append(orb.LineString#0, orb.Point{WayNode.Lon, WayNode.Lat})")
  = VB (negb (lon =? 0) || negb (lat =? 0)) /\
  ceval env (pc_of events_context_wayToLineString "osm.WayNodes" "call" "append(orb.LineString#0, orb.Point{Node.Lon, Node.Lat})")
  = VB (negb (negb (lon =? 0) || negb (lat =? 0)) && negb nonode).
Proof. repeat split; truth_table. Qed.

(* The second result ("tainted": some way node has no coordinates).  Two forms of the source are
   recognised, each proved equal to the model's [way_line]:
   - a flag: the function returns (line, flag), the flag starts false and is set exactly in the
     iterations whose node is neither annotated nor found ([taint_flag_form]);
   - a count: the function returns (line, len(line) != len(w.Nodes)), where the line starts empty
     (make(_, 0, _)) and its only other assignments are the two appends above — whose conditions
     are exclusive and are exactly "the node resolves" (way_line_flow), so each iteration adds one
     point iff the node resolves ([taint_count_form]; [way_line_taint_is_count]: the model's flag
     IS that comparison). *)
Definition returns_of (evs : list event) : list string :=
  map ev_text (filter (fun e => String.eqb (ev_kind e) "return") evs).
Definition taint_flag_form (lon lat : Z) (nonode : bool) : Prop :=
  returns_of events_context_wayToLineString = ["orb.LineString#0, bool#0"] /\
  ceval (env_of [("WayNode.Lon", VZ lon); ("WayNode.Lat", VZ lat); ("Node", VNil nonode)])
        (pc_of_val events_context_wayToLineString "osm.WayNodes" "assign" "bool#0" "true")
  = VB (negb (negb (lon =? 0) || negb (lat =? 0)) && nonode) /\
  vals_of events_context_wayToLineString "bool#0" = ["false"; "true"].
Definition taint_count_form : Prop :=
  returns_of events_context_wayToLineString = ["orb.LineString#0, len(orb.LineString#0)!=len(Way.Nodes)"] /\
  vals_of events_context_wayToLineString "orb.LineString#0"
  = ["make(orb.LineString, 0, len(Way.Nodes))"; "append(orb.LineString#0, orb.Point{WayNode.Lon, WayNode.Lat})";
     "append(orb.LineString#0, orb.Point{Node.Lon, Node.Lat})"].
Lemma way_line_taint_flow (lon lat : Z) (nonode : bool) : taint_flag_form lon lat nonode \/ taint_count_form.
Proof.
  first [ left; split; [vm_compute; reflexivity|split; [truth_table|vm_compute; reflexivity]]
        | right; split; vm_compute; reflexivity ].
Qed.
Lemma omap_length_le {A B} (f : A -> option B) l : (List.length (omap f l) <= List.length l)%nat.
Proof. induction l as [|a l IH]; cbn; [lia|]. destruct (f a); cbn; lia. Qed.
Lemma way_line_taint_is_count d ns :
  snd (way_line d ns) = negb (List.length (fst (way_line d ns)) =? List.length ns)%nat.
Proof.
  unfold way_line. cbn [fst snd]. induction ns as [|a l IH]; [reflexivity|].
  cbn [existsb omap List.length]. destruct (resolve d a) as [p|]; cbn [is_some negb orb List.length].
  - exact IH.
  - pose proof (omap_length_le (resolve d) l) as H.
    destruct (List.length (omap (resolve d) l) =? S (List.length l))%nat eqn:E; [|reflexivity].
    apply Nat.eqb_eq in E. lia.
Qed.
Lemma way_line_model d wn :
  resolve d wn = if negb (wn_lon wn =? 0) || negb (wn_lat wn =? 0) then Some (wn_lon wn, wn_lat wn)
                 else match node_lookup d (wn_id wn) with Some n => Some (n_lon n, n_lat n) | None => None end.
Proof. reflexivity. Qed.

(* ================= wayToFeature ================= *)
Lemma way_feature_flow (len : Z) (area noid : bool) :
  let env := env_of [("len(orb.LineString#0)", VZ len); ("Way.Polygon()", VB area); ("context.noID", VB noid)] in
  ceval env (pc_of events_context_wayToFeature "" "return" "nil") = VB (len <=? 1) /\
  ceval env (pc_of events_context_wayToFeature "" "call" "reorient(orb.Polygon#0)") = VB (negb (len <=? 1) && area) /\
  ceval env (pc_of_val events_context_wayToFeature "" "assign" "Feature.ID" """way/"" ++ dec(Way.ID)")
  = VB (negb (len <=? 1) && negb noid) /\
  ceval env (pc_of events_context_wayToFeature "" "assign" "Feature.ID") = VB (negb (len <=? 1) && negb noid).
Proof. repeat split; truth_table. Qed.
Lemma way_feature_model (ls : list pt) : (List.length ls <=? 1)%nat = (Z.of_nat (List.length ls) <=? 1).
Proof. destruct ls as [|a [|b l]]; try reflexivity. cbn [List.length]. symmetry. apply Z.leb_gt. lia. Qed.

(* ================= buildRouteLineString ================= *)
Lemma route_flow (ty : string) (noway hi t noid : bool) (nlines : Z) :
  let env := env_of [("Member.Type", VS ty); ("Way", VNil noway); ("hasInterestingTags(Way.Tags, nil)", VB hi);
                     ("bool#1", VB t); ("len([]mputil.Segment#0)", VZ nlines); ("context.noID", VB noid)] in
  ceval env (pc_of events_context_buildRouteLineString "osm.Members" "assign" "context.skippable[Way.ID]")
  = VB (String.eqb ty "way" && negb noway && negb hi) /\
  ceval env (pc_of_val events_context_buildRouteLineString "osm.Members" "assign" "bool#0" "true")
  = VB (String.eqb ty "way" && (noway || t)) /\
  ceval env (pc_of events_context_buildRouteLineString "" "return" "nil") = VB (nlines =? 0).
Proof. repeat split; truth_table. Qed.
Lemma route_id_flow :
  happens events_context_buildRouteLineString "" "assign" "Feature.ID" = true /\
  forallb (fun e => negb (String.eqb (ev_text e) "Feature.ID") || String.eqb (ev_val e) """relation/"" ++ dec(Relation.ID)")
          events_context_buildRouteLineString = true.
Proof. vm_compute. split; reflexivity. Qed.

(* ================= identity of the feature: which builders go through the packed FeatureID ===== *)
(* buildPolygon sets id, "id" and "type" from tagObject.FeatureID() read back through Type() and
   Ref() (Model.mk_poly_feature: unpack (fid _ _)); node, way and route features use the element's
   own id (above: "node/" ++ dec(Node.ID), ...).  A change of either kind of tail breaks this. *)
Lemma polygon_identity_flow :
  vals_of events_context_buildPolygon "Feature.ID"
    = ["str(osm.Element#0.FeatureID().Type()) ++ ""/"" ++ dec(osm.Element#0.FeatureID().Ref())"] /\
  vals_of events_context_buildPolygon "Feature.Properties[""id""]" = ["osm.Element#0.FeatureID().Ref()"] /\
  vals_of events_context_buildPolygon "Feature.Properties[""type""]" = ["osm.Element#0.FeatureID().Type()"] /\
  vals_of events_context_buildPolygon "osm.Element#0" = ["osm.Element(Relation)"; "Way"].
Proof. vm_compute. repeat split. Qed.
Lemma plain_identity_flow :
  vals_of events_context_nodeToFeature "Feature.Properties[""id""]" = ["Node.ID"] /\
  vals_of events_context_nodeToFeature "Feature.Properties[""type""]" = ["""node"""] /\
  vals_of events_context_wayToFeature "Feature.Properties[""id""]" = ["Way.ID"] /\
  vals_of events_context_wayToFeature "Feature.Properties[""type""]" = ["""way"""] /\
  vals_of events_context_buildRouteLineString "Feature.Properties[""id""]" = ["Relation.ID"] /\
  vals_of events_context_buildRouteLineString "Feature.Properties[""type""]" = ["""relation"""].
Proof. vm_compute. repeat split. Qed.
(* the membership map is written under the member's packed id (Model.rel_summaries compares fid's) *)
Lemma membership_key_flow :
  map ev_text (filter (fun e => String.eqb (ev_kind e) "assign" && is_prefix "context.relationMember[" (ev_text e)) events_Convert)
    = ["context.relationMember[Member.FeatureID()]"].
Proof. vm_compute. reflexivity. Qed.

(* ================= addMetaProperties ================= *)
Lemma relations_flow (norel : bool) (n : Z) :
  ceval (env_of [("context.noRelationMembership", VB norel); ("len(context.relationMember[osm.Element#0.FeatureID()])", VZ n)])
        (pc_of events_context_addMetaProperties "" "assign" "geojson.Properties#0[""relations""]") = VB (negb norel).
Proof. truth_table. Qed.

(* the five meta fields, for the three element types: present exactly when non-zero *)
Definition meta_env (norel nometa isN isW isR : bool) (n : Z) (tsz : string -> bool) (ver cs uid : string -> Z) (usr : string -> string) :=
  env_of (("context.noRelationMembership", VB norel) :: ("context.noMeta", VB nometa)
          :: ("len(context.relationMember[osm.Element#0.FeatureID()])", VZ n)
          :: ("type(osm.Element#0)==Node", VB isN) :: ("type(osm.Element#0)==Way", VB isW) :: ("type(osm.Element#0)==Relation", VB isR)
          :: flat_map (fun ty => [(ty ++ ".Timestamp.IsZero()", VB (tsz ty)); (ty ++ ".Version", VZ (ver ty));
                                  (ty ++ ".ChangesetID", VZ (cs ty)); (ty ++ ".User", VS (usr ty)); (ty ++ ".UserID", VZ (uid ty))])
                      ["Node"; "Way"; "Relation"]).
Definition by_type (isN isW isR : bool) (p : string -> bool) : bool :=
  (isN && p "Node") || (negb isN && isW && p "Way") || (negb isN && negb isW && isR && p "Relation").

Lemma meta_fields_flow norel nometa isN isW isR n tsz ver cs uid usr :
  let env := meta_env norel nometa isN isW isR n tsz ver cs uid usr in
  ceval env (pc_of events_context_addMetaProperties "" "assign" "map[string]interface{}#0[""timestamp""]")
  = VB (negb nometa && by_type isN isW isR (fun ty => negb (tsz ty))) /\
  ceval env (pc_of events_context_addMetaProperties "" "assign" "map[string]interface{}#0[""version""]")
  = VB (negb nometa && by_type isN isW isR (fun ty => negb (ver ty =? 0))) /\
  ceval env (pc_of events_context_addMetaProperties "" "assign" "map[string]interface{}#0[""changeset""]")
  = VB (negb nometa && by_type isN isW isR (fun ty => negb (cs ty =? 0))) /\
  ceval env (pc_of events_context_addMetaProperties "" "assign" "map[string]interface{}#0[""user""]")
  = VB (negb nometa && by_type isN isW isR (fun ty => negb (String.eqb (usr ty) ""))) /\
  ceval env (pc_of events_context_addMetaProperties "" "assign" "map[string]interface{}#0[""uid""]")
  = VB (negb nometa && by_type isN isW isR (fun ty => negb (uid ty =? 0))).
Proof.
  unfold meta_env, by_type. repeat split; eval_pc; cbn;
    generalize (tsz "Node") (tsz "Way") (tsz "Relation"); intros; gen_atoms; all_bools; reflexivity.
Qed.
(* the assigned values are the element's own fields, and there is no sixth key *)
Lemma meta_keys_flow :
  forallb (fun e => negb (is_prefix "map[string]interface{}#0[" (ev_text e)) ||
                    existsb (String.eqb (ev_text e))
                            ["map[string]interface{}#0[""timestamp""]"; "map[string]interface{}#0[""version""]"; "map[string]interface{}#0[""changeset""]"; "map[string]interface{}#0[""user""]"; "map[string]interface{}#0[""uid""]"])
          events_context_addMetaProperties = true /\
  forallb (fun e => negb (is_prefix "map[string]interface{}#0[" (ev_text e)) ||
                    existsb (fun ty => existsb (fun f => String.eqb (ev_val e) (ty ++ f))
                                               [".Timestamp"; ".Version"; ".ChangesetID"; ".User"; ".UserID"])
                            ["Node"; "Way"; "Relation"])
          events_context_addMetaProperties = true.
Proof. vm_compute. split; reflexivity. Qed.
Lemma meta_model m :
  is_some (mo_ts (meta_obs m)) = is_some (mt_ts m) /\
  is_some (mo_version (meta_obs m)) = negb (mt_version m =? 0) /\
  is_some (mo_changeset (meta_obs m)) = negb (mt_changeset m =? 0) /\
  is_some (mo_user (meta_obs m)) = negb (String.eqb (mt_user m) "") /\
  is_some (mo_uid (meta_obs m)) = negb (mt_uid m =? 0).
Proof.
  unfold meta_obs, nz. cbn. repeat split;
    try (destruct (mt_version m =? 0)); try (destruct (mt_changeset m =? 0));
    try (destruct (String.eqb (mt_user m) "")); try (destruct (mt_uid m =? 0)); reflexivity.
Qed.

(* ================= hasInterestingTags ================= *)
Lemma interesting_flow (u isnil : bool) (ik v : string) :
  ceval (env_of [("osm.UninterestingTags[Tag.Key]", VB u); ("map[string]string#0", VNil isnil);
                 ("map[string]string#0[Tag.Key]", VS ik); ("Tag.Value", VS v)])
        (pc_of events_hasInterestingTags "osm.Tags" "return" "true")
  = VB (negb u && (isnil || negb (String.eqb ik "true" || String.eqb ik v))).
Proof. truth_table. Qed.
Lemma interesting_model (ignore : option tags) k v :
  tag_interesting ignore (k, v) =
  negb (uninteresting k) &&
  ((match ignore with None => true | Some _ => false end)
   || negb (String.eqb (match ignore with None => "" | Some ig => map_get ig k end) "true"
            || String.eqb (match ignore with None => "" | Some ig => map_get ig k end) v)).
Proof. unfold tag_interesting. destruct ignore; reflexivity. Qed.

(* ================= toRing, reorient ================= *)
Lemma to_ring_flow (n a b : Z) :
  ceval (env_of [("len(orb.LineString#0)", VZ n); ("orb.LineString#0[0]", VZ a); ("orb.LineString#0[len(orb.LineString#0)-1]", VZ b)])
        (pc_of events_toRing "" "call" "append(orb.LineString#0, orb.LineString#0[0])") = VB ((2 <=? n) && negb (a =? b)).
Proof.
  eval_pc. cbn. f_equal.
  destruct (a =? b); rewrite ?andb_false_r, ?andb_true_r; try reflexivity; cbn [negb];
    repeat match goal with
           | |- context [?x <? ?y] => destruct (Z.ltb_spec x y)
           | |- context [?x >=? ?y] => destruct (Z.geb_spec x y)
           | |- context [?x <=? ?y] => destruct (Z.leb_spec x y)
           end; cbn; try reflexivity; lia.
Qed.
Lemma to_ring_model (ls : list pt) :
  to_ring ls = match ls with
               | [] | [_] => ls
               | a :: _ => if pt_eqb a (last ls a) then ls else (ls ++ [a])%list
               end.
Proof. reflexivity. Qed.

Lemma reorient_flow (o : Z) :
  ceval (env_of [("orb.Polygon#0[0].Orientation()", VZ o)]) (pc_of events_reorient "" "call" "orb.Polygon#0[0].Reverse()")
  = VB (negb (o =? 1)).
Proof. truth_table. Qed.
Lemma reorient_model (r : list pt) : reorient_outer r = if negb (ring_orientation r =? 1) then rev r else r.
Proof. unfold reorient_outer. destruct (ring_orientation r =? 1); reflexivity. Qed.

(* ================= buildPolygon ================= *)
(* when does an old-style relation take the outer way's identity (tagObject = outerWay) *)
Lemma adoption_flow (nouter oc nring : Z) (incl closed hirel : bool) :
  ceval (env_of [("len([]mputil.Segment#0)", VZ nouter); ("int#0", VZ oc); ("context.includeInvalidPolygons", VB incl);
                 ("len(mputil.MultiSegment([]mputil.Segment#0).Ring(orb.CCW))", VZ nring);
                 ("mputil.MultiSegment([]mputil.Segment#0).Ring(orb.CCW).Closed()", VB closed);
                 ("hasInterestingTags(Relation.Tags, map[string]string{""type"": ""true""})", VB hirel)])
        (pc_of_val events_context_buildPolygon "" "assign" "osm.Element#0" "Way")
  = VB (negb ((nouter =? 0) && negb incl) && ((nouter =? 1) && (oc =? 1))
        && negb ((nring <? 4) || negb closed) && negb hirel).
Proof. truth_table. Qed.
Lemma adoption_skips_flow :
  (* the adopted way is marked skippable under the same condition *)
  pc_of events_context_buildPolygon "" "assign" "context.skippable[Way.ID]"
  = pc_of_val events_context_buildPolygon "" "assign" "osm.Element#0" "Way".
Proof. vm_compute. reflexivity. Qed.

(* the member loop: which ways the relation absorbs *)
Lemma polygon_members_flow (ty role : string) (noway hit hin : bool) (nn : Z) :
  ceval (env_of [("Member.Type", VS ty); ("Member.Role", VS role); ("Way", VNil noway);
                 ("len(Member.Nodes)", VZ nn);
                 ("hasInterestingTags(Way.Tags, map[string]string#0)", VB hit); ("hasInterestingTags(Way.Tags, nil)", VB hin)])
        (pc_of events_context_buildPolygon "osm.Members" "assign" "context.skippable[Way.ID]")
  = VB (String.eqb ty "way" && (String.eqb role "inner" || String.eqb role "outer")
        && (negb noway || negb (nn =? 0))
        && (if String.eqb role "outer" then negb hit else negb hin)).
Proof. truth_table. Qed.

(* ================= options.go ================= *)
Definition row_eqb (a b : string * string * cx) : bool :=
  String.eqb (fst (fst a)) (fst (fst b)) && String.eqb (snd (fst a)) (snd (fst b)) && cx_eqb (snd a) (snd b).
(* every option stores its own bool parameter ("bool#0": the first bool variable of the function) *)
Lemma options_flow :
  forallb (fun row => existsb (row_eqb row) option_sets)
    [("NoID", "context.noID", CLeaf "bool#0"); ("NoMeta", "context.noMeta", CLeaf "bool#0");
     ("NoRelationMembership", "context.noRelationMembership", CLeaf "bool#0");
     ("IncludeInvalidPolygons", "context.includeInvalidPolygons", CLeaf "bool#0")] = true
  /\ List.length option_sets = 4%nat.
Proof. vm_compute. split; reflexivity. Qed.

(* ================= literals of the package ================= *)
Lemma literals_flow :
  forallb (fun s => existsb (String.eqb s) package_literals)
    ["type"; "route"; "multipolygon"; "boundary"; "inner"; "outer"; "true"; "id"; "tags"; "tainted";
     "relations"; "meta"; "timestamp"; "version"; "changeset"; "user"; "uid"; "node"; "way"; "relation"] = true.
Proof. vm_compute. reflexivity. Qed.
