(* C17/GenOk.v — obligations tying the hand model to data re-read from /repo on every run
   (gen/GenTags.v, translator/cmd/tags). *)
From Coq Require Import ZArith String List Bool.
From Verif Require Import C17.Model C17.Spec.
From VerifGen Require Import GenTags.
Import ListNotations.
Open Scope string_scope.

Definition mem_str (s : string) (l : list string) : bool := existsb (String.eqb s) l.
Definition all_in (a b : list string) : bool := forallb (fun s => mem_str s b) a.

(* the string literals and branch conditions of osmgeojson are tied in C17/GenOkFlow.v (from
   gen/GenFlow.v, package-wide and path-sensitive, so moving code between functions is harmless) *)
Lemma old_style_ignore_ok : old_style_ignore = [("type", "true")].
Proof. reflexivity. Qed.

(* the table is a set of distinct keys (the model's [uninteresting] is membership) *)
Lemma uninteresting_nodup : NoDup uninteresting_tags.
Proof.
  unfold uninteresting_tags.
  repeat (constructor; [cbn; intuition discriminate|]). constructor.
Qed.

(* the table of the code is the published set of uninteresting keys *)
Lemma uninteresting_is_published :
  all_in uninteresting_tags published_uninteresting && all_in published_uninteresting uninteresting_tags = true.
Proof. vm_compute. reflexivity. Qed.
