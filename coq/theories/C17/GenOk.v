(* C17/GenOk.v — obligations tying the hand model to data re-read from /repo on every run
   (gen/GenTags.v, translator/cmd/tags). *)
From Coq Require Import ZArith String List Bool.
From Verif Require Import C17.Model C17.Spec.
From VerifGen Require Import GenTags.
Import ListNotations.
Open Scope string_scope.

Definition mem_str (s : string) (l : list string) : bool := existsb (String.eqb s) l.
Definition all_in (a b : list string) : bool := forallb (fun s => mem_str s b) a.

(* the relation type names dispatched on by Convert *)
Lemma convert_literals : all_in ["type"; "route"; "multipolygon"; "boundary"] lits_Convert = true.
Proof. vm_compute. reflexivity. Qed.

(* roles, the old-style ignore map and the id format of buildPolygon *)
Lemma build_polygon_literals :
  all_in ["inner"; "outer"; "type"; "true"; "%s/%d"; "id"; "tags"; "tainted"] lits_context_buildPolygon = true.
Proof. vm_compute. reflexivity. Qed.

Lemma old_style_ignore_ok : old_style_ignore = [("type", "true")].
Proof. reflexivity. Qed.

Lemma feature_id_formats :
  mem_str "node/%d" lits_context_nodeToFeature && mem_str "way/%d" lits_context_wayToFeature
  && mem_str "relation/%d" lits_context_buildRouteLineString = true.
Proof. vm_compute. reflexivity. Qed.

Lemma meta_keys :
  all_in ["relations"; "timestamp"; "version"; "changeset"; "user"; "uid"; "meta"] lits_context_addMetaProperties = true.
Proof. vm_compute. reflexivity. Qed.

(* hasInterestingTags compares the ignore map's value with "true" *)
Lemma ignore_true_literal : mem_str "true" lits_hasInterestingTags = true.
Proof. vm_compute. reflexivity. Qed.

(* the table is a set of distinct keys (the model's [uninteresting] is membership) *)
Lemma uninteresting_nodup : NoDup uninteresting_tags.
Proof.
  unfold uninteresting_tags.
  repeat (constructor; [cbn; intuition discriminate|]). constructor.
Qed.

(* the table of the code is the published set of uninteresting keys *)
Lemma uninteresting_is_published :
  all_in uninteresting_tags published_uninteresting && all_in published_uninteresting uninteresting_tags = true.
Proof. vm_compute. reflexivity. Qed.
