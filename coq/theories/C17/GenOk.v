(* C17/GenOk.v — obligations tying the hand model to data re-read from /repo on every run
   (gen/GenTags.v, translator/cmd/tags). *)
From Coq Require Import ZArith String List Bool.
From Verif Require Import C17.Model C17.Spec.
From VerifGen Require Import GenTags.
From VerifGen Require GenIds.
Import ListNotations.
Open Scope string_scope.

Definition mem_str (s : string) (l : list string) : bool := existsb (String.eqb s) l.
Definition all_in (a b : list string) : bool := forallb (fun s => mem_str s b) a.

(* the string literals and branch conditions of osmgeojson are tied in C17/GenOkFlow.v (from
   gen/GenFlow.v, package-wide and path-sensitive, so moving code between functions is harmless) *)
Lemma old_style_ignore_ok : old_style_ignore = [("type", "true")].
Proof. reflexivity. Qed.

(* the table is a set of distinct keys (the model's [uninteresting] is membership) *)
Lemma uninteresting_nodup : NoDup uninteresting_tags.
Proof.
  unfold uninteresting_tags.
  repeat (constructor; [cbn; intuition discriminate|]). constructor.
Qed.

(* the table of the code is the published set of uninteresting keys *)
Lemma uninteresting_is_published :
  all_in uninteresting_tags published_uninteresting && all_in published_uninteresting uninteresting_tags = true.
Proof. vm_compute. reflexivity. Qed.

(* [fid] is what the id methods of package osm compute (gen/GenIds.v, regenerated from node.go,
   way.go, relation.go, feature.go on every run): Member.FeatureID() by member type,
   Node/Way/Relation.FeatureID() by element *)
Lemma fid_is_member_feature_id r :
  GenIds.Member_FeatureID "node" r = Some (fid TNode r) /\
  GenIds.Member_FeatureID "way" r = Some (fid TWay r) /\
  GenIds.Member_FeatureID "relation" r = Some (fid TRel r).
Proof. repeat split. Qed.
Lemma fid_is_element_feature_id r :
  GenIds.Node_FeatureID r = fid TNode r /\ GenIds.Way_FeatureID r = fid TWay r /\
  GenIds.Relation_FeatureID r = fid TRel r.
Proof. repeat split. Qed.
(* Type() answers one of the three names or "" *)
Lemma etype_of_name_names :
  etype_of_name "node" = TNode /\ etype_of_name "way" = TWay /\ etype_of_name "relation" = TRel /\
  etype_of_name "" = TNone.
Proof. repeat split. Qed.
