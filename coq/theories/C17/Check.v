(* C17/Check.v — correspondence + property oracle for one harness case (executable only).

   Case layout (all integers zigzag via pint; strings are indices into the case's table):
     strtab   : n, n byte strings
     nodes    : n, (id lon lat tags meta)*
     ways     : n, (id nodes:(id lon lat)* tags meta area)*     area = what w.Polygon() answered
     relations: n, (id members:(type ref role orient nodes:(id lon lat)* )* tags meta)*
       tags = n (k v)* ; meta = has_ts ts version changeset user uid ; type 1 node 2 way 3 relation
     (nodes, ways and relations each end with the answers of the osm methods, see pnode/pway/prel)
     unchanged: bool     the deep copy of the input taken before all runs equals the input after
     known    : 0 | 1 | 2  the known-finding class the harness put the input into: 2 polygon-id-outside-
                         packed-range (not Spec.packed_ok), else 1 shared-outer-old-style (a way adopted twice)
     runs     : n, (optbits same features)*      optbits = 1 NoID | 2 NoMeta | 4 NoRelM | 8 InclInvalid
       same   : bool     converting a second time gave the identical observation
       feature = idtype(0 none,1,2,3; 4 = the type "" of an id like "/5") idref type(1,2,3; 0 = "") ref tags tainted
                 rels: flag [n (id role tags)*]  meta: flag [ts? ver? cs? user? uid?] (each 0 | 1 v)
                 geom: kind(1 point,2 line,3 polygon,4 multiline,5 multipolygon) data
   The runs must contain optbits 0 (baseline) and, if any run has bit 8, optbits 8.

   codes: 1 = model <> observed features for some run
          2 = the property oracle (Spec.v) fails on the observation: duplicate keys, a feature
              that does not carry its element, point/line/polygon/route rule, an option that
              changed more than it documents, a differing second run, a modified input
          3 = the model's reading of a method of package osm differs from what it answered (Way.Polygon,
              Relation.Polygon, Tags.AnyInteresting), or the harness's known-finding class differs from Spec.packed_ok / Spec.adopts
          0 = case does not parse *)
From Coq Require Import ZArith String List Bool.
From Verif Require Import Base.Wire C17.Model C17.Mputil C17.Spec.
Import ListNotations.
Open Scope Z_scope.
Open Scope list_scope.
Open Scope wire_scope.

(* the known-finding class of a data set, from the input alone *)
Definition known_class (d : osm) : Z :=
  if negb (packed_ok d) then 2
  else if negb (nodupb Z.eqb (flat_map (adopts d) (relations d))) then 1 else 0.

Section Parse.
  Variable strtab : list string.

  Definition pstr : P string :=
    i <- pnat ;; match nth_error strtab i with Some s => ret s | None => pfail end.
  Definition ptags : P tags := plist (ppair pstr pstr).
  Definition pmeta : P meta :=
    tsf <- pbool ;; ts <- pint ;; v <- pint ;; c <- pint ;; u <- pstr ;; uid <- pint ;;
    ret {| mt_ts := if tsf then Some ts else None; mt_version := v; mt_changeset := c;
           mt_user := u; mt_uid := uid |}.
  Definition petype : P etype :=
    t <- pint ;;
    if t =? 1 then ret TNode else if t =? 2 then ret TWay else if t =? 3 then ret TRel else pfail.
  Definition pwnode : P wnode :=
    i <- pint ;; x <- pint ;; y <- pint ;; ret {| wn_id := i; wn_lon := x; wn_lat := y |}.
  (* besides the element: what methods of package osm answered on it (on a copy of the input):
     Tags.AnyInteresting for all three kinds, Way.Polygon, Relation.Polygon *)
  Definition pnode : P (node * bool) :=
    i <- pint ;; x <- pint ;; y <- pint ;; t <- ptags ;; m <- pmeta ;; ai <- pbool ;;
    ret ({| n_id := i; n_lon := x; n_lat := y; n_tags := t; n_meta := m |}, ai).
  Definition pway : P (way * (bool * bool)) :=
    i <- pint ;; ns <- plist pwnode ;; t <- ptags ;; m <- pmeta ;; a <- pbool ;; ai <- pbool ;;
    ret ({| w_id := i; w_nodes := ns; w_tags := t; w_meta := m |}, (a, ai)).
  Definition pmember : P member :=
    ty <- petype ;; r <- pint ;; role <- pstr ;; o <- pint ;; ns <- plist pwnode ;;
    ret {| m_type := ty; m_ref := r; m_role := role; m_orient := o; m_nodes := ns |}.
  Definition prel : P (relation * (bool * bool)) :=
    i <- pint ;; ms <- plist pmember ;; t <- ptags ;; m <- pmeta ;; rp <- pbool ;; ai <- pbool ;;
    ret ({| r_id := i; r_members := ms; r_tags := t; r_meta := m |}, (rp, ai)).
  (* judgement 3: the model's reading of the osm package methods = what they answered *)
  Definition posm : P (osm * bool) :=
    ns <- plist pnode ;; ws <- plist pway ;; rs <- plist prel ;;
    ret ({| nodes := map fst ns; ways := map fst ws; relations := map fst rs |},
         forallb (fun na => Bool.eqb (has_interesting (n_tags (fst na)) None) (snd na)) ns
         && forallb (fun wa => Bool.eqb (way_area (fst wa)) (fst (snd wa))
                               && Bool.eqb (has_interesting (w_tags (fst wa)) None) (snd (snd wa))) ws
         && forallb (fun ra => Bool.eqb (relation_area (fst ra)) (fst (snd ra))
                               && Bool.eqb (has_interesting (r_tags (fst ra)) None) (snd (snd ra))) rs).

  Definition ppt : P pt := ppair pint pint.
  Definition pline : P (list pt) := plist ppt.
  Definition pgeom : P geom :=
    k <- pint ;;
    if k =? 1 then (p <- ppt ;; ret (GPoint p))
    else if k =? 2 then (l <- pline ;; ret (GLine l))
    else if k =? 3 then (r <- plist pline ;; ret (GPoly r))
    else if k =? 4 then (l <- plist pline ;; ret (GMultiLine l))
    else if k =? 5 then (p <- plist (plist pline) ;; ret (GMultiPoly p))
    else pfail.
  Definition psummary : P summary :=
    i <- pint ;; r <- pstr ;; t <- ptags ;; ret {| s_id := i; s_role := r; s_tags := t |}.
  Definition pmetaobs : P metaobs :=
    ts <- popt pint ;; v <- popt pint ;; c <- popt pint ;; u <- popt pstr ;; uid <- popt pint ;;
    ret {| mo_ts := ts; mo_version := v; mo_changeset := c; mo_user := u; mo_uid := uid |}.
  Definition pfid : P (option (etype * Z)) :=
    t <- pint ;; r <- pint ;;
    if t =? 0 then ret None
    else if t =? 1 then ret (Some (TNode, r)) else if t =? 2 then ret (Some (TWay, r))
    else if t =? 3 then ret (Some (TRel, r)) else if t =? 4 then ret (Some (TNone, r)) else pfail.
  (* the "type" property: "" (FeatureID.Type() of unknown type bits) is observable *)
  Definition pftype : P etype :=
    t <- pint ;;
    if t =? 0 then ret TNone else if t =? 1 then ret TNode else if t =? 2 then ret TWay
    else if t =? 3 then ret TRel else pfail.
  Definition pfeature : P feature :=
    fid <- pfid ;; ty <- pftype ;; r <- pint ;; t <- ptags ;; tainted <- pbool ;;
    rels <- popt (plist psummary) ;; m <- popt pmetaobs ;; g <- pgeom ;;
    ret {| f_id := fid; f_type := ty; f_ref := r; f_tags := t; f_tainted := tainted;
           f_rels := rels; f_meta := m; f_geom := g |}.

  Definition opts_of_bits (b : Z) : opts :=
    {| noID := Z.testbit b 0; noMeta := Z.testbit b 1; noRelM := Z.testbit b 2;
       inclInvalid := Z.testbit b 3 |}.
  Definition prun : P (Z * bool * list feature) :=
    b <- pint ;; same <- pbool ;; fs <- plist pfeature ;; ret (b, same, fs).

  Definition pbody : P (osm * bool * list (Z * bool * list feature) * bool) :=
    da <- posm ;; unchanged <- pbool ;; known <- pint ;; runs <- plist prun ;;
    (* the harness's known-finding class (a Go predicate on the input) must be Spec's: not packed_ok
       (class 2), else some way adopted twice (class 1) *)
    ret (fst da, unchanged, runs,
         snd da && (known =? known_class (fst da))).
End Parse.

Definition pcase : P (osm * bool * list (Z * bool * list feature) * bool) :=
  tab <- plist pstring ;; pbody tab.

Definition find_run (bits : Z) (runs : list (Z * bool * list feature)) : option (list feature) :=
  match find (fun r => fst (fst r) =? bits) runs with
  | Some r => Some (snd r)
  | None => None
  end.

(* judgement 1: the model computes the observed feature list, for every run *)
Definition j1_run (d : osm) (r : Z * bool * list feature) : bool :=
  list_eqb feature_eqb (convert_exec (opts_of_bits (fst (fst r))) d) (snd r).

(* judgement 2 for one run, given the two baselines *)
Definition sub_opts (b : Z) : opts :=
  {| noID := Z.testbit b 0; noMeta := Z.testbit b 1; noRelM := Z.testbit b 2; inclInvalid := false |}.
Definition j2_run (d : osm) (base0 : list feature) (base8 : option (list feature))
           (r : Z * bool * list feature) : bool :=
  let '(b, same, fs) := r in
  let o := opts_of_bits b in
  same && keys_unique fs && run_ok o d fs &&
  (if Z.testbit b 3
   then match base8 with
        | Some b8 => subtracts (sub_opts b) b8 fs
        | None => false
        end
   else subtracts (sub_opts b) base0 fs).

Definition j2_parts (d : osm) (unchanged : bool) (runs : list (Z * bool * list feature)) : list bool :=
  match find_run 0 runs with
  | None => [false]
  | Some base0 =>
      let base8 := find_run 8 runs in
      [unchanged;
       match base8 with Some b8 => extends base0 b8 | None => true end;
       forallb (j2_run d base0 base8) runs]
  end.

Definition check_parsed (c : osm * bool * list (Z * bool * list feature)) : list Z :=
  let '(d, unchanged, runs) := c in
  code_if (forallb (j1_run d) runs) 1 ++ code_if (forallb (fun b => b) (j2_parts d unchanged runs)) 2.

Definition check_case (t : toks) : list Z :=
  match parse_all pcase t with
  | Some (c, areaok) => (check_parsed c ++ code_if areaok 3)%list
  | None => [0]
  end.

(* for replays and debugging: per run (optbits, model = observed, same, unique keys, features ok,
   options subtract) and the model's feature list *)
Definition explain_case (t : toks) :=
  match parse_all pcase t with
  | Some (d, unchanged, runs, areaok) =>
      Some (unchanged && areaok,
            match find_run 0 runs, find_run 8 runs with
            | Some b0, Some b8 => extends b0 b8
            | _, _ => true
            end,
            map (fun r => let '(b, same, fs) := r in
                          (b, j1_run d r, same, keys_unique fs,
                           map (feature_ok_any (opts_of_bits b) d) fs, nodes_complete d fs,
                           j2_run d (match find_run 0 runs with Some x => x | None => [] end)
                                  (find_run 8 runs) r)) runs)
  | None => None
  end.
Definition model_case (t : toks) (bits : Z) : option (list feature) :=
  match parse_all pcase t with
  | Some (d, _, _, _) => Some (convert_exec (opts_of_bits bits) d)
  | None => None
  end.
