(* C17/ProofsDup.v — the known finding, exactly.  [adopts d r] is the way whose identity an
   old-style multipolygon relation takes, decided on the input alone: the relation is a
   multipolygon/boundary without interesting own tags, exactly one of its way members has role
   "outer", that way is in the data (or annotated on the member), and its resolvable coordinates
   are a valid ring (>= 4 points, first = last).  The way-typed features of the relation pass are
   exactly these ways, in order; hence (ids unique) the feature keys are pairwise different IF AND
   ONLY IF no way is adopted twice. *)
From Coq Require Import ZArith String List Bool Lia.
From Verif Require Import C17.Model C17.Mputil C17.Spec C17.ProofsPacked C17.Proofs C17.ProofsGeom.
Import ListNotations.
Open Scope Z_scope.
Open Scope list_scope.

Arguments way_line : simpl never.
Arguments has_interesting : simpl never.

(* [member_way], [is_outer_way], [outer_members], [adopts]: C17/Spec.v (input-only definitions) *)

(* the refs of the way-typed features of a list *)
Definition way_keys (fs : list feature) : list Z :=
  flat_map (fun f => match f_type f with TWay => [f_ref f] | _ => [] end) fs.

(* validity of a ring does not depend on its direction *)
Lemma ring_closed_rev r : ring_closed (rev r) = ring_closed r.
Proof.
  destruct r as [|a r]; [reflexivity|].
  destruct (@exists_last _ (a :: r)) as [m [z E]]; [discriminate|]. rewrite E.
  rewrite rev_app_distr. cbn [rev app].
  destruct m as [|b m]; [reflexivity|].
  unfold ring_closed. cbn [rev].
  change (match (b :: m) ++ [z] with [] => false | a0 :: _ => pt_eqb a0 (last ((b :: m) ++ [z]) a0) end)
    with (pt_eqb b (last ((b :: m) ++ [z]) b)).
  rewrite last_last.
  match goal with |- ?l = _ => assert (El : l = pt_eqb z b) end.
  { change (z :: rev m ++ [b]) with ((z :: rev m) ++ [b]). rewrite last_last. reflexivity. }
  rewrite El. unfold pt_eqb. rewrite (Z.eqb_sym (fst z)), (Z.eqb_sym (snd z)). reflexivity.
Qed.

Lemma ring_invalid_rev r : ring_invalid (rev r) = ring_invalid r.
Proof. unfold ring_invalid. rewrite rev_length, ring_closed_rev. reflexivity. Qed.

(* what the theorem needs of MultiSegment.Ring: on a single segment it returns the segment's
   line in one of the two directions *)
Definition ring_single (ring_of : Z -> list seg -> list pt) : Prop :=
  forall o s, ring_of o [s] = sg_line s \/ ring_of o [s] = rev (sg_line s).

Lemma ring_single_exec : ring_single Mputil.ring_of.
Proof.
  intros o s. unfold Mputil.ring_of, ms_line. cbn [map concat]. rewrite app_nil_r.
  destruct (_ || _); [right|left]; reflexivity.
Qed.

Ltac break_match :=
  repeat match goal with
         | |- context [match ?x with _ => _ end] => destruct x eqn:?
         end.

(* ---------- the member loop, seen from the outer members ---------- *)
Definition oseg (m : member) (ls : list pt) : seg :=
  if m_orient m =? -1
  then seg_reverse {| sg_orient := m_orient m; sg_rev := false; sg_line := ls |}
  else {| sg_orient := m_orient m; sg_rev := false; sg_line := ls |}.

Lemma oseg_line m ls : sg_line (oseg m ls) = ls \/ sg_line (oseg m ls) = rev ls.
Proof. unfold oseg. destruct (m_orient m =? -1); [right|left]; reflexivity. Qed.

Lemma ps_outer_other d rt m : is_outer_way m = false -> ps_outer (poly_step d rt m) = [].
Proof.
  unfold is_outer_way, poly_step. destruct (m_type m); cbn [etype_eqb andb]; try reflexivity.
  intros H. rewrite H. cbn [orb]. break_match; reflexivity.
Qed.

Lemma ps_outer_outer d rt m : is_outer_way m = true ->
  ps_outer (poly_step d rt m) =
  match member_way d m with
  | Some w => match omap (resolve d) (w_nodes w) with
              | [] => []
              | ls => [(oseg m ls, w)]
              end
  | None => []
  end.
Proof.
  unfold is_outer_way, poly_step, member_way, oseg, way_line.
  destruct (m_type m); cbn [etype_eqb andb]; try discriminate.
  intros H. rewrite H. cbn [orb negb].
  destruct (way_lookup d (m_ref m)) as [w0|].
  - destruct (omap (resolve d) (w_nodes w0)); [reflexivity|]. cbn [ps_outer].
    destruct (m_orient m =? -1); reflexivity.
  - destruct (m_nodes m) as [|n0 ns]; [reflexivity|].
    destruct (omap (resolve d) (w_nodes (pseudo_way (m_ref m) (n0 :: ns)))); [reflexivity|]. cbn [ps_outer].
    destruct (m_orient m =? -1); reflexivity.
Qed.

Lemma outer_of_members d rt ms :
  flat_map ps_outer (map (poly_step d rt) ms) =
  flat_map (fun m => ps_outer (poly_step d rt m)) (filter is_outer_way ms).
Proof.
  induction ms as [|m ms IH]; [reflexivity|]. cbn [map flat_map filter].
  destruct (is_outer_way m) eqn:H; cbn [flat_map]; rewrite IH; [reflexivity|].
  rewrite (ps_outer_other d rt m H). reflexivity.
Qed.

Lemma cnt_of_members d rt ms :
  fold_right Z.add 0 (map ps_cnt (map (poly_step d rt) ms)) = Z.of_nat (List.length (filter is_outer_way ms)).
Proof.
  induction ms as [|m ms IH]; [reflexivity|]. cbn [map fold_right filter]. rewrite IH, poly_step_cnt.
  unfold is_outer_way. destruct (m_type m); cbn [etype_eqb andb List.length]; try lia.
  destruct (String.eqb (m_role m) "outer"); cbn [List.length]; lia.
Qed.

Section Dup.
  Variable join : list seg -> list (list seg).
  Variable ring_of : Z -> list seg -> list pt.
  Hypothesis Hring : ring_single ring_of.
  Notation rel_result := (rel_result join ring_of).
  Notation poly_result := (poly_result join ring_of).
  Notation convert := (convert join ring_of).

  Lemma ring_of_invalid o s : ring_invalid (ring_of o [s]) = ring_invalid (sg_line s).
  Proof. destruct (Hring o s) as [-> | ->]; [reflexivity|apply ring_invalid_rev]. Qed.

  (* the shape of buildPolygon's result as far as way-typed features go; [poly_result_with ...
     mk_feature] is buildPolygon with the plain identity tail, equal to the model's on relations
     in the packed range (Proofs.poly_result_exact) *)
  Lemma poly_result_x_way_keys o d r :
    way_keys (olist (snd (poly_result_with join ring_of mk_feature o d r))) =
    match flat_map ps_outer (map (poly_step d (r_tags r)) (r_members r)),
          fold_right Z.add 0 (map ps_cnt (map (poly_step d (r_tags r)) (r_members r))) =? 1 with
    | [(s, w)], true =>
        if ring_invalid (ring_of 1 [s]) then []
        else if has_interesting (r_tags r) (Some old_style_ignore) then [] else [w_id w]
    | _, _ => []
    end.
  Proof. unfold Model.poly_result_with. break_match; try reflexivity; cbn in *; try discriminate; try congruence. Qed.

  Lemma poly_x_adopts o d r :
    is_mp r = true -> way_keys (olist (snd (poly_result_with join ring_of mk_feature o d r))) = adopts d r.
  Proof.
    intros Hmp. unfold adopts. rewrite Hmp. cbn [andb].
    rewrite poly_result_x_way_keys, outer_of_members, cnt_of_members. fold (outer_members r).
    destruct (outer_members r) as [|m [|m2 rest]] eqn:Hom.
    - cbn. destruct (negb _); reflexivity.
    - assert (Hm : is_outer_way m = true).
      { assert (Hin : In m (outer_members r)) by (rewrite Hom; left; reflexivity).
        unfold outer_members in Hin. apply filter_In in Hin. exact (proj2 Hin). }
      cbn [flat_map List.length]. rewrite app_nil_r, (ps_outer_outer d (r_tags r) m Hm).
      change (Z.of_nat 1 =? 1) with true.
      destruct (member_way d m) as [w|]; [|destruct (negb _); reflexivity].
      destruct (omap (resolve d) (w_nodes w)) as [|p ls] eqn:Hls.
      + destruct (negb _); reflexivity.
      + rewrite ring_of_invalid.
        assert (Hinv : ring_invalid (sg_line (oseg m (p :: ls))) = ring_invalid (p :: ls)).
        { destruct (oseg_line m (p :: ls)) as [-> | ->]; [reflexivity|apply ring_invalid_rev]. }
        rewrite Hinv. destruct (ring_invalid (p :: ls)); [destruct (negb _); reflexivity|].
        destruct (has_interesting (r_tags r) (Some old_style_ignore)); reflexivity.
    - assert (Hc : (Z.of_nat (List.length (m :: m2 :: rest)) =? 1) = false).
      { apply Z.eqb_neq. cbn [List.length]. lia. }
      rewrite Hc. destruct (negb _); break_match; reflexivity.
  Qed.

  Lemma rel_result_way_keys o d r :
    (is_mp r = true -> poly_in_range r = true) ->
    way_keys (olist (snd (rel_result o d r))) = adopts d r.
  Proof.
    intros Hrange. unfold Model.rel_result.
    destruct (String.eqb (tag_find (r_tags r) "type") "route") eqn:Hroute.
    { unfold adopts, is_mp. rewrite Hroute. cbn [negb andb]. unfold route_result. break_match; reflexivity. }
    destruct (String.eqb _ "multipolygon" || String.eqb _ "boundary") eqn:Hm.
    - assert (Hmp : is_mp r = true) by (unfold is_mp; rewrite Hroute, Hm; reflexivity).
      rewrite (poly_result_exact join ring_of o d r (Hrange Hmp)). exact (poly_x_adopts o d r Hmp).
    - unfold adopts, is_mp. rewrite Hroute, Hm. reflexivity.
  Qed.

  (* the way-typed features of the relation pass are exactly the adopted ways, in order *)
  Theorem adopted_ways_exact o d :
    poly_ids_ok d = true ->
    way_keys (rel_features join ring_of o d) = flat_map (adopts d) (relations d).
  Proof.
    intros Hok. assert (H : forall r, In r (relations d) -> is_mp r = true -> poly_in_range r = true)
      by (intros r Hr; exact (poly_ids_ok_rel d r Hok Hr)). clear Hok.
    unfold Model.rel_features, way_keys. induction (relations d) as [|r l IH]; [reflexivity|].
    cbn [flat_map]. rewrite flat_map_app, IH by (intros x Hx; apply H; right; exact Hx).
    f_equal. apply rel_result_way_keys. apply H. left. reflexivity.
  Qed.

  (* every relation feature has the relation's key or is an adopted way *)
  Lemma rel_result_key_exact o d r f :
    (is_mp r = true -> poly_in_range r = true) ->
    snd (rel_result o d r) = Some f ->
    fkey f = (TRel, r_id r) \/ (exists x, adopts d r = [x] /\ fkey f = (TWay, x)).
  Proof.
    intros Hin Hf. pose proof (rel_result_way_keys o d r Hin) as Hk. rewrite Hf in Hk. cbn in Hk.
    destruct (rel_result_key join ring_of o d r f Hin Hf) as [H|[x [_ H]]]; [left; exact H|].
    right. exists x. split; [|exact H]. unfold fkey in H. injection H as Ht Hr.
    rewrite Ht, Hr in Hk. cbn in Hk. symmetry. exact Hk.
  Qed.

  Lemma way_keys_nodup fs : NoDup (map fkey fs) -> NoDup (way_keys fs).
  Proof.
    induction fs as [|f fs IH]; intros H; [constructor|]. cbn [map] in H.
    inversion H as [|? ? Hn Hd]; subst. specialize (IH Hd).
    unfold way_keys. cbn [flat_map]. fold (way_keys fs).
    destruct (f_type f) eqn:Ht; cbn [app]; try exact IH.
    constructor; [|exact IH]. intros Hin. apply Hn.
    unfold way_keys in Hin. apply in_flat_map in Hin. destruct Hin as [g [Hg Hin]].
    destruct (f_type g) eqn:Hgt; cbn in Hin; try tauto. destruct Hin as [Hin|[]].
    apply in_map_iff. exists g. split; [|exact Hg]. unfold fkey. rewrite Ht, Hgt, Hin. reflexivity.
  Qed.

  (* the finding, as an equivalence *)
  Theorem duplicate_feature_iff o d :
    poly_ids_ok d = true ->
    ids_unique d ->
    (NoDup (map fkey (convert o d)) <-> NoDup (flat_map (adopts d) (relations d))).
  Proof.
    intros Hok [Hn [Hw Hr]]. split.
    - intros H. rewrite <- (adopted_ways_exact o d Hok). apply way_keys_nodup.
      unfold Model.convert in H. rewrite map_app in H.
      clear -H. induction (map fkey (rel_features join ring_of o d)) as [|k l IH]; [constructor|].
      cbn in H. inversion H as [|? ? Hk Hd]; subst. constructor; [|exact (IH Hd)].
      intros Hin. apply Hk. apply in_or_app. left. exact Hin.
    - intros Hadopt. unfold Model.convert. rewrite !map_app.
      apply NoDup_app_intro; [|apply NoDup_app_intro|].
      + unfold Model.rel_features. apply NoDup_keys_olist; [exact (NoDup_map_inv _ _ Hr)|].
        intros r s x y Hrl Hsl Hx Hy Hk.
        destruct (rel_result_key_exact _ _ _ _ (poly_ids_ok_rel d r Hok Hrl) Hx) as [Kx|[wx [Cx Kx]]];
          destruct (rel_result_key_exact _ _ _ _ (poly_ids_ok_rel d s Hok Hsl) Hy) as [Ky|[wy [Cy Ky]]]; rewrite Kx, Ky in Hk.
        * injection Hk as Hid. exact (NoDup_map_inj_in r_id _ _ _ Hr Hrl Hsl Hid).
        * discriminate.
        * discriminate.
        * injection Hk as ->.
          apply (NoDup_flat_map_inj_in (adopts d) (relations d) r s wy Hadopt Hrl Hsl);
            [rewrite Cx; left; reflexivity|rewrite Cy; left; reflexivity|exact (NoDup_map_inv _ _ Hr)].
      + (* way pass *)
        unfold Model.way_features.
        rewrite (flat_map_ext _ (fun w => olist (if memZ (w_id w) (skippable join ring_of o d) then None else way_feature o d w)))
          by (intros w; destruct (memZ _ _); reflexivity).
        apply (NoDup_keys_olist (fun w => if memZ (w_id w) (skippable join ring_of o d) then None else way_feature o d w)).
        * exact (NoDup_map_inv _ _ Hw).
        * intros a b x y Ha Hb Hx Hy Hk.
          destruct (memZ (w_id a) (skippable join ring_of o d)); [discriminate|].
          destruct (memZ (w_id b) (skippable join ring_of o d)); [discriminate|].
          rewrite (way_feature_key _ _ _ _ Hx), (way_feature_key _ _ _ _ Hy) in Hk. injection Hk as Hid.
          exact (NoDup_map_inj_in w_id _ _ _ Hw Ha Hb Hid).
      + (* node pass *)
        unfold node_features.
        rewrite (flat_map_ext _ (fun n => olist (if node_emitted o d n then node_feature o d n else None)))
          by (intros n; destruct (node_emitted _ _ _); reflexivity).
        apply (NoDup_keys_olist (fun n => if node_emitted o d n then node_feature o d n else None)).
        * exact (NoDup_map_inv _ _ Hn).
        * intros a b x y Ha Hb Hx Hy Hk.
          destruct (node_emitted o d a); [|discriminate]. destruct (node_emitted o d b); [|discriminate].
          rewrite (node_feature_key _ _ _ _ Hx), (node_feature_key _ _ _ _ Hy) in Hk. injection Hk as Hid.
          exact (NoDup_map_inj_in n_id _ _ _ Hn Ha Hb Hid).
      + (* way pass vs node pass *)
        intros k Hkw Hkn. apply in_map_iff in Hkw. destruct Hkw as [f [<- Hf]].
        apply in_map_iff in Hkn. destruct Hkn as [g [Hk Hg]].
        pose proof (way_feature_type _ _ _ _ _ Hf) as Tf.
        destruct (node_features_in _ _ _ Hg) as [n [_ [_ Hng]]].
        pose proof (node_feature_key _ _ _ _ Hng) as Kg. rewrite Hk in Kg. unfold fkey in Kg.
        injection Kg as Kt _. congruence.
      + (* relation pass vs the other two *)
        intros k Hkr Hko. apply in_map_iff in Hkr. destruct Hkr as [f [<- Hf]].
        rewrite <- map_app in Hko. apply in_map_iff in Hko. destruct Hko as [g [Hk Hg]].
        destruct (rel_features_in _ _ _ _ _ Hf) as [r [Hrl Hrf]].
        apply in_app_or in Hg. destruct Hg as [Hg|Hg].
        * destruct (way_features_in _ _ _ _ _ Hg) as [w [Hwl [Hskip Hwf]]].
          pose proof (way_feature_key _ _ _ _ Hwf) as Kg. rewrite Hk in Kg.
          pose proof (rel_result_adopts_skips _ _ _ _ _ _ _ (poly_ids_ok_rel d r Hok Hrl) Hrf Kg) as Hin.
          assert (Hs : In (w_id w) (skippable join ring_of o d)).
          { unfold Model.skippable. apply in_flat_map. exists r. split; assumption. }
          apply memZ_In in Hs. congruence.
        * destruct (node_features_in _ _ _ Hg) as [n [_ [_ Hng]]].
          pose proof (node_feature_key _ _ _ _ Hng) as Kg. rewrite Hk in Kg.
          apply (rel_feature_type _ _ _ _ _ Hok Hf). unfold fkey in Kg. injection Kg as Kt _. exact Kt.
  Qed.
End Dup.
