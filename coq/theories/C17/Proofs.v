(* C17/Proofs.v — structure of convert: what each pass can emit, the options, the node rule,
   way geometry, at most one feature per element.  All statements are for arbitrary [join] and
   [ring_of] (the mputil functions are Section variables of the model). *)
From Coq Require Import ZArith String List Bool Lia.
From Verif Require Import C17.Model C17.Spec C17.ProofsPacked.
Import ListNotations.
Open Scope Z_scope.
Open Scope list_scope.

Arguments way_line : simpl never.
Arguments has_interesting : simpl never.

(* ---------- small list facts ---------- *)
Lemma map_flat_map {A B C} (h : B -> C) (f : A -> list B) (l : list A) :
  map h (flat_map f l) = flat_map (fun a => map h (f a)) l.
Proof. induction l as [|a l IH]; [reflexivity|]. cbn. rewrite map_app, IH. reflexivity. Qed.

Lemma olist_map {A B} (h : A -> B) (o : option A) : map h (olist o) = olist (option_map h o).
Proof. destruct o; reflexivity. Qed.

Lemma memZ_In x l : memZ x l = true <-> In x l.
Proof.
  unfold memZ. rewrite existsb_exists. split.
  - intros [y [Hy He]]. apply Z.eqb_eq in He. subst. exact Hy.
  - intros H. exists x. split; [exact H|apply Z.eqb_refl].
Qed.

Lemma etype_eqb_eq a b : etype_eqb a b = true <-> a = b.
Proof. destruct a, b; cbn; split; intros H; try reflexivity; try discriminate. Qed.

(* ---------- shape of the relation pass ---------- *)
Section Shape.
  Variable join : list seg -> list (list seg).
  Variable ring_of : Z -> list seg -> list pt.

  Notation rel_result := (rel_result join ring_of).
  Notation poly_result := (poly_result join ring_of).
  Notation route_result := (route_result join).
  Notation convert := (convert join ring_of).
  Notation skippable := (skippable join ring_of).
  Notation rel_features := (rel_features join ring_of).
  Notation way_features := (way_features join ring_of).

  (* which way an old-style relation adopts, decided on the input alone: the last
     outer-role way member that yields a segment, when the relation has exactly one outer-role
     way member and no interesting tag of its own.  [adopt_candidate] over-approximates: it
     returns the ref of the single outer-role way member. *)
  Definition outer_refs (r : relation) : list Z :=
    flat_map (fun m => match m_type m with
                       | TWay => if String.eqb (m_role m) "outer" then [m_ref m] else []
                       | _ => []
                       end) (r_members r).

  (* [is_mp]: C17/Spec.v *)
  Definition adopt_candidate (r : relation) : list Z :=
    if is_mp r && negb (has_interesting (r_tags r) (Some old_style_ignore))
    then match outer_refs r with [x] => [x] | _ => [] end
    else [].

  (* key of the feature a relation produces *)
  Definition rel_key_ok (r : relation) (f : feature) : Prop :=
    fkey f = (TRel, r_id r) \/ (exists x, adopt_candidate r = [x] /\ fkey f = (TWay, x)).

  Lemma mk_feature_key o d ty ref ts t m g : fkey (mk_feature o d ty ref ts t m g) = (ty, ref).
  Proof. reflexivity. Qed.

  Lemma route_result_key o d r f :
    snd (route_result o d r) = Some f -> fkey f = (TRel, r_id r).
  Proof.
    unfold Model.route_result.
    destruct (flat_map rs_lines (map (route_step d) (r_members r))); cbn; [discriminate|].
    intros H. injection H as <-. reflexivity.
  Qed.

  Lemma find_last_some {A} (p : A -> bool) (l : list A) a :
    find_last p l = Some a -> In a l /\ p a = true.
  Proof.
    induction l as [|x l IH]; cbn; [discriminate|].
    destruct (find_last p l) eqn:Hf.
    - intros H. injection H as <-. destruct (IH eq_refl) as [Hi Hp]. split; [right; exact Hi|exact Hp].
    - destruct (p x) eqn:Hp; [|discriminate]. intros H. injection H as <-. split; [left; reflexivity|exact Hp].
  Qed.

  Lemma way_lookup_some d id w : way_lookup d id = Some w -> In w (ways d) /\ w_id w = id.
  Proof.
    intros H. destruct (find_last_some _ _ _ H) as [Hi Hp]. split; [exact Hi|apply Z.eqb_eq; exact Hp].
  Qed.

  Lemma member_way_id d m w :
    match way_lookup d (m_ref m) with
    | Some w => Some w
    | None => match m_nodes m with [] => None | ns => Some (pseudo_way (m_ref m) ns) end
    end = Some w -> w_id w = m_ref m.
  Proof.
    destruct (way_lookup d (m_ref m)) eqn:Hl.
    - intros H. injection H as <-. exact (proj2 (way_lookup_some _ _ _ Hl)).
    - destruct (m_nodes m); [discriminate|]. intros H. injection H as <-. reflexivity.
  Qed.

  Ltac break_step :=
    repeat match goal with
           | |- context [match ?x with _ => _ end] => destruct x eqn:?
           end.

  (* every outer segment's way id is an outer ref; such a member counts as outer *)
  Lemma poly_step_outer d rt m s w :
    In (s, w) (ps_outer (poly_step d rt m)) ->
    m_type m = TWay /\ String.eqb (m_role m) "outer" = true /\ w_id w = m_ref m.
  Proof.
    unfold poly_step. break_step; cbn; try tauto.
    all: intros [H|[]]; injection H as _ <-; repeat split.
    all: eapply member_way_id; eassumption.
  Qed.

  Lemma poly_step_cnt d rt m :
    ps_cnt (poly_step d rt m) =
    match m_type m with
    | TWay => if String.eqb (m_role m) "outer" then 1 else 0
    | _ => 0
    end.
  Proof. unfold poly_step. break_step; cbn in *; try reflexivity; try discriminate. Qed.

  Lemma cnt_sum_outer_refs d rt ms :
    fold_right Z.add 0 (map ps_cnt (map (poly_step d rt) ms)) =
    Z.of_nat (List.length (flat_map (fun m => match m_type m with
                       | TWay => if String.eqb (m_role m) "outer" then [m_ref m] else []
                       | _ => []
                       end) ms)).
  Proof.
    induction ms as [|m ms IH]; [reflexivity|].
    cbn [map fold_right flat_map]. rewrite app_length, Nat2Z.inj_add, IH, poly_step_cnt.
    destruct (m_type m); cbn [List.length]; try lia.
    destruct (String.eqb (m_role m) "outer"); cbn [List.length]; lia.
  Qed.

  Lemma outer_in_refs d rt ms s w :
    In (s, w) (flat_map ps_outer (map (poly_step d rt) ms)) ->
    In (w_id w) (flat_map (fun m => match m_type m with
                       | TWay => if String.eqb (m_role m) "outer" then [m_ref m] else []
                       | _ => []
                       end) ms).
  Proof.
    induction ms as [|m ms IH]; cbn; [tauto|].
    rewrite in_app_iff. intros [H|H]; apply in_or_app.
    - left. destruct (poly_step_outer _ _ _ _ _ H) as [Ht [Ho Hw]].
      rewrite Ht, Ho, Hw. left. reflexivity.
    - right. apply IH. exact H.
  Qed.

  (* an outer segment comes from an outer-role way member of the relation *)
  Lemma outer_in_members d rt ms s w :
    In (s, w) (flat_map ps_outer (map (poly_step d rt) ms)) ->
    exists m, In m ms /\ is_outer_way m = true /\ w_id w = m_ref m.
  Proof.
    induction ms as [|m ms IH]; cbn; [tauto|].
    rewrite in_app_iff. intros [H|H].
    - destruct (poly_step_outer _ _ _ _ _ H) as [Ht [Ho Hw]]. exists m. split; [left; reflexivity|].
      split; [|exact Hw]. unfold is_outer_way. rewrite Ht, Ho. reflexivity.
    - destruct (IH H) as [m' [Hm' H']]. exists m'. split; [right; exact Hm'|exact H'].
  Qed.

  (* on relations whose own id and outer way members are in [0,2^40) buildPolygon's identity tail
     is the plain one *)
  Lemma poly_result_exact o d r :
    poly_in_range r = true -> poly_result o d r = poly_result_with join ring_of mk_feature o d r.
  Proof.
    intros Hin. unfold Model.poly_result, Model.poly_result_with.
    set (steps := map (poly_step d (r_tags r)) (r_members r)).
    destruct (is_nil (flat_map ps_outer steps) && negb (inclInvalid o)); [reflexivity|].
    pose proof (poly_in_range_id r Hin) as Hid.
    destruct (flat_map ps_outer steps) as [|[s w] rest] eqn:Houter.
    - destruct (is_nil _ && negb _); [reflexivity|].
      destruct (mp_geom _); [|reflexivity]. rewrite mk_poly_feature_exact by (discriminate || exact Hid). reflexivity.
    - assert (Hw : in40 (w_id w) = true).
      { destruct (outer_in_members d (r_tags r) (r_members r) s w) as [m [Hm [Ho Hw]]].
        - fold steps. rewrite Houter. left. reflexivity.
        - rewrite Hw. exact (poly_in_range_outer r m Hin Hm Ho). }
      destruct rest as [|p rest].
      + destruct (fold_right Z.add 0 (map ps_cnt steps) =? 1).
        * destruct (ring_invalid _); [reflexivity|].
          destruct (has_interesting (r_tags r) (Some old_style_ignore)).
          -- rewrite mk_poly_feature_exact by (discriminate || exact Hid). reflexivity.
          -- rewrite mk_poly_feature_exact by (discriminate || exact Hw). reflexivity.
        * destruct (is_nil _ && negb _); [reflexivity|].
          destruct (mp_geom _); [|reflexivity]. rewrite mk_poly_feature_exact by (discriminate || exact Hid). reflexivity.
      + destruct (is_nil _ && negb _); [reflexivity|].
        destruct (mp_geom _); [|reflexivity]. rewrite mk_poly_feature_exact by (discriminate || exact Hid). reflexivity.
  Qed.

  Lemma poly_result_key o d r f :
    poly_in_range r = true ->
    is_mp r = true -> snd (poly_result o d r) = Some f -> rel_key_ok r f.
  Proof.
    intros Hin Hmp. rewrite (poly_result_exact o d r Hin). unfold Model.poly_result_with.
    set (steps := map (poly_step d (r_tags r)) (r_members r)).
    destruct (is_nil (flat_map ps_outer steps) && negb (inclInvalid o)); cbn; [discriminate|].
    destruct (flat_map ps_outer steps) as [|[s w] rest] eqn:Houter.
    - destruct (is_nil _ && negb _); cbn; [discriminate|].
      destruct (mp_geom _); cbn; [|discriminate]. intros H. injection H as <-. left. reflexivity.
    - destruct rest as [|p rest].
      + destruct (fold_right Z.add 0 (map ps_cnt steps) =? 1) eqn:Hc.
        * destruct (ring_invalid _); cbn; [discriminate|].
          destruct (has_interesting (r_tags r) (Some old_style_ignore)) eqn:Hi; cbn.
          -- intros H. injection H as <-. left. reflexivity.
          -- intros H. injection H as <-. right. exists (w_id w). split; [|reflexivity].
             unfold adopt_candidate. rewrite Hmp, Hi. cbn.
             apply Z.eqb_eq in Hc. subst steps. rewrite cnt_sum_outer_refs in Hc.
             assert (Hinr : In (w_id w) (outer_refs r)).
             { apply (outer_in_refs d (r_tags r) _ s). rewrite Houter. left. reflexivity. }
             unfold outer_refs in *.
             destruct (flat_map _ (r_members r)) as [|x [|y l]]; cbn in Hc; try lia.
             destruct Hinr as [->|[]]. reflexivity.
        * destruct (is_nil _ && negb _); cbn; [discriminate|].
          destruct (mp_geom _); cbn; [|discriminate]. intros H. injection H as <-. left. reflexivity.
      + destruct (is_nil _ && negb _); cbn; [discriminate|].
        destruct (mp_geom _); cbn; [|discriminate]. intros H. injection H as <-. left. reflexivity.
  Qed.

  Lemma rel_result_key o d r f :
    (is_mp r = true -> poly_in_range r = true) -> snd (rel_result o d r) = Some f -> rel_key_ok r f.
  Proof.
    intros Hin. unfold Model.rel_result.
    destruct (String.eqb (tag_find (r_tags r) "type") "route") eqn:Hr.
    - intros H. left. exact (route_result_key _ _ _ _ H).
    - destruct (String.eqb _ "multipolygon" || String.eqb _ "boundary") eqn:Hm; [|discriminate].
      assert (Hmp : is_mp r = true) by (unfold is_mp; rewrite Hr, Hm; reflexivity).
      apply poly_result_key; [exact (Hin Hmp)|exact Hmp].
  Qed.

  (* an adopted way is added to skippable by the same relation *)
  Lemma poly_result_adopts_skips o d r f x :
    poly_in_range r = true ->
    snd (poly_result o d r) = Some f -> fkey f = (TWay, x) -> In x (fst (poly_result o d r)).
  Proof.
    intros Hin. rewrite (poly_result_exact o d r Hin). unfold Model.poly_result_with.
    set (steps := map (poly_step d (r_tags r)) (r_members r)).
    destruct (is_nil (flat_map ps_outer steps) && negb (inclInvalid o)); cbn; [discriminate|].
    destruct (flat_map ps_outer steps) as [|[s w] rest].
    - destruct (is_nil _ && negb _); cbn; [discriminate|].
      destruct (mp_geom _); cbn; [|discriminate]. intros H. injection H as <-. discriminate.
    - destruct rest as [|p rest].
      + destruct (fold_right Z.add 0 (map ps_cnt steps) =? 1).
        * destruct (ring_invalid _); cbn; [discriminate|].
          destruct (has_interesting (r_tags r) (Some old_style_ignore)); cbn.
          -- intros H. injection H as <-. discriminate.
          -- intros H. injection H as <-. cbn. intros Hk. injection Hk as <-.
             apply in_or_app. right. left. reflexivity.
        * destruct (is_nil _ && negb _); cbn; [discriminate|].
          destruct (mp_geom _); cbn; [|discriminate]. intros H. injection H as <-. discriminate.
      + destruct (is_nil _ && negb _); cbn; [discriminate|].
        destruct (mp_geom _); cbn; [|discriminate]. intros H. injection H as <-. discriminate.
  Qed.

  Lemma rel_result_adopts_skips o d r f x :
    (is_mp r = true -> poly_in_range r = true) ->
    snd (rel_result o d r) = Some f -> fkey f = (TWay, x) -> In x (fst (rel_result o d r)).
  Proof.
    intros Hin. unfold Model.rel_result.
    destruct (String.eqb (tag_find (r_tags r) "type") "route") eqn:Hr.
    - intros H Hk. rewrite (route_result_key _ _ _ _ H) in Hk. discriminate.
    - destruct (String.eqb _ "multipolygon" || String.eqb _ "boundary") eqn:Hm; [|discriminate].
      apply poly_result_adopts_skips. apply Hin. unfold is_mp. rewrite Hr, Hm. reflexivity.
  Qed.

  (* ---------- keys of the three passes ---------- *)
  Lemma rel_features_in o d f :
    In f (rel_features o d) -> exists r, In r (relations d) /\ snd (rel_result o d r) = Some f.
  Proof.
    unfold Model.rel_features. rewrite in_flat_map. intros [r [Hr Hf]]. exists r. split; [exact Hr|].
    destruct (snd (rel_result o d r)); cbn in Hf; [|tauto]. destruct Hf as [->|[]]. reflexivity.
  Qed.

  Lemma way_feature_key o d w f : way_feature o d w = Some f -> fkey f = (TWay, w_id w).
  Proof.
    unfold way_feature. destruct (way_line d (w_nodes w)) as [ls t].
    destruct (List.length ls <=? 1)%nat; [discriminate|]. intros H. injection H as <-. reflexivity.
  Qed.

  Lemma way_features_in o d f :
    In f (way_features o d) ->
    exists w, In w (ways d) /\ memZ (w_id w) (skippable o d) = false /\ way_feature o d w = Some f.
  Proof.
    unfold Model.way_features. rewrite in_flat_map. intros [w [Hw Hf]]. exists w. split; [exact Hw|].
    destruct (memZ (w_id w) (skippable o d)); cbn in Hf; [tauto|]. split; [reflexivity|].
    destruct (way_feature o d w); cbn in Hf; [|tauto]. destruct Hf as [->|[]]. reflexivity.
  Qed.

  Lemma node_feature_key o d n f : node_feature o d n = Some f -> fkey f = (TNode, n_id n).
  Proof. unfold node_feature. destruct (node_located n); [|discriminate]. intros H. injection H as <-. reflexivity. Qed.

  Lemma node_features_in o d f :
    In f (node_features o d) ->
    exists n, In n (nodes d) /\ node_emitted o d n = true /\ node_feature o d n = Some f.
  Proof.
    unfold node_features. rewrite in_flat_map. intros [n [Hn Hf]]. exists n. split; [exact Hn|].
    destruct (node_emitted o d n); cbn in Hf; [|tauto]. split; [reflexivity|].
    destruct (node_feature o d n); cbn in Hf; [|tauto]. destruct Hf as [->|[]]. reflexivity.
  Qed.

  Lemma rel_feature_type o d f : poly_ids_ok d = true -> In f (rel_features o d) -> f_type f <> TNode.
  Proof.
    intros Hok H. destruct (rel_features_in _ _ _ H) as [r [Hrl Hf]].
    destruct (rel_result_key _ _ _ _ (poly_ids_ok_rel d r Hok Hrl) Hf) as [Hk|[x [_ Hk]]]; unfold fkey in Hk; injection Hk as Ht _;
      rewrite Ht; discriminate.
  Qed.

  Lemma way_feature_type o d f : In f (way_features o d) -> f_type f = TWay.
  Proof.
    intros H. destruct (way_features_in _ _ _ H) as [w [_ [_ Hf]]].
    pose proof (way_feature_key _ _ _ _ Hf) as Hk. unfold fkey in Hk. injection Hk as Ht _. exact Ht.
  Qed.

  (* ---------- at most one feature per element ---------- *)
  Lemma NoDup_app_intro {A} (a b : list A) :
    NoDup a -> NoDup b -> (forall x, In x a -> ~ In x b) -> NoDup (a ++ b).
  Proof.
    induction a as [|x a IH]; intros Ha Hb Hd; cbn; [exact Hb|].
    inversion Ha as [|? ? Hx Ha']; subst. constructor.
    - rewrite in_app_iff. intros [H|H]; [exact (Hx H)|exact (Hd x (or_introl eq_refl) H)].
    - apply IH; [exact Ha'|exact Hb|]. intros y Hy. apply Hd. right. exact Hy.
  Qed.

  Lemma NoDup_map_inj_in {A B} (f : A -> B) (l : list A) a b :
    NoDup (map f l) -> In a l -> In b l -> f a = f b -> a = b.
  Proof.
    induction l as [|x l IH]; cbn; intros Hn Ha Hb He; [tauto|].
    inversion Hn as [|? ? Hx Hn']; subst.
    destruct Ha as [->|Ha], Hb as [->|Hb]; try reflexivity.
    - exfalso. apply Hx. rewrite He. apply in_map. exact Hb.
    - exfalso. apply Hx. rewrite <- He. apply in_map. exact Ha.
    - apply IH; assumption.
  Qed.

  Lemma NoDup_flat_map_inj_in {A B} (f : A -> list B) (l : list A) a b k :
    NoDup (flat_map f l) -> In a l -> In b l -> In k (f a) -> In k (f b) -> NoDup l -> a = b.
  Proof.
    induction l as [|x l IH]; cbn; intros Hn Ha Hb Hka Hkb Hl; [tauto|].
    inversion Hl as [|? ? Hx Hl']; subst.
    assert (Hsplit : NoDup (f x) /\ NoDup (flat_map f l) /\ (forall y, In y (f x) -> ~ In y (flat_map f l))).
    { clear -Hn. induction (f x) as [|y ys IHy]; cbn in Hn.
      - split; [constructor|]. split; [exact Hn|]. intros y [].
      - inversion Hn as [|? ? Hy Hn']; subst. destruct (IHy Hn') as [H1 [H2 H3]].
        split; [constructor; [intros Hin; apply Hy; apply in_or_app; left; exact Hin|exact H1]|].
        split; [exact H2|]. intros z [<-|Hz]; [intros Hin; apply Hy; apply in_or_app; right; exact Hin|apply H3; exact Hz]. }
    destruct Hsplit as [_ [Hn2 Hdisj]].
    destruct Ha as [->|Ha], Hb as [->|Hb]; try reflexivity.
    - exfalso. apply (Hdisj k Hka). apply in_flat_map. exists b. split; assumption.
    - exfalso. apply (Hdisj k Hkb). apply in_flat_map. exists a. split; assumption.
    - apply (IH Hn2 Ha Hb Hka Hkb Hl').
  Qed.

  (* features produced one per source item: distinct keys when sources with equal keys coincide *)
  Lemma NoDup_keys_olist {A} (g : A -> option feature) (l : list A) :
    NoDup l ->
    (forall a b x y, In a l -> In b l -> g a = Some x -> g b = Some y -> fkey x = fkey y -> a = b) ->
    NoDup (map fkey (flat_map (fun a => olist (g a)) l)).
  Proof.
    induction l as [|a l IH]; intros Hl Hinj; cbn; [constructor|].
    inversion Hl as [|? ? Ha Hl']; subst.
    assert (IH' : NoDup (map fkey (flat_map (fun a => olist (g a)) l))).
    { apply IH; [exact Hl'|]. intros x y fx fy Hx Hy. apply Hinj; right; assumption. }
    rewrite map_app. destruct (g a) as [fa|] eqn:Hga; cbn; [|exact IH'].
    constructor; [|exact IH'].
    intros Hin. apply in_map_iff in Hin. destruct Hin as [fb [Hk Hfb]].
    apply in_flat_map in Hfb. destruct Hfb as [b [Hb Hgb]].
    destruct (g b) as [fb'|] eqn:Hgb'; cbn in Hgb; [|tauto]. destruct Hgb as [->|[]].
    assert (a = b) as <-.
    { apply (Hinj a b fa fb); [left; reflexivity|right; exact Hb|exact Hga|exact Hgb'|symmetry; exact Hk]. }
    exact (Ha Hb).
  Qed.

  (* the hypothesis the proof needs: no way is the adoption candidate of two relations *)
  Definition adoption_unique (d : osm) : Prop := NoDup (flat_map adopt_candidate (relations d)).
  Definition ids_unique (d : osm) : Prop :=
    NoDup (map n_id (nodes d)) /\ NoDup (map w_id (ways d)) /\ NoDup (map r_id (relations d)).

  Theorem at_most_one_feature_per_element o d :
    poly_ids_ok d = true ->
    ids_unique d -> adoption_unique d -> NoDup (map fkey (convert o d)).
  Proof.
    intros Hok [Hn [Hw Hr]] Hadopt. unfold Model.convert. rewrite !map_app.
    apply NoDup_app_intro; [|apply NoDup_app_intro|].
    - (* relation pass *)
      unfold Model.rel_features. apply NoDup_keys_olist; [exact (NoDup_map_inv _ _ Hr)|].
      intros r s x y Hrl Hsl Hx Hy Hk.
      destruct (rel_result_key _ _ _ _ (poly_ids_ok_rel d r Hok Hrl) Hx) as [Kx|[wx [Cx Kx]]];
        destruct (rel_result_key _ _ _ _ (poly_ids_ok_rel d s Hok Hsl) Hy) as [Ky|[wy [Cy Ky]]]; rewrite Kx, Ky in Hk.
      + injection Hk as Hid. exact (NoDup_map_inj_in r_id _ _ _ Hr Hrl Hsl Hid).
      + discriminate.
      + discriminate.
      + injection Hk as ->.
        apply (NoDup_flat_map_inj_in adopt_candidate (relations d) r s wy Hadopt Hrl Hsl);
          [rewrite Cx; left; reflexivity|rewrite Cy; left; reflexivity|exact (NoDup_map_inv _ _ Hr)].
    - (* way pass *)
      unfold Model.way_features.
      rewrite (flat_map_ext _ (fun w => olist (if memZ (w_id w) (skippable o d) then None else way_feature o d w)))
        by (intros w; destruct (memZ _ _); reflexivity).
      apply (NoDup_keys_olist (fun w => if memZ (w_id w) (skippable o d) then None else way_feature o d w)).
      + exact (NoDup_map_inv _ _ Hw).
      + intros a b x y Ha Hb Hx Hy Hk.
        destruct (memZ (w_id a) (skippable o d)); [discriminate|].
        destruct (memZ (w_id b) (skippable o d)); [discriminate|].
        rewrite (way_feature_key _ _ _ _ Hx), (way_feature_key _ _ _ _ Hy) in Hk. injection Hk as Hid.
        exact (NoDup_map_inj_in w_id _ _ _ Hw Ha Hb Hid).
    - (* node pass *)
      unfold node_features.
      rewrite (flat_map_ext _ (fun n => olist (if node_emitted o d n then node_feature o d n else None)))
        by (intros n; destruct (node_emitted _ _ _); reflexivity).
      apply (NoDup_keys_olist (fun n => if node_emitted o d n then node_feature o d n else None)).
      + exact (NoDup_map_inv _ _ Hn).
      + intros a b x y Ha Hb Hx Hy Hk.
        destruct (node_emitted o d a); [|discriminate]. destruct (node_emitted o d b); [|discriminate].
        rewrite (node_feature_key _ _ _ _ Hx), (node_feature_key _ _ _ _ Hy) in Hk. injection Hk as Hid.
        exact (NoDup_map_inj_in n_id _ _ _ Hn Ha Hb Hid).
    - (* way pass vs node pass *)
      intros k Hkw Hkn. apply in_map_iff in Hkw. destruct Hkw as [f [<- Hf]].
      apply in_map_iff in Hkn. destruct Hkn as [g [Hk Hg]].
      pose proof (way_feature_type _ _ _ Hf) as Tf.
      destruct (node_features_in _ _ _ Hg) as [n [_ [_ Hng]]].
      pose proof (node_feature_key _ _ _ _ Hng) as Kg. rewrite Hk in Kg. unfold fkey in Kg.
      injection Kg as Kt _. congruence.
    - (* relation pass vs the other two *)
      intros k Hkr Hko. apply in_map_iff in Hkr. destruct Hkr as [f [<- Hf]].
      rewrite <- map_app in Hko. apply in_map_iff in Hko. destruct Hko as [g [Hk Hg]].
      destruct (rel_features_in _ _ _ Hf) as [r [Hrl Hrf]].
      apply in_app_or in Hg. destruct Hg as [Hg|Hg].
      + destruct (way_features_in _ _ _ Hg) as [w [Hwl [Hskip Hwf]]].
        pose proof (way_feature_key _ _ _ _ Hwf) as Kg. rewrite Hk in Kg.
        pose proof (rel_result_adopts_skips _ _ _ _ _ (poly_ids_ok_rel d r Hok Hrl) Hrf Kg) as Hin.
        assert (Hs : In (w_id w) (skippable o d)).
        { unfold Model.skippable. apply in_flat_map. exists r. split; assumption. }
        apply memZ_In in Hs. congruence.
      + destruct (node_features_in _ _ _ Hg) as [n [_ [_ Hng]]].
        pose proof (node_feature_key _ _ _ _ Hng) as Kg. rewrite Hk in Kg.
        apply (rel_feature_type _ _ _ Hok Hf). unfold fkey in Kg. injection Kg as Kt _. exact Kt.
  Qed.
End Shape.
