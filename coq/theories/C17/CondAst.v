(* C17/CondAst.v — the expression type of the branch conditions translated from osmgeojson's Go
   source (translator/cmd/convertconds -> gen/GenConvert.v) and its evaluator.  Leaves are opaque
   Go subexpressions named by their (normalised) source text; an environment gives them values. *)
From Coq Require Import ZArith String List Bool.
Import ListNotations.
Open Scope Z_scope.

Inductive cx :=
| CLeaf (name : string)
| CInt (z : Z) | CStr (s : string) | CNil | CTrue | CFalse
| CNot (a : cx) | CAnd (a b : cx) | COr (a b : cx)
| CEq (a b : cx) | CNe (a b : cx) | CLt (a b : cx) | CLe (a b : cx) | CGt (a b : cx) | CGe (a b : cx)
| CAdd (a b : cx) | CSub (a b : cx).

(* VNil b: a nil-comparable value, b = "is nil"; VErr: ill-typed or unknown leaf *)
Inductive cval := VB (b : bool) | VZ (z : Z) | VS (s : string) | VNil (isnil : bool) | VErr.

Definition veq (x y : cval) : cval :=
  match x, y with
  | VB a, VB b => VB (Bool.eqb a b)
  | VZ a, VZ b => VB (a =? b)
  | VS a, VS b => VB (String.eqb a b)
  | VNil a, VNil b => VB (Bool.eqb a b)
  | _, _ => VErr
  end.
Definition vnot (x : cval) : cval := match x with VB b => VB (negb b) | _ => VErr end.
Definition vcmp (f : Z -> Z -> bool) (x y : cval) : cval :=
  match x, y with VZ a, VZ b => VB (f a b) | _, _ => VErr end.
Definition varith (f : Z -> Z -> Z) (x y : cval) : cval :=
  match x, y with VZ a, VZ b => VZ (f a b) | _, _ => VErr end.

Fixpoint ceval (env : string -> cval) (c : cx) : cval :=
  match c with
  | CLeaf n => env n
  | CInt z => VZ z
  | CStr s => VS s
  | CNil => VNil true
  | CTrue => VB true
  | CFalse => VB false
  | CNot a => vnot (ceval env a)
  | CAnd a b => match ceval env a, ceval env b with VB x, VB y => VB (x && y) | _, _ => VErr end
  | COr a b => match ceval env a, ceval env b with VB x, VB y => VB (x || y) | _, _ => VErr end
  | CEq a b => veq (ceval env a) (ceval env b)
  | CNe a b => vnot (veq (ceval env a) (ceval env b))
  | CLt a b => vcmp Z.ltb (ceval env a) (ceval env b)
  | CLe a b => vcmp Z.leb (ceval env a) (ceval env b)
  | CGt a b => vcmp Z.gtb (ceval env a) (ceval env b)
  | CGe a b => vcmp Z.geb (ceval env a) (ceval env b)
  | CAdd a b => varith Z.add (ceval env a) (ceval env b)
  | CSub a b => varith Z.sub (ceval env a) (ceval env b)
  end.

Fixpoint cx_eqb (a b : cx) : bool :=
  match a, b with
  | CLeaf x, CLeaf y => String.eqb x y
  | CInt x, CInt y => x =? y
  | CStr x, CStr y => String.eqb x y
  | CNil, CNil | CTrue, CTrue | CFalse, CFalse => true
  | CNot x, CNot y => cx_eqb x y
  | CAnd x1 x2, CAnd y1 y2 | COr x1 x2, COr y1 y2 | CEq x1 x2, CEq y1 y2 | CNe x1 x2, CNe y1 y2
  | CLt x1 x2, CLt y1 y2 | CLe x1 x2, CLe y1 y2 | CGt x1 x2, CGt y1 y2 | CGe x1 x2, CGe y1 y2
  | CAdd x1 x2, CAdd y1 y2 | CSub x1 x2, CSub y1 y2 =>
      cx_eqb x1 y1 && cx_eqb x2 y2
  | _, _ => false
  end.

(* environments as association lists; an unknown leaf is an error *)
Fixpoint env_of (l : list (string * cval)) (n : string) : cval :=
  match l with
  | [] => VErr
  | (k, v) :: r => if String.eqb k n then v else env_of r n
  end.

Definition occurs (c : cx) (l : list cx) : bool := existsb (cx_eqb c) l.

(* ---- events of the path-sensitive translation (translator/cmd/convertflow) ---- *)
(* (scope, kind, text, value, path condition) *)
Definition event := (string * string * string * string * cx)%type.
Definition ev_scope (e : event) : string := fst (fst (fst (fst e))).
Definition ev_kind (e : event) : string := snd (fst (fst (fst e))).
Definition ev_text (e : event) : string := snd (fst (fst e)).
Definition ev_val (e : event) : string := snd (fst e).
Definition ev_pc (e : event) : cx := snd e.

Definition disj (l : list cx) : cx := fold_right COr CFalse l.

(* under which condition does an event (scope, kind, text) happen: the disjunction of the path
   conditions of all its occurrences *)
Definition pc_of (evs : list event) (scope kind text : string) : cx :=
  disj (map ev_pc (filter (fun e => String.eqb (ev_scope e) scope && String.eqb (ev_kind e) kind
                                    && String.eqb (ev_text e) text) evs)).
(* the same, restricted to a given assigned value *)
Definition pc_of_val (evs : list event) (scope kind text val : string) : cx :=
  disj (map ev_pc (filter (fun e => String.eqb (ev_scope e) scope && String.eqb (ev_kind e) kind
                                    && String.eqb (ev_text e) text && String.eqb (ev_val e) val) evs)).
Definition happens (evs : list event) (scope kind text : string) : bool :=
  existsb (fun e => String.eqb (ev_scope e) scope && String.eqb (ev_kind e) kind && String.eqb (ev_text e) text) evs.
