(* C17/ProofsWitness.v — the refutation witness of the unconditional at-most-one claim and the
   assembled statement about IncludeInvalidPolygons. *)
From Coq Require Import ZArith String List Bool Lia.
From Verif Require Import C17.Model C17.Spec C17.Mputil C17.Proofs C17.ProofsOpts C17.ProofsIncl C17.Examples.
Import ListNotations.
Open Scope Z_scope.

Lemma NoDup_keys_unique fs : NoDup (map fkey fs) -> keys_unique fs = true.
Proof.
  unfold keys_unique. induction (map fkey fs) as [|k l IH]; intros H; [reflexivity|].
  inversion H as [|? ? Hk Hl]; subst. cbn. rewrite (IH Hl), andb_true_r.
  destruct (existsb (key_eqb k) l) eqn:He; [|reflexivity]. exfalso. apply Hk.
  apply existsb_exists in He. destruct He as [k' [Hin Heq]].
  unfold key_eqb in Heq. apply andb_true_iff in Heq. destruct Heq as [H1 H2].
  apply etype_eqb_eq in H1. apply Z.eqb_eq in H2. destruct k, k'; cbn in *; subst. exact Hin.
Qed.

Lemma ids_unique_shared : ids_unique d_shared.
Proof.
  unfold ids_unique. cbn.
  repeat split; repeat (constructor; [cbn; intuition discriminate|]); constructor.
Qed.

Lemma at_most_one_feature_refuted :
  exists d, ids_unique d /\ ~ NoDup (map fkey (convert Mputil.join Mputil.ring_of o0 d)).
Proof.
  exists d_shared. split; [exact ids_unique_shared|].
  intros H. apply NoDup_keys_unique in H. vm_compute in H. discriminate.
Qed.

Lemma option_IncludeInvalidPolygons : forall join ring_of o d,
  skippable join ring_of (set_incl true o) d = skippable join ring_of (set_incl false o) d /\
  way_features join ring_of (set_incl true o) d = way_features join ring_of (set_incl false o) d /\
  node_features (set_incl true o) d = node_features (set_incl false o) d /\
  forall r,
    (is_mp r = false ->
     rel_result join ring_of (set_incl true o) d r = rel_result join ring_of (set_incl false o) d r) /\
    (forall f, snd (rel_result join ring_of (set_incl false o) d r) = Some f ->
       exists g, snd (rel_result join ring_of (set_incl true o) d r) = Some (with_geom f g) /\
                 rings_sub (geom_rings (f_geom f)) (geom_rings g) = true).
Proof.
  intros join ring_of o d.
  split; [exact (skippable_incl join ring_of o d)|].
  split; [exact (way_features_incl join ring_of o d)|].
  split; [exact (node_features_incl o d)|].
  intros r. destruct (rel_result_incl join ring_of o d r) as [_ [H2 _]]. split; [exact H2|].
  intros f Hf. exact (rel_result_incl_rings join ring_of o d r f Hf).
Qed.

(* the stronger reading of IncludeInvalidPolygons is false of the model (and of the code: the
   harness corpus contains d_hole and model = implementation there) *)
Lemma incl_keeps_holes_refuted :
  exists d r f f',
    In r (relations d) /\
    snd (rel_result Mputil.join Mputil.ring_of (set_incl false o0) d r) = Some f /\
    snd (rel_result Mputil.join Mputil.ring_of (set_incl true o0) d r) = Some f' /\
    polys_kept (f_geom f) (f_geom f') = false /\
    rings_sub (geom_rings (f_geom f)) (geom_rings (f_geom f')) = true.
Proof.
  exists d_hole, r_hole. eexists. eexists. split; [left; reflexivity|].
  split; [vm_compute; reflexivity|]. split; [vm_compute; reflexivity|]. split; vm_compute; reflexivity.
Qed.
