(* C17/ProofsWitness.v — the refutation witness of the unconditional at-most-one claim and the
   assembled statement about IncludeInvalidPolygons. *)
From Coq Require Import ZArith String List Bool Lia.
From Verif Require Import C17.Model C17.Spec C17.Mputil C17.ProofsPacked C17.Proofs C17.ProofsOpts C17.ProofsIncl C17.ProofsCarry C17.Examples.
Import ListNotations.
Open Scope Z_scope.

Lemma NoDup_keys_unique fs : NoDup (map fkey fs) -> keys_unique fs = true.
Proof.
  unfold keys_unique. induction (map fkey fs) as [|k l IH]; intros H; [reflexivity|].
  inversion H as [|? ? Hk Hl]; subst. cbn. rewrite (IH Hl), andb_true_r.
  destruct (existsb (key_eqb k) l) eqn:He; [|reflexivity]. exfalso. apply Hk.
  apply existsb_exists in He. destruct He as [k' [Hin Heq]].
  unfold key_eqb in Heq. apply andb_true_iff in Heq. destruct Heq as [H1 H2].
  apply etype_eqb_eq in H1. apply Z.eqb_eq in H2. destruct k, k'; cbn in *; subst. exact Hin.
Qed.

Lemma ids_unique_shared : ids_unique d_shared.
Proof.
  unfold ids_unique. cbn.
  repeat split; repeat (constructor; [cbn; intuition discriminate|]); constructor.
Qed.

Lemma at_most_one_feature_refuted :
  exists d, ids_unique d /\ ~ NoDup (map fkey (convert Mputil.join Mputil.ring_of o0 d)).
Proof.
  exists d_shared. split; [exact ids_unique_shared|].
  intros H. apply NoDup_keys_unique in H. vm_compute in H. discriminate.
Qed.

Lemma option_IncludeInvalidPolygons : forall join ring_of o d,
  skippable join ring_of (set_incl true o) d = skippable join ring_of (set_incl false o) d /\
  way_features join ring_of (set_incl true o) d = way_features join ring_of (set_incl false o) d /\
  node_features (set_incl true o) d = node_features (set_incl false o) d /\
  forall r,
    (is_mp r = false ->
     rel_result join ring_of (set_incl true o) d r = rel_result join ring_of (set_incl false o) d r) /\
    (forall f, snd (rel_result join ring_of (set_incl false o) d r) = Some f ->
       exists g, snd (rel_result join ring_of (set_incl true o) d r) = Some (with_geom f g) /\
                 rings_sub (geom_rings (f_geom f)) (geom_rings g) = true).
Proof.
  intros join ring_of o d.
  split; [exact (skippable_incl join ring_of o d)|].
  split; [exact (way_features_incl join ring_of o d)|].
  split; [exact (node_features_incl o d)|].
  intros r. destruct (rel_result_incl join ring_of o d r) as [_ [H2 _]]. split; [exact H2|].
  intros f Hf. exact (rel_result_incl_rings join ring_of o d r f Hf).
Qed.

(* the stronger reading of IncludeInvalidPolygons is false of the model (and of the code: the
   harness corpus contains d_hole and model = implementation there) *)
Lemma incl_keeps_holes_refuted :
  exists d r f f',
    In r (relations d) /\
    snd (rel_result Mputil.join Mputil.ring_of (set_incl false o0) d r) = Some f /\
    snd (rel_result Mputil.join Mputil.ring_of (set_incl true o0) d r) = Some f' /\
    polys_kept (f_geom f) (f_geom f') = false /\
    rings_sub (geom_rings (f_geom f)) (geom_rings (f_geom f')) = true.
Proof.
  exists d_hole, r_hole. eexists. eexists. split; [left; reflexivity|].
  split; [vm_compute; reflexivity|]. split; [vm_compute; reflexivity|]. split; vm_compute; reflexivity.
Qed.

(* ---------- the packed FeatureID (known finding polygon-id-outside-packed-range) ---------- *)
Definition f_dummy : feature :=
  {| f_id := None; f_type := TNode; f_ref := 0; f_tags := []; f_tainted := false; f_rels := None;
     f_meta := None; f_geom := GPoint (0, 0) |}.

(* "every feature carries its element" is false of the faithful model without [packed_ok]:
   the multipolygon relation -1 of d_polyneg comes out with type "" and id 2^40-1
   (harness corpus case polyNegativeID: model = implementation there) *)
Lemma polygon_relation_id_outside_packed_range_refuted :
  exists d f, ids_unique d /\ key_clash d = false /\ poly_ids_ok d = false /\
              In f (convert Mputil.join Mputil.ring_of o0 d) /\
              f_type f = TNone /\ f_ref f = 1099511627775 /\ ~ carries_element o0 d f.
Proof.
  exists d_polyneg, (hd f_dummy (convert Mputil.join Mputil.ring_of o0 d_polyneg)).
  split; [|split; [vm_compute; reflexivity|split; [vm_compute; reflexivity|
           split; [vm_compute; left; reflexivity|split; [vm_compute; reflexivity|split; [vm_compute; reflexivity|]]]]]].
  - unfold ids_unique. cbn.
    repeat split; repeat (constructor; [cbn; intuition discriminate|]); constructor.
  - intros (ts & m & _ & _ & _ & _ & H). vm_compute in H. exact H.
Qed.

(* and without [key_clash d = false]: node -1 of d_clash is reported as a member of relation 5
   (the entry names WAY -1), and it is emitted only because of that: with NoRelationMembership the
   way entry is not recorded and the node disappears, so the option does not merely erase a field
   (harness corpus case keyClash) *)
Lemma membership_key_clash_refuted :
  exists d, ids_unique d /\ poly_ids_ok d = true /\ key_clash d = true /\
    (exists f, In f (convert Mputil.join Mputil.ring_of o0 d) /\ fkey f = (TNode, -1) /\
               f_rels f <> Some (spec_rels d (fkey f))) /\
    convert Mputil.join Mputil.ring_of (set_noRelM true o0) d
      <> map erase_rels (convert Mputil.join Mputil.ring_of (set_noRelM false o0) d).
Proof.
  exists d_clash. split; [|split; [vm_compute; reflexivity|split; [vm_compute; reflexivity|split]]].
  - unfold ids_unique. cbn.
    repeat split; repeat (constructor; [cbn; intuition discriminate|]); constructor.
  - exists (last (convert Mputil.join Mputil.ring_of o0 d_clash) f_dummy).
    split; [vm_compute; right; left; reflexivity|]. split; [vm_compute; reflexivity|].
    vm_compute. discriminate.
  - vm_compute. discriminate.
Qed.
