(* C17/ProofsOracle.v — the judgement-2 oracle (C17/Spec.v) and the theorems say the same thing:
   reflection of the boolean clauses into the Prop-level statements, ties of the model's helper
   functions to C18's models of package osm, and soundness of the completeness clauses (the
   model's own output always passes them: they cannot raise a false alarm). *)
From Coq Require Import ZArith String List Bool Lia.
From Verif Require Import C17.Model C17.Spec C17.Proofs C17.ProofsGeom C17.ProofsDup C17.ProofsAbsorb C17.GenOk.
From VerifGen Require Import GenTags.
From Verif Require C18.Tags C18.Api.
Import ListNotations.
Open Scope Z_scope.
Open Scope list_scope.

Arguments way_line : simpl never.
Arguments has_interesting : simpl never.

(* ---------- the osm package methods the model reads ---------- *)
(* hasInterestingTags(tags, nil) is Tags.AnyInteresting() (C18's model, on the table of the code) *)
Lemma has_interesting_any ts : has_interesting ts None = C18.Tags.any_interesting uninteresting_tags ts.
Proof.
  unfold has_interesting. induction ts as [|[k v] r IH]; [reflexivity|].
  cbn [existsb C18.Tags.any_interesting fst]. rewrite IH. unfold tag_interesting. cbn [fst].
  rewrite andb_true_r. unfold uninteresting, C18.Tags.uninteresting.
  destruct (negb (existsb (String.eqb k) uninteresting_tags)); reflexivity.
Qed.

(* Relation.Polygon() *)
Lemma relation_area_api r : relation_area r = C18.Api.relation_is_area (r_tags r).
Proof.
  unfold relation_area, C18.Api.relation_is_area, C18.Model.relation_polygon.
  assert (H : forall ts k, tag_find ts k = C18.Model.find k ts).
  { induction ts as [|[k' v] l IHl]; intros k; [reflexivity|]. cbn. rewrite IHl. reflexivity. }
  rewrite H. reflexivity.
Qed.

(* a multipolygon relation for Convert is one Relation.Polygon() accepts (a "type" tag cannot be
   both route and multipolygon: Find returns one value) *)
Lemma is_mp_relation_area r : is_mp r = relation_area r.
Proof.
  unfold is_mp, relation_area.
  destruct (String.eqb (tag_find (r_tags r) "type") "route") eqn:E; [|reflexivity].
  apply String.eqb_eq in E. rewrite E. reflexivity.
Qed.

(* ---------- reflection of the oracle's clauses ---------- *)
Lemma key_eqb_eq a b : key_eqb a b = true <-> a = b.
Proof.
  destruct a as [t x], b as [u y]. unfold key_eqb. cbn. rewrite andb_true_iff, etype_eqb_eq, Z.eqb_eq.
  split; [intros [-> ->]; reflexivity|intros H; injection H as -> ->; auto].
Qed.

(* K: keys_unique is NoDup of the keys *)
Theorem keys_unique_iff fs : keys_unique fs = true <-> NoDup (map fkey fs).
Proof.
  unfold keys_unique. induction (map fkey fs) as [|k l IH]; cbn [nodupb]; [split; [constructor|reflexivity]|].
  rewrite andb_true_iff, negb_true_iff, IH. split.
  - intros [Hn Hd]. constructor; [|exact Hd]. intros Hin.
    assert (existsb (key_eqb k) l = true) by (apply existsb_exists; exists k; split; [exact Hin|apply key_eqb_eq; reflexivity]).
    congruence.
  - intros H. inversion H as [|? ? Hn Hd]; subst. split; [|exact Hd].
    destruct (existsb (key_eqb k) l) eqn:E; [|reflexivity]. exfalso. apply Hn.
    apply existsb_exists in E. destruct E as [k' [Hin He]]. apply key_eqb_eq in He. subst. exact Hin.
Qed.

(* the published list of uninteresting keys is the table of the code (GenOk) *)
Lemma spec_uninteresting_now k : spec_uninteresting k = uninteresting k.
Proof.
  pose proof uninteresting_is_published as H. apply andb_true_iff in H. destruct H as [H1 H2].
  unfold all_in in H1, H2. rewrite forallb_forall in H1, H2.
  unfold spec_uninteresting, uninteresting. apply eq_true_iff_eq. rewrite !existsb_exists. split.
  - intros [x [Hx He]]. apply String.eqb_eq in He. subst x. specialize (H2 k Hx).
    unfold mem_str in H2. apply existsb_exists in H2. destruct H2 as [y [Hy Hey]]. exists y. split; [exact Hy|exact Hey].
  - intros [x [Hx He]]. apply String.eqb_eq in He. subst x. specialize (H1 k Hx).
    unfold mem_str in H1. apply existsb_exists in H1. destruct H1 as [y [Hy Hey]]. exists y. split; [exact Hy|exact Hey].
Qed.

(* N: the oracle's node rule is the rule of theorem C17_node_feature_iff *)
Theorem spec_node_rule_iff d n : spec_node_rule d n = true <-> node_rule d n.
Proof.
  unfold spec_node_rule, node_rule.
  rewrite andb_true_iff, !orb_true_iff, negb_true_iff, node_located_spec.
  assert (Hi : existsb (fun kv => negb (spec_uninteresting (fst kv))) (n_tags n) = has_interesting (n_tags n) None).
  { unfold has_interesting. induction (n_tags n) as [|kv l IH]; [reflexivity|]. cbn [existsb]. rewrite IH.
    unfold tag_interesting. rewrite andb_true_r, spec_uninteresting_now. reflexivity. }
  rewrite Hi, has_interesting_spec.
  assert (Hr : spec_rel_member d (n_id n) = true <-> is_rel_member d (n_id n)).
  { unfold spec_rel_member, is_rel_member. rewrite existsb_exists. split.
    - intros [r [Hr H]]. apply existsb_exists in H. destruct H as [m [Hm H]].
      apply andb_true_iff in H. destruct H as [Ht He]. apply etype_eqb_eq in Ht. apply Z.eqb_eq in He. eauto 8.
    - intros [r [m [Hr [Hm [Ht He]]]]]. exists r. split; [exact Hr|]. apply existsb_exists. exists m.
      split; [exact Hm|]. rewrite Ht, He, Z.eqb_refl. reflexivity. }
  rewrite Hr. rewrite <- way_member_spec.
  destruct (way_member d (n_id n)); intuition congruence.
Qed.

(* ---------- the completeness clauses accept the model's own output ---------- *)
Section Complete.
  Variable join : list seg -> list (list seg).
  Variable ring_of : Z -> list seg -> list pt.
  Hypothesis Hring : ring_single ring_of.
  Notation convert := (convert join ring_of).

  Lemma in_key_exists k fs : (exists f, In f fs /\ fkey f = k) -> existsb (fun f => key_eqb (fkey f) k) fs = true.
  Proof. intros [f [Hf Hk]]. apply existsb_exists. exists f. split; [exact Hf|apply key_eqb_eq; exact Hk]. Qed.

  Theorem nodes_complete_model o d : key_clash d = false -> nodes_complete d (convert o d) = true.
  Proof.
    intros Hclash. unfold nodes_complete. apply forallb_forall. intros n Hn.
    destruct (spec_node_rule d n) eqn:E; [|reflexivity]. apply spec_node_rule_iff in E. destruct E as [Hl Hr].
    apply in_key_exists. exists (node_point o d n). split; [|reflexivity].
    unfold Model.convert. apply in_or_app. right. apply in_or_app. right.
    unfold node_features. apply in_flat_map. exists n. split; [exact Hn|].
    apply (node_emitted_spec o d n Hclash Hn) in Hr. rewrite Hr. unfold node_feature.
    apply node_located_spec in Hl. rewrite Hl. left. reflexivity.
  Qed.

  Theorem ways_complete_model o d : ways_complete d (convert o d) = true.
  Proof.
    unfold ways_complete. apply forallb_forall. intros w Hw.
    destruct (negb (absorbed d (w_id w)) && (2 <=? List.length (spec_coords d w))%nat) eqn:E; [|reflexivity].
    apply andb_true_iff in E. destruct E as [Ha Hl]. apply negb_true_iff in Ha. apply Nat.leb_le in Hl.
    destruct (way_geometry_input join ring_of Hring o d w Hw Ha Hl) as [f [Hf [Hk _]]].
    apply in_key_exists. exists f. auto.
  Qed.

  Theorem routes_complete_model o d : routes_complete d (convert o d) = true.
  Proof.
    unfold routes_complete. apply forallb_forall. intros r Hr.
    destruct (is_route r && route_has_line d r) eqn:E; [|reflexivity].
    apply andb_true_iff in E. destruct E as [Hrt Hl].
    pose proof (route_relation_feature join ring_of o d r Hrt) as Hex. rewrite Hl in Hex.
    destruct (snd (rel_result join ring_of o d r)) as [f|] eqn:Hf; [|discriminate].
    apply in_key_exists. exists f. split.
    - unfold Model.convert. apply in_or_app. left. unfold rel_features. apply in_flat_map.
      exists r. split; [exact Hr|]. rewrite Hf. left. reflexivity.
    - unfold is_route in Hrt. unfold rel_result in Hf. rewrite Hrt in Hf. exact (route_result_key join o d r f Hf).
  Qed.
  Theorem oracle_completeness_sound o d :
    key_clash d = false ->
    nodes_complete d (convert o d) = true /\ ways_complete d (convert o d) = true /\
    routes_complete d (convert o d) = true.
  Proof. intros Hclash. split; [apply nodes_complete_model; exact Hclash|split; [apply ways_complete_model|apply routes_complete_model]]. Qed.
End Complete.

Lemma is_mp_is_relation_polygon r :
  is_mp r = relation_area r /\ relation_area r = C18.Api.relation_is_area (r_tags r).
Proof. split; [apply is_mp_relation_area|apply relation_area_api]. Qed.
