(* C17/GenOkConds.v — tie by translation for the control flow of osmgeojson: the branch
   conditions re-read from convert.go / build_polygon.go / options.go on every run
   (gen/GenConvert.v, translator/cmd/convertconds) contain the conditions the model hard-codes
   ([occurs], checked by computation on the generated data), and those conditions, with the
   leaves read as the corresponding model terms, evaluate to the model's booleans.
   [occurs] rather than positions: inserting or reordering unrelated branches is harmless;
   changing one of these conditions is not. *)
From Coq Require Import ZArith String List Bool Lia.
From Verif Require Import C17.CondAst C17.Model.
From VerifGen Require Import GenConvert.
Import ListNotations.
Open Scope string_scope.
Open Scope Z_scope.

Definition type_str (t : etype) : string :=
  match t with TNode => "node" | TWay => "way" | TRel => "relation" end.
Definition lenZ {A} (l : list A) : cval := VZ (Z.of_nat (List.length l)).

Lemma is_nil_len {A} (l : list A) : is_nil l = (Z.of_nat (List.length l) =? 0).
Proof. destruct l; reflexivity. Qed.

(* ---- nodeToFeature: "our definition of empty" ---- *)
Definition cx_unlocated : cx :=
  CAnd (CAnd (CEq (CLeaf "Node.Lon") (CInt 0)) (CEq (CLeaf "Node.Lat") (CInt 0))) (CEq (CLeaf "Node.Version") (CInt 0)).
Lemma unlocated_in_source : occurs cx_unlocated conds_context_nodeToFeature = true.
Proof. vm_compute. reflexivity. Qed.
Lemma unlocated_is_model n :
  ceval (env_of [("Node.Lon", VZ (n_lon n)); ("Node.Lat", VZ (n_lat n)); ("Node.Version", VZ (mt_version (n_meta n)))])
        cx_unlocated = VB (negb (node_located n)).
Proof. unfold node_located. rewrite negb_involutive. reflexivity. Qed.

(* ---- wayToLineString: the annotated location wins when it is not (0,0) ---- *)
Definition cx_annotated : cx := COr (CNe (CLeaf "WayNode.Lon") (CInt 0)) (CNe (CLeaf "WayNode.Lat") (CInt 0)).
Lemma annotated_in_source : occurs cx_annotated conds_context_wayToLineString = true.
Proof. vm_compute. reflexivity. Qed.
Lemma annotated_is_model d wn :
  ceval (env_of [("WayNode.Lon", VZ (wn_lon wn)); ("WayNode.Lat", VZ (wn_lat wn))]) cx_annotated
  = VB (negb (wn_lon wn =? 0) || negb (wn_lat wn =? 0)) /\
  resolve d wn = if negb (wn_lon wn =? 0) || negb (wn_lat wn =? 0) then Some (wn_lon wn, wn_lat wn)
                 else match node_lookup d (wn_id wn) with Some n => Some (n_lon n, n_lat n) | None => None end.
Proof. split; reflexivity. Qed.
Lemma node_found_in_source : occurs (CNe (CLeaf "Node") CNil) conds_context_wayToLineString = true.
Proof. vm_compute. reflexivity. Qed.

(* ---- wayToFeature: one node ways are ignored ---- *)
Definition cx_short : cx := CLe (CLeaf "len(ls)") (CInt 1).
Lemma short_in_source : occurs cx_short conds_context_wayToFeature = true /\
                        occurs (CLeaf "Way.Polygon()") conds_context_wayToFeature = true.
Proof. vm_compute. split; reflexivity. Qed.
Lemma short_is_model (ls : list pt) :
  ceval (env_of [("len(ls)", lenZ ls)]) cx_short = VB (List.length ls <=? 1)%nat.
Proof. cbn. f_equal. destruct ls as [|a [|b l]]; try reflexivity. cbn [List.length]. apply Z.leb_gt. lia. Qed.

(* ---- Convert: the membership map filters ---- *)
Definition cx_skip_nonnode : cx := CAnd (CLeaf "context.noRelationMembership") (CNe (CLeaf "Member.Type") (CStr "node")).
Definition cx_is_way : cx := CEq (CLeaf "Member.Type") (CStr "way").
Definition cx_way_absent : cx := CNot (CLeaf "has(context.wayMap[osm.WayID(Member.Ref)])").
Lemma membership_in_source :
  occurs cx_skip_nonnode conds_Convert && occurs cx_is_way conds_Convert && occurs cx_way_absent conds_Convert = true.
Proof. vm_compute. reflexivity. Qed.
Lemma membership_is_model o d m :
  let env := env_of [("context.noRelationMembership", VB (noRelM o)); ("Member.Type", VS (type_str (m_type m)));
                     ("has(context.wayMap[osm.WayID(Member.Ref)])", VB (is_some (way_lookup d (m_ref m))))] in
  exists skip isway absent,
    ceval env cx_skip_nonnode = VB skip /\ ceval env cx_is_way = VB isway /\ ceval env cx_way_absent = VB absent /\
    member_counts o d m = negb skip && (if isway then negb absent else true).
Proof.
  intros env. unfold member_counts.
  exists (noRelM o && negb (etype_eqb (m_type m) TNode)), (etype_eqb (m_type m) TWay), (negb (is_some (way_lookup d (m_ref m)))).
  destruct (m_type m); cbn; rewrite ?negb_involutive; repeat split; reflexivity.
Qed.

(* ---- Convert: the node pass ---- *)
Definition cx_node_skipped : cx :=
  CAnd (CAnd (CLeaf "has(context.wayMember[Node.ID])")
             (CEq (CLeaf "len(context.relationMember[Node.FeatureID()])") (CInt 0)))
       (CNot (CLeaf "hasInterestingTags(Node.Tags, nil)")).
Lemma node_skipped_in_source : occurs cx_node_skipped conds_Convert = true.
Proof. vm_compute. reflexivity. Qed.
Lemma node_skipped_is_model o d n :
  ceval (env_of [("has(context.wayMember[Node.ID])", VB (way_member d (n_id n)));
                 ("len(context.relationMember[Node.FeatureID()])", lenZ (rel_summaries o d (TNode, n_id n)));
                 ("hasInterestingTags(Node.Tags, nil)", VB (has_interesting (n_tags n) None))])
        cx_node_skipped = VB (negb (node_emitted o d n)).
Proof. unfold node_emitted. rewrite negb_involutive, is_nil_len. reflexivity. Qed.

(* ---- Convert: dispatch on the relation type, the skippable test ---- *)
Definition cx_route : cx := CEq (CLeaf "tt") (CStr "route").
Definition cx_mp : cx := COr (CEq (CLeaf "tt") (CStr "multipolygon")) (CEq (CLeaf "tt") (CStr "boundary")).
Lemma dispatch_in_source :
  occurs cx_route conds_Convert && occurs cx_mp conds_Convert
  && occurs (CLeaf "has(context.skippable[Way.ID])") conds_Convert = true.
Proof. vm_compute. reflexivity. Qed.
Lemma dispatch_is_model tt :
  ceval (env_of [("tt", VS tt)]) cx_route = VB (String.eqb tt "route") /\
  ceval (env_of [("tt", VS tt)]) cx_mp = VB (String.eqb tt "multipolygon" || String.eqb tt "boundary").
Proof. split; reflexivity. Qed.

(* ---- hasInterestingTags ---- *)
Definition cx_interesting : cx :=
  CAnd (CNot (CLeaf "osm.UninterestingTags[k]"))
       (COr (CEq (CLeaf "ignore") CNil)
            (CNot (COr (CEq (CLeaf "ignore[k]") (CStr "true")) (CEq (CLeaf "ignore[k]") (CLeaf "v"))))).
Lemma interesting_in_source : occurs cx_interesting conds_hasInterestingTags = true.
Proof. vm_compute. reflexivity. Qed.
Lemma interesting_is_model (ignore : option tags) k v :
  ceval (env_of [("osm.UninterestingTags[k]", VB (uninteresting k));
                 ("ignore", VNil (match ignore with None => true | Some _ => false end));
                 ("ignore[k]", VS (match ignore with None => "" | Some ig => map_get ig k end));
                 ("v", VS v)]) cx_interesting
  = VB (tag_interesting ignore (k, v)).
Proof. unfold tag_interesting. destruct ignore; cbn; reflexivity. Qed.

(* ---- addMetaProperties: which field is present when, for each of the three element types ---- *)
Definition meta_rows (ty : string) : list (string * string * cx) :=
  [(ty, "timestamp", CNot (CLeaf (ty ++ ".Timestamp.IsZero()")));
   (ty, "version", CNe (CLeaf (ty ++ ".Version")) (CInt 0));
   (ty, "changeset", CNe (CLeaf (ty ++ ".ChangesetID")) (CInt 0));
   (ty, "user", CNe (CLeaf (ty ++ ".User")) (CStr ""));
   (ty, "uid", CNe (CLeaf (ty ++ ".UserID")) (CInt 0))].
Definition row_eqb (a b : string * string * cx) : bool :=
  String.eqb (fst (fst a)) (fst (fst b)) && String.eqb (snd (fst a)) (snd (fst b)) && cx_eqb (snd a) (snd b).
Lemma meta_rows_in_source :
  forallb (fun row => existsb (row_eqb row) meta_table)
          (meta_rows "Node" ++ meta_rows "Way" ++ meta_rows "Relation") = true.
Proof. vm_compute. reflexivity. Qed.
(* every generated row is one of these: no further meta key exists in the source *)
Lemma meta_rows_only :
  forallb (fun row => existsb (row_eqb row) (meta_rows "Node" ++ meta_rows "Way" ++ meta_rows "Relation")) meta_table = true.
Proof. vm_compute. reflexivity. Qed.

Definition meta_env (ty : string) (m : meta) : string -> cval :=
  env_of [(ty ++ ".Timestamp.IsZero()", VB (negb (is_some (mt_ts m)))); (ty ++ ".Version", VZ (mt_version m));
          (ty ++ ".ChangesetID", VZ (mt_changeset m)); (ty ++ ".User", VS (mt_user m)); (ty ++ ".UserID", VZ (mt_uid m))].
Definition present (c : cx) (env : string -> cval) : bool := match ceval env c with VB b => b | _ => false end.

Lemma meta_rows_are_model ty m : In ty ["Node"; "Way"; "Relation"] ->
  map (fun row => present (snd row) (meta_env ty m)) (meta_rows ty) =
  [is_some (mo_ts (meta_obs m)); is_some (mo_version (meta_obs m)); is_some (mo_changeset (meta_obs m));
   is_some (mo_user (meta_obs m)); is_some (mo_uid (meta_obs m))].
Proof.
  intros [<-|[<-|[<-|[]]]]; cbn; unfold present, nz;
    destruct (mt_ts m); destruct (mt_version m =? 0); destruct (mt_changeset m =? 0);
    destruct (String.eqb (mt_user m) ""); destruct (mt_uid m =? 0); reflexivity.
Qed.

Lemma meta_switches_in_source :
  occurs (CNot (CLeaf "context.noRelationMembership")) conds_context_addMetaProperties
  && occurs (CLeaf "context.noMeta") conds_context_addMetaProperties = true.
Proof. vm_compute. reflexivity. Qed.

(* ---- options.go: each option sets exactly its own flag to its argument ---- *)
Lemma options_in_source :
  forallb (fun row => existsb (row_eqb row) option_sets)
    [("NoID", "context.noID", CLeaf "yes"); ("NoMeta", "context.noMeta", CLeaf "yes");
     ("NoRelationMembership", "context.noRelationMembership", CLeaf "yes");
     ("IncludeInvalidPolygons", "context.includeInvalidPolygons", CLeaf "yes")] = true
  /\ List.length option_sets = 4%nat.
Proof. vm_compute. split; reflexivity. Qed.

(* ---- buildRouteLineString ---- *)
Lemma route_in_source :
  forallb (fun c => occurs c conds_context_buildRouteLineString)
    [CNe (CLeaf "Member.Type") (CStr "way"); CEq (CLeaf "Way") CNil;
     CNot (CLeaf "hasInterestingTags(Way.Tags, nil)"); CEq (CLeaf "len(ls)") (CInt 0);
     CEq (CLeaf "len(lines)") (CInt 0); CEq (CLeaf "len(lineSections)") (CInt 1)] = true.
Proof. vm_compute. reflexivity. Qed.

(* ---- buildPolygon ---- *)
Definition cx_no_outer : cx := CAnd (CEq (CLeaf "len(outer)") (CInt 0)) (CNot (CLeaf "context.includeInvalidPolygons")).
Definition cx_old_style : cx := CAnd (CEq (CLeaf "len(outer)") (CInt 1)) (CEq (CLeaf "outerCount") (CInt 1)).
Definition cx_ring_invalid (r : string) : cx := COr (CLt (CLeaf ("len(" ++ r ++ ")")) (CInt 4)) (CNot (CLeaf (r ++ ".Closed()"))).
Definition cx_other_role : cx := CAnd (CNe (CLeaf "Member.Role") (CStr "inner")) (CNe (CLeaf "Member.Role") (CStr "outer")).
Lemma build_polygon_in_source :
  forallb (fun c => occurs c conds_context_buildPolygon)
    [CNe (CLeaf "Member.Type") (CStr "way"); cx_other_role; CEq (CLeaf "Member.Role") (CStr "outer");
     CEq (CLeaf "Way") CNil; CNe (CLeaf "len(Member.Nodes)") (CInt 0);
     CNot (CLeaf "hasInterestingTags(Way.Tags, tags)"); CNot (CLeaf "hasInterestingTags(Way.Tags, nil)");
     CEq (CLeaf "len(ls)") (CInt 0);
     CEq (CLeaf "Segment.Orientation") (CInt (-1)); CEq (CLeaf "Segment.Orientation") (CInt 1);
     cx_no_outer; cx_old_style; cx_ring_invalid "outerRing";
     CNot (CLeaf "hasInterestingTags(Relation.Tags, map[string]string{""type"": ""true""})");
     CAnd (CNot (CLeaf "context.includeInvalidPolygons")) (cx_ring_invalid "ring");
     CAnd (CEq (CLeaf "len(mp)") (CInt 0)) (CNot (CLeaf "context.includeInvalidPolygons"));
     CEq (CLeaf "len(mp)") (CInt 0); CEq (CLeaf "len(mp)") (CInt 1)] = true.
Proof. vm_compute. reflexivity. Qed.

Lemma build_polygon_is_model (o : opts) (outer : list (seg * way)) (cnt : Z) (ring : list pt) (role : string) :
  let env := env_of [("len(outer)", lenZ outer); ("outerCount", VZ cnt);
                     ("context.includeInvalidPolygons", VB (inclInvalid o));
                     ("len(outerRing)", lenZ ring); ("outerRing.Closed()", VB (ring_closed ring));
                     ("Member.Role", VS role)] in
  ceval env cx_no_outer = VB (is_nil outer && negb (inclInvalid o)) /\
  ceval env cx_old_style = VB ((Z.of_nat (List.length outer) =? 1) && (cnt =? 1)) /\
  ceval env (cx_ring_invalid "outerRing") = VB (ring_invalid ring) /\
  ceval env cx_other_role = VB (negb (String.eqb role "outer" || String.eqb role "inner")).
Proof.
  intros env. repeat split.
  - cbn. rewrite is_nil_len. reflexivity.
  - cbn. unfold ring_invalid. f_equal. f_equal.
    destruct (List.length ring <? 4)%nat eqn:E.
    + apply Nat.ltb_lt in E. apply Z.ltb_lt. lia.
    + apply Nat.ltb_ge in E. apply Z.ltb_ge. lia.
  - cbn. destruct (String.eqb role "outer"), (String.eqb role "inner"); reflexivity.
Qed.

(* ---- toRing, reorient, addToMultiPolygon, polygonContains: presence ---- *)
Lemma geometry_conds_in_source :
  occurs (CLt (CLeaf "len(ls)") (CInt 2)) conds_toRing
  && occurs (CNe (CLeaf "ls[0]") (CLeaf "ls[len(ls)-1]")) conds_toRing
  && occurs (CNe (CLeaf "p[0].Orientation()") (CInt 1)) conds_reorient
  && occurs (CLeaf "polygonContains(mp[i][0], ring)") conds_addToMultiPolygon
  && occurs (CNot (CLeaf "includeInvalidPolygons")) conds_addToMultiPolygon
  && occurs (CAnd (CNe (CLeaf "len(fr)") (CInt 0)) (CNe (CLeaf "fr[0]") (CLeaf "fr[len(fr)-1]"))) conds_addToMultiPolygon
  && occurs (CEq (CLeaf "len(mp[i][0])") (CInt 0)) conds_addToMultiPolygon
  && occurs (CAnd (CNe (CGt (CLeaf "yi") (CLeaf "y")) (CGt (CLeaf "yj") (CLeaf "y")))
                  (CLt (CLeaf "x") (CLeaf "(xj-xi)*(y-yi)/(yj-yi)+xi"))) conds_polygonContains = true.
Proof. vm_compute. reflexivity. Qed.

Lemma reorient_is_model (r : list pt) :
  ceval (env_of [("p[0].Orientation()", VZ (ring_orientation r))]) (CNe (CLeaf "p[0].Orientation()") (CInt 1))
  = VB (negb (ring_orientation r =? 1)) /\
  reorient_outer r = if negb (ring_orientation r =? 1) then rev r else r.
Proof. split; [reflexivity|]. unfold reorient_outer. destruct (ring_orientation r =? 1); reflexivity. Qed.
