(* C17/ProofsGeom.v — the node rule and the geometry of way features:
   a point iff located and (not a way member, or an interesting tag, or a relation member);
   a line with the resolvable coordinates in order, or for area ways a closed ring with
   non-negative signed area (counter-clockwise) that is those coordinates, closed, in one of
   the two directions. *)
From Coq Require Import ZArith String List Bool Lia.
From Verif Require Import C17.Model C17.Spec C17.ProofsPacked C17.Proofs.
From VerifGen Require Import GenTags.
Import ListNotations.
Open Scope Z_scope.
Open Scope list_scope.

Arguments way_line : simpl never.

(* ---------- points ---------- *)
Lemma pt_eqb_eq a b : pt_eqb a b = true <-> a = b.
Proof.
  destruct a as [ax ay], b as [bx by_]. unfold pt_eqb. cbn. rewrite andb_true_iff, !Z.eqb_eq.
  split; [intros [-> ->]; reflexivity|intros H; injection H as -> ->; split; reflexivity].
Qed.
Lemma pt_eqb_refl a : pt_eqb a a = true.
Proof. apply pt_eqb_eq. reflexivity. Qed.

(* ---------- shoelace algebra ---------- *)
Definition cr (p q : pt) : Z := fst p * snd q - fst q * snd p.

Lemma shoelace_cons2 p q l : shoelace (p :: q :: l) = cr p q + shoelace (q :: l).
Proof. reflexivity. Qed.

Lemma last_cons_ne {A} (a : A) l d d' : l <> [] -> last (a :: l) d = last l d'.
Proof.
  revert a. induction l as [|b l IH]; intros a H; [congruence|].
  destruct l as [|c l]; [reflexivity|].
  change (last (a :: b :: c :: l) d) with (last (b :: c :: l) d).
  change (last (b :: c :: l) d') with (last (c :: l) d').
  rewrite (IH b) by discriminate. reflexivity.
Qed.

Lemma last_indep {A} (l : list A) d d' : l <> [] -> last l d = last l d'.
Proof.
  destruct l as [|a l]; [congruence|]. intros _.
  destruct l as [|b l]; [reflexivity|]. rewrite (last_cons_ne a (b :: l) d d') by discriminate.
  destruct l as [|c l]; [reflexivity|].
  symmetry. rewrite (last_cons_ne a (b :: c :: l) d' d') by discriminate. reflexivity.
Qed.

Lemma shoelace_snoc l z q : l <> [] -> shoelace (l ++ [q]) = shoelace l + cr (last l z) q.
Proof.
  induction l as [|a l IH]; intros H; [congruence|].
  destruct l as [|b l].
  - cbn. unfold cr. lia.
  - change ((a :: b :: l) ++ [q]) with (a :: b :: (l ++ [q])).
    rewrite !shoelace_cons2. change (b :: l ++ [q]) with ((b :: l) ++ [q]).
    rewrite IH by discriminate.
    rewrite (last_cons_ne a (b :: l) z z) by discriminate. lia.
Qed.

Lemma last_rev_cons {A} (a : A) l d : last (rev (a :: l)) d = a.
Proof. cbn. apply last_last. Qed.

Lemma shoelace_rev l : shoelace (rev l) = - shoelace l.
Proof.
  destruct l as [|p l]; [reflexivity|]. revert p.
  induction l as [|q l IH]; intros p; [reflexivity|].
  change (rev (p :: q :: l)) with (rev (q :: l) ++ [p]).
  rewrite (shoelace_snoc _ p p).
  - rewrite last_rev_cons, IH, shoelace_cons2. unfold cr. lia.
  - cbn. destruct (rev l); discriminate.
Qed.

(* the offset form used by orb.Ring.Orientation equals the plain shoelace up to a boundary term *)
Lemma pair_sum_shoelace o p l :
  pair_sum o (p :: l) =
  shoelace (p :: l) + (snd o * (fst (last (p :: l) p) - fst p) - fst o * (snd (last (p :: l) p) - snd p)).
Proof.
  revert p. induction l as [|q l IH]; intros p.
  - cbn. lia.
  - change (pair_sum o (p :: q :: l)) with (cross o p q + pair_sum o (q :: l)).
    rewrite IH, shoelace_cons2.
    assert (Hl : last (p :: q :: l) p = last (q :: l) q).
    { apply last_cons_ne. discriminate. }
    rewrite Hl. unfold cross, cr. ring.
Qed.

Lemma closed_shape r :
  ring_closed r = true -> (2 <= List.length r)%nat -> exists a m, r = a :: m ++ [a].
Proof.
  destruct r as [|a t]; [discriminate|]. intros Hc Hl.
  destruct t as [|b t]; [cbn in Hl; lia|].
  destruct (@exists_last pt (b :: t)) as [m [z Hm]]; [discriminate|].
  exists a, m. rewrite Hm in *. unfold ring_closed in Hc.
  change (a :: m ++ [z]) with ((a :: m) ++ [z]) in Hc. rewrite last_last in Hc.
  apply pt_eqb_eq in Hc. subst z. reflexivity.
Qed.

Lemma closed_orientation a m :
  ring_orientation (a :: m ++ [a]) = Z.sgn (shoelace (a :: m ++ [a])).
Proof.
  unfold ring_orientation. f_equal.
  destruct m as [|p m].
  - cbn. unfold cr. lia.
  - change ((p :: m) ++ [a]) with (p :: (m ++ [a])).
    rewrite pair_sum_shoelace, shoelace_cons2.
    change (p :: m ++ [a]) with ((p :: m) ++ [a]). rewrite last_last.
    unfold cr. ring.
Qed.

Lemma rev_closed (a : pt) (m : list pt) : rev (a :: m ++ [a]) = a :: rev m ++ [a].
Proof. cbn. rewrite rev_app_distr. reflexivity. Qed.

Lemma reorient_ccw r :
  ring_closed r = true -> (2 <= List.length r)%nat ->
  0 <= shoelace (reorient_outer r) /\ ring_closed (reorient_outer r) = true /\
  ring_orientation (reorient_outer r) <> -1 /\ (reorient_outer r = r \/ reorient_outer r = rev r).
Proof.
  intros Hc Hl. destruct (closed_shape r Hc Hl) as [a [m ->]].
  unfold reorient_outer. rewrite closed_orientation.
  destruct (Z.sgn (shoelace (a :: m ++ [a])) =? 1) eqn:He.
  - apply Z.eqb_eq in He. rewrite closed_orientation.
    repeat split; [lia|exact Hc|lia|left; reflexivity].
  - apply Z.eqb_neq in He. rewrite rev_closed, closed_orientation, <- rev_closed, shoelace_rev.
    repeat split; [lia| |lia|right; reflexivity].
    rewrite rev_closed. unfold ring_closed.
    change (a :: rev m ++ [a]) with ((a :: rev m) ++ [a]). rewrite last_last. apply pt_eqb_refl.
Qed.

Lemma to_ring_closed c : (2 <= List.length c)%nat ->
  ring_closed (to_ring c) = true /\ (2 <= List.length (to_ring c))%nat /\ to_ring c = spec_closed c.
Proof.
  destruct c as [|a [|b c]]; cbn [List.length]; try lia. intros _.
  unfold to_ring, spec_closed.
  destruct (pt_eqb a (last (a :: b :: c) a)) eqn:He.
  - split; [exact He|]. split; [cbn; lia|reflexivity].
  - split; [|split; [rewrite app_length; cbn; lia|reflexivity]].
    change (pt_eqb a (last ((a :: b :: c) ++ [a]) a) = true). rewrite last_last. apply pt_eqb_refl.
Qed.

(* ---------- boolean reflection of the node rule ---------- *)
Definition is_way_member (d : osm) (id : Z) : Prop :=
  exists w wn, In w (ways d) /\ In wn (w_nodes w) /\ wn_id wn = id.
Definition is_rel_member (d : osm) (id : Z) : Prop :=
  exists r m, In r (relations d) /\ In m (r_members r) /\ m_type m = TNode /\ m_ref m = id.
Definition has_interesting_tag (ts : tags) : Prop :=
  exists k v, In (k, v) ts /\ ~ In k uninteresting_tags.
Definition is_located (n : node) : Prop :=
  n_lon n <> 0 \/ n_lat n <> 0 \/ mt_version (n_meta n) <> 0.

(* the rule of the property text *)
Definition node_rule (d : osm) (n : node) : Prop :=
  is_located n /\ (~ is_way_member d (n_id n) \/ has_interesting_tag (n_tags n) \/ is_rel_member d (n_id n)).

Lemma way_member_spec d id : way_member d id = true <-> is_way_member d id.
Proof.
  unfold way_member, is_way_member. rewrite existsb_exists. split.
  - intros [w [Hw H]]. apply existsb_exists in H. destruct H as [wn [Hwn He]].
    exists w, wn. apply Z.eqb_eq in He. auto.
  - intros [w [wn [Hw [Hwn He]]]]. exists w. split; [exact Hw|]. apply existsb_exists.
    exists wn. split; [exact Hwn|apply Z.eqb_eq; exact He].
Qed.

Lemma uninteresting_spec k : uninteresting k = true <-> In k uninteresting_tags.
Proof.
  unfold uninteresting. rewrite existsb_exists. split.
  - intros [x [Hx He]]. apply String.eqb_eq in He. subst. exact Hx.
  - intros H. exists k. split; [exact H|apply String.eqb_refl].
Qed.

Lemma has_interesting_spec ts : has_interesting ts None = true <-> has_interesting_tag ts.
Proof.
  unfold has_interesting, has_interesting_tag. rewrite existsb_exists. split.
  - intros [[k v] [Hin H]]. unfold tag_interesting in H. cbn [fst snd] in H. rewrite andb_true_r in H.
    exists k, v. split; [exact Hin|]. intros Hu. apply uninteresting_spec in Hu. rewrite Hu in H. discriminate.
  - intros [k [v [Hin Hn]]]. exists (k, v). split; [exact Hin|]. unfold tag_interesting. cbn [fst snd].
    rewrite andb_true_r. destruct (uninteresting k) eqn:Hu; [|reflexivity].
    apply uninteresting_spec in Hu. contradiction.
Qed.

Lemma node_summaries_spec o d id :
  is_nil (rel_summaries_x o d (TNode, id)) = false <-> is_rel_member d id.
Proof.
  unfold is_rel_member. split.
  - intros H. destruct (rel_summaries_x o d (TNode, id)) as [|s l] eqn:Hs; [discriminate|].
    assert (Hin : In s (rel_summaries_x o d (TNode, id))) by (rewrite Hs; left; reflexivity).
    unfold rel_summaries_x in Hin. apply in_flat_map in Hin. destruct Hin as [r [Hr Hin]].
    apply in_flat_map in Hin. destruct Hin as [m [Hm Hin]].
    exists r, m. cbn [fst snd] in Hin.
    destruct (member_counts o d m && etype_eqb (m_type m) TNode && (m_ref m =? id)) eqn:Hc; [|destruct Hin].
    apply andb_true_iff in Hc. destruct Hc as [Hc He]. apply andb_true_iff in Hc. destruct Hc as [_ Ht].
    apply etype_eqb_eq in Ht. apply Z.eqb_eq in He. auto.
  - intros [r [m [Hr [Hm [Ht He]]]]].
    destruct (rel_summaries_x o d (TNode, id)) as [|s l] eqn:Hs; [|reflexivity]. exfalso.
    assert (Hin : In {| s_id := r_id r; s_role := m_role m; s_tags := tags_map (r_tags r) |}
                     (rel_summaries_x o d (TNode, id))).
    { unfold rel_summaries_x. apply in_flat_map. exists r. split; [exact Hr|].
      apply in_flat_map. exists m. split; [exact Hm|]. cbn [fst snd].
      unfold member_counts. rewrite Ht, He, Z.eqb_refl. cbn. rewrite andb_false_r. cbn. left. reflexivity. }
    rewrite Hs in Hin. destruct Hin.
Qed.

Lemma node_located_spec n : node_located n = true <-> is_located n.
Proof.
  unfold node_located, is_located. rewrite negb_true_iff, !andb_false_iff, !Z.eqb_neq. tauto.
Qed.

Lemma node_emitted_spec o d n :
  key_clash d = false -> In n (nodes d) ->
  (node_emitted o d n = true <->
   (~ is_way_member d (n_id n) \/ has_interesting_tag (n_tags n) \/ is_rel_member d (n_id n))).
Proof.
  intros Hc Hn. unfold node_emitted. rewrite (rel_summaries_exact o d _ Hc (node_key_in d n Hn)). rewrite negb_true_iff, !andb_false_iff, negb_false_iff.
  rewrite <- way_member_spec, <- has_interesting_spec, <- node_summaries_spec with (o := o).
  destruct (way_member d (n_id n)); split; intros H; intuition congruence.
Qed.

Section Geom.
  Variable join : list seg -> list (list seg).
  Variable ring_of : Z -> list seg -> list pt.
  Notation convert := (convert join ring_of).
  Notation skippable := (skippable join ring_of).

  Definition node_point (o : opts) (d : osm) (n : node) : feature :=
    mk_feature o d TNode (n_id n) (n_tags n) false (n_meta n) (GPoint (n_lon n, n_lat n)).

  Theorem node_feature_iff o d n :
    packed_ok d = true ->
    In n (nodes d) -> NoDup (map n_id (nodes d)) ->
    ((exists f, In f (convert o d) /\ fkey f = (TNode, n_id n)) <-> node_rule d n) /\
    (forall f, In f (convert o d) -> fkey f = (TNode, n_id n) -> f = node_point o d n).
  Proof.
    intros Hok Hn Hd. destruct (packed_ok_split d Hok) as [Hpoly Hclash].
    assert (Hfrom : forall f, In f (convert o d) -> fkey f = (TNode, n_id n) ->
                      node_emitted o d n = true /\ node_feature o d n = Some f).
    { intros f Hf Hk. unfold Model.convert in Hf. apply in_app_or in Hf. destruct Hf as [Hf|Hf].
      - exfalso. apply (rel_feature_type _ _ _ _ _ Hpoly Hf). unfold fkey in Hk. injection Hk as Ht _. exact Ht.
      - apply in_app_or in Hf. destruct Hf as [Hf|Hf].
        + pose proof (way_feature_type _ _ _ _ _ Hf) as Ht. unfold fkey in Hk. injection Hk as Ht' _. congruence.
        + destruct (node_features_in _ _ _ Hf) as [n' [Hn' [He Hnf]]].
          pose proof (node_feature_key _ _ _ _ Hnf) as Hk'. rewrite Hk in Hk'. injection Hk' as Hid.
          assert (n = n') as <- by (apply (NoDup_map_inj_in n_id _ _ _ Hd Hn Hn' Hid)).
          split; assumption. }
    split; [split|].
    - intros [f [Hf Hk]]. destruct (Hfrom f Hf Hk) as [He Hnf]. split.
      + apply node_located_spec. unfold node_feature in Hnf. destruct (node_located n); [reflexivity|discriminate].
      + apply (node_emitted_spec o d n Hclash Hn). exact He.
    - intros [Hl Hr]. exists (node_point o d n). split; [|reflexivity].
      unfold Model.convert. apply in_or_app. right. apply in_or_app. right.
      unfold node_features. apply in_flat_map. exists n. split; [exact Hn|].
      apply (node_emitted_spec o d n Hclash Hn) in Hr. rewrite Hr. unfold node_feature.
      apply node_located_spec in Hl. rewrite Hl. left. reflexivity.
    - intros f Hf Hk. destruct (Hfrom f Hf Hk) as [_ Hnf]. unfold node_feature in Hnf.
      destruct (node_located n); [|discriminate]. injection Hnf as <-. reflexivity.
  Qed.

  (* ---------- ways ---------- *)
  Definition unresolved (d : osm) (w : way) : bool :=
    existsb (fun wn => negb (is_some (resolve d wn))) (w_nodes w).

  (* what the property asks of the geometry of a way whose resolvable coordinates are c *)
  Definition way_geometry_spec (w : way) (c : list pt) (g : geom) : Prop :=
    if way_area w
    then exists ring, g = GPoly [ring] /\ ring_closed ring = true /\ 0 <= shoelace ring /\
                      ring_orientation ring <> -1 /\
                      (ring = spec_closed c \/ ring = rev (spec_closed c))
    else g = GLine c.

  Theorem way_geometry o d w :
    In w (ways d) -> memZ (w_id w) (skippable o d) = false ->
    (2 <= List.length (spec_coords d w))%nat ->
    exists f, In f (convert o d) /\ fkey f = (TWay, w_id w) /\
              f_tainted f = unresolved d w /\ f_tags f = tags_map (w_tags w) /\
              way_geometry_spec w (spec_coords d w) (f_geom f).
  Proof.
    intros Hw Hs Hl.
    set (c := spec_coords d w) in *.
    exists (mk_feature o d TWay (w_id w) (w_tags w) (unresolved d w) (w_meta w) (way_geom w c)).
    split; [|split; [reflexivity|split; [reflexivity|split; [reflexivity|]]]].
    - unfold Model.convert. apply in_or_app. right. apply in_or_app. left.
      unfold Model.way_features. apply in_flat_map. exists w. split; [exact Hw|]. rewrite Hs.
      unfold way_feature, way_line. fold (spec_coords d w). fold c.
      destruct (List.length c <=? 1)%nat eqn:Hle; [apply Nat.leb_le in Hle; lia|].
      left. reflexivity.
    - cbn [f_geom mk_feature]. unfold way_geometry_spec, way_geom. destruct (way_area w); [|reflexivity].
      destruct (to_ring_closed c Hl) as [Hc [Hl2 Heq]].
      destruct (reorient_ccw (to_ring c) Hc Hl2) as [Hpos [Hcl [Hno Hdir]]].
      exists (reorient_outer (to_ring c)). rewrite <- Heq. repeat split; assumption.
  Qed.

  (* conversely every way-pass feature is of that form *)
  Theorem way_pass_feature o d f :
    In f (way_features join ring_of o d) ->
    exists w, In w (ways d) /\ memZ (w_id w) (skippable o d) = false /\
              (2 <= List.length (spec_coords d w))%nat /\ fkey f = (TWay, w_id w) /\
              f_tainted f = unresolved d w /\ way_geometry_spec w (spec_coords d w) (f_geom f).
  Proof.
    intros Hf. destruct (way_features_in _ _ _ _ _ Hf) as [w [Hw [Hs Hwf]]].
    exists w. split; [exact Hw|]. split; [exact Hs|].
    unfold way_feature, way_line in Hwf. fold (spec_coords d w) in Hwf.
    destruct (List.length (spec_coords d w) <=? 1)%nat eqn:Hle; [discriminate|].
    apply Nat.leb_gt in Hle. injection Hwf as <-.
    split; [lia|]. split; [reflexivity|]. split; [reflexivity|].
    cbn [f_geom mk_feature]. unfold way_geometry_spec, way_geom. destruct (way_area w); [|reflexivity].
    assert (Hl : (2 <= List.length (spec_coords d w))%nat) by lia.
    destruct (to_ring_closed _ Hl) as [Hc [Hl2 Heq]].
    destruct (reorient_ccw _ Hc Hl2) as [Hpos [Hcl [Hno Hdir]]].
    exists (reorient_outer (to_ring (spec_coords d w))). rewrite <- Heq. repeat split; assumption.
  Qed.
End Geom.
