(* C17/ProofsGeoEq.v — the executable mputil instance of C17 (C17/Mputil.v) computes exactly what
   property C16's model (Geo/Model.v) computes: Join and MultiSegment.Ring agree on every input
   (segments translated field by field; Geo's Index field, unused by osmgeojson, is 0).
   So C16's theorems about Join / Ring transfer to the instance the C17 correspondence run uses,
   and the two hand models of internal/mputil cannot drift apart silently. *)
From Coq Require Import ZArith String List Bool Lia Arith Permutation.
From Verif Require Import C17.Model C17.Mputil C17.ProofsGeom C17.ProofsJoin.
From Verif Require Geo.Model Geo.JoinProofs.
Import ListNotations.
Open Scope Z_scope.
Open Scope list_scope.

Module G := Geo.Model.
Module GJ := Geo.JoinProofs.

Definition to_geo (s : seg) : G.segment := G.mkSeg 0 (sg_orient s) (sg_rev s) (sg_line s).
Definition tg (l : list seg) : list G.segment := map to_geo l.

Lemma seg_first_geo s : nonempty s -> seg_first s = @Some pt (G.seg_first (to_geo s)).
Proof. unfold nonempty, seg_first, G.seg_first, G.lfirst. cbn. destruct (sg_line s); [congruence|reflexivity]. Qed.

Lemma seg_last_geo s : nonempty s -> seg_last s = @Some pt (G.seg_last (to_geo s)).
Proof. intros H. unfold seg_last, G.seg_last, G.llast. cbn. apply last_opt_last. exact H. Qed.

Definition jm_of (s : seg) (f : G.fit) : jmatch :=
  match f with
  | G.FitEnd => JEnd (trim_first s)
  | G.FitEndRev => JEnd (trim_first (seg_reverse s))
  | G.FitStart => JStart (trim_last s)
  | G.FitStartRev => JStart (trim_last (seg_reverse s))
  end.

Lemma try_match_geo (f l : pt) s : nonempty s ->
  try_match (Some f) (Some l) s = option_map (jm_of s) (G.match_seg f l (to_geo s)).
Proof.
  intros H. unfold try_match, G.match_seg. rewrite (seg_first_geo s H), (seg_last_geo s H).
  cbn [opt_pt_eqb]. unfold G.pt_eqb, pt_eqb.
  repeat match goal with |- context [if ?c then _ else _] => destruct c end; reflexivity.
Qed.

Lemma find_match_cons F L a r :
  find_match F L (a :: r) =
  match try_match F L a with
  | Some j => Some (j, r)
  | None => match find_match F L r with Some (j, r') => Some (j, a :: r') | None => None end
  end.
Proof. reflexivity. Qed.

Lemma find_geo (f l : pt) : forall segs i, Forall nonempty segs ->
  (forall k gs fit, G.find_fit f l (tg segs) i = Some (k, gs, fit) ->
     exists s j, k = (i + j)%nat /\ nth_error segs j = Some s /\ gs = to_geo s /\
                 find_match (Some f) (Some l) segs = Some (jm_of s fit, GJ.remove_nth j segs)) /\
  (G.find_fit f l (tg segs) i = None -> find_match (Some f) (Some l) segs = None).
Proof.
  induction segs as [|a r IH]; intros i Hne; [split; [discriminate|reflexivity]|].
  inversion Hne as [|? ? Ha Hr]; subst.
  change (tg (a :: r)) with (to_geo a :: tg r). cbn [G.find_fit].
  rewrite find_match_cons, (try_match_geo f l a Ha).
  destruct (G.match_seg f l (to_geo a)) as [fit0|]; cbn [option_map].
  - split; [|discriminate]. intros k gs fit H. injection H as <- <- <-.
    exists a, 0%nat. repeat split. lia.
  - destruct (IH (S i) Hr) as [IH1 IH2]. split.
    + intros k gs fit H. destruct (IH1 k gs fit H) as [s [j [Hk [Hn [Hg Hf]]]]].
      exists s, (S j). rewrite Hf. repeat split; [lia|exact Hn|exact Hg].
    + intros H. rewrite (IH2 H). reflexivity.
Qed.

Definition grown (cur : list seg) (j : jmatch) : list seg :=
  match j with JEnd s' => cur ++ [s'] | JStart s' => s' :: cur end.

Lemma apply_geo cur s fit : G.apply_fit (tg cur) (to_geo s) fit = tg (grown cur (jm_of s fit)).
Proof. destruct fit; cbn; unfold tg; rewrite ?map_app; reflexivity. Qed.

Lemma jm_nonempty s fit : long s -> match jm_of s fit with JEnd s' | JStart s' => nonempty s' end.
Proof.
  unfold long, nonempty. intros H.
  destruct fit; cbn; try rewrite <- (rev_length (sg_line s)) in H;
    match goal with |- context [tl ?l] => destruct l as [|? [|? ?]] | |- context [removelast ?l] => destruct l as [|? [|? ?]] end;
    cbn in *; try lia; discriminate.
Qed.

Lemma ms_first_geo cur : cur <> [] -> Forall nonempty cur -> ms_first cur = @Some pt (G.ms_first (tg cur)).
Proof.
  destruct cur as [|s t]; [congruence|]. intros _ H. inversion H; subst.
  unfold ms_first, G.ms_first. cbn. apply seg_first_geo. assumption.
Qed.

Lemma ms_last_geo cur : cur <> [] -> Forall nonempty cur -> ms_last cur = @Some pt (G.ms_last (tg cur)).
Proof.
  intros Hne H. destruct (@exists_last _ cur Hne) as [init [z ->]].
  apply Forall_app in H. destruct H as [_ Hz]. inversion Hz; subst.
  unfold ms_last, G.ms_last, tg. rewrite last_opt_app by discriminate. cbn [last_opt].
  rewrite map_app. cbn [map]. rewrite last_last. apply seg_last_geo. assumption.
Qed.

Lemma tg_remove_nth j segs : GJ.remove_nth j (tg segs) = tg (GJ.remove_nth j segs).
Proof. unfold GJ.remove_nth, tg. rewrite map_app, firstn_map, skipn_map. reflexivity. Qed.

Lemma grow_geo : forall fm fg cur segs,
  (List.length segs <= fm)%nat -> (List.length segs < fg)%nat ->
  Forall long segs -> cur <> [] -> Forall nonempty cur ->
  G.grow fg (tg cur) (tg segs) = Some (tg (fst (grow fm cur segs)), tg (snd (grow fm cur segs))).
Proof.
  induction fm as [|f IH]; intros fg cur segs Hm Hg Hlong Hne Hcur.
  - destruct segs; [|cbn in Hm; lia]. destruct fg; [lia|]. reflexivity.
  - destruct fg as [|fu]; [lia|]. destruct segs as [|a r]; [reflexivity|].
    cbn [grow is_nil orb]. cbn [G.grow tg map]. fold (tg r). change (to_geo a :: tg r) with (tg (a :: r)).
    rewrite (ms_first_geo cur Hne Hcur), (ms_last_geo cur Hne Hcur). cbn [opt_pt_eqb].
    change (G.pt_eqb (G.ms_first (tg cur)) (G.ms_last (tg cur))) with (pt_eqb (G.ms_first (tg cur)) (G.ms_last (tg cur))).
    destruct (pt_eqb (G.ms_first (tg cur)) (G.ms_last (tg cur))); [reflexivity|].
    assert (Hnes : Forall nonempty (a :: r)).
    { eapply Forall_impl; [|exact Hlong]. intros x Hx. apply long_nonempty. exact Hx. }
    destruct (find_geo (G.ms_first (tg cur)) (G.ms_last (tg cur)) (a :: r) 0%nat Hnes) as [Hfind1 Hfind2].
    destruct (G.find_fit (G.ms_first (tg cur)) (G.ms_last (tg cur)) (tg (a :: r)) 0) as [[[k gs] fit]|] eqn:Hff.
    + destruct (Hfind1 k gs fit eq_refl) as [s [j [Hk [Hn [Hgs Hf]]]]]. rewrite Hf. cbn in Hk. subst k gs.
      assert (Hj : (j < List.length (a :: r))%nat) by (apply nth_error_Some; congruence).
      rewrite GJ.remove_shift_eq by (unfold tg; rewrite map_length; exact Hj).
      rewrite tg_remove_nth, apply_geo.
      pose proof (GJ.remove_nth_perm j (a :: r) s Hn) as Hperm.
      assert (Hall : Forall long (s :: GJ.remove_nth j (a :: r))) by (eapply Permutation_Forall; eassumption).
      inversion Hall as [|? ? Hs Hrest]; subst.
      pose proof (GJ.remove_nth_length j (a :: r) Hj) as Hlen.
      pose proof (jm_nonempty s fit Hs) as Hjm.
      assert (E : grow f (grown cur (jm_of s fit)) (GJ.remove_nth j (a :: r)) =
                  match jm_of s fit with
                  | JEnd s' => grow f (cur ++ [s']) (GJ.remove_nth j (a :: r))
                  | JStart s' => grow f (s' :: cur) (GJ.remove_nth j (a :: r))
                  end) by (destruct (jm_of s fit); reflexivity).
      rewrite <- E. apply IH.
      * cbn [List.length] in *. lia.
      * cbn [List.length] in *. lia.
      * exact Hrest.
      * destruct (jm_of s fit); cbn; [destruct cur; discriminate|discriminate].
      * destruct (jm_of s fit); cbn; [apply Forall_app; split; [exact Hcur|constructor; [exact Hjm|constructor]]|constructor; assumption].
    + rewrite (Hfind2 eq_refl). reflexivity.
Qed.

Lemma join_loop_geo : forall fm fg segs acc,
  (List.length segs <= fm)%nat -> (List.length segs < fg)%nat -> Forall long segs ->
  G.join_loop fg (tg segs) (map tg acc) = Some (map tg (join_loop fm segs acc)).
Proof.
  induction fm as [|f IH]; intros fg segs acc Hm Hg Hlong.
  - destruct segs; [|cbn in Hm; lia]. destruct fg; [lia|]. reflexivity.
  - destruct fg as [|fu]; [lia|]. cbn [join_loop].
    destruct (split_last segs) as [[init z]|] eqn:Hs.
    2:{ rewrite (split_last_none _ Hs). reflexivity. }
    pose proof (split_last_spec _ _ _ Hs) as ->.
    apply Forall_app in Hlong. destruct Hlong as [Hinit Hz]. inversion Hz as [|? ? Hz' _]; subst.
    unfold tg at 1. rewrite map_app. cbn [map]. fold (tg init).
    cbn [G.join_loop]. destruct (tg init ++ [to_geo z]) as [|x y] eqn:E; [destruct (tg init); discriminate|].
    rewrite <- E. rewrite last_last, GJ.removelast_app_single.
    assert (Hz1 : [z] <> []) by discriminate.
    assert (Hz2 : Forall nonempty [z]) by (constructor; [apply long_nonempty; exact Hz'|constructor]).
    change [to_geo z] with (tg [z]).
    rewrite (grow_geo (List.length init) (S (List.length (tg init))) [z] init); try assumption;
      [|lia|unfold tg; rewrite map_length; lia].
    destruct (grow (List.length init) [z] init) as [cur rest] eqn:Hgrow. cbn [fst snd].
    destruct (grow_count ((0, 0), (0, 0)) _ _ _ _ _ Hinit Hz1 Hz2 Hgrow) as [R1 [_ [_ [_ R5]]]].
    rewrite app_length in Hm, Hg. cbn [List.length] in Hm, Hg.
    change (map tg acc ++ [tg cur]) with (map tg acc ++ map tg [cur]). rewrite <- map_app.
    apply IH; [lia|lia|exact R1].
Qed.

Theorem join_geo segs : G.join (tg segs) = G.JoinOk (map tg (Mputil.join segs)).
Proof.
  unfold G.join, Mputil.join.
  assert (Hfm : forall {A B} (p : B -> bool) (g : A -> B) (l : list A),
             filter p (map g l) = map g (filter (fun x => p (g x)) l)).
  { intros A B p g l. induction l as [|x l IHl]; [reflexivity|]. cbn [map filter].
    destruct (p (g x)); cbn [map]; rewrite IHl; reflexivity. }
  assert (Hc : G.compact (tg segs) = tg (compact segs)).
  { unfold G.compact, tg. rewrite Hfm. reflexivity. }
  rewrite Hc.
  assert (H : G.join_loop (S (List.length (tg (compact segs)))) (tg (compact segs)) (map tg []) =
              Some (map tg (join_loop (List.length (compact segs)) (compact segs) []))).
  { apply join_loop_geo; [lia|unfold tg; rewrite map_length; lia|apply (compact_count ((0, 0), (0, 0)))]. }
  exact (f_equal (fun x => match x with Some l => G.JoinOk l | None => G.JoinOutOfFuel end) H).
Qed.

(* MultiSegment.Ring *)
Lemma sign_sgn a : G.sign a = Z.sgn a.
Proof. unfold G.sign. destruct a; reflexivity. Qed.

Lemma area_from_pair_sum o l : G.area_from o l = pair_sum o l.
Proof.
  induction l as [|p l IH]; [reflexivity|]. destruct l as [|q l]; [reflexivity|].
  change (G.area_from o (p :: q :: l)) with (G.cross_off o p q + G.area_from o (q :: l)).
  rewrite IH. reflexivity.
Qed.

Lemma ring_orientation_geo r : G.ring_orientation r = ring_orientation r.
Proof. unfold G.ring_orientation, G.ring_area2, ring_orientation. destruct r; [reflexivity|]. rewrite sign_sgn, area_from_pair_sum. reflexivity. Qed.

Lemma existsb_tg (p : G.segment -> bool) ms : existsb p (tg ms) = existsb (fun s => p (to_geo s)) ms.
Proof. unfold tg. induction ms as [|s r IH]; [reflexivity|]. cbn [map existsb]. rewrite IH. reflexivity. Qed.

Lemma ms_line_geo ms : G.ms_line (tg ms) = ms_line ms.
Proof. unfold G.ms_line, ms_line, tg. induction ms as [|s r IH]; [reflexivity|]. cbn [map flat_map concat]. rewrite IH. reflexivity. Qed.

Theorem ring_of_geo o ms : G.ring_of o (tg ms) = Mputil.ring_of o ms.
Proof.
  unfold G.ring_of, Mputil.ring_of, G.have_orient, G.says_reversed.
  rewrite ms_line_geo, !existsb_tg, ring_orientation_geo. reflexivity.
Qed.
