(* C17/ProofsGeoBuild.v — buildPolygon in the C17 model (poly_result, with the executable mputil
   instance) computes exactly property C16's model Geo.Model.build_polygon on the same data:
   same geometry (single-outer and multi-outer paths, either setting of IncludeInvalidPolygons),
   same tainted flag.  With C17/ProofsGeoEq.v (Join, Ring) this makes [convert_exec] one closed
   executable model of osmgeojson.Convert whose multipolygon part IS C16's model, so C16's
   recovery theorem applies to the features of [convert] as a corollary. *)
From Coq Require Import ZArith String List Bool Lia Arith Permutation.
From Verif Require Import C17.Model C17.Mputil C17.Spec C17.Proofs C17.ProofsGeom C17.ProofsJoin C17.ProofsGeoEq.
From Verif Require Geo.Model.
Import ListNotations.
Open Scope Z_scope.
Open Scope list_scope.

Arguments way_line : simpl never.
Arguments has_interesting : simpl never.

(* ---------- translation of the input ---------- *)
Definition gnode (n : node) : G.node := G.mkNode (n_id n) (n_lon n) (n_lat n).
Definition gwn (wn : wnode) : G.waynode := G.mkWN (wn_id wn) 0 (wn_lon wn) (wn_lat wn).
Definition gway (w : way) : G.way := G.mkWay (w_id w) (map gwn (w_nodes w)).
Definition grole (m : member) : G.role :=
  if String.eqb (m_role m) "outer" then G.Outer
  else if String.eqb (m_role m) "inner" then G.Inner else G.OtherRole.
Definition gmem (m : member) : G.member :=
  G.mkMem (etype_eqb (m_type m) TWay) (m_ref m) (grole m) (m_orient m) (map gwn (m_nodes m)).
Definition gnodes (d : osm) : list G.node := map gnode (nodes d).
Definition gways (d : osm) : list G.way := map gway (ways d).

(* ---------- lookups ---------- *)
Lemma find_app {A} (p : A -> bool) (a b : list A) :
  find p (a ++ b) = match find p a with Some x => Some x | None => find p b end.
Proof. induction a as [|x a IH]; [reflexivity|]. cbn. destruct (p x); [reflexivity|exact IH]. Qed.

Lemma find_rev_last {A} (p : A -> bool) (l : list A) : find p (rev l) = find_last p l.
Proof.
  induction l as [|x l IH]; [reflexivity|]. cbn [rev find_last]. rewrite find_app, IH.
  destruct (find_last p l); [reflexivity|]. cbn. destruct (p x); reflexivity.
Qed.

Lemma find_last_map {A B} (g : A -> B) (p : B -> bool) (l : list A) :
  find_last p (map g l) = option_map g (find_last (fun x => p (g x)) l).
Proof.
  induction l as [|x l IH]; [reflexivity|]. cbn [map find_last]. rewrite IH.
  destruct (find_last (fun x => p (g x)) l); cbn; [reflexivity|]. destruct (p (g x)); reflexivity.
Qed.

Lemma lookup_way_geo d id : G.lookup_way (gways d) id = option_map gway (way_lookup d id).
Proof.
  (* Geo reverses with rev or with rev_append _ []: the same list *)
  unfold G.lookup_way, gways, way_lookup. rewrite ?rev_append_rev, ?app_nil_r. rewrite find_rev_last, find_last_map. reflexivity.
Qed.

Lemma lookup_node_geo d id : G.lookup_node (gnodes d) id = option_map gnode (node_lookup d id).
Proof.
  unfold G.lookup_node, gnodes, node_lookup. rewrite ?rev_append_rev, ?app_nil_r. rewrite find_rev_last, find_last_map. reflexivity.
Qed.

(* ---------- wayToLineString ---------- *)
Lemma way_to_line_geo d wns :
  G.way_to_line (gnodes d) (map gwn wns) =
  (omap (resolve d) wns, existsb (fun wn => negb (is_some (resolve d wn))) wns).
Proof.
  induction wns as [|wn r IH]; [reflexivity|]. cbn [map G.way_to_line]. rewrite IH.
  unfold resolve at 1 3. cbn [omap existsb G.wn_x G.wn_y G.wn_id gwn].
  destruct (negb (wn_lon wn =? 0) || negb (wn_lat wn =? 0)) eqn:E.
  - unfold resolve. rewrite E. reflexivity.
  - rewrite lookup_node_geo. unfold resolve. rewrite E.
    destruct (node_lookup d (wn_id wn)); reflexivity.
Qed.

(* ---------- polygonContains ---------- *)
Lemma crosses_geo p a b : G.crosses p a b = crosses p a b.
Proof.
  destruct p as [x y], a as [xi yi], b as [xj yj]. unfold G.crosses, crosses.
  rewrite !Z.gtb_ltb. reflexivity.
Qed.

Lemma pir_loop_geo p : forall l prev acc, G.pir_loop p prev l acc = xorb acc (inside_aux p prev l).
Proof.
  induction l as [|a l IH]; intros prev acc; cbn [G.pir_loop inside_aux]; [destruct acc; reflexivity|].
  rewrite IH, crosses_geo. destruct (crosses p a prev), acc, (inside_aux p a l); reflexivity.
Qed.

Lemma point_in_ring_geo outer p : G.point_in_ring outer p = inside p outer.
Proof.
  unfold G.point_in_ring, inside. rewrite pir_loop_geo. cbn [xorb].
  destruct outer as [|a l]; [reflexivity|]. unfold G.llast.
  rewrite (last_indep (a :: l) G.origin a) by discriminate.
  match goal with |- (if ?x then true else false) = _ => destruct x eqn:E end; symmetry; exact E.
Qed.

Lemma polygon_contains_geo outer r : G.polygon_contains outer r = polygon_contains outer r.
Proof.
  unfold G.polygon_contains, polygon_contains. induction r as [|p r IH]; [reflexivity|].
  cbn [existsb]. rewrite IH, point_in_ring_geo. reflexivity.
Qed.

(* ---------- addToMultiPolygon ---------- *)
Definition gmp (mp : list poly) : G.multipolygon := map poly_rings mp.

Lemma add_first_geo (tG : G.polygon -> bool) (t : poly -> bool) ring :
  (forall p, tG (poly_rings p) = t p) ->
  forall mp, G.add_first tG (gmp mp) ring = option_map gmp (add_first t ring mp).
Proof.
  intros Ht. induction mp as [|p mp IH]; [reflexivity|].
  cbn [gmp map G.add_first add_first]. fold (gmp mp). rewrite Ht, IH.
  destruct (t p); [reflexivity|]. destruct (add_first t ring mp); reflexivity.
Qed.

Lemma closed_geo (fr : list pt) :
  negb (Nat.eqb (List.length fr) 0) && negb (G.pt_eqb (G.lfirst fr) (G.llast fr)) =
  negb (is_nil fr) && negb (ring_closed fr).
Proof.
  destruct fr as [|a l]; [reflexivity|]. cbn [List.length Nat.eqb negb andb is_nil ring_closed G.lfirst hd].
  unfold G.llast.
  assert (E : @last G.point (a :: l) G.origin = last (a :: l) a) by (apply last_indep; discriminate).
  rewrite E. reflexivity.
Qed.

Lemma add_to_mp_geo incl mp ring :
  G.add_to_multipolygon incl (gmp mp) ring = gmp (add_to_mp mp ring incl).
Proof.
  unfold G.add_to_multipolygon, add_to_mp.
  rewrite (add_first_geo _ (fun p => polygon_contains (fst p) ring) ring)
    by (intros p; cbn; apply polygon_contains_geo).
  destruct (add_first (fun p => polygon_contains (fst p) ring) ring mp) as [mp'|]; [reflexivity|]. cbn [option_map].
  destruct (negb incl); [reflexivity|].
  destruct mp as [|p0 r0]; [reflexivity|].
  change (gmp (p0 :: r0)) with (poly_rings p0 :: gmp r0). cbn [hd poly_rings].
  rewrite closed_geo.
  destruct (negb (is_nil (fst p0)) && negb (ring_closed (fst p0))); [reflexivity|].
  change (poly_rings p0 :: gmp r0) with (gmp (p0 :: r0)).
  rewrite (add_first_geo _ (fun p => is_nil (fst p)) ring)
    by (intros p; cbn; destruct (fst p); reflexivity).
  destruct (add_first (fun p => is_nil (fst p)) ring (p0 :: r0)) as [mp'|]; [reflexivity|]. cbn [option_map].
  unfold gmp. rewrite map_app. reflexivity.
Qed.

Lemma add_inners_geo incl (l : list (list seg)) : forall mp,
  fold_left (fun mp is => G.add_to_multipolygon incl mp (G.ring_of G.CW is)) (map tg l) (gmp mp) =
  gmp (fold_left (fun mp s => add_to_mp mp (Mputil.ring_of (-1) s) incl) l mp).
Proof.
  induction l as [|s l IH]; intros mp; [reflexivity|]. cbn [map fold_left].
  change G.CW with (-1). rewrite ring_of_geo, add_to_mp_geo. apply IH.
Qed.

(* ---------- rings ---------- *)
Lemma valid_ring_geo (r : list pt) : G.valid_ring r = negb (ring_invalid r).
Proof.
  destruct r as [|a [|b [|c [|e l]]]]; try reflexivity.
  unfold G.valid_ring, ring_invalid, G.closedb, ring_closed, G.lfirst, G.llast.
  cbn [List.length Nat.leb Nat.ltb hd andb orb negb].
  assert (E : @last G.point (a :: b :: c :: e :: l) G.origin = last (a :: b :: c :: e :: l) a)
    by (apply last_indep; discriminate).
  rewrite E, negb_involutive. reflexivity.
Qed.

Lemma outer_polys_geo incl (l : list (list seg)) :
  map (fun r => [r]) (filter (fun r => incl || G.valid_ring r) (map (G.ring_of G.CCW) (map tg l))) =
  gmp (flat_map (fun os => let ring := Mputil.ring_of 1 os in
                           if negb incl && ring_invalid ring then [] else [(ring, [])]) l).
Proof.
  induction l as [|s l IH]; [reflexivity|]. cbn [map filter flat_map].
  change G.CCW with 1. rewrite ring_of_geo, valid_ring_geo.
  destruct incl; cbn [orb negb andb].
  - cbn [app gmp map poly_rings fst snd]. f_equal. exact IH.
  - destruct (ring_invalid (Mputil.ring_of 1 s)); cbn [negb app]; [exact IH|].
    cbn [gmp map poly_rings fst snd]. f_equal. exact IH.
Qed.

(* ---------- the member loop ---------- *)
Definition col_add (c : G.collected) (st : pstep) : G.collected :=
  G.mkCol (G.col_outer c ++ tg (map fst (ps_outer st))) (G.col_inner c ++ tg (ps_inner st))
          (G.col_tainted c || ps_taint st) (Z.to_nat (ps_cnt st) + G.col_outer_count c).

Lemma col_add_0 c : col_add c pstep0 = c.
Proof. destruct c. unfold col_add. cbn. rewrite !app_nil_r, orb_false_r. reflexivity. Qed.

Lemma gway_pseudo id ns : gway (pseudo_way id ns) = G.mkWay id (map gwn ns).
Proof. reflexivity. Qed.

Ltac fin_col :=
  unfold col_add; cbn [ps_outer ps_inner ps_taint ps_cnt map fst tg G.seg_orient];
  change (Z.to_nat 1) with 1%nat; change (Z.to_nat 0) with 0%nat; cbn [Nat.add];
  rewrite ?app_nil_r, ?orb_true_r; reflexivity.

Lemma collect_step_geo d rt c m :
  G.collect_step (gnodes d) (gways d) c (gmem m) = col_add c (poly_step d rt m).
Proof.
  unfold G.collect_step, gmem, grole, poly_step.
  cbn [G.mem_is_way G.mem_role G.mem_ref G.mem_orient G.mem_nodes].
  destruct (m_type m); cbn [etype_eqb negb]; try (symmetry; apply col_add_0).
  rewrite lookup_way_geo.
  destruct (String.eqb (m_role m) "outer") eqn:Ho; cbn [orb negb].
  - destruct (way_lookup d (m_ref m)) as [w|]; cbn [option_map].
    + cbn [G.way_nodes gway]. rewrite way_to_line_geo. unfold way_line.
      destruct (omap (resolve d) (w_nodes w)) as [|p ls]; [fin_col|].
      change G.CW with (-1). cbn [G.seg_orient]. destruct (m_orient m =? -1); fin_col.
    + destruct (m_nodes m) as [|n0 ns]; [fin_col|]. cbn [map].
      change (gwn n0 :: map gwn ns) with (map gwn (n0 :: ns)).
      cbn [G.way_nodes]. rewrite way_to_line_geo. unfold way_line. cbn [w_nodes pseudo_way].
      destruct (omap (resolve d) (n0 :: ns)) as [|p ls]; [fin_col|].
      change G.CW with (-1). cbn [G.seg_orient]. destruct (m_orient m =? -1); fin_col.
  - destruct (String.eqb (m_role m) "inner") eqn:Hi; cbn [negb]; [|symmetry; apply col_add_0].
    destruct (way_lookup d (m_ref m)) as [w|]; cbn [option_map].
    + cbn [G.way_nodes gway]. rewrite way_to_line_geo. unfold way_line.
      destruct (omap (resolve d) (w_nodes w)) as [|p ls]; [fin_col|].
      change G.CCW with 1. cbn [G.seg_orient]. destruct (m_orient m =? 1); fin_col.
    + destruct (m_nodes m) as [|n0 ns]; [fin_col|]. cbn [map].
      change (gwn n0 :: map gwn ns) with (map gwn (n0 :: ns)).
      cbn [G.way_nodes]. rewrite way_to_line_geo. unfold way_line. cbn [w_nodes pseudo_way].
      destruct (omap (resolve d) (n0 :: ns)) as [|p ls]; [fin_col|].
      change G.CCW with 1. cbn [G.seg_orient]. destruct (m_orient m =? 1); fin_col.
Qed.

Lemma ps_cnt_nonneg d rt m : 0 <= ps_cnt (poly_step d rt m).
Proof.
  rewrite poly_step_cnt. destruct (m_type m); try lia. destruct (String.eqb (m_role m) "outer"); lia.
Qed.

Lemma cnt_sum_nonneg d rt ms : 0 <= fold_right Z.add 0 (map ps_cnt (map (poly_step d rt) ms)).
Proof.
  induction ms as [|m ms IH]; cbn [map fold_right]; [lia|]. pose proof (ps_cnt_nonneg d rt m). lia.
Qed.

Lemma collect_fold_geo d rt ms : forall c,
  fold_left (G.collect_step (gnodes d) (gways d)) (map gmem ms) c =
  G.mkCol (G.col_outer c ++ tg (map fst (flat_map ps_outer (map (poly_step d rt) ms))))
          (G.col_inner c ++ tg (flat_map ps_inner (map (poly_step d rt) ms)))
          (G.col_tainted c || existsb ps_taint (map (poly_step d rt) ms))
          (Z.to_nat (fold_right Z.add 0 (map ps_cnt (map (poly_step d rt) ms))) + G.col_outer_count c).
Proof.
  induction ms as [|m ms IH]; intros c.
  - destruct c. cbn. rewrite !app_nil_r, orb_false_r. reflexivity.
  - cbn [map fold_left flat_map existsb fold_right]. rewrite (collect_step_geo d rt c m), IH.
    unfold col_add. cbn [G.col_outer G.col_inner G.col_tainted G.col_outer_count].
    unfold tg. rewrite !map_app, <- !app_assoc, orb_assoc.
    pose proof (ps_cnt_nonneg d rt m). pose proof (cnt_sum_nonneg d rt ms).
    rewrite Z2Nat.inj_add by assumption. f_equal. lia.
Qed.

Lemma collect_geo d rt ms :
  G.collect (gnodes d) (gways d) (map gmem ms) =
  G.mkCol (tg (map fst (flat_map ps_outer (map (poly_step d rt) ms))))
          (tg (flat_map ps_inner (map (poly_step d rt) ms)))
          (existsb ps_taint (map (poly_step d rt) ms))
          (Z.to_nat (fold_right Z.add 0 (map ps_cnt (map (poly_step d rt) ms)))).
Proof. unfold G.collect. rewrite (collect_fold_geo d rt ms). cbn. rewrite Nat.add_0_r. reflexivity. Qed.

(* ---------- the geometry of buildPolygon, separated from the feature ---------- *)
Definition poly_geom (incl : bool) (outer inner : list seg) (cnt : Z) : option geom :=
  if is_nil outer && negb incl then None
  else match outer, cnt =? 1 with
       | [s], true =>
           let oring := Mputil.ring_of 1 [s] in
           if ring_invalid oring then None
           else Some (GPoly (oring :: map (Mputil.ring_of (-1)) (Mputil.join inner)))
       | _, _ =>
           let mp0 := outer_polys Mputil.join Mputil.ring_of incl outer in
           if is_nil mp0 && negb incl then None
           else mp_geom (add_inners Mputil.join Mputil.ring_of incl mp0 inner)
       end.

Lemma poly_result_geom o d r :
  option_map f_geom (snd (poly_result Mputil.join Mputil.ring_of o d r)) =
  poly_geom (inclInvalid o)
    (map fst (flat_map ps_outer (map (poly_step d (r_tags r)) (r_members r))))
    (flat_map ps_inner (map (poly_step d (r_tags r)) (r_members r)))
    (fold_right Z.add 0 (map ps_cnt (map (poly_step d (r_tags r)) (r_members r)))).
Proof.
  unfold poly_result, poly_result_with, poly_geom.
  destruct (flat_map ps_outer (map (poly_step d (r_tags r)) (r_members r))) as [|[s w] [|q rest]];
    cbn [map fst is_nil andb];
    repeat match goal with
           | |- context [match ?x with _ => _ end] => destruct x eqn:?
           end; try reflexivity; cbn in *; try discriminate; try congruence.
Qed.

Definition ggeom (g : option geom) : G.geometry :=
  match g with
  | Some (GPoly rs) => G.GPolygon rs
  | Some (GMultiPoly ps) => G.GMultiPolygon ps
  | _ => G.GNone
  end.

Lemma to_nat_eqb_1 z : 0 <= z -> Nat.eqb (Z.to_nat z) 1 = (z =? 1).
Proof.
  intros H. destruct (z =? 1) eqn:E.
  - apply Z.eqb_eq in E. subst. reflexivity.
  - apply Z.eqb_neq in E. apply Nat.eqb_neq. lia.
Qed.

Lemma mp_geom_geo mp :
  match gmp mp with [] => G.GNone | [p] => G.GPolygon p | _ => G.GMultiPolygon (gmp mp) end = ggeom (mp_geom mp).
Proof. destruct mp as [|p [|q mp]]; reflexivity. Qed.

Lemma tail_geo incl (mp0 : list poly) inner (b : bool) :
  (if Nat.eqb (List.length (gmp mp0)) 0 && b then G.GNone
   else match fold_left (fun mp is => G.add_to_multipolygon incl mp (G.ring_of G.CW is))
                        (map tg (Mputil.join inner)) (gmp mp0) with
        | [] => G.GNone
        | [p] => G.GPolygon p
        | _ => G.GMultiPolygon (fold_left (fun mp is => G.add_to_multipolygon incl mp (G.ring_of G.CW is))
                                          (map tg (Mputil.join inner)) (gmp mp0))
        end) =
  ggeom (if is_nil mp0 && b then None
         else mp_geom (fold_left (fun mp s => add_to_mp mp (Mputil.ring_of (-1) s) incl) (Mputil.join inner) mp0)).
Proof.
  destruct mp0 as [|p0 m].
  - change (Nat.eqb (List.length (gmp [])) 0) with true. change (is_nil (@nil poly)) with true.
    cbn [andb]. destruct b; [reflexivity|]. rewrite add_inners_geo. apply mp_geom_geo.
  - change (Nat.eqb (List.length (gmp (p0 :: m))) 0) with false. change (is_nil (p0 :: m)) with false.
    cbn [andb]. rewrite add_inners_geo. apply mp_geom_geo.
Qed.

Lemma build_geometry_geo incl outer inner cnt t : 0 <= cnt ->
  G.build_geometry incl (G.mkCol (tg outer) (tg inner) t (Z.to_nat cnt)) = ggeom (poly_geom incl outer inner cnt).
Proof.
  intros Hc. unfold G.build_geometry, poly_geom.
  cbn [G.col_outer G.col_inner G.col_outer_count]. unfold tg at 1 2. rewrite !map_length.
  rewrite (to_nat_eqb_1 cnt Hc). fold (tg outer) (tg inner).
  destruct outer as [|s [|s2 rest]].
  - (* no outer segment *)
    cbn [List.length Nat.eqb is_nil andb].
    destruct (negb incl) eqn:Hi; [reflexivity|]. cbn [andb].
    rewrite !join_geo. change (tg []) with (@nil G.segment).
    rewrite (outer_polys_geo incl (Mputil.join [])).
    unfold outer_polys, add_inners. apply (tail_geo incl _ inner false).
  - (* one outer segment *)
    cbn [List.length Nat.eqb is_nil andb].
    destruct (cnt =? 1) eqn:Hcnt; cbn [andb].
    + change G.CCW with 1. rewrite ring_of_geo, valid_ring_geo.
      destruct (ring_invalid (Mputil.ring_of 1 [s])); cbn [negb]; [reflexivity|].
      rewrite join_geo. cbn [ggeom]. f_equal. f_equal.
      rewrite map_map. apply map_ext. intros ms. change G.CW with (-1). apply ring_of_geo.
    + rewrite !join_geo. rewrite (outer_polys_geo incl (Mputil.join [s])).
      unfold outer_polys, add_inners. apply (tail_geo incl _ inner (negb incl)).
  - (* several outer segments *)
    cbn [List.length Nat.eqb is_nil andb].
    rewrite !join_geo. rewrite (outer_polys_geo incl (Mputil.join (s :: s2 :: rest))).
    unfold outer_polys, add_inners.
    destruct (cnt =? 1); apply (tail_geo incl _ inner (negb incl)).
Qed.

(* buildPolygon of the C17 model is C16's build_polygon *)
Theorem poly_result_is_geo o d r :
  G.build_polygon (inclInvalid o) (gnodes d) (gways d) (map gmem (r_members r)) =
  (ggeom (option_map f_geom (snd (poly_result Mputil.join Mputil.ring_of o d r))),
   existsb ps_taint (map (poly_step d (r_tags r)) (r_members r))).
Proof.
  unfold G.build_polygon. rewrite (collect_geo d (r_tags r) (r_members r)).
  cbn [G.col_tainted]. rewrite build_geometry_geo by apply cnt_sum_nonneg.
  rewrite poly_result_geom. reflexivity.
Qed.
