(* C17/ProofsArea.v — "area way" in C17 is exactly what Way.Polygon() computes: the model's
   [way_area] is property C18's [way_polygon] on the rule table re-read from /repo, which C18
   proves total and equal to the declarative specification of polygon.go. *)
From Coq Require Import ZArith String List Bool.
From Verif Require Import C17.Model.
From Verif Require C18.Model C18.Spec C18.Proofs C18.Main.
Import ListNotations.

Lemma way_area_polygon w :
  C18.Model.way_polygon C18.Model.RT (map wn_id (w_nodes w)) (w_tags w) = C18.Model.Val (way_area w).
Proof. unfold way_area. rewrite C18.Main.way_polygon_RT_bool. reflexivity. Qed.

Lemma way_area_spec w :
  way_area w = true <->
  C18.Spec.spec_polygon (map wn_id (w_nodes w)) (C18.Proofs.dedup_first (w_tags w)).
Proof.
  destruct (C18.Main.way_polygon_RT_spec_dups (map wn_id (w_nodes w)) (w_tags w)) as [b [Hb Hiff]].
  rewrite way_area_polygon in Hb. injection Hb as <-. exact Hiff.
Qed.

(* the two structural preconditions of Way.Polygon, spelled out *)
Lemma way_area_closed w :
  way_area w = true ->
  (4 <= List.length (w_nodes w))%nat /\
  option_map wn_id (hd_error (w_nodes w)) = option_map wn_id (nth_error (w_nodes w) (List.length (w_nodes w) - 1)).
Proof.
  unfold way_area, C18.Model.way_polygon. rewrite map_length.
  destruct (Nat.leb (List.length (w_nodes w)) 3) eqn:Hl; [discriminate|].
  apply PeanoNat.Nat.leb_gt in Hl. intros H. split; [exact Hl|].
  rewrite !nth_error_map in H.
  destruct (w_nodes w) as [|a l] eqn:E; [cbn in Hl; inversion Hl|]. rewrite <- E in *.
  assert (Hh : hd_error (w_nodes w) = nth_error (w_nodes w) 0) by (rewrite E; reflexivity).
  rewrite Hh. destruct (nth_error (w_nodes w) 0) as [x|]; [|discriminate H].
  destruct (nth_error (w_nodes w) (List.length (w_nodes w) - 1)) as [y|]; [|discriminate H].
  cbn in *. destruct (Z.eqb (wn_id x) (wn_id y)) eqn:He; [|discriminate H].
  apply Z.eqb_eq in He. rewrite He. reflexivity.
Qed.

(* the stable interface of C18 (C18/Api.v): the same boolean *)
From Verif Require C18.Api.
Lemma way_area_api w : way_area w = C18.Api.way_is_area (map wn_id (w_nodes w)) (w_tags w).
Proof.
  pose proof (way_area_polygon w) as H.
  rewrite C18.Api.way_is_area_is_the_model in H. injection H as H. symmetry. exact H.
Qed.
