(* C17/Spec.v — the property's clauses as boolean predicates evaluated directly on a list of
   features (what the implementation returned), independent of the model's control flow.
   Executable only.  Used as judgement 2 by C17/Check.v and as the right-hand sides of the
   theorems in Properties/C17.v.

   Clauses (property text in quotes):
   K  "at most one feature per input element": the (type, id) keys of the features are
      pairwise different.
   E  "carrying the element's type, id, tags and, unless disabled, its metadata and relation
      memberships": every feature names an input element (or a way that exists only as an
      annotated multipolygon member), with that element's tag map, Feature.ID, meta, relations.
   N  "a point for every located node that is not part of a way, or has an interesting tag, or
      is a relation member": a node has a feature iff the rule holds; the feature is its point.
   W  "a line, or for area ways a closed correctly wound polygon, with the way's resolvable
      node coordinates in order".
   R  "for route relations a joined line geometry that preserves every segment of its member
      ways".
   O  "each option changes only what it documents": NoID / NoMeta / NoRelationMembership erase
      exactly their field of every feature of the run without them; IncludeInvalidPolygons
      leaves way and node features alone, keeps every relation feature and only adds rings. *)
From Coq Require Import ZArith String List Bool.
From Verif Require Import C17.Model.
Import ListNotations.
Open Scope Z_scope.
Open Scope list_scope.

Definition fkey (f : feature) : etype * Z := (f_type f, f_ref f).
Definition key_eqb (a b : etype * Z) : bool := etype_eqb (fst a) (fst b) && (snd a =? snd b).

Fixpoint nodupb {A} (eqb : A -> A -> bool) (l : list A) : bool :=
  match l with
  | [] => true
  | a :: r => negb (existsb (eqb a) r) && nodupb eqb r
  end.

(* K *)
Definition keys_unique (fs : list feature) : bool := nodupb key_eqb (map fkey fs).

(* ---- equality of observables ---- *)
Fixpoint list_eqb {A} (eqb : A -> A -> bool) (a b : list A) : bool :=
  match a, b with
  | [], [] => true
  | x :: a', y :: b' => eqb x y && list_eqb eqb a' b'
  | _, _ => false
  end.
Definition opt_eqb {A} (eqb : A -> A -> bool) (a b : option A) : bool :=
  match a, b with
  | None, None => true
  | Some x, Some y => eqb x y
  | _, _ => false
  end.
Definition tag_eqb (a b : string * string) : bool :=
  String.eqb (fst a) (fst b) && String.eqb (snd a) (snd b).
(* maps with unique keys, compared as sets *)
Definition tagmap_eqb (a b : tags) : bool :=
  (List.length a =? List.length b)%nat && forallb (fun kv => existsb (tag_eqb kv) a) b.
Definition summary_eqb (a b : summary) : bool :=
  (s_id a =? s_id b) && String.eqb (s_role a) (s_role b) && tagmap_eqb (s_tags a) (s_tags b).
Definition metaobs_eqb (a b : metaobs) : bool :=
  opt_eqb Z.eqb (mo_ts a) (mo_ts b) && opt_eqb Z.eqb (mo_version a) (mo_version b)
  && opt_eqb Z.eqb (mo_changeset a) (mo_changeset b) && opt_eqb String.eqb (mo_user a) (mo_user b)
  && opt_eqb Z.eqb (mo_uid a) (mo_uid b).
Definition line_eqb := list_eqb pt_eqb.
Definition rings_eqb := list_eqb line_eqb.
Definition geom_eqb (a b : geom) : bool :=
  match a, b with
  | GPoint p, GPoint q => pt_eqb p q
  | GLine l, GLine m => line_eqb l m
  | GPoly r, GPoly s => rings_eqb r s
  | GMultiLine l, GMultiLine m => rings_eqb l m
  | GMultiPoly p, GMultiPoly q => list_eqb rings_eqb p q
  | _, _ => false
  end.
Definition feature_eqb (a b : feature) : bool :=
  opt_eqb key_eqb (f_id a) (f_id b) && etype_eqb (f_type a) (f_type b) && (f_ref a =? f_ref b)
  && tagmap_eqb (f_tags a) (f_tags b) && Bool.eqb (f_tainted a) (f_tainted b)
  && opt_eqb (list_eqb summary_eqb) (f_rels a) (f_rels b)
  && opt_eqb metaobs_eqb (f_meta a) (f_meta b) && geom_eqb (f_geom a) (f_geom b).

(* ---- E: what an element's feature carries ---- *)
(* spec of the relation memberships of an element: one summary per member entry naming it,
   in relation order then member order (way members only for ways in the data) *)
Definition spec_rels (d : osm) (key : etype * Z) : list summary :=
  flat_map (fun r =>
    flat_map (fun m =>
      if key_eqb (m_type m, m_ref m) key then
        [{| s_id := r_id r; s_role := m_role m; s_tags := tags_map (r_tags r) |}] else [])
      (r_members r)) (relations d).

Definition carries (o : opts) (d : osm) (f : feature) (ts : tags) (m : meta) (present : bool) : bool :=
  opt_eqb key_eqb (f_id f) (if noID o then None else Some (fkey f))
  && tagmap_eqb (tags_map ts) (f_tags f)
  && opt_eqb metaobs_eqb (f_meta f) (if noMeta o then None else Some (meta_obs m))
  && opt_eqb (list_eqb summary_eqb) (f_rels f)
       (if noRelM o then None else Some (if present then spec_rels d (fkey f) else [])).

(* ---- N ---- *)
Definition spec_rel_member (d : osm) (id : Z) : bool :=
  existsb (fun r => existsb (fun m => etype_eqb (m_type m) TNode && (m_ref m =? id)) (r_members r))
          (relations d).
(* the published list of uninteresting keys (osmtogeojson's default; tag.go's table must be this
   set: C17/GenOk.v) — the oracle uses the published list, the model the table of the code *)
Definition published_uninteresting : list string :=
  ["source"; "source_ref"; "source:ref"; "history"; "attribution"; "created_by";
   "tiger:county"; "tiger:tlid"; "tiger:upload_uuid"]%string.
Definition spec_uninteresting (k : string) : bool := existsb (String.eqb k) published_uninteresting.

Definition spec_node_rule (d : osm) (n : node) : bool :=
  node_located n &&
  (negb (way_member d (n_id n)) || existsb (fun kv => negb (spec_uninteresting (fst kv))) (n_tags n)
   || spec_rel_member d (n_id n)).

(* ---- W ---- *)
(* twice the signed area, plain shoelace over all edges of a closed ring *)
Fixpoint shoelace (l : list pt) : Z :=
  match l with
  | a :: ((b :: _) as r) => fst a * snd b - fst b * snd a + shoelace r
  | _ => 0
  end.
(* the coordinate of a way node, spelled out on the spec side (the model's [resolve] is proved
   equal in C17/ProofsAbsorb.v): the location annotated on the way node when it is not (0,0), else
   the location of the node with that id that comes last in the data, else none *)
Definition spec_last_node (d : osm) (id : Z) : option node :=
  hd_error (filter (fun n => n_id n =? id) (rev (nodes d))).
Definition spec_resolve (d : osm) (wn : wnode) : option pt :=
  if (wn_lon wn =? 0) && (wn_lat wn =? 0)
  then option_map (fun n => (n_lon n, n_lat n)) (spec_last_node d (wn_id wn))
  else Some (wn_lon wn, wn_lat wn).
Definition spec_coords (d : osm) (w : way) : list pt := omap (resolve d) (w_nodes w).
Definition spec_closed (c : list pt) : list pt :=
  match c with
  | [] => []
  | a :: _ => if pt_eqb a (last c a) then c else c ++ [a]
  end.
Definition outer_member_of_mp (d : osm) (id : Z) : bool :=
  existsb (fun r =>
    let tt := tag_find (r_tags r) "type" in
    (String.eqb tt "multipolygon" || String.eqb tt "boundary") &&
    existsb (fun m => etype_eqb (m_type m) TWay && (m_ref m =? id) && String.eqb (m_role m) "outer")
            (r_members r)) (relations d).

Definition way_ring_ok (c ring : list pt) : bool :=
  ring_closed ring && (0 <=? shoelace ring) &&
  (line_eqb ring (spec_closed c) || line_eqb ring (rev (spec_closed c))).

(* geometry of a way-typed feature for way w whose resolvable coordinates are c *)
Definition way_geom_ok (d : osm) (w : way) (inwaypass : bool) (g : geom) : bool :=
  let c := spec_coords d w in
  (2 <=? List.length c)%nat &&
  match g with
  | GLine l => negb (way_area w) && line_eqb l c
  | GPoly (ring :: holes) =>
      (if inwaypass then way_area w && is_nil holes else outer_member_of_mp d (w_id w))
      && way_ring_ok c ring
  | _ => false
  end.

(* ---- R ---- *)
Fixpoint edges (l : list pt) : list (pt * pt) :=
  match l with
  | a :: ((b :: _) as r) => (a, b) :: edges r
  | _ => []
  end.
Definition edge_eqb (e f : pt * pt) : bool :=
  (pt_eqb (fst e) (fst f) && pt_eqb (snd e) (snd f)) ||
  (pt_eqb (fst e) (snd f) && pt_eqb (snd e) (fst f)).
Definition count_edge (e : pt * pt) (l : list (pt * pt)) : nat :=
  List.length (filter (edge_eqb e) l).
(* every occurrence of an undirected edge in [a] has its own occurrence in [b] *)
Definition edges_sub (a b : list (pt * pt)) : bool :=
  forallb (fun e => (count_edge e a <=? count_edge e b)%nat) a.

Definition route_way_lines (d : osm) (r : relation) : list (list pt) :=
  flat_map (fun m => match m_type m with
                     | TWay => match way_lookup d (m_ref m) with
                               | Some w => [spec_coords d w]
                               | None => []
                               end
                     | _ => []
                     end) (r_members r).
Definition route_tainted (d : osm) (r : relation) : bool :=
  existsb (fun m => match m_type m with
                    | TWay => match way_lookup d (m_ref m) with
                              | Some w => existsb (fun wn => negb (is_some (resolve d wn))) (w_nodes w)
                              | None => true
                              end
                    | _ => false
                    end) (r_members r).
(* ---- tainted: multipolygon / boundary relations ---- *)
Definition mp_member_taints (d : osm) (m : member) : bool :=
  match m_type m with
  | TWay =>
      if String.eqb (m_role m) "outer" || String.eqb (m_role m) "inner" then
        match way_lookup d (m_ref m) with
        | Some w => existsb (fun wn => negb (is_some (resolve d wn))) (w_nodes w)
        | None => match m_nodes m with
                  | [] => true
                  | ns => existsb (fun wn => negb (is_some (resolve d wn))) ns
                  end
        end
      else false
  | _ => false
  end.
(* a multipolygon feature is tainted iff an inner/outer way member is missing (and not
   annotated with its nodes) or has a node without coordinates *)
Definition mp_tainted (d : osm) (r : relation) : bool := existsb (mp_member_taints d) (r_members r).

(* some multipolygon/boundary relation with outer way member [id] explains the flag *)
Definition adopted_taint_ok (d : osm) (id : Z) (t : bool) : bool :=
  existsb (fun r =>
    let tt := tag_find (r_tags r) "type" in
    (String.eqb tt "multipolygon" || String.eqb tt "boundary") &&
    existsb (fun m => etype_eqb (m_type m) TWay && (m_ref m =? id) && String.eqb (m_role m) "outer")
            (r_members r) && Bool.eqb t (mp_tainted d r)) (relations d).

Definition geom_lines (g : geom) : option (list (list pt)) :=
  match g with
  | GLine l => Some [l]
  | GMultiLine ls => Some ls
  | _ => None
  end.
Definition route_geom_ok (d : osm) (r : relation) (f : feature) : bool :=
  match geom_lines (f_geom f) with
  | Some ls =>
      edges_sub (flat_map edges (route_way_lines d r)) (flat_map edges ls)
      && Bool.eqb (f_tainted f) (route_tainted d r)
  | None => false
  end.

(* ---- which relations are multipolygons; which way an old-style one adopts (input only) ---- *)
Definition is_mp (r : relation) : bool :=
  let tt := tag_find (r_tags r) "type" in
  negb (String.eqb tt "route") && (String.eqb tt "multipolygon" || String.eqb tt "boundary").
Definition is_route (r : relation) : bool := String.eqb (tag_find (r_tags r) "type") "route".
(* Relation.Polygon() of polygon.go *)
Definition relation_area (r : relation) : bool :=
  let tt := tag_find (r_tags r) "type" in String.eqb tt "multipolygon" || String.eqb tt "boundary".

(* the way a multipolygon member stands for: the way of the data, else the nodes annotated on the
   member (a way without tags) *)
Definition member_way (d : osm) (m : member) : option way :=
  match way_lookup d (m_ref m) with
  | Some w => Some w
  | None => match m_nodes m with [] => None | ns => Some (pseudo_way (m_ref m) ns) end
  end.
Definition is_outer_way (m : member) : bool :=
  etype_eqb (m_type m) TWay && String.eqb (m_role m) "outer".
Definition outer_members (r : relation) : list member := filter is_outer_way (r_members r).

(* an old-style multipolygon (no interesting own tag, exactly one outer way member whose
   resolvable coordinates are a valid ring) takes the identity of that way *)
Definition adopts (d : osm) (r : relation) : list Z :=
  if is_mp r && negb (has_interesting (r_tags r) (Some old_style_ignore)) then
    match outer_members r with
    | [m] => match member_way d m with
             | Some w => if ring_invalid (omap (resolve d) (w_nodes w)) then [] else [w_id w]
             | None => []
             end
    | _ => []
    end
  else [].
Definition adopted (d : osm) (id : Z) : bool := existsb (fun r => memZ id (adopts d r)) (relations d).

(* ---- the packed FeatureID: where it loses information (input only) ----
   osm.FeatureID keeps 40 bits of a ref under a type code.  buildPolygon reads the identity of its
   feature back out of tagObject.FeatureID() (tagObject = the relation, or the outer way an
   old-style relation adopts), and ctx.relationMember is keyed by packed ids.
   [packed_ok d]: (1) every multipolygon/boundary relation and each of its outer way members has
   an id in [0,2^40); (2) no member entry packs to the same FeatureID as a DIFFERENT element of the
   data set (node 2^44+k looks like node k, node -5 like way -5).  Ids of nodes, ways and other
   relations are otherwise arbitrary int64.  The negation is the known-finding class
   polygon-id-outside-packed-range. *)
Definition in40 (r : Z) : bool := (0 <=? r) && (r <? 1099511627776).
Definition poly_in_range (r : relation) : bool :=
  in40 (r_id r) && forallb (fun m => in40 (m_ref m)) (outer_members r).
Definition poly_ids_ok (d : osm) : bool :=
  forallb (fun r => negb (is_mp r) || poly_in_range r) (relations d).
(* the keys Convert looks up in the membership map: every node, way and relation of the data set,
   and the outer way members (an adopted way need not be in the data set) *)
Definition element_keys (d : osm) : list (etype * Z) :=
  map (fun n => (TNode, n_id n)) (nodes d) ++ map (fun w => (TWay, w_id w)) (ways d)
  ++ map (fun r => (TRel, r_id r)) (relations d)
  ++ flat_map (fun r => map (fun m => (TWay, m_ref m)) (outer_members r)) (relations d).
Definition member_keys (d : osm) : list (etype * Z) :=
  flat_map (fun r => map (fun m => (m_type m, m_ref m)) (r_members r)) (relations d).
Definition key_clash (d : osm) : bool :=
  existsb (fun e => existsb (fun m => (fid (fst m) (snd m) =? fid (fst e) (snd e)) && negb (key_eqb m e))
                            (member_keys d)) (element_keys d).
Definition packed_ok (d : osm) : bool := poly_ids_ok d && negb (key_clash d).

(* ---- W completeness: which ways are absorbed by a relation (input only) ----
   A way of the data gets no feature of its own exactly when some relation absorbs it:
   - a route relation has it as a way member and the way has no interesting tag;
   - a multipolygon/boundary has it as an outer member and every interesting tag of the way is
     repeated on the relation (same key and value; a tag with an empty value on the way counts
     as repeated when the relation lacks the key), or as an inner member and the way has no
     interesting tag;
   - an old-style multipolygon adopts it (the polygon is then reported under the way's id). *)
Definition route_absorbs (d : osm) (r : relation) (id : Z) : bool :=
  existsb (fun m => etype_eqb (m_type m) TWay && (m_ref m =? id) &&
                    match way_lookup d (m_ref m) with
                    | Some w => negb (has_interesting (w_tags w) None)
                    | None => false
                    end) (r_members r).
Definition mp_absorbs (d : osm) (r : relation) (id : Z) : bool :=
  existsb (fun m => etype_eqb (m_type m) TWay && (m_ref m =? id) &&
                    (String.eqb (m_role m) "outer" || String.eqb (m_role m) "inner") &&
                    match member_way d m with
                    | Some w => negb (has_interesting (w_tags w)
                                        (if String.eqb (m_role m) "outer" then Some (r_tags r) else None))
                    | None => false
                    end) (r_members r)
  || memZ id (adopts d r).
Definition rel_absorbs (d : osm) (r : relation) (id : Z) : bool :=
  if is_route r then route_absorbs d r id else if is_mp r then mp_absorbs d r id else false.
Definition absorbed (d : osm) (id : Z) : bool := existsb (fun r => rel_absorbs d r id) (relations d).

(* ---- R completeness: when does a route relation yield a feature (input only) ----
   exactly when one of its member ways is in the data and has a resolvable coordinate *)
Definition route_has_line (d : osm) (r : relation) : bool :=
  existsb (fun m => etype_eqb (m_type m) TWay &&
                    match way_lookup d (m_ref m) with
                    | Some w => negb (is_nil (omap (resolve d) (w_nodes w)))
                    | None => false
                    end) (r_members r).

(* ---- one feature against the input (E, N, W, R) ---- *)
Definition find_node (d : osm) (id : Z) := find (fun n => n_id n =? id) (nodes d).
Definition find_rel (d : osm) (id : Z) := find (fun r => r_id r =? id) (relations d).

Definition feature_ok (o : opts) (d : osm) (inwaypass : bool) (f : feature) : bool :=
  match f_type f with
  | TNode =>
      match find_node d (f_ref f) with
      | Some n =>
          carries o d f (n_tags n) (n_meta n) true && negb (f_tainted f)
          && geom_eqb (f_geom f) (GPoint (n_lon n, n_lat n)) && spec_node_rule d n
      | None => false
      end
  | TWay =>
      match way_lookup d (f_ref f) with
      | Some w =>
          let unres := existsb (fun wn => negb (is_some (resolve d wn))) (w_nodes w) in
          carries o d f (w_tags w) (w_meta w) true && way_geom_ok d w inwaypass (f_geom f)
          && (if inwaypass then Bool.eqb (f_tainted f) unres
              else implb unres (f_tainted f) && adopted_taint_ok d (f_ref f) (f_tainted f))
      | None =>
          (* a way known only from the annotated nodes of an outer multipolygon member *)
          negb inwaypass && outer_member_of_mp d (f_ref f)
          && carries o d f [] meta0 false && adopted_taint_ok d (f_ref f) (f_tainted f)
          && match f_geom f with GPoly _ => true | _ => false end
      end
  | TRel =>
      match find_rel d (f_ref f) with
      | Some r =>
          carries o d f (r_tags r) (r_meta r) true &&
          (let tt := tag_find (r_tags r) "type" in
           if String.eqb tt "route" then route_has_line d r && route_geom_ok d r f
           else (String.eqb tt "multipolygon" || String.eqb tt "boundary") &&
                Bool.eqb (f_tainted f) (mp_tainted d r) &&
                match f_geom f with GPoly _ | GMultiPoly _ => true | _ => false end)
      | None => false
      end
  | TNone => false   (* a feature is a node, a way or a relation *)
  end.

(* a way-typed feature comes from the way pass, or is an adopted outer way reported by its
   old-style multipolygon: decided on the input ([adopted]) *)
Definition feature_ok_any (o : opts) (d : osm) (f : feature) : bool :=
  match f_type f with
  | TWay => feature_ok o d (negb (adopted d (f_ref f))) f
  | _ => feature_ok o d true f
  end.

(* N completeness: every node that satisfies the rule has a point *)
Definition nodes_complete (d : osm) (fs : list feature) : bool :=
  forallb (fun n => if spec_node_rule d n
                    then existsb (fun f => key_eqb (fkey f) (TNode, n_id n)) fs else true) (nodes d).

(* W completeness: every way that no relation absorbs and that has two resolvable coordinates
   has a feature *)
Definition ways_complete (d : osm) (fs : list feature) : bool :=
  forallb (fun w => if negb (absorbed d (w_id w)) && (2 <=? List.length (spec_coords d w))%nat
                    then existsb (fun f => key_eqb (fkey f) (TWay, w_id w)) fs else true) (ways d).
(* R completeness: every route relation with a member line has a feature *)
Definition routes_complete (d : osm) (fs : list feature) : bool :=
  forallb (fun r => if is_route r && route_has_line d r
                    then existsb (fun f => key_eqb (fkey f) (TRel, r_id r)) fs else true) (relations d).

Definition run_ok (o : opts) (d : osm) (fs : list feature) : bool :=
  forallb (feature_ok_any o d) fs && nodes_complete d fs && ways_complete d fs && routes_complete d fs.

(* ---- O ---- *)
Definition erase (o : opts) (f : feature) : feature :=
  {| f_id := if noID o then None else f_id f; f_type := f_type f; f_ref := f_ref f;
     f_tags := f_tags f; f_tainted := f_tainted f;
     f_rels := if noRelM o then None else f_rels f;
     f_meta := if noMeta o then None else f_meta f;
     f_geom := f_geom f |}.

(* run [fs] under options o (without IncludeInvalidPolygons) against the run [base] without
   the three subtracting options *)
Definition subtracts (o : opts) (base fs : list feature) : bool :=
  list_eqb feature_eqb (map (erase o) base) fs.

Definition geom_rings (g : geom) : list (list pt) :=
  match g with
  | GPoint p => [[p]]
  | GLine l => [l]
  | GPoly rs => rs
  | GMultiLine ls => ls
  | GMultiPoly ps => concat ps
  end.
Definition count_ring (r : list pt) (l : list (list pt)) : nat := List.length (filter (line_eqb r) l).
Definition rings_sub (a b : list (list pt)) : bool :=
  forallb (fun r => (count_ring r a <=? count_ring r b)%nat) a.

Definition same_but_geom (a b : feature) : bool :=
  feature_eqb a {| f_id := f_id b; f_type := f_type b; f_ref := f_ref b; f_tags := f_tags b;
                   f_tainted := f_tainted b; f_rels := f_rels b; f_meta := f_meta b;
                   f_geom := f_geom a |}.
Definition is_mp_geom (g : geom) : bool :=
  match g with GPoly _ | GMultiPoly _ => true | _ => false end.

(* IncludeInvalidPolygons: [incl] embeds [base] in order; a base feature and its image are
   equal, or (multipolygon features) equal up to geometry with every base ring still present;
   the features of [incl] that are not images are relation-typed polygons *)
Fixpoint extends (base incl : list feature) {struct incl} : bool :=
  match base, incl with
  | [], _ => forallb (fun f => etype_eqb (f_type f) TRel && is_mp_geom (f_geom f)) incl
  | _ :: _, [] => false
  | b :: base', i :: incl' =>
      if key_eqb (fkey b) (fkey i) then
        (feature_eqb b i ||
         (same_but_geom b i && is_mp_geom (f_geom b) && is_mp_geom (f_geom i)
          && rings_sub (geom_rings (f_geom b)) (geom_rings (f_geom i))))
        && extends base' incl'
      else etype_eqb (f_type i) TRel && is_mp_geom (f_geom i) && extends base incl'
  end.

(* the STRONGER reading of "IncludeInvalidPolygons only adds": every polygon keeps its own holes
   (some polygon of the new geometry has the same outer ring and at least the same holes).  This is
   false of the code (Properties/C17.v: C17_incl_keeps_holes_refuted); what holds is [extends]. *)
Definition geom_polys' (g : geom) : list (list (list pt)) :=
  match g with GPoly p => [p] | GMultiPoly ps => ps | _ => [] end.
Definition poly_kept (p : list (list pt)) (qs : list (list (list pt))) : bool :=
  match p with
  | [] => true
  | o :: hs => existsb (fun q => match q with
                                 | [] => false
                                 | o' :: hs' => line_eqb o o' && rings_sub hs hs'
                                 end) qs
  end.
Definition polys_kept (g g' : geom) : bool := forallb (fun p => poly_kept p (geom_polys' g')) (geom_polys' g).
