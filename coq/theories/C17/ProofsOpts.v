(* C17/ProofsOpts.v — each of NoID / NoMeta / NoRelationMembership erases exactly its field of
   every feature and changes nothing else; IncludeInvalidPolygons leaves the way and node passes
   and the skippable set alone, keeps every relation feature (up to geometry) and may add some. *)
From Coq Require Import ZArith String List Bool Lia.
From Verif Require Import C17.Model C17.Spec C17.ProofsPacked C17.Proofs.
Import ListNotations.
Open Scope Z_scope.
Open Scope list_scope.

Arguments way_line : simpl never.
Arguments has_interesting : simpl never.

Section Transform.
  Variable join : list seg -> list (list seg).
  Variable ring_of : Z -> list seg -> list pt.
  Variables (o1 o2 : opts) (T : feature -> feature).
  Hypothesis Hincl : inclInvalid o1 = inclInvalid o2.
  Hypothesis Hmk : forall d ty ref ts t m g,
    mk_feature o1 d ty ref ts t m g = T (mk_feature o2 d ty ref ts t m g).
  Hypothesis Hmkp : forall d ty ref ts t m g,
    mk_poly_feature o1 d ty ref ts t m g = T (mk_poly_feature o2 d ty ref ts t m g).

  Lemma route_result_T d r :
    route_result join o1 d r =
    (fst (route_result join o2 d r), option_map T (snd (route_result join o2 d r))).
  Proof.
    unfold route_result.
    destruct (flat_map rs_lines (map (route_step d) (r_members r))); cbn; [reflexivity|].
    rewrite Hmk. reflexivity.
  Qed.

  Lemma poly_result_T d r :
    poly_result join ring_of o1 d r =
    (fst (poly_result join ring_of o2 d r), option_map T (snd (poly_result join ring_of o2 d r))).
  Proof.
    unfold poly_result, poly_result_with. rewrite Hincl.
    repeat match goal with
           | |- context [match ?x with _ => _ end] => destruct x eqn:?
           end; cbn; rewrite ?Hmkp; reflexivity.
  Qed.

  Lemma rel_result_T d r :
    rel_result join ring_of o1 d r =
    (fst (rel_result join ring_of o2 d r), option_map T (snd (rel_result join ring_of o2 d r))).
  Proof.
    unfold rel_result.
    destruct (String.eqb _ "route"); [apply route_result_T|].
    destruct (_ || _); [apply poly_result_T|reflexivity].
  Qed.

  Lemma skippable_T d : skippable join ring_of o1 d = skippable join ring_of o2 d.
  Proof.
    unfold skippable. apply flat_map_ext. intros r. rewrite rel_result_T. reflexivity.
  Qed.

  Theorem convert_T d :
    (forall n, In n (nodes d) -> node_emitted o1 d n = node_emitted o2 d n) ->
    convert join ring_of o1 d = map T (convert join ring_of o2 d).
  Proof.
    intros Hnode. unfold convert. rewrite !map_app. f_equal; [|f_equal].
    - unfold rel_features. rewrite map_flat_map. apply flat_map_ext. intros r.
      rewrite rel_result_T. cbn. rewrite olist_map. reflexivity.
    - unfold way_features. rewrite map_flat_map, skippable_T. apply flat_map_ext. intros w.
      destruct (memZ _ _); [reflexivity|]. rewrite olist_map. f_equal.
      unfold way_feature. destruct (way_line d (w_nodes w)) as [ls t].
      destruct (List.length ls <=? 1)%nat; cbn; [reflexivity|]. rewrite Hmk. reflexivity.
    - unfold node_features. rewrite map_flat_map. apply flat_map_ext_in. intros n Hn.
      rewrite (Hnode n Hn). destruct (node_emitted o2 d n); [|reflexivity]. rewrite olist_map. f_equal.
      unfold node_feature. destruct (node_located n); cbn; [|reflexivity]. rewrite Hmk. reflexivity.
  Qed.
End Transform.

(* ---- the three subtracting options ---- *)
Definition set_noID (b : bool) (o : opts) : opts :=
  {| noID := b; noMeta := noMeta o; noRelM := noRelM o; inclInvalid := inclInvalid o |}.
Definition set_noMeta (b : bool) (o : opts) : opts :=
  {| noID := noID o; noMeta := b; noRelM := noRelM o; inclInvalid := inclInvalid o |}.
Definition set_noRelM (b : bool) (o : opts) : opts :=
  {| noID := noID o; noMeta := noMeta o; noRelM := b; inclInvalid := inclInvalid o |}.
Definition set_incl (b : bool) (o : opts) : opts :=
  {| noID := noID o; noMeta := noMeta o; noRelM := noRelM o; inclInvalid := b |}.

Definition erase_id (f : feature) : feature :=
  {| f_id := None; f_type := f_type f; f_ref := f_ref f; f_tags := f_tags f; f_tainted := f_tainted f;
     f_rels := f_rels f; f_meta := f_meta f; f_geom := f_geom f |}.
Definition erase_meta (f : feature) : feature :=
  {| f_id := f_id f; f_type := f_type f; f_ref := f_ref f; f_tags := f_tags f; f_tainted := f_tainted f;
     f_rels := f_rels f; f_meta := None; f_geom := f_geom f |}.
Definition erase_rels (f : feature) : feature :=
  {| f_id := f_id f; f_type := f_type f; f_ref := f_ref f; f_tags := f_tags f; f_tainted := f_tainted f;
     f_rels := None; f_meta := f_meta f; f_geom := f_geom f |}.

Section Options.
  Variable join : list seg -> list (list seg).
  Variable ring_of : Z -> list seg -> list pt.
  Notation convert := (convert join ring_of).

  Theorem option_NoID o d : convert (set_noID true o) d = map erase_id (convert (set_noID false o) d).
  Proof. apply convert_T; reflexivity. Qed.

  Theorem option_NoMeta o d : convert (set_noMeta true o) d = map erase_meta (convert (set_noMeta false o) d).
  Proof. apply convert_T; reflexivity. Qed.

  (* node members are recorded whether or not memberships are reported *)
  Lemma node_summaries_noRelM o d id :
    rel_summaries_x (set_noRelM true o) d (TNode, id) = rel_summaries_x (set_noRelM false o) d (TNode, id).
  Proof.
    unfold rel_summaries_x. apply flat_map_ext. intros r. apply flat_map_ext. intros m.
    unfold member_counts. cbn [noRelM set_noRelM fst snd].
    destruct (m_type m); cbn; rewrite ?andb_false_r; cbn; reflexivity.
  Qed.

  (* with the option, way and relation members are not entered into the membership map at all;
     the node pass consults that map by packed key, so the set of emitted nodes is the same only
     when no member entry packs to the key of a different node (key_clash, Spec.v) *)
  Theorem option_NoRelationMembership o d :
    key_clash d = false ->
    convert (set_noRelM true o) d = map erase_rels (convert (set_noRelM false o) d).
  Proof.
    intros Hc. apply convert_T; try reflexivity.
    intros n Hn. unfold node_emitted.
    rewrite !(rel_summaries_exact _ d _ Hc (node_key_in d n Hn)), node_summaries_noRelM. reflexivity.
  Qed.

  (* memberships, when reported, do not depend on the other options *)
  Lemma rel_summaries_opts o1 o2 d k : noRelM o1 = noRelM o2 -> rel_summaries o1 d k = rel_summaries o2 d k.
  Proof. intros H. unfold rel_summaries, member_counts. rewrite H. reflexivity. Qed.
End Options.

(* ---- IncludeInvalidPolygons ---- *)
Definition with_geom (f : feature) (g : geom) : feature :=
  {| f_id := f_id f; f_type := f_type f; f_ref := f_ref f; f_tags := f_tags f; f_tainted := f_tainted f;
     f_rels := f_rels f; f_meta := f_meta f; f_geom := g |}.

Lemma add_first_len pred ring mp mp' : add_first pred ring mp = Some mp' -> List.length mp' = List.length mp.
Proof.
  revert mp'. induction mp as [|p mp IH]; intros mp'; cbn; [discriminate|].
  destruct (pred p); [intros H; injection H as <-; reflexivity|].
  destruct (add_first pred ring mp) as [r'|]; [|discriminate].
  intros H. injection H as <-. cbn. f_equal. apply IH. reflexivity.
Qed.

Lemma add_to_mp_len mp ring incl : (List.length mp <= List.length (add_to_mp mp ring incl))%nat.
Proof.
  unfold add_to_mp.
  destruct (add_first (fun p => polygon_contains (fst p) ring) ring mp) as [mp'|] eqn:H1.
  { apply add_first_len in H1. lia. }
  destruct (negb incl); [lia|].
  destruct mp as [|p0 r0]; [cbn; lia|].
  destruct (negb (is_nil (fst p0)) && negb (ring_closed (fst p0))); [cbn; lia|].
  destruct (add_first (fun p => is_nil (fst p)) ring (p0 :: r0)) as [mp'|] eqn:H2.
  { apply add_first_len in H2. lia. }
  rewrite app_length. lia.
Qed.

Section Incl.
  Variable join : list seg -> list (list seg).
  Variable ring_of : Z -> list seg -> list pt.
  Notation poly_result := (poly_result join ring_of).
  Notation rel_result := (rel_result join ring_of).
  Notation skippable := (skippable join ring_of).

  Lemma add_inners_len incl mp0 inner :
    (List.length mp0 <= List.length (add_inners join ring_of incl mp0 inner))%nat.
  Proof.
    unfold add_inners. revert mp0. induction (join inner) as [|s l IH]; intros mp0; cbn [fold_left]; [apply Nat.le_refl|].
    eapply Nat.le_trans; [apply (add_to_mp_len mp0 (ring_of (-1) s) incl)|apply IH].
  Qed.

  Lemma outer_polys_len outer :
    (List.length (outer_polys join ring_of false outer) <= List.length (outer_polys join ring_of true outer))%nat.
  Proof.
    unfold outer_polys. induction (join outer) as [|s l IH]; cbn [flat_map]; [apply Nat.le_refl|].
    rewrite !app_length. cbn [negb andb] in *.
    destruct (ring_invalid _); cbn [List.length Nat.add]; [apply le_S|apply le_n_S]; exact IH.
  Qed.

  Lemma mp_geom_some mp : mp <> [] -> exists g, mp_geom mp = Some g /\ is_mp_geom g = true.
  Proof.
    destruct mp as [|p [|q mp]]; [congruence| |]; intros _; eexists; split; reflexivity.
  Qed.

  Lemma mp_geom_is_mp mp g : mp_geom mp = Some g -> is_mp_geom g = true.
  Proof. destruct mp as [|p [|q mp]]; cbn; [discriminate| |]; intros H; injection H as <-; reflexivity. Qed.

  Lemma poly_result_incl o d r :
    fst (poly_result (set_incl true o) d r) = fst (poly_result (set_incl false o) d r) /\
    forall f, snd (poly_result (set_incl false o) d r) = Some f ->
      exists g, snd (poly_result (set_incl true o) d r) = Some (with_geom f g) /\
                (g = f_geom f \/ (is_mp_geom g = true /\ is_mp_geom (f_geom f) = true)).
  Proof.
    unfold Model.poly_result, Model.poly_result_with. cbn [inclInvalid set_incl negb].
    set (steps := map (poly_step d (r_tags r)) (r_members r)).
    set (skips := flat_map ps_skips steps).
    rewrite andb_false_r, andb_true_r.
    destruct (flat_map ps_outer steps) as [|[s w] rest] eqn:Houter.
    - (* no outer: nothing without the option *)
      cbn [is_nil]. split; [|intros f H; discriminate].
      cbn [map]. rewrite andb_false_r. destruct (mp_geom _); reflexivity.
    - cbn [is_nil].
      assert (Hgen :
        fst (let mp0 := outer_polys join ring_of true (map fst ((s, w) :: rest)) in
             if is_nil mp0 && false then (skips, None)
             else match mp_geom (add_inners join ring_of true mp0 (flat_map ps_inner steps)) with
                  | Some g => (skips, Some (mk_poly_feature (set_incl true o) d TRel (r_id r) (r_tags r) (existsb ps_taint steps) (r_meta r) g))
                  | None => (skips, None)
                  end) =
        fst (let mp0 := outer_polys join ring_of false (map fst ((s, w) :: rest)) in
             if is_nil mp0 && true then (skips, None)
             else match mp_geom (add_inners join ring_of false mp0 (flat_map ps_inner steps)) with
                  | Some g => (skips, Some (mk_poly_feature (set_incl false o) d TRel (r_id r) (r_tags r) (existsb ps_taint steps) (r_meta r) g))
                  | None => (skips, None)
                  end) /\
        forall f,
        snd (let mp0 := outer_polys join ring_of false (map fst ((s, w) :: rest)) in
             if is_nil mp0 && true then (skips, None)
             else match mp_geom (add_inners join ring_of false mp0 (flat_map ps_inner steps)) with
                  | Some g => (skips, Some (mk_poly_feature (set_incl false o) d TRel (r_id r) (r_tags r) (existsb ps_taint steps) (r_meta r) g))
                  | None => (skips, None)
                  end) = Some f ->
        exists g,
        snd (let mp0 := outer_polys join ring_of true (map fst ((s, w) :: rest)) in
             if is_nil mp0 && false then (skips, None)
             else match mp_geom (add_inners join ring_of true mp0 (flat_map ps_inner steps)) with
                  | Some g => (skips, Some (mk_poly_feature (set_incl true o) d TRel (r_id r) (r_tags r) (existsb ps_taint steps) (r_meta r) g))
                  | None => (skips, None)
                  end) = Some (with_geom f g) /\
        (g = f_geom f \/ (is_mp_geom g = true /\ is_mp_geom (f_geom f) = true))).
      { cbn zeta. rewrite andb_false_r, andb_true_r.
        split.
        - destruct (mp_geom (add_inners join ring_of true _ _)); destruct (is_nil _); try reflexivity;
            destruct (mp_geom (add_inners join ring_of false _ _)); reflexivity.
        - intros f.
          destruct (outer_polys join ring_of false (map fst ((s, w) :: rest))) as [|p0 mp0] eqn:Hmp0;
            [cbn; discriminate|]. cbn [is_nil].
          destruct (mp_geom (add_inners join ring_of false (p0 :: mp0) _)) as [g0|] eqn:Hg0; [|cbn; discriminate].
          cbn [snd]. intros H. injection H as <-.
          pose proof (outer_polys_len (map fst ((s, w) :: rest))) as Hlen. rewrite Hmp0 in Hlen. cbn in Hlen.
          pose proof (add_inners_len true (outer_polys join ring_of true (map fst ((s, w) :: rest))) (flat_map ps_inner steps)) as Hlen2.
          destruct (mp_geom_some (add_inners join ring_of true (outer_polys join ring_of true (map fst ((s, w) :: rest))) (flat_map ps_inner steps))) as [g [Hg Hmp]].
          { intros Hnil. rewrite Hnil in Hlen2. cbn in Hlen2. lia. }
          rewrite Hg. exists g. split; [reflexivity|]. right. split; [exact Hmp|].
          cbn [f_geom mk_poly_feature]. exact (mp_geom_is_mp _ _ Hg0). }
      destruct rest as [|p rest].
      + destruct (fold_right Z.add 0 (map ps_cnt steps) =? 1).
        * (* old-style branch: independent of the option *)
          split; [reflexivity|]. intros f Hf. exists (f_geom f). split; [|left; reflexivity].
          destruct (ring_invalid _); [discriminate|].
          destruct (has_interesting _ _); cbn [snd] in *; injection Hf as <-; reflexivity.
        * exact Hgen.
      + exact Hgen.
  Qed.

  Theorem rel_result_incl o d r :
    fst (rel_result (set_incl true o) d r) = fst (rel_result (set_incl false o) d r) /\
    (is_mp r = false -> rel_result (set_incl true o) d r = rel_result (set_incl false o) d r) /\
    forall f, snd (rel_result (set_incl false o) d r) = Some f ->
      exists g, snd (rel_result (set_incl true o) d r) = Some (with_geom f g) /\
                (g = f_geom f \/ (is_mp_geom g = true /\ is_mp_geom (f_geom f) = true)).
  Proof.
    unfold Model.rel_result, is_mp.
    destruct (String.eqb (tag_find (r_tags r) "type") "route").
    - split; [reflexivity|]. split; [reflexivity|].
      intros f Hf. exists (f_geom f). split; [|left; reflexivity].
      change (route_result join (set_incl true o) d r) with (route_result join (set_incl false o) d r).
      rewrite Hf. destruct f; reflexivity.
    - destruct (_ || _); cbn [negb andb].
      + destruct (poly_result_incl o d r) as [H1 H2]. split; [exact H1|]. split; [discriminate|exact H2].
      + split; [reflexivity|]. split; [reflexivity|]. intros f Hf. discriminate.
  Qed.

  Theorem skippable_incl o d : skippable (set_incl true o) d = skippable (set_incl false o) d.
  Proof. unfold Model.skippable. apply flat_map_ext. intros r. apply rel_result_incl. Qed.

  Theorem way_features_incl o d :
    way_features join ring_of (set_incl true o) d = way_features join ring_of (set_incl false o) d.
  Proof. unfold Model.way_features. rewrite skippable_incl. reflexivity. Qed.

  Theorem node_features_incl o d :
    node_features (set_incl true o) d = node_features (set_incl false o) d.
  Proof. reflexivity. Qed.
End Incl.
