(* C17/ProofsOpts.v — each of NoID / NoMeta / NoRelationMembership erases exactly its field of
   every feature and changes nothing else; IncludeInvalidPolygons leaves the way and node passes
   and the skippable set alone, keeps every relation feature (up to geometry) and may add some. *)
From Coq Require Import ZArith String List Bool Lia.
From Verif Require Import C17.Model C17.Spec C17.Proofs.
Import ListNotations.
Open Scope Z_scope.
Open Scope list_scope.

Arguments way_line : simpl never.
Arguments has_interesting : simpl never.

Section Transform.
  Variable join : list seg -> list (list seg).
  Variable ring_of : Z -> list seg -> list pt.
  Variables (o1 o2 : opts) (T : feature -> feature).
  Hypothesis Hincl : inclInvalid o1 = inclInvalid o2.
  Hypothesis Hmk : forall d ty ref ts t m g,
    mk_feature o1 d ty ref ts t m g = T (mk_feature o2 d ty ref ts t m g).
  Hypothesis Hnode : forall d n, node_emitted o1 d n = node_emitted o2 d n.

  Lemma route_result_T d r :
    route_result join o1 d r =
    (fst (route_result join o2 d r), option_map T (snd (route_result join o2 d r))).
  Proof.
    unfold route_result.
    destruct (flat_map rs_lines (map (route_step d) (r_members r))); cbn; [reflexivity|].
    rewrite Hmk. reflexivity.
  Qed.

  Lemma poly_result_T d r :
    poly_result join ring_of o1 d r =
    (fst (poly_result join ring_of o2 d r), option_map T (snd (poly_result join ring_of o2 d r))).
  Proof.
    unfold poly_result. rewrite Hincl.
    repeat match goal with
           | |- context [match ?x with _ => _ end] => destruct x eqn:?
           end; cbn; rewrite ?Hmk; reflexivity.
  Qed.

  Lemma rel_result_T d r :
    rel_result join ring_of o1 d r =
    (fst (rel_result join ring_of o2 d r), option_map T (snd (rel_result join ring_of o2 d r))).
  Proof.
    unfold rel_result.
    destruct (String.eqb _ "route"); [apply route_result_T|].
    destruct (_ || _); [apply poly_result_T|reflexivity].
  Qed.

  Lemma skippable_T d : skippable join ring_of o1 d = skippable join ring_of o2 d.
  Proof.
    unfold skippable. apply flat_map_ext. intros r. rewrite rel_result_T. reflexivity.
  Qed.

  Theorem convert_T d : convert join ring_of o1 d = map T (convert join ring_of o2 d).
  Proof.
    unfold convert. rewrite !map_app. f_equal; [|f_equal].
    - unfold rel_features. rewrite map_flat_map. apply flat_map_ext. intros r.
      rewrite rel_result_T. cbn. rewrite olist_map. reflexivity.
    - unfold way_features. rewrite map_flat_map, skippable_T. apply flat_map_ext. intros w.
      destruct (memZ _ _); [reflexivity|]. rewrite olist_map. f_equal.
      unfold way_feature. destruct (way_line d (w_nodes w)) as [ls t].
      destruct (List.length ls <=? 1)%nat; cbn; [reflexivity|]. rewrite Hmk. reflexivity.
    - unfold node_features. rewrite map_flat_map. apply flat_map_ext. intros n.
      rewrite Hnode. destruct (node_emitted o2 d n); [|reflexivity]. rewrite olist_map. f_equal.
      unfold node_feature. destruct (node_located n); cbn; [|reflexivity]. rewrite Hmk. reflexivity.
  Qed.
End Transform.

(* ---- the three subtracting options ---- *)
Definition set_noID (b : bool) (o : opts) : opts :=
  {| noID := b; noMeta := noMeta o; noRelM := noRelM o; inclInvalid := inclInvalid o |}.
Definition set_noMeta (b : bool) (o : opts) : opts :=
  {| noID := noID o; noMeta := b; noRelM := noRelM o; inclInvalid := inclInvalid o |}.
Definition set_noRelM (b : bool) (o : opts) : opts :=
  {| noID := noID o; noMeta := noMeta o; noRelM := b; inclInvalid := inclInvalid o |}.
Definition set_incl (b : bool) (o : opts) : opts :=
  {| noID := noID o; noMeta := noMeta o; noRelM := noRelM o; inclInvalid := b |}.

Definition erase_id (f : feature) : feature :=
  {| f_id := None; f_type := f_type f; f_ref := f_ref f; f_tags := f_tags f; f_tainted := f_tainted f;
     f_rels := f_rels f; f_meta := f_meta f; f_geom := f_geom f |}.
Definition erase_meta (f : feature) : feature :=
  {| f_id := f_id f; f_type := f_type f; f_ref := f_ref f; f_tags := f_tags f; f_tainted := f_tainted f;
     f_rels := f_rels f; f_meta := None; f_geom := f_geom f |}.
Definition erase_rels (f : feature) : feature :=
  {| f_id := f_id f; f_type := f_type f; f_ref := f_ref f; f_tags := f_tags f; f_tainted := f_tainted f;
     f_rels := None; f_meta := f_meta f; f_geom := f_geom f |}.

Section Options.
  Variable join : list seg -> list (list seg).
  Variable ring_of : Z -> list seg -> list pt.
  Notation convert := (convert join ring_of).

  Theorem option_NoID o d : convert (set_noID true o) d = map erase_id (convert (set_noID false o) d).
  Proof. apply convert_T; reflexivity. Qed.

  Theorem option_NoMeta o d : convert (set_noMeta true o) d = map erase_meta (convert (set_noMeta false o) d).
  Proof. apply convert_T; reflexivity. Qed.

  (* node members are recorded whether or not memberships are reported *)
  Lemma node_summaries_noRelM o d id :
    rel_summaries (set_noRelM true o) d (TNode, id) = rel_summaries (set_noRelM false o) d (TNode, id).
  Proof.
    unfold rel_summaries. apply flat_map_ext. intros r. apply flat_map_ext. intros m.
    unfold member_counts. cbn [noRelM set_noRelM fst snd].
    destruct (m_type m); cbn; rewrite ?andb_false_r; cbn; reflexivity.
  Qed.

  Theorem option_NoRelationMembership o d :
    convert (set_noRelM true o) d = map erase_rels (convert (set_noRelM false o) d).
  Proof.
    apply convert_T; try reflexivity.
    intros d' n. unfold node_emitted. rewrite node_summaries_noRelM. reflexivity.
  Qed.

  (* memberships, when reported, do not depend on the other options *)
  Lemma rel_summaries_opts o1 o2 d k : noRelM o1 = noRelM o2 -> rel_summaries o1 d k = rel_summaries o2 d k.
  Proof. intros H. unfold rel_summaries, member_counts. rewrite H. reflexivity. Qed.
End Options.
