(* C17/Mputil.v — executable instance of the two internal/mputil functions that C17/Model.v
   takes as Section variables: Join (join.go) and MultiSegment.Ring (mputil.go 67-101).
   Their geometric correctness is property C16; here they only have to compute what the
   implementation computes so that relation geometries can be compared in the correspondence
   run (and C17/ProofsJoin.v proves the edge-conservation fact route_preserves_segments needs).

   Join, loop by loop:
     compact            drops segments with <= 1 point
     outer loop         takes the LAST remaining segment as the start of a new group
     inner loop         while segments remain and the group is not closed: scan the segments
                        in order, for each try the four fits in the order
                          last = seg.first | last = seg.last (reverse) |
                          first = seg.last | first = seg.first (reverse)
                        take the first hit, trim the shared endpoint, remove the segment
                        (both removal-by-shifting variants keep the order of the others)
   Lines never become empty: compact leaves >= 2 points, trimming removes one. *)
From Coq Require Import ZArith String List Bool.
From Verif Require Import C17.Model.
Import ListNotations.
Open Scope Z_scope.
Open Scope list_scope.

Definition compact (l : list seg) : list seg :=
  filter (fun s => (1 <? List.length (sg_line s))%nat) l.

Fixpoint last_opt {A} (l : list A) : option A :=
  match l with
  | [] => None
  | [a] => Some a
  | _ :: r => last_opt r
  end.

Definition seg_first (s : seg) : option pt := hd_error (sg_line s).
Definition seg_last (s : seg) : option pt := last_opt (sg_line s).
Definition ms_first (ms : list seg) : option pt :=
  match ms with [] => None | s :: _ => seg_first s end.
Definition ms_last (ms : list seg) : option pt :=
  match last_opt ms with Some s => seg_last s | None => None end.
(* a missing endpoint (empty line: a panic in Go, unreachable after compact) never matches *)
Definition opt_pt_eqb (a b : option pt) : bool :=
  match a, b with Some x, Some y => pt_eqb x y | _, _ => false end.

Definition trim_first (s : seg) : seg :=
  {| sg_orient := sg_orient s; sg_rev := sg_rev s; sg_line := tl (sg_line s) |}.
Definition trim_last (s : seg) : seg :=
  {| sg_orient := sg_orient s; sg_rev := sg_rev s; sg_line := removelast (sg_line s) |}.

Inductive jmatch := JEnd (s : seg) | JStart (s : seg).

Definition try_match (first last : option pt) (s : seg) : option jmatch :=
  if opt_pt_eqb last (seg_first s) then Some (JEnd (trim_first s))
  else if opt_pt_eqb last (seg_last s) then Some (JEnd (trim_first (seg_reverse s)))
  else if opt_pt_eqb first (seg_last s) then Some (JStart (trim_last s))
  else if opt_pt_eqb first (seg_first s) then Some (JStart (trim_last (seg_reverse s)))
  else None.

(* first segment (in order) that fits, and the list without it *)
Fixpoint find_match (first last : option pt) (l : list seg) : option (jmatch * list seg) :=
  match l with
  | [] => None
  | s :: r =>
      match try_match first last s with
      | Some j => Some (j, r)
      | None => match find_match first last r with
                | Some (j, r') => Some (j, s :: r')
                | None => None
                end
      end
  end.

(* inner loop; fuel = number of remaining segments (one is consumed per iteration).
   NOTE on fuel: [grow] and [join_loop] return their current state when the fuel is used up
   instead of an explicit out-of-fuel result.  This cannot hide anything: every iteration removes
   a segment, both are called with fuel = number of segments, and C17/ProofsGeoEq.v
   (C17_mputil_join_is_geo_join) proves the result equal to Geo.Model.join, whose out-of-fuel
   outcome is explicit and proved unreachable (Geo.JoinProofs.join_terminates). *)
Fixpoint grow (fuel : nat) (cur segs : list seg) : list seg * list seg :=
  match fuel with
  | O => (cur, segs)
  | S f =>
      if is_nil segs || opt_pt_eqb (ms_first cur) (ms_last cur) then (cur, segs)
      else match find_match (ms_first cur) (ms_last cur) segs with
           | None => (cur, segs)
           | Some (JEnd s, rest) => grow f (cur ++ [s]) rest
           | Some (JStart s, rest) => grow f (s :: cur) rest
           end
  end.

Fixpoint split_last {A} (l : list A) : option (list A * A) :=
  match l with
  | [] => None
  | a :: r => match split_last r with
              | None => Some ([], a)
              | Some (i, z) => Some (a :: i, z)
              end
  end.

Fixpoint join_loop (fuel : nat) (segs : list seg) (acc : list (list seg)) : list (list seg) :=
  match fuel with
  | O => acc
  | S f =>
      match split_last segs with
      | None => acc
      | Some (init, z) =>
          let '(cur, rest) := grow (List.length init) [z] init in
          join_loop f rest (acc ++ [cur])
      end
  end.

Definition join (segs : list seg) : list (list seg) :=
  let c := compact segs in join_loop (List.length c) c [].

(* MultiSegment.Ring(o) *)
Definition ring_of (o : Z) (ms : list seg) : list pt :=
  let ring := ms_line ms in
  let have := existsb (fun s => negb (sg_orient s =? 0)) ms in
  let reversed := existsb (fun s => negb (sg_orient s =? 0) &&
                                    Bool.eqb (sg_orient s =? o) (sg_rev s)) ms in
  if (have && reversed) || (negb have && negb (ring_orientation ring =? o)) then rev ring else ring.

(* the instantiated model used by C17/Check.v *)
Definition convert_exec : opts -> osm -> list feature := convert join ring_of.
