(* C17/ProofsCarry.v — every feature carries its element: type, id, Feature.ID, tag map, each of
   the five meta fields (timestamp, version, changeset, user, uid — present exactly when
   non-zero), the relation-membership summaries (relation id, role, relation tag map; one per
   member entry naming the element), for nodes, ways and relations; and the rules of the
   [tainted] flag for each feature class. *)
From Coq Require Import ZArith String List Bool Lia.
From Verif Require Import C17.Model C17.Spec C17.ProofsPacked C17.Proofs C17.ProofsGeom C17.ProofsRoute.
Import ListNotations.
Open Scope Z_scope.
Open Scope list_scope.

Arguments way_line : simpl never.
Arguments has_interesting : simpl never.

Ltac break_match :=
  repeat match goal with
         | |- context [match ?x with _ => _ end] => destruct x eqn:?
         end.

(* ---------- meta, field by field ---------- *)
Lemma meta_obs_fields m :
  mo_ts (meta_obs m) = mt_ts m /\
  (mo_version (meta_obs m) = if mt_version m =? 0 then None else Some (mt_version m)) /\
  (mo_changeset (meta_obs m) = if mt_changeset m =? 0 then None else Some (mt_changeset m)) /\
  (mo_user (meta_obs m) = if String.eqb (mt_user m) "" then None else Some (mt_user m)) /\
  (mo_uid (meta_obs m) = if mt_uid m =? 0 then None else Some (mt_uid m)).
Proof. repeat split. Qed.

(* ---------- memberships ---------- *)
(* the summaries reported for an element are one per member entry naming it, in relation order
   then member order, with that entry's role and the relation's id and tag map; way entries
   count only for ways that are in the data *)
Lemma rel_summaries_x_spec o d key :
  noRelM o = false ->
  (fst key = TWay -> is_some (way_lookup d (snd key)) = true) ->
  rel_summaries_x o d key = spec_rels d key.
Proof.
  intros Ho Hw. unfold rel_summaries_x, spec_rels. apply flat_map_ext. intros r. apply flat_map_ext. intros m.
  unfold member_counts, key_eqb. rewrite Ho. cbn [andb negb fst snd].
  destruct (etype_eqb (m_type m) (fst key)) eqn:Ht; [|destruct (etype_eqb (m_type m) TWay); rewrite ?andb_false_r; reflexivity].
  apply etype_eqb_eq in Ht. destruct (m_ref m =? snd key) eqn:Hr; [|rewrite !andb_false_r; reflexivity].
  apply Z.eqb_eq in Hr. destruct (etype_eqb (m_type m) TWay) eqn:Hway; [|reflexivity].
  apply etype_eqb_eq in Hway. rewrite Hr, Hw by congruence. reflexivity.
Qed.

(* the model's lookup goes through the packed key: it is the exact one for every element of a data
   set in which no member entry packs to the key of a different element *)
Lemma rel_summaries_spec o d key :
  key_clash d = false -> In key (element_keys d) ->
  noRelM o = false ->
  (fst key = TWay -> is_some (way_lookup d (snd key)) = true) ->
  rel_summaries o d key = spec_rels d key.
Proof.
  intros Hc Hk Ho Hw. rewrite (rel_summaries_exact o d key Hc Hk). exact (rel_summaries_x_spec o d key Ho Hw).
Qed.

Lemma rel_summaries_x_absent_way o d id :
  way_lookup d id = None -> rel_summaries_x o d (TWay, id) = [].
Proof.
  intros Hn. unfold rel_summaries_x.
  assert (H : forall (l : list relation), flat_map (fun r => flat_map (fun m =>
      if member_counts o d m && etype_eqb (m_type m) (fst (TWay, id)) && (m_ref m =? snd (TWay, id))
      then [{| s_id := r_id r; s_role := m_role m; s_tags := tags_map (r_tags r) |}] else []) (r_members r)) l = []).
  { induction l as [|r l IH]; [reflexivity|]. cbn [flat_map]. rewrite IH, app_nil_r.
    induction (r_members r) as [|m ms IHm]; [reflexivity|]. cbn [flat_map]. rewrite IHm, app_nil_r.
    unfold member_counts. cbn [fst snd].
    destruct (etype_eqb (m_type m) TWay) eqn:Ht; [|rewrite andb_false_r; reflexivity].
    destruct (m_ref m =? id) eqn:Hr; [|rewrite andb_false_r; reflexivity].
    apply Z.eqb_eq in Hr. rewrite Hr, Hn. cbn. rewrite andb_false_r. reflexivity. }
  apply H.
Qed.

Lemma rel_summaries_absent_way o d id :
  key_clash d = false -> In (TWay, id) (element_keys d) ->
  way_lookup d id = None -> rel_summaries o d (TWay, id) = [].
Proof.
  intros Hc Hk Hn. rewrite (rel_summaries_exact o d _ Hc Hk). exact (rel_summaries_x_absent_way o d id Hn).
Qed.

(* ---------- carried element ---------- *)
(* a way-typed feature is about a way of the data, or about a way that exists only as the
   annotated nodes of a multipolygon member (no tags, no meta) *)
Definition way_source (d : osm) (w : way) : Prop :=
  In w (ways d) \/
  exists r m, In r (relations d) /\ In m (r_members r) /\ way_lookup d (m_ref m) = None /\
              w = pseudo_way (m_ref m) (m_nodes m).

(* the memberships are stated with the EXACT lookup (rel_summaries_x = spec_rels, above) *)
Definition carries_element (o : opts) (d : osm) (f : feature) : Prop :=
  exists ts m,
    f_id f = (if noID o then None else Some (fkey f)) /\
    f_tags f = tags_map ts /\
    f_meta f = (if noMeta o then None else Some (meta_obs m)) /\
    f_rels f = (if noRelM o then None else Some (rel_summaries_x o d (fkey f))) /\
    match f_type f with
    | TNode => exists n, In n (nodes d) /\ n_id n = f_ref f /\ n_tags n = ts /\ n_meta n = m
    | TWay => exists w, way_source d w /\ w_id w = f_ref f /\ w_tags w = ts /\ w_meta w = m
    | TRel => exists r, In r (relations d) /\ r_id r = f_ref f /\ r_tags r = ts /\ r_meta r = m
    | TNone => False
    end.

Lemma mk_carries o d ty ref ts t m g :
  key_clash d = false -> In (ty, ref) (element_keys d) ->
  match ty with
  | TNode => exists n, In n (nodes d) /\ n_id n = ref /\ n_tags n = ts /\ n_meta n = m
  | TWay => exists w, way_source d w /\ w_id w = ref /\ w_tags w = ts /\ w_meta w = m
  | TRel => exists r, In r (relations d) /\ r_id r = ref /\ r_tags r = ts /\ r_meta r = m
  | TNone => False
  end -> carries_element o d (mk_feature o d ty ref ts t m g).
Proof.
  intros Hc Hk H. exists ts, m. split; [reflexivity|]. split; [reflexivity|]. split; [reflexivity|].
  split; [|exact H]. cbn [f_rels mk_feature fkey f_type f_ref].
  rewrite (rel_summaries_exact o d (ty, ref) Hc Hk). reflexivity.
Qed.

Lemma poly_step_outer_src d rt m s w :
  In (s, w) (ps_outer (poly_step d rt m)) ->
  way_lookup d (m_ref m) = Some w \/
  (way_lookup d (m_ref m) = None /\ w = pseudo_way (m_ref m) (m_nodes m)).
Proof.
  unfold poly_step. destruct (m_type m); cbn; try tauto.
  destruct (negb _); cbn; try tauto.
  destruct (way_lookup d (m_ref m)) as [w0|] eqn:Hl.
  - break_match; cbn; try tauto; intros [H|[]]; injection H as _ <-; left; reflexivity.
  - destruct (m_nodes m) as [|n0 ns] eqn:Hn; cbn; try tauto.
    break_match; cbn; try tauto; intros [H|[]]; injection H as _ <-; right; split; reflexivity.
Qed.

Lemma outer_src d rt ms s w :
  In (s, w) (flat_map ps_outer (map (poly_step d rt) ms)) ->
  exists m, In m ms /\ (way_lookup d (m_ref m) = Some w \/
                        (way_lookup d (m_ref m) = None /\ w = pseudo_way (m_ref m) (m_nodes m))).
Proof.
  induction ms as [|m ms IH]; cbn; [tauto|]. rewrite in_app_iff. intros [H|H].
  - exists m. split; [left; reflexivity|exact (poly_step_outer_src _ _ _ _ _ H)].
  - destruct (IH H) as [m' [Hin Hs]]. exists m'. split; [right; exact Hin|exact Hs].
Qed.

(* ---------- tainted: multipolygon / boundary relations ---------- *)
Lemma poly_step_taint d rt m : ps_taint (poly_step d rt m) = mp_member_taints d m.
Proof.
  unfold poly_step, mp_member_taints. destruct (m_type m); try reflexivity.
  destruct (String.eqb (m_role m) "outer" || String.eqb (m_role m) "inner"); cbn [negb]; [|reflexivity].
  destruct (way_lookup d (m_ref m)) as [w0|].
  - unfold way_line. break_match; reflexivity.
  - destruct (m_nodes m) as [|n0 ns]; [reflexivity|]. unfold way_line. cbn [w_nodes pseudo_way].
    break_match; reflexivity.
Qed.

Lemma steps_taint d rt ms : existsb ps_taint (map (poly_step d rt) ms) = existsb (mp_member_taints d) ms.
Proof. induction ms as [|m ms IH]; [reflexivity|]. cbn [map existsb]. rewrite IH, poly_step_taint. reflexivity. Qed.

Section Carry.
  Variable join : list seg -> list (list seg).
  Variable ring_of : Z -> list seg -> list pt.
  Notation convert := (convert join ring_of).
  Notation rel_result := (rel_result join ring_of).
  Notation poly_result := (poly_result join ring_of).

  Lemma poly_result_taint o d r f :
    snd (poly_result o d r) = Some f -> f_tainted f = mp_tainted d r.
  Proof.
    unfold Model.poly_result, Model.poly_result_with.
    set (steps := map (poly_step d (r_tags r)) (r_members r)).
    assert (Ht : existsb ps_taint steps = mp_tainted d r) by apply steps_taint.
    destruct (is_nil (flat_map ps_outer steps) && negb (inclInvalid o)); cbn [snd]; [discriminate|].
    destruct (flat_map ps_outer steps) as [|[s w] rest] eqn:Houter.
    - destruct (is_nil _ && negb _); cbn [snd]; [discriminate|].
      destruct (mp_geom _); cbn [snd]; [|discriminate]. intros H. injection H as <-. exact Ht.
    - destruct rest as [|p rest].
      + destruct (fold_right Z.add 0 (map ps_cnt steps) =? 1).
        * destruct (ring_invalid _); cbn [snd]; [discriminate|].
          destruct (has_interesting (r_tags r) (Some old_style_ignore)); cbn [snd];
            intros H; injection H as <-; exact Ht.
        * destruct (is_nil _ && negb _); cbn [snd]; [discriminate|].
          destruct (mp_geom _); cbn [snd]; [|discriminate]. intros H. injection H as <-. exact Ht.
      + destruct (is_nil _ && negb _); cbn [snd]; [discriminate|].
        destruct (mp_geom _); cbn [snd]; [|discriminate]. intros H. injection H as <-. exact Ht.
  Qed.

  Lemma poly_result_carries o d r f :
    key_clash d = false -> poly_in_range r = true ->
    In r (relations d) -> snd (poly_result o d r) = Some f ->
    carries_element o d f.
  Proof.
    intros Hc Hin Hr. rewrite (poly_result_exact join ring_of o d r Hin). unfold Model.poly_result_with.
    set (steps := map (poly_step d (r_tags r)) (r_members r)).
    assert (Hrel : forall g, carries_element o d (mk_feature o d TRel (r_id r) (r_tags r) (existsb ps_taint steps) (r_meta r) g)).
    { intros g. apply mk_carries; [exact Hc|exact (rel_key_in d r Hr)|]. exists r. auto. }
    destruct (is_nil (flat_map ps_outer steps) && negb (inclInvalid o)); cbn [snd]; [discriminate|].
    destruct (flat_map ps_outer steps) as [|[s w] rest] eqn:Houter.
    - destruct (is_nil _ && negb _); cbn [snd]; [discriminate|].
      destruct (mp_geom _); cbn [snd]; [|discriminate]. intros H. injection H as <-. apply Hrel.
    - assert (Hw : way_source d w).
      { destruct (outer_src d (r_tags r) (r_members r) s w) as [m [Hm [Hs|[Hn He]]]].
        - fold steps. rewrite Houter. left. reflexivity.
        - left. exact (proj1 (way_lookup_some _ _ _ Hs)).
        - right. exists r, m. auto. }
      assert (Hk : In (TWay, w_id w) (element_keys d)).
      { destruct (outer_in_members d (r_tags r) (r_members r) s w) as [m [Hm [Ho Hid]]].
        - fold steps. rewrite Houter. left. reflexivity.
        - rewrite Hid. exact (outer_key_in d r m Hr Hm Ho). }
      destruct rest as [|p rest].
      + destruct (fold_right Z.add 0 (map ps_cnt steps) =? 1).
        * destruct (ring_invalid _); cbn [snd]; [discriminate|].
          destruct (has_interesting (r_tags r) (Some old_style_ignore)); cbn [snd];
            intros H; injection H as <-; [apply Hrel|].
          apply mk_carries; [exact Hc|exact Hk|]. exists w. auto.
        * destruct (is_nil _ && negb _); cbn [snd]; [discriminate|].
          destruct (mp_geom _); cbn [snd]; [|discriminate]. intros H. injection H as <-. apply Hrel.
      + destruct (is_nil _ && negb _); cbn [snd]; [discriminate|].
        destruct (mp_geom _); cbn [snd]; [|discriminate]. intros H. injection H as <-. apply Hrel.
  Qed.

  (* E: every feature of the output carries its element *)
  Theorem feature_carries o d f : packed_ok d = true -> In f (convert o d) -> carries_element o d f.
  Proof.
    intros Hok. destruct (packed_ok_split d Hok) as [Hpoly Hc]. unfold Model.convert. rewrite !in_app_iff. intros [H|[H|H]].
    - destruct (rel_features_in _ _ _ _ _ H) as [r [Hr Hf]]. revert Hf. unfold Model.rel_result.
      destruct (String.eqb (tag_find (r_tags r) "type") "route") eqn:Hty.
      + unfold route_result.
        destruct (flat_map rs_lines (map (route_step d) (r_members r))); cbn [snd]; [discriminate|].
        intros Hf. injection Hf as <-. apply mk_carries; [exact Hc|exact (rel_key_in d r Hr)|]. exists r. auto.
      + destruct (_ || _) eqn:Hm; [|discriminate]. intros Hf.
        assert (Hmp : is_mp r = true) by (unfold is_mp; rewrite Hty, Hm; reflexivity).
        exact (poly_result_carries o d r f Hc (poly_ids_ok_rel d r Hpoly Hr Hmp) Hr Hf).
    - destruct (way_features_in _ _ _ _ _ H) as [w [Hw [_ Hf]]]. unfold way_feature in Hf.
      destruct (way_line d (w_nodes w)) as [ls t]. destruct (List.length ls <=? 1)%nat; [discriminate|].
      injection Hf as <-. apply mk_carries; [exact Hc|exact (way_key_in d w Hw)|]. exists w. split; [left; exact Hw|auto].
    - destruct (node_features_in _ _ _ H) as [n [Hn [_ Hf]]]. unfold node_feature in Hf.
      destruct (node_located n); [|discriminate]. injection Hf as <-.
      apply mk_carries; [exact Hc|exact (node_key_in d n Hn)|]. exists n. auto.
  Qed.

  (* the tainted flag, per feature class *)
  Theorem tainted_rules o d f :
    In f (convert o d) ->
    (In f (node_features o d) -> f_tainted f = false) /\
    (In f (way_features join ring_of o d) ->
       exists w, In w (ways d) /\ w_id w = f_ref f /\ f_tainted f = unresolved d w) /\
    (forall r, In r (relations d) -> snd (rel_result o d r) = Some f ->
       f_tainted f = if String.eqb (tag_find (r_tags r) "type") "route" then route_tainted d r
                     else mp_tainted d r).
  Proof.
    intros _. split; [|split].
    - intros H. destruct (node_features_in _ _ _ H) as [n [_ [_ Hf]]]. unfold node_feature in Hf.
      destruct (node_located n); [|discriminate]. injection Hf as <-. reflexivity.
    - intros H. destruct (way_pass_feature _ _ _ _ _ H) as [w [Hw [_ [_ [Hk [Ht _]]]]]].
      exists w. unfold fkey in Hk. injection Hk as _ Hk. auto.
    - intros r Hr Hf. destruct (String.eqb (tag_find (r_tags r) "type") "route") eqn:Hty.
      + exact (proj1 (proj2 (proj2 (route_feature_geometry join ring_of o d r f Hty Hf)))).
      + revert Hf. unfold Model.rel_result. rewrite Hty. destruct (_ || _); [|discriminate].
        intros Hf. exact (poly_result_taint o d r f Hf).
  Qed.
End Carry.
