(* C17/ProofsJoin.v — the executable Join of C17/Mputil.v conserves edges: for every undirected
   edge, the number of its occurrences in the joined lines equals the number in the input
   lines.  This discharges the hypothesis of route_preserves_segments for the instance used in
   the correspondence run (the general geometric theory of Join is property C16). *)
From Coq Require Import ZArith String List Bool Lia.
From Verif Require Import C17.Model C17.Spec C17.Mputil C17.Proofs C17.ProofsGeom C17.ProofsRoute.
Import ListNotations.
Open Scope Z_scope.
Open Scope list_scope.

(* ---------- counting edges ---------- *)
Definition cnt (e : pt * pt) (l : list pt) : nat := count_edge e (edges l).
Definition cntL (e : pt * pt) (ls : list (list pt)) : nat := count_edge e (all_edges ls).

Lemma count_edge_app e a b : count_edge e (a ++ b) = (count_edge e a + count_edge e b)%nat.
Proof. unfold count_edge. rewrite filter_app, app_length. reflexivity. Qed.

Lemma cntL_cons e l ls : cntL e (l :: ls) = (cnt e l + cntL e ls)%nat.
Proof. unfold cntL, cnt, all_edges. cbn [flat_map]. apply count_edge_app. Qed.

Lemma cntL_app e a b : cntL e (a ++ b) = (cntL e a + cntL e b)%nat.
Proof. unfold cntL, all_edges. rewrite flat_map_app. apply count_edge_app. Qed.

Lemma edges_app_joint (l1 l2 : list pt) d :
  l1 <> [] -> edges (l1 ++ l2) = edges l1 ++ edges (last l1 d :: l2).
Proof.
  induction l1 as [|a l1 IH]; intros H; [congruence|].
  destruct l1 as [|b l1]; [reflexivity|].
  change (edges ((a :: b :: l1) ++ l2)) with ((a, b) :: edges ((b :: l1) ++ l2)).
  rewrite IH by discriminate. reflexivity.
Qed.

Lemma edge_eqb_swap e a b : edge_eqb e (a, b) = edge_eqb e (b, a).
Proof. unfold edge_eqb. cbn [fst snd]. apply orb_comm. Qed.

Lemma cnt_snoc e (l : list pt) a d : l <> [] ->
  cnt e (l ++ [a]) = (cnt e l + (if edge_eqb e (last l d, a) then 1 else 0))%nat.
Proof.
  intros H. unfold cnt. rewrite (edges_app_joint l [a] d H), count_edge_app. f_equal.
  unfold count_edge. cbn. destruct (edge_eqb e (last l d, a)); reflexivity.
Qed.

Lemma cnt_rev e l : cnt e (rev l) = cnt e l.
Proof.
  destruct l as [|a l]; [reflexivity|]. revert a.
  induction l as [|b l IH]; intros a; [reflexivity|].
  change (rev (a :: b :: l)) with (rev (b :: l) ++ [a]).
  rewrite (cnt_snoc e _ a a).
  - rewrite last_rev_cons, IH. unfold cnt. cbn [edges]. unfold count_edge. cbn [filter].
    rewrite (edge_eqb_swap e a b). destruct (edge_eqb e (b, a)); cbn [List.length]; lia.
  - cbn. destruct (rev l); discriminate.
Qed.

(* ---------- endpoints ---------- *)
Lemma last_opt_last {A} (l : list A) d : l <> [] -> last_opt l = Some (last l d).
Proof.
  induction l as [|a l IH]; intros H; [congruence|].
  destruct l as [|b l]; [reflexivity|]. change (last_opt (a :: b :: l)) with (last_opt (b :: l)).
  rewrite IH by discriminate. reflexivity.
Qed.

Lemma last_opt_some_ne {A} (l : list A) p : last_opt l = Some p -> l <> [].
Proof. destruct l; [discriminate|discriminate]. Qed.

Lemma last_opt_app {A} (a b : list A) : b <> [] -> last_opt (a ++ b) = last_opt b.
Proof.
  intros H. induction a as [|x a IH]; [reflexivity|].
  cbn [app]. destruct (a ++ b) as [|y l] eqn:E.
  - destruct a; cbn in E; [congruence|discriminate].
  - change (last_opt (x :: y :: l)) with (last_opt (y :: l)). exact IH.
Qed.

Lemma hd_error_rev {A} (l : list A) : hd_error (rev l) = last_opt l.
Proof.
  induction l as [|a l IH]; [reflexivity|]. cbn [rev].
  destruct l as [|b l]; [reflexivity|]. change (last_opt (a :: b :: l)) with (last_opt (b :: l)).
  rewrite <- IH. cbn [rev]. destruct (rev l); reflexivity.
Qed.

Lemma last_opt_rev {A} (l : list A) : last_opt (rev l) = hd_error l.
Proof. rewrite <- (rev_involutive l) at 2. rewrite hd_error_rev. reflexivity. Qed.

Lemma opt_pt_eqb_true a b : opt_pt_eqb a b = true -> exists p, a = Some p /\ b = Some p.
Proof.
  destruct a as [p|], b as [q|]; cbn; try discriminate. intros H. apply pt_eqb_eq in H. subst. eauto.
Qed.

Lemma cnt_join_end e (M L : list pt) p :
  last_opt M = Some p -> hd_error L = Some p -> cnt e (M ++ tl L) = (cnt e M + cnt e L)%nat.
Proof.
  intros HM HL. pose proof (last_opt_some_ne _ _ HM) as Hne.
  rewrite (last_opt_last M p Hne) in HM. injection HM as HM.
  destruct L as [|q L]; [discriminate|]. cbn in HL. injection HL as ->.
  unfold cnt. cbn [tl]. rewrite (edges_app_joint M L p Hne), HM. apply count_edge_app.
Qed.

Lemma cnt_join_start e (M L : list pt) p :
  hd_error M = Some p -> last_opt L = Some p -> cnt e (removelast L ++ M) = (cnt e L + cnt e M)%nat.
Proof.
  intros HM HL. pose proof (last_opt_some_ne _ _ HL) as Hne.
  rewrite (last_opt_last L p Hne) in HL. injection HL as HL.
  destruct M as [|q M]; [discriminate|]. cbn in HM. injection HM as ->.
  assert (E : removelast L ++ p :: M = L ++ M).
  { rewrite (app_removelast_last p Hne) at 2. rewrite HL, <- app_assoc. reflexivity. }
  rewrite E. unfold cnt. rewrite (edges_app_joint L M p Hne), HL. apply count_edge_app.
Qed.

(* ---------- invariants ---------- *)
Definition long (s : seg) : Prop := (2 <= List.length (sg_line s))%nat.
Definition nonempty (s : seg) : Prop := sg_line s <> [].

Lemma ms_line_cons s ms : ms_line (s :: ms) = sg_line s ++ ms_line ms.
Proof. reflexivity. Qed.
Lemma ms_line_app a b : ms_line (a ++ b) = ms_line a ++ ms_line b.
Proof. unfold ms_line. rewrite map_app, concat_app. reflexivity. Qed.

Lemma ms_first_line cur : cur <> [] -> Forall nonempty cur -> ms_first cur = hd_error (ms_line cur).
Proof.
  destruct cur as [|s t]; [congruence|]. intros _ H. inversion H as [|? ? Hs _]; subst.
  unfold ms_first, seg_first. rewrite ms_line_cons. unfold nonempty in Hs.
  destruct (sg_line s); [congruence|reflexivity].
Qed.

Lemma ms_line_ne cur : cur <> [] -> Forall nonempty cur -> ms_line cur <> [].
Proof.
  destruct cur as [|s t]; [congruence|]. intros _ H. inversion H as [|? ? Hs _]; subst.
  rewrite ms_line_cons. unfold nonempty in Hs. destruct (sg_line s); [congruence|discriminate].
Qed.

Lemma ms_last_line cur : cur <> [] -> Forall nonempty cur -> ms_last cur = last_opt (ms_line cur).
Proof.
  induction cur as [|s t IH]; [congruence|]. intros _ H. inversion H as [|? ? Hs Ht]; subst.
  destruct t as [|u t].
  - unfold ms_last, seg_last. cbn [last_opt]. rewrite ms_line_cons. cbn. rewrite app_nil_r. reflexivity.
  - rewrite ms_line_cons, last_opt_app by (apply ms_line_ne; [discriminate|exact Ht]).
    rewrite <- IH by (try discriminate; exact Ht). reflexivity.
Qed.

Lemma long_nonempty s : long s -> nonempty s.
Proof. unfold long, nonempty. destruct (sg_line s); cbn; [lia|discriminate]. Qed.

(* ---------- try_match / find_match ---------- *)
Lemma try_match_spec first last s j :
  try_match first last s = Some j ->
  exists L s', (L = sg_line s \/ L = rev (sg_line s)) /\
    ((j = JEnd s' /\ sg_line s' = tl L /\ exists p, last = Some p /\ hd_error L = Some p) \/
     (j = JStart s' /\ sg_line s' = removelast L /\ exists p, first = Some p /\ last_opt L = Some p)).
Proof.
  unfold try_match.
  destruct (opt_pt_eqb last (seg_first s)) eqn:H1.
  { intros H. injection H as <-. exists (sg_line s), (trim_first s). split; [left; reflexivity|]. left.
    split; [reflexivity|]. split; [reflexivity|]. apply opt_pt_eqb_true in H1. destruct H1 as [p [-> H1]].
    exists p. split; [reflexivity|exact H1]. }
  destruct (opt_pt_eqb last (seg_last s)) eqn:H2.
  { intros H. injection H as <-. exists (rev (sg_line s)), (trim_first (seg_reverse s)).
    split; [right; reflexivity|]. left. split; [reflexivity|]. split; [reflexivity|].
    apply opt_pt_eqb_true in H2. destruct H2 as [p [-> H2]]. exists p. split; [reflexivity|].
    rewrite hd_error_rev. exact H2. }
  destruct (opt_pt_eqb first (seg_last s)) eqn:H3.
  { intros H. injection H as <-. exists (sg_line s), (trim_last s). split; [left; reflexivity|]. right.
    split; [reflexivity|]. split; [reflexivity|]. apply opt_pt_eqb_true in H3. destruct H3 as [p [-> H3]].
    exists p. split; [reflexivity|exact H3]. }
  destruct (opt_pt_eqb first (seg_first s)) eqn:H4; [|discriminate].
  intros H. injection H as <-. exists (rev (sg_line s)), (trim_last (seg_reverse s)).
  split; [right; reflexivity|]. right. split; [reflexivity|]. split; [reflexivity|].
  apply opt_pt_eqb_true in H4. destruct H4 as [p [-> H4]]. exists p. split; [reflexivity|].
  rewrite last_opt_rev. exact H4.
Qed.

Lemma find_match_spec first last segs j rest :
  find_match first last segs = Some (j, rest) ->
  exists s pre post, segs = pre ++ s :: post /\ rest = pre ++ post /\ try_match first last s = Some j.
Proof.
  revert rest. induction segs as [|s r IH]; intros rest; cbn; [discriminate|].
  destruct (try_match first last s) as [j0|] eqn:Ht.
  - intros H. injection H as <- <-. exists s, [], r. auto.
  - destruct (find_match first last r) as [[j1 r1]|]; [|discriminate].
    intros H. injection H as <- <-. destruct (IH r1 eq_refl) as [s1 [pre [post [-> [-> H1]]]]].
    exists s1, (s :: pre), post. auto.
Qed.

Section Count.
  Variable e : pt * pt.

  Definition cntS (segs : list seg) : nat := cntL e (map sg_line segs).

  Lemma cntS_app a b : cntS (a ++ b) = (cntS a + cntS b)%nat.
  Proof. unfold cntS. rewrite map_app. apply cntL_app. Qed.
  Lemma cntS_cons s b : cntS (s :: b) = (cnt e (sg_line s) + cntS b)%nat.
  Proof. unfold cntS. cbn [map]. apply cntL_cons. Qed.

  Lemma cnt_L s L : (L = sg_line s \/ L = rev (sg_line s)) -> cnt e L = cnt e (sg_line s).
  Proof. intros [->| ->]; [reflexivity|apply cnt_rev]. Qed.

  Lemma len_L s L : (L = sg_line s \/ L = rev (sg_line s)) -> List.length L = List.length (sg_line s).
  Proof. intros [->| ->]; [reflexivity|apply rev_length]. Qed.

  Lemma grow_count fuel : forall cur segs cur' rest,
    Forall long segs -> cur <> [] -> Forall nonempty cur ->
    grow fuel cur segs = (cur', rest) ->
    Forall long rest /\ cur' <> [] /\ Forall nonempty cur' /\
    (cnt e (ms_line cur') + cntS rest = cnt e (ms_line cur) + cntS segs)%nat /\
    (List.length rest <= List.length segs)%nat.
  Proof.
    induction fuel as [|f IH]; intros cur segs cur' rest Hlong Hne Hcur; cbn [grow].
    { intros H. injection H as <- <-. auto. }
    destruct (is_nil segs || opt_pt_eqb (ms_first cur) (ms_last cur)).
    { intros H. injection H as <- <-. auto. }
    destruct (find_match (ms_first cur) (ms_last cur) segs) as [[j r]|] eqn:Hf.
    2:{ intros H. injection H as <- <-. auto. }
    destruct (find_match_spec _ _ _ _ _ Hf) as [s [pre [post [-> [-> Ht]]]]].
    destruct (try_match_spec _ _ _ _ Ht) as [L [s' [HL Hcase]]].
    assert (Hs : long s).
    { apply Forall_app in Hlong. destruct Hlong as [_ H2]. inversion H2; assumption. }
    assert (Hrest : Forall long (pre ++ post)).
    { apply Forall_app in Hlong. destruct Hlong as [H1 H2]. inversion H2; subst. apply Forall_app. auto. }
    pose proof (len_L s L HL) as HlenL. unfold long in Hs.
    assert (Hlen : (List.length (pre ++ post) <= List.length (pre ++ s :: post))%nat)
      by (rewrite !app_length; cbn; lia).
    destruct Hcase as [[-> [Hline [p [Hlast Hhd]]]]|[-> [Hline [p [Hfirst Hlst]]]]].
    - (* fits at the end *)
      intros Hg.
      assert (Hs' : nonempty s').
      { unfold nonempty. rewrite Hline. destruct L as [|a [|b L]]; cbn in *; try lia; discriminate. }
      destruct (IH (cur ++ [s']) (pre ++ post) cur' rest Hrest) as [R1 [R2 [R3 [R4 R5]]]];
        [destruct cur; discriminate|apply Forall_app; auto|exact Hg|].
      split; [exact R1|]. split; [exact R2|]. split; [exact R3|]. split; [|lia].
      rewrite R4, ms_line_app. cbn [ms_line map concat]. rewrite app_nil_r, Hline.
      rewrite (ms_last_line cur Hne Hcur) in Hlast.
      rewrite (cnt_join_end e _ L p Hlast Hhd), (cnt_L s L HL).
      rewrite !cntS_app, cntS_cons. lia.
    - (* fits at the start *)
      intros Hg.
      assert (Hs' : nonempty s').
      { unfold nonempty. rewrite Hline. destruct L as [|a [|b L]]; cbn in *; try lia; discriminate. }
      destruct (IH (s' :: cur) (pre ++ post) cur' rest Hrest) as [R1 [R2 [R3 [R4 R5]]]];
        [discriminate|constructor; auto|exact Hg|].
      split; [exact R1|]. split; [exact R2|]. split; [exact R3|]. split; [|lia].
      rewrite R4, ms_line_cons, Hline.
      rewrite (ms_first_line cur Hne Hcur) in Hfirst.
      rewrite (cnt_join_start e _ L p Hfirst Hlst), (cnt_L s L HL).
      rewrite !cntS_app, cntS_cons. lia.
  Qed.

  Lemma split_last_spec {A} (l : list A) i z : split_last l = Some (i, z) -> l = i ++ [z].
  Proof.
    revert i z. induction l as [|a l IH]; intros i z; cbn; [discriminate|].
    destruct (split_last l) as [[i' z']|] eqn:Hs.
    - intros H. injection H as <- <-. rewrite (IH i' z' eq_refl). reflexivity.
    - intros H. injection H as <- <-. destruct l as [|b l]; [reflexivity|].
      cbn in Hs. destruct (split_last l) as [[? ?]|]; discriminate.
  Qed.

  Lemma split_last_none {A} (l : list A) : split_last l = None -> l = [].
  Proof. destruct l as [|a l]; [reflexivity|]. cbn. destruct (split_last l) as [[? ?]|]; discriminate. Qed.

  Lemma join_loop_count fuel : forall segs acc,
    Forall long segs -> (List.length segs <= fuel)%nat ->
    cntL e (map ms_line (join_loop fuel segs acc)) = (cntL e (map ms_line acc) + cntS segs)%nat.
  Proof.
    induction fuel as [|f IH]; intros segs acc Hlong Hlen; cbn [join_loop].
    { destruct segs; [unfold cntS; cbn; lia|cbn in Hlen; lia]. }
    destruct (split_last segs) as [[init z]|] eqn:Hs.
    2:{ rewrite (split_last_none _ Hs). unfold cntS. cbn. lia. }
    pose proof (split_last_spec _ _ _ Hs) as ->.
    apply Forall_app in Hlong. destruct Hlong as [Hinit Hz]. inversion Hz as [|? ? Hz' _]; subst.
    destruct (grow (List.length init) [z] init) as [cur rest] eqn:Hg.
    assert (Hz1 : [z] <> []) by discriminate.
    assert (Hz2 : Forall nonempty [z]) by (constructor; [apply long_nonempty; exact Hz'|constructor]).
    destruct (grow_count _ _ _ _ _ Hinit Hz1 Hz2 Hg) as [R1 [R2 [R3 [R4 R5]]]].
    rewrite app_length in Hlen. cbn [List.length] in Hlen.
    rewrite IH by (try exact R1; lia).
    rewrite map_app, cntL_app, cntS_app. cbn [map]. rewrite cntL_cons, cntS_cons.
    change (cntL e []) with 0%nat. change (cntS []) with 0%nat.
    cbn [ms_line map concat] in R4. rewrite app_nil_r in R4. lia.
  Qed.

  Lemma compact_count segs : cntS (compact segs) = cntS segs /\ Forall long (compact segs).
  Proof.
    unfold compact. induction segs as [|s segs [IH1 IH2]]; [split; [reflexivity|constructor]|].
    cbn [filter]. destruct (1 <? List.length (sg_line s))%nat eqn:Hl.
    - rewrite !cntS_cons, IH1. split; [reflexivity|]. constructor; [|exact IH2].
      apply Nat.ltb_lt in Hl. unfold long. lia.
    - rewrite cntS_cons, IH1. split; [|exact IH2]. apply Nat.ltb_ge in Hl.
      destruct (sg_line s) as [|a [|b l]]; cbn in Hl; try lia; reflexivity.
  Qed.

  Lemma join_count segs : cntL e (map ms_line (Mputil.join segs)) = cntS segs.
  Proof.
    unfold Mputil.join. destruct (compact_count segs) as [Hc Hl].
    rewrite join_loop_count by (try exact Hl; lia). rewrite Hc. reflexivity.
  Qed.
End Count.

Theorem join_conserves_edges_exec : join_conserves_edges Mputil.join.
Proof.
  intros segs. unfold edges_sub. apply forallb_forall. intros e _.
  apply Nat.leb_le. fold (cntL e (map sg_line segs)). fold (cntL e (map ms_line (Mputil.join segs))).
  rewrite join_count. unfold cntS. lia.
Qed.
