(* C17/ProofsGeoScene.v — C16's recovery theorem, as a statement about the features of [convert]:
   for a multipolygon/boundary relation whose members satisfy C16's scene hypotheses (the outer
   and inner member ways are any cut of the scene's rings, found and fully resolvable, with
   truthful or absent orientation annotations; holes strictly inside their outers), the feature
   emitted by the conversion — under the relation's id, or under the adopted outer way's id —
   carries exactly the scene's polygons (each outer ring closed, complete, counter-clockwise; each
   hole with its own outer, clockwise), is not tainted, and this for either setting of
   IncludeInvalidPolygons.  A corollary of C17/ProofsGeoBuild.poly_result_is_geo and
   Geo.Collect.build_polygon_recovers, not a re-proof. *)
From Coq Require Import ZArith String List Bool Lia Permutation.
From Verif Require Import C17.Model C17.Mputil C17.Spec C17.Proofs C17.ProofsGeoEq C17.ProofsGeoBuild
     C17.ProofsCarry C17.ProofsDup.
From Verif Require Geo.Model Geo.Rings Geo.Orient Geo.Build Geo.Collect.
Import ListNotations.
Open Scope Z_scope.
Open Scope list_scope.

Definition feature_polys (f : feature) : option (list (list (list pt))) :=
  match f_geom f with
  | GPoly p => Some [p]
  | GMultiPoly mp => Some mp
  | _ => None
  end.

Lemma geom_polys_ggeom x mp :
  Geo.Build.geom_polys (ggeom x) = Some mp ->
  exists g, x = Some g /\ match g with GPoly p => mp = [p] | GMultiPoly q => mp = q | _ => False end.
Proof.
  destruct x as [g|]; [|discriminate]. destruct g; cbn; try discriminate; intros H; injection H as <-;
    eexists; split; reflexivity.
Qed.

Theorem convert_multipolygon_geometry o d r ds (sc : Geo.Build.gscene) :
  In r (relations d) -> is_mp r = true -> poly_in_range r = true ->
  sc <> [] ->
  NoDup (concat (Geo.Build.s_outers sc)) -> NoDup (concat (Geo.Build.s_holes sc)) ->
  Forall (fun ring => (3 <= List.length ring)%nat) (Geo.Build.s_outers sc ++ Geo.Build.s_holes sc) ->
  (forall ring, In ring (Geo.Build.s_outers sc ++ Geo.Build.s_holes sc) ->
                Geo.Orient.shoelace (Geo.Rings.close_ring ring) <> 0) ->
  Geo.Build.contained sc ->
  Forall2 (Geo.Collect.member_ok (gnodes d) (gways d) (Geo.Build.s_outers sc) (Geo.Build.s_holes sc))
          (map gmem (r_members r)) ds ->
  Geo.Collect.is_cut_lines (map Geo.Rings.close_ring (Geo.Build.s_outers sc)) (Geo.Collect.outer_lines ds) ->
  Geo.Collect.is_cut_lines (map Geo.Rings.close_ring (Geo.Build.s_holes sc)) (Geo.Collect.inner_lines ds) ->
  exists f mp sc',
    In f (convert Mputil.join Mputil.ring_of o d) /\
    snd (rel_result Mputil.join Mputil.ring_of o d r) = Some f /\
    (fkey f = (TRel, r_id r) \/ (exists x, adopts d r = [x] /\ fkey f = (TWay, x))) /\
    feature_polys f = Some mp /\ f_tainted f = false /\
    Permutation sc' sc /\ Forall2 Geo.Build.poly_recovered sc' mp /\
    List.length (concat (map (@tl (list pt)) mp)) = List.length (Geo.Build.s_holes sc).
Proof.
  intros Hr Hmp Hrange Hne Hndo Hndh Hlen Harea Hcont Hok Hco Hci.
  destruct (Geo.Collect.build_polygon_recovers (inclInvalid o) (gnodes d) (gways d) (map gmem (r_members r)) ds sc
              Hne Hndo Hndh Hlen Harea Hcont Hok Hco Hci) as [mp [sc' [Hg [Ht [Hp [Hrec Hcnt]]]]]].
  rewrite poly_result_is_geo in Hg, Ht. cbn [fst snd] in Hg, Ht.
  destruct (geom_polys_ggeom _ _ Hg) as [g [Hsome Hshape]].
  destruct (snd (poly_result Mputil.join Mputil.ring_of o d r)) as [f|] eqn:Hf; [|discriminate].
  cbn [option_map] in Hsome. injection Hsome as Hgeom.
  assert (Hrel : snd (rel_result Mputil.join Mputil.ring_of o d r) = Some f).
  { unfold rel_result. unfold is_mp in Hmp. apply andb_true_iff in Hmp. destruct Hmp as [Hnr Hm].
    apply negb_true_iff in Hnr. rewrite Hnr, Hm. exact Hf. }
  exists f, mp, sc'. split; [|split; [exact Hrel|split; [|split; [|split; [|split; [exact Hp|split; [exact Hrec|exact Hcnt]]]]]]].
  - unfold convert. apply in_or_app. left. unfold rel_features. apply in_flat_map.
    exists r. split; [exact Hr|]. rewrite Hrel. left. reflexivity.
  - exact (rel_result_key_exact Mputil.join Mputil.ring_of ring_single_exec o d r f (fun _ => Hrange) Hrel).
  - unfold feature_polys. rewrite Hgeom. destruct g; try contradiction; subst; reflexivity.
  - rewrite (poly_result_taint Mputil.join Mputil.ring_of o d r f Hf). unfold mp_tainted. rewrite <- (steps_taint d (r_tags r)). exact Ht.
Qed.
