(* Codec/Xml.v — schema-directed model of encoding/xml Marshal/Unmarshal for the types of
   package osm, at the level of document trees, plus the hand-written XML methods of the
   package transcribed one by one.  Executable definitions only (no proofs here).

   What is modelled (Go 1.23 encoding/xml, marshal.go / read.go / typeinfo.go):
   * marshalValue: omitempty, nil pointers, Marshaler types (dispatch to the transcriptions
     below), slices (one element per item, same field info), structs, simple values;
     element-name precedence  start template -> XMLName tag -> field tag -> type name;
   * marshalStruct / marshalAttr: attributes in field order (omitempty, nil pointers,
     time.Time as text), child elements in field order, a>b parent wrappers (one wrapper per
     field: sound for schemas where no two fields of a struct share a parent, which
     [SchemaOk] checks);
   * unmarshal: pointer allocation or reuse, Unmarshaler types, slices grow by one per element,
     struct: XMLName check, every attribute goes to every attr field of that name, every child
     to the FIRST element field (in declaration order) whose path matches (unmarshalPath),
     unmatched children are skipped, simple values from the element text.
   Text is below this model: attribute values and element text are typed atoms; the
   lexical layer (strconv, time formatting, escaping, attribute order, whitespace) belongs to
   the standard library and is tied by correspondence only. *)
From Coq Require Import List String Bool ZArith.
From Verif Require Import Codec.Schema Codec.Value.
Import ListNotations.
Open Scope Z_scope.
Open Scope string_scope.
Open Scope list_scope.

Inductive atom :=
| AStr (s : list Z)         (* character data, bytes of the UTF-8 text after unescaping *)
| AInt (z : Z)
| AFloat (q : Z)            (* exact integer key, 0 for zero *)
| ABool (b : bool)
| ATime (t : Z)             (* RFC 3339 instant, nanoseconds since the Unix epoch *)
| ADate (s : Z).            (* "2006-01-02 15:04:05 MST" instant, whole seconds since the epoch *)

Inductive xml := Elem (name : string) (attrs : list (string * atom)) (children : list xml) (text : atom).

Definition xname (e : xml) : string := match e with Elem n _ _ _ => n end.
Definition xattrs (e : xml) := match e with Elem _ a _ _ => a end.
Definition xkids (e : xml) := match e with Elem _ _ k _ => k end.
Definition xtext (e : xml) := match e with Elem _ _ _ t => t end.

Definition no_text : atom := AStr [].

Definition nanos : Z := 1000000000.

(* field info handed down by marshalStruct: effective name, omitempty *)
Definition finfo := option (string * bool).
Definition fi_name (fi : finfo) : string := match fi with Some (n, _) => n | None => "" end.
Definition fi_omit (fi : finfo) : bool := match fi with Some (_, o) => o | None => false end.
Definition fi_clear (fi : finfo) : finfo := match fi with Some (n, _) => Some (n, false) | None => None end.

Section Codec.
Variable sch : schema.

Notation rk := (rk sch).

(* ---------- typeinfo.go ---------- *)

(* lookupXMLName: tag of the XMLName field of the struct a (pointer to a) type denotes *)
Fixpoint type_xmlname (n : nat) (ty : gotype) : string :=
  match n with
  | O => ""
  | S n' =>
      match ty with
      | TPtr t => type_xmlname n' t
      | TNamed nm => match lookup_type sch nm with Some d => xmlname_tag d | None => "" end
      | _ => ""
      end
  end.

Definition eff_name (f : field) : string :=
  if negb (String.eqb (x_name (f_xml f)) "") then x_name (f_xml f)
  else match type_xmlname 4 (f_type f) with
       | EmptyString => f_name f
       | s => s
       end.

Definition is_attr (f : field) : bool := x_attr (f_xml f) && negb (x_skip (f_xml f)).
Definition is_elem (f : field) : bool :=
  negb (x_attr (f_xml f)) && negb (x_skip (f_xml f)) && String.eqb (x_mode (f_xml f)) "".
(* fields the generic struct code of this model does not cover (chardata, cdata, innerxml,
   comment, any, attr+mode, embedded structs without a name): the struct functions fail
   explicitly on them *)
Definition field_supported (f : field) : bool :=
  x_skip (f_xml f) ||
  (String.eqb (x_mode (f_xml f)) "" &&
   negb (f_embedded f && String.eqb (x_name (f_xml f)) "")).

(* the typedef whose MarshalXML (value receiver) / UnmarshalXML method encoding/xml would call *)
Definition named_def (ty : gotype) : option typedef :=
  match ty with TNamed nm => lookup_type sch nm | _ => None end.

Definition marshal_hook (ty : gotype) : option typedef :=
  match named_def ty with
  | Some d => if has_method d "MarshalXML" then Some d else None
  | None => None
  end.
Definition unmarshal_hook (ty : gotype) : option typedef :=
  match named_def ty with
  | Some d => if has_method d "UnmarshalXML" then Some d else None
  | None => None
  end.

Definition type_name (ty : gotype) : string :=
  match named_def ty with Some d => if t_anon d then "" else t_name d | None => "" end.

(* ---------- atoms of simple values ---------- *)

Definition simple_atom (k : rkind) (v : value) : result atom :=
  match k, v with
  | RInt, VInt z => Ok (AInt z)
  | RFloat, VFloat q => Ok (AFloat q)
  | RBool, VBool b => Ok (ABool b)
  | RString, VStr s => Ok (AStr s)
  | RTime, VTime t => Ok (ATime t)          (* encoding.TextMarshaler *)
  | (RInt | RFloat | RBool | RString | RTime), _ => Err EShape
  | _, _ => Err EUnsupported
  end.

Definition is_empty_text (a : atom) : bool := match a with AStr [] => true | _ => false end.

(* copyValue / UnmarshalText: an empty text gives the zero number/bool *)
Definition atom_value (k : rkind) (a : atom) : result value :=
  match k, a with
  | RInt, AInt z => Ok (VInt z)
  | RFloat, AFloat q => Ok (VFloat q)
  | RBool, ABool b => Ok (VBool b)
  | RString, AStr s => Ok (VStr s)
  | RTime, ATime t => Ok (VTime t)
  | RInt, AStr [] => Ok (VInt 0)
  | RFloat, AStr [] => Ok (VFloat 0)
  | RBool, AStr [] => Ok (VBool false)
  | (RInt | RFloat | RBool | RString | RTime), _ => Err EAtom
  | _, _ => Err EUnsupported
  end.

(* marshalAttr: nil pointer -> no attribute; pointers are followed; a simple value or a
   TextMarshaler gives one attribute (slices of attributes are outside the fragment) *)
Fixpoint attr_atom (n : nat) (ty : gotype) (v : value) : result (option atom) :=
  match n with
  | O => Err EFuel
  | S n' =>
      match rk ty, v with
      | RPtr t, VPtr None => Ok None
      | RPtr t, VPtr (Some v') => attr_atom n' t v'
      | RPtr _, _ => Err EShape
      | (RSlice _ | RStruct _ | RBad), _ => Err EUnsupported
      | k, _ => do a <- simple_atom k v; Ok (Some a)
      end
  end.

(* unmarshalAttr: a nil pointer is allocated, then copyValue *)
Fixpoint attr_value (n : nat) (ty : gotype) (a : atom) : result value :=
  match n with
  | O => Err EFuel
  | S n' =>
      match rk ty with
      | RPtr t => do v <- attr_value n' t a; Ok (VPtr (Some v))
      | RSlice _ | RStruct _ | RBad => Err EUnsupported
      | k => atom_value k a
      end
  end.

Definition AFUEL : nat := 4.

(* attributes of a struct start element, in field order *)
Fixpoint marshal_attrs (fs : list field) (vs : list value) : result (list (string * atom)) :=
  match fs, vs with
  | [], [] => Ok []
  | f :: fs', v :: vs' =>
      if negb (field_supported f) then Err EUnsupported else
      do rest <- marshal_attrs fs' vs';
      if is_attr f then
        if x_omitempty (f_xml f) && is_empty v then Ok rest
        else do oa <- attr_atom AFUEL (f_type f) v;
             match oa with Some a => Ok ((eff_name f, a) :: rest) | None => Ok rest end
      else Ok rest
  | _, _ => Err EShape
  end.

(* one attribute of the start element goes to every attr field with that name *)
Fixpoint unmarshal_attr (fs : list field) (vs : list value) (an : string) (a : atom) : result (list value) :=
  match fs, vs with
  | [], [] => Ok []
  | f :: fs', v :: vs' =>
      do rest <- unmarshal_attr fs' vs' an a;
      if is_attr f && String.eqb (eff_name f) an then
        do v' <- attr_value AFUEL (f_type f) a; Ok (v' :: rest)
      else Ok (v :: rest)
  | _, _ => Err EShape
  end.

Fixpoint unmarshal_attrs (fs : list field) (vs : list value) (l : list (string * atom)) : result (list value) :=
  match l with
  | [] => Ok vs
  | (an, a) :: r => do vs' <- unmarshal_attr fs vs an a; unmarshal_attrs fs vs' r
  end.

Fixpoint nest (ps : list string) (es : list xml) : list xml :=
  match ps with
  | [] => es
  | p :: r => [Elem p [] (nest r es) no_text]
  end.

Definition is_nil_ptr (v : value) : bool := match v with VPtr None => true | _ => false end.

(* ================= one level of marshalValue, recursive calls through [mar] ================= *)
Section MarshalStep.
Variable mar : gotype -> value -> finfo -> option string -> result (list xml).

(* element name of a value that is not a Marshaler *)
Definition start_name (ty : gotype) (xmlname : string) (fi : finfo) (tmpl : option string) : result string :=
  match tmpl with
  | Some t => Ok t
  | None =>
      if negb (String.eqb xmlname "") then Ok xmlname
      else if negb (String.eqb (fi_name fi) "") then Ok (fi_name fi)
      else match type_name ty with EmptyString => Err EUnsupported | s => Ok s end
  end.

(* defaultStart: the start element handed to a Marshaler (no look at XMLName) *)
Definition default_start (ty : gotype) (fi : finfo) (tmpl : option string) : string :=
  match tmpl with
  | Some t => t
  | None => if negb (String.eqb (fi_name fi) "") then fi_name fi else type_name ty
  end.

Fixpoint marshal_children (fs : list field) (vs : list value) : result (list xml) :=
  match fs, vs with
  | [], [] => Ok []
  | f :: fs', v :: vs' =>
      if is_elem f then
        do es <- mar (f_type f) v (Some (eff_name f, x_omitempty (f_xml f))) None;
        do rest <- marshal_children fs' vs';
        match x_parents (f_xml f) with
        | [] => Ok (es ++ rest)
        | ps => if is_nil_ptr v then Ok rest else Ok (nest ps es ++ rest)
        end
      else marshal_children fs' vs'
  | _, _ => Err EShape
  end.

Definition marshal_struct (ty : gotype) (d : typedef) (v : value) (fi : finfo) (tmpl : option string)
  : result (list xml) :=
  match v with
  | VStruct vs =>
      do name <- start_name ty (xmlname_tag d) fi tmpl;
      do attrs <- marshal_attrs (struct_fields d) vs;
      do kids <- marshal_children (struct_fields d) vs;
      Ok [Elem name attrs kids no_text]
  | _ => Err EShape
  end.

(* --- field access for the transcribed methods (by Go field name) --- *)
Definition fld (d : typedef) (v : value) (nm : string) : result (field * value) :=
  match v with
  | VStruct vs => match fget_go (struct_fields d) vs nm with Some r => Ok r | None => Err EField end
  | _ => Err EShape
  end.

Definition str_attr (d : typedef) (v : value) (go_name attr_name : string) : result (list (string * atom)) :=
  do fv <- fld d v go_name;
  match snd fv with
  | VStr [] => Ok []
  | VStr s => Ok [(attr_name, AStr s)]
  | _ => Err EShape
  end.

(* e.Encode(o.F) : marshalValue(o.F, nil, nil) *)
Definition encode_field (d : typedef) (v : value) (go_name : string) : result (list xml) :=
  do fv <- fld d v go_name; mar (f_type (fst fv)) (snd fv) None None.

(* osm.go: func (o *OSM) marshalInnerXML(e) — o is not nil here *)
Definition osm_inner (d : typedef) (o : value) : result (list xml) :=
  do b <- encode_field d o "Bounds";
  do n <- encode_field d o "Nodes";
  do w <- encode_field d o "Ways";
  do r <- encode_field d o "Relations";
  do c <- encode_field d o "Changesets";
  do nt <- encode_field d o "Notes";
  do u <- encode_field d o "Users";
  Ok (b ++ n ++ w ++ r ++ c ++ nt ++ u).

(* osm.go: marshalInnerElementsXML *)
Definition osm_inner_elements (d : typedef) (o : value) : result (list xml) :=
  do n <- encode_field d o "Nodes";
  do w <- encode_field d o "Ways";
  do r <- encode_field d o "Relations";
  Ok (n ++ w ++ r).

Definition header_attrs (d : typedef) (v : value) : result (list (string * atom)) :=
  do a1 <- str_attr d v "Version" "version";
  do a2 <- str_attr d v "Generator" "generator";
  do a3 <- str_attr d v "Copyright" "copyright";
  do a4 <- str_attr d v "Attribution" "attribution";
  do a5 <- str_attr d v "License" "license";
  Ok (a1 ++ a2 ++ a3 ++ a4 ++ a5).

(* osm.go: func (o OSM) MarshalXML *)
Definition osm_marshal (d : typedef) (v : value) : result (list xml) :=
  do attrs <- header_attrs d v;
  do kids <- osm_inner d v;
  Ok [Elem "osm" attrs kids no_text].

(* change.go: marshalInnerChange(e, name, o) with o : *OSM *)
Definition inner_change (name : string) (po : value) : result (list xml) :=
  match po with
  | VPtr None => Ok []
  | VPtr (Some o) =>
      match lookup_type sch "OSM" with
      | Some d => do kids <- osm_inner d o; Ok [Elem name [] kids no_text]
      | None => Err EField
      end
  | _ => Err EShape
  end.

Definition inner_change_field (d : typedef) (v : value) (go_name name : string) : result (list xml) :=
  do fv <- fld d v go_name; inner_change name (snd fv).

(* change.go: func (c Change) MarshalXML *)
Definition change_marshal (d : typedef) (v : value) : result (list xml) :=
  do attrs <- header_attrs d v;
  do c <- inner_change_field d v "Create" "create";
  do m <- inner_change_field d v "Modify" "modify";
  do x <- inner_change_field d v "Delete" "delete";
  Ok [Elem "osmChange" attrs (c ++ m ++ x) no_text].

(* diff.go: func (a Action) MarshalXML *)
Definition action_marshal (d : typedef) (v : value) (start : string) : result (list xml) :=
  do ty <- fld d v "Type";
  do o <- fld d v "OSM";
  match snd ty with
  | VStr t =>
      do els <- match snd o with
                | VPtr None => Ok []
                | VPtr (Some ov) =>
                    match lookup_type sch "OSM" with
                    | Some od => osm_inner_elements od ov
                    | None => Err EField
                    end
                | _ => Err EShape
                end;
      do old <- inner_change_field d v "Old" "old";
      do new <- inner_change_field d v "New" "new";
      Ok [Elem start [("type", AStr t)] (els ++ old ++ new) no_text]
  | _ => Err EShape
  end.

(* changeset.go: func (csd ChangesetDiscussion) MarshalXML *)
Definition discussion_marshal (d : typedef) (v : value) (start : string) : result (list xml) :=
  do c <- fld d v "Comments";
  match snd c with
  | VList [] => Ok []
  | VList _ =>
      do kids <- mar (f_type (fst c)) (snd c) None (Some "comment");
      Ok [Elem start [] kids no_text]
  | _ => Err EShape
  end.

(* note.go: func (d Date) MarshalXML: e.EncodeElement(d.Format(dateLayout), start) *)
Definition date_marshal (d : typedef) (v : value) (start : string) : result (list xml) :=
  do t <- fld d v "Time";
  match snd t with
  | VTime t => Ok [Elem start [] [] (ADate (t / nanos))]
  | _ => Err EShape
  end.

(* bounds.go (after the fix): func (b Bounds) MarshalXML:
     type bounds Bounds; start.Name.Local = "bounds"; e.EncodeElement(bounds(b), start)
   — the struct code for a method-less copy of the type with a start template *)
Definition bounds_marshal (ty : gotype) (d : typedef) (v : value) : result (list xml) :=
  marshal_struct ty d v None (Some "bounds").

Definition hook_marshal (ty : gotype) (d : typedef) (v : value) (start : string) : result (list xml) :=
  if String.eqb (t_name d) "OSM" then osm_marshal d v
  else if String.eqb (t_name d) "Change" then change_marshal d v
  else if String.eqb (t_name d) "Action" then action_marshal d v start
  else if String.eqb (t_name d) "ChangesetDiscussion" then discussion_marshal d v start
  else if String.eqb (t_name d) "Date" then date_marshal d v start
  else if String.eqb (t_name d) "Bounds" then bounds_marshal ty d v
  else Err EHook.

Definition marshal_step (ty : gotype) (v : value) (fi : finfo) (tmpl : option string) : result (list xml) :=
  if fi_omit fi && is_empty v then Ok [] else
  match rk ty, v with
  | RPtr t, VPtr None => Ok []
  | RPtr t, VPtr (Some v') => mar t v' (fi_clear fi) tmpl
  | RPtr _, _ => Err EShape
  | k, _ =>
      match marshal_hook ty with
      | Some d => hook_marshal ty d v (default_start ty fi tmpl)
      | None =>
          match k, v with
          | RSlice t, VList l => rconcat (fun x => mar t x fi tmpl) l
          | RSlice _, _ => Err EShape
          | RStruct d, _ => marshal_struct ty d v fi tmpl
          | RBad, _ => Err EUnsupported
          | _, _ =>
              do a <- simple_atom k v;
              do name <- start_name ty "" fi tmpl;
              Ok [Elem name [] [] a]
          end
      end
  end.

End MarshalStep.

Fixpoint marshal (n : nat) : gotype -> value -> finfo -> option string -> result (list xml) :=
  match n with
  | O => fun _ _ _ _ => Err EFuel
  | S n' => marshal_step (marshal n')
  end.

(* ================= one level of Decoder.unmarshal ================= *)

Inductive pmatch := PPerfect | PPrefix | PNone.

(* unmarshalPath's test of one field against an element met below the parent path [path] *)
Fixpoint is_prefix (a b : list string) : bool :=
  match a, b with
  | [], _ => true
  | x :: a', y :: b' => String.eqb x y && is_prefix a' b'
  | _, _ => false
  end.

Definition path_match (f : field) (path : list string) (nm : string) : pmatch :=
  if negb (is_elem f) then PNone else
  let ps := x_parents (f_xml f) in
  if negb (is_prefix path ps) then PNone else
  if Nat.eqb (List.length ps) (List.length path) then (if String.eqb (eff_name f) nm then PPerfect else PNone)
  else match nth_error ps (List.length path) with
       | Some p => if String.eqb p nm then PPrefix else PNone
       | None => PNone
       end.

Section UnmarshalStep.
Variable unm : gotype -> value -> xml -> result value.
Variable FZ : nat.   (* fuel for zero values of freshly allocated targets *)

(* route one element met under [path]: Some vs' = consumed *)
Fixpoint route (fs : list field) (vs : list value) (path : list string) (c : xml)
  : result (option (list value) + list string) :=
  match fs, vs with
  | [], [] => Ok (inl None)
  | f :: fs', v :: vs' =>
      match path_match f path (xname c) with
      | PPerfect => do v' <- unm (f_type f) v c; Ok (inl (Some (v' :: vs')))
      | PPrefix => Ok (inr (path ++ [xname c]))
      | PNone =>
          do r <- route fs' vs' path c;
          match r with
          | inl (Some vs'') => Ok (inl (Some (v :: vs'')))
          | inl None => Ok (inl None)
          | inr p => Ok (inr p)
          end
      end
  | _, _ => Err EShape
  end.

(* grandchildren below a parent-path element [p] (one level of a>b) *)
Fixpoint unmarshal_gkids (fs : list field) (vs : list value) (p : list string) (g : list xml)
  : result (list value) :=
  match g with
  | [] => Ok vs
  | gc :: g' =>
      do y <- route fs vs p gc;
      match y with
      | inl (Some vs') => unmarshal_gkids fs vs' p g'
      | inl None => unmarshal_gkids fs vs p g'
      | inr _ => Err EUnsupported
      end
  end.

(* children of a struct element: matched ones are unmarshalled, a parent-path prefix is
   descended into (one level: deeper paths are outside the fragment), others skipped *)
Fixpoint unmarshal_kids (fs : list field) (vs : list value) (path : list string) (deep : bool)
         (l : list xml) : result (list value) :=
  match l with
  | [] => Ok vs
  | c :: r =>
      do x <- route fs vs path c;
      match x with
      | inl (Some vs') => unmarshal_kids fs vs' path deep r
      | inl None => unmarshal_kids fs vs path deep r
      | inr p =>
          if deep then Err EUnsupported else
          do vs' <- unmarshal_gkids fs vs p (xkids c);
          unmarshal_kids fs vs' path deep r
      end
  end.

Definition all_supported (fs : list field) : bool := forallb field_supported fs.

Definition unmarshal_struct (d : typedef) (cur : value) (e : xml) : result value :=
  match cur with
  | VStruct vs =>
      if negb (all_supported (struct_fields d)) then Err EUnsupported else
      if negb (Nat.eqb (List.length (struct_fields d)) (List.length vs)) then Err EShape else
      if negb (String.eqb (xmlname_tag d) "") && negb (String.eqb (xmlname_tag d) (xname e))
      then Err EName else
      do vs1 <- unmarshal_attrs (struct_fields d) vs (xattrs e);
      do vs2 <- unmarshal_kids (struct_fields d) vs1 [] false (xkids e);
      Ok (VStruct vs2)
  | _ => Err EShape
  end.

(* note.go: func (d *Date) UnmarshalXML: DecodeElement(&s), time.Parse(dateLayout, s) *)
Definition date_unmarshal (d : typedef) (cur : value) (e : xml) : result value :=
  match xtext e with
  | ADate s =>
      match cur with
      | VStruct vs => match fset_go (struct_fields d) vs "Time" (VTime (s * nanos)) with
                      | Some vs' => Ok (VStruct vs')
                      | None => Err EField
                      end
      | _ => Err EShape
      end
  | _ => Err EAtom
  end.

Definition set_fld (d : typedef) (v : value) (nm : string) (x : value) : result value :=
  match v with
  | VStruct vs => match fset_go (struct_fields d) vs nm x with
                  | Some vs' => Ok (VStruct vs')
                  | None => Err EField
                  end
  | _ => Err EShape
  end.

Fixpoint first_attr (l : list (string * atom)) (nm : string) : option atom :=
  match l with
  | [] => None
  | (n, a) :: r => if String.eqb n nm then Some a else first_attr r nm
  end.

(* a.OSM = &OSM{<F>: <Fs>{x}} *)
Definition osm_single (go_field : string) (x : value) : result value :=
  match lookup_type sch "OSM" with
  | Some od =>
      do o <- set_fld od (zero sch FZ (TNamed "OSM")) go_field (VList [VPtr (Some x)]);
      Ok (VPtr (Some o))
  | None => Err EField
  end.

(* diff.go: func (a *Action) UnmarshalXML: the token loop sees every start element below the
   action that is not inside a decoded old/new/node/way/relation element *)
Fixpoint action_walk (d : typedef) (a : value) (c : xml) {struct c} : result value :=
  match c with
  | Elem nm _ kids _ =>
      if String.eqb nm "old" then
        do o <- unm (TNamed "OSM") (zero sch FZ (TNamed "OSM")) c; set_fld d a "Old" (VPtr (Some o))
      else if String.eqb nm "new" then
        do o <- unm (TNamed "OSM") (zero sch FZ (TNamed "OSM")) c; set_fld d a "New" (VPtr (Some o))
      else if String.eqb nm "node" then
        do x <- unm (TNamed "Node") (zero sch FZ (TNamed "Node")) c;
        do o <- osm_single "Nodes" x; set_fld d a "OSM" o
      else if String.eqb nm "way" then
        do x <- unm (TNamed "Way") (zero sch FZ (TNamed "Way")) c;
        do o <- osm_single "Ways" x; set_fld d a "OSM" o
      else if String.eqb nm "relation" then
        do x <- unm (TNamed "Relation") (zero sch FZ (TNamed "Relation")) c;
        do o <- osm_single "Relations" x; set_fld d a "OSM" o
      else
        (fix walks (a : value) (l : list xml) : result value :=
           match l with
           | [] => Ok a
           | k :: r => do a' <- action_walk d a k; walks a' r
           end) a kids
  end.

Fixpoint action_walks (d : typedef) (a : value) (l : list xml) : result value :=
  match l with
  | [] => Ok a
  | k :: r => do a' <- action_walk d a k; action_walks d a' r
  end.

Definition action_unmarshal (d : typedef) (cur : value) (e : xml) : result value :=
  do a0 <- match first_attr (xattrs e) "type" with
           | Some (AStr t) => set_fld d cur "Type" (VStr t)
           | Some _ => Err EAtom
           | None => Ok cur
           end;
  action_walks d a0 (xkids e).

Definition hook_unmarshal (d : typedef) (cur : value) (e : xml) : result value :=
  if String.eqb (t_name d) "Date" then date_unmarshal d cur e
  else if String.eqb (t_name d) "Action" then action_unmarshal d cur e
  else Err EHook.

Definition unmarshal_step (ty : gotype) (cur : value) (e : xml) : result value :=
  match rk ty, cur with
  | RPtr t, VPtr None => do v <- unm t (zero sch FZ t) e; Ok (VPtr (Some v))
  | RPtr t, VPtr (Some c) => do v <- unm t c e; Ok (VPtr (Some v))
  | RPtr _, _ => Err EShape
  | k, _ =>
      match unmarshal_hook ty with
      | Some d => hook_unmarshal d cur e
      | None =>
          match k, cur with
          | RSlice t, VList l => do v <- unm t (zero sch FZ t) e; Ok (VList (l ++ [v]))
          | RSlice _, _ => Err EShape
          | RStruct d, _ => unmarshal_struct d cur e
          | RBad, _ => Err EUnsupported
          | _, _ => atom_value k (xtext e)
          end
      end
  end.

End UnmarshalStep.

Fixpoint unmarshal (fz n : nat) : gotype -> value -> xml -> result value :=
  match n with
  | O => fun _ _ _ => Err EFuel
  | S n' => unmarshal_step (unmarshal fz n') fz
  end.

End Codec.

(* ---------- entry points: xml.Marshal(v) / xml.Unmarshal(data, &v) for v : T ---------- *)

Definition FUEL : nat := 16.

Definition encode (sch : schema) (T : string) (v : value) : result (list xml) :=
  marshal sch FUEL (TNamed T) v None None.

Definition decode (sch : schema) (T : string) (e : xml) : result value :=
  unmarshal sch FUEL FUEL (TNamed T) (zero sch FUEL (TNamed T)) e.

(* xml.Marshal of a value gives exactly one document element, or nothing to decode *)
Definition encode1 (sch : schema) (T : string) (v : value) : result xml :=
  do l <- encode sch T v;
  match l with [e] => Ok e | _ => Err EShape end.
