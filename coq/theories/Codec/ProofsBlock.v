(* Codec/ProofsBlock.v — the OSM struct written by the hand-written marshalInnerXML /
   OSM.MarshalXML (header attributes from literals, children by e.Encode of each list) is what
   the generic struct encoder would write under a start template, hence the generic struct
   decoder reads it back: the "block" lemma used for <osm>, for the create/modify/delete blocks
   of osmChange and for the old/new blocks of diff actions. *)
From Coq Require Import List String Bool ZArith Lia.
From Verif Require Import Codec.Schema Codec.Value Codec.Xml Codec.Wf Codec.ProofsAttr Codec.ProofsKids
     Codec.ProofsRT Codec.ProofsSteps Codec.ProofsStruct Codec.ProofsMain Codec.ProofsForced.
Import ListNotations.
Open Scope string_scope.
Open Scope list_scope.

Section Block.
Variable sch : schema.

Definition hdr_ok (f : field) (go nm : string) : bool :=
  String.eqb (f_name f) go && is_attr f && field_supported f && x_omitempty (f_xml f)
  && String.eqb (eff_name sch f) nm
  && match rk sch (f_type f) with RString => true | _ => false end.

Definition el_ok (k : nat) (f : field) (go : string) : bool :=
  String.eqb (f_name f) go && is_elem f
  && match x_parents (f_xml f) with [] => true | _ => false end
  && forced sch k (f_type f) (eff_name sch f).

Lemma hdr_ok_inv : forall f go nm, hdr_ok f go nm = true ->
  f_name f = go /\ is_attr f = true /\ field_supported f = true /\ x_omitempty (f_xml f) = true
  /\ eff_name sch f = nm /\ rk sch (f_type f) = RString.
Proof.
  intros f go nm H. unfold hdr_ok in H. repeat (apply andb_true_iff in H; destruct H as [H ?]).
  apply String.eqb_eq in H. match goal with E : String.eqb (eff_name sch f) nm = true |- _ => apply String.eqb_eq in E end.
  destruct (rk sch (f_type f)); try discriminate. repeat split; assumption.
Qed.

Lemma el_ok_inv : forall k f go, el_ok k f go = true ->
  f_name f = go /\ is_elem f = true /\ x_parents (f_xml f) = [] /\ forced sch k (f_type f) (eff_name sch f) = true.
Proof.
  intros k f go H. unfold el_ok in H. repeat (apply andb_true_iff in H; destruct H as [H ?]).
  apply String.eqb_eq in H. destruct (x_parents (f_xml f)); try discriminate. repeat split; assumption.
Qed.

Definition opt_attr (nm : string) (s : list Z) : list (string * atom) :=
  match s with [] => [] | _ => [(nm, AStr s)] end.

Lemma ma_hdr : forall f go nm fs s vs,
  hdr_ok f go nm = true ->
  marshal_attrs sch (f :: fs) (VStr s :: vs) = do rest <- marshal_attrs sch fs vs; Ok (opt_attr nm s ++ rest).
Proof.
  intros f go nm fs s vs H. destruct (hdr_ok_inv _ _ _ H) as (Hn & Ha & Hs & Ho & He & Hk).
  cbn [marshal_attrs]. rewrite Hs. cbn [negb]. destruct (marshal_attrs sch fs vs) as [rest|e]; cbn [rbind]; [|reflexivity].
  rewrite Ha, Ho. cbn [andb is_empty]. destruct s as [|c s]; [reflexivity|].
  unfold AFUEL. cbn [attr_atom]. rewrite Hk. cbn [simple_atom rbind]. rewrite He. reflexivity.
Qed.

Lemma ma_nonattr : forall f fs v vs,
  is_attr f = false -> field_supported f = true ->
  marshal_attrs sch (f :: fs) (v :: vs) = marshal_attrs sch fs vs.
Proof.
  intros f fs v vs Ha Hs. cbn [marshal_attrs]. rewrite Hs, Ha. cbn [negb].
  destruct (marshal_attrs sch fs vs); reflexivity.
Qed.

Lemma mc_nonelem : forall mar f fs v vs,
  is_elem f = false -> marshal_children sch mar (f :: fs) (v :: vs) = marshal_children sch mar fs vs.
Proof. intros mar f fs v vs He. cbn [marshal_children]. rewrite He. reflexivity. Qed.

Lemma mc_elem : forall mar f fs v vs,
  is_elem f = true -> x_parents (f_xml f) = [] ->
  marshal_children sch mar (f :: fs) (v :: vs) =
    do es <- mar (f_type f) v (Some (eff_name sch f, x_omitempty (f_xml f))) None;
    do rest <- marshal_children sch mar fs vs; Ok (es ++ rest).
Proof.
  intros mar f fs v vs He Hp. cbn [marshal_children]. rewrite He, Hp.
  destruct (mar (f_type f) v (Some (eff_name sch f, x_omitempty (f_xml f))) None); cbn [rbind]; [|reflexivity].
  destruct (marshal_children sch mar fs vs); reflexivity.
Qed.

Lemma str_attr_opt : forall d vs go nm f s,
  fget_go (struct_fields d) vs go = Some (f, VStr s) ->
  str_attr d (VStruct vs) go nm = Ok (opt_attr nm s).
Proof. intros d vs go nm f s H. unfold str_attr, fld. rewrite H. cbn [rbind snd]. destruct s; reflexivity. Qed.

Lemma wf_string : forall n ty v, wf sch n ty v = true -> rk sch ty = RString -> exists s, v = VStr s.
Proof.
  intros n ty v H Hk. destruct n; [discriminate|]. cbn [wf] in H. rewrite Hk in H.
  destruct v; try discriminate. eexists; reflexivity.
Qed.

(* ---------- the OSM struct ---------- *)

Definition osm_static (k : nat) (d : typedef) : bool :=
  String.eqb (xmlname_tag d) "" && field_conds sch (tyok sch k) (struct_fields d)
  && match struct_fields d with
     | [f1; f2; f3; f4; f5; f6; f7; f8; f9; f10; f11; f12] =>
         hdr_ok f1 "Version" "version" && hdr_ok f2 "Generator" "generator"
         && hdr_ok f3 "Copyright" "copyright" && hdr_ok f4 "Attribution" "attribution"
         && hdr_ok f5 "License" "license"
         && el_ok k f6 "Bounds" && el_ok k f7 "Nodes" && el_ok k f8 "Ways" && el_ok k f9 "Relations"
         && el_ok k f10 "Changesets" && el_ok k f11 "Notes" && el_ok k f12 "Users"
     | _ => false
     end.

Definition keep (P : Prop) : Prop := P.

Lemma if_false_hyp : forall (c a b : bool), c = false -> (if c then a else b) = true -> b = true.
Proof. intros c a b Hc H. subst c. exact H. Qed.

Ltac split_and H := repeat (apply andb_true_iff in H; destruct H as [H ?]).

Lemma osm_block_ext : forall n' d vs,
  (n' <= FUEL)%nat ->
  osm_static n' d = true ->
  fields_all (wf sch n') (zero_like sch n') (struct_fields d) vs = true ->
  exists al kids,
    header_attrs d (VStruct vs) = Ok al
    /\ (forall m0, (n' <= m0)%nat -> osm_inner (marshal sch m0) d (VStruct vs) = Ok kids)
    /\ (header_empty d (VStruct vs) = true -> al = [])
    /\ (forall m0 bs N t, (n' <= m0)%nat ->
          fields_all (zero_like sch n') (zero_like sch n') (struct_fields d) bs = true ->
          unmarshal_struct sch (unmarshal sch FUEL m0) d (VStruct bs) (Elem N al kids t) = Ok (VStruct vs))
    /\ marshal_attrs sch (struct_fields d) vs = Ok al
    /\ (forall m0, (n' <= m0)%nat -> marshal_children sch (marshal sch m0) (struct_fields d) vs = Ok kids).
Proof.
  intros n' d vs Hn Hst Hwf. unfold osm_static in Hst.
  apply andb_true_iff in Hst. destruct Hst as [Hst Hshape]. apply andb_true_iff in Hst. destruct Hst as [Hxn Hfc].
  destruct (struct_rt_parts sch n' (RT_all sch n' Hn) d vs Hfc Hwf) as [al [ess [Hal [Hkids Hdec]]]].
  destruct (struct_fields d) as [|f1 [|f2 [|f3 [|f4 [|f5 [|f6 [|f7 [|f8 [|f9 [|f10 [|f11 [|f12 [|f13 fs]]]]]]]]]]]]] eqn:Hfs;
    try discriminate.
  destruct vs as [|v1 [|v2 [|v3 [|v4 [|v5 [|v6 [|v7 [|v8 [|v9 [|v10 [|v11 [|v12 [|v13 vs]]]]]]]]]]]]];
    try (cbn [fields_all] in Hwf; repeat (apply andb_true_iff in Hwf; destruct Hwf as [? Hwf]); discriminate).
  do 11 (apply andb_true_iff in Hshape; destruct Hshape as [Hshape ?]).
  repeat match goal with H : hdr_ok ?f ?a ?b = true |- _ =>
    let Hh := fresh "Hh" in assert (Hh : keep (hdr_ok f a b = true)) by exact H; apply hdr_ok_inv in H;
    let a := fresh "Hn" in let b := fresh "Ha" in let c := fresh "Hs" in let e := fresh "Ho" in
    let g := fresh "He" in let h := fresh "Hk" in destruct H as (a & b & c & e & g & h) end.
  repeat match goal with H : el_ok _ _ _ = true |- _ =>
    apply el_ok_inv in H;
    let a := fresh "Hn" in let b := fresh "Hel" in let c := fresh "Hp" in let e := fresh "Hf" in
    destruct H as (a & b & c & e) end.
  cbn [fields_all] in Hwf. repeat (apply andb_true_iff in Hwf; destruct Hwf as [? Hwf]).
  (* attr fields are not skipped, element fields neither *)
  repeat match goal with H : is_attr ?f = true |- _ =>
    match goal with
    | K : x_skip (f_xml f) = false |- _ => fail 1
    | _ => pose proof (attr_not_skip f H)
    end end.
  repeat match goal with H : is_elem ?f = true |- _ =>
    match goal with
    | K : is_attr f = false |- _ => fail 1
    | _ => destruct (elem_not_attr f H)
    end end.
  repeat match goal with K : x_skip (f_xml ?f) = false, H : (if x_skip (f_xml ?f) then _ else _) = true |- _ => apply (if_false_hyp _ _ _ K) in H end.
  (* header values are strings *)
  repeat match goal with Hk : rk sch (f_type ?f) = RString, W : wf sch n' (f_type ?f) ?v = true |- _ =>
    let s := fresh "str" in destruct (wf_string _ _ _ W Hk) as [s ->]; clear W end.
  unfold keep in *.
  (* A: the literal header attributes are the struct's attribute fields *)
  match goal with Hd : context[unmarshal_struct _ _ d _ (Elem _ al _ _)] |- _ =>
    match type of Hd with context[VStruct [VStr ?a; VStr ?b; VStr ?c; VStr ?e; VStr ?g; _; _; _; _; _; _; _]] =>
      rename a into s; rename b into s0; rename c into s1; rename e into s2; rename g into s3 end end.
  assert (HA : marshal_attrs sch [f1; f2; f3; f4; f5; f6; f7; f8; f9; f10; f11; f12]
                 [VStr s; VStr s0; VStr s1; VStr s2; VStr s3; v6; v7; v8; v9; v10; v11; v12]
               = Ok (opt_attr "version" s ++ opt_attr "generator" s0 ++ opt_attr "copyright" s1
                     ++ opt_attr "attribution" s2 ++ opt_attr "license" s3 ++ [])).
  { rewrite (ma_hdr f1 "Version" "version"), (ma_hdr f2 "Generator" "generator"), (ma_hdr f3 "Copyright" "copyright"),
            (ma_hdr f4 "Attribution" "attribution"), (ma_hdr f5 "License" "license") by assumption.
    assert (Hsup : all_supported [f1; f2; f3; f4; f5; f6; f7; f8; f9; f10; f11; f12] = true).
    { unfold field_conds in Hfc. do 4 (apply andb_true_iff in Hfc; destruct Hfc as [Hfc ?]). exact Hfc. }
    cbn [all_supported forallb] in Hsup. repeat (apply andb_true_iff in Hsup; destruct Hsup as [? Hsup]).
    rewrite !ma_nonattr by assumption. reflexivity. }
  rewrite HA in Hal. inversion Hal; subst al. clear Hal.
  exists (opt_attr "version" s ++ opt_attr "generator" s0 ++ opt_attr "copyright" s1
          ++ opt_attr "attribution" s2 ++ opt_attr "license" s3 ++ []), (List.concat ess).
  split; [|split; [|split; [|split; [|split]]]].
  - unfold header_attrs.
    rewrite (str_attr_opt d _ "Version" "version" f1 s), (str_attr_opt d _ "Generator" "generator" f2 s0),
            (str_attr_opt d _ "Copyright" "copyright" f3 s1), (str_attr_opt d _ "Attribution" "attribution" f4 s2),
            (str_attr_opt d _ "License" "license" f5 s3);
      try (rewrite Hfs; cbn [fget_go]; rewrite ?Hn0, ?Hn1, ?Hn2, ?Hn3, ?Hn4; reflexivity).
    cbn [rbind]. rewrite app_nil_r. reflexivity.
  - intros m0 Hm0. rewrite <- (Hkids m0 Hm0).
    rewrite !mc_nonelem by (apply Bool.not_true_is_false; intros E; destruct (elem_not_attr _ E); congruence).
    rewrite !mc_elem by assumption. cbn [marshal_children].
    unfold osm_inner, encode_field, fld. rewrite Hfs. cbn [fget_go].
    rewrite Hn0, Hn1, Hn2, Hn3, Hn4, Hn5, Hn6, Hn7, Hn8, Hn9, Hn10, Hn11.
    cbn [String.eqb Ascii.eqb Bool.eqb andb rbind fst snd].
    repeat match goal with W : wf sch n' (f_type ?f) ?v = true, F : forced sch n' (f_type ?f) _ = true |- _ =>
      rewrite (forced_eq sch n' (f_type f) v _ W F m0 None Hm0);
      rewrite (forced_eq sch n' (f_type f) v _ W F m0 (Some (eff_name sch f, x_omitempty (f_xml f))) Hm0);
      clear W end.
    repeat match goal with |- context[marshal sch m0 ?t ?v None (Some ?nm)] =>
      destruct (marshal sch m0 t v None (Some nm)); cbn [rbind]; [|reflexivity] end.
    rewrite app_nil_r. reflexivity.
  - intros Hhe. unfold header_empty, str_empty in Hhe. rewrite Hfs in Hhe. cbn [fget_go] in Hhe.
    rewrite Hn0, Hn1, Hn2, Hn3, Hn4 in Hhe. cbn [String.eqb Ascii.eqb Bool.eqb andb] in Hhe.
    destruct s; [|discriminate]. destruct s0; [|discriminate]. destruct s1; [|discriminate].
    destruct s2; [|discriminate]. destruct s3; [|discriminate]. reflexivity.
  - intros m0 bs N t Hm0 Hz. apply Hdec; [exact Hm0 | | exact Hz]. rewrite Hxn. reflexivity.
  - exact HA.
  - intros m0 Hm0. exact (Hkids m0 Hm0).
Qed.


Lemma osm_block : forall n' d vs,
  (n' <= FUEL)%nat ->
  osm_static n' d = true ->
  fields_all (wf sch n') (zero_like sch n') (struct_fields d) vs = true ->
  exists al kids,
    header_attrs d (VStruct vs) = Ok al
    /\ (forall m0, (n' <= m0)%nat -> osm_inner (marshal sch m0) d (VStruct vs) = Ok kids)
    /\ (header_empty d (VStruct vs) = true -> al = [])
    /\ (forall m0 bs N t, (n' <= m0)%nat ->
          fields_all (zero_like sch n') (zero_like sch n') (struct_fields d) bs = true ->
          unmarshal_struct sch (unmarshal sch FUEL m0) d (VStruct bs) (Elem N al kids t) = Ok (VStruct vs)).
Proof.
  intros n' d vs Hn Hst Hwf. destruct (osm_block_ext n' d vs Hn Hst Hwf) as [al [kids [H1 [H2 [H3 [H4 _]]]]]].
  exists al, kids. repeat split; assumption.
Qed.

(* any interleaving of the objects of a block: the children may come in any order that keeps the
   order within each kind (node/way/node, objects before bounds, ...), and elements that are none
   of the block's children may be added anywhere *)
Lemma osm_block_any : forall n' d vs,
  (n' <= FUEL)%nat ->
  osm_static n' d = true ->
  fields_all (wf sch n') (zero_like sch n') (struct_fields d) vs = true ->
  exists al kids,
    header_attrs d (VStruct vs) = Ok al
    /\ (forall m0, (n' <= m0)%nat -> osm_inner (marshal sch m0) d (VStruct vs) = Ok kids)
    /\ (forall m0 bs N t kids', (n' <= m0)%nat ->
          fields_all (zero_like sch n') (zero_like sch n') (struct_fields d) bs = true ->
          same_per_field sch (struct_fields d) kids kids' ->
          unmarshal_struct sch (unmarshal sch FUEL m0) d (VStruct bs) (Elem N al kids' t) = Ok (VStruct vs)).
Proof.
  intros n' d vs Hn Hst Hwf. destruct (osm_block_ext n' d vs Hn Hst Hwf) as [al [kids [H1 [H2 [_ [_ [HA HK]]]]]]].
  pose proof Hst as Hst0. unfold osm_static in Hst0.
  apply andb_true_iff in Hst0. destruct Hst0 as [Hst0 _]. apply andb_true_iff in Hst0. destruct Hst0 as [Hxn Hfc].
  destruct (struct_rt_parts_any sch n' (RT_all sch n' Hn) d vs Hfc Hwf) as [al2 [ess [HA2 [HK2 Hdec]]]].
  rewrite HA in HA2. inversion HA2; subst al2.
  pose proof (HK n' (le_n _)) as E1. pose proof (HK2 n' (le_n _)) as E2. rewrite E1 in E2. inversion E2 as [Ek].
  exists al, kids. split; [exact H1 | split; [exact H2|]].
  intros m0 bs N t kids' Hm0 Hz Hsame. apply Hdec; [exact Hm0 | rewrite Hxn; reflexivity | exact Hz|].
  rewrite <- Ek. exact Hsame.
Qed.

End Block.
