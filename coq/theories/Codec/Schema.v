(* Codec/Schema.v — datatypes of the struct-tag schema regenerated from /repo by
   translator/cmd/schema into gen/GenSchema.v (tie T), and lookups over it.
   Executable definitions only.

   A schema lists every named type of the root package (struct or not) and every
   anonymous struct nested in one (named "Outer.Field", t_anon = true).  For a struct:
   the XMLName field (if any) apart, then the other fields in declaration order with their
   Go type expression, raw xml tag pieces and raw json tag pieces, exactly as written in
   the source.  Effective names (Go's defaulting rules) are computed here, not by the
   translator. *)
From Coq Require Import List String Bool ZArith.
Import ListNotations.
Open Scope string_scope.

Inductive gotype :=
| TInt | TFloat | TBool | TString
| TTime                              (* time.Time *)
| TXmlName                           (* encoding/xml.Name *)
| TNamed (n : string)                (* named type of package osm, or generated name of an anonymous struct *)
| TExt (n : string) (u : gotype)     (* named type of another package and its underlying type *)
| TPtr (t : gotype)
| TSlice (t : gotype)
| TMap | TIface
| TOther (d : string).

Record xmltag := {
  x_present : bool;            (* the field has an xml:"..." key *)
  x_name : string;             (* last component of the name part ("" when absent) *)
  x_parents : list string;     (* a>b>c : ["a";"b"] *)
  x_attr : bool;
  x_omitempty : bool;
  x_mode : string;             (* "" (element) | "chardata" | "cdata" | "innerxml" | "comment" | "any" *)
  x_skip : bool                (* xml:"-" *)
}.

Record jsontag := {
  j_present : bool;
  j_name : string;
  j_omitempty : bool;
  j_string : bool;
  j_skip : bool
}.

Record field := {
  f_name : string;             (* Go field name *)
  f_type : gotype;
  f_embedded : bool;
  f_xml : xmltag;
  f_json : jsontag
}.

Inductive under :=
| UStruct (xmlname : option field) (fields : list field)
| UType (t : gotype).

Record typedef := {
  t_name : string;
  t_anon : bool;               (* anonymous struct type: reflect's Type.Name() is "" *)
  t_under : under;
  t_methods : list string      (* method names; pointer-receiver methods are prefixed with "*" *)
}.

Definition schema := list typedef.

Fixpoint lookup_type (s : schema) (n : string) : option typedef :=
  match s with
  | [] => None
  | d :: r => if String.eqb (t_name d) n then Some d else lookup_type r n
  end.

Definition has_method (d : typedef) (m : string) : bool :=
  existsb (fun x => String.eqb x m || String.eqb x ("*" ++ m)) (t_methods d).

Definition has_value_method (d : typedef) (m : string) : bool :=
  existsb (String.eqb m) (t_methods d).

Definition struct_fields (d : typedef) : list field :=
  match t_under d with UStruct _ fs => fs | UType _ => [] end.

Definition struct_xmlname (d : typedef) : option field :=
  match t_under d with UStruct x _ => x | UType _ => None end.

(* the name written in the tag of the XMLName field ("" if none) *)
Definition xmlname_tag (d : typedef) : string :=
  match struct_xmlname d with Some f => x_name (f_xml f) | None => "" end.

Definition no_xmltag : xmltag :=
  {| x_present := false; x_name := ""; x_parents := []; x_attr := false; x_omitempty := false;
     x_mode := ""; x_skip := false |}.
Definition no_jsontag : jsontag :=
  {| j_present := false; j_name := ""; j_omitempty := false; j_string := false; j_skip := false |}.
