(* Codec/SpecNames.v — the OSM XML vocabulary, written down independently of /repo
   (from the OSM wiki pages "OSM XML", "OsmChange", "Overpass API/Augmented Diffs", the API v0.6
   pages for changesets, notes and user details, and the annotation attributes this library
   adds: committed, update, nd/member annotations, orientation).

   A specification tree names, for an element, the attributes it may carry and the child
   elements it may contain.  Executable definitions only. *)
From Coq Require Import List String Bool.
Import ListNotations.
Open Scope string_scope.

Inductive spec := SpecEl (name : string) (attrs : list string) (kids : list spec).

Definition sname (s : spec) := match s with SpecEl n _ _ => n end.
Definition sattrs (s : spec) := match s with SpecEl _ a _ => a end.
Definition skids (s : spec) := match s with SpecEl _ _ k => k end.

Definition s_tag := SpecEl "tag" ["k"; "v"] [].
Definition s_bounds := SpecEl "bounds" ["minlat"; "maxlat"; "minlon"; "maxlon"] [].
Definition s_nd := SpecEl "nd" ["ref"; "version"; "changeset"; "lat"; "lon"] [].
Definition s_update :=
  SpecEl "update" ["index"; "version"; "timestamp"; "changeset"; "lat"; "lon"; "reverse"] [].

Definition meta_attrs := ["id"; "user"; "uid"; "visible"; "version"; "changeset"; "timestamp"; "committed"].

Definition s_node :=
  SpecEl "node" ["id"; "lat"; "lon"; "user"; "uid"; "visible"; "version"; "changeset"; "timestamp"; "committed"]
         [s_tag].
Definition s_way := SpecEl "way" meta_attrs [s_nd; s_tag; s_update; s_bounds].
Definition s_member :=
  SpecEl "member" ["type"; "ref"; "role"; "version"; "changeset"; "lat"; "lon"; "orientation"] [s_nd].
Definition s_relation := SpecEl "relation" meta_attrs [s_tag; s_member; s_update; s_bounds].

Definition s_changeset :=
  SpecEl "changeset"
         ["id"; "user"; "uid"; "created_at"; "closed_at"; "open"; "num_changes";
          "min_lat"; "max_lat"; "min_lon"; "max_lon"; "comments_count"]
         [s_tag;
          SpecEl "discussion" []
                 [SpecEl "comment" ["user"; "uid"; "date"] [SpecEl "text" [] []]]].

Definition s_note :=
  SpecEl "note" ["lat"; "lon"]
         [SpecEl "id" [] []; SpecEl "url" [] []; SpecEl "comment_url" [] []; SpecEl "close_url" [] [];
          SpecEl "reopen_url" [] []; SpecEl "date_created" [] []; SpecEl "date_closed" [] [];
          SpecEl "status" [] [];
          SpecEl "comments" []
                 [SpecEl "comment" []
                         [SpecEl "date" [] []; SpecEl "uid" [] []; SpecEl "user" [] [];
                          SpecEl "user_url" [] []; SpecEl "action" [] []; SpecEl "text" [] [];
                          SpecEl "html" [] []]]].

Definition s_user :=
  SpecEl "user" ["id"; "display_name"; "account_created"]
         [SpecEl "description" [] [];
          SpecEl "img" ["href"] [];
          SpecEl "changesets" ["count"] [];
          SpecEl "traces" ["count"] [];
          SpecEl "home" ["lat"; "lon"; "zoom"] [];
          SpecEl "languages" [] [SpecEl "lang" [] []];
          SpecEl "blocks" [] [SpecEl "received" ["count"; "active"] []];
          SpecEl "messages" [] [SpecEl "received" ["count"; "unread"] []; SpecEl "sent" ["count"] []]].

(* the objects an <osm> document or an osmChange / diff block may hold *)
Definition object_specs := [s_bounds; s_node; s_way; s_relation; s_changeset; s_note; s_user].

Definition header_attr_names := ["version"; "generator"; "copyright"; "attribution"; "license"].

Definition s_osm := SpecEl "osm" header_attr_names object_specs.

Definition s_block (name : string) := SpecEl name [] object_specs.

Definition s_change :=
  SpecEl "osmChange" header_attr_names [s_block "create"; s_block "modify"; s_block "delete"].

Definition s_action :=
  SpecEl "action" ["type"] [s_node; s_way; s_relation; s_block "old"; s_block "new"].

Definition s_diff := SpecEl "osm" [] [s_action; s_changeset].

(* specification tree of the document written for a value of top-level Go type T *)
Definition spec_of (T : string) : option spec :=
  if String.eqb T "Node" then Some s_node
  else if String.eqb T "Way" then Some s_way
  else if String.eqb T "Relation" then Some s_relation
  else if String.eqb T "Changeset" then Some s_changeset
  else if String.eqb T "Note" then Some s_note
  else if String.eqb T "User" then Some s_user
  else if String.eqb T "Bounds" then Some s_bounds
  else if String.eqb T "OSM" then Some s_osm
  else if String.eqb T "Change" then Some s_change
  else if String.eqb T "Diff" then Some s_diff
  else None.

(* the element names on which the streaming scanner yields an object, with the Go type *)
Definition object_kinds : list (string * string) :=
  [("bounds", "Bounds"); ("node", "Node"); ("way", "Way"); ("relation", "Relation");
   ("changeset", "Changeset"); ("note", "Note"); ("user", "User")].

Definition top_types : list string :=
  ["Node"; "Way"; "Relation"; "Changeset"; "Note"; "User"; "Bounds"; "OSM"; "Change"; "Diff"].

Fixpoint find_spec (l : list spec) (n : string) : option spec :=
  match l with
  | [] => None
  | s :: r => if String.eqb (sname s) n then Some s else find_spec r n
  end.
