(* Codec/ProofsStruct.v — the struct case of the generic round trip: given the round trip of the
   field types one level down (RT n'), a struct value written by marshal_struct is read back by
   unmarshal_struct from any zero-like base. *)
From Coq Require Import List String Bool ZArith Lia.
From Verif Require Import Codec.Schema Codec.Value Codec.Xml Codec.Wf Codec.ProofsAttr Codec.ProofsKids
     Codec.ProofsRT.
Import ListNotations.
Open Scope string_scope.
Open Scope list_scope.

Section Struct.
Variable sch : schema.
Variable n' : nat.
Hypothesis IH : RT sch n'.

Lemma elem_not_attr : forall f, is_elem f = true -> is_attr f = false /\ x_skip (f_xml f) = false.
Proof.
  intros f H. unfold is_elem, is_attr in *. destruct (x_attr (f_xml f)), (x_skip (f_xml f)); cbn in *; try discriminate; auto.
Qed.

Lemma attr_not_skip : forall f, is_attr f = true -> x_skip (f_xml f) = false.
Proof. intros f H. unfold is_attr in H. destruct (x_skip (f_xml f)); [rewrite andb_false_r in H; discriminate | reflexivity]. Qed.

Lemma field_class : forall f,
  field_supported f = true -> is_attr f = false -> is_elem f = false -> x_skip (f_xml f) = true.
Proof.
  intros f Hs Ha He. unfold field_supported, is_attr, is_elem in *.
  destruct (x_skip (f_xml f)); [reflexivity|]. cbn [orb negb andb] in *. rewrite andb_true_r in Ha.
  rewrite Ha in He. cbn in He. apply andb_true_iff in Hs. destruct Hs as [Hm _]. rewrite Hm in He. discriminate.
Qed.

Lemma wf_not_nil_slice : forall n ty v,
  wf sch n ty v = true ->
  (match rk sch ty with RSlice _ => true | _ => false end) = true -> is_nil_ptr v = false.
Proof.
  intros n ty v Hwf Hk. destruct n; [discriminate|]. cbn [wf] in Hwf.
  destruct (rk sch ty); try discriminate. destruct v; try discriminate. reflexivity.
Qed.

Lemma absorb_kids_plain : forall m0 f es b,
  x_parents (f_xml f) = [] -> is_elem f = true ->
  Forall (fun e => xname e = eff_name sch f) es ->
  absorb_kids sch (unmarshal sch FUEL m0) f b es = absorb sch m0 (f_type f) b es.
Proof.
  intros m0 f es. induction es as [|c r IHr]; intros b Hp He Hn; [reflexivity|].
  inversion Hn as [|c' r' Hc Hr]; subst. cbn [absorb_kids absorb].
  unfold key_hit, elem_key, hit_action. rewrite Hp, He, Hc, String.eqb_refl. cbn [andb].
  destruct (unmarshal sch FUEL m0 (f_type f) b c); cbn [rbind]; [apply IHr; assumption | reflexivity].
Qed.

Lemma absorb_inner_own : forall m0 f p es b,
  x_parents (f_xml f) = [p] -> is_elem f = true ->
  Forall (fun e => xname e = eff_name sch f) es ->
  absorb_inner sch (unmarshal sch FUEL m0) f b p es = absorb sch m0 (f_type f) b es.
Proof.
  intros m0 f p es. induction es as [|c r IHr]; intros b Hp He Hn; [reflexivity|].
  inversion Hn as [|c' r' Hc Hr]; subst. cbn [absorb_inner absorb].
  unfold inner_hit. rewrite Hp, He, Hc, !String.eqb_refl. cbn [andb].
  destruct (unmarshal sch FUEL m0 (f_type f) b c); cbn [rbind]; [apply IHr; assumption | reflexivity].
Qed.

(* ---------- marshal side and per-field read-back of the children ---------- *)

Lemma children_rt : forall fs vs,
  forallb (field_cond sch (tyok sch n')) fs = true ->
  parents_ok fs = true ->
  fields_all (wf sch n') (zero_like sch n') fs vs = true ->
  exists ess,
    (forall m0, (n' <= m0)%nat -> marshal_children sch (marshal sch m0) fs vs = Ok (List.concat ess))
    /\ Forall3 (fun f v es =>
                  own_names sch f es /\
                  (is_elem f = true -> forall m0 b, (n' <= m0)%nat -> zero_like sch n' (f_type f) b = true ->
                                                   absorb_kids sch (unmarshal sch FUEL m0) f b es = Ok v))
               fs vs ess.
Proof.
  induction fs as [|f fs IHf]; intros vs Hc Hpo Hwf; destruct vs as [|v vs]; try discriminate.
  - exists []. split; [reflexivity | constructor].
  - cbn [forallb] in Hc. apply andb_true_iff in Hc. destruct Hc as [Hcf Hc].
    cbn [parents_ok forallb] in Hpo. apply andb_true_iff in Hpo. destruct Hpo as [Hpf Hpo].
    cbn [fields_all] in Hwf. apply andb_true_iff in Hwf. destruct Hwf as [Hwf1 Hwf].
    destruct (IHf vs Hc Hpo Hwf) as [ess [Hm Hf3]].
    destruct (is_elem f) eqn:He.
    + destruct (elem_not_attr _ He) as [Ha Hsk]. unfold field_cond in Hcf. rewrite Hsk, Ha in Hcf. rewrite Hsk in Hwf1.
      apply andb_true_iff in Hcf. destruct Hcf as [Hcf Hty]. apply andb_true_iff in Hcf. destruct Hcf as [Hnm Hpar].
      apply negb_true_iff in Hnm. apply String.eqb_neq in Hnm.
      destruct (IH (f_type f) v (Some (eff_name sch f, x_omitempty (f_xml f))) None false Hwf1 Hty Hnm)
        as [es0 [Hmar [Hnames [Habs _]]]].
      cbn [given_name fi_name] in *.
      cbn beta in Hpf. cbn [negb orb] in Hpf.
      destruct (x_parents (f_xml f)) as [|p [|p' ps]] eqn:Hps; try discriminate.
      * exists (es0 :: ess). split; [|constructor; [|exact Hf3]].
        -- intros m0 Hm0. cbn [marshal_children List.concat]. rewrite He, (Hmar m0 Hm0). cbn [rbind].
           rewrite (Hm m0 Hm0). cbn [rbind]. rewrite Hps. reflexivity.
        -- split.
           ++ unfold own_names, elem_key. rewrite He, Hps. exact Hnames.
           ++ intros _ m0 b Hm0 Hz. rewrite absorb_kids_plain by assumption. apply Habs; assumption.
      * (* one level of a>b: the field is a slice, the wrapper is always written *)
        pose proof (wf_not_nil_slice _ _ _ Hwf1 Hpar) as Hnil.
        exists ([Elem p [] es0 no_text] :: ess). split; [|constructor; [|exact Hf3]].
        -- intros m0 Hm0. cbn [marshal_children List.concat]. rewrite He, (Hmar m0 Hm0). cbn [rbind].
           rewrite (Hm m0 Hm0). cbn [rbind]. rewrite Hps, Hnil. reflexivity.
        -- split.
           ++ unfold own_names, elem_key. rewrite He, Hps. constructor; [reflexivity | constructor].
           ++ intros _ m0 b Hm0 Hz. cbn [absorb_kids]. unfold key_hit, elem_key, hit_action.
              rewrite He, Hps. cbn [xname xkids]. rewrite String.eqb_refl. cbn [andb].
              rewrite absorb_inner_own by assumption. rewrite (Habs m0 b Hm0 Hz). reflexivity.
    + exists ([] :: ess). split; [|constructor; [|exact Hf3]].
      * intros m0 Hm0. cbn [marshal_children List.concat]. rewrite He. exact (Hm m0 Hm0).
      * split; [unfold own_names; rewrite He; reflexivity | intros Hx; rewrite He in Hx; discriminate Hx].
Qed.

(* ---------- attributes ---------- *)

Lemma attrs_exist : forall fs vs,
  forallb field_supported fs = true ->
  forallb (field_cond sch (tyok sch n')) fs = true ->
  fields_all (wf sch n') (zero_like sch n') fs vs = true ->
  exists al, marshal_attrs sch fs vs = Ok al.
Proof.
  induction fs as [|f fs IHf]; intros vs Hs Hc Hwf; destruct vs as [|v vs]; try discriminate.
  - exists []. reflexivity.
  - cbn [forallb] in Hs, Hc. apply andb_true_iff in Hs. destruct Hs as [Hsf Hs].
    apply andb_true_iff in Hc. destruct Hc as [Hcf Hc].
    cbn [fields_all] in Hwf. apply andb_true_iff in Hwf. destruct Hwf as [Hwf1 Hwf].
    destruct (IHf vs Hs Hc Hwf) as [rest Hr].
    cbn [marshal_attrs]. rewrite Hsf, Hr. cbn [negb rbind].
    destruct (is_attr f) eqn:Ha; [|eexists; reflexivity].
    pose proof (attr_not_skip _ Ha) as Hsk. unfold field_cond in Hcf. rewrite Hsk, Ha in Hcf. rewrite Hsk in Hwf1.
    destruct (x_omitempty (f_xml f) && is_empty v); [eexists; reflexivity|].
    destruct (attr_atom_ok sch _ _ _ Hcf Hwf1) as [oa Hoa]. rewrite Hoa. cbn [rbind].
    destruct oa; eexists; reflexivity.
Qed.

Lemma attrs_rt_all : forall fs vs bs,
  forallb (field_cond sch (tyok sch n')) fs = true ->
  fields_all (wf sch n') (zero_like sch n') fs vs = true ->
  fields_all (zero_like sch n') (zero_like sch n') fs bs = true ->
  Forall3 (attr_field_rt sch) fs vs bs.
Proof.
  induction fs as [|f fs IHf]; intros vs bs Hc Hwf Hz; destruct vs as [|v vs]; destruct bs as [|b bs]; try discriminate.
  - constructor.
  - cbn [forallb] in Hc. apply andb_true_iff in Hc. destruct Hc as [Hcf Hc].
    cbn [fields_all] in Hwf, Hz. apply andb_true_iff in Hwf. destruct Hwf as [Hwf1 Hwf].
    apply andb_true_iff in Hz. destruct Hz as [Hz1 Hz].
    constructor; [|exact (IHf _ _ Hc Hwf Hz)].
    intros Ha. pose proof (attr_not_skip _ Ha) as Hsk. unfold field_cond in Hcf. rewrite Hsk, Ha in Hcf.
    rewrite Hsk in Hwf1, Hz1. exact (attr_rt_of_wf sch n' f v b Hcf Hwf1 Hz1 Ha).
Qed.

(* ---------- putting the phases together ---------- *)

Definition after_attrs (fs : list field) (vs bs : list value) : list value :=
  map (fun fvb : field * value * value => if is_attr (fst (fst fvb)) then snd (fst fvb) else snd fvb)
      (combine (combine fs vs) bs).
Definition after_kids (fs : list field) (vs st1 : list value) : list value :=
  map (fun fvb : field * value * value => if is_elem (fst (fst fvb)) then snd (fst fvb) else snd fvb)
      (combine (combine fs vs) st1).

Lemma final_eq : forall fs vs bs,
  forallb field_supported fs = true ->
  forallb (field_cond sch (tyok sch n')) fs = true ->
  fields_all (wf sch n') (zero_like sch n') fs vs = true ->
  fields_all (zero_like sch n') (zero_like sch n') fs bs = true ->
  after_kids fs vs (after_attrs fs vs bs) = vs.
Proof.
  induction fs as [|f fs IHf]; intros vs bs Hs Hc Hwf Hz; destruct vs as [|v vs]; destruct bs as [|b bs]; try discriminate.
  - reflexivity.
  - cbn [forallb] in Hs, Hc. apply andb_true_iff in Hs. destruct Hs as [Hsf Hs].
    apply andb_true_iff in Hc. destruct Hc as [Hcf Hc].
    cbn [fields_all] in Hwf, Hz. apply andb_true_iff in Hwf. destruct Hwf as [Hwf1 Hwf].
    apply andb_true_iff in Hz. destruct Hz as [Hz1 Hz].
    unfold after_kids, after_attrs in *. cbn [combine map fst snd]. rewrite (IHf _ _ Hs Hc Hwf Hz). f_equal.
    destruct (is_elem f) eqn:He; [reflexivity|]. destruct (is_attr f) eqn:Ha; [reflexivity|].
    pose proof (field_class _ Hsf Ha He) as Hsk. unfold field_cond in Hcf. rewrite Hsk in Hcf, Hwf1, Hz1.
    symmetry. exact (zero_like_unique sch _ _ _ _ Hcf Hwf1 Hz1).
Qed.

Lemma after_attrs_length : forall fs vs bs,
  List.length fs = List.length vs -> List.length vs = List.length bs ->
  List.length (after_attrs fs vs bs) = List.length vs.
Proof.
  intros fs vs bs H1 H2. unfold after_attrs. rewrite map_length, !combine_length. lia.
Qed.

Lemma fields_all_length : forall P Q fs vs, fields_all P Q fs vs = true -> List.length fs = List.length vs.
Proof.
  intros P Q fs. induction fs as [|f fs IHf]; intros vs H; destruct vs; cbn in *; try discriminate; [reflexivity|].
  apply andb_true_iff in H. destruct H as [_ H]. f_equal. exact (IHf _ H).
Qed.

Lemma kids_hyp : forall m0 fs vs bs ess,
  (n' <= m0)%nat ->
  Forall3 (fun f v es =>
             own_names sch f es /\
             (is_elem f = true -> forall m0 b, (n' <= m0)%nat -> zero_like sch n' (f_type f) b = true ->
                                              absorb_kids sch (unmarshal sch FUEL m0) f b es = Ok v))
          fs vs ess ->
  fields_all (zero_like sch n') (zero_like sch n') fs bs = true ->
  Forall3 (fun f (vb : value * value) es =>
             own_names sch f es /\
             (is_elem f = true -> absorb_kids sch (unmarshal sch FUEL m0) f (snd vb) es = Ok (fst vb)))
          fs (combine vs (after_attrs fs vs bs)) ess.
Proof.
  intros m0 fs vs bs ess Hm0 H. revert bs. induction H as [|f v es fs' vs' ess' Hh Ht IHt]; intros bs Hz.
  - constructor.
  - destruct bs as [|b bs]; [discriminate|]. cbn [fields_all] in Hz. apply andb_true_iff in Hz. destruct Hz as [Hz1 Hz].
    unfold after_attrs in *. cbn [combine map fst snd]. constructor; [|exact (IHt _ Hz)].
    destruct Hh as [Hown Habs]. split; [exact Hown|]. intros He. cbn [fst snd].
    destruct (elem_not_attr _ He) as [Ha Hsk]. rewrite Ha. apply Habs; [exact He | exact Hm0|].
    rewrite Hsk in Hz1. exact Hz1.
Qed.

(* the pieces of the struct round trip, for writers that assemble the element themselves *)
Lemma struct_rt_parts : forall d vs,
  field_conds sch (tyok sch n') (struct_fields d) = true ->
  fields_all (wf sch n') (zero_like sch n') (struct_fields d) vs = true ->
  exists al ess,
    marshal_attrs sch (struct_fields d) vs = Ok al
    /\ (forall m0, (n' <= m0)%nat ->
          marshal_children sch (marshal sch m0) (struct_fields d) vs = Ok (List.concat ess))
    /\ (forall m0 bs N t, (n' <= m0)%nat ->
          (String.eqb (xmlname_tag d) "" || String.eqb (xmlname_tag d) N) = true ->
          fields_all (zero_like sch n') (zero_like sch n') (struct_fields d) bs = true ->
          unmarshal_struct sch (unmarshal sch FUEL m0) d (VStruct bs) (Elem N al (List.concat ess) t)
          = Ok (VStruct vs)).
Proof.
  intros d vs Hfc Hwf. unfold field_conds in Hfc.
  apply andb_true_iff in Hfc. destruct Hfc as [Hfc Hconds]. apply andb_true_iff in Hfc. destruct Hfc as [Hfc Hpo].
  apply andb_true_iff in Hfc. destruct Hfc as [Hfc Hndk]. apply andb_true_iff in Hfc. destruct Hfc as [Hsup Hnda].
  set (fs := struct_fields d) in *.
  destruct (attrs_exist fs vs Hsup Hconds Hwf) as [al Hal].
  destruct (children_rt fs vs Hconds Hpo Hwf) as [ess [Hkids Hf3]].
  exists al, ess. split; [exact Hal | split; [exact Hkids|]].
  intros m0 bs N t Hm0 Hxn Hz.
  pose proof (fields_all_length _ _ _ _ Hwf) as Hl1. pose proof (fields_all_length _ _ _ _ Hz) as Hl2.
  replace (Ok (VStruct vs)) with (@Ok value (VStruct (after_kids fs vs (after_attrs fs vs bs))))
    by (rewrite (final_eq fs vs bs Hsup Hconds Hwf Hz); reflexivity).
  apply unmarshal_struct_fieldwise with (st1 := after_attrs fs vs bs); try assumption.
  + cbn [xattrs]. apply attrs_roundtrip; [exact Hal | exact Hnda | exact (attrs_rt_all fs vs bs Hconds Hwf Hz)].
  + cbn [xkids]. apply kids_roundtrip; [exact Hndk | exact (kids_hyp m0 fs vs bs ess Hm0 Hf3 Hz)|].
    rewrite after_attrs_length; [reflexivity | exact Hl1 | congruence].
Qed.

(* as struct_rt_parts, for ANY interleaving of the children that keeps each field's own sequence *)
Lemma struct_rt_parts_any : forall d vs,
  field_conds sch (tyok sch n') (struct_fields d) = true ->
  fields_all (wf sch n') (zero_like sch n') (struct_fields d) vs = true ->
  exists al ess,
    marshal_attrs sch (struct_fields d) vs = Ok al
    /\ (forall m0, (n' <= m0)%nat ->
          marshal_children sch (marshal sch m0) (struct_fields d) vs = Ok (List.concat ess))
    /\ (forall m0 bs N t kids', (n' <= m0)%nat ->
          (String.eqb (xmlname_tag d) "" || String.eqb (xmlname_tag d) N) = true ->
          fields_all (zero_like sch n') (zero_like sch n') (struct_fields d) bs = true ->
          same_per_field sch (struct_fields d) (List.concat ess) kids' ->
          unmarshal_struct sch (unmarshal sch FUEL m0) d (VStruct bs) (Elem N al kids' t)
          = Ok (VStruct vs)).
Proof.
  intros d vs Hfc Hwf. unfold field_conds in Hfc.
  apply andb_true_iff in Hfc. destruct Hfc as [Hfc Hconds]. apply andb_true_iff in Hfc. destruct Hfc as [Hfc Hpo].
  apply andb_true_iff in Hfc. destruct Hfc as [Hfc Hndk]. apply andb_true_iff in Hfc. destruct Hfc as [Hsup Hnda].
  set (fs := struct_fields d) in *.
  destruct (attrs_exist fs vs Hsup Hconds Hwf) as [al Hal].
  destruct (children_rt fs vs Hconds Hpo Hwf) as [ess [Hkids Hf3]].
  exists al, ess. split; [exact Hal | split; [exact Hkids|]].
  intros m0 bs N t kids' Hm0 Hxn Hz Hsame.
  pose proof (fields_all_length _ _ _ _ Hwf) as Hl1. pose proof (fields_all_length _ _ _ _ Hz) as Hl2.
  replace (Ok (VStruct vs)) with (@Ok value (VStruct (after_kids fs vs (after_attrs fs vs bs))))
    by (rewrite (final_eq fs vs bs Hsup Hconds Hwf Hz); reflexivity).
  apply unmarshal_struct_fieldwise with (st1 := after_attrs fs vs bs); try assumption.
  + cbn [xattrs]. apply attrs_roundtrip; [exact Hal | exact Hnda | exact (attrs_rt_all fs vs bs Hconds Hwf Hz)].
  + cbn [xkids]. apply (absorb_same_per_field sch _ (List.concat ess) kids'); [exact Hsame|].
    apply kids_roundtrip; [exact Hndk | exact (kids_hyp m0 fs vs bs ess Hm0 Hf3 Hz)|].
    rewrite after_attrs_length; [reflexivity | exact Hl1 | congruence].
Qed.

Lemma struct_rt : forall ty d vs fi tmpl nm,
  field_conds sch (tyok sch n') (struct_fields d) = true ->
  (String.eqb (xmlname_tag d) "" || String.eqb (xmlname_tag d) nm) = true ->
  fields_all (wf sch n') (zero_like sch n') (struct_fields d) vs = true ->
  start_name sch ty (xmlname_tag d) fi tmpl = Ok nm ->
  exists e,
    (forall m0, (n' <= m0)%nat -> marshal_struct sch (marshal sch m0) ty d (VStruct vs) fi tmpl = Ok [e])
    /\ xname e = nm
    /\ (forall m0 bs, (n' <= m0)%nat ->
          fields_all (zero_like sch n') (zero_like sch n') (struct_fields d) bs = true ->
          unmarshal_struct sch (unmarshal sch FUEL m0) d (VStruct bs) e = Ok (VStruct vs)).
Proof.
  intros ty d vs fi tmpl nm Hfc Hxn Hwf Hsn. unfold field_conds in Hfc.
  apply andb_true_iff in Hfc. destruct Hfc as [Hfc Hconds]. apply andb_true_iff in Hfc. destruct Hfc as [Hfc Hpo].
  apply andb_true_iff in Hfc. destruct Hfc as [Hfc Hndk]. apply andb_true_iff in Hfc. destruct Hfc as [Hsup Hnda].
  set (fs := struct_fields d) in *.
  destruct (attrs_exist fs vs Hsup Hconds Hwf) as [al Hal].
  destruct (children_rt fs vs Hconds Hpo Hwf) as [ess [Hkids Hf3]].
  exists (Elem nm al (List.concat ess) no_text). split; [|split].
  - intros m0 Hm0. unfold marshal_struct. rewrite Hsn. cbn [rbind]. fold fs. rewrite Hal. cbn [rbind].
    rewrite (Hkids m0 Hm0). reflexivity.
  - reflexivity.
  - intros m0 bs Hm0 Hz.
    pose proof (fields_all_length _ _ _ _ Hwf) as Hl1. pose proof (fields_all_length _ _ _ _ Hz) as Hl2.
    replace (Ok (VStruct vs)) with (@Ok value (VStruct (after_kids fs vs (after_attrs fs vs bs))))
      by (rewrite (final_eq fs vs bs Hsup Hconds Hwf Hz); reflexivity).
    apply unmarshal_struct_fieldwise with (st1 := after_attrs fs vs bs); try assumption.
    + cbn [xattrs]. apply attrs_roundtrip; [exact Hal | exact Hnda | exact (attrs_rt_all fs vs bs Hconds Hwf Hz)].
    + cbn [xkids]. apply kids_roundtrip; [exact Hndk | exact (kids_hyp m0 fs vs bs ess Hm0 Hf3 Hz)|].
      rewrite after_attrs_length; [reflexivity | exact Hl1 | congruence].
Qed.

End Struct.

(* assembling the struct decoder from per-field facts supplied by the caller (used for the
   containers whose fields are written by hand-written methods) *)
Lemma assemble_struct : forall sch unm d vs bs al ess N t,
  all_supported (struct_fields d) = true ->
  (String.eqb (xmlname_tag d) "" || String.eqb (xmlname_tag d) N) = true ->
  parents_ok (struct_fields d) = true ->
  nodup_strb (attr_names sch (struct_fields d)) = true ->
  nodup_strb (elem_keys sch (struct_fields d)) = true ->
  marshal_attrs sch (struct_fields d) vs = Ok al ->
  Forall3 (attr_field_rt sch) (struct_fields d) vs bs ->
  Forall3 (fun f (vb : value * value) es =>
             own_names sch f es /\ (is_elem f = true -> absorb_kids sch unm f (snd vb) es = Ok (fst vb)))
          (struct_fields d) (combine vs (after_attrs (struct_fields d) vs bs)) ess ->
  List.length (struct_fields d) = List.length vs -> List.length vs = List.length bs ->
  after_kids (struct_fields d) vs (after_attrs (struct_fields d) vs bs) = vs ->
  unmarshal_struct sch unm d (VStruct bs) (Elem N al (List.concat ess) t) = Ok (VStruct vs).
Proof.
  intros sch unm d vs bs al ess N t Hsup Hxn Hpo Hnda Hndk Hal Hrt Hk Hl1 Hl2 Hfin.
  replace (Ok (VStruct vs)) with (@Ok value (VStruct (after_kids (struct_fields d) vs (after_attrs (struct_fields d) vs bs))))
    by (rewrite Hfin; reflexivity).
  apply unmarshal_struct_fieldwise with (st1 := after_attrs (struct_fields d) vs bs); try assumption.
  + cbn [xattrs]. apply attrs_roundtrip; assumption.
  + cbn [xkids]. apply kids_roundtrip; [exact Hndk | exact Hk|].
    rewrite after_attrs_length; [reflexivity | exact Hl1 | exact Hl2].
Qed.
