(* Codec/ProofsAttr.v — the attribute phase of struct decoding, reasoned field by field.

   unmarshal_attrs loops over the attributes of the start element and, for each, over all fields.
   [absorb_attrs f x al] is what happens to ONE field; [unmarshal_attrs_pointwise] shows the loop
   nest computes exactly these per-field results.  [attrs_roundtrip]: the attributes written by
   marshal_attrs for a struct value, read back into any base whose attr fields the writer
   skipped only when they were equal to the base, give back the attr fields of the value. *)
From Coq Require Import List String Bool ZArith Lia.
From Verif Require Import Codec.Schema Codec.Value Codec.Xml.
Import ListNotations.
Open Scope string_scope.
Open Scope list_scope.

Inductive Forall3 {A B C : Type} (R : A -> B -> C -> Prop) : list A -> list B -> list C -> Prop :=
| F3_nil : Forall3 R [] [] []
| F3_cons : forall a b c la lb lc, R a b c -> Forall3 R la lb lc -> Forall3 R (a :: la) (b :: lb) (c :: lc).

Lemma Forall3_eq : forall {A B} (fs : list A) (st st' : list B),
  Forall3 (fun _ x x' => @Ok B x = Ok x') fs st st' -> st = st'.
Proof. intros A B fs st st' H. induction H as [|a b c la lb lc Hh Ht IH]; [reflexivity|]. inversion Hh. subst. reflexivity. Qed.

Lemma Forall3_length12 : forall {A B C} (R : A -> B -> C -> Prop) la lb lc,
  Forall3 R la lb lc -> List.length la = List.length lb.
Proof. intros A B C R la lb lc H. induction H; cbn; congruence. Qed.

Section Attr.
Variable sch : schema.

Definition attr_hit (f : field) (an : string) : bool := is_attr f && String.eqb (eff_name sch f) an.

Fixpoint absorb_attrs (f : field) (x : value) (al : list (string * atom)) : result value :=
  match al with
  | [] => Ok x
  | (an, a) :: r =>
      if attr_hit f an
      then do v' <- attr_value sch AFUEL (f_type f) a; absorb_attrs f v' r
      else absorb_attrs f x r
  end.

Lemma unmarshal_attr_pointwise : forall fs st an a st1,
  Forall3 (fun f x x1 => (if attr_hit f an then attr_value sch AFUEL (f_type f) a else Ok x) = Ok x1) fs st st1 ->
  unmarshal_attr sch fs st an a = Ok st1.
Proof.
  intros fs st an a st1 H. induction H as [|f x x1 fs' st' st1' Hh Ht IH]; [reflexivity|].
  cbn [unmarshal_attr]. rewrite IH. cbn [rbind]. unfold attr_hit in Hh.
  destruct (is_attr f && String.eqb (eff_name sch f) an).
  - rewrite Hh. reflexivity.
  - inversion Hh. reflexivity.
Qed.

Lemma unmarshal_attrs_pointwise : forall al fs st st',
  Forall3 (fun f x x' => absorb_attrs f x al = Ok x') fs st st' ->
  unmarshal_attrs sch fs st al = Ok st'.
Proof.
  induction al as [|[an a] r IH]; intros fs st st' H.
  - cbn in *. apply Forall3_eq in H. subst. reflexivity.
  - cbn [unmarshal_attrs].
    assert (Hex : exists st1,
      Forall3 (fun f x x1 => (if attr_hit f an then attr_value sch AFUEL (f_type f) a else Ok x) = Ok x1) fs st st1 /\
      Forall3 (fun f x x' => absorb_attrs f x r = Ok x') fs st1 st').
    { clear IH. induction H as [|f x x' fs' st0 st0' Hh Ht IHt].
      - exists []. split; constructor.
      - destruct IHt as [st1 [H1 H2]]. cbn [absorb_attrs] in Hh.
        destruct (attr_hit f an) eqn:Hhit.
        + destruct (attr_value sch AFUEL (f_type f) a) as [v'|e] eqn:Hav; cbn [rbind] in Hh; [|discriminate].
          exists (v' :: st1). split; constructor; auto. rewrite Hhit. exact Hav.
        + exists (x :: st1). split; constructor; auto. rewrite Hhit. reflexivity. }
    destruct Hex as [st1 [H1 H2]].
    rewrite (unmarshal_attr_pointwise _ _ _ _ _ H1). cbn [rbind]. apply IH. exact H2.
Qed.

Lemma absorb_attrs_app : forall f a1 a2 x,
  absorb_attrs f x (a1 ++ a2) = do y <- absorb_attrs f x a1; absorb_attrs f y a2.
Proof.
  intros f a1. induction a1 as [|[an a] r IH]; intros a2 x; [reflexivity|].
  cbn [app absorb_attrs]. destruct (attr_hit f an).
  - destruct (attr_value sch AFUEL (f_type f) a); cbn [rbind]; [apply IH | reflexivity].
  - apply IH.
Qed.

Lemma absorb_attrs_skip : forall f al x,
  (forall na, In na al -> attr_hit f (fst na) = false) -> absorb_attrs f x al = Ok x.
Proof.
  intros f al. induction al as [|[an a] r IH]; intros x H; [reflexivity|].
  cbn [absorb_attrs]. pose proof (H (an, a) (or_introl eq_refl)) as Hh. cbn [fst] in Hh. rewrite Hh. apply IH. intros na Hin. apply H. right. exact Hin.
Qed.

(* names of the attr fields of a struct *)
Definition attr_names (fs : list field) : list string := map (eff_name sch) (filter is_attr fs).

Fixpoint nodup_strb (l : list string) : bool :=
  match l with
  | [] => true
  | x :: r => negb (existsb (String.eqb x) r) && nodup_strb r
  end.

Lemma existsb_eqb_false : forall l x, existsb (String.eqb x) l = false -> ~ In x l.
Proof.
  induction l as [|y r IH]; intros x H Hin; [exact Hin|]. cbn in H. apply orb_false_iff in H. destruct H as [H1 H2].
  destruct Hin as [->|Hin]; [rewrite String.eqb_refl in H1; discriminate | exact (IH _ H2 Hin)].
Qed.

(* one field's attribute written and read back: what the rest of the development needs to
   know about a field value (follows from well-formedness and the static type checks) *)
Definition attr_field_rt (f : field) (v base : value) : Prop :=
  is_attr f = true ->
  if x_omitempty (f_xml f) && is_empty v then v = base
  else match attr_atom sch AFUEL (f_type f) v with
       | Ok (Some a) => attr_value sch AFUEL (f_type f) a = Ok v
       | Ok None => v = base
       | Err _ => False
       end.

Lemma marshal_attrs_names : forall fs vs al,
  marshal_attrs sch fs vs = Ok al -> forall na, In na al -> In (fst na) (attr_names fs).
Proof.
  induction fs as [|f fs IH]; intros vs al H na Hin.
  - destruct vs; cbn in H; [inversion H; subst; destruct Hin | discriminate].
  - destruct vs as [|v vs]; [discriminate|]. cbn [marshal_attrs] in H.
    destruct (negb (field_supported f)); [discriminate|].
    destruct (marshal_attrs sch fs vs) as [rest|e] eqn:Hr; cbn [rbind] in H; [|discriminate].
    unfold attr_names. cbn [filter]. destruct (is_attr f) eqn:Ha.
    + cbn [map]. destruct (x_omitempty (f_xml f) && is_empty v).
      * inversion H; subst. right. exact (IH _ _ Hr _ Hin).
      * destruct (attr_atom sch AFUEL (f_type f) v) as [[a|]|e]; cbn [rbind] in H; inversion H; subst.
        -- destruct Hin as [<-|Hin]; [left; reflexivity | right; exact (IH _ _ Hr _ Hin)].
        -- right. exact (IH _ _ Hr _ Hin).
    + inversion H; subst. exact (IH _ _ Hr _ Hin).
Qed.

Lemma attrs_roundtrip : forall fs vs bases al,
  marshal_attrs sch fs vs = Ok al ->
  nodup_strb (attr_names fs) = true ->
  Forall3 attr_field_rt fs vs bases ->
  Forall3 (fun f b r => absorb_attrs f b al = Ok r) fs bases
          (map (fun fvb => if is_attr (fst (fst fvb)) then snd (fst fvb) else snd fvb)
               (combine (combine fs vs) bases)).
Proof.
  induction fs as [|f fs IH]; intros vs bases al Hm Hnd Hrt.
  - inversion Hrt; subst. cbn. constructor.
  - inversion Hrt as [|f' v b fs' vs' bases' Hh Ht]; subst. cbn [marshal_attrs] in Hm.
    destruct (negb (field_supported f)); [discriminate|].
    destruct (marshal_attrs sch fs vs') as [rest|e] eqn:Hr; cbn [rbind] in Hm; [|discriminate].
    assert (Hnd' : nodup_strb (attr_names fs) = true).
    { unfold attr_names in *. cbn [filter] in Hnd. destruct (is_attr f); [|exact Hnd].
      cbn [map nodup_strb] in Hnd. apply andb_true_iff in Hnd. tauto. }
    specialize (IH _ _ _ Hr Hnd' Ht).
    cbn [combine map fst snd].
    (* entries of [rest] never hit the head field; the head's own entry never hits a tail field *)
    assert (Hrest_skip : is_attr f = true -> forall na, In na rest -> attr_hit f (fst na) = false).
    { intros Ha na Hin. unfold attr_hit. rewrite Ha. cbn [andb].
      pose proof (marshal_attrs_names _ _ _ Hr _ Hin) as Hn.
      unfold attr_names in Hnd. cbn [filter] in Hnd. rewrite Ha in Hnd. cbn [map nodup_strb] in Hnd.
      apply andb_true_iff in Hnd. destruct Hnd as [Hnd _]. apply negb_true_iff in Hnd.
      pose proof (existsb_eqb_false _ _ Hnd) as Hni.
      destruct (String.eqb (eff_name sch f) (fst na)) eqn:He; [|reflexivity].
      apply String.eqb_eq in He. rewrite He in Hni. contradiction. }
    assert (Hown_skip : forall g, In g fs -> attr_hit g (eff_name sch f) = false \/ is_attr f = false).
    { intros g Hg. destruct (is_attr f) eqn:Ha; [left | right; reflexivity].
      unfold attr_hit. destruct (is_attr g) eqn:Hga; [cbn [andb] | reflexivity].
      unfold attr_names in Hnd. cbn [filter] in Hnd. rewrite Ha in Hnd. cbn [map nodup_strb] in Hnd.
      apply andb_true_iff in Hnd. destruct Hnd as [Hnd _]. apply negb_true_iff in Hnd.
      pose proof (existsb_eqb_false _ _ Hnd) as Hni.
      destruct (String.eqb (eff_name sch g) (eff_name sch f)) eqn:He; [|reflexivity].
      apply String.eqb_eq in He. exfalso. apply Hni. rewrite <- He.
      apply in_map. apply filter_In. split; assumption. }
    destruct (is_attr f) eqn:Ha.
    + (* head is an attribute field *)
      specialize (Hh Ha). specialize (Hrest_skip eq_refl).
      destruct (x_omitempty (f_xml f) && is_empty v) eqn:Hom.
      * inversion Hm; subst al. constructor.
        -- rewrite absorb_attrs_skip by exact Hrest_skip. subst. reflexivity.
        -- exact IH.
      * destruct (attr_atom sch AFUEL (f_type f) v) as [[a|]|e] eqn:Haa; cbn [rbind] in Hm; [| |discriminate].
        -- inversion Hm; subst al. constructor.
           ++ cbn [absorb_attrs]. unfold attr_hit at 1. rewrite Ha, String.eqb_refl. cbn [andb].
              rewrite Hh. cbn [rbind]. apply absorb_attrs_skip. exact Hrest_skip.
           ++ clear - IH Hown_skip.
              revert IH. generalize (map (fun fvb : field * value * value =>
                        if is_attr (fst (fst fvb)) then snd (fst fvb) else snd fvb)
                       (combine (combine fs vs') bases')) as res.
              intros res IH. revert Hown_skip.
              induction IH as [|g b r gs bs rs Hg Hgs IHg]; intros Hown; constructor.
              ** cbn [absorb_attrs]. destruct (Hown g (or_introl eq_refl)) as [->|Hf]; [exact Hg | discriminate].
              ** apply IHg. intros g' Hin. apply Hown. right. exact Hin.
        -- inversion Hm; subst al. constructor.
           ++ rewrite absorb_attrs_skip by exact Hrest_skip. subst. reflexivity.
           ++ exact IH.
    + inversion Hm; subst al. constructor.
      * apply absorb_attrs_skip. intros na _. unfold attr_hit. rewrite Ha. reflexivity.
      * exact IH.
Qed.

End Attr.
