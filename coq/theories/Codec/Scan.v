(* Codec/Scan.v — model of osmxml.Scanner (osmxml/scanner.go) over document trees.
   Executable definitions only.

   Scan reads tokens; every start element whose lower-cased local name is one of the seven
   object names is decoded as a whole (DecodeElement into a fresh object of that type, the
   tokens of its subtree are consumed) and yielded; any other start element is stepped over,
   so its children are seen next.  The first decoding error stops the scan for good. *)
From Coq Require Import List String Ascii Bool ZArith.
From Verif Require Import Codec.Schema Codec.Value Codec.Xml.
Import ListNotations.
Open Scope string_scope.
Open Scope list_scope.

Definition lower_ascii_char (c : ascii) : ascii :=
  let n := nat_of_ascii c in
  if (Nat.leb 65 n && Nat.leb n 90)%bool then ascii_of_nat (n + 32) else c.

Fixpoint lower_ascii (s : string) : string :=
  match s with
  | EmptyString => EmptyString
  | String c r => String (lower_ascii_char c) (lower_ascii r)
  end.

Fixpoint assoc_str {A} (l : list (string * A)) (n : string) : option A :=
  match l with
  | [] => None
  | (k, a) :: r => if String.eqb k n then Some a else assoc_str r n
  end.

(* the switch of Scanner.Scan: case label -> Go type decoded *)
Definition scan_kinds : list (string * string) :=
  [("bounds", "Bounds"); ("node", "Node"); ("way", "Way"); ("relation", "Relation");
   ("changeset", "Changeset"); ("note", "Note"); ("user", "User")].

Definition obj := (string * value)%type.     (* Go type name, value *)

Section Scan.
Variable sch : schema.

Fixpoint scan_el (e : xml) : list obj * option err :=
  match e with
  | Elem nm _ kids _ =>
      match assoc_str scan_kinds (lower_ascii nm) with
      | Some T =>
          match decode sch T e with
          | Ok v => ([(T, v)], None)
          | Err er => ([], Some er)
          end
      | None =>
          (fix go (l : list xml) : list obj * option err :=
             match l with
             | [] => ([], None)
             | k :: r =>
                 let '(a, er) := scan_el k in
                 match er with
                 | Some _ => (a, er)
                 | None => let '(b, er') := go r in (a ++ b, er')
                 end
             end) kids
      end
  end.

End Scan.
