(* Codec/ProofsSteps.v — equations for one level of marshalValue / unmarshal, case by case
   (pure unfolding of marshal_step / unmarshal_step), and small facts about names. *)
From Coq Require Import List String Bool ZArith Lia.
From Verif Require Import Codec.Schema Codec.Value Codec.Xml Codec.Wf Codec.ProofsRT.
Import ListNotations.
Open Scope string_scope.
Open Scope list_scope.

Section Steps.
Variable sch : schema.
Variable mar : gotype -> value -> finfo -> option string -> result (list xml).
Variable unm : gotype -> value -> xml -> result value.
Variable FZ : nat.

Definition is_ptr (k : rkind) : bool := match k with RPtr _ => true | _ => false end.

Lemma ms_omit : forall ty v fi tmpl,
  fi_omit fi && is_empty v = true -> marshal_step sch mar ty v fi tmpl = Ok [].
Proof. intros. unfold marshal_step. rewrite H. reflexivity. Qed.

Lemma ms_ptr_nil : forall ty t fi tmpl,
  rk sch ty = RPtr t -> marshal_step sch mar ty (VPtr None) fi tmpl = Ok [].
Proof. intros ty t fi tmpl Hk. unfold marshal_step. rewrite Hk. destruct (fi_omit fi && is_empty (VPtr None)); reflexivity. Qed.

Lemma ms_ptr_some : forall ty t v' fi tmpl,
  rk sch ty = RPtr t -> marshal_step sch mar ty (VPtr (Some v')) fi tmpl = mar t v' (fi_clear fi) tmpl.
Proof. intros ty t v' fi tmpl Hk. unfold marshal_step. rewrite Hk. cbn [is_empty]. rewrite andb_false_r. reflexivity. Qed.

Lemma ms_hook : forall ty d v fi tmpl,
  is_ptr (rk sch ty) = false -> fi_omit fi && is_empty v = false -> marshal_hook sch ty = Some d ->
  marshal_step sch mar ty v fi tmpl = hook_marshal sch mar ty d v (default_start sch ty fi tmpl).
Proof.
  intros ty d v fi tmpl Hp Ho Hh. unfold marshal_step. rewrite Ho, Hh.
  destruct (rk sch ty); cbn in Hp; try discriminate; reflexivity.
Qed.

Lemma ms_slice : forall ty t l fi tmpl,
  rk sch ty = RSlice t -> fi_omit fi && is_empty (VList l) = false -> marshal_hook sch ty = None ->
  marshal_step sch mar ty (VList l) fi tmpl = rconcat (fun x => mar t x fi tmpl) l.
Proof. intros ty t l fi tmpl Hk Ho Hh. unfold marshal_step. rewrite Ho, Hk, Hh. reflexivity. Qed.

Lemma ms_struct : forall ty d vs fi tmpl,
  rk sch ty = RStruct d -> marshal_hook sch ty = None ->
  marshal_step sch mar ty (VStruct vs) fi tmpl = marshal_struct sch mar ty d (VStruct vs) fi tmpl.
Proof. intros ty d vs fi tmpl Hk Hh. unfold marshal_step. rewrite Hk, Hh. cbn [is_empty]. rewrite andb_false_r. reflexivity. Qed.

Lemma ms_scalar : forall ty v fi tmpl,
  is_scalar (rk sch ty) = true -> fi_omit fi && is_empty v = false -> marshal_hook sch ty = None ->
  marshal_step sch mar ty v fi tmpl =
    do a <- simple_atom (rk sch ty) v; do name <- start_name sch ty "" fi tmpl; Ok [Elem name [] [] a].
Proof.
  intros ty v fi tmpl Hs Ho Hh. unfold marshal_step. rewrite Ho, Hh.
  destruct (rk sch ty); cbn in Hs; try discriminate; destruct v; reflexivity.
Qed.

Lemma us_ptr_nil : forall ty t e,
  rk sch ty = RPtr t ->
  unmarshal_step sch unm FZ ty (VPtr None) e = do v <- unm t (zero sch FZ t) e; Ok (VPtr (Some v)).
Proof. intros ty t e Hk. unfold unmarshal_step. rewrite Hk. reflexivity. Qed.

Lemma us_hook : forall ty d cur e,
  is_ptr (rk sch ty) = false -> unmarshal_hook sch ty = Some d ->
  unmarshal_step sch unm FZ ty cur e = hook_unmarshal sch unm FZ d cur e.
Proof.
  intros ty d cur e Hp Hh. unfold unmarshal_step. rewrite Hh.
  destruct (rk sch ty); cbn in Hp; try discriminate; reflexivity.
Qed.

Lemma us_slice : forall ty t l e,
  rk sch ty = RSlice t -> unmarshal_hook sch ty = None ->
  unmarshal_step sch unm FZ ty (VList l) e = do v <- unm t (zero sch FZ t) e; Ok (VList (l ++ [v])).
Proof. intros ty t l e Hk Hh. unfold unmarshal_step. rewrite Hk, Hh. reflexivity. Qed.

Lemma us_struct : forall ty d cur e,
  rk sch ty = RStruct d -> unmarshal_hook sch ty = None ->
  unmarshal_step sch unm FZ ty cur e = unmarshal_struct sch unm d cur e.
Proof. intros ty d cur e Hk Hh. unfold unmarshal_step. rewrite Hk, Hh. reflexivity. Qed.

Lemma us_scalar : forall ty cur e,
  is_scalar (rk sch ty) = true -> unmarshal_hook sch ty = None ->
  unmarshal_step sch unm FZ ty cur e = atom_value (rk sch ty) (xtext e).
Proof.
  intros ty cur e Hs Hh. unfold unmarshal_step. rewrite Hh.
  destruct (rk sch ty); cbn in Hs; try discriminate; destruct cur; reflexivity.
Qed.

End Steps.

Section Names.
Variable sch : schema.

Lemma start_name_given : forall ty xn fi tmpl,
  given_name fi tmpl <> "" -> (String.eqb xn "" || String.eqb xn (given_name fi tmpl)) = true ->
  start_name sch ty xn fi tmpl = Ok (given_name fi tmpl).
Proof.
  intros ty xn fi tmpl Hne Hx. unfold start_name, given_name in *. destruct tmpl as [t|]; [reflexivity|].
  apply orb_true_iff in Hx. destruct Hx as [Hx|Hx].
  - rewrite Hx. cbn [negb]. apply String.eqb_neq in Hne. rewrite Hne. reflexivity.
  - apply String.eqb_eq in Hx. subst xn. apply String.eqb_neq in Hne. rewrite Hne. reflexivity.
Qed.

Lemma default_start_given : forall ty fi tmpl,
  given_name fi tmpl <> "" -> default_start sch ty fi tmpl = given_name fi tmpl.
Proof.
  intros ty fi tmpl Hne. unfold default_start, given_name in *. destruct tmpl; [reflexivity|].
  apply String.eqb_neq in Hne. rewrite Hne. reflexivity.
Qed.

Lemma given_name_clear : forall fi tmpl, given_name (fi_clear fi) tmpl = given_name fi tmpl.
Proof. intros [[n o]|] [t|]; reflexivity. Qed.

Lemma fi_omit_clear : forall fi, fi_omit (fi_clear fi) = false.
Proof. intros [[n o]|]; reflexivity. Qed.

(* the typedef a hook is found for is the struct the type resolves to *)
Lemma named_def_rk : forall ty d,
  named_def sch ty = Some d -> is_ustruct d = true -> rk sch ty = RStruct d.
Proof.
  intros ty d Hn Hu. unfold named_def in Hn. destruct ty; try discriminate.
  unfold rk, RFUEL. cbn [resolve]. rewrite Hn. unfold is_ustruct in Hu.
  destruct (t_under d); [reflexivity | discriminate].
Qed.

Lemma marshal_hook_def : forall ty d, marshal_hook sch ty = Some d -> named_def sch ty = Some d.
Proof.
  intros ty d H. unfold marshal_hook in H. destruct (named_def sch ty) as [d0|]; [|discriminate].
  destruct (has_method d0 "MarshalXML"); inversion H. reflexivity.
Qed.

Lemma unmarshal_hook_def : forall ty d, unmarshal_hook sch ty = Some d -> named_def sch ty = Some d.
Proof.
  intros ty d H. unfold unmarshal_hook in H. destruct (named_def sch ty) as [d0|]; [|discriminate].
  destruct (has_method d0 "UnmarshalXML"); inversion H. reflexivity.
Qed.

End Names.
