(* Codec/ProofsTop.v — from RT to the entry points: xml.Marshal(v) then xml.Unmarshal gives v
   back, for a top-level value (no field info, no start template) and for a value written as a
   field of a parent (name from the field tag). *)
From Coq Require Import List String Bool ZArith Lia.
From Verif Require Import Codec.Schema Codec.Value Codec.Xml Codec.Wf Codec.ProofsAttr Codec.ProofsKids
     Codec.ProofsRT Codec.ProofsSteps Codec.ProofsStruct Codec.ProofsMain.
Import ListNotations.
Open Scope string_scope.
Open Scope list_scope.

Section Top.
Variable sch : schema.

(* the element name xml.Marshal gives a top-level value of type ty is nm: a method-free struct
   whose XMLName tag is nm, or the Bounds type (its MarshalXML forces "bounds") *)
Definition top_name_ok (ty : gotype) (nm : string) : bool :=
  match rk sch ty with
  | RStruct d0 =>
      match marshal_hook sch ty with
      | None => String.eqb (xmlname_tag d0) nm
      | Some d => String.eqb (t_name d) "Bounds" && String.eqb nm "bounds"
      end
  | _ => false
  end.

Lemma top_template : forall mar ty nm v,
  nm <> "" -> top_name_ok ty nm = true ->
  marshal_step sch mar ty v None None = marshal_step sch mar ty v None (Some nm).
Proof.
  intros mar ty nm v Hne Hok. unfold top_name_ok in Hok. unfold marshal_step. cbn [fi_omit andb].
  destruct (rk sch ty) eqn:Hk; try discriminate.
  destruct (marshal_hook sch ty) as [d0|] eqn:Hmh.
  - apply andb_true_iff in Hok. destruct Hok as [Hb _]. apply String.eqb_eq in Hb.
    unfold hook_marshal. rewrite Hb. reflexivity.
  - apply String.eqb_eq in Hok.
    unfold marshal_struct. destruct v; try reflexivity. unfold start_name. rewrite Hok.
    apply String.eqb_neq in Hne. rewrite Hne. cbn [negb]. reflexivity.
Qed.

Lemma marshal_S : forall m, marshal sch (S m) = marshal_step sch (marshal sch m).
Proof. reflexivity. Qed.
Lemma FUEL_S : FUEL = S 15.
Proof. reflexivity. Qed.

Lemma top_encode : forall T nm v e,
  nm <> "" -> top_name_ok (TNamed T) nm = true ->
  marshal sch FUEL (TNamed T) v None (Some nm) = Ok [e] -> encode1 sch T v = Ok e.
Proof.
  intros T nm v e Hne Htop Hmm. unfold encode1, encode.
  rewrite FUEL_S in Hmm |- *. rewrite marshal_S in Hmm |- *.
  rewrite (top_template _ _ nm _ Hne Htop). rewrite Hmm. reflexivity.
Qed.

Lemma top_decode : forall T v e,
  wf sch FUEL (TNamed T) v = true ->
  (forall m base, (FUEL <= m)%nat -> zero_like sch FUEL (TNamed T) base = true ->
                  absorb sch m (TNamed T) base [e] = Ok v) ->
  decode sch T e = Ok v.
Proof.
  intros T v e Hwf Habs. unfold decode.
  assert (Hz : zero_like sch FUEL (TNamed T) (zero sch FUEL (TNamed T)) = true).
  { apply zero_like_zero with (x := v); [lia | left; exact Hwf]. }
  pose proof (Habs FUEL _ (le_n _) Hz) as Ha. cbn [absorb] in Ha.
  destruct (unmarshal sch FUEL FUEL (TNamed T) (zero sch FUEL (TNamed T)) e); cbn [rbind] in Ha; [|discriminate].
  exact Ha.
Qed.

Lemma FUEL_le : (FUEL <= FUEL)%nat.
Proof. apply le_n. Qed.

(* RT with the name given by a start template / by the field info; stated for a variable depth
   so that instantiating it needs no conversion under tyok *)
Lemma RT_tmpl : forall n ty v nm inslice,
  (n <= FUEL)%nat -> wf sch n ty v = true -> tyok sch n ty nm false inslice = true -> nm <> "" ->
  exists es,
    (forall m, (n <= m)%nat -> marshal sch m ty v None (Some nm) = Ok es)
    /\ Forall (fun e => xname e = nm) es
    /\ (forall m base, (n <= m)%nat -> zero_like sch n ty base = true -> absorb sch m ty base es = Ok v)
    /\ (one_ok sch ty v inslice = true -> exists e, es = [e]).
Proof. intros n ty v nm inslice Hn Hwf Hty Hne. exact (RT_all sch n Hn ty v None (Some nm) inslice Hwf Hty Hne). Qed.

Lemma RT_fld : forall n ty v nm omit inslice,
  (n <= FUEL)%nat -> wf sch n ty v = true -> tyok sch n ty nm omit inslice = true -> nm <> "" ->
  exists es,
    (forall m, (n <= m)%nat -> marshal sch m ty v (Some (nm, omit)) None = Ok es)
    /\ Forall (fun e => xname e = nm) es
    /\ (forall m base, (n <= m)%nat -> zero_like sch n ty base = true -> absorb sch m ty base es = Ok v)
    /\ (one_ok sch ty v inslice = true -> exists e, es = [e]).
Proof. intros n ty v nm omit inslice Hn Hwf Hty Hne. exact (RT_all sch n Hn ty v (Some (nm, omit)) None inslice Hwf Hty Hne). Qed.

Theorem roundtrip_top : forall T nm v,
  nm <> "" ->
  tyok sch FUEL (TNamed T) nm false false = true ->
  top_name_ok (TNamed T) nm = true ->
  is_struct (rk sch (TNamed T)) = true ->
  wf sch FUEL (TNamed T) v = true ->   (* = wfb sch T v, by definition *)
  exists e, encode1 sch T v = Ok e /\ decode sch T e = Ok v /\ xname e = nm.
Proof.
  intros T nm v Hne Hty Htop Hst Hwf.
  pose proof (RT_tmpl FUEL (TNamed T) v nm false FUEL_le Hwf Hty Hne) as HRT.
  destruct HRT as [es [Hm [Hnames [Habs Hone]]]].
  assert (H1 : one_ok sch (TNamed T) v false = true).
  { unfold one_ok. destruct (rk sch (TNamed T)); try discriminate Hst. reflexivity. }
  destruct (Hone H1) as [e He]. subst es. exists e. split; [|split].
  - exact (top_encode T nm v e Hne Htop (Hm FUEL FUEL_le)).
  - exact (top_decode T v e Hwf Habs).
  - apply Forall_inv in Hnames. exact Hnames.
Qed.

(* a value written as the field [nm] of a parent, read back from the zero value *)
Theorem roundtrip_field : forall ty nm omit v,
  nm <> "" ->
  tyok sch FUEL ty nm omit false = true ->
  wf sch FUEL ty v = true ->
  exists es, marshal sch FUEL ty v (Some (nm, omit)) None = Ok es
             /\ Forall (fun e => xname e = nm) es
             /\ absorb sch FUEL ty (zero sch FUEL ty) es = Ok v.
Proof.
  intros ty nm omit v Hne Hty Hwf.
  destruct (RT_fld FUEL ty v nm omit false FUEL_le Hwf Hty Hne) as [es [Hm [Hnames [Habs _]]]].
  exists es. split; [apply Hm; exact FUEL_le | split; [exact Hnames|]].
  apply Habs; [exact FUEL_le|]. apply zero_like_zero with (x := v); [exact FUEL_le | left; exact Hwf].
Qed.

End Top.
