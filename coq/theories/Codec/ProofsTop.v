(* Codec/ProofsTop.v — from RT to the entry points: xml.Marshal(v) then xml.Unmarshal gives v
   back, for a top-level value (no field info, no start template) and for a value written as a
   field of a parent (name from the field tag). *)
From Coq Require Import List String Bool ZArith Lia.
From Verif Require Import Codec.Schema Codec.Value Codec.Xml Codec.Wf Codec.ProofsAttr Codec.ProofsKids
     Codec.ProofsRT Codec.ProofsSteps Codec.ProofsStruct Codec.ProofsMain.
Import ListNotations.
Open Scope string_scope.
Open Scope list_scope.

Section Top.
Variable sch : schema.

(* the element name xml.Marshal gives a top-level value of type ty is nm: a method-free struct
   whose XMLName tag is nm, or the Bounds type (its MarshalXML forces "bounds") *)
Definition top_name_ok (ty : gotype) (nm : string) : bool :=
  match rk sch ty with
  | RStruct d0 =>
      match marshal_hook sch ty with
      | None => String.eqb (xmlname_tag d0) nm
      | Some d => String.eqb (t_name d) "Bounds" && String.eqb nm "bounds"
      end
  | _ => false
  end.

Lemma top_template : forall mar ty nm v,
  nm <> "" -> top_name_ok ty nm = true ->
  marshal_step sch mar ty v None None = marshal_step sch mar ty v None (Some nm).
Proof.
  intros mar ty nm v Hne Hok. unfold top_name_ok in Hok. unfold marshal_step. cbn [fi_omit andb].
  destruct (rk sch ty) eqn:Hk; try discriminate.
  destruct (marshal_hook sch ty) as [d0|] eqn:Hmh.
  - apply andb_true_iff in Hok. destruct Hok as [Hb _]. apply String.eqb_eq in Hb.
    unfold hook_marshal. rewrite Hb. reflexivity.
  - apply String.eqb_eq in Hok.
    unfold marshal_struct. destruct v; try reflexivity. unfold start_name. rewrite Hok.
    apply String.eqb_neq in Hne. rewrite Hne. reflexivity.
Qed.

Theorem roundtrip_top : forall T nm v,
  nm <> "" ->
  tyok sch FUEL (TNamed T) nm false false = true ->
  top_name_ok (TNamed T) nm = true ->
  is_struct (rk sch (TNamed T)) = true ->
  wfb sch T v = true ->
  exists e, encode1 sch T v = Ok e /\ decode sch T e = Ok v /\ xname e = nm.
Proof.
  intros T nm v Hne Hty Htop Hst Hwf. unfold wfb in Hwf.
  destruct (RT_all sch FUEL (le_n _) (TNamed T) v None (Some nm) false Hwf Hty Hne)
    as [es [Hm [Hnames [Habs Hone]]]].
  assert (H1 : one_ok sch (TNamed T) v false = true).
  { unfold one_ok. destruct (rk sch (TNamed T)); cbn in Hst; try discriminate. reflexivity. }
  destruct (Hone H1) as [e ->]. exists e. split; [|split].
  - unfold encode1, encode. pose proof (Hm FUEL (le_n _)) as Hmm.
    unfold FUEL in *. cbn [marshal] in *. rewrite (top_template _ _ nm _ Hne Htop). rewrite Hmm. reflexivity.
  - unfold decode.
    assert (Hz : zero_like sch FUEL (TNamed T) (zero sch FUEL (TNamed T)) = true).
    { apply zero_like_zero with (x := v); [lia | left; exact Hwf]. }
    pose proof (Habs FUEL _ (le_n _) Hz) as Ha. cbn [absorb] in Ha.
    destruct (unmarshal sch FUEL FUEL (TNamed T) (zero sch FUEL (TNamed T)) e); cbn [rbind] in Ha; [|discriminate].
    exact Ha.
  - inversion Hnames; subst. assumption.
Qed.

(* a value written as the field [nm] of a parent, read back from the zero value *)
Theorem roundtrip_field : forall ty nm omit v,
  nm <> "" ->
  tyok sch FUEL ty nm omit false = true ->
  wf sch FUEL ty v = true ->
  exists es, marshal sch FUEL ty v (Some (nm, omit)) None = Ok es
             /\ Forall (fun e => xname e = nm) es
             /\ absorb sch FUEL ty (zero sch FUEL ty) es = Ok v.
Proof.
  intros ty nm omit v Hne Hty Hwf.
  destruct (RT_all sch FUEL (le_n _) ty v (Some (nm, omit)) None false Hwf Hty Hne)
    as [es [Hm [Hnames [Habs _]]]]. cbn [given_name fi_name] in *.
  exists es. split; [apply Hm; lia | split; [exact Hnames|]].
  apply Habs; [lia|]. apply zero_like_zero with (x := v); [lia | left; exact Hwf].
Qed.

End Top.
