(* Codec/ProofsScan.v — the streaming scanner on the library's own output: scanning the text
   marshalled for a container yields, in document order, the objects the container holds
   (= the document-order flattening of what the whole-document decoder returns, by the
   container round-trip theorems). *)
From Coq Require Import List String Bool ZArith Lia.
From Verif Require Import Codec.Schema Codec.Value Codec.Xml Codec.Wf Codec.Scan Codec.ProofsAttr Codec.ProofsKids
     Codec.ProofsRT Codec.ProofsSteps Codec.ProofsStruct Codec.ProofsMain Codec.ProofsTop Codec.ProofsForced
     Codec.ProofsBlock Codec.ProofsContainers Codec.ProofsDiff.
Import ListNotations.
Open Scope string_scope.
Open Scope list_scope.

Section ScanP.
Variable sch : schema.

(* the scanner over a sequence of sibling elements *)
Fixpoint scan_seq (l : list xml) : list obj * option err :=
  match l with
  | [] => ([], None)
  | k :: r =>
      let '(a, er) := scan_el sch k in
      match er with
      | Some _ => (a, er)
      | None => let '(b, er') := scan_seq r in (a ++ b, er')
      end
  end.

Lemma scan_el_container : forall nm a kids t,
  assoc_str scan_kinds (lower_ascii nm) = None -> scan_el sch (Elem nm a kids t) = scan_seq kids.
Proof.
  intros nm a kids t H. cbn [scan_el]. rewrite H. induction kids as [|k r IH]; [reflexivity|].
  cbn [scan_seq]. destruct (scan_el sch k) as [o [er|]]; [reflexivity|]. rewrite IH. reflexivity.
Qed.

Lemma scan_el_object : forall nm T a k t x,
  assoc_str scan_kinds (lower_ascii nm) = Some T -> decode sch T (Elem nm a k t) = Ok x ->
  scan_el sch (Elem nm a k t) = ([(T, x)], None).
Proof. intros nm T a k t x H Hd. cbn [scan_el]. rewrite H, Hd. reflexivity. Qed.

Lemma scan_seq_app : forall l1 l2 o1 o2 er,
  scan_seq l1 = (o1, None) -> scan_seq l2 = (o2, er) -> scan_seq (l1 ++ l2) = (o1 ++ o2, er).
Proof.
  induction l1 as [|k r IH]; intros l2 o1 o2 er H1 H2.
  - cbn in H1. inversion H1; subst. exact H2.
  - cbn [app scan_seq] in *. destruct (scan_el sch k) as [a [e0|]]; [discriminate|].
    destruct (scan_seq r) as [b er'] eqn:Hr. inversion H1; subst.
    rewrite (IH l2 b o2 er eq_refl H2). rewrite app_assoc. reflexivity.
Qed.

(* ---------- what a slice read element by element looks like ---------- *)
Lemma absorb_slice_inv : forall m ty t es acc l',
  rk sch ty = RSlice t -> unmarshal_hook sch ty = None ->
  absorb sch (S m) ty (VList acc) es = Ok (VList l') ->
  exists ys, l' = acc ++ ys /\ Forall2 (fun ex y => unmarshal sch FUEL m t (zero sch FUEL t) ex = Ok y) es ys.
Proof.
  intros m ty t es. induction es as [|e r IH]; intros acc l' Hk Hh H.
  - cbn [absorb] in H. injection H as <-. exists []. split; [rewrite app_nil_r; reflexivity | constructor].
  - cbn [absorb] in H. rewrite unmarshal_S in H. rewrite (us_slice sch _ _ _ _ _ _ Hk Hh) in H.
    destruct (unmarshal sch FUEL m t (zero sch FUEL t) e) as [v|er] eqn:Hu; cbn [rbind] in H; [|discriminate].
    destruct (IH _ _ Hk Hh H) as [ys [-> Hf]]. exists (v :: ys). split; [rewrite <- app_assoc; reflexivity|].
    constructor; assumption.
Qed.

Definition ptr_objs (T : string) (v : value) : list obj :=
  match v with VPtr (Some x) => [(T, x)] | _ => [] end.
Definition list_objs (T : string) (v : value) : list obj :=
  match v with VList l => flat_map (ptr_objs T) l | _ => [] end.

(* a pointer element decoded with fuel S FUEL is the object the scanner decodes *)
Lemma ptr_elem_decode : forall T ex y,
  unmarshal sch FUEL (S FUEL) (TPtr (TNamed T)) (zero sch FUEL (TPtr (TNamed T))) ex = Ok y ->
  exists x, y = VPtr (Some x) /\ decode sch T ex = Ok x.
Proof.
  intros T ex y H. assert (Hkp : rk sch (TPtr (TNamed T)) = RPtr (TNamed T)) by reflexivity.
  change (zero sch FUEL (TPtr (TNamed T))) with (zero sch (S 15) (TPtr (TNamed T))) in H.
  rewrite (zero_ptr sch 15 _ _ Hkp) in H. rewrite unmarshal_S in H. rewrite (us_ptr_nil sch _ _ _ _ _ Hkp) in H.
  unfold decode. destruct (unmarshal sch FUEL FUEL (TNamed T) (zero sch FUEL (TNamed T)) ex) as [x|er]; cbn [rbind] in H; [|discriminate].
  exists x. split; [inversion H; reflexivity | reflexivity].
Qed.

(* one of the object lists of a block *)
Lemma list_scan : forall e f nm T l m0,
  (e <= FUEL)%nat -> (e <= m0)%nat ->
  elt_ok sch e f nm T = true -> nm <> "" ->
  assoc_str scan_kinds (lower_ascii nm) = Some T ->
  wf sch e (f_type f) (VList l) = true ->
  exists es, marshal sch m0 (f_type f) (VList l) None None = Ok es
             /\ scan_seq es = (list_objs T (VList l), None).
Proof.
  intros e f nm T l m0 He Hm0 Hs Hne Hkind Hwf. unfold elt_ok in Hs. do 4 (apply andb_true_iff in Hs; destruct Hs as [Hs ?]).
  destruct (rk sch (f_type f)) as [| | | | |t0|t1| |] eqn:Hk; try discriminate.
  match goal with E : gotype_eqb t1 _ = true |- _ => apply gotype_eqb_eq in E; subst t1 end.
  assert (Huh : unmarshal_hook sch (f_type f) = None) by (destruct (unmarshal_hook sch (f_type f)); [discriminate | reflexivity]).
  destruct (RT_tmpl sch e (f_type f) _ nm false He Hwf ltac:(assumption) Hne) as [es [Hm [Hnames [Habs _]]]].
  assert (Hz : zero_like sch e (f_type f) (VList []) = true).
  { destruct e; [discriminate|]. cbn [zero_like]. rewrite Hk. reflexivity. }
  pose proof (Habs (S (S FUEL)) (VList []) ltac:(lia) Hz) as Ha.
  destruct (absorb_slice_inv _ _ _ _ _ _ Hk Huh Ha) as [ys [Hys Hf2]]. cbn [app] in Hys. subst ys.
  exists es. split.
  - rewrite (forced_eq sch e (f_type f) _ nm Hwf ltac:(assumption) m0 None Hm0). apply Hm. exact Hm0.
  - clear Ha Hm Habs Hwf. cbn [list_objs]. revert Hnames. induction Hf2 as [|ex y es' l' Hxy Hrest IH]; intros Hnames; [reflexivity|].
    apply Forall_cons_iff in Hnames. destruct Hnames as [Hn1 Hn2].
    destruct (ptr_elem_decode T ex y Hxy) as [x [-> Hd]]. destruct ex as [n a k t]. cbn [xname] in Hn1. subst n.
    cbn [scan_seq flat_map ptr_objs]. rewrite (scan_el_object _ T _ _ _ x Hkind Hd). rewrite (IH Hn2). reflexivity.
Qed.

(* the top-level bounds of a block *)
Definition bnd_ok (k : nat) (f : field) : bool :=
  gotype_eqb (f_type f) (TPtr (TNamed "Bounds"))
  && tyok sch k (f_type f) "bounds" false false && forced sch k (f_type f) "bounds".

Lemma bounds_scan : forall e f p m0,
  (e <= FUEL)%nat -> (e <= m0)%nat -> bnd_ok e f = true ->
  wf sch e (f_type f) p = true ->
  exists es, marshal sch m0 (f_type f) p None None = Ok es /\ scan_seq es = (ptr_objs "Bounds" p, None).
Proof.
  intros e f p m0 He Hm0 Hs Hwf. unfold bnd_ok in Hs. do 2 (apply andb_true_iff in Hs; destruct Hs as [Hs ?]).
  apply gotype_eqb_eq in Hs. rewrite Hs in *.
  assert (Hkp : rk sch (TPtr (TNamed "Bounds")) = RPtr (TNamed "Bounds")) by reflexivity.
  destruct e as [|e']; [discriminate|]. pose proof Hwf as Hwf0. cbn [wf] in Hwf. rewrite Hkp in Hwf.
  destruct p as [| | | | |[b|]| | |]; try discriminate.
  - destruct (RT_tmpl sch (S e') _ _ "bounds" false He Hwf0 ltac:(assumption) ltac:(discriminate)) as [es [Hm [Hnames [Habs Hone]]]].
    destruct (Hone ltac:(unfold one_ok; rewrite Hkp; reflexivity)) as [ex ->].
    assert (Hz : zero_like sch (S e') (TPtr (TNamed "Bounds")) (VPtr None) = true) by (cbn [zero_like]; rewrite Hkp; reflexivity).
    pose proof (Habs (S FUEL) (VPtr None) ltac:(lia) Hz) as Ha. cbn [absorb] in Ha.
    rewrite unmarshal_S in Ha. rewrite (us_ptr_nil sch _ _ _ _ _ Hkp) in Ha.
    assert (Hd : decode sch "Bounds" ex = Ok b).
    { unfold decode. destruct (unmarshal sch FUEL FUEL (TNamed "Bounds") (zero sch FUEL (TNamed "Bounds")) ex); cbn [rbind] in Ha; [|discriminate].
      inversion Ha. reflexivity. }
    exists [ex]. split.
    + rewrite (forced_eq sch (S e') _ _ "bounds" Hwf0 ltac:(assumption) m0 None Hm0). apply Hm. exact Hm0.
    + apply Forall_inv in Hnames. rename Hnames into Hn1. destruct ex as [n a k t]. cbn [xname] in Hn1. subst n.
      cbn [scan_seq ptr_objs]. rewrite (scan_el_object "bounds" "Bounds" _ _ _ b eq_refl Hd). reflexivity.
  - exists []. split; [|reflexivity]. destruct m0 as [|m1]; [lia|]. rewrite marshal_S. exact (ms_ptr_nil sch _ _ _ _ _ Hkp).
Qed.

Lemma elt_list_shape : forall e f nm T v,
  elt_ok sch e f nm T = true -> wf sch e (f_type f) v = true -> exists l, v = VList l.
Proof.
  intros e f nm T v Hs Hwf. unfold elt_ok in Hs. do 4 (apply andb_true_iff in Hs; destruct Hs as [Hs ?]).
  destruct (rk sch (f_type f)) eqn:Hk; try discriminate. destruct e; [discriminate|]. cbn [wf] in Hwf. rewrite Hk in Hwf.
  destruct v; try discriminate. eexists; reflexivity.
Qed.

(* ---------- an OSM block ---------- *)
Definition fval (d : typedef) (v : value) (nm : string) : value :=
  match v with
  | VStruct vs => match fget_go (struct_fields d) vs nm with Some (_, x) => x | None => VOpaque end
  | _ => VOpaque
  end.

(* the objects of an OSM value in the order marshalInnerXML writes them *)
Definition osm_objects (d : typedef) (v : value) : list obj :=
  ptr_objs "Bounds" (fval d v "Bounds") ++ list_objs "Node" (fval d v "Nodes") ++ list_objs "Way" (fval d v "Ways")
  ++ list_objs "Relation" (fval d v "Relations") ++ list_objs "Changeset" (fval d v "Changesets")
  ++ list_objs "Note" (fval d v "Notes") ++ list_objs "User" (fval d v "Users").

Definition scan_static (k : nat) (d : typedef) : bool :=
  match struct_fields d with
  | [_; _; _; _; _; f6; f7; f8; f9; f10; f11; f12] =>
      bnd_ok k f6 && elt_ok sch k f7 "node" "Node" && elt_ok sch k f8 "way" "Way"
      && elt_ok sch k f9 "relation" "Relation" && elt_ok sch k f10 "changeset" "Changeset"
      && elt_ok sch k f11 "note" "Note" && elt_ok sch k f12 "user" "User"
  | _ => false
  end.

Lemma osm_inner_scan : forall e d vs m0,
  (e <= FUEL)%nat -> (e <= m0)%nat ->
  osm_static sch e d = true -> scan_static e d = true ->
  fields_all (wf sch e) (zero_like sch e) (struct_fields d) vs = true ->
  exists kids, osm_inner (marshal sch m0) d (VStruct vs) = Ok kids
               /\ scan_seq kids = (osm_objects d (VStruct vs), None).
Proof.
  intros e d vs m0 He Hm0 Hst Hsc Hwf. unfold osm_static in Hst.
  apply andb_true_iff in Hst. destruct Hst as [Hst Hshape]. unfold scan_static in Hsc.
  destruct (struct_fields d) as [|f1 [|f2 [|f3 [|f4 [|f5 [|f6 [|f7 [|f8 [|f9 [|f10 [|f11 [|f12 [|f13 fs]]]]]]]]]]]]] eqn:Hfs;
    try discriminate.
  destruct vs as [|v1 [|v2 [|v3 [|v4 [|v5 [|v6 [|v7 [|v8 [|v9 [|v10 [|v11 [|v12 [|v13 vs]]]]]]]]]]]]];
    try (cbn [fields_all] in Hwf; repeat (apply andb_true_iff in Hwf; destruct Hwf as [? Hwf]); discriminate).
  do 11 (apply andb_true_iff in Hshape; destruct Hshape as [Hshape ?]).
  repeat match goal with H : hdr_ok sch ?f ?a ?b = true |- _ =>
    apply hdr_ok_inv in H;
    let a := fresh "Hn" in let b := fresh "Ha" in let c := fresh "Hs" in let e0 := fresh "Ho" in
    let g := fresh "Hen" in let h := fresh "Hk" in destruct H as (a & b & c & e0 & g & h) end.
  repeat match goal with H : el_ok sch _ ?f ?a = true |- _ =>
    apply el_ok_inv in H;
    let a := fresh "Hn" in let b := fresh "Hel" in let c := fresh "Hp" in let e0 := fresh "Hf" in
    destruct H as (a & b & c & e0) end.
  do 6 (apply andb_true_iff in Hsc; destruct Hsc as [Hsc ?]).
  cbn [fields_all] in Hwf. repeat (apply andb_true_iff in Hwf; destruct Hwf as [? Hwf]).
  repeat match goal with H : is_elem ?f = true |- _ =>
    match goal with
    | K : is_attr f = false |- _ => fail 1
    | _ => destruct (elem_not_attr f H)
    end end.
  repeat match goal with K : x_skip (f_xml ?f) = false, H : (if x_skip (f_xml ?f) then _ else _) = true |- _ => apply (if_false_hyp _ _ _ K) in H end.
  (* the lists are lists *)
  repeat match goal with E : elt_ok sch e ?f _ _ = true, W : wf sch e (f_type ?f) ?v = true |- _ =>
    match v with
    | VList _ => fail 1
    | _ => let l := fresh "l" in destruct (elt_list_shape _ _ _ _ _ E W) as [l ->]
    end end.
  match goal with W : wf sch e (f_type f6) v6 = true |- _ =>
    destruct (bounds_scan e f6 v6 m0 He Hm0 ltac:(assumption) W) as [esb [Hmb Hsb]] end.
  repeat match goal with E : elt_ok sch e ?f ?nm ?T = true, W : wf sch e (f_type ?f) (VList ?l) = true |- _ =>
    let es := fresh "es" in let Hm := fresh "Hml" in let Hs := fresh "Hsl" in
    destruct (list_scan e f nm T l m0 He Hm0 E ltac:(discriminate) eq_refl W) as [es [Hm Hs]]; clear W end.
  eexists. split.
  - unfold osm_inner, encode_field, fld. rewrite Hfs. cbn [fget_go]. names_goal.
    cbn [String.eqb Ascii.eqb Bool.eqb andb rbind fst snd].
    rewrite Hmb. cbn [rbind].
    repeat match goal with Hm : marshal sch m0 ?t ?v None None = Ok _ |- context[marshal sch m0 ?t ?v None None] => rewrite Hm; cbn [rbind] end.
    reflexivity.
  - unfold osm_objects, fval. rewrite Hfs. cbn [fget_go]. names_goal. cbn [String.eqb Ascii.eqb Bool.eqb andb].
    repeat (eapply scan_seq_app; [eassumption|]). assumption.
Qed.

End ScanP.

Section ScanContainers.
Variable sch : schema.

Lemma not_kind_osm : assoc_str scan_kinds (lower_ascii "osm") = None. Proof. reflexivity. Qed.
Lemma not_kind_change : assoc_str scan_kinds (lower_ascii "osmChange") = None. Proof. reflexivity. Qed.

(* ---------- OSM ---------- *)
Lemma scanner_osm_k : forall k d v,
  (k <= FUEL)%nat ->
  lookup_type sch "OSM" = Some d -> osm_top_static sch d = true -> osm_static sch k d = true ->
  scan_static sch k d = true ->
  wf sch (S k) (TNamed "OSM") v = true ->
  exists ex, marshal sch (S k) (TNamed "OSM") v None None = Ok [ex]
             /\ scan_el sch ex = (osm_objects d v, None).
Proof.
  intros k d v Hk0 Hl Hts Hst Hsc Hwf.
  destruct (osm_top_inv sch d Hl Hts) as (Hk & Hname & Hmh & Huh).
  destruct (wf_struct_inv sch _ _ d v Hwf Hk) as [vs [-> [Hwfs _]]].
  destruct (osm_block sch k d vs Hk0 Hst Hwfs) as [al [kids0 [Hal _]]].
  destruct (osm_inner_scan sch k d vs k Hk0 (le_n _) Hst Hsc Hwfs) as [kids [Hkids Hscan]].
  exists (Elem "osm" al kids no_text). split.
  - rewrite marshal_S.
    rewrite (ms_hook sch _ (TNamed "OSM") d (VStruct vs) None None); [| rewrite Hk; reflexivity | reflexivity | exact Hmh].
    unfold hook_marshal. rewrite Hname. cbn [String.eqb Ascii.eqb Bool.eqb]. unfold osm_marshal.
    rewrite Hal. cbn [rbind]. rewrite Hkids. reflexivity.
  - rewrite (scan_el_container sch _ _ _ _ not_kind_osm). exact Hscan.
Qed.

Theorem scanner_osm : forall d v,
  lookup_type sch "OSM" = Some d -> osm_top_static sch d = true -> osm_static sch 15 d = true ->
  scan_static sch 15 d = true ->
  wf sch FUEL (TNamed "OSM") v = true ->
  exists ex, encode1 sch "OSM" v = Ok ex /\ scan_el sch ex = (osm_objects d v, None).
Proof.
  intros d v Hl Hts Hst Hsc Hwf.
  assert (H15 : (15 <= FUEL)%nat) by (unfold FUEL; repeat constructor).
  destruct (scanner_osm_k 15 d v H15 Hl Hts Hst Hsc Hwf) as [ex [He Hs]].
  exists ex. split; [|exact Hs]. unfold encode1, encode. change FUEL with (S 15). rewrite He. reflexivity.
Qed.

(* ---------- a create / modify / delete / old / new block ---------- *)
Definition blk_objs (dO : typedef) (p : value) : list obj :=
  match p with VPtr (Some o) => osm_objects dO o | _ => [] end.

Lemma block_scan : forall c dO nm p,
  (S (S c) <= FUEL)%nat ->
  lookup_type sch "OSM" = Some dO -> osm_top_static sch dO = true -> osm_static sch c dO = true ->
  scan_static sch c dO = true ->
  assoc_str scan_kinds (lower_ascii nm) = None ->
  wf sch (S (S c)) (TPtr (TNamed "OSM")) p = true ->
  exists es, inner_change sch (marshal sch (S (S c))) nm p = Ok es
             /\ scan_seq sch es = (blk_objs dO p, None).
Proof.
  intros c dO nm p Hc Hl Hts Hst Hsc Hnk Hwf.
  destruct (osm_top_inv sch dO Hl Hts) as (HkO & _).
  assert (Hkp : rk sch (TPtr (TNamed "OSM")) = RPtr (TNamed "OSM")) by reflexivity.
  cbn [wf] in Hwf. rewrite Hkp in Hwf. destruct p as [| | | | |[ov|]| | |]; try discriminate.
  - destruct (wf_struct_inv sch c _ dO ov Hwf HkO) as [ovs [-> [Hwfs _]]].
    destruct (osm_inner_scan sch c dO ovs (S (S c)) ltac:(lia) ltac:(lia) Hst Hsc Hwfs) as [kids [Hkids Hscan]].
    exists [Elem nm [] kids no_text]. split.
    + unfold inner_change. rewrite Hl, Hkids. reflexivity.
    + cbn [scan_seq blk_objs]. rewrite (scan_el_container sch _ _ _ _ Hnk). rewrite Hscan. rewrite app_nil_r. reflexivity.
  - exists []. split; reflexivity.
Qed.

(* ---------- Change ---------- *)
Definition change_objects (dC dO : typedef) (v : value) : list obj :=
  blk_objs dO (fval dC v "Create") ++ blk_objs dO (fval dC v "Modify") ++ blk_objs dO (fval dC v "Delete").

Lemma not_kind_create : assoc_str scan_kinds (lower_ascii "create") = None. Proof. reflexivity. Qed.
Lemma not_kind_modify : assoc_str scan_kinds (lower_ascii "modify") = None. Proof. reflexivity. Qed.
Lemma not_kind_delete : assoc_str scan_kinds (lower_ascii "delete") = None. Proof. reflexivity. Qed.

Lemma scanner_change_k : forall c dC dO v,
  (S (S (S c)) <= FUEL)%nat ->
  lookup_type sch "Change" = Some dC -> change_static sch dC = true ->
  lookup_type sch "OSM" = Some dO -> osm_top_static sch dO = true -> osm_static sch c dO = true ->
  scan_static sch c dO = true ->
  wf sch (S (S (S c))) (TNamed "Change") v = true ->
  exists ex, marshal sch (S (S (S c))) (TNamed "Change") v None None = Ok [ex]
             /\ scan_el sch ex = (change_objects dC dO v, None).
Proof.
  intros c dC dO v Hc HlC HsC HlO HtO HsO HscO Hwf.
  destruct (roundtrip_change_k sch c dC dO v Hc HlC HsC HlO HtO HsO Hwf) as [e0 [Hm0 _]].
  pose proof HsC as Hst. unfold change_static in Hst.
  apply andb_true_iff in Hst; destruct Hst as [Hst Hshape].
  do 8 (apply andb_true_iff in Hst; destruct Hst as [Hst ?]).
  match goal with E : String.eqb (t_name dC) "Change" = true |- _ => apply String.eqb_eq in E; rename E into Hname end.
  pose proof (change_static_rk sch dC HlC HsC) as Hk.
  assert (Hmh : marshal_hook sch (TNamed "Change") = Some dC).
  { destruct (marshal_hook sch (TNamed "Change")) as [d0|] eqn:E; [|discriminate].
    pose proof (marshal_hook_def sch _ _ E) as E2. assert (named_def sch (TNamed "Change") = Some dC) by exact HlC. congruence. }
  destruct (wf_struct_inv sch _ _ dC v Hwf Hk) as [vs [-> [Hwfs _]]].
  destruct (struct_fields dC) as [|f1 [|f2 [|f3 [|f4 [|f5 [|f6 [|f7 [|f8 [|f9 fs]]]]]]]]] eqn:Hfs; try discriminate.
  destruct vs as [|v1 [|v2 [|v3 [|v4 [|v5 [|v6 [|v7 [|v8 [|v9 vs]]]]]]]]];
    try (cbn [fields_all] in Hwfs; repeat (apply andb_true_iff in Hwfs; destruct Hwfs as [? Hwfs]); discriminate).
  do 7 (apply andb_true_iff in Hshape; destruct Hshape as [Hshape ?]).
  repeat match goal with H : hdr_ok sch ?f ?a ?b = true |- _ =>
    apply hdr_ok_inv in H;
    let a := fresh "Hn" in let b := fresh "Ha" in let c0 := fresh "Hs" in let e1 := fresh "Ho" in
    let g := fresh "Hen" in let h := fresh "Hk" in destruct H as (a & b & c0 & e1 & g & h) end.
  repeat match goal with H : blk_ok sch ?f ?a ?b = true |- _ =>
    apply blk_ok_inv in H;
    let a := fresh "Hn" in let b := fresh "Hel" in let c0 := fresh "Hs" in let e1 := fresh "Hp" in
    let g := fresh "Hen" in let h := fresh "Hty" in destruct H as (a & b & c0 & e1 & g & h) end.
  cbn [fields_all] in Hwfs. repeat (apply andb_true_iff in Hwfs; destruct Hwfs as [? Hwfs]).
  repeat match goal with H : is_elem ?f = true |- _ =>
    match goal with
    | K : is_attr f = false |- _ => fail 1
    | _ => destruct (elem_not_attr f H)
    end end.
  repeat match goal with K : x_skip (f_xml ?f) = false, H : (if x_skip (f_xml ?f) then _ else _) = true |- _ => apply (if_false_hyp _ _ _ K) in H end.
  repeat match goal with E : f_type ?f = TPtr (TNamed "OSM"), W : wf sch (S (S c)) (f_type ?f) _ = true |- _ => rewrite E in W end.
  assert (Hc2 : (S (S c) <= FUEL)%nat) by lia.
  match goal with W : wf sch (S (S c)) (TPtr (TNamed "OSM")) v6 = true |- _ =>
    destruct (block_scan c dO "create" v6 Hc2 HlO HtO HsO HscO not_kind_create W) as [es1 [Hmb1 Hscn1]] end.
  match goal with W : wf sch (S (S c)) (TPtr (TNamed "OSM")) v7 = true |- _ =>
    destruct (block_scan c dO "modify" v7 Hc2 HlO HtO HsO HscO not_kind_modify W) as [es2 [Hmb2 Hscn2]] end.
  match goal with W : wf sch (S (S c)) (TPtr (TNamed "OSM")) v8 = true |- _ =>
    destruct (block_scan c dO "delete" v8 Hc2 HlO HtO HsO HscO not_kind_delete W) as [es3 [Hmb3 Hscn3]] end.
  (* the header attributes exist, since the whole marshal succeeds *)
  rewrite marshal_S in Hm0 |- *.
  rewrite (ms_hook sch _ (TNamed "Change") dC _ None None) in Hm0 |- *; try (rewrite Hk; reflexivity); try reflexivity; try exact Hmh.
  unfold hook_marshal in Hm0 |- *. rewrite Hname in Hm0 |- *. cbn [String.eqb Ascii.eqb Bool.eqb] in Hm0 |- *.
  unfold change_marshal in Hm0 |- *.
  destruct (header_attrs dC (VStruct [v1; v2; v3; v4; v5; v6; v7; v8])) as [al|er]; cbn [rbind] in Hm0 |- *; [|discriminate].
  clear Hm0. unfold inner_change_field, fld. rewrite Hfs. cbn [fget_go]. names_goal.
  cbn [String.eqb Ascii.eqb Bool.eqb andb rbind fst snd]. rewrite Hmb1. cbn [rbind]. rewrite Hmb2. cbn [rbind]. rewrite Hmb3. cbn [rbind].
  eexists. split; [reflexivity|].
  rewrite (scan_el_container sch _ _ _ _ not_kind_change).
  unfold change_objects, fval. rewrite Hfs. cbn [fget_go]. names_goal. cbn [String.eqb Ascii.eqb Bool.eqb andb].
  eapply scan_seq_app; [exact Hscn1|]. eapply scan_seq_app; [exact Hscn2 | exact Hscn3].
Qed.

Theorem scanner_change : forall dC dO v,
  lookup_type sch "Change" = Some dC -> change_static sch dC = true ->
  lookup_type sch "OSM" = Some dO -> osm_top_static sch dO = true -> osm_static sch 13 dO = true ->
  scan_static sch 13 dO = true ->
  wf sch FUEL (TNamed "Change") v = true ->
  exists ex, encode1 sch "Change" v = Ok ex /\ scan_el sch ex = (change_objects dC dO v, None).
Proof.
  intros dC dO v HlC HsC HlO HtO HsO HscO Hwf.
  assert (H16 : (S (S (S 13)) <= FUEL)%nat) by (unfold FUEL; repeat constructor).
  destruct (scanner_change_k 13 dC dO v H16 HlC HsC HlO HtO HsO HscO Hwf) as [ex [He Hs]].
  exists ex. split; [|exact Hs]. unfold encode1, encode. change FUEL with (S (S (S 13))). rewrite He. reflexivity.
Qed.

End ScanContainers.
