(* Codec/ProofsScan.v — the streaming scanner on the library's own output: scanning the text
   marshalled for a container yields, in document order, the objects the container holds
   (= the document-order flattening of what the whole-document decoder returns, by the
   container round-trip theorems). *)
From Coq Require Import List String Bool ZArith Lia.
From Verif Require Import Codec.Schema Codec.Value Codec.Xml Codec.Wf Codec.Scan Codec.ProofsAttr Codec.ProofsKids
     Codec.ProofsRT Codec.ProofsSteps Codec.ProofsStruct Codec.ProofsMain Codec.ProofsTop Codec.ProofsForced
     Codec.ProofsBlock Codec.ProofsContainers Codec.ProofsDiff.
Import ListNotations.
Open Scope string_scope.
Open Scope list_scope.

Section ScanP.
Variable sch : schema.

(* the scanner over a sequence of sibling elements *)
Fixpoint scan_seq (l : list xml) : list obj * option err :=
  match l with
  | [] => ([], None)
  | k :: r =>
      let '(a, er) := scan_el sch k in
      match er with
      | Some _ => (a, er)
      | None => let '(b, er') := scan_seq r in (a ++ b, er')
      end
  end.

Lemma scan_el_container : forall nm a kids t,
  assoc_str scan_kinds (lower_ascii nm) = None -> scan_el sch (Elem nm a kids t) = scan_seq kids.
Proof.
  intros nm a kids t H. cbn [scan_el]. rewrite H. induction kids as [|k r IH]; [reflexivity|].
  cbn [scan_seq]. destruct (scan_el sch k) as [o [er|]]; [reflexivity|]. rewrite IH. reflexivity.
Qed.

Lemma scan_el_object : forall nm T a k t x,
  assoc_str scan_kinds (lower_ascii nm) = Some T -> decode sch T (Elem nm a k t) = Ok x ->
  scan_el sch (Elem nm a k t) = ([(T, x)], None).
Proof. intros nm T a k t x H Hd. cbn [scan_el]. rewrite H, Hd. reflexivity. Qed.

Lemma scan_seq_app : forall l1 l2 o1 o2 er,
  scan_seq l1 = (o1, None) -> scan_seq l2 = (o2, er) -> scan_seq (l1 ++ l2) = (o1 ++ o2, er).
Proof.
  induction l1 as [|k r IH]; intros l2 o1 o2 er H1 H2.
  - cbn in H1. inversion H1; subst. exact H2.
  - cbn [app scan_seq] in *. destruct (scan_el sch k) as [a [e0|]]; [discriminate|].
    destruct (scan_seq r) as [b er'] eqn:Hr. inversion H1; subst.
    rewrite (IH l2 b o2 er eq_refl H2). rewrite app_assoc. reflexivity.
Qed.

(* ---------- what a slice read element by element looks like ---------- *)
Lemma absorb_slice_inv : forall m ty t es acc l',
  rk sch ty = RSlice t -> unmarshal_hook sch ty = None ->
  absorb sch (S m) ty (VList acc) es = Ok (VList l') ->
  exists ys, l' = acc ++ ys /\ Forall2 (fun ex y => unmarshal sch FUEL m t (zero sch FUEL t) ex = Ok y) es ys.
Proof.
  intros m ty t es. induction es as [|e r IH]; intros acc l' Hk Hh H.
  - cbn [absorb] in H. injection H as <-. exists []. split; [rewrite app_nil_r; reflexivity | constructor].
  - cbn [absorb] in H. rewrite unmarshal_S in H. rewrite (us_slice sch _ _ _ _ _ _ Hk Hh) in H.
    destruct (unmarshal sch FUEL m t (zero sch FUEL t) e) as [v|er] eqn:Hu; cbn [rbind] in H; [|discriminate].
    destruct (IH _ _ Hk Hh H) as [ys [-> Hf]]. exists (v :: ys). split; [rewrite <- app_assoc; reflexivity|].
    constructor; assumption.
Qed.

Definition ptr_objs (T : string) (v : value) : list obj :=
  match v with VPtr (Some x) => [(T, x)] | _ => [] end.
Definition list_objs (T : string) (v : value) : list obj :=
  match v with VList l => flat_map (ptr_objs T) l | _ => [] end.

(* a pointer element decoded with fuel S FUEL is the object the scanner decodes *)
Lemma ptr_elem_decode : forall T ex y,
  unmarshal sch FUEL (S FUEL) (TPtr (TNamed T)) (zero sch FUEL (TPtr (TNamed T))) ex = Ok y ->
  exists x, y = VPtr (Some x) /\ decode sch T ex = Ok x.
Proof.
  intros T ex y H. assert (Hkp : rk sch (TPtr (TNamed T)) = RPtr (TNamed T)) by reflexivity.
  change (zero sch FUEL (TPtr (TNamed T))) with (zero sch (S 15) (TPtr (TNamed T))) in H.
  rewrite (zero_ptr sch 15 _ _ Hkp) in H. rewrite unmarshal_S in H. rewrite (us_ptr_nil sch _ _ _ _ _ Hkp) in H.
  unfold decode. destruct (unmarshal sch FUEL FUEL (TNamed T) (zero sch FUEL (TNamed T)) ex) as [x|er]; cbn [rbind] in H; [|discriminate].
  exists x. split; [inversion H; reflexivity | reflexivity].
Qed.

(* one of the object lists of a block *)
Lemma list_scan : forall e f nm T l m0 fi,
  (e <= FUEL)%nat -> (e <= m0)%nat ->
  elt_ok sch e f nm T = true -> nm <> "" ->
  assoc_str scan_kinds (lower_ascii nm) = Some T ->
  wf sch e (f_type f) (VList l) = true ->
  exists es, marshal sch m0 (f_type f) (VList l) fi None = Ok es
             /\ scan_seq es = (list_objs T (VList l), None).
Proof.
  intros e f nm T l m0 fi He Hm0 Hs Hne Hkind Hwf. unfold elt_ok in Hs. do 4 (apply andb_true_iff in Hs; destruct Hs as [Hs ?]).
  destruct (rk sch (f_type f)) as [| | | | |t0|t1| |] eqn:Hk; try discriminate.
  match goal with E : gotype_eqb t1 _ = true |- _ => apply gotype_eqb_eq in E; subst t1 end.
  assert (Huh : unmarshal_hook sch (f_type f) = None) by (destruct (unmarshal_hook sch (f_type f)); [discriminate | reflexivity]).
  destruct (RT_tmpl sch e (f_type f) _ nm false He Hwf ltac:(assumption) Hne) as [es [Hm [Hnames [Habs _]]]].
  assert (Hz : zero_like sch e (f_type f) (VList []) = true).
  { destruct e; [discriminate|]. cbn [zero_like]. rewrite Hk. reflexivity. }
  pose proof (Habs (S (S FUEL)) (VList []) ltac:(lia) Hz) as Ha.
  destruct (absorb_slice_inv _ _ _ _ _ _ Hk Huh Ha) as [ys [Hys Hf2]]. cbn [app] in Hys. subst ys.
  exists es. split.
  - rewrite (forced_eq sch e (f_type f) _ nm Hwf ltac:(assumption) m0 fi Hm0). apply Hm. exact Hm0.
  - clear Ha Hm Habs Hwf. cbn [list_objs]. revert Hnames. induction Hf2 as [|ex y es' l' Hxy Hrest IH]; intros Hnames; [reflexivity|].
    apply Forall_cons_iff in Hnames. destruct Hnames as [Hn1 Hn2].
    destruct (ptr_elem_decode T ex y Hxy) as [x [-> Hd]]. destruct ex as [n a k t]. cbn [xname] in Hn1. subst n.
    cbn [scan_seq flat_map ptr_objs]. rewrite (scan_el_object _ T _ _ _ x Hkind Hd). rewrite (IH Hn2). reflexivity.
Qed.

(* the top-level bounds of a block *)
Definition bnd_ok (k : nat) (f : field) : bool :=
  gotype_eqb (f_type f) (TPtr (TNamed "Bounds"))
  && tyok sch k (f_type f) "bounds" false false && forced sch k (f_type f) "bounds".

Lemma bounds_scan : forall e f p m0,
  (e <= FUEL)%nat -> (e <= m0)%nat -> bnd_ok e f = true ->
  wf sch e (f_type f) p = true ->
  exists es, marshal sch m0 (f_type f) p None None = Ok es /\ scan_seq es = (ptr_objs "Bounds" p, None).
Proof.
  intros e f p m0 He Hm0 Hs Hwf. unfold bnd_ok in Hs. do 2 (apply andb_true_iff in Hs; destruct Hs as [Hs ?]).
  apply gotype_eqb_eq in Hs. rewrite Hs in *.
  assert (Hkp : rk sch (TPtr (TNamed "Bounds")) = RPtr (TNamed "Bounds")) by reflexivity.
  destruct e as [|e']; [discriminate|]. pose proof Hwf as Hwf0. cbn [wf] in Hwf. rewrite Hkp in Hwf.
  destruct p as [| | | | |[b|]| | |]; try discriminate.
  - destruct (RT_tmpl sch (S e') _ _ "bounds" false He Hwf0 ltac:(assumption) ltac:(discriminate)) as [es [Hm [Hnames [Habs Hone]]]].
    destruct (Hone ltac:(unfold one_ok; rewrite Hkp; reflexivity)) as [ex ->].
    assert (Hz : zero_like sch (S e') (TPtr (TNamed "Bounds")) (VPtr None) = true) by (cbn [zero_like]; rewrite Hkp; reflexivity).
    pose proof (Habs (S FUEL) (VPtr None) ltac:(lia) Hz) as Ha. cbn [absorb] in Ha.
    rewrite unmarshal_S in Ha. rewrite (us_ptr_nil sch _ _ _ _ _ Hkp) in Ha.
    assert (Hd : decode sch "Bounds" ex = Ok b).
    { unfold decode. destruct (unmarshal sch FUEL FUEL (TNamed "Bounds") (zero sch FUEL (TNamed "Bounds")) ex); cbn [rbind] in Ha; [|discriminate].
      inversion Ha. reflexivity. }
    exists [ex]. split.
    + rewrite (forced_eq sch (S e') _ _ "bounds" Hwf0 ltac:(assumption) m0 None Hm0). apply Hm. exact Hm0.
    + apply Forall_inv in Hnames. rename Hnames into Hn1. destruct ex as [n a k t]. cbn [xname] in Hn1. subst n.
      cbn [scan_seq ptr_objs]. rewrite (scan_el_object "bounds" "Bounds" _ _ _ b eq_refl Hd). reflexivity.
  - exists []. split; [|reflexivity]. destruct m0 as [|m1]; [lia|]. rewrite marshal_S. exact (ms_ptr_nil sch _ _ _ _ _ Hkp).
Qed.

Lemma elt_list_shape : forall e f nm T v,
  elt_ok sch e f nm T = true -> wf sch e (f_type f) v = true -> exists l, v = VList l.
Proof.
  intros e f nm T v Hs Hwf. unfold elt_ok in Hs. do 4 (apply andb_true_iff in Hs; destruct Hs as [Hs ?]).
  destruct (rk sch (f_type f)) eqn:Hk; try discriminate. destruct e; [discriminate|]. cbn [wf] in Hwf. rewrite Hk in Hwf.
  destruct v; try discriminate. eexists; reflexivity.
Qed.

(* ---------- an OSM block ---------- *)
Definition fval (d : typedef) (v : value) (nm : string) : value :=
  match v with
  | VStruct vs => match fget_go (struct_fields d) vs nm with Some (_, x) => x | None => VOpaque end
  | _ => VOpaque
  end.

(* the objects of an OSM value in the order marshalInnerXML writes them *)
Definition osm_objects (d : typedef) (v : value) : list obj :=
  ptr_objs "Bounds" (fval d v "Bounds") ++ list_objs "Node" (fval d v "Nodes") ++ list_objs "Way" (fval d v "Ways")
  ++ list_objs "Relation" (fval d v "Relations") ++ list_objs "Changeset" (fval d v "Changesets")
  ++ list_objs "Note" (fval d v "Notes") ++ list_objs "User" (fval d v "Users").

Definition scan_static (k : nat) (d : typedef) : bool :=
  match struct_fields d with
  | [_; _; _; _; _; f6; f7; f8; f9; f10; f11; f12] =>
      bnd_ok k f6 && elt_ok sch k f7 "node" "Node" && elt_ok sch k f8 "way" "Way"
      && elt_ok sch k f9 "relation" "Relation" && elt_ok sch k f10 "changeset" "Changeset"
      && elt_ok sch k f11 "note" "Note" && elt_ok sch k f12 "user" "User"
  | _ => false
  end.

Lemma osm_inner_scan : forall e d vs m0,
  (e <= FUEL)%nat -> (e <= m0)%nat ->
  osm_static sch e d = true -> scan_static e d = true ->
  fields_all (wf sch e) (zero_like sch e) (struct_fields d) vs = true ->
  exists kids, osm_inner (marshal sch m0) d (VStruct vs) = Ok kids
               /\ scan_seq kids = (osm_objects d (VStruct vs), None).
Proof.
  intros e d vs m0 He Hm0 Hst Hsc Hwf. unfold osm_static in Hst.
  apply andb_true_iff in Hst. destruct Hst as [Hst Hshape]. unfold scan_static in Hsc.
  destruct (struct_fields d) as [|f1 [|f2 [|f3 [|f4 [|f5 [|f6 [|f7 [|f8 [|f9 [|f10 [|f11 [|f12 [|f13 fs]]]]]]]]]]]]] eqn:Hfs;
    try discriminate.
  destruct vs as [|v1 [|v2 [|v3 [|v4 [|v5 [|v6 [|v7 [|v8 [|v9 [|v10 [|v11 [|v12 [|v13 vs]]]]]]]]]]]]];
    try (cbn [fields_all] in Hwf; repeat (apply andb_true_iff in Hwf; destruct Hwf as [? Hwf]); discriminate).
  do 11 (apply andb_true_iff in Hshape; destruct Hshape as [Hshape ?]).
  repeat match goal with H : hdr_ok sch ?f ?a ?b = true |- _ =>
    apply hdr_ok_inv in H;
    let a := fresh "Hn" in let b := fresh "Ha" in let c := fresh "Hs" in let e0 := fresh "Ho" in
    let g := fresh "Hen" in let h := fresh "Hk" in destruct H as (a & b & c & e0 & g & h) end.
  repeat match goal with H : el_ok sch _ ?f ?a = true |- _ =>
    apply el_ok_inv in H;
    let a := fresh "Hn" in let b := fresh "Hel" in let c := fresh "Hp" in let e0 := fresh "Hf" in
    destruct H as (a & b & c & e0) end.
  do 6 (apply andb_true_iff in Hsc; destruct Hsc as [Hsc ?]).
  cbn [fields_all] in Hwf. repeat (apply andb_true_iff in Hwf; destruct Hwf as [? Hwf]).
  repeat match goal with H : is_elem ?f = true |- _ =>
    match goal with
    | K : is_attr f = false |- _ => fail 1
    | _ => destruct (elem_not_attr f H)
    end end.
  repeat match goal with K : x_skip (f_xml ?f) = false, H : (if x_skip (f_xml ?f) then _ else _) = true |- _ => apply (if_false_hyp _ _ _ K) in H end.
  (* the lists are lists *)
  repeat match goal with E : elt_ok sch e ?f _ _ = true, W : wf sch e (f_type ?f) ?v = true |- _ =>
    match v with
    | VList _ => fail 1
    | _ => let l := fresh "l" in destruct (elt_list_shape _ _ _ _ _ E W) as [l ->]
    end end.
  match goal with W : wf sch e (f_type f6) v6 = true |- _ =>
    destruct (bounds_scan e f6 v6 m0 He Hm0 ltac:(assumption) W) as [esb [Hmb Hsb]] end.
  repeat match goal with E : elt_ok sch e ?f ?nm ?T = true, W : wf sch e (f_type ?f) (VList ?l) = true |- _ =>
    let es := fresh "es" in let Hm := fresh "Hml" in let Hs := fresh "Hsl" in
    destruct (list_scan e f nm T l m0 None He Hm0 E ltac:(discriminate) eq_refl W) as [es [Hm Hs]]; clear W end.
  eexists. split.
  - unfold osm_inner, encode_field, fld. rewrite Hfs. cbn [fget_go]. names_goal.
    cbn [String.eqb Ascii.eqb Bool.eqb andb rbind fst snd].
    rewrite Hmb. cbn [rbind].
    repeat match goal with Hm : marshal sch m0 ?t ?v None None = Ok _ |- context[marshal sch m0 ?t ?v None None] => rewrite Hm; cbn [rbind] end.
    reflexivity.
  - unfold osm_objects, fval. rewrite Hfs. cbn [fget_go]. names_goal. cbn [String.eqb Ascii.eqb Bool.eqb andb].
    repeat (eapply scan_seq_app; [eassumption|]). assumption.
Qed.

End ScanP.

Section ScanContainers.
Variable sch : schema.

Lemma not_kind_osm : assoc_str scan_kinds (lower_ascii "osm") = None. Proof. reflexivity. Qed.
Lemma not_kind_change : assoc_str scan_kinds (lower_ascii "osmChange") = None. Proof. reflexivity. Qed.

(* ---------- OSM ---------- *)
Lemma scanner_osm_k : forall k d v,
  (k <= FUEL)%nat ->
  lookup_type sch "OSM" = Some d -> osm_top_static sch d = true -> osm_static sch k d = true ->
  scan_static sch k d = true ->
  wf sch (S k) (TNamed "OSM") v = true ->
  exists ex, marshal sch (S k) (TNamed "OSM") v None None = Ok [ex]
             /\ scan_el sch ex = (osm_objects d v, None).
Proof.
  intros k d v Hk0 Hl Hts Hst Hsc Hwf.
  destruct (osm_top_inv sch d Hl Hts) as (Hk & Hname & Hmh & Huh).
  destruct (wf_struct_inv sch _ _ d v Hwf Hk) as [vs [-> [Hwfs _]]].
  destruct (osm_block sch k d vs Hk0 Hst Hwfs) as [al [kids0 [Hal _]]].
  destruct (osm_inner_scan sch k d vs k Hk0 (le_n _) Hst Hsc Hwfs) as [kids [Hkids Hscan]].
  exists (Elem "osm" al kids no_text). split.
  - rewrite marshal_S.
    rewrite (ms_hook sch _ (TNamed "OSM") d (VStruct vs) None None); [| rewrite Hk; reflexivity | reflexivity | exact Hmh].
    unfold hook_marshal. rewrite Hname. cbn [String.eqb Ascii.eqb Bool.eqb]. unfold osm_marshal.
    rewrite Hal. cbn [rbind]. rewrite Hkids. reflexivity.
  - rewrite (scan_el_container sch _ _ _ _ not_kind_osm). exact Hscan.
Qed.

Theorem scanner_osm : forall d v,
  lookup_type sch "OSM" = Some d -> osm_top_static sch d = true -> osm_static sch 15 d = true ->
  scan_static sch 15 d = true ->
  wf sch FUEL (TNamed "OSM") v = true ->
  exists ex, encode1 sch "OSM" v = Ok ex /\ scan_el sch ex = (osm_objects d v, None).
Proof.
  intros d v Hl Hts Hst Hsc Hwf.
  assert (H15 : (15 <= FUEL)%nat) by (unfold FUEL; repeat constructor).
  destruct (scanner_osm_k 15 d v H15 Hl Hts Hst Hsc Hwf) as [ex [He Hs]].
  exists ex. split; [|exact Hs]. unfold encode1, encode. change FUEL with (S 15). rewrite He. reflexivity.
Qed.

(* ---------- a create / modify / delete / old / new block ---------- *)
Definition blk_objs (dO : typedef) (p : value) : list obj :=
  match p with VPtr (Some o) => osm_objects dO o | _ => [] end.

Lemma block_scan : forall c dO nm p,
  (S (S c) <= FUEL)%nat ->
  lookup_type sch "OSM" = Some dO -> osm_top_static sch dO = true -> osm_static sch c dO = true ->
  scan_static sch c dO = true ->
  assoc_str scan_kinds (lower_ascii nm) = None ->
  wf sch (S (S c)) (TPtr (TNamed "OSM")) p = true ->
  exists es, inner_change sch (marshal sch (S (S c))) nm p = Ok es
             /\ scan_seq sch es = (blk_objs dO p, None).
Proof.
  intros c dO nm p Hc Hl Hts Hst Hsc Hnk Hwf.
  destruct (osm_top_inv sch dO Hl Hts) as (HkO & _).
  assert (Hkp : rk sch (TPtr (TNamed "OSM")) = RPtr (TNamed "OSM")) by reflexivity.
  cbn [wf] in Hwf. rewrite Hkp in Hwf. destruct p as [| | | | |[ov|]| | |]; try discriminate.
  - destruct (wf_struct_inv sch c _ dO ov Hwf HkO) as [ovs [-> [Hwfs _]]].
    destruct (osm_inner_scan sch c dO ovs (S (S c)) ltac:(lia) ltac:(lia) Hst Hsc Hwfs) as [kids [Hkids Hscan]].
    exists [Elem nm [] kids no_text]. split.
    + unfold inner_change. rewrite Hl, Hkids. reflexivity.
    + cbn [scan_seq blk_objs]. rewrite (scan_el_container sch _ _ _ _ Hnk). rewrite Hscan. rewrite app_nil_r. reflexivity.
  - exists []. split; reflexivity.
Qed.

(* ---------- Change ---------- *)
Definition change_objects (dC dO : typedef) (v : value) : list obj :=
  blk_objs dO (fval dC v "Create") ++ blk_objs dO (fval dC v "Modify") ++ blk_objs dO (fval dC v "Delete").

Lemma not_kind_create : assoc_str scan_kinds (lower_ascii "create") = None. Proof. reflexivity. Qed.
Lemma not_kind_modify : assoc_str scan_kinds (lower_ascii "modify") = None. Proof. reflexivity. Qed.
Lemma not_kind_delete : assoc_str scan_kinds (lower_ascii "delete") = None. Proof. reflexivity. Qed.

Lemma scanner_change_k : forall c dC dO v,
  (S (S (S c)) <= FUEL)%nat ->
  lookup_type sch "Change" = Some dC -> change_static sch dC = true ->
  lookup_type sch "OSM" = Some dO -> osm_top_static sch dO = true -> osm_static sch c dO = true ->
  scan_static sch c dO = true ->
  wf sch (S (S (S c))) (TNamed "Change") v = true ->
  exists ex, marshal sch (S (S (S c))) (TNamed "Change") v None None = Ok [ex]
             /\ scan_el sch ex = (change_objects dC dO v, None).
Proof.
  intros c dC dO v Hc HlC HsC HlO HtO HsO HscO Hwf.
  destruct (roundtrip_change_k sch c dC dO v Hc HlC HsC HlO HtO HsO Hwf) as [e0 [Hm0 _]].
  pose proof HsC as Hst. unfold change_static in Hst.
  apply andb_true_iff in Hst; destruct Hst as [Hst Hshape].
  do 8 (apply andb_true_iff in Hst; destruct Hst as [Hst ?]).
  match goal with E : String.eqb (t_name dC) "Change" = true |- _ => apply String.eqb_eq in E; rename E into Hname end.
  pose proof (change_static_rk sch dC HlC HsC) as Hk.
  assert (Hmh : marshal_hook sch (TNamed "Change") = Some dC).
  { destruct (marshal_hook sch (TNamed "Change")) as [d0|] eqn:E; [|discriminate].
    pose proof (marshal_hook_def sch _ _ E) as E2. assert (named_def sch (TNamed "Change") = Some dC) by exact HlC. congruence. }
  destruct (wf_struct_inv sch _ _ dC v Hwf Hk) as [vs [-> [Hwfs _]]].
  destruct (struct_fields dC) as [|f1 [|f2 [|f3 [|f4 [|f5 [|f6 [|f7 [|f8 [|f9 fs]]]]]]]]] eqn:Hfs; try discriminate.
  destruct vs as [|v1 [|v2 [|v3 [|v4 [|v5 [|v6 [|v7 [|v8 [|v9 vs]]]]]]]]];
    try (cbn [fields_all] in Hwfs; repeat (apply andb_true_iff in Hwfs; destruct Hwfs as [? Hwfs]); discriminate).
  do 7 (apply andb_true_iff in Hshape; destruct Hshape as [Hshape ?]).
  repeat match goal with H : hdr_ok sch ?f ?a ?b = true |- _ =>
    apply hdr_ok_inv in H;
    let a := fresh "Hn" in let b := fresh "Ha" in let c0 := fresh "Hs" in let e1 := fresh "Ho" in
    let g := fresh "Hen" in let h := fresh "Hk" in destruct H as (a & b & c0 & e1 & g & h) end.
  repeat match goal with H : blk_ok sch ?f ?a ?b = true |- _ =>
    apply blk_ok_inv in H;
    let a := fresh "Hn" in let b := fresh "Hel" in let c0 := fresh "Hs" in let e1 := fresh "Hp" in
    let g := fresh "Hen" in let h := fresh "Hty" in destruct H as (a & b & c0 & e1 & g & h) end.
  cbn [fields_all] in Hwfs. repeat (apply andb_true_iff in Hwfs; destruct Hwfs as [? Hwfs]).
  repeat match goal with H : is_elem ?f = true |- _ =>
    match goal with
    | K : is_attr f = false |- _ => fail 1
    | _ => destruct (elem_not_attr f H)
    end end.
  repeat match goal with K : x_skip (f_xml ?f) = false, H : (if x_skip (f_xml ?f) then _ else _) = true |- _ => apply (if_false_hyp _ _ _ K) in H end.
  repeat match goal with E : f_type ?f = TPtr (TNamed "OSM"), W : wf sch (S (S c)) (f_type ?f) _ = true |- _ => rewrite E in W end.
  assert (Hc2 : (S (S c) <= FUEL)%nat) by lia.
  match goal with W : wf sch (S (S c)) (TPtr (TNamed "OSM")) v6 = true |- _ =>
    destruct (block_scan c dO "create" v6 Hc2 HlO HtO HsO HscO not_kind_create W) as [es1 [Hmb1 Hscn1]] end.
  match goal with W : wf sch (S (S c)) (TPtr (TNamed "OSM")) v7 = true |- _ =>
    destruct (block_scan c dO "modify" v7 Hc2 HlO HtO HsO HscO not_kind_modify W) as [es2 [Hmb2 Hscn2]] end.
  match goal with W : wf sch (S (S c)) (TPtr (TNamed "OSM")) v8 = true |- _ =>
    destruct (block_scan c dO "delete" v8 Hc2 HlO HtO HsO HscO not_kind_delete W) as [es3 [Hmb3 Hscn3]] end.
  (* the header attributes exist, since the whole marshal succeeds *)
  rewrite marshal_S in Hm0 |- *.
  rewrite (ms_hook sch _ (TNamed "Change") dC _ None None) in Hm0 |- *; try (rewrite Hk; reflexivity); try reflexivity; try exact Hmh.
  unfold hook_marshal in Hm0 |- *. rewrite Hname in Hm0 |- *. cbn [String.eqb Ascii.eqb Bool.eqb] in Hm0 |- *.
  unfold change_marshal in Hm0 |- *.
  destruct (header_attrs dC (VStruct [v1; v2; v3; v4; v5; v6; v7; v8])) as [al|er]; cbn [rbind] in Hm0 |- *; [|discriminate].
  clear Hm0. unfold inner_change_field, fld. rewrite Hfs. cbn [fget_go]. names_goal.
  cbn [String.eqb Ascii.eqb Bool.eqb andb rbind fst snd]. rewrite Hmb1. cbn [rbind]. rewrite Hmb2. cbn [rbind]. rewrite Hmb3. cbn [rbind].
  eexists. split; [reflexivity|].
  rewrite (scan_el_container sch _ _ _ _ not_kind_change).
  unfold change_objects, fval. rewrite Hfs. cbn [fget_go]. names_goal. cbn [String.eqb Ascii.eqb Bool.eqb andb].
  eapply scan_seq_app; [exact Hscn1|]. eapply scan_seq_app; [exact Hscn2 | exact Hscn3].
Qed.

Theorem scanner_change : forall dC dO v,
  lookup_type sch "Change" = Some dC -> change_static sch dC = true ->
  lookup_type sch "OSM" = Some dO -> osm_top_static sch dO = true -> osm_static sch 13 dO = true ->
  scan_static sch 13 dO = true ->
  wf sch FUEL (TNamed "Change") v = true ->
  exists ex, encode1 sch "Change" v = Ok ex /\ scan_el sch ex = (change_objects dC dO v, None).
Proof.
  intros dC dO v HlC HsC HlO HtO HsO HscO Hwf.
  assert (H16 : (S (S (S 13)) <= FUEL)%nat) by (unfold FUEL; repeat constructor).
  destruct (scanner_change_k 13 dC dO v H16 HlC HsC HlO HtO HsO HscO Hwf) as [ex [He Hs]].
  exists ex. split; [|exact Hs]. unfold encode1, encode. change FUEL with (S (S (S 13))). rewrite He. reflexivity.
Qed.

(* ---------- Diff ---------- *)
Definition elem_objs (dO : typedef) (p : value) : list obj :=
  match p with
  | VPtr (Some ov) => list_objs "Node" (fval dO ov "Nodes") ++ list_objs "Way" (fval dO ov "Ways")
                      ++ list_objs "Relation" (fval dO ov "Relations")
  | _ => []
  end.

Definition act_objs (dA dO : typedef) (a : value) : list obj :=
  elem_objs dO (fval dA a "OSM") ++ blk_objs dO (fval dA a "Old") ++ blk_objs dO (fval dA a "New").

Definition diff_objects (dD dA dO : typedef) (v : value) : list obj :=
  match fval dD v "Actions" with VList la => flat_map (act_objs dA dO) la | _ => [] end
  ++ list_objs "Changeset" (fval dD v "Changesets").

Lemma not_kind_old : assoc_str scan_kinds (lower_ascii "old") = None. Proof. reflexivity. Qed.
Lemma not_kind_new : assoc_str scan_kinds (lower_ascii "new") = None. Proof. reflexivity. Qed.
Lemma not_kind_action : assoc_str scan_kinds (lower_ascii "action") = None. Proof. reflexivity. Qed.

Lemma elements_scan : forall e dO ovs m0,
  (e <= FUEL)%nat -> (e <= m0)%nat ->
  osm_static sch e dO = true -> scan_static sch e dO = true ->
  fields_all (wf sch e) (zero_like sch e) (struct_fields dO) ovs = true ->
  exists els, osm_inner_elements (marshal sch m0) dO (VStruct ovs) = Ok els
              /\ scan_seq sch els = (elem_objs dO (VPtr (Some (VStruct ovs))), None).
Proof.
  intros e d vs m0 He Hm0 Hst Hsc Hwf. unfold osm_static in Hst.
  apply andb_true_iff in Hst. destruct Hst as [Hst Hshape]. unfold scan_static in Hsc.
  destruct (struct_fields d) as [|f1 [|f2 [|f3 [|f4 [|f5 [|f6 [|f7 [|f8 [|f9 [|f10 [|f11 [|f12 [|f13 fs]]]]]]]]]]]]] eqn:Hfs;
    try discriminate.
  destruct vs as [|v1 [|v2 [|v3 [|v4 [|v5 [|v6 [|v7 [|v8 [|v9 [|v10 [|v11 [|v12 [|v13 vs]]]]]]]]]]]]];
    try (cbn [fields_all] in Hwf; repeat (apply andb_true_iff in Hwf; destruct Hwf as [? Hwf]); discriminate).
  do 11 (apply andb_true_iff in Hshape; destruct Hshape as [Hshape ?]).
  repeat match goal with H : hdr_ok sch ?f ?a ?b = true |- _ =>
    apply hdr_ok_inv in H;
    let a := fresh "Hn" in let b := fresh "Ha" in let c := fresh "Hs" in let e0 := fresh "Ho" in
    let g := fresh "Hen" in let h := fresh "Hk" in destruct H as (a & b & c & e0 & g & h) end.
  repeat match goal with H : el_ok sch _ ?f ?a = true |- _ =>
    apply el_ok_inv in H;
    let a := fresh "Hn" in let b := fresh "Hel" in let c := fresh "Hp" in let e0 := fresh "Hf" in
    destruct H as (a & b & c & e0) end.
  do 6 (apply andb_true_iff in Hsc; destruct Hsc as [Hsc ?]).
  cbn [fields_all] in Hwf. repeat (apply andb_true_iff in Hwf; destruct Hwf as [? Hwf]).
  repeat match goal with H : is_elem ?f = true |- _ =>
    match goal with
    | K : is_attr f = false |- _ => fail 1
    | _ => destruct (elem_not_attr f H)
    end end.
  repeat match goal with K : x_skip (f_xml ?f) = false, H : (if x_skip (f_xml ?f) then _ else _) = true |- _ => apply (if_false_hyp _ _ _ K) in H end.
  repeat match goal with E : elt_ok sch e ?f _ _ = true, W : wf sch e (f_type ?f) ?v = true |- _ =>
    match v with
    | VList _ => fail 1
    | _ => let l := fresh "l" in destruct (elt_list_shape sch _ _ _ _ _ E W) as [l ->]
    end end.
  match goal with E : elt_ok sch e f7 ?nm ?T = true, W : wf sch e (f_type f7) (VList ?l) = true |- _ =>
    destruct (list_scan sch e f7 nm T l m0 None He Hm0 E ltac:(discriminate) eq_refl W) as [esn [Hmn Hsn]] end.
  match goal with E : elt_ok sch e f8 ?nm ?T = true, W : wf sch e (f_type f8) (VList ?l) = true |- _ =>
    destruct (list_scan sch e f8 nm T l m0 None He Hm0 E ltac:(discriminate) eq_refl W) as [esw [Hmw Hsw]] end.
  match goal with E : elt_ok sch e f9 ?nm ?T = true, W : wf sch e (f_type f9) (VList ?l) = true |- _ =>
    destruct (list_scan sch e f9 nm T l m0 None He Hm0 E ltac:(discriminate) eq_refl W) as [esr [Hmr Hsr]] end.
  eexists. split.
  - unfold osm_inner_elements, encode_field, fld. rewrite Hfs. cbn [fget_go]. names_goal.
    cbn [String.eqb Ascii.eqb Bool.eqb andb rbind fst snd].
    rewrite Hmn. cbn [rbind]. rewrite Hmw. cbn [rbind]. rewrite Hmr. cbn [rbind]. reflexivity.
  - unfold elem_objs, fval. rewrite Hfs. cbn [fget_go]. names_goal. cbn [String.eqb Ascii.eqb Bool.eqb andb].
    eapply scan_seq_app; [exact Hsn|]. eapply scan_seq_app; [exact Hsw | exact Hsr].
Qed.

Lemma action_scan : forall e dO dA a fi tmpl,
  (S (S (S e)) <= FUEL)%nat ->
  lookup_type sch "OSM" = Some dO -> osm_top_static sch dO = true -> osm_static sch e dO = true ->
  elems_static sch e dO = true -> scan_static sch e dO = true ->
  lookup_type sch "Action" = Some dA -> action_static sch dA = true ->
  given_name fi tmpl = "action" ->
  wf sch (S (S (S e))) (TNamed "Action") a = true ->
  exists ex, marshal sch (S (S (S e))) (TNamed "Action") a fi tmpl = Ok [ex]
             /\ scan_el sch ex = (act_objs dA dO a, None).
Proof.
  intros e dO dA a fi tmpl He HlO HtO HsO HelO HscO HlA HsA Hgn Hwf.
  destruct (action_rt sch e dO He HlO HtO HsO HelO dA HlA HsA a "action" ltac:(discriminate) Hwf) as [e0 [Hm0 _]].
  specialize (Hm0 fi tmpl Hgn).
  pose proof HsA as Hst. unfold action_static in Hst.
  apply andb_true_iff in Hst. destruct Hst as [Hst Hshape].
  do 3 (apply andb_true_iff in Hst; destruct Hst as [Hst ?]).
  match goal with E : String.eqb (t_name dA) "Action" = true |- _ => apply String.eqb_eq in E; rename E into Hname end.
  assert (Hnd : named_def sch (TNamed "Action") = Some dA) by exact HlA.
  pose proof (named_def_rk sch _ dA Hnd Hst) as Hk.
  assert (Hmh : marshal_hook sch (TNamed "Action") = Some dA).
  { destruct (marshal_hook sch (TNamed "Action")) as [d0|] eqn:E; [|discriminate].
    pose proof (marshal_hook_def sch _ _ E). congruence. }
  destruct (wf_struct_inv sch _ _ dA a Hwf Hk) as [vs [-> [Hwfs _]]].
  destruct (struct_fields dA) as [|fT [|fO [|fOld [|fNew [|f5 fs]]]]] eqn:Hfs; try discriminate.
  do 11 (apply andb_true_iff in Hshape; destruct Hshape as [Hshape ?]).
  repeat match goal with E : String.eqb (f_name _) _ = true |- _ => apply String.eqb_eq in E end.
  repeat match goal with E : gotype_eqb _ _ = true |- _ => apply gotype_eqb_eq in E end.
  repeat match goal with E : negb (x_skip _) = true |- _ => apply negb_true_iff in E end.
  destruct vs as [|vT [|vO [|vOld [|vNew [|v5 vs]]]]];
    try (cbn [fields_all] in Hwfs; repeat (apply andb_true_iff in Hwfs; destruct Hwfs as [? Hwfs]); discriminate).
  cbn [fields_all] in Hwfs. repeat (apply andb_true_iff in Hwfs; destruct Hwfs as [? Hwfs]).
  repeat match goal with K : x_skip (f_xml ?f) = false, H : (if x_skip (f_xml ?f) then _ else _) = true |- _ => apply (if_false_hyp _ _ _ K) in H end.
  repeat match goal with E : f_type ?f = TPtr (TNamed "OSM"), W : wf sch (S (S e)) (f_type ?f) _ = true |- _ => rewrite E in W end.
  destruct (osm_top_inv sch dO HlO HtO) as (HkO & _).
  assert (He2 : (S (S e) <= FUEL)%nat) by lia.
  match goal with W : wf sch (S (S e)) (TPtr (TNamed "OSM")) vOld = true |- _ =>
    destruct (block_scan e dO "old" vOld He2 HlO HtO HsO HscO not_kind_old W) as [esOld [HmOld HsOld]] end.
  match goal with W : wf sch (S (S e)) (TPtr (TNamed "OSM")) vNew = true |- _ =>
    destruct (block_scan e dO "new" vNew He2 HlO HtO HsO HscO not_kind_new W) as [esNew [HmNew HsNew]] end.
  assert (Hels : exists els,
            match vO with
            | VPtr None => Ok []
            | VPtr (Some ov) => osm_inner_elements (marshal sch (S (S e))) dO ov
            | _ => Err EShape
            end = Ok els /\ scan_seq sch els = (elem_objs dO vO, None)).
  { match goal with W : wf sch (S (S e)) (TPtr (TNamed "OSM")) vO = true |- _ => rename W into HwO end.
    assert (Hkp : rk sch (TPtr (TNamed "OSM")) = RPtr (TNamed "OSM")) by reflexivity.
    cbn [wf] in HwO. rewrite Hkp in HwO. destruct vO as [| | | | |[ov|]| | |]; try discriminate.
    - destruct (wf_struct_inv sch e _ dO ov HwO HkO) as [ovs [-> [Hwo _]]].
      exact (elements_scan e dO ovs (S (S e)) ltac:(lia) ltac:(lia) HsO HscO Hwo).
    - exists []. split; reflexivity. }
  destruct Hels as [els [Hmels Hsels]].
  rewrite marshal_S in Hm0 |- *.
  rewrite (ms_hook sch _ (TNamed "Action") dA _ fi tmpl) in Hm0 |- *;
    try (rewrite Hk; reflexivity); try (cbn [is_empty]; apply andb_false_r); try exact Hmh.
  unfold hook_marshal in Hm0 |- *. rewrite Hname in Hm0 |- *. cbn [String.eqb Ascii.eqb Bool.eqb] in Hm0 |- *.
  unfold action_marshal, fld in Hm0 |- *. rewrite Hfs in Hm0 |- *. cbn [fget_go] in Hm0 |- *.
  names_in Hm0. names_goal. cbn [String.eqb Ascii.eqb Bool.eqb andb rbind fst snd] in Hm0 |- *.
  destruct vT as [| | |t| | | | |]; try discriminate Hm0. clear Hm0.
  rewrite HlO. rewrite Hmels. cbn [rbind]. unfold inner_change_field, fld. rewrite Hfs. cbn [fget_go]. names_goal.
  cbn [String.eqb Ascii.eqb Bool.eqb andb rbind fst snd]. rewrite HmOld. cbn [rbind]. rewrite HmNew. cbn [rbind].
  eexists. split; [reflexivity|].
  rewrite (default_start_given sch _ fi tmpl ltac:(rewrite Hgn; discriminate)). rewrite Hgn.
  rewrite (scan_el_container sch _ _ _ _ not_kind_action).
  unfold act_objs, fval. rewrite Hfs. cbn [fget_go]. names_goal. cbn [String.eqb Ascii.eqb Bool.eqb andb].
  eapply scan_seq_app; [exact Hsels|]. eapply scan_seq_app; [exact HsOld | exact HsNew].
Qed.

Definition diff_scan_static (e : nat) (dD : typedef) : bool :=
  match struct_fields dD with
  | [fA; fC] => String.eqb (f_name fA) "Actions" && String.eqb (f_name fC) "Changesets"
                && elt_ok sch (S (S (S (S e)))) fC "changeset" "Changeset"
  | _ => false
  end.

Lemma scanner_diff_k : forall e dD dA dO v,
  (S (S (S (S (S e)))) <= FUEL)%nat ->
  lookup_type sch "OSM" = Some dO -> osm_top_static sch dO = true -> osm_static sch e dO = true ->
  elems_static sch e dO = true -> scan_static sch e dO = true ->
  lookup_type sch "Action" = Some dA -> action_static sch dA = true ->
  lookup_type sch "Diff" = Some dD -> diff_static sch e dD = true -> diff_scan_static e dD = true ->
  wf sch (S (S (S (S (S e))))) (TNamed "Diff") v = true ->
  exists ex, marshal sch (S (S (S (S (S e))))) (TNamed "Diff") v None None = Ok [ex]
             /\ scan_el sch ex = (diff_objects dD dA dO v, None).
Proof.
  intros e dD dA dO v Hfu HlO HtO HsO HelO HscO HlA HsA HlD Hst Hdsc Hwf. unfold diff_static in Hst.
  apply andb_true_iff in Hst. destruct Hst as [Hst Hshape].
  do 8 (apply andb_true_iff in Hst; destruct Hst as [Hst ?]).
  match goal with E : String.eqb (xmlname_tag dD) "osm" = true |- _ => apply String.eqb_eq in E; rename E into Hxn end.
  assert (Hnd : named_def sch (TNamed "Diff") = Some dD) by exact HlD.
  pose proof (named_def_rk sch _ dD Hnd Hst) as Hk.
  assert (Hmh : marshal_hook sch (TNamed "Diff") = None) by (destruct (marshal_hook sch (TNamed "Diff")); [discriminate | reflexivity]).
  destruct (wf_struct_inv sch _ _ dD v Hwf Hk) as [vs [-> [Hwfs _]]].
  unfold diff_scan_static in Hdsc.
  destruct (struct_fields dD) as [|fA [|fC [|f3 fs]]] eqn:Hfs; try discriminate.
  do 10 (apply andb_true_iff in Hshape; destruct Hshape as [Hshape ?]).
  do 2 (apply andb_true_iff in Hdsc; destruct Hdsc as [Hdsc ?]).
  apply String.eqb_eq in Hdsc. match goal with E : String.eqb (f_name fC) _ = true |- _ => apply String.eqb_eq in E end.
  destruct (x_parents (f_xml fA)) eqn:HpA; try discriminate. destruct (x_parents (f_xml fC)) eqn:HpC; try discriminate.
  destruct (rk sch (f_type fA)) as [| | | | |t0|tA| |] eqn:HkA; try discriminate.
  match goal with E : gotype_eqb tA _ = true |- _ => apply gotype_eqb_eq in E; subst tA end.
  assert (HmhA : marshal_hook sch (f_type fA) = None) by (destruct (marshal_hook sch (f_type fA)); [discriminate | reflexivity]).
  match goal with E : String.eqb (eff_name sch fA) "action" = true |- _ => apply String.eqb_eq in E; rename E into HnA end.
  match goal with E : negb (x_omitempty (f_xml fA)) = true |- _ => apply negb_true_iff in E; rename E into HoA end.
  rename Hshape into HeA. match goal with E : is_elem fC = true |- _ => rename E into HeC end.
  destruct (elem_not_attr fA HeA) as [HaA HsA']. destruct (elem_not_attr fC HeC) as [HaC HsC].
  destruct vs as [|vA [|vC [|v3 vs]]];
    try (cbn [fields_all] in Hwfs; repeat (apply andb_true_iff in Hwfs; destruct Hwfs as [? Hwfs]); discriminate).
  cbn [fields_all] in Hwfs. repeat (apply andb_true_iff in Hwfs; destruct Hwfs as [? Hwfs]).
  repeat match goal with K : x_skip (f_xml ?f) = false, H : (if x_skip (f_xml ?f) then _ else _) = true |- _ => apply (if_false_hyp _ _ _ K) in H end.
  match goal with W : wf sch _ (f_type fA) vA = true |- _ => rename W into HwA end.
  match goal with W : wf sch _ (f_type fC) vC = true |- _ => rename W into HwC end.
  match goal with E : elt_ok sch _ fC _ _ = true |- _ => rename E into HelC end.
  cbn [wf] in HwA. rewrite HkA in HwA. destruct vA as [| | | | | |la| |]; try discriminate.
  assert (He3 : (S (S (S e)) <= FUEL)%nat) by lia.
  assert (Hact : exists esA, rconcat (fun x => marshal sch (S (S (S e))) (TNamed "Action") x (Some ("action", false)) None) la = Ok esA
                   /\ scan_seq sch esA = (flat_map (act_objs dA dO) la, None)).
  { clear HwC Hwf. induction la as [|x r IH].
    - exists []. split; reflexivity.
    - cbn [forallb] in HwA. apply andb_true_iff in HwA. destruct HwA as [Hx Hr]. apply andb_true_iff in Hx. destruct Hx as [Hwx _].
      destruct (IH Hr) as [es [Hm Hs]].
      destruct (action_scan e dO dA x (Some ("action", false)) None He3 HlO HtO HsO HelO HscO HlA HsA eq_refl Hwx) as [ex [Hmx Hsx]].
      exists ([ex] ++ es). split; [apply rconcat_cons; assumption|].
      cbn [flat_map]. eapply scan_seq_app; [|exact Hs]. cbn [scan_seq]. rewrite Hsx. rewrite app_nil_r. reflexivity. }
  destruct Hact as [esA [HmA HscA]].
  destruct (elt_list_shape sch _ _ _ _ _ HelC HwC) as [lc ->].
  assert (He4 : (S (S (S (S e))) <= FUEL)%nat) by lia.
  destruct (list_scan sch (S (S (S (S e)))) fC "changeset" "Changeset" lc (S (S (S (S e)))) (Some (eff_name sch fC, x_omitempty (f_xml fC)))
              He4 (le_n _) HelC ltac:(discriminate) eq_refl HwC) as [esC [HmC HscC]].
  exists (Elem "osm" [] (List.concat [esA; esC]) no_text). split.
  - rewrite marshal_S. rewrite (ms_struct sch _ _ dD _ None None Hk Hmh). unfold marshal_struct.
    unfold start_name. rewrite Hxn. cbn [String.eqb Ascii.eqb Bool.eqb negb rbind]. rewrite Hfs.
    rewrite !ma_nonattr by (assumption || (cbn [all_supported forallb] in *; repeat match goal with E : _ && _ = true |- _ => apply andb_true_iff in E; destruct E end; assumption)).
    cbn [marshal_attrs rbind]. rewrite !mc_elem by assumption. cbn [marshal_children].
    rewrite HnA, HoA.
    assert (HmA' : marshal sch (S (S (S (S e)))) (f_type fA) (VList la) (Some ("action", false)) None = Ok esA).
    { rewrite marshal_S. rewrite (ms_slice sch _ (f_type fA) (TNamed "Action") la (Some ("action", false)) None HkA eq_refl HmhA). exact HmA. }
    rewrite HmA'. cbn [rbind]. rewrite HmC. cbn [rbind List.concat]. rewrite !app_nil_r. reflexivity.
  - rewrite (scan_el_container sch _ _ _ _ not_kind_osm). cbn [List.concat]. rewrite app_nil_r.
    unfold diff_objects, fval. rewrite Hfs. cbn [fget_go]. rewrite Hdsc. cbn [String.eqb Ascii.eqb Bool.eqb andb].
    match goal with E : f_name fC = "Changesets" |- _ => rewrite E end. cbn [String.eqb Ascii.eqb Bool.eqb andb].
    eapply scan_seq_app; [exact HscA | exact HscC].
Qed.

Theorem scanner_diff : forall dD dA dO v,
  lookup_type sch "OSM" = Some dO -> osm_top_static sch dO = true -> osm_static sch 11 dO = true ->
  elems_static sch 11 dO = true -> scan_static sch 11 dO = true ->
  lookup_type sch "Action" = Some dA -> action_static sch dA = true ->
  lookup_type sch "Diff" = Some dD -> diff_static sch 11 dD = true -> diff_scan_static 11 dD = true ->
  wf sch FUEL (TNamed "Diff") v = true ->
  exists ex, encode1 sch "Diff" v = Ok ex /\ scan_el sch ex = (diff_objects dD dA dO v, None).
Proof.
  intros dD dA dO v H1 H2 H3 H4 H5 H6 H7 H8 H9 H10 Hwf.
  assert (H16 : (S (S (S (S (S 11)))) <= FUEL)%nat) by (unfold FUEL; repeat constructor).
  destruct (scanner_diff_k 11 dD dA dO v H16 H1 H2 H3 H4 H5 H6 H7 H8 H9 H10 Hwf) as [ex [He Hs]].
  exists ex. split; [|exact Hs]. unfold encode1, encode. change FUEL with (S (S (S (S (S 11))))). rewrite He. reflexivity.
Qed.

End ScanContainers.
