(* Codec/ProofsContainers.v — round trip of the containers with hand-written MarshalXML:
   OSM (an <osm> document) and Change (osmChange with create/modify/delete blocks, each an OSM
   block with its own top-level bounds). *)
From Coq Require Import List String Bool ZArith Lia.
From Verif Require Import Codec.Schema Codec.Value Codec.Xml Codec.Wf Codec.ProofsAttr Codec.ProofsKids
     Codec.ProofsRT Codec.ProofsSteps Codec.ProofsStruct Codec.ProofsMain Codec.ProofsTop Codec.ProofsForced
     Codec.ProofsBlock.
Import ListNotations.
Open Scope string_scope.
Open Scope list_scope.

Fixpoint gotype_eqb (a b : gotype) : bool :=
  match a, b with
  | TInt, TInt | TFloat, TFloat | TBool, TBool | TString, TString | TTime, TTime | TXmlName, TXmlName
  | TMap, TMap | TIface, TIface => true
  | TNamed x, TNamed y => String.eqb x y
  | TExt x u, TExt y w => String.eqb x y && gotype_eqb u w
  | TPtr x, TPtr y | TSlice x, TSlice y => gotype_eqb x y
  | TOther x, TOther y => String.eqb x y
  | _, _ => false
  end.

Lemma gotype_eqb_eq : forall a b, gotype_eqb a b = true -> a = b.
Proof.
  induction a; destruct b; cbn; intros H; try discriminate; try reflexivity.
  - apply String.eqb_eq in H. subst. reflexivity.
  - apply andb_true_iff in H. destruct H as [H1 H2]. apply String.eqb_eq in H1. subst. f_equal. apply IHa. exact H2.
  - f_equal. apply IHa. exact H.
  - f_equal. apply IHa. exact H.
  - apply String.eqb_eq in H. subst. reflexivity.
Qed.

Section Containers.
Variable sch : schema.

Lemma unmarshal_S : forall fz m, unmarshal sch fz (S m) = unmarshal_step sch (unmarshal sch fz m) fz.
Proof. reflexivity. Qed.

(* the zero value allocated with more fuel is zero-like at any smaller depth some value lives at *)
Lemma zero_fields_like : forall n k fs vs,
  (n <= k)%nat ->
  fields_all (wf sch n) (zero_like sch n) fs vs = true ->
  fields_all (zero_like sch n) (zero_like sch n) fs (map (fun f => zero sch k (f_type f)) fs) = true.
Proof.
  intros n k fs. induction fs as [|f fs IH]; intros vs Hle H; destruct vs as [|v vs]; try discriminate; [reflexivity|].
  cbn [fields_all map] in *. apply andb_true_iff in H. destruct H as [H1 H2]. rewrite (IH vs Hle H2), andb_true_r.
  assert (Hz : zero_like sch n (f_type f) (zero sch k (f_type f)) = true).
  { apply zero_like_zero with (x := v); [exact Hle|]. destruct (x_skip (f_xml f)); [right | left]; exact H1. }
  destruct (x_skip (f_xml f)); exact Hz.
Qed.

Lemma zero_struct : forall k ty d,
  rk sch ty = RStruct d -> zero sch (S k) ty = VStruct (map (fun f => zero sch k (f_type f)) (struct_fields d)).
Proof. intros k ty d Hk. cbn [zero]. rewrite Hk. reflexivity. Qed.

(* ---------- OSM ---------- *)
Definition osm_top_static (d : typedef) : bool :=
  is_ustruct d && String.eqb (t_name d) "OSM"
  && match marshal_hook sch (TNamed "OSM") with Some _ => true | None => false end
  && match unmarshal_hook sch (TNamed "OSM") with Some _ => false | None => true end.

Lemma osm_top_inv : forall d,
  lookup_type sch "OSM" = Some d -> osm_top_static d = true ->
  rk sch (TNamed "OSM") = RStruct d /\ t_name d = "OSM" /\ marshal_hook sch (TNamed "OSM") = Some d
  /\ unmarshal_hook sch (TNamed "OSM") = None.
Proof.
  intros d Hl H. unfold osm_top_static in H. repeat (apply andb_true_iff in H; destruct H as [H ?]).
  match goal with E : String.eqb (t_name d) "OSM" = true |- _ => apply String.eqb_eq in E end.
  assert (Hnd : named_def sch (TNamed "OSM") = Some d) by exact Hl.
  split; [exact (named_def_rk sch _ d Hnd H)|]. split; [assumption|].
  split.
  - destruct (marshal_hook sch (TNamed "OSM")) as [d0|] eqn:E; [|discriminate].
    pose proof (marshal_hook_def sch _ _ E) as E2. congruence.
  - destruct (unmarshal_hook sch (TNamed "OSM")); [discriminate | reflexivity].
Qed.

(* at a variable depth (literal numerals would make every fixpoint unfold) *)
Lemma roundtrip_osm_k : forall k d v,
  (k <= FUEL)%nat ->
  lookup_type sch "OSM" = Some d -> osm_top_static d = true -> osm_static sch k d = true ->
  wf sch (S k) (TNamed "OSM") v = true ->
  exists e, marshal sch (S k) (TNamed "OSM") v None None = Ok [e] /\ xname e = "osm"
            /\ forall bs, fields_all (zero_like sch k) (zero_like sch k) (struct_fields d) bs = true ->
                          unmarshal sch FUEL (S k) (TNamed "OSM") (VStruct bs) e = Ok v.
Proof.
  intros k d v Hk0 Hl Hts Hst Hwf.
  destruct (osm_top_inv d Hl Hts) as (Hk & Hname & Hmh & Huh).
  cbn [wf] in Hwf. rewrite Hk in Hwf. destruct v as [| | | | | | |vs|]; try discriminate.
  apply andb_true_iff in Hwf. destruct Hwf as [Hwf _].
  destruct (osm_block sch k d vs Hk0 Hst Hwf) as [al [kids [Hal [Hkids [_ Hdec]]]]].
  exists (Elem "osm" al kids no_text). split; [|split; [reflexivity|]].
  - rewrite marshal_S.
    rewrite (ms_hook sch _ (TNamed "OSM") d (VStruct vs) None None); [| rewrite Hk; reflexivity | reflexivity | exact Hmh].
    unfold hook_marshal. rewrite Hname. cbn [String.eqb Ascii.eqb Bool.eqb]. unfold osm_marshal.
    rewrite Hal. cbn [rbind]. rewrite (Hkids k (le_n _)). reflexivity.
  - intros bs Hz. rewrite unmarshal_S. rewrite (us_struct sch _ _ _ d _ _ Hk Huh).
    apply Hdec; [apply le_n | exact Hz].
Qed.

Theorem roundtrip_osm : forall d v,
  lookup_type sch "OSM" = Some d -> osm_top_static d = true -> osm_static sch 15 d = true ->
  wf sch FUEL (TNamed "OSM") v = true ->
  exists e, encode1 sch "OSM" v = Ok e /\ decode sch "OSM" e = Ok v /\ xname e = "osm".
Proof.
  intros d v Hl Hts Hst Hwf.
  assert (H15 : (15 <= FUEL)%nat) by (unfold FUEL; repeat constructor).
  destruct (roundtrip_osm_k 15 d v H15 Hl Hts Hst Hwf) as [e [He [Hn Hd]]].
  exists e. split; [|split; [|exact Hn]].
  - unfold encode1, encode. change FUEL with (S 15). rewrite He. reflexivity.
  - unfold decode. destruct (osm_top_inv d Hl Hts) as (Hk & _).
    change (zero sch FUEL (TNamed "OSM")) with (zero sch (S 15) (TNamed "OSM")).
    rewrite (zero_struct 15 _ d Hk). change (unmarshal sch FUEL FUEL) with (unmarshal sch FUEL (S 15)).
    apply Hd. clear Hd He.
    assert (Hw : exists vs, v = VStruct vs /\ fields_all (wf sch 15) (zero_like sch 15) (struct_fields d) vs = true).
    { change FUEL with (S 15) in Hwf. revert Hwf. generalize 15%nat. intros k Hwf.
      cbn [wf] in Hwf. rewrite Hk in Hwf. destruct v as [| | | | | | |vs|]; try discriminate.
      apply andb_true_iff in Hwf. destruct Hwf as [Hwf _]. exists vs. split; [reflexivity | exact Hwf]. }
    destruct Hw as [vs [_ Hw]]. exact (zero_fields_like 15 15 _ vs (le_n _) Hw).
Qed.

End Containers.
