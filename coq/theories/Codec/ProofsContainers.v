(* Codec/ProofsContainers.v — round trip of the containers with hand-written MarshalXML:
   OSM (an <osm> document) and Change (osmChange with create/modify/delete blocks, each an OSM
   block with its own top-level bounds). *)
From Coq Require Import List String Bool ZArith Lia.
From Verif Require Import Codec.Schema Codec.Value Codec.Xml Codec.Wf Codec.ProofsAttr Codec.ProofsKids
     Codec.ProofsRT Codec.ProofsSteps Codec.ProofsStruct Codec.ProofsMain Codec.ProofsTop Codec.ProofsForced
     Codec.ProofsBlock.
Import ListNotations.
Open Scope string_scope.
Open Scope list_scope.

Fixpoint gotype_eqb (a b : gotype) : bool :=
  match a, b with
  | TInt, TInt | TFloat, TFloat | TBool, TBool | TString, TString | TTime, TTime | TXmlName, TXmlName
  | TMap, TMap | TIface, TIface => true
  | TNamed x, TNamed y => String.eqb x y
  | TExt x u, TExt y w => String.eqb x y && gotype_eqb u w
  | TPtr x, TPtr y | TSlice x, TSlice y => gotype_eqb x y
  | TOther x, TOther y => String.eqb x y
  | _, _ => false
  end.

Lemma gotype_eqb_eq : forall a b, gotype_eqb a b = true -> a = b.
Proof.
  induction a; destruct b; cbn; intros H; try discriminate; try reflexivity.
  - apply String.eqb_eq in H. subst. reflexivity.
  - apply andb_true_iff in H. destruct H as [H1 H2]. apply String.eqb_eq in H1. subst. f_equal. apply IHa. exact H2.
  - f_equal. apply IHa. exact H.
  - f_equal. apply IHa. exact H.
  - apply String.eqb_eq in H. subst. reflexivity.
Qed.

Section Containers.
Variable sch : schema.

Lemma unmarshal_S : forall fz m, unmarshal sch fz (S m) = unmarshal_step sch (unmarshal sch fz m) fz.
Proof. reflexivity. Qed.

(* the zero value allocated with more fuel is zero-like at any smaller depth some value lives at *)
Lemma zero_fields_like : forall n k fs vs,
  (n <= k)%nat ->
  fields_all (wf sch n) (zero_like sch n) fs vs = true ->
  fields_all (zero_like sch n) (zero_like sch n) fs (map (fun f => zero sch k (f_type f)) fs) = true.
Proof.
  intros n k fs. induction fs as [|f fs IH]; intros vs Hle H; destruct vs as [|v vs]; try discriminate; [reflexivity|].
  cbn [fields_all map] in *. apply andb_true_iff in H. destruct H as [H1 H2]. rewrite (IH vs Hle H2), andb_true_r.
  assert (Hz : zero_like sch n (f_type f) (zero sch k (f_type f)) = true).
  { apply zero_like_zero with (x := v); [exact Hle|]. destruct (x_skip (f_xml f)); [right | left]; exact H1. }
  destruct (x_skip (f_xml f)); exact Hz.
Qed.

(* one level of wf, without unfolding deeper levels *)
Lemma wf_struct_inv : forall n ty d v,
  wf sch (S n) ty v = true -> rk sch ty = RStruct d ->
  exists vs, v = VStruct vs
             /\ fields_all (wf sch n) (zero_like sch n) (struct_fields d) vs = true
             /\ wf_extra sch d v = true.
Proof.
  intros n ty d v H Hk. cbn [wf] in H. rewrite Hk in H. destruct v as [| | | | | | |vs|]; try discriminate.
  apply andb_true_iff in H. destruct H as [H1 H2]. exists vs. repeat split; assumption.
Qed.

Lemma zl_struct_inv : forall n ty d b,
  zero_like sch (S n) ty b = true -> rk sch ty = RStruct d ->
  exists bs, b = VStruct bs /\ fields_all (zero_like sch n) (zero_like sch n) (struct_fields d) bs = true.
Proof.
  intros n ty d b H Hk. cbn [zero_like] in H. rewrite Hk in H. destruct b as [| | | | | | |bs|]; try discriminate.
  exists bs. split; [reflexivity | exact H].
Qed.

Lemma zl_ptr_inv : forall n ty t b, zero_like sch (S n) ty b = true -> rk sch ty = RPtr t -> b = VPtr None.
Proof.
  intros n ty t b H Hk. cbn [zero_like] in H. rewrite Hk in H. destruct b as [| | | | |[?|]| | |]; try discriminate. reflexivity.
Qed.

Lemma zl_string_inv : forall n ty b, zero_like sch (S n) ty b = true -> rk sch ty = RString -> b = VStr [].
Proof.
  intros n ty b H Hk. cbn [zero_like] in H. rewrite Hk in H. destruct b as [| | |[|]| | | | |]; try discriminate. reflexivity.
Qed.

Lemma zero_struct : forall k ty d,
  rk sch ty = RStruct d -> zero sch (S k) ty = VStruct (map (fun f => zero sch k (f_type f)) (struct_fields d)).
Proof. intros k ty d Hk. cbn [zero]. rewrite Hk. reflexivity. Qed.

(* ---------- OSM ---------- *)
Definition osm_top_static (d : typedef) : bool :=
  is_ustruct d && String.eqb (t_name d) "OSM"
  && match marshal_hook sch (TNamed "OSM") with Some _ => true | None => false end
  && match unmarshal_hook sch (TNamed "OSM") with Some _ => false | None => true end.

Lemma osm_top_inv : forall d,
  lookup_type sch "OSM" = Some d -> osm_top_static d = true ->
  rk sch (TNamed "OSM") = RStruct d /\ t_name d = "OSM" /\ marshal_hook sch (TNamed "OSM") = Some d
  /\ unmarshal_hook sch (TNamed "OSM") = None.
Proof.
  intros d Hl H. unfold osm_top_static in H. repeat (apply andb_true_iff in H; destruct H as [H ?]).
  match goal with E : String.eqb (t_name d) "OSM" = true |- _ => apply String.eqb_eq in E end.
  assert (Hnd : named_def sch (TNamed "OSM") = Some d) by exact Hl.
  split; [exact (named_def_rk sch _ d Hnd H)|]. split; [assumption|].
  split.
  - destruct (marshal_hook sch (TNamed "OSM")) as [d0|] eqn:E; [|discriminate].
    pose proof (marshal_hook_def sch _ _ E) as E2. congruence.
  - destruct (unmarshal_hook sch (TNamed "OSM")); [discriminate | reflexivity].
Qed.

(* at a variable depth (literal numerals would make every fixpoint unfold) *)
Lemma roundtrip_osm_k : forall k d v,
  (k <= FUEL)%nat ->
  lookup_type sch "OSM" = Some d -> osm_top_static d = true -> osm_static sch k d = true ->
  wf sch (S k) (TNamed "OSM") v = true ->
  exists e, marshal sch (S k) (TNamed "OSM") v None None = Ok [e] /\ xname e = "osm"
            /\ forall bs, fields_all (zero_like sch k) (zero_like sch k) (struct_fields d) bs = true ->
                          unmarshal sch FUEL (S k) (TNamed "OSM") (VStruct bs) e = Ok v.
Proof.
  intros k d v Hk0 Hl Hts Hst Hwf.
  destruct (osm_top_inv d Hl Hts) as (Hk & Hname & Hmh & Huh).
  cbn [wf] in Hwf. rewrite Hk in Hwf. destruct v as [| | | | | | |vs|]; try discriminate.
  apply andb_true_iff in Hwf. destruct Hwf as [Hwf _].
  destruct (osm_block sch k d vs Hk0 Hst Hwf) as [al [kids [Hal [Hkids [_ Hdec]]]]].
  exists (Elem "osm" al kids no_text). split; [|split; [reflexivity|]].
  - rewrite marshal_S.
    rewrite (ms_hook sch _ (TNamed "OSM") d (VStruct vs) None None); [| rewrite Hk; reflexivity | reflexivity | exact Hmh].
    unfold hook_marshal. rewrite Hname. cbn [String.eqb Ascii.eqb Bool.eqb]. unfold osm_marshal.
    rewrite Hal. cbn [rbind]. rewrite (Hkids k (le_n _)). reflexivity.
  - intros bs Hz. rewrite unmarshal_S. rewrite (us_struct sch _ _ _ d _ _ Hk Huh).
    apply Hdec; [apply le_n | exact Hz].
Qed.

Theorem roundtrip_osm : forall d v,
  lookup_type sch "OSM" = Some d -> osm_top_static d = true -> osm_static sch 15 d = true ->
  wf sch FUEL (TNamed "OSM") v = true ->
  exists e, encode1 sch "OSM" v = Ok e /\ decode sch "OSM" e = Ok v /\ xname e = "osm".
Proof.
  intros d v Hl Hts Hst Hwf.
  assert (H15 : (15 <= FUEL)%nat) by (unfold FUEL; repeat constructor).
  destruct (roundtrip_osm_k 15 d v H15 Hl Hts Hst Hwf) as [e [He [Hn Hd]]].
  exists e. split; [|split; [|exact Hn]].
  - unfold encode1, encode. change FUEL with (S 15). rewrite He. reflexivity.
  - unfold decode. destruct (osm_top_inv d Hl Hts) as (Hk & _).
    change (zero sch FUEL (TNamed "OSM")) with (zero sch (S 15) (TNamed "OSM")).
    rewrite (zero_struct 15 _ d Hk). change (unmarshal sch FUEL FUEL) with (unmarshal sch FUEL (S 15)).
    apply Hd. clear Hd He.
    assert (Hw : exists vs, v = VStruct vs /\ fields_all (wf sch 15) (zero_like sch 15) (struct_fields d) vs = true).
    { change FUEL with (S 15) in Hwf. revert Hwf. generalize 15%nat. intros k Hwf.
      cbn [wf] in Hwf. rewrite Hk in Hwf. destruct v as [| | | | | | |vs|]; try discriminate.
      apply andb_true_iff in Hwf. destruct Hwf as [Hwf _]. exists vs. split; [reflexivity | exact Hwf]. }
    destruct Hw as [vs [_ Hw]]. exact (zero_fields_like 15 15 _ vs (le_n _) Hw).
Qed.

(* the <osm> document with its children in ANY order that keeps the order within each kind, and
   with any elements added that are none of its children *)
Lemma decode_osm_any_order_k : forall k d v,
  (k <= FUEL)%nat ->
  lookup_type sch "OSM" = Some d -> osm_top_static d = true -> osm_static sch k d = true ->
  wf sch (S k) (TNamed "OSM") v = true ->
  exists al kids,
    marshal sch (S k) (TNamed "OSM") v None None = Ok [Elem "osm" al kids no_text]
    /\ forall bs kids' t,
         fields_all (zero_like sch k) (zero_like sch k) (struct_fields d) bs = true ->
         same_per_field sch (struct_fields d) kids kids' ->
         unmarshal sch FUEL (S k) (TNamed "OSM") (VStruct bs) (Elem "osm" al kids' t) = Ok v.
Proof.
  intros k d v Hk0 Hl Hts Hst Hwf.
  destruct (osm_top_inv d Hl Hts) as (Hk & Hname & Hmh & Huh).
  destruct (wf_struct_inv _ _ d v Hwf Hk) as [vs [-> [Hwfs _]]].
  destruct (osm_block_any sch k d vs Hk0 Hst Hwfs) as [al [kids [Hal [Hkids Hdec]]]].
  exists al, kids. split.
  - rewrite marshal_S.
    rewrite (ms_hook sch _ (TNamed "OSM") d (VStruct vs) None None); [| rewrite Hk; reflexivity | reflexivity | exact Hmh].
    unfold hook_marshal. rewrite Hname. cbn [String.eqb Ascii.eqb Bool.eqb]. unfold osm_marshal.
    rewrite Hal. cbn [rbind]. rewrite (Hkids k (le_n _)). reflexivity.
  - intros bs kids' t Hz Hsame. rewrite unmarshal_S. rewrite (us_struct sch _ _ _ d _ _ Hk Huh).
    apply Hdec; [apply le_n | exact Hz | exact Hsame].
Qed.

Theorem decode_osm_any_order : forall d v,
  lookup_type sch "OSM" = Some d -> osm_top_static d = true -> osm_static sch 15 d = true ->
  wf sch FUEL (TNamed "OSM") v = true ->
  exists al kids,
    encode1 sch "OSM" v = Ok (Elem "osm" al kids no_text)
    /\ forall kids' t, same_per_field sch (struct_fields d) kids kids' ->
                       decode sch "OSM" (Elem "osm" al kids' t) = Ok v.
Proof.
  intros d v Hl Hts Hst Hwf.
  assert (H15 : (15 <= FUEL)%nat) by (unfold FUEL; repeat constructor).
  destruct (decode_osm_any_order_k 15 d v H15 Hl Hts Hst Hwf) as [al [kids [He Hd]]].
  exists al, kids. split.
  - unfold encode1, encode. change FUEL with (S 15). rewrite He. reflexivity.
  - intros kids' t Hsame. unfold decode. destruct (osm_top_inv d Hl Hts) as (Hk & _).
    change (zero sch FUEL (TNamed "OSM")) with (zero sch (S 15) (TNamed "OSM")).
    rewrite (zero_struct 15 _ d Hk). change (unmarshal sch FUEL FUEL) with (unmarshal sch FUEL (S 15)).
    apply Hd; [|exact Hsame].
    destruct (wf_struct_inv 15 _ d v Hwf Hk) as [vs [_ [Hw _]]].
    exact (zero_fields_like 15 15 _ vs (le_n _) Hw).
Qed.

(* ---------- Change (osmChange) ---------- *)

Definition blk_ok (f : field) (go nm : string) : bool :=
  String.eqb (f_name f) go && is_elem f && field_supported f
  && match x_parents (f_xml f) with [] => true | _ => false end
  && String.eqb (eff_name sch f) nm
  && gotype_eqb (f_type f) (TPtr (TNamed "OSM")).

Lemma blk_ok_inv : forall f go nm, blk_ok f go nm = true ->
  f_name f = go /\ is_elem f = true /\ field_supported f = true /\ x_parents (f_xml f) = []
  /\ eff_name sch f = nm /\ f_type f = TPtr (TNamed "OSM").
Proof.
  intros f go nm H. unfold blk_ok in H. do 5 (apply andb_true_iff in H; destruct H as [H ?]).
  apply String.eqb_eq in H. destruct (x_parents (f_xml f)); try discriminate.
  repeat split; try assumption; [apply String.eqb_eq | apply gotype_eqb_eq]; assumption.
Qed.

Section Blocks.
Variable c : nat.
Variable dO : typedef.
Hypothesis Hc : (S (S (S c)) <= FUEL)%nat.
Hypothesis HlO : lookup_type sch "OSM" = Some dO.
Hypothesis HtsO : osm_top_static dO = true.
Hypothesis HstO : osm_static sch c dO = true.

(* one create/modify/delete (or old/new) block field: *OSM written by marshalInnerChange *)
Lemma block_field : forall f go nm v,
  blk_ok f go nm = true ->
  wf sch (S (S c)) (f_type f) v = true ->
  (match v with VPtr (Some o) => header_empty dO o | _ => true end) = true ->
  exists es,
    inner_change sch (marshal sch (S (S c))) nm v = Ok es
    /\ own_names sch f es
    /\ (forall b, zero_like sch (S (S c)) (f_type f) b = true ->
                  absorb_kids sch (unmarshal sch FUEL (S (S c))) f b es = Ok v).
Proof.
  intros f go nm v Hb Hwf Hhe. destruct (blk_ok_inv _ _ _ Hb) as (Hn & He & Hs & Hp & Hen & Hty).
  destruct (osm_top_inv dO HlO HtsO) as (HkO & HnameO & HmhO & HuhO).
  rewrite Hty in *. cbn [wf] in Hwf.
  assert (Hkp : rk sch (TPtr (TNamed "OSM")) = RPtr (TNamed "OSM")) by reflexivity.
  rewrite Hkp in Hwf. destruct v as [| | | | |o| | |]; try discriminate.
  assert (Hbase : forall b, zero_like sch (S (S c)) (TPtr (TNamed "OSM")) b = true -> b = VPtr None).
  { intros b Hz. cbn [zero_like] in Hz. rewrite Hkp in Hz. destruct b as [| | | | |ob| | |]; try discriminate.
    destruct ob; [discriminate | reflexivity]. }
  destruct o as [ov|].
  - cbn [wf] in Hwf. rewrite HkO in Hwf. destruct ov as [| | | | | | |ovs|]; try discriminate.
    apply andb_true_iff in Hwf. destruct Hwf as [Hwf _].
    assert (Hc0 : (c <= FUEL)%nat) by lia.
    destruct (osm_block sch c dO ovs Hc0 HstO Hwf) as [al [kids [Hal [Hkids [Hnil Hdec]]]]].
    rewrite (Hnil Hhe) in *. clear Hnil.
    exists [Elem nm [] kids no_text]. split; [|split].
    + unfold inner_change. rewrite HlO. rewrite (Hkids (S (S c)) ltac:(lia)). reflexivity.
    + unfold own_names, elem_key. rewrite He, Hp, Hen. constructor; [reflexivity | constructor].
    + intros b Hz. rewrite (Hbase b Hz). cbn [absorb_kids]. unfold key_hit, elem_key, hit_action.
      rewrite He, Hp, Hen. cbn [xname]. rewrite String.eqb_refl. cbn [andb]. rewrite Hty.
      rewrite unmarshal_S. rewrite (us_ptr_nil sch _ _ _ _ _ Hkp). rewrite unmarshal_S.
      rewrite (us_struct sch _ _ _ dO _ _ HkO HuhO).
      change (zero sch FUEL (TNamed "OSM")) with (zero sch (S 15) (TNamed "OSM")).
      rewrite (zero_struct 15 _ dO HkO).
      rewrite (Hdec c _ nm no_text (le_n _) (zero_fields_like c 15 _ ovs ltac:(unfold FUEL in Hc; lia) Hwf)).
      reflexivity.
  - exists []. split; [|split].
    + reflexivity.
    + unfold own_names. rewrite He. constructor.
    + intros b Hz. rewrite (Hbase b Hz). reflexivity.
Qed.

End Blocks.

Definition change_static (d : typedef) : bool :=
  is_ustruct d && String.eqb (t_name d) "Change"
  && match marshal_hook sch (TNamed "Change") with Some _ => true | None => false end
  && match unmarshal_hook sch (TNamed "Change") with Some _ => false | None => true end
  && String.eqb (xmlname_tag d) ""
  && all_supported (struct_fields d) && parents_ok (struct_fields d)
  && nodup_strb (attr_names sch (struct_fields d)) && nodup_strb (elem_keys sch (struct_fields d))
  && match struct_fields d with
     | [f1; f2; f3; f4; f5; f6; f7; f8] =>
         hdr_ok sch f1 "Version" "version" && hdr_ok sch f2 "Generator" "generator"
         && hdr_ok sch f3 "Copyright" "copyright" && hdr_ok sch f4 "Attribution" "attribution"
         && hdr_ok sch f5 "License" "license"
         && blk_ok f6 "Create" "create" && blk_ok f7 "Modify" "modify" && blk_ok f8 "Delete" "delete"
     | _ => false
     end.

Lemma roundtrip_change_k : forall c dC dO v,
  (S (S (S c)) <= FUEL)%nat ->
  lookup_type sch "Change" = Some dC -> change_static dC = true ->
  lookup_type sch "OSM" = Some dO -> osm_top_static dO = true -> osm_static sch c dO = true ->
  wf sch (S (S (S c))) (TNamed "Change") v = true ->
  exists e, marshal sch (S (S (S c))) (TNamed "Change") v None None = Ok [e] /\ xname e = "osmChange"
            /\ forall bs, fields_all (zero_like sch (S (S c))) (zero_like sch (S (S c))) (struct_fields dC) bs = true ->
                          unmarshal sch FUEL (S (S (S c))) (TNamed "Change") (VStruct bs) e = Ok v.
Proof.
  intros c dC dO v Hc HlC Hst HlO HtsO HstO Hwf. unfold change_static in Hst.
  apply andb_true_iff in Hst; destruct Hst as [Hst Hshape].
  do 8 (apply andb_true_iff in Hst; destruct Hst as [Hst ?]).
  match goal with E : String.eqb (t_name dC) "Change" = true |- _ => apply String.eqb_eq in E; rename E into Hname end.
  assert (Hnd : named_def sch (TNamed "Change") = Some dC) by exact HlC.
  pose proof (named_def_rk sch _ dC Hnd Hst) as Hk.
  assert (Hmh : marshal_hook sch (TNamed "Change") = Some dC).
  { destruct (marshal_hook sch (TNamed "Change")) as [d0|] eqn:E; [|discriminate].
    pose proof (marshal_hook_def sch _ _ E). congruence. }
  assert (Huh : unmarshal_hook sch (TNamed "Change") = None).
  { destruct (unmarshal_hook sch (TNamed "Change")); [discriminate | reflexivity]. }
  destruct (wf_struct_inv _ _ dC v Hwf Hk) as [vs [-> [Hwf' Hex]]]. clear Hwf. rename Hwf' into Hwf.
  destruct (struct_fields dC) as [|f1 [|f2 [|f3 [|f4 [|f5 [|f6 [|f7 [|f8 [|f9 fs]]]]]]]]] eqn:Hfs; try discriminate.
  destruct vs as [|v1 [|v2 [|v3 [|v4 [|v5 [|v6 [|v7 [|v8 [|v9 vs]]]]]]]]];
    try (cbn [fields_all] in Hwf; repeat (apply andb_true_iff in Hwf; destruct Hwf as [? Hwf]); discriminate).
  do 7 (apply andb_true_iff in Hshape; destruct Hshape as [Hshape ?]).
  repeat match goal with H : hdr_ok sch ?f ?a ?b = true |- _ =>
    let Hh := fresh "Hh" in assert (Hh : keep (hdr_ok sch f a b = true)) by exact H; apply hdr_ok_inv in H;
    let a := fresh "Hn" in let b := fresh "Ha" in let c := fresh "Hs" in let e := fresh "Ho" in
    let g := fresh "He" in let h := fresh "Hk" in destruct H as (a & b & c & e & g & h) end.
  repeat match goal with H : blk_ok ?f ?a ?b = true |- _ =>
    let Hh := fresh "Hb" in assert (Hh : keep (blk_ok f a b = true)) by exact H; apply blk_ok_inv in H;
    let a := fresh "Hn" in let b := fresh "Hel" in let c := fresh "Hs" in let e := fresh "Hp" in
    let g := fresh "He" in let h := fresh "Hty" in destruct H as (a & b & c & e & g & h) end.
  unfold keep in *.
  cbn [fields_all] in Hwf. repeat (apply andb_true_iff in Hwf; destruct Hwf as [? Hwf]).
  repeat match goal with H : is_attr ?f = true |- _ =>
    match goal with
    | K : x_skip (f_xml f) = false |- _ => fail 1
    | _ => pose proof (attr_not_skip f H)
    end end.
  repeat match goal with H : is_elem ?f = true |- _ =>
    match goal with
    | K : is_attr f = false |- _ => fail 1
    | _ => destruct (elem_not_attr f H)
    end end.
  repeat match goal with K : x_skip (f_xml ?f) = false, H : (if x_skip (f_xml ?f) then _ else _) = true |- _ => apply (if_false_hyp _ _ _ K) in H end.
  (* the wf hypotheses of the header fields, kept for the attribute phase *)
  assert (Hattr : forall bs, fields_all (zero_like sch (S (S c))) (zero_like sch (S (S c))) [f1; f2; f3; f4; f5; f6; f7; f8] bs = true ->
            Forall3 (attr_field_rt sch) [f1; f2; f3; f4; f5; f6; f7; f8] [v1; v2; v3; v4; v5; v6; v7; v8] bs).
  { intros bs Hz. destruct bs as [|b1 [|b2 [|b3 [|b4 [|b5 [|b6 [|b7 [|b8 [|b9 bs]]]]]]]]];
      try (cbn [fields_all] in Hz; repeat (apply andb_true_iff in Hz; destruct Hz as [? Hz]); discriminate).
    cbn [fields_all] in Hz. repeat (apply andb_true_iff in Hz; destruct Hz as [? Hz]).
    repeat match goal with K : x_skip (f_xml ?f) = false, H : (if x_skip (f_xml ?f) then _ else _) = true |- _ => apply (if_false_hyp _ _ _ K) in H end.
    repeat constructor;
      try (intros Hx; congruence);
      (apply (attr_rt_of_wf sch (S (S c))); [unfold attr_ty_ok; match goal with Hk : rk sch (f_type _) = RString |- _ => rewrite Hk end; reflexivity | assumption | assumption]). }
  repeat match goal with Hk : rk sch (f_type ?f) = RString, W : wf sch (S (S c)) (f_type ?f) ?v = true |- _ =>
    let s := fresh "str" in destruct (wf_string sch _ _ _ W Hk) as [s ->]; clear W end.
  match goal with |- context[VStruct [VStr ?a; VStr ?b; VStr ?c0; VStr ?e; VStr ?g; _; _; _]] =>
    rename a into s; rename b into s0; rename c0 into s1; rename e into s2; rename g into s3 end.
  set (al := opt_attr "version" s ++ opt_attr "generator" s0 ++ opt_attr "copyright" s1
             ++ opt_attr "attribution" s2 ++ opt_attr "license" s3 ++ []).
  assert (HA : marshal_attrs sch [f1; f2; f3; f4; f5; f6; f7; f8]
                 [VStr s; VStr s0; VStr s1; VStr s2; VStr s3; v6; v7; v8] = Ok al).
  { rewrite (ma_hdr sch f1 "Version" "version"), (ma_hdr sch f2 "Generator" "generator"),
            (ma_hdr sch f3 "Copyright" "copyright"), (ma_hdr sch f4 "Attribution" "attribution"),
            (ma_hdr sch f5 "License" "license") by assumption.
    rewrite !ma_nonattr by assumption. reflexivity. }
  (* the three blocks *)
  unfold wf_extra in Hex. rewrite Hname in Hex. cbn [String.eqb Ascii.eqb Bool.eqb] in Hex.
  rewrite Hfs in Hex. unfold block_ok in Hex. cbn [fget_go] in Hex.
  rewrite ?Hn, ?Hn0, ?Hn1, ?Hn2, ?Hn3, ?Hn4, ?Hn5, ?Hn6 in Hex.
  cbn [String.eqb Ascii.eqb Bool.eqb andb] in Hex. rewrite HlO in Hex.
  apply andb_true_iff in Hex. destruct Hex as [Hex Hex3]. apply andb_true_iff in Hex. destruct Hex as [Hex1 Hex2].
  assert (Hblk : forall f go nm v, blk_ok f go nm = true -> wf sch (S (S c)) (f_type f) v = true ->
            match v with VPtr None => true | VPtr (Some o) => header_empty dO o | _ => false end = true ->
            exists es, inner_change sch (marshal sch (S (S c))) nm v = Ok es /\ own_names sch f es
                       /\ (forall b, zero_like sch (S (S c)) (f_type f) b = true ->
                                     absorb_kids sch (unmarshal sch FUEL (S (S c))) f b es = Ok v)).
  { intros f go nm v Hbk Hw Hhd. apply (block_field c dO Hc HlO HtsO HstO f go nm v Hbk Hw).
    destruct v as [| | | | |[o|]| | |]; try discriminate; [exact Hhd | reflexivity]. }
  destruct (Hblk f6 "Create" "create" v6 ltac:(assumption) ltac:(assumption) Hex1) as [es1 [Hmm1 [Hown1 Hab1]]].
  destruct (Hblk f7 "Modify" "modify" v7 ltac:(assumption) ltac:(assumption) Hex2) as [es2 [Hmm2 [Hown2 Hab2]]].
  destruct (Hblk f8 "Delete" "delete" v8 ltac:(assumption) ltac:(assumption) Hex3) as [es3 [Hmm3 [Hown3 Hab3]]].
  exists (Elem "osmChange" al (List.concat [[]; []; []; []; []; es1; es2; es3]) no_text).
  split; [|split; [reflexivity|]].
  - rewrite marshal_S.
    rewrite (ms_hook sch _ (TNamed "Change") dC _ None None); [| rewrite Hk; reflexivity | reflexivity | exact Hmh].
    unfold hook_marshal. rewrite Hname. cbn [String.eqb Ascii.eqb Bool.eqb]. unfold change_marshal.
    assert (Hha : header_attrs dC (VStruct [VStr s; VStr s0; VStr s1; VStr s2; VStr s3; v6; v7; v8]) = Ok al).
    { unfold header_attrs.
      rewrite (str_attr_opt dC _ "Version" "version" f1 s), (str_attr_opt dC _ "Generator" "generator" f2 s0),
              (str_attr_opt dC _ "Copyright" "copyright" f3 s1), (str_attr_opt dC _ "Attribution" "attribution" f4 s2),
              (str_attr_opt dC _ "License" "license" f5 s3);
        try (rewrite Hfs; cbn [fget_go]; rewrite ?Hn, ?Hn0, ?Hn1, ?Hn2, ?Hn3, ?Hn4, ?Hn5, ?Hn6; reflexivity).
      cbn [rbind]. unfold al. rewrite app_nil_r. reflexivity. }
    rewrite Hha. cbn [rbind]. unfold inner_change_field, fld. rewrite Hfs. cbn [fget_go].
    rewrite ?Hn, ?Hn0, ?Hn1, ?Hn2, ?Hn3, ?Hn4, ?Hn5, ?Hn6.
    cbn [String.eqb Ascii.eqb Bool.eqb andb rbind fst snd]. rewrite Hmm1. cbn [rbind]. rewrite Hmm2. cbn [rbind].
    rewrite Hmm3. cbn [rbind List.concat app]. rewrite app_nil_r. reflexivity.
  - intros bs Hz. rewrite unmarshal_S. rewrite (us_struct sch _ _ _ dC _ _ Hk Huh).
    rewrite <- Hfs in HA. pose proof (Hattr bs Hz) as Hrt. rewrite <- Hfs in Hrt.
    destruct bs as [|b1 [|b2 [|b3 [|b4 [|b5 [|b6 [|b7 [|b8 [|b9 bs]]]]]]]]];
      try (cbn [fields_all] in Hz; repeat (apply andb_true_iff in Hz; destruct Hz as [? Hz]); discriminate).
    cbn [fields_all] in Hz. repeat (apply andb_true_iff in Hz; destruct Hz as [? Hz]).
    repeat match goal with K : x_skip (f_xml ?f) = false, H : (if x_skip (f_xml ?f) then _ else _) = true |- _ => apply (if_false_hyp _ _ _ K) in H end.
    apply (assemble_struct sch _ dC _ _ al _ "osmChange" no_text); rewrite ?Hfs; try assumption.
    + match goal with E : String.eqb (xmlname_tag dC) "" = true |- _ => rewrite E end. reflexivity.
    + rewrite <- Hfs. exact HA.
    + rewrite <- Hfs. exact Hrt.
    + unfold after_attrs. cbn [combine map fst snd].
      repeat match goal with E : is_attr ?f = _ |- context[is_attr ?f] => rewrite E end.
      repeat constructor; cbn [fst snd]; try assumption;
        try (unfold own_names; match goal with |- (if ?cnd then _ else _) => destruct cnd end; [constructor | reflexivity]);
        try (intros Hx; congruence);
        try (intros _; match goal with Hab : forall b, _ -> absorb_kids _ _ ?f b ?es = Ok ?v |- absorb_kids _ _ ?f _ ?es = Ok ?v => apply Hab; assumption end).
    + reflexivity.
    + reflexivity.
    + unfold after_kids, after_attrs. cbn [combine map fst snd].
      repeat match goal with E : is_attr ?f = _ |- context[is_attr ?f] => rewrite E end.
      repeat match goal with E : is_elem ?f = _ |- context[is_elem ?f] => rewrite E end.
      repeat match goal with |- context[if is_elem ?f then ?a else ?a] => destruct (is_elem f) end.
      all: reflexivity.
Qed.

Lemma change_static_rk : forall dC,
  lookup_type sch "Change" = Some dC -> change_static dC = true -> rk sch (TNamed "Change") = RStruct dC.
Proof.
  intros dC Hl H. unfold change_static in H. do 9 (apply andb_true_iff in H; destruct H as [H ?]).
  apply named_def_rk; [exact Hl | exact H].
Qed.

Theorem roundtrip_change : forall dC dO v,
  lookup_type sch "Change" = Some dC -> change_static dC = true ->
  lookup_type sch "OSM" = Some dO -> osm_top_static dO = true -> osm_static sch 13 dO = true ->
  wf sch FUEL (TNamed "Change") v = true ->
  exists e, encode1 sch "Change" v = Ok e /\ decode sch "Change" e = Ok v /\ xname e = "osmChange".
Proof.
  intros dC dO v HlC HsC HlO HtO HsO Hwf.
  assert (H16 : (S (S (S 13)) <= FUEL)%nat) by (unfold FUEL; repeat constructor).
  destruct (roundtrip_change_k 13 dC dO v H16 HlC HsC HlO HtO HsO Hwf) as [e [He [Hn Hd]]].
  exists e. split; [|split; [|exact Hn]].
  - unfold encode1, encode. change FUEL with (S (S (S 13))). rewrite He. reflexivity.
  - unfold decode. pose proof (change_static_rk dC HlC HsC) as Hk.
    change (zero sch FUEL (TNamed "Change")) with (zero sch (S 15) (TNamed "Change")).
    rewrite (zero_struct 15 _ dC Hk). change (unmarshal sch FUEL FUEL) with (unmarshal sch FUEL (S (S (S 13)))).
    apply Hd. clear Hd He.
    destruct (wf_struct_inv 15 _ dC v Hwf Hk) as [vs [_ [Hw _]]].
    exact (zero_fields_like 15 15 _ vs (le_n _) Hw).
Qed.

End Containers.
