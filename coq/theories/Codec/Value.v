(* Codec/Value.v — first-order value universe shared by the XML (C03, C04) and JSON (C05)
   codec models, the result monad, zero values and emptiness.  Executable definitions only.

   A Go value of a type of the schema is represented positionally:
     struct  -> VStruct [one value per field of struct_fields, declaration order; the XMLName
                field is not part of the value]
     pointer -> VPtr None | VPtr (Some v)       slice -> VList (nil and empty are identified)
     ints    -> VInt z        bool -> VBool      string kinds -> VStr bytes
     float64 -> VFloat q      (q = an exact integer key of the number, 0 for zero: the harness
                               sends the sign and the IEEE-754 magnitude bits, so every finite
                               float64 travels exactly; the model only needs = and = 0)
     time.Time -> VTime t     (t = nanoseconds since the Unix epoch, unbounded Z; instants only,
                               locations are projected away) *)
From Coq Require Import List String Bool ZArith.
From Verif Require Import Codec.Schema.
Import ListNotations.
Open Scope Z_scope.

Inductive value :=
| VInt (z : Z)
| VFloat (q : Z)
| VBool (b : bool)
| VStr (s : list Z)
| VTime (t : Z)
| VPtr (o : option value)
| VList (l : list value)
| VStruct (fs : list value)
| VOpaque.                      (* maps, interfaces, other types: never inspected *)

Inductive err :=
| EFuel            (* recursion budget exhausted (never for schema types at the fuel used) *)
| EShape           (* value does not have the shape of its type *)
| EUnsupported     (* construct outside the modelled fragment of encoding/xml *)
| EName            (* "expected element type <a> but have <b>" *)
| EAtom            (* text does not have the lexical form of the field's type *)
| EHook            (* a type has an XML method this model has no transcription of *)
| EField.          (* hand-written method names a field the schema does not have *)

Inductive result (A : Type) := Ok (a : A) | Err (e : err).
Arguments Ok {A} a.
Arguments Err {A} e.

Definition rbind {A B} (r : result A) (f : A -> result B) : result B :=
  match r with Ok a => f a | Err e => Err e end.

Notation "'do' X <- A ; B" := (rbind A (fun X => B))
  (at level 200, X name, A at level 100, B at level 200).

Fixpoint rmap {A B} (f : A -> result B) (l : list A) : result (list B) :=
  match l with
  | [] => Ok []
  | a :: r => do b <- f a; do bs <- rmap f r; Ok (b :: bs)
  end.

Definition rconcat {A B} (f : A -> result (list B)) (l : list A) : result (list B) :=
  do ls <- rmap f l; Ok (List.concat ls).

(* 0001-01-01T00:00:00Z, Go's zero time.Time, in nanoseconds since the Unix epoch *)
Definition zero_time : Z := -62135596800000000000.

Definition is_empty (v : value) : bool :=       (* encoding/xml isEmptyValue *)
  match v with
  | VInt z => z =? 0
  | VFloat q => q =? 0
  | VBool b => negb b
  | VStr s => match s with [] => true | _ => false end
  | VPtr o => match o with None => true | Some _ => false end
  | VList l => match l with [] => true | _ => false end
  | VTime _ | VStruct _ | VOpaque => false
  end.

Fixpoint value_eqb (a b : value) {struct a} : bool :=
  match a, b with
  | VInt x, VInt y | VFloat x, VFloat y | VTime x, VTime y => x =? y
  | VBool x, VBool y => Bool.eqb x y
  | VStr x, VStr y =>
      (fix go (x y : list Z) := match x, y with
                                | [], [] => true
                                | p :: x', q :: y' => (p =? q) && go x' y'
                                | _, _ => false end) x y
  | VPtr None, VPtr None => true
  | VPtr (Some x), VPtr (Some y) => value_eqb x y
  | VList x, VList y | VStruct x, VStruct y =>
      (fix go (x y : list value) := match x, y with
                                    | [], [] => true
                                    | p :: x', q :: y' => value_eqb p q && go x' y'
                                    | _, _ => false end) x y
  | VOpaque, VOpaque => true
  | _, _ => false
  end.

Section Types.
Variable sch : schema.

(* head form of a type expression: named non-struct types and foreign named types are
   unfolded (reflect.Kind); the fuel bounds the length of a chain of type declarations *)
Inductive rkind :=
| RInt | RFloat | RBool | RString | RTime
| RPtr (t : gotype) | RSlice (t : gotype) | RStruct (d : typedef) | RBad.

Fixpoint resolve (n : nat) (ty : gotype) : rkind :=
  match n with
  | O => RBad
  | S n' =>
      match ty with
      | TInt => RInt | TFloat => RFloat | TBool => RBool | TString => RString | TTime => RTime
      | TPtr t => RPtr t
      | TSlice t => RSlice t
      | TExt _ u => resolve n' u
      | TNamed nm =>
          match lookup_type sch nm with
          | Some d => match t_under d with UStruct _ _ => RStruct d | UType t => resolve n' t end
          | None => RBad
          end
      | TXmlName | TMap | TIface | TOther _ => RBad
      end
  end.

Definition RFUEL : nat := 6.
Definition rk (ty : gotype) : rkind := resolve RFUEL ty.

(* Go zero value *)
Fixpoint zero (n : nat) (ty : gotype) : value :=
  match n with
  | O => VOpaque
  | S n' =>
      match rk ty with
      | RInt => VInt 0 | RFloat => VFloat 0 | RBool => VBool false | RString => VStr []
      | RTime => VTime zero_time
      | RPtr _ => VPtr None
      | RSlice _ => VList []
      | RStruct d => VStruct (map (fun f => zero n' (f_type f)) (struct_fields d))
      | RBad => VOpaque
      end
  end.

(* positional field access by Go field name *)
Fixpoint fget_go (fs : list field) (vs : list value) (nm : string) : option (field * value) :=
  match fs, vs with
  | f :: fs', v :: vs' => if String.eqb (f_name f) nm then Some (f, v) else fget_go fs' vs' nm
  | _, _ => None
  end.

Fixpoint fset_go (fs : list field) (vs : list value) (nm : string) (x : value) : option (list value) :=
  match fs, vs with
  | f :: fs', v :: vs' =>
      if String.eqb (f_name f) nm then Some (x :: vs')
      else match fset_go fs' vs' nm x with Some r => Some (v :: r) | None => None end
  | _, _ => None
  end.

End Types.
