(* Codec/ProofsForced.v — types whose element name does not depend on how they are reached:
   structs with a non-empty XMLName tag, the Bounds type (its MarshalXML forces "bounds"), and
   pointers / slices of those.  For them e.Encode(x) (no field info, no template) writes the
   same elements as encoding under a start template with that name. *)
From Coq Require Import List String Bool ZArith Lia.
From Verif Require Import Codec.Schema Codec.Value Codec.Xml Codec.Wf Codec.ProofsRT Codec.ProofsSteps.
Import ListNotations.
Open Scope string_scope.
Open Scope list_scope.

Section Forced.
Variable sch : schema.

Fixpoint forced (k : nat) (ty : gotype) (nm : string) : bool :=
  match k with
  | O => false
  | S k' =>
      match marshal_hook sch ty with
      | Some d => is_ustruct d && String.eqb (t_name d) "Bounds" && String.eqb nm "bounds"
      | None =>
          match rk sch ty with
          | RPtr t => forced k' t nm
          | RSlice t => forced k' t nm
          | RStruct d => String.eqb (xmlname_tag d) nm && negb (String.eqb nm "")
          | _ => false
          end
      end
  end.

Lemma rconcat_ext : forall {A B} (f g : A -> result (list B)) l,
  (forall x, In x l -> f x = g x) -> rconcat f l = rconcat g l.
Proof.
  intros A B f g l H. unfold rconcat. f_equal. induction l as [|x r IH]; [reflexivity|].
  cbn [rmap]. rewrite (H x (or_introl eq_refl)). rewrite IH; [reflexivity|]. intros y Hy. apply H. right. exact Hy.
Qed.

Lemma forced_eq : forall n ty v nm,
  wf sch n ty v = true -> forced n ty nm = true ->
  forall m fi, (n <= m)%nat -> marshal sch m ty v fi None = marshal sch m ty v None (Some nm).
Proof.
  induction n as [|n IH]; intros ty v nm Hwf Hf m fi Hm; [discriminate|].
  destruct m as [|m0]; [lia|]. cbn [marshal]. cbn [forced] in Hf. cbn [wf] in Hwf.
  unfold marshal_step. change (fi_omit None) with false. rewrite andb_false_l.
  destruct (marshal_hook sch ty) as [d|] eqn:Hmh.
  - apply andb_true_iff in Hf. destruct Hf as [Hf _]. apply andb_true_iff in Hf. destruct Hf as [Hus Hb].
    apply String.eqb_eq in Hb.
    rewrite (named_def_rk sch ty d (marshal_hook_def sch ty d Hmh) Hus) in *.
    destruct v; try discriminate. cbn [is_empty]. rewrite andb_false_r.
    unfold hook_marshal. rewrite Hb. reflexivity.
  - destruct (rk sch ty) eqn:Hk; try discriminate.
    + destruct v as [| | | | |o| | |]; try discriminate. destruct o as [v'|].
      * cbn [is_empty]. rewrite andb_false_r. cbn [fi_clear]. apply IH; [exact Hwf | exact Hf | lia].
      * destruct (fi_omit fi && is_empty (VPtr None)); reflexivity.
    + destruct v as [| | | | | |l| |]; try discriminate.
      assert (Hrc : rconcat (fun x => marshal sch m0 t x fi None) l
                    = rconcat (fun x => marshal sch m0 t x None (Some nm)) l).
      { apply rconcat_ext. intros x Hx.
        rewrite forallb_forall in Hwf. specialize (Hwf x Hx). apply andb_true_iff in Hwf. destruct Hwf as [Hwx _].
        apply IH; [exact Hwx | exact Hf | lia]. }
      destruct (fi_omit fi && is_empty (VList l)) eqn:Ho.
      * apply andb_true_iff in Ho. destruct Ho as [_ He]. destruct l; [reflexivity | discriminate].
      * exact Hrc.
    + apply andb_true_iff in Hf. destruct Hf as [Hx Hne]. apply String.eqb_eq in Hx. apply negb_true_iff in Hne.
      destruct v; try discriminate. cbn [is_empty]. rewrite andb_false_r.
      unfold marshal_struct. unfold start_name. rewrite Hx, Hne. cbn [negb]. reflexivity.
Qed.

End Forced.
