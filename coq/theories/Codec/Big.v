(* Codec/Big.v — size-threshold cases (harness/xcodec/big.go): n items of one kind whose keys are
   (i*7919 + 13) mod 1000003, observed as count + rolling hash; the property oracle recomputes both
   from n.  The codec model is not evaluated at these sizes (its slice append is quadratic); the
   structural tie for them is the static check tyok / the round-trip theorems, which hold for all
   lengths.  Executable definitions only. *)
From Coq Require Import ZArith List Bool.
From Verif Require Import Base.Wire.
Import ListNotations.
Open Scope Z_scope.
Open Scope wire_scope.

Definition big_key (i : Z) : Z := (i * 7919 + 13) mod 1000003.

Definition big_hash (n : Z) : Z :=
  snd (Z.iter n (fun ih => (fst ih + 1, (snd ih * 1000003 + big_key (fst ih) + 1) mod 2147483647)) (0, 0)).

(* "BIG" kind n | decode_ok count hash | scan_ok count hash : code 2 unless both readers returned
   exactly the n items written, in order *)
Definition check_big : P (list Z) :=
  kind <- pint ;; n <- pint ;;
  uok <- pbool ;; cnt <- pint ;; h <- pint ;;
  sok <- pbool ;; sc <- pint ;; sh <- pint ;;
  let e := big_hash n in
  let ok := (1 <=? kind) && (kind <=? 6) && (0 <=? n)
            && uok && (cnt =? n) && (h =? e) && sok && (sc =? n) && (sh =? e) in
  ret (code_if ok 2).
