(* Codec/Wf.v — XML-representable values: the domain of the round-trip theorems (boolean, also
   evaluated on every generated value by the harness checks).  Executable definitions only.

   A value of a schema type is well-formed when
   * it has the shape of its type; times lie in the years 0..9999 (time.Time.MarshalText fails
     outside); pointer elements of slices are not nil (a nil element is not written);
   * fields XML does not carry (xml:"-") are zero;
   and, for the types whose hand-written methods drop information by design of the formats:
   * Date (notes API format "2006-01-02 15:04:05 MST"): whole seconds;
   * ChangesetDiscussion: at least one comment (ChangesetDiscussion.MarshalXML writes nothing
     for an empty discussion, so a non-nil empty discussion comes back nil);
   * Change: the create/modify/delete blocks carry no header attributes (osmChange has none);
   * Action: the embedded OSM is nil or holds exactly one node, way or relation and nothing
     else (Action.UnmarshalXML keeps one element); old/new blocks carry no header attributes. *)
From Coq Require Import List String Bool ZArith.
From Verif Require Import Codec.Schema Codec.Value Codec.Xml.
Import ListNotations.
Open Scope string_scope.
Open Scope Z_scope.

(* 0000-01-01T00:00:00Z and 10000-01-01T00:00:00Z in nanoseconds since the Unix epoch *)
Definition time_lo : Z := -62167219200 * 1000000000.
Definition time_hi : Z := 253402300800 * 1000000000.
Definition time_ok (t : Z) : bool := (time_lo <=? t) && (t <? time_hi).

Section Wf.
Variable sch : schema.

Definition str_empty (fs : list field) (vs : list value) (nm : string) : bool :=
  match fget_go fs vs nm with Some (_, VStr []) => true | _ => false end.

Definition header_empty (d : typedef) (v : value) : bool :=
  match v with
  | VStruct vs =>
      let fs := struct_fields d in
      str_empty fs vs "Version" && str_empty fs vs "Generator" && str_empty fs vs "Copyright"
      && str_empty fs vs "Attribution" && str_empty fs vs "License"
  | _ => false
  end.

Definition block_ok (fs : list field) (vs : list value) (nm : string) : bool :=
  match fget_go fs vs nm, lookup_type sch "OSM" with
  | Some (_, VPtr None), _ => true
  | Some (_, VPtr (Some o)), Some od => header_empty od o
  | _, _ => false
  end.

Definition list_len (fs : list field) (vs : list value) (nm : string) : option nat :=
  match fget_go fs vs nm with Some (_, VList l) => Some (List.length l) | _ => None end.

Definition single_element (od : typedef) (o : value) : bool :=
  header_empty od o &&
  match o with
  | VStruct vs =>
      let fs := struct_fields od in
      match fget_go fs vs "Bounds", list_len fs vs "Nodes", list_len fs vs "Ways", list_len fs vs "Relations",
            list_len fs vs "Changesets", list_len fs vs "Notes", list_len fs vs "Users" with
      | Some (_, VPtr None), Some n, Some w, Some r, Some O, Some O, Some O =>
          Nat.eqb (n + w + r) 1
      | _, _, _, _, _, _, _ => false
      end
  | _ => false
  end.

Definition wf_extra (d : typedef) (v : value) : bool :=
  match v with
  | VStruct vs =>
      let fs := struct_fields d in
      if String.eqb (t_name d) "Date" then
        match fget_go fs vs "Time" with Some (_, VTime t) => t mod nanos =? 0 | _ => false end
      else if String.eqb (t_name d) "ChangesetDiscussion" then
        match fget_go fs vs "Comments" with Some (_, VList (_ :: _)) => true | _ => false end
      else if String.eqb (t_name d) "Change" then
        block_ok fs vs "Create" && block_ok fs vs "Modify" && block_ok fs vs "Delete"
      else if String.eqb (t_name d) "Action" then
        block_ok fs vs "Old" && block_ok fs vs "New" &&
        match fget_go fs vs "OSM", lookup_type sch "OSM", fget_go fs vs "Type" with
        | Some (_, VPtr None), _, Some (_, VStr _) => true
        | Some (_, VPtr (Some o)), Some od, Some (_, VStr _) => single_element od o
        | _, _, _ => false
        end
      else true
  | _ => false
  end.

(* all fields of a struct value, position by position: [P] on the fields XML carries, [Q] on
   the fields it does not (xml:"-") *)
Fixpoint fields_all (P Q : gotype -> value -> bool) (fs : list field) (vs : list value) : bool :=
  match fs, vs with
  | [], [] => true
  | f :: fs', x :: vs' =>
      (if x_skip (f_xml f) then Q (f_type f) x else P (f_type f) x) && fields_all P Q fs' vs'
  | _, _ => false
  end.

(* b is the Go zero value of type ty (to depth n; types outside the universe are not inspected) *)
Fixpoint zero_like (n : nat) (ty : gotype) (b : value) : bool :=
  match n with
  | O => false
  | S n' =>
      match rk sch ty, b with
      | RInt, VInt z => z =? 0
      | RFloat, VFloat q => q =? 0
      | RBool, VBool x => negb x
      | RString, VStr [] => true
      | RTime, VTime t => t =? zero_time
      | RPtr _, VPtr None => true
      | RSlice _, VList [] => true
      | RStruct d, VStruct bs => fields_all (zero_like n') (zero_like n') (struct_fields d) bs
      | RBad, _ => true
      | _, _ => false
      end
  end.

Fixpoint wf (n : nat) (ty : gotype) (v : value) : bool :=
  match n with
  | O => false
  | S n' =>
      match rk sch ty, v with
      | RInt, VInt _ | RFloat, VFloat _ | RBool, VBool _ | RString, VStr _ => true
      | RTime, VTime t => time_ok t
      | RPtr t, VPtr None => true
      | RPtr t, VPtr (Some v') => wf n' t v'
      | RSlice t, VList l => forallb (fun x => wf n' t x && negb (is_nil_ptr x)) l
      | RStruct d, VStruct vs =>
          fields_all (wf n') (zero_like n') (struct_fields d) vs && wf_extra d v
      | _, _ => false
      end
  end.

End Wf.

(* a notation, not a definition: statements about [wfb] and about [wf _ FUEL] are syntactically the same *)
Notation wfb sch T v := (wf sch FUEL (TNamed T) v) (only parsing).
