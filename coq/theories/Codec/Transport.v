(* Codec/Transport.v — readers for harness cases: schema-directed values, text-level trees,
   the lexical oracle table, and rendering of model trees to text level.
   Executable definitions only. *)
From Coq Require Import List String Bool ZArith.
From Verif Require Import Base.Wire Codec.Schema Codec.Value Codec.Xml.
Import ListNotations.
Open Scope Z_scope.
Open Scope wire_scope.

Section PValue.
Variable sch : schema.

Fixpoint pvalue (n : nat) (ty : gotype) : P value :=
  match n with
  | O => pfail
  | S n' =>
      match rk sch ty with
      | RInt => z <- pint ;; ret (VInt z)
      | RFloat => z <- pint ;; ret (VFloat z)
      | RBool => b <- pbool ;; ret (VBool b)
      | RString => s <- pbytes ;; ret (VStr s)
      | RTime => s <- pint ;; ns <- pint ;; ret (VTime (s * 1000000000 + ns))
      | RPtr t => b <- pbool ;; if b then (v <- pvalue n' t ;; ret (VPtr (Some v))) else ret (VPtr None)
      | RSlice t => l <- plist (pvalue n' t) ;; ret (VList l)
      | RStruct d =>
          vs <- (fix go (fs : list field) : P (list value) :=
                   match fs with
                   | [] => ret []
                   | f :: r => v <- pvalue n' (f_type f) ;; vs <- go r ;; ret (v :: vs)
                   end) (struct_fields d) ;;
          ret (VStruct vs)
      | RBad => pfail
      end
  end.

End PValue.

(* text-level tree as an independent XML reader reports it *)
Inductive ttree := TNode (name : list Z) (attrs : list (list Z * list Z)) (text : list Z) (kids : list ttree).

Fixpoint ptree (n : nat) : P ttree :=
  match n with
  | O => pfail
  | S n' =>
      nm <- pbytes ;; at_ <- plist (ppair pbytes pbytes) ;; tx <- pbytes ;; ks <- plist (ptree n') ;;
      ret (TNode nm at_ tx ks)
  end.

Fixpoint ttree_eqb (a b : ttree) {struct a} : bool :=
  match a, b with
  | TNode n1 a1 t1 k1, TNode n2 a2 t2 k2 =>
      bytes_eqb n1 n2 && list_eqb (pair_eqb bytes_eqb bytes_eqb) a1 a2 && bytes_eqb t1 t2 &&
      (fix go (x y : list ttree) : bool :=
         match x, y with
         | [], [] => true
         | p :: x', q :: y' => ttree_eqb p q && go x' y'
         | _, _ => false
         end) k1 k2
  end.

(* the standard library's text of floats (key: the integer key of the float), times (key: nanoseconds) and note
   dates (key: seconds), as printed by the harness with strconv / time.Format *)
Record oracle := { o_floats : list (Z * list Z); o_times : list (Z * list Z); o_dates : list (Z * list Z) }.

Definition poracle : P oracle :=
  l <- plist (k <- pint ;;
              if k =? 1 then (q <- pint ;; s <- pbytes ;; ret (1, q, s))
              else if k =? 2 then (sec <- pint ;; ns <- pint ;; s <- pbytes ;; ret (2, sec * 1000000000 + ns, s))
              else if k =? 3 then (sec <- pint ;; s <- pbytes ;; ret (3, sec, s))
              else pfail) ;;
  let pick k := map (fun x => (snd (fst x), snd x)) (filter (fun x => fst (fst x) =? k) l) in
  ret {| o_floats := pick 1; o_times := pick 2; o_dates := pick 3 |}.

Fixpoint zassoc {A} (l : list (Z * A)) (k : Z) : option A :=
  match l with
  | [] => None
  | (x, a) :: r => if x =? k then Some a else zassoc r k
  end.

Fixpoint digits (fuel : nat) (n : Z) (acc : list Z) : list Z :=
  match fuel with
  | O => acc
  | S f => let acc' := (48 + n mod 10) :: acc in if n <? 10 then acc' else digits f (n / 10) acc'
  end.
Definition dec_bytes (z : Z) : list Z := if z <? 0 then 45 :: digits 30 (- z) [] else digits 30 z [].

Definition render_atom (o : oracle) (a : atom) : option (list Z) :=
  match a with
  | AStr s => Some s
  | AInt z => Some (dec_bytes z)
  | ABool true => Some [116; 114; 117; 101]
  | ABool false => Some [102; 97; 108; 115; 101]
  | AFloat q => zassoc (o_floats o) q
  | ATime t => zassoc (o_times o) t
  | ADate s => zassoc (o_dates o) s
  end.

Fixpoint omap {A B} (f : A -> option B) (l : list A) : option (list B) :=
  match l with
  | [] => Some []
  | a :: r => match f a, omap f r with Some b, Some bs => Some (b :: bs) | _, _ => None end
  end.

Fixpoint render (o : oracle) (e : xml) : option ttree :=
  match e with
  | Elem nm attrs kids tx =>
      match omap (fun na => match render_atom o (snd na) with
                            | Some s => Some (bytes_of_string (fst na), s)
                            | None => None end) attrs,
            render_atom o tx,
            (fix go (l : list xml) : option (list ttree) :=
               match l with
               | [] => Some []
               | k :: r => match render o k, go r with Some a, Some b => Some (a :: b) | _, _ => None end
               end) kids
      with
      | Some a, Some t, Some k => Some (TNode (bytes_of_string nm) a t k)
      | _, _, _ => None
      end
  end.

Definition result_value_eqb (r : result value) (o : option value) : bool :=
  match r, o with
  | Ok a, Some b => value_eqb a b
  | Err _, None => true
  | _, _ => false
  end.
