(* Codec/ProofsMain.v — the induction: RT holds at every depth up to the fuel of the entry
   points, for scalars, pointers, slices, plain structs and the types with the transcribed
   methods Bounds.MarshalXML, ChangesetDiscussion.MarshalXML, Date.Marshal/UnmarshalXML. *)
From Coq Require Import List String Bool ZArith Lia.
From Verif Require Import Codec.Schema Codec.Value Codec.Xml Codec.Wf Codec.ProofsAttr Codec.ProofsKids
     Codec.ProofsRT Codec.ProofsSteps Codec.ProofsStruct.
Import ListNotations.
Open Scope string_scope.
Open Scope list_scope.

Section Main.
Variable sch : schema.

Lemma rconcat_cons : forall {A B} (f : A -> result (list B)) x r b bs,
  f x = Ok b -> rconcat f r = Ok bs -> rconcat f (x :: r) = Ok (b ++ bs).
Proof.
  intros A B f x r b bs Hx Hr. unfold rconcat in *. cbn [rmap]. rewrite Hx. cbn [rbind].
  destruct (rmap f r) as [ls|e]; cbn [rbind] in *; [|discriminate]. inversion Hr. reflexivity.
Qed.

Lemma one_ok_inslice : forall n t nm omit x,
  tyok sch n t nm omit true = true -> is_nil_ptr x = false -> one_ok sch t x true = true.
Proof.
  intros n t nm omit x H Hnil. destruct n; [discriminate|]. cbn [tyok] in H. unfold one_ok.
  destruct (marshal_hook sch t) as [d|] eqn:Hm; destruct (unmarshal_hook sch t) as [d2|] eqn:Hu; try discriminate.
  - apply andb_true_iff in H. destruct H as [H _]. apply andb_true_iff in H. destruct H as [H _].
    rewrite (named_def_rk sch t d (marshal_hook_def sch t d Hm) H). reflexivity.
  - apply andb_true_iff in H. destruct H as [H _].
    rewrite (named_def_rk sch t d (marshal_hook_def sch t d Hm) H). reflexivity.
  - destruct (rk sch t); try reflexivity; try discriminate.
    rewrite Hnil. reflexivity.
Qed.

Section Step.
Variable n' : nat.
Hypothesis Hn : (S n' <= FUEL)%nat.
Hypothesis IH : RT sch n'.

(* ---------- scalars ---------- *)
Lemma scalar_case : forall ty v fi tmpl inslice,
  is_scalar (rk sch ty) = true ->
  marshal_hook sch ty = None -> unmarshal_hook sch ty = None ->
  wf sch (S n') ty v = true ->
  negb (fi_omit fi && inslice) = true ->
  given_name fi tmpl <> "" ->
  exists es,
    (forall m, (S n' <= m)%nat -> marshal sch m ty v fi tmpl = Ok es)
    /\ Forall (fun e => xname e = given_name fi tmpl) es
    /\ (forall m base, (S n' <= m)%nat -> zero_like sch (S n') ty base = true -> absorb sch m ty base es = Ok v)
    /\ (one_ok sch ty v inslice = true -> exists e, es = [e]).
Proof.
  intros ty v fi tmpl inslice Hs Hmh Huh Hwf Hom Hne.
  assert (Hsa : exists a, simple_atom (rk sch ty) v = Ok a /\ atom_value (rk sch ty) a = Ok v).
  { cbn [wf] in Hwf. destruct (rk sch ty); cbn in Hs; try discriminate; destruct v; try discriminate;
      eexists; split; reflexivity. }
  destruct Hsa as [a [Ha1 Ha2]].
  destruct (fi_omit fi && is_empty v) eqn:Ho.
  - exists []. split; [|split; [|split]].
    + intros [|m0] Hm; [lia|]. cbn [marshal]. apply ms_omit. exact Ho.
    + constructor.
    + intros m base Hm Hz. cbn [absorb]. f_equal.
      apply andb_true_iff in Ho. destruct Ho as [_ He].
      cbn [zero_like wf] in *. destruct (rk sch ty); cbn in Hs; try discriminate;
        destruct v; try discriminate; destruct base; try discriminate; cbn [is_empty] in He.
      * apply Z.eqb_eq in He, Hz. subst. reflexivity.
      * apply Z.eqb_eq in He, Hz. subst. reflexivity.
      * destruct b, b0; try discriminate; reflexivity.
      * destruct s, s0; try discriminate; reflexivity.
    + intros H1. unfold one_ok in H1. apply andb_true_iff in Ho. destruct Ho as [Ho _]. rewrite Ho in Hom.
      destruct (rk sch ty); cbn in Hs; try discriminate; rewrite H1 in Hom; discriminate.
  - exists [Elem (given_name fi tmpl) [] [] a]. split; [|split; [|split]].
    + intros [|m0] Hm; [lia|]. cbn [marshal]. rewrite ms_scalar by assumption. rewrite Ha1. cbn [rbind].
      rewrite start_name_given; [reflexivity | exact Hne | reflexivity].
    + constructor; [reflexivity | constructor].
    + intros [|m0] base Hm Hz; [lia|]. cbn [absorb unmarshal]. rewrite us_scalar by assumption.
      cbn [xtext]. rewrite Ha2. reflexivity.
    + intros _. eexists. reflexivity.
Qed.

(* ---------- pointers ---------- *)
Lemma ptr_case : forall ty t v fi tmpl inslice,
  rk sch ty = RPtr t ->
  wf sch (S n') ty v = true ->
  is_struct (rk sch t) && tyok sch n' t (given_name fi tmpl) false inslice = true ->
  given_name fi tmpl <> "" ->
  exists es,
    (forall m, (S n' <= m)%nat -> marshal sch m ty v fi tmpl = Ok es)
    /\ Forall (fun e => xname e = given_name fi tmpl) es
    /\ (forall m base, (S n' <= m)%nat -> zero_like sch (S n') ty base = true -> absorb sch m ty base es = Ok v)
    /\ (one_ok sch ty v inslice = true -> exists e, es = [e]).
Proof.
  intros ty t v fi tmpl inslice Hk Hwf Hty Hne. apply andb_true_iff in Hty. destruct Hty as [Hst Hty].
  cbn [wf] in Hwf. rewrite Hk in Hwf. destruct v as [| | | | |o| | |]; try discriminate.
  assert (Hbase : forall base, zero_like sch (S n') ty base = true -> base = VPtr None).
  { intros base Hz. cbn [zero_like] in Hz. rewrite Hk in Hz. destruct base as [| | | | |ob| | |]; try discriminate.
    destruct ob; [discriminate | reflexivity]. }
  destruct o as [v'|].
  - assert (Hty' : tyok sch n' t (given_name (fi_clear fi) tmpl) (fi_omit (fi_clear fi)) inslice = true).
    { rewrite given_name_clear, fi_omit_clear. exact Hty. }
    assert (Hne' : given_name (fi_clear fi) tmpl <> "") by (rewrite given_name_clear; exact Hne).
    destruct (IH t v' (fi_clear fi) tmpl inslice Hwf Hty' Hne') as [es [Hm [Hnames [Habs Hone]]]].
    assert (H1 : one_ok sch t v' inslice = true).
    { unfold one_ok. destruct (rk sch t); cbn in Hst; try discriminate. reflexivity. }
    destruct (Hone H1) as [e ->].
    exists [e]. split; [|split; [|split]].
    + intros [|m0] Hm0; [lia|]. cbn [marshal]. rewrite (ms_ptr_some _ _ _ _ _ _ _ Hk). apply Hm. lia.
    + rewrite given_name_clear in Hnames. exact Hnames.
    + intros [|m0] base Hm0 Hz; [lia|]. rewrite (Hbase _ Hz). cbn [absorb unmarshal].
      rewrite (us_ptr_nil _ _ _ _ _ _ Hk).
      assert (Hzz : zero_like sch n' t (zero sch FUEL t) = true).
      { apply zero_like_zero with (x := v'); [lia | left; exact Hwf]. }
      pose proof (Habs m0 _ ltac:(lia) Hzz) as Ha. cbn [absorb] in Ha.
      destruct (unmarshal sch FUEL m0 t (zero sch FUEL t) e) as [r|er]; cbn [rbind] in *; [|discriminate].
      inversion Ha. reflexivity.
    + intros _. eexists. reflexivity.
  - exists []. split; [|split; [|split]].
    + intros [|m0] Hm0; [lia|]. cbn [marshal]. exact (ms_ptr_nil _ _ _ _ _ _ Hk).
    + constructor.
    + intros m base Hm0 Hz. rewrite (Hbase _ Hz). reflexivity.
    + unfold one_ok. rewrite Hk. cbn. intros Hx. discriminate Hx.
Qed.

(* ---------- slices ---------- *)
Lemma slice_elems : forall ty t fi tmpl l,
  rk sch ty = RSlice t -> unmarshal_hook sch ty = None ->
  tyok sch n' t (given_name fi tmpl) (fi_omit fi) true = true ->
  given_name fi tmpl <> "" ->
  forallb (fun x => wf sch n' t x && negb (is_nil_ptr x)) l = true ->
  exists es,
    (forall m0, (n' <= m0)%nat -> rconcat (fun x => marshal sch m0 t x fi tmpl) l = Ok es)
    /\ Forall (fun e => xname e = given_name fi tmpl) es
    /\ (forall m0 acc, (n' <= m0)%nat -> absorb sch (S m0) ty (VList acc) es = Ok (VList (acc ++ l))).
Proof.
  intros ty t fi tmpl l Hk Huh Hty Hne. induction l as [|x r IHl]; intros Hall.
  - exists []. split; [|split].
    + intros; reflexivity.
    + constructor.
    + intros m0 acc _. cbn [absorb]. rewrite app_nil_r. reflexivity.
  - cbn [forallb] in Hall. apply andb_true_iff in Hall. destruct Hall as [Hx Hall].
    apply andb_true_iff in Hx. destruct Hx as [Hwx Hnx]. apply negb_true_iff in Hnx.
    destruct (IHl Hall) as [es [Hm [Hnames Habs]]].
    destruct (IH t x fi tmpl true Hwx Hty Hne) as [ex [Hmx [Hnx' [Habsx Honex]]]].
    destruct (Honex (one_ok_inslice _ _ _ _ _ Hty Hnx)) as [e ->].
    exists (e :: es). split; [|split].
    + intros m0 Hm0. change (e :: es) with ([e] ++ es). apply rconcat_cons; [apply Hmx | apply Hm]; exact Hm0.
    + inversion Hnx'; subst. constructor; assumption.
    + intros m0 acc Hm0. cbn [absorb unmarshal]. rewrite (us_slice _ _ _ _ _ _ _ Hk Huh).
      assert (Hzz : zero_like sch n' t (zero sch FUEL t) = true).
      { apply zero_like_zero with (x := x); [lia | left; exact Hwx]. }
      pose proof (Habsx m0 _ Hm0 Hzz) as Ha. cbn [absorb] in Ha.
      destruct (unmarshal sch FUEL m0 t (zero sch FUEL t) e) as [rv|er]; cbn [rbind] in *; [|discriminate].
      inversion Ha; subst rv. fold (unmarshal sch FUEL (S m0)).
      pose proof (Habs m0 (acc ++ [x]) Hm0) as Hr. cbn [absorb] in Hr. rewrite <- app_assoc in Hr. exact Hr.
Qed.

Lemma slice_case : forall ty t v fi tmpl,
  rk sch ty = RSlice t ->
  marshal_hook sch ty = None -> unmarshal_hook sch ty = None ->
  wf sch (S n') ty v = true ->
  tyok sch n' t (given_name fi tmpl) (fi_omit fi) true = true ->
  given_name fi tmpl <> "" ->
  exists es,
    (forall m, (S n' <= m)%nat -> marshal sch m ty v fi tmpl = Ok es)
    /\ Forall (fun e => xname e = given_name fi tmpl) es
    /\ (forall m base, (S n' <= m)%nat -> zero_like sch (S n') ty base = true -> absorb sch m ty base es = Ok v)
    /\ (one_ok sch ty v false = true -> exists e, es = [e]).
Proof.
  intros ty t v fi tmpl Hk Hmh Huh Hwf Hty Hne.
  cbn [wf] in Hwf. rewrite Hk in Hwf. destruct v as [| | | | | |l| |]; try discriminate.
  destruct (slice_elems ty t fi tmpl l Hk Huh Hty Hne Hwf) as [es [Hm [Hnames Habs]]].
  assert (Hbase : forall base, zero_like sch (S n') ty base = true -> base = VList []).
  { intros base Hz. cbn [zero_like] in Hz. rewrite Hk in Hz. destruct base as [| | | | | |lb| |]; try discriminate.
    destruct lb; [reflexivity | discriminate]. }
  assert (Hone : one_ok sch ty (VList l) false = true -> exists e, es = [e]).
  { unfold one_ok. rewrite Hk. intros Hx. discriminate Hx. }
  destruct (fi_omit fi && is_empty (VList l)) eqn:Ho.
  - apply andb_true_iff in Ho. destruct Ho as [Ho He]. destruct l; [|discriminate].
    pose proof (Hm n' (le_n _)) as H0. cbn in H0. inversion H0; subst es.
    exists []. split; [|split; [|split]]; auto.
    + intros [|m0] Hm0; [lia|]. cbn [marshal]. apply ms_omit. rewrite Ho. reflexivity.
    + intros m base Hm0 Hz. rewrite (Hbase _ Hz). reflexivity.
  - exists es. split; [|split; [|split]]; auto.
    + intros [|m0] Hm0; [lia|]. cbn [marshal]. rewrite (ms_slice _ _ _ _ _ _ _ Hk Ho Hmh). apply Hm. lia.
    + intros [|m0] base Hm0 Hz; [lia|]. rewrite (Hbase _ Hz). apply (Habs m0 []). lia.
Qed.

(* ---------- structs without methods ---------- *)
Lemma struct_case : forall ty d v fi tmpl inslice,
  rk sch ty = RStruct d ->
  marshal_hook sch ty = None -> unmarshal_hook sch ty = None ->
  wf sch (S n') ty v = true ->
  (String.eqb (xmlname_tag d) "" || String.eqb (xmlname_tag d) (given_name fi tmpl)) = true ->
  field_conds sch (tyok sch n') (struct_fields d) = true ->
  given_name fi tmpl <> "" ->
  exists es,
    (forall m, (S n' <= m)%nat -> marshal sch m ty v fi tmpl = Ok es)
    /\ Forall (fun e => xname e = given_name fi tmpl) es
    /\ (forall m base, (S n' <= m)%nat -> zero_like sch (S n') ty base = true -> absorb sch m ty base es = Ok v)
    /\ (one_ok sch ty v inslice = true -> exists e, es = [e]).
Proof.
  intros ty d v fi tmpl inslice Hk Hmh Huh Hwf Hxn Hfc Hne.
  cbn [wf] in Hwf. rewrite Hk in Hwf. destruct v as [| | | | | | |vs|]; try discriminate.
  apply andb_true_iff in Hwf. destruct Hwf as [Hwf _].
  destruct (struct_rt sch n' IH ty d vs fi tmpl (given_name fi tmpl) Hfc Hxn Hwf
              (start_name_given sch ty _ fi tmpl Hne Hxn)) as [e [Hm [Hname Hu]]].
  exists [e]. split; [|split; [|split]].
  - intros [|m0] Hm0; [lia|]. cbn [marshal]. rewrite (ms_struct _ _ _ _ _ _ _ Hk Hmh). apply Hm. lia.
  - constructor; [exact Hname | constructor].
  - intros [|m0] base Hm0 Hz; [lia|]. cbn [zero_like] in Hz. rewrite Hk in Hz.
    destruct base as [| | | | | | |bs|]; try discriminate.
    cbn [absorb unmarshal]. rewrite (us_struct _ _ _ _ _ _ _ Hk Huh). rewrite (Hu m0 bs ltac:(lia) Hz). reflexivity.
  - intros _. eexists. reflexivity.
Qed.

(* ---------- Bounds.MarshalXML ---------- *)
Lemma bounds_case : forall ty d v fi tmpl inslice,
  marshal_hook sch ty = Some d -> unmarshal_hook sch ty = None ->
  is_ustruct d = true -> t_name d = "Bounds" ->
  wf sch (S n') ty v = true ->
  given_name fi tmpl = "bounds" -> xmlname_tag d = "" ->
  field_conds sch (tyok sch n') (struct_fields d) = true ->
  exists es,
    (forall m, (S n' <= m)%nat -> marshal sch m ty v fi tmpl = Ok es)
    /\ Forall (fun e => xname e = given_name fi tmpl) es
    /\ (forall m base, (S n' <= m)%nat -> zero_like sch (S n') ty base = true -> absorb sch m ty base es = Ok v)
    /\ (one_ok sch ty v inslice = true -> exists e, es = [e]).
Proof.
  intros ty d v fi tmpl inslice Hmh Huh Hus Hname Hwf Hnm Hxt Hfc.
  pose proof (named_def_rk sch ty d (marshal_hook_def sch ty d Hmh) Hus) as Hk.
  cbn [wf] in Hwf. rewrite Hk in Hwf. destruct v as [| | | | | | |vs|]; try discriminate.
  apply andb_true_iff in Hwf. destruct Hwf as [Hwf _].
  assert (Hxn : (String.eqb (xmlname_tag d) "" || String.eqb (xmlname_tag d) "bounds") = true)
    by (rewrite Hxt; reflexivity).
  destruct (struct_rt sch n' IH ty d vs None (Some "bounds") "bounds" Hfc Hxn Hwf eq_refl) as [e [Hm [Hename Hu]]].
  exists [e]. rewrite Hnm. split; [|split; [|split]].
  - intros [|m0] Hm0; [lia|]. cbn [marshal].
    rewrite (ms_hook sch _ ty d (VStruct vs) fi tmpl); [| rewrite Hk; reflexivity | cbn [is_empty]; apply andb_false_r | exact Hmh].
    unfold hook_marshal. rewrite Hname. cbn. unfold bounds_marshal. apply Hm. lia.
  - constructor; [exact Hename | constructor].
  - intros [|m0] base Hm0 Hz; [lia|]. cbn [zero_like] in Hz. rewrite Hk in Hz.
    destruct base as [| | | | | | |bs|]; try discriminate.
    cbn [absorb unmarshal]. rewrite (us_struct _ _ _ _ _ _ _ Hk Huh). rewrite (Hu m0 bs ltac:(lia) Hz). reflexivity.
  - intros _. eexists. reflexivity.
Qed.

(* ---------- Date.MarshalXML / Date.UnmarshalXML ---------- *)
Lemma date_case : forall ty d f v fi tmpl inslice,
  marshal_hook sch ty = Some d -> unmarshal_hook sch ty = Some d ->
  is_ustruct d = true -> t_name d = "Date" ->
  struct_fields d = [f] -> f_name f = "Time" -> rk sch (f_type f) = RTime ->
  wf sch (S n') ty v = true ->
  given_name fi tmpl <> "" ->
  exists es,
    (forall m, (S n' <= m)%nat -> marshal sch m ty v fi tmpl = Ok es)
    /\ Forall (fun e => xname e = given_name fi tmpl) es
    /\ (forall m base, (S n' <= m)%nat -> zero_like sch (S n') ty base = true -> absorb sch m ty base es = Ok v)
    /\ (one_ok sch ty v inslice = true -> exists e, es = [e]).
Proof.
  intros ty d f v fi tmpl inslice Hmh Huh Hus Hname Hfs Hfn Hkt Hwf Hne.
  pose proof (named_def_rk sch ty d (marshal_hook_def sch ty d Hmh) Hus) as Hk.
  cbn [wf] in Hwf. rewrite Hk in Hwf. destruct v as [| | | | | | |vs|]; try discriminate.
  apply andb_true_iff in Hwf. destruct Hwf as [Hwf Hex]. rewrite Hfs in Hwf.
  destruct vs as [|x [|y ys]]; cbn [fields_all] in Hwf; try discriminate;
    [| apply andb_true_iff in Hwf; destruct Hwf as [_ Hwf]; discriminate].
  unfold wf_extra in Hex. rewrite Hname in Hex. cbn [String.eqb Ascii.eqb Bool.eqb] in Hex. rewrite Hfs in Hex.
  cbn [fget_go] in Hex. rewrite Hfn in Hex. cbn [String.eqb Ascii.eqb Bool.eqb] in Hex.
  destruct x as [| | | |t| | | |]; try discriminate. apply Z.eqb_eq in Hex.
  assert (Hdiv : (t / nanos * nanos = t)%Z).
  { pose proof (Z.div_mod t nanos ltac:(unfold nanos; lia)) as Hd. rewrite Hex in Hd. lia. }
  exists [Elem (given_name fi tmpl) [] [] (ADate (t / nanos))]. split; [|split; [|split]].
  - intros [|m0] Hm0; [lia|]. cbn [marshal].
    rewrite (ms_hook sch _ ty d (VStruct [VTime t]) fi tmpl); [| rewrite Hk; reflexivity | cbn [is_empty]; apply andb_false_r | exact Hmh].
    unfold hook_marshal. rewrite Hname. cbn [String.eqb Ascii.eqb Bool.eqb]. unfold date_marshal, fld. rewrite Hfs.
    cbn [fget_go]. rewrite Hfn. cbn [String.eqb Ascii.eqb Bool.eqb rbind snd]. rewrite default_start_given by exact Hne. reflexivity.
  - constructor; [reflexivity | constructor].
  - intros [|m0] base Hm0 Hz; [lia|]. cbn [zero_like] in Hz. rewrite Hk in Hz.
    destruct base as [| | | | | | |bs|]; try discriminate. rewrite Hfs in Hz.
    destruct bs as [|b [|b2 bs2]]; cbn [fields_all] in Hz; try discriminate;
      [| apply andb_true_iff in Hz; destruct Hz as [_ Hz]; discriminate].
    cbn [absorb unmarshal].
    rewrite (us_hook sch _ FUEL ty d); [| rewrite Hk; reflexivity | exact Huh].
    unfold hook_unmarshal. rewrite Hname. cbn [String.eqb Ascii.eqb Bool.eqb]. unfold date_unmarshal. cbn [xtext].
    rewrite Hfs. cbn [fset_go]. rewrite Hfn. cbn [String.eqb Ascii.eqb Bool.eqb rbind]. rewrite Hdiv. reflexivity.
  - intros _. eexists. reflexivity.
Qed.

(* ---------- ChangesetDiscussion.MarshalXML ---------- *)
Lemma discussion_case : forall ty d f v fi tmpl inslice,
  marshal_hook sch ty = Some d -> unmarshal_hook sch ty = None ->
  is_ustruct d = true -> t_name d = "ChangesetDiscussion" ->
  (String.eqb (xmlname_tag d) "" || String.eqb (xmlname_tag d) (given_name fi tmpl)) = true ->
  struct_fields d = [f] -> f_name f = "Comments" -> is_elem f = true -> field_supported f = true ->
  eff_name sch f = "comment" -> x_parents (f_xml f) = [] ->
  tyok sch n' (f_type f) "comment" false false = true ->
  wf sch (S n') ty v = true ->
  given_name fi tmpl <> "" ->
  exists es,
    (forall m, (S n' <= m)%nat -> marshal sch m ty v fi tmpl = Ok es)
    /\ Forall (fun e => xname e = given_name fi tmpl) es
    /\ (forall m base, (S n' <= m)%nat -> zero_like sch (S n') ty base = true -> absorb sch m ty base es = Ok v)
    /\ (one_ok sch ty v inslice = true -> exists e, es = [e]).
Proof.
  intros ty d f v fi tmpl inslice Hmh Huh Hus Hname Hxn Hfs Hfn He Hsup Hen Hps Hty Hwf Hne.
  pose proof (named_def_rk sch ty d (marshal_hook_def sch ty d Hmh) Hus) as Hk.
  destruct (elem_not_attr f He) as [Hna Hsk].
  cbn [wf] in Hwf. rewrite Hk in Hwf. destruct v as [| | | | | | |vs|]; try discriminate.
  apply andb_true_iff in Hwf. destruct Hwf as [Hwf Hex]. rewrite Hfs in Hwf.
  destruct vs as [|c [|y ys]]; cbn [fields_all] in Hwf; try discriminate;
    [| apply andb_true_iff in Hwf; destruct Hwf as [_ Hwf]; discriminate].
  rewrite Hsk, andb_true_r in Hwf.
  unfold wf_extra in Hex. rewrite Hname in Hex. cbn [String.eqb Ascii.eqb Bool.eqb] in Hex. rewrite Hfs in Hex.
  cbn [fget_go] in Hex. rewrite Hfn in Hex. cbn [String.eqb Ascii.eqb Bool.eqb] in Hex.
  destruct c as [| | | | | |l| |]; try discriminate. destruct l as [|x l]; [discriminate|].
  destruct (IH (f_type f) (VList (x :: l)) None (Some "comment") false Hwf Hty ltac:(discriminate))
    as [kids [Hm [Hnames [Habs _]]]]. cbn [given_name] in *.
  exists [Elem (given_name fi tmpl) [] kids no_text]. split; [|split; [|split]].
  - intros [|m0] Hm0; [lia|]. cbn [marshal].
    rewrite (ms_hook sch _ ty d (VStruct [VList (x :: l)]) fi tmpl); [| rewrite Hk; reflexivity | cbn [is_empty]; apply andb_false_r | exact Hmh].
    unfold hook_marshal. rewrite Hname. cbn [String.eqb Ascii.eqb Bool.eqb]. unfold discussion_marshal, fld. rewrite Hfs.
    cbn [fget_go]. rewrite Hfn. cbn [String.eqb Ascii.eqb Bool.eqb rbind snd fst].
    rewrite (Hm m0 ltac:(lia)). cbn [rbind]. rewrite default_start_given by exact Hne. reflexivity.
  - constructor; [reflexivity | constructor].
  - intros [|m0] base Hm0 Hz; [lia|]. cbn [zero_like] in Hz. rewrite Hk in Hz.
    destruct base as [| | | | | | |bs|]; try discriminate. rewrite Hfs in Hz.
    destruct bs as [|b [|b2 bs2]]; cbn [fields_all] in Hz; try discriminate;
      [| apply andb_true_iff in Hz; destruct Hz as [_ Hz]; discriminate].
    rewrite Hsk, andb_true_r in Hz.
    cbn [absorb unmarshal]. rewrite (us_struct _ _ _ _ _ _ _ Hk Huh).
    rewrite (unmarshal_struct_fieldwise sch (unmarshal sch FUEL m0) d [b] _ [b] [VList (x :: l)]); [reflexivity | | | | | |].
    + rewrite Hfs. cbn [all_supported forallb]. rewrite Hsup. reflexivity.
    + cbn [xname]. exact Hxn.
    + rewrite Hfs. cbn [parents_ok forallb]. rewrite Hps, orb_true_r. reflexivity.
    + rewrite Hfs. unfold elem_keys. cbn [filter]. rewrite He. reflexivity.
    + rewrite Hfs. cbn [xattrs]. constructor; [reflexivity | constructor].
    + rewrite Hfs. cbn [xkids]. constructor; [|constructor].
      rewrite (absorb_kids_plain sch m0 f kids b Hps He); [apply Habs; [lia | exact Hz]|].
      rewrite Hen. exact Hnames.
  - intros _. eexists. reflexivity.
Qed.

End Step.

(* ---------- the induction ---------- *)
Theorem RT_all : forall n, (n <= FUEL)%nat -> RT sch n.
Proof.
  induction n as [|n' IHn]; intros Hn.
  - intros ty v fi tmpl inslice Hwf. discriminate Hwf.
  - assert (IH : RT sch n') by (apply IHn; lia).
    intros ty v fi tmpl inslice Hwf Hty Hne. cbn [tyok] in Hty.
    destruct (marshal_hook sch ty) as [d|] eqn:Hmh; destruct (unmarshal_hook sch ty) as [d2|] eqn:Huh.
    + (* Date *)
      assert (d2 = d) as ->.
      { pose proof (marshal_hook_def sch _ _ Hmh) as H1. pose proof (unmarshal_hook_def sch _ _ Huh) as H2. congruence. }
      apply andb_true_iff in Hty. destruct Hty as [Hty Hsf]. apply andb_true_iff in Hty. destruct Hty as [Hus Hname].
      apply String.eqb_eq in Hname. unfold single_field in Hsf.
      destruct (struct_fields d) as [|f [|f2 fs2]] eqn:Hfs; try discriminate.
      apply andb_true_iff in Hsf. destruct Hsf as [Hfn Hkt]. apply String.eqb_eq in Hfn.
      destruct (rk sch (f_type f)) eqn:Hk; try discriminate.
      eapply date_case; eassumption.
    + apply andb_true_iff in Hty. destruct Hty as [Hus Hty].
      destruct (String.eqb (t_name d) "Bounds") eqn:Hb.
      * apply String.eqb_eq in Hb. apply andb_true_iff in Hty. destruct Hty as [Hty Hfc].
        apply andb_true_iff in Hty. destruct Hty as [Hnm Hxt]. apply String.eqb_eq in Hnm, Hxt.
        eapply bounds_case; eassumption.
      * destruct (String.eqb (t_name d) "ChangesetDiscussion") eqn:Hd; [|discriminate].
        apply String.eqb_eq in Hd. apply andb_true_iff in Hty. destruct Hty as [Hxn Hsf].
        unfold single_field in Hsf. destruct (struct_fields d) as [|f [|f2 fs2]] eqn:Hfs; try discriminate.
        repeat (apply andb_true_iff in Hsf; destruct Hsf as [Hsf ?]).
        apply String.eqb_eq in Hsf. destruct (x_parents (f_xml f)) eqn:Hps; [|discriminate].
        match goal with H : String.eqb (eff_name sch f) "comment" = true |- _ => apply String.eqb_eq in H end.
        eapply discussion_case; eassumption.
    + discriminate.
    + destruct (rk sch ty) eqn:Hk; try discriminate.
      * eapply scalar_case; try eassumption. rewrite Hk. reflexivity.
      * eapply scalar_case; try eassumption. rewrite Hk. reflexivity.
      * eapply scalar_case; try eassumption. rewrite Hk. reflexivity.
      * eapply scalar_case; try eassumption. rewrite Hk. reflexivity.
      * eapply scalar_case; try eassumption. rewrite Hk. reflexivity.
      * eapply ptr_case; eassumption.
      * apply andb_true_iff in Hty. destruct Hty as [Hin Hty]. apply negb_true_iff in Hin. subst inslice.
        eapply slice_case; eassumption.
      * apply andb_true_iff in Hty. destruct Hty as [Hxn Hfc].
        eapply struct_case; eassumption.
Qed.

End Main.
