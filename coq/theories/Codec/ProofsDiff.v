(* Codec/ProofsDiff.v — diff actions (Action.MarshalXML / Action.UnmarshalXML) and the Diff
   container: a create action holds one bare node, way or relation; modify / delete actions hold
   old and new blocks (OSM blocks, possibly with bounds and any objects). *)
From Coq Require Import List String Bool ZArith Lia.
From Verif Require Import Codec.Schema Codec.Value Codec.Xml Codec.Wf Codec.ProofsAttr Codec.ProofsKids
     Codec.ProofsRT Codec.ProofsSteps Codec.ProofsStruct Codec.ProofsMain Codec.ProofsTop Codec.ProofsForced
     Codec.ProofsBlock Codec.ProofsContainers.
Import ListNotations.
Open Scope string_scope.
Open Scope list_scope.

Ltac names_goal := repeat match goal with H : f_name _ = _ |- _ => rewrite H end.
Ltac names_in Hx := repeat match goal with H : f_name _ = _ |- _ => rewrite H in Hx end.

Section Diff.
Variable sch : schema.

(* ---------- reading a list of elements into a slice, inverted ---------- *)

Lemma absorb_slice_len : forall m ty t es acc l',
  rk sch ty = RSlice t -> unmarshal_hook sch ty = None ->
  absorb sch (S m) ty (VList acc) es = Ok (VList l') ->
  List.length l' = (List.length acc + List.length es)%nat.
Proof.
  intros m ty t es. induction es as [|e r IH]; intros acc l' Hk Hh H.
  - cbn [absorb] in H. injection H as <-. cbn. lia.
  - cbn [absorb] in H. rewrite unmarshal_S in H. rewrite (us_slice sch _ _ _ _ _ _ Hk Hh) in H.
    destruct (unmarshal sch FUEL m t (zero sch FUEL t) e) as [v|er]; cbn [rbind] in H; [|discriminate].
    rewrite (IH _ _ Hk Hh H). rewrite app_length. cbn. lia.
Qed.

Lemma absorb_slice_single : forall m ty t es y,
  rk sch ty = RSlice t -> unmarshal_hook sch ty = None ->
  absorb sch (S m) ty (VList []) es = Ok (VList [y]) ->
  exists e1, es = [e1] /\ unmarshal sch FUEL m t (zero sch FUEL t) e1 = Ok y.
Proof.
  intros m ty t es y Hk Hh H. pose proof (absorb_slice_len _ _ _ _ _ _ Hk Hh H) as Hl. cbn in Hl.
  destruct es as [|e1 [|e2 r]]; cbn in Hl; try lia. exists e1. split; [reflexivity|].
  cbn [absorb] in H. rewrite unmarshal_S in H. rewrite (us_slice sch _ _ _ _ _ _ Hk Hh) in H.
  destruct (unmarshal sch FUEL m t (zero sch FUEL t) e1) as [v|er]; cbn [rbind] in H; [|discriminate].
  cbn [app] in H. inversion H. reflexivity.
Qed.

Lemma absorb_slice_empty : forall m ty t es,
  rk sch ty = RSlice t -> unmarshal_hook sch ty = None ->
  absorb sch (S m) ty (VList []) es = Ok (VList []) -> es = [].
Proof.
  intros m ty t es Hk Hh H. pose proof (absorb_slice_len _ _ _ _ _ _ Hk Hh H) as Hl. cbn in Hl.
  destruct es; [reflexivity | cbn in Hl; lia].
Qed.

Lemma zero_ptr : forall k ty t, rk sch ty = RPtr t -> zero sch (S k) ty = VPtr None.
Proof. intros k ty t Hk. cbn [zero]. rewrite Hk. reflexivity. Qed.
Lemma zero_slice : forall k ty t, rk sch ty = RSlice t -> zero sch (S k) ty = VList [].
Proof. intros k ty t Hk. cbn [zero]. rewrite Hk. reflexivity. Qed.
Lemma zero_string : forall k ty, rk sch ty = RString -> zero sch (S k) ty = VStr [].
Proof. intros k ty Hk. cbn [zero]. rewrite Hk. reflexivity. Qed.

Lemma wf_list_kind : forall n ty l, wf sch n ty (VList l) = true -> exists t, rk sch ty = RSlice t.
Proof.
  intros n ty l H. destruct n; [discriminate|]. cbn [wf] in H. destruct (rk sch ty); try discriminate. eexists; reflexivity.
Qed.
Lemma wf_ptr_kind : forall n ty o, wf sch n ty (VPtr o) = true -> exists t, rk sch ty = RPtr t.
Proof.
  intros n ty o H. destruct n; [discriminate|]. cbn [wf] in H. destruct (rk sch ty); try discriminate. eexists; reflexivity.
Qed.

(* ---------- the bare element of a create action ---------- *)

(* static facts about one of the element lists of OSM: []*T under element name nm *)
Definition elt_ok (k : nat) (f : field) (nm T : string) : bool :=
  String.eqb (eff_name sch f) nm
  && match rk sch (f_type f) with RSlice t1 => gotype_eqb t1 (TPtr (TNamed T)) | _ => false end
  && match unmarshal_hook sch (f_type f) with None => true | Some _ => false end
  && tyok sch k (f_type f) nm false false
  && forced sch k (f_type f) nm.

Lemma one_list : forall e f nm T x,
  (S (S (S e)) <= FUEL)%nat ->
  elt_ok e f nm T = true -> nm <> "" ->
  wf sch e (f_type f) (VList [VPtr (Some x)]) = true ->
  exists ex,
    (forall m0, (e <= m0)%nat -> marshal sch m0 (f_type f) (VList [VPtr (Some x)]) None None = Ok [ex])
    /\ xname ex = nm
    /\ unmarshal sch FUEL (S (S e)) (TNamed T) (zero sch FUEL (TNamed T)) ex = Ok x.
Proof.
  intros e f nm T x He Hs Hne Hwf. unfold elt_ok in Hs. do 4 (apply andb_true_iff in Hs; destruct Hs as [Hs ?]).
  apply String.eqb_eq in Hs.
  destruct (rk sch (f_type f)) as [| | | | |t0|t1| |] eqn:Hk; try discriminate.
  match goal with E : gotype_eqb t1 _ = true |- _ => apply gotype_eqb_eq in E; subst t1 end.
  assert (Huh : unmarshal_hook sch (f_type f) = None) by (destruct (unmarshal_hook sch (f_type f)); [discriminate | reflexivity]).
  destruct (RT_tmpl sch e (f_type f) _ nm false ltac:(lia) Hwf ltac:(assumption) Hne) as [es [Hm [Hnames [Habs _]]]].
  assert (Hz : zero_like sch e (f_type f) (VList []) = true).
  { destruct e; [discriminate|]. cbn [zero_like]. rewrite Hk. reflexivity. }
  pose proof (Habs (S (S (S (S e)))) (VList []) ltac:(lia) Hz) as Ha.
  destruct (absorb_slice_single _ _ _ _ _ Hk Huh Ha) as [ex [-> Hu]].
  exists ex. split; [|split].
  - intros m0 Hm0. rewrite (forced_eq sch e (f_type f) _ nm Hwf ltac:(assumption) m0 None Hm0). apply Hm. exact Hm0.
  - inversion Hnames; subst. assumption.
  - rewrite unmarshal_S in Hu.
    assert (Hkp : rk sch (TPtr (TNamed T)) = RPtr (TNamed T)) by reflexivity.
    change (zero sch FUEL (TPtr (TNamed T))) with (zero sch (S 15) (TPtr (TNamed T))) in Hu.
    rewrite (zero_ptr 15 _ _ Hkp) in Hu. rewrite (us_ptr_nil sch _ _ _ _ _ Hkp) in Hu.
    destruct (unmarshal sch FUEL (S (S e)) (TNamed T) (zero sch FUEL (TNamed T)) ex); cbn [rbind] in Hu; [|discriminate].
    inversion Hu. reflexivity.
Qed.

Lemma empty_list : forall e f nm T,
  (e <= FUEL)%nat ->
  elt_ok e f nm T = true -> nm <> "" ->
  wf sch e (f_type f) (VList []) = true ->
  forall m0, (e <= m0)%nat -> marshal sch m0 (f_type f) (VList []) None None = Ok [].
Proof.
  intros e f nm T He Hs Hne Hwf m0 Hm0. unfold elt_ok in Hs. do 4 (apply andb_true_iff in Hs; destruct Hs as [Hs ?]).
  destruct (rk sch (f_type f)) as [| | | | |t0|t1| |] eqn:Hk; try discriminate.
  assert (Huh : unmarshal_hook sch (f_type f) = None) by (destruct (unmarshal_hook sch (f_type f)); [discriminate | reflexivity]).
  destruct (RT_tmpl sch e (f_type f) _ nm false He Hwf ltac:(assumption) Hne) as [es [Hm [_ [Habs _]]]].
  assert (Hz : zero_like sch e (f_type f) (VList []) = true).
  { destruct e; [discriminate|]. cbn [zero_like]. rewrite Hk. reflexivity. }
  pose proof (Habs (S e) (VList []) ltac:(lia) Hz) as Ha.
  rewrite (absorb_slice_empty _ _ _ _ Hk Huh Ha) in Hm.
  rewrite (forced_eq sch e (f_type f) _ nm Hwf ltac:(assumption) m0 None Hm0). apply Hm. exact Hm0.
Qed.

(* ---------- an old / new block, raw ---------- *)
Section Raw.
Variable e : nat.
Variable dO : typedef.
Hypothesis He : (S (S (S e)) <= FUEL)%nat.
Hypothesis HlO : lookup_type sch "OSM" = Some dO.
Hypothesis HtsO : osm_top_static sch dO = true.
Hypothesis HstO : osm_static sch e dO = true.

Lemma block_raw : forall nm p,
  wf sch (S (S e)) (TPtr (TNamed "OSM")) p = true ->
  (match p with VPtr (Some o) => header_empty dO o | _ => true end) = true ->
  exists es,
    inner_change sch (marshal sch (S (S e))) nm p = Ok es
    /\ match p with
       | VPtr None => es = []
       | VPtr (Some ov) =>
           exists kids, es = [Elem nm [] kids no_text]
             /\ unmarshal sch FUEL (S (S e)) (TNamed "OSM") (zero sch FUEL (TNamed "OSM")) (Elem nm [] kids no_text) = Ok ov
       | _ => False
       end.
Proof.
  intros nm p Hwf Hhe. destruct (osm_top_inv sch dO HlO HtsO) as (HkO & HnameO & HmhO & HuhO).
  assert (Hkp : rk sch (TPtr (TNamed "OSM")) = RPtr (TNamed "OSM")) by reflexivity.
  cbn [wf] in Hwf. rewrite Hkp in Hwf. destruct p as [| | | | |o| | |]; try discriminate.
  destruct o as [ov|].
  - destruct (wf_struct_inv sch e _ dO ov Hwf HkO) as [ovs [-> [Hwf' _]]].
    destruct (osm_block sch e dO ovs ltac:(lia) HstO Hwf') as [al [kids [Hal [Hkids [Hnil Hdec]]]]].
    rewrite (Hnil Hhe) in *. clear Hnil.
    exists [Elem nm [] kids no_text]. split.
    + unfold inner_change. rewrite HlO. rewrite (Hkids (S (S e)) ltac:(lia)). reflexivity.
    + exists kids. split; [reflexivity|]. rewrite unmarshal_S. rewrite (us_struct sch _ _ _ dO _ _ HkO HuhO).
      change (zero sch FUEL (TNamed "OSM")) with (zero sch (S 15) (TNamed "OSM")).
      rewrite (zero_struct sch 15 _ dO HkO).
      apply Hdec; [lia|]. apply (zero_fields_like sch e 15 _ ovs); [unfold FUEL in He; lia | exact Hwf'].
  - exists []. split; reflexivity.
Qed.

Definition elems_static (dO' : typedef) : bool :=
  match struct_fields dO' with
  | [_; _; _; _; _; _; f7; f8; f9; _; _; _] =>
      elt_ok e f7 "node" "Node" && elt_ok e f8 "way" "Way" && elt_ok e f9 "relation" "Relation"
  | _ => false
  end.
Hypothesis HelO : elems_static dO = true.

Lemma list_single_ptr : forall f nm T y,
  elt_ok e f nm T = true -> wf sch e (f_type f) (VList [y]) = true -> exists x, y = VPtr (Some x).
Proof.
  intros f nm T y Hs Hwf. unfold elt_ok in Hs. do 4 (apply andb_true_iff in Hs; destruct Hs as [Hs ?]).
  destruct (rk sch (f_type f)) as [| | | | |t0|t1| |] eqn:Hk; try discriminate.
  match goal with E : gotype_eqb t1 _ = true |- _ => apply gotype_eqb_eq in E; subst t1 end.
  destruct e as [|e']; [discriminate|]. cbn [wf] in Hwf. rewrite Hk in Hwf. cbn [forallb] in Hwf.
  rewrite andb_true_r in Hwf. apply andb_true_iff in Hwf. destruct Hwf as [Hw Hn].
  destruct e' as [|e'']; [discriminate|]. cbn [wf] in Hw.
  assert (Hkp : rk sch (TPtr (TNamed T)) = RPtr (TNamed T)) by reflexivity. rewrite Hkp in Hw.
  destruct y as [| | | | |[x|]| | |]; try discriminate. exists x. reflexivity.
Qed.

Definition elem_triples : list (string * string * string) :=
  [("node", "Nodes", "Node"); ("way", "Ways", "Way"); ("relation", "Relations", "Relation")].

Lemma elems_raw : forall ovs,
  fields_all (wf sch e) (zero_like sch e) (struct_fields dO) ovs = true ->
  single_element dO (VStruct ovs) = true ->
  exists ex nm G T x,
    In (nm, G, T) elem_triples
    /\ osm_inner_elements (marshal sch (S (S e))) dO (VStruct ovs) = Ok [ex]
    /\ xname ex = nm
    /\ unmarshal sch FUEL (S (S e)) (TNamed T) (zero sch FUEL (TNamed T)) ex = Ok x
    /\ osm_single sch FUEL G x = Ok (VPtr (Some (VStruct ovs))).
Proof.
  intros ovs Hwf Hse. destruct (osm_top_inv sch dO HlO HtsO) as (HkO & HnameO & HmhO & HuhO).
  pose proof HstO as Hst. unfold osm_static in Hst.
  apply andb_true_iff in Hst. destruct Hst as [Hst Hshape]. apply andb_true_iff in Hst. destruct Hst as [Hxn Hfc].
  pose proof HelO as Hel. unfold elems_static in Hel.
  destruct (struct_fields dO) as [|f1 [|f2 [|f3 [|f4 [|f5 [|f6 [|f7 [|f8 [|f9 [|f10 [|f11 [|f12 [|f13 fs]]]]]]]]]]]]] eqn:Hfs;
    try discriminate.
  destruct ovs as [|v1 [|v2 [|v3 [|v4 [|v5 [|v6 [|v7 [|v8 [|v9 [|v10 [|v11 [|v12 [|v13 vs]]]]]]]]]]]]];
    try (cbn [fields_all] in Hwf; repeat (apply andb_true_iff in Hwf; destruct Hwf as [? Hwf]); discriminate).
  do 11 (apply andb_true_iff in Hshape; destruct Hshape as [Hshape ?]).
  repeat match goal with H : hdr_ok sch ?f ?a ?b = true |- _ =>
    apply hdr_ok_inv in H;
    let a := fresh "Hn" in let b := fresh "Ha" in let c := fresh "Hs" in let e0 := fresh "Ho" in
    let g := fresh "He" in let h := fresh "Hk" in destruct H as (a & b & c & e0 & g & h) end.
  repeat match goal with H : el_ok sch _ ?f ?a = true |- _ =>
    apply el_ok_inv in H;
    let a := fresh "Hn" in let b := fresh "Hel" in let c := fresh "Hp" in let e0 := fresh "Hf" in
    destruct H as (a & b & c & e0) end.
  apply andb_true_iff in Hel. destruct Hel as [Hel Helr]. apply andb_true_iff in Hel. destruct Hel as [Heln Helw].
  cbn [fields_all] in Hwf. repeat (apply andb_true_iff in Hwf; destruct Hwf as [? Hwf]).
  repeat match goal with H : is_attr ?f = true |- _ =>
    match goal with
    | K : x_skip (f_xml f) = false |- _ => fail 1
    | _ => pose proof (attr_not_skip f H)
    end end.
  repeat match goal with H : is_elem ?f = true |- _ =>
    match goal with
    | K : is_attr f = false |- _ => fail 1
    | _ => destruct (elem_not_attr f H)
    end end.
  repeat match goal with K : x_skip (f_xml ?f) = false, H : (if x_skip (f_xml ?f) then _ else _) = true |- _ => apply (if_false_hyp _ _ _ K) in H end.
  (* what single_element says, field by field *)
  unfold single_element, header_empty, str_empty, list_len in Hse. rewrite Hfs in Hse. cbn [fget_go] in Hse.
  names_in Hse.
  cbn [String.eqb Ascii.eqb Bool.eqb andb] in Hse.
  destruct v1 as [| | |[|]| | | | |]; try discriminate Hse; destruct v2 as [| | |[|]| | | | |]; try discriminate Hse;
  destruct v3 as [| | |[|]| | | | |]; try discriminate Hse; destruct v4 as [| | |[|]| | | | |]; try discriminate Hse;
  destruct v5 as [| | |[|]| | | | |]; try discriminate Hse.
  cbn [andb] in Hse.
  destruct v6 as [| | | | |[|]| | |]; try discriminate Hse.
  destruct v7 as [| | | | | |ln| |]; try discriminate Hse. destruct v8 as [| | | | | |lw| |]; try discriminate Hse.
  destruct v9 as [| | | | | |lr| |]; try discriminate Hse.
  destruct v10 as [| | | | | |[|]| |]; try discriminate Hse. destruct v11 as [| | | | | |[|]| |]; try discriminate Hse.
  destruct v12 as [| | | | | |[|]| |]; try discriminate Hse.
  (* kinds of the non-header fields, for the zero value *)
  repeat match goal with W : wf sch e (f_type ?f) (VList _) = true |- _ =>
    match goal with
    | K : rk sch (f_type f) = RSlice _ |- _ => fail 1
    | _ => let t := fresh "t" in let K := fresh "Hks" in destruct (wf_list_kind _ _ _ W) as [t K]
    end end.
  match goal with W : wf sch e (f_type f6) (VPtr None) = true |- _ =>
    let t := fresh "t" in destruct (wf_ptr_kind _ _ _ W) as [t Hkb] end.
  assert (Hzero : zero sch FUEL (TNamed "OSM")
                  = VStruct [VStr []; VStr []; VStr []; VStr []; VStr []; VPtr None;
                             VList []; VList []; VList []; VList []; VList []; VList []]).
  { change (zero sch FUEL (TNamed "OSM")) with (zero sch (S 15) (TNamed "OSM")).
    rewrite (zero_struct sch 15 _ dO HkO), Hfs. cbn [map].
    repeat match goal with K : rk sch (f_type ?f) = RString |- context[zero sch 15 (f_type ?f)] => rewrite (zero_string 14 _ K) end.
    repeat match goal with K : rk sch (f_type ?f) = RSlice _ |- context[zero sch 15 (f_type ?f)] => rewrite (zero_slice 14 _ _ K) end.
    rewrite (zero_ptr 14 _ _ Hkb). reflexivity. }
  assert (Hne1 : "node" <> "") by discriminate. assert (Hne2 : "way" <> "") by discriminate.
  assert (Hne3 : "relation" <> "") by discriminate.
  assert (Hele : (e <= FUEL)%nat) by lia.
  destruct ln as [|y1 [|? ?]]; destruct lw as [|y2 [|? ?]]; destruct lr as [|y3 [|? ?]]; try discriminate Hse.
  - (* one relation *)
    match goal with W : wf sch e (f_type f9) (VList [y3]) = true |- _ =>
      destruct (list_single_ptr f9 _ _ y3 Helr W) as [x ->];
      destruct (one_list e f9 "relation" "Relation" x He Helr Hne3 W) as [ex [Hm [Hnm Hu]]] end.
    exists ex, "relation", "Relations", "Relation", x. split; [right; right; left; reflexivity|].
    split; [|split; [exact Hnm|split; [exact Hu|]]].
    + unfold osm_inner_elements, encode_field, fld. rewrite Hfs. cbn [fget_go].
      names_goal. cbn [String.eqb Ascii.eqb Bool.eqb andb rbind fst snd].
      rewrite (empty_list e f7 "node" "Node" Hele Heln Hne1) by (assumption || lia). cbn [rbind].
      rewrite (empty_list e f8 "way" "Way" Hele Helw Hne2) by (assumption || lia). cbn [rbind].
      rewrite Hm by lia. reflexivity.
    + unfold osm_single. rewrite HlO, Hzero. unfold set_fld. rewrite Hfs. cbn [fset_go].
      names_goal. cbn [String.eqb Ascii.eqb Bool.eqb andb rbind]. reflexivity.
  - (* one way *)
    match goal with W : wf sch e (f_type f8) (VList [y2]) = true |- _ =>
      destruct (list_single_ptr f8 _ _ y2 Helw W) as [x ->];
      destruct (one_list e f8 "way" "Way" x He Helw Hne2 W) as [ex [Hm [Hnm Hu]]] end.
    exists ex, "way", "Ways", "Way", x. split; [right; left; reflexivity|].
    split; [|split; [exact Hnm|split; [exact Hu|]]].
    + unfold osm_inner_elements, encode_field, fld. rewrite Hfs. cbn [fget_go].
      names_goal. cbn [String.eqb Ascii.eqb Bool.eqb andb rbind fst snd].
      rewrite (empty_list e f7 "node" "Node" Hele Heln Hne1) by (assumption || lia). cbn [rbind].
      rewrite Hm by lia. cbn [rbind].
      rewrite (empty_list e f9 "relation" "Relation" Hele Helr Hne3) by (assumption || lia). reflexivity.
    + unfold osm_single. rewrite HlO, Hzero. unfold set_fld. rewrite Hfs. cbn [fset_go].
      names_goal. cbn [String.eqb Ascii.eqb Bool.eqb andb rbind]. reflexivity.
  - (* one node *)
    match goal with W : wf sch e (f_type f7) (VList [y1]) = true |- _ =>
      destruct (list_single_ptr f7 _ _ y1 Heln W) as [x ->];
      destruct (one_list e f7 "node" "Node" x He Heln Hne1 W) as [ex [Hm [Hnm Hu]]] end.
    exists ex, "node", "Nodes", "Node", x. split; [left; reflexivity|].
    split; [|split; [exact Hnm|split; [exact Hu|]]].
    + unfold osm_inner_elements, encode_field, fld. rewrite Hfs. cbn [fget_go].
      names_goal. cbn [String.eqb Ascii.eqb Bool.eqb andb rbind fst snd].
      rewrite Hm by lia. cbn [rbind].
      rewrite (empty_list e f8 "way" "Way" Hele Helw Hne2) by (assumption || lia). cbn [rbind].
      rewrite (empty_list e f9 "relation" "Relation" Hele Helr Hne3) by (assumption || lia). reflexivity.
    + unfold osm_single. rewrite HlO, Hzero. unfold set_fld. rewrite Hfs. cbn [fset_go].
      names_goal. cbn [String.eqb Ascii.eqb Bool.eqb andb rbind]. reflexivity.
Qed.

(* ---------- Action.MarshalXML / Action.UnmarshalXML ---------- *)

Lemma action_walks_app : forall unm d l1 l2 a,
  action_walks sch unm FUEL d a (l1 ++ l2) = do a' <- action_walks sch unm FUEL d a l1; action_walks sch unm FUEL d a' l2.
Proof.
  intros unm d l1. induction l1 as [|c r IH]; intros l2 a; [reflexivity|].
  cbn [app action_walks]. destruct (action_walk sch unm FUEL d a c); cbn [rbind]; [apply IH | reflexivity].
Qed.

Lemma action_walk_elem : forall unm d a nm G T at_ k t,
  In (nm, G, T) elem_triples ->
  action_walk sch unm FUEL d a (Elem nm at_ k t) =
    do x <- unm (TNamed T) (zero sch FUEL (TNamed T)) (Elem nm at_ k t);
    do o <- osm_single sch FUEL G x; set_fld d a "OSM" o.
Proof.
  intros unm d a nm G T at_ k t Hin. cbn [elem_triples In] in Hin.
  repeat (destruct Hin as [Hin|Hin]; [inversion Hin; subst; reflexivity|]). contradiction.
Qed.

Definition action_static (dA : typedef) : bool :=
  is_ustruct dA && String.eqb (t_name dA) "Action"
  && match marshal_hook sch (TNamed "Action") with Some _ => true | None => false end
  && match unmarshal_hook sch (TNamed "Action") with Some _ => true | None => false end
  && match struct_fields dA with
     | [fT; fO; fOld; fNew] =>
         String.eqb (f_name fT) "Type" && negb (x_skip (f_xml fT))
         && match rk sch (f_type fT) with RString => true | _ => false end
         && String.eqb (f_name fO) "OSM" && negb (x_skip (f_xml fO)) && gotype_eqb (f_type fO) (TPtr (TNamed "OSM"))
         && String.eqb (f_name fOld) "Old" && negb (x_skip (f_xml fOld)) && gotype_eqb (f_type fOld) (TPtr (TNamed "OSM"))
         && String.eqb (f_name fNew) "New" && negb (x_skip (f_xml fNew)) && gotype_eqb (f_type fNew) (TPtr (TNamed "OSM"))
     | _ => false
     end.

Variable dA : typedef.
Hypothesis HlA : lookup_type sch "Action" = Some dA.
Hypothesis HstA : action_static dA = true.

Lemma action_rt : forall v start,
  start <> "" ->
  wf sch (S (S (S e))) (TNamed "Action") v = true ->
  exists ex,
    (forall fi tmpl, given_name fi tmpl = start -> marshal sch (S (S (S e))) (TNamed "Action") v fi tmpl = Ok [ex])
    /\ xname ex = start
    /\ (forall base, zero_like sch (S (S (S e))) (TNamed "Action") base = true ->
                     unmarshal sch FUEL (S (S (S e))) (TNamed "Action") base ex = Ok v).
Proof.
  intros v start Hne Hwf. pose proof HstA as Hst. unfold action_static in Hst.
  apply andb_true_iff in Hst. destruct Hst as [Hst Hshape].
  do 3 (apply andb_true_iff in Hst; destruct Hst as [Hst ?]).
  match goal with E : String.eqb (t_name dA) "Action" = true |- _ => apply String.eqb_eq in E; rename E into Hname end.
  assert (Hnd : named_def sch (TNamed "Action") = Some dA) by exact HlA.
  pose proof (named_def_rk sch _ dA Hnd Hst) as Hk.
  assert (Hmh : marshal_hook sch (TNamed "Action") = Some dA).
  { destruct (marshal_hook sch (TNamed "Action")) as [d0|] eqn:E; [|discriminate].
    pose proof (marshal_hook_def sch _ _ E). congruence. }
  assert (Huh : unmarshal_hook sch (TNamed "Action") = Some dA).
  { destruct (unmarshal_hook sch (TNamed "Action")) as [d0|] eqn:E; [|discriminate].
    pose proof (unmarshal_hook_def sch _ _ E). congruence. }
  destruct (wf_struct_inv sch _ _ dA v Hwf Hk) as [vs [-> [Hwfs Hex]]].
  destruct (struct_fields dA) as [|fT [|fO [|fOld [|fNew [|f5 fs]]]]] eqn:Hfs; try discriminate.
  do 11 (apply andb_true_iff in Hshape; destruct Hshape as [Hshape ?]).
  repeat match goal with E : String.eqb (f_name _) _ = true |- _ => apply String.eqb_eq in E end.
  repeat match goal with E : gotype_eqb _ _ = true |- _ => apply gotype_eqb_eq in E end.
  repeat match goal with E : negb (x_skip _) = true |- _ => apply negb_true_iff in E end.
  destruct (rk sch (f_type fT)) eqn:HkT; try discriminate.
  destruct vs as [|vT [|vO [|vOld [|vNew [|v5 vs]]]]];
    try (cbn [fields_all] in Hwfs; repeat (apply andb_true_iff in Hwfs; destruct Hwfs as [? Hwfs]); discriminate).
  cbn [fields_all] in Hwfs. repeat (apply andb_true_iff in Hwfs; destruct Hwfs as [? Hwfs]).
  repeat match goal with K : x_skip (f_xml ?f) = false, H : (if x_skip (f_xml ?f) then _ else _) = true |- _ => apply (if_false_hyp _ _ _ K) in H end.
  match goal with W : wf sch (S (S e)) (f_type fT) vT = true |- _ => destruct (wf_string sch _ _ _ W HkT) as [t ->] end.
  repeat match goal with E : f_type ?f = TPtr (TNamed "OSM"), W : wf sch (S (S e)) (f_type ?f) _ = true |- _ => rewrite E in W end.
  (* wf_extra: blocks header-less, at most one created element *)
  unfold wf_extra in Hex. rewrite Hname in Hex. cbn [String.eqb Ascii.eqb Bool.eqb] in Hex.
  rewrite Hfs in Hex. unfold block_ok in Hex. cbn [fget_go] in Hex. names_in Hex.
  cbn [String.eqb Ascii.eqb Bool.eqb andb] in Hex. rewrite HlO in Hex.
  apply andb_true_iff in Hex. destruct Hex as [Hex HexO]. apply andb_true_iff in Hex. destruct Hex as [HexOld HexNew].
  destruct (osm_top_inv sch dO HlO HtsO) as (HkO & HnameO & HmhO & HuhO).
  assert (Hblk : forall nm p, wf sch (S (S e)) (TPtr (TNamed "OSM")) p = true ->
            match p with VPtr None => true | VPtr (Some o) => header_empty dO o | _ => false end = true ->
            exists es, inner_change sch (marshal sch (S (S e))) nm p = Ok es /\
              forall unm', (unm' = unmarshal sch FUEL (S (S e))) ->
                match p with
                | VPtr None => es = []
                | VPtr (Some ov) => exists blk, es = [blk] /\ xname blk = nm
                                      /\ unm' (TNamed "OSM") (zero sch FUEL (TNamed "OSM")) blk = Ok ov
                | _ => False
                end).
  { intros nm p Hw Hh.
    destruct (block_raw nm p Hw ltac:(destruct p as [| | | | |[o|]| | |]; try discriminate; [exact Hh | reflexivity]))
      as [es [Hm Hp]].
    exists es. split; [exact Hm|]. intros unm' ->. destruct p as [| | | | |[ov|]| | |]; try contradiction.
    - destruct Hp as [kids [-> Hu]]. eexists. split; [reflexivity | split; [reflexivity | exact Hu]].
    - exact Hp. }
  destruct (Hblk "old" vOld ltac:(assumption) HexOld) as [esOld [HmOld HdOld]].
  destruct (Hblk "new" vNew ltac:(assumption) HexNew) as [esNew [HmNew HdNew]].
  clear Hblk.
  (* the created element *)
  assert (Hels : exists els,
            match vO with
            | VPtr None => Ok []
            | VPtr (Some ov) => osm_inner_elements (marshal sch (S (S e))) dO ov
            | _ => Err EShape
            end = Ok els
            /\ forall a0 aOld aNew,
                action_walks sch (unmarshal sch FUEL (S (S e))) FUEL dA (VStruct [VStr t; a0; aOld; aNew]) els
                = match vO with
                  | VPtr None => Ok (VStruct [VStr t; a0; aOld; aNew])
                  | _ => Ok (VStruct [VStr t; vO; aOld; aNew])
                  end).
  { match goal with W : wf sch (S (S e)) (TPtr (TNamed "OSM")) vO = true |- _ => rename W into HwO end.
    assert (Hkp : rk sch (TPtr (TNamed "OSM")) = RPtr (TNamed "OSM")) by reflexivity.
    cbn [wf] in HwO. rewrite Hkp in HwO. destruct vO as [| | | | |[ov|]| | |]; try discriminate.
    - destruct (wf_struct_inv sch e _ dO ov HwO HkO) as [ovs [-> [Hwo _]]].
      destruct (elems_raw ovs Hwo HexO) as (ex & nm & G & T & x & Hin & Hm & Hnm & Hu & Hsingle).
      exists [ex]. split; [exact Hm|]. intros a0 aOld aNew. cbn [action_walks].
      destruct ex as [n at_ k tx]. cbn [xname] in Hnm. subst n.
      rewrite (action_walk_elem _ dA _ nm G T at_ k tx Hin). rewrite Hu. cbn [rbind]. rewrite Hsingle. cbn [rbind].
      unfold set_fld. rewrite Hfs. cbn [fset_go]. names_goal. cbn [String.eqb Ascii.eqb Bool.eqb andb rbind]. reflexivity.
    - exists []. split; reflexivity. }
  destruct Hels as [els [Hmels Hwels]].
  exists (Elem start [("type", AStr t)] (els ++ esOld ++ esNew) no_text). split; [|split; [reflexivity|]].
  - intros fi tmpl Hgn. rewrite marshal_S.
    rewrite (ms_hook sch _ (TNamed "Action") dA _ fi tmpl); [| rewrite Hk; reflexivity | cbn [is_empty]; apply andb_false_r | exact Hmh].
    unfold hook_marshal. rewrite Hname. cbn [String.eqb Ascii.eqb Bool.eqb]. unfold action_marshal, fld. rewrite Hfs.
    cbn [fget_go]. names_goal. cbn [String.eqb Ascii.eqb Bool.eqb andb rbind fst snd].
    rewrite HlO. rewrite Hmels. cbn [rbind]. unfold inner_change_field, fld. rewrite Hfs. cbn [fget_go]. names_goal.
    cbn [String.eqb Ascii.eqb Bool.eqb andb rbind fst snd]. rewrite HmOld. cbn [rbind]. rewrite HmNew. cbn [rbind].
    rewrite default_start_given by (rewrite Hgn; exact Hne). rewrite Hgn. reflexivity.
  - intros base Hz. destruct (zl_struct_inv sch _ _ dA base Hz Hk) as [bs [-> Hzs]]. clear Hz. rename Hzs into Hz.
    rewrite Hfs in Hz.
    destruct bs as [|bT [|bO [|bOld [|bNew [|b5 bs]]]]];
      try (cbn [fields_all] in Hz; repeat (apply andb_true_iff in Hz; destruct Hz as [? Hz]); discriminate).
    cbn [fields_all] in Hz. repeat (apply andb_true_iff in Hz; destruct Hz as [? Hz]).
    repeat match goal with K : x_skip (f_xml ?f) = false, H : (if x_skip (f_xml ?f) then _ else _) = true |- _ => apply (if_false_hyp _ _ _ K) in H end.
    repeat match goal with E : f_type ?f = TPtr (TNamed "OSM"), W : zero_like sch (S (S e)) (f_type ?f) _ = true |- _ => rewrite E in W end.
    assert (HzP : forall b, zero_like sch (S (S e)) (TPtr (TNamed "OSM")) b = true -> b = VPtr None).
    { intros b Hb. exact (zl_ptr_inv sch _ _ (TNamed "OSM") b Hb eq_refl). }
    rewrite (HzP bO), (HzP bOld), (HzP bNew) by assumption.
    rewrite unmarshal_S. rewrite (us_hook sch _ FUEL (TNamed "Action") dA); [| rewrite Hk; reflexivity | exact Huh].
    unfold hook_unmarshal. rewrite Hname. cbn [String.eqb Ascii.eqb Bool.eqb]. unfold action_unmarshal.
    cbn [xattrs xkids first_attr String.eqb Ascii.eqb Bool.eqb]. unfold set_fld. rewrite Hfs. cbn [fset_go]. names_goal.
    cbn [String.eqb Ascii.eqb Bool.eqb andb rbind].
    rewrite !action_walks_app. rewrite Hwels.
    assert (Hafter : exists aO, (match vO with VPtr None => Ok (VStruct [VStr t; VPtr None; VPtr None; VPtr None])
                                  | _ => Ok (VStruct [VStr t; vO; VPtr None; VPtr None]) end)
                                = Ok (VStruct [VStr t; aO; VPtr None; VPtr None]) /\ aO = vO).
    { match goal with W : wf sch (S (S e)) (TPtr (TNamed "OSM")) vO = true |- _ => rename W into HwO end.
      assert (Hkp : rk sch (TPtr (TNamed "OSM")) = RPtr (TNamed "OSM")) by reflexivity.
      cbn [wf] in HwO. rewrite Hkp in HwO. destruct vO as [| | | | |[ov|]| | |]; try discriminate;
        eexists; split; reflexivity. }
    destruct Hafter as [aO [-> ->]]. cbn [rbind].
    (* old block *)
    pose proof (HdOld (unmarshal sch FUEL (S (S e))) eq_refl) as HO.
    pose proof (HdNew (unmarshal sch FUEL (S (S e))) eq_refl) as HN.
    assert (Hold : action_walks sch (unmarshal sch FUEL (S (S e))) FUEL dA (VStruct [VStr t; vO; VPtr None; VPtr None]) esOld
                   = Ok (VStruct [VStr t; vO; vOld; VPtr None])).
    { destruct vOld as [| | | | |[ov|]| | |]; try contradiction.
      - destruct HO as [blk [-> [Hn Hu]]]. destruct blk as [n at_ k tx]. cbn [xname] in Hn. subst n.
        cbn [action_walks action_walk String.eqb Ascii.eqb Bool.eqb]. rewrite Hu. cbn [rbind].
        unfold set_fld. rewrite Hfs. cbn [fset_go]. names_goal. cbn [String.eqb Ascii.eqb Bool.eqb andb rbind]. reflexivity.
      - subst esOld. reflexivity. }
    rewrite action_walks_app. rewrite Hold. cbn [rbind].
    destruct vNew as [| | | | |[ov|]| | |]; try contradiction.
    + destruct HN as [blk [-> [Hn Hu]]]. destruct blk as [n at_ k tx]. cbn [xname] in Hn. subst n.
      cbn [action_walks action_walk String.eqb Ascii.eqb Bool.eqb]. rewrite Hu. cbn [rbind].
      unfold set_fld. rewrite Hfs. cbn [fset_go]. names_goal. cbn [String.eqb Ascii.eqb Bool.eqb andb rbind]. reflexivity.
    + subst esNew. reflexivity.
Qed.

(* ---------- a slice from facts about its elements ---------- *)
Lemma slice_gen : forall ty t nm l b,
  rk sch ty = RSlice t -> marshal_hook sch ty = None -> unmarshal_hook sch ty = None ->
  (forall x, In x l -> exists ex, marshal sch b t x (Some (nm, false)) None = Ok [ex] /\ xname ex = nm
                                  /\ unmarshal sch FUEL b t (zero sch FUEL t) ex = Ok x) ->
  exists es, marshal sch (S b) ty (VList l) (Some (nm, false)) None = Ok es
             /\ Forall (fun ex => xname ex = nm) es
             /\ forall acc, absorb sch (S b) ty (VList acc) es = Ok (VList (acc ++ l)).
Proof.
  intros ty t nm l b Hk Hmh Huh Hel.
  assert (H : exists es, rconcat (fun x => marshal sch b t x (Some (nm, false)) None) l = Ok es
             /\ Forall (fun ex => xname ex = nm) es
             /\ forall acc, absorb sch (S b) ty (VList acc) es = Ok (VList (acc ++ l))).
  { induction l as [|x r IH].
    - exists []. split; [reflexivity | split; [constructor|]]. intros acc. cbn [absorb]. rewrite app_nil_r. reflexivity.
    - destruct (IH (fun y Hy => Hel y (or_intror Hy))) as [es [Hm [Hn Ha]]].
      destruct (Hel x (or_introl eq_refl)) as [ex [Hmx [Hnx Hux]]].
      exists (ex :: es). split; [|split].
      + change (ex :: es) with ([ex] ++ es). apply rconcat_cons; assumption.
      + constructor; assumption.
      + intros acc. cbn [absorb]. rewrite unmarshal_S. rewrite (us_slice sch _ _ _ _ _ _ Hk Huh). rewrite Hux. cbn [rbind].
        rewrite Ha, <- app_assoc. reflexivity. }
  destruct H as [es [Hm [Hn Ha]]]. exists es. split; [|split; assumption].
  rewrite marshal_S. rewrite (ms_slice sch _ ty t l (Some (nm, false)) None Hk eq_refl Hmh). exact Hm.
Qed.

(* ---------- Diff ---------- *)
Definition diff_static (dD : typedef) : bool :=
  is_ustruct dD && String.eqb (t_name dD) "Diff"
  && match marshal_hook sch (TNamed "Diff") with Some _ => false | None => true end
  && match unmarshal_hook sch (TNamed "Diff") with Some _ => false | None => true end
  && String.eqb (xmlname_tag dD) "osm"
  && all_supported (struct_fields dD) && parents_ok (struct_fields dD)
  && nodup_strb (attr_names sch (struct_fields dD)) && nodup_strb (elem_keys sch (struct_fields dD))
  && match struct_fields dD with
     | [fA; fC] =>
         is_elem fA && match x_parents (f_xml fA) with [] => true | _ => false end
         && String.eqb (eff_name sch fA) "action" && negb (x_omitempty (f_xml fA))
         && match rk sch (f_type fA) with RSlice t => gotype_eqb t (TNamed "Action") | _ => false end
         && match marshal_hook sch (f_type fA) with Some _ => false | None => true end
         && match unmarshal_hook sch (f_type fA) with Some _ => false | None => true end
         && is_elem fC && match x_parents (f_xml fC) with [] => true | _ => false end
         && negb (String.eqb (eff_name sch fC) "")
         && tyok sch (S (S (S (S e)))) (f_type fC) (eff_name sch fC) (x_omitempty (f_xml fC)) false
     | _ => false
     end.

Lemma roundtrip_diff_k : forall dD v,
  (S (S (S (S (S e)))) <= FUEL)%nat ->
  lookup_type sch "Diff" = Some dD -> diff_static dD = true ->
  wf sch (S (S (S (S (S e))))) (TNamed "Diff") v = true ->
  exists ex, marshal sch (S (S (S (S (S e))))) (TNamed "Diff") v None None = Ok [ex] /\ xname ex = "osm"
    /\ forall bs, fields_all (zero_like sch (S (S (S (S e))))) (zero_like sch (S (S (S (S e))))) (struct_fields dD) bs = true ->
                  unmarshal sch FUEL (S (S (S (S (S e))))) (TNamed "Diff") (VStruct bs) ex = Ok v.
Proof.
  intros dD v Hfu HlD Hst Hwf. unfold diff_static in Hst.
  apply andb_true_iff in Hst. destruct Hst as [Hst Hshape].
  do 8 (apply andb_true_iff in Hst; destruct Hst as [Hst ?]).
  match goal with E : String.eqb (t_name dD) "Diff" = true |- _ => apply String.eqb_eq in E; rename E into Hname end.
  match goal with E : String.eqb (xmlname_tag dD) "osm" = true |- _ => apply String.eqb_eq in E; rename E into Hxn end.
  assert (Hnd : named_def sch (TNamed "Diff") = Some dD) by exact HlD.
  pose proof (named_def_rk sch _ dD Hnd Hst) as Hk.
  assert (Hmh : marshal_hook sch (TNamed "Diff") = None) by (destruct (marshal_hook sch (TNamed "Diff")); [discriminate | reflexivity]).
  assert (Huh : unmarshal_hook sch (TNamed "Diff") = None) by (destruct (unmarshal_hook sch (TNamed "Diff")); [discriminate | reflexivity]).
  destruct (wf_struct_inv sch _ _ dD v Hwf Hk) as [vs [-> [Hwfs _]]].
  destruct (struct_fields dD) as [|fA [|fC [|f3 fs]]] eqn:Hfs; try discriminate.
  do 10 (apply andb_true_iff in Hshape; destruct Hshape as [Hshape ?]).
  destruct (x_parents (f_xml fA)) eqn:HpA; try discriminate. destruct (x_parents (f_xml fC)) eqn:HpC; try discriminate.
  destruct (rk sch (f_type fA)) as [| | | | |t0|tA| |] eqn:HkA; try discriminate.
  match goal with E : gotype_eqb tA _ = true |- _ => apply gotype_eqb_eq in E; subst tA end.
  assert (HmhA : marshal_hook sch (f_type fA) = None) by (destruct (marshal_hook sch (f_type fA)); [discriminate | reflexivity]).
  assert (HuhA : unmarshal_hook sch (f_type fA) = None) by (destruct (unmarshal_hook sch (f_type fA)); [discriminate | reflexivity]).
  match goal with E : String.eqb (eff_name sch fA) "action" = true |- _ => apply String.eqb_eq in E; rename E into HnA end.
  match goal with E : negb (x_omitempty (f_xml fA)) = true |- _ => apply negb_true_iff in E; rename E into HoA end.
  match goal with E : negb (String.eqb (eff_name sch fC) "") = true |- _ => apply negb_true_iff in E; apply String.eqb_neq in E; rename E into HnC end.
  rename Hshape into HeA. match goal with E : is_elem fC = true |- _ => rename E into HeC end.
  destruct (elem_not_attr fA HeA) as [HaA HsA]. destruct (elem_not_attr fC HeC) as [HaC HsC].
  destruct vs as [|vA [|vC [|v3 vs]]];
    try (cbn [fields_all] in Hwfs; repeat (apply andb_true_iff in Hwfs; destruct Hwfs as [? Hwfs]); discriminate).
  cbn [fields_all] in Hwfs. repeat (apply andb_true_iff in Hwfs; destruct Hwfs as [? Hwfs]).
  repeat match goal with K : x_skip (f_xml ?f) = false, H : (if x_skip (f_xml ?f) then _ else _) = true |- _ => apply (if_false_hyp _ _ _ K) in H end.
  match goal with W : wf sch _ (f_type fA) vA = true |- _ => rename W into HwA end.
  match goal with W : wf sch _ (f_type fC) vC = true |- _ => rename W into HwC end.
  (* the actions *)
  cbn [wf] in HwA. rewrite HkA in HwA. destruct vA as [| | | | | |la| |]; try discriminate.
  assert (Hact : forall x, In x la -> exists ex, marshal sch (S (S (S e))) (TNamed "Action") x (Some ("action", false)) None = Ok [ex]
                     /\ xname ex = "action"
                     /\ unmarshal sch FUEL (S (S (S e))) (TNamed "Action") (zero sch FUEL (TNamed "Action")) ex = Ok x).
  { intros x Hx. rewrite forallb_forall in HwA. specialize (HwA x Hx). apply andb_true_iff in HwA. destruct HwA as [Hwx _].
    destruct (action_rt x "action" ltac:(discriminate) Hwx) as [ex [Hm [Hn Hu]]].
    exists ex. split; [apply Hm; reflexivity | split; [exact Hn|]]. apply Hu.
    apply zero_like_zero with (x := x); [unfold FUEL in *; lia | left; exact Hwx]. }
  destruct (slice_gen (f_type fA) (TNamed "Action") "action" la (S (S (S e))) HkA HmhA HuhA Hact) as [esA [HmA [HnmA HabA]]].
  (* the changesets *)
  assert (Ha4 : (S (S (S (S e))) <= FUEL)%nat) by lia.
  destruct (RT_fld sch _ (f_type fC) vC (eff_name sch fC) (x_omitempty (f_xml fC)) false Ha4 HwC ltac:(assumption) HnC)
    as [esC [HmC [HnmC [HabC _]]]].
  exists (Elem "osm" [] (List.concat [esA; esC]) no_text). split; [|split; [reflexivity|]].
  - rewrite marshal_S. rewrite (ms_struct sch _ _ dD _ None None Hk Hmh). unfold marshal_struct.
    unfold start_name. rewrite Hxn. cbn [String.eqb Ascii.eqb Bool.eqb negb rbind]. rewrite Hfs.
    rewrite !ma_nonattr by (assumption || (cbn [all_supported forallb] in *; repeat match goal with E : _ && _ = true |- _ => apply andb_true_iff in E; destruct E end; assumption)).
    cbn [marshal_attrs rbind]. rewrite !mc_elem by assumption. cbn [marshal_children].
    rewrite HnA, HoA. rewrite HmA. cbn [rbind]. rewrite (HmC _ (le_n _)). cbn [rbind List.concat]. rewrite !app_nil_r. reflexivity.
  - intros bs Hz. rewrite unmarshal_S. rewrite (us_struct sch _ _ _ dD _ _ Hk Huh).
    try rewrite Hfs in Hz.
    destruct bs as [|bA [|bC [|b3 bs]]];
      try (cbn [fields_all] in Hz; repeat (apply andb_true_iff in Hz; destruct Hz as [? Hz]); discriminate).
    cbn [fields_all] in Hz. repeat (apply andb_true_iff in Hz; destruct Hz as [? Hz]).
    repeat match goal with K : x_skip (f_xml ?f) = false, H : (if x_skip (f_xml ?f) then _ else _) = true |- _ => apply (if_false_hyp _ _ _ K) in H end.
    match goal with Z : zero_like sch _ (f_type fA) bA = true |- _ => rename Z into HzA end.
    match goal with Z : zero_like sch _ (f_type fC) bC = true |- _ => rename Z into HzC end.
    assert (HbA : bA = VList []).
    { cbn [zero_like] in HzA. rewrite HkA in HzA. destruct bA as [| | | | | |[|]| |]; try discriminate. reflexivity. }
    subst bA.
    apply (assemble_struct sch _ dD _ _ [] _ "osm" no_text); rewrite ?Hfs; try assumption.
    + rewrite Hxn. reflexivity.
    + rewrite !ma_nonattr by (assumption || (cbn [all_supported forallb] in *; repeat match goal with E : _ && _ = true |- _ => apply andb_true_iff in E; destruct E end; assumption)). reflexivity.
    + repeat constructor; intros Hx; congruence.
    + unfold after_attrs. cbn [combine map fst snd]. rewrite HaA, HaC.
      repeat constructor; cbn [fst snd].
      * unfold own_names, elem_key. rewrite HeA, HpA, HnA. exact HnmA.
      * intros _. rewrite absorb_kids_plain; [apply (HabA []) | exact HpA | exact HeA | rewrite HnA; exact HnmA].
      * unfold own_names, elem_key. rewrite HeC, HpC. exact HnmC.
      * intros _. rewrite absorb_kids_plain; [apply HabC; [apply le_n | exact HzC] | exact HpC | exact HeC | exact HnmC].
    + reflexivity.
    + reflexivity.
    + unfold after_kids, after_attrs. cbn [combine map fst snd]. rewrite HaA, HaC, HeA, HeC. reflexivity.
Qed.

End Raw.

Theorem roundtrip_diff : forall dD dA dO v,
  lookup_type sch "Diff" = Some dD -> diff_static 11 dD = true ->
  lookup_type sch "Action" = Some dA -> action_static dA = true ->
  lookup_type sch "OSM" = Some dO -> osm_top_static sch dO = true -> osm_static sch 11 dO = true ->
  elems_static 11 dO = true ->
  wf sch FUEL (TNamed "Diff") v = true ->
  exists ex, encode1 sch "Diff" v = Ok ex /\ decode sch "Diff" ex = Ok v /\ xname ex = "osm".
Proof.
  intros dD dA dO v HlD HsD HlA HsA HlO HtO HsO HeO Hwf.
  assert (H14 : (S (S (S 11)) <= FUEL)%nat) by (unfold FUEL; repeat constructor).
  assert (H16 : (S (S (S (S (S 11)))) <= FUEL)%nat) by (unfold FUEL; repeat constructor).
  destruct (roundtrip_diff_k 11 dO H14 HlO HtO HsO HeO dA HlA HsA dD v H16 HlD HsD Hwf) as [ex [He [Hn Hd]]].
  exists ex. split; [|split; [|exact Hn]].
  - unfold encode1, encode. change FUEL with (S (S (S (S (S 11))))). rewrite He. reflexivity.
  - unfold decode.
    assert (Hk : rk sch (TNamed "Diff") = RStruct dD).
    { unfold diff_static in HsD. do 9 (apply andb_true_iff in HsD; destruct HsD as [HsD ?]).
      apply named_def_rk; [exact HlD | exact HsD]. }
    change (zero sch FUEL (TNamed "Diff")) with (zero sch (S 15) (TNamed "Diff")).
    rewrite (zero_struct sch 15 _ dD Hk). change (unmarshal sch FUEL FUEL) with (unmarshal sch FUEL (S (S (S (S (S 11)))))).
    apply Hd. destruct (wf_struct_inv sch 15 _ dD v Hwf Hk) as [vs [_ [Hw _]]].
    exact (zero_fields_like sch 15 15 _ vs (le_n _) Hw).
Qed.

End Diff.
