(* Codec/ProofsRT.v — the generic XML round-trip theorem for the method-free fragment:
   for every type expression whose static description passes [tyok] (scalars, time.Time,
   pointers to structs, slices, structs without hand-written XML methods and without a>b
   paths, attribute fields of scalar / time / pointer-to-scalar type, distinct attribute names,
   distinct element names, XMLName tag equal to the name it is used under) and every
   well-formed value of it:  what marshal writes, unmarshal reads back to the same value —
   for every amount of fuel above the value's depth.  [tyok] is a boolean evaluated by
   vm_compute on the schema regenerated from /repo. *)
From Coq Require Import List String Bool ZArith Lia.
From Verif Require Import Codec.Schema Codec.Value Codec.Xml Codec.Wf Codec.ProofsAttr Codec.ProofsKids.
Import ListNotations.
Open Scope string_scope.
Open Scope list_scope.

Section RT.
Variable sch : schema.
Notation rk := (rk sch).

Definition is_scalar (k : rkind) : bool :=
  match k with RInt | RFloat | RBool | RString | RTime => true | _ => false end.
Definition is_struct (k : rkind) : bool := match k with RStruct _ => true | _ => false end.

Definition attr_ty_ok (ty : gotype) : bool :=
  match rk ty with
  | RPtr t => is_scalar (rk t)
  | k => is_scalar k
  end.

Definition no_hooks (ty : gotype) : bool :=
  match marshal_hook sch ty, unmarshal_hook sch ty with None, None => true | _, _ => false end.

Fixpoint tyok (k : nat) (ty : gotype) (nm : string) (omit inslice : bool) : bool :=
  match k with
  | O => false
  | S k' =>
      no_hooks ty &&
      match rk ty with
      | RPtr t => is_struct (rk t) && tyok k' t nm false inslice
      | RSlice t => negb inslice && tyok k' t nm omit true
      | RStruct d =>
          let fs := struct_fields d in
          (String.eqb (xmlname_tag d) "" || String.eqb (xmlname_tag d) nm)
          && all_supported fs && nodup_strb (attr_names sch fs) && nodup_strb (elem_names sch fs)
          && no_parents fs
          && forallb (fun f =>
                        if x_skip (f_xml f) then negb (is_struct (rk (f_type f)))
                        else if is_attr f then attr_ty_ok (f_type f)
                        else negb (String.eqb (eff_name sch f) "")
                             && tyok k' (f_type f) (eff_name sch f) (x_omitempty (f_xml f)) false) fs
      | RBad => false
      | _ => negb (omit && inslice)
      end
  end.

Definition given_name (fi : finfo) (tmpl : option string) : string :=
  match tmpl with Some t => t | None => fi_name fi end.

Fixpoint absorb (m : nat) (ty : gotype) (cur : value) (es : list xml) : result value :=
  match es with
  | [] => Ok cur
  | e :: r => do c <- unmarshal sch FUEL m ty cur e; absorb m ty c r
  end.

Definition one_ok (ty : gotype) (v : value) (inslice : bool) : bool :=
  match rk ty with
  | RStruct _ => true
  | RPtr _ => negb (is_nil_ptr v)
  | RSlice _ | RBad => false
  | _ => inslice
  end.

(* the statement proved by induction on the fuel of [wf] *)
Definition RT (n : nat) : Prop :=
  forall ty v fi tmpl inslice,
    wf sch n ty v = true ->
    tyok n ty (given_name fi tmpl) (fi_omit fi) inslice = true ->
    given_name fi tmpl <> "" ->
    exists es,
      (forall m, (n <= m)%nat -> marshal sch m ty v fi tmpl = Ok es)
      /\ Forall (fun e => xname e = given_name fi tmpl) es
      /\ (forall m base, (n <= m)%nat -> zero_like sch n ty base = true -> absorb m ty base es = Ok v)
      /\ (one_ok ty v inslice = true -> exists e, es = [e]).

(* ---------- the struct decoder is field-wise ---------- *)

(* Decoding a struct element treats every field independently: the loop nest of unmarshal
   (attributes x fields, then children routed to the first matching field) computes, for each
   field, the fold of that field's own hits — whenever element names are distinct and no a>b
   path is used.  All fuel levels, all documents (unknown attributes / elements included). *)
Theorem unmarshal_struct_fieldwise : forall unm d bs e st1 st2,
  all_supported (struct_fields d) = true ->
  (String.eqb (xmlname_tag d) "" || String.eqb (xmlname_tag d) (xname e)) = true ->
  no_parents (struct_fields d) = true ->
  nodup_strb (elem_names sch (struct_fields d)) = true ->
  Forall3 (fun f b r => absorb_attrs sch f b (xattrs e) = Ok r) (struct_fields d) bs st1 ->
  Forall3 (fun f b r => absorb_kids sch unm f b (xkids e) = Ok r) (struct_fields d) st1 st2 ->
  unmarshal_struct sch unm d (VStruct bs) e = Ok (VStruct st2).
Proof.
  intros unm d bs e st1 st2 Hs Hn Hnp Hnd Ha Hk. unfold unmarshal_struct. rewrite Hs. cbn [negb].
  assert (Hc : (negb (String.eqb (xmlname_tag d) "") && negb (String.eqb (xmlname_tag d) (xname e))) = false).
  { apply orb_true_iff in Hn. destruct Hn as [->| ->]; [reflexivity | apply andb_false_r]. }
  rewrite Hc.
  rewrite (unmarshal_attrs_pointwise _ _ _ _ _ Ha). cbn [rbind].
  rewrite (unmarshal_kids_pointwise _ _ _ _ _ _ Hnp Hnd Hk). reflexivity.
Qed.

(* ---------- attribute fields: written then read gives the value back ---------- *)

Lemma attr_rt_of_wf : forall n f v b,
  attr_ty_ok (f_type f) = true ->
  wf sch (S (S n)) (f_type f) v = true ->
  zero_like sch (S (S n)) (f_type f) b = true ->
  attr_field_rt sch f v b.
Proof.
  intros n f v b Hty Hwf Hz Ha. unfold attr_ty_ok in Hty.
  cbn [wf] in Hwf. cbn [zero_like] in Hz. unfold AFUEL. cbn [attr_atom attr_value].
  destruct (rk (f_type f)) eqn:Hk; cbn [is_scalar] in Hty; try discriminate.
  - destruct v; try discriminate. destruct b; try discriminate. cbn [is_empty]. apply Z.eqb_eq in Hz. subst.
    destruct (x_omitempty (f_xml f) && (z =? 0)%Z) eqn:Ho.
    + apply andb_true_iff in Ho. destruct Ho as [_ Ho]. apply Z.eqb_eq in Ho. subst. reflexivity.
    + reflexivity.
  - destruct v; try discriminate. destruct b; try discriminate. cbn [is_empty]. apply Z.eqb_eq in Hz. subst.
    destruct (x_omitempty (f_xml f) && (q =? 0)%Z) eqn:Ho.
    + apply andb_true_iff in Ho. destruct Ho as [_ Ho]. apply Z.eqb_eq in Ho. subst. reflexivity.
    + reflexivity.
  - destruct v as [| |vb| | | | | |]; try discriminate. destruct b as [| |bb| | | | | |]; try discriminate. cbn [is_empty].
    destruct bb; [discriminate|].
    destruct (x_omitempty (f_xml f) && negb vb) eqn:Ho.
    + apply andb_true_iff in Ho. destruct Ho as [_ Ho]. destruct vb; [discriminate | reflexivity].
    + reflexivity.
  - destruct v; try discriminate. destruct b as [| | |s0| | | | |]; try discriminate. destruct s0; [|discriminate].
    cbn [is_empty]. destruct s.
    + destruct (x_omitempty (f_xml f)); reflexivity.
    + rewrite andb_false_r. reflexivity.
  - destruct v; try discriminate. destruct b; try discriminate. cbn [is_empty]. rewrite andb_false_r. reflexivity.
  - (* pointer to a scalar *)
    destruct v as [| | | | |o| | |]; try discriminate. destruct b as [| | | | |ob| | |]; try discriminate.
    destruct ob; [discriminate|]. destruct o as [v'|].
    + cbn [is_empty]. rewrite andb_false_r. cbn [wf] in Hwf.
      destruct (rk t) eqn:Hkt; cbn [is_scalar] in Hty; try discriminate;
        destruct v'; try discriminate; reflexivity.
    + cbn [is_empty]. destruct (x_omitempty (f_xml f)); reflexivity.
Qed.

End RT.
