(* Codec/ProofsRT.v — the generic XML round-trip theorem.

   For every type expression whose static description passes [tyok] (scalars, time.Time,
   pointers to structs, slices, structs with attribute fields of scalar / time /
   pointer-to-scalar type, distinct attribute names, distinct element keys, at most one level
   of a>b, XMLName tag equal to the name the struct is used under, and the types with the
   transcribed methods Bounds.MarshalXML, Date.Marshal/UnmarshalXML,
   ChangesetDiscussion.MarshalXML) and every well-formed value of it: what marshal writes,
   unmarshal reads back to the same value — for every amount of fuel above the value's depth.
   [tyok] is a boolean evaluated by vm_compute on the schema regenerated from /repo. *)
From Coq Require Import List String Bool ZArith Lia.
From Verif Require Import Codec.Schema Codec.Value Codec.Xml Codec.Wf Codec.ProofsAttr Codec.ProofsKids.
Import ListNotations.
Open Scope string_scope.
Open Scope list_scope.

Section RT.
Variable sch : schema.
Notation rk := (rk sch).

Definition is_scalar (k : rkind) : bool :=
  match k with RInt | RFloat | RBool | RString | RTime => true | _ => false end.
Definition is_struct (k : rkind) : bool := match k with RStruct _ => true | _ => false end.
Definition zero_unique (k : rkind) : bool := match k with RStruct _ | RBad => false | _ => true end.

Definition attr_ty_ok (ty : gotype) : bool :=
  match rk ty with
  | RPtr t => is_scalar (rk t)
  | k => is_scalar k
  end.

(* static conditions on one field, given the check [ok] for element field types *)
Definition field_cond (ok : gotype -> string -> bool -> bool -> bool) (f : field) : bool :=
  if x_skip (f_xml f) then zero_unique (rk (f_type f))
  else if is_attr f then attr_ty_ok (f_type f)
  else negb (String.eqb (eff_name sch f) "")
       && match x_parents (f_xml f) with
          | [] => true
          | _ => match rk (f_type f) with RSlice _ => true | _ => false end
          end
       && ok (f_type f) (eff_name sch f) (x_omitempty (f_xml f)) false.

Definition field_conds (ok : gotype -> string -> bool -> bool -> bool) (fs : list field) : bool :=
  all_supported fs && nodup_strb (attr_names sch fs) && nodup_strb (elem_keys sch fs)
  && parents_ok fs && forallb (field_cond ok) fs.

Definition is_ustruct (d : typedef) : bool :=
  match t_under d with UStruct _ _ => true | UType _ => false end.

Definition single_field (d : typedef) : option field :=
  match struct_fields d with [f] => Some f | _ => None end.

Fixpoint tyok (k : nat) (ty : gotype) (nm : string) (omit inslice : bool) : bool :=
  match k with
  | O => false
  | S k' =>
      match marshal_hook sch ty, unmarshal_hook sch ty with
      | None, None =>
          match rk ty with
          | RPtr t => is_struct (rk t) && tyok k' t nm false inslice
          | RSlice t => negb inslice && tyok k' t nm omit true
          | RStruct d =>
              (String.eqb (xmlname_tag d) "" || String.eqb (xmlname_tag d) nm)
              && field_conds (tyok k') (struct_fields d)
          | RBad => false
          | _ => negb (omit && inslice)
          end
      | Some d, None =>
          is_ustruct d &&
          if String.eqb (t_name d) "Bounds" then
            String.eqb nm "bounds" && String.eqb (xmlname_tag d) ""
            && field_conds (tyok k') (struct_fields d)
          else if String.eqb (t_name d) "ChangesetDiscussion" then
            (String.eqb (xmlname_tag d) "" || String.eqb (xmlname_tag d) nm)
            && match single_field d with
               | Some f =>
                   String.eqb (f_name f) "Comments" && is_elem f && field_supported f
                   && String.eqb (eff_name sch f) "comment"
                   && match x_parents (f_xml f) with [] => true | _ => false end
                   && tyok k' (f_type f) "comment" false false
               | None => false
               end
          else false
      | Some d, Some _ =>
          is_ustruct d && String.eqb (t_name d) "Date"
          && match single_field d with
             | Some f => String.eqb (f_name f) "Time"
                         && match rk (f_type f) with RTime => true | _ => false end
             | None => false
             end
      | None, Some _ => false
      end
  end.

Definition given_name (fi : finfo) (tmpl : option string) : string :=
  match tmpl with Some t => t | None => fi_name fi end.

Fixpoint absorb (m : nat) (ty : gotype) (cur : value) (es : list xml) : result value :=
  match es with
  | [] => Ok cur
  | e :: r => do c <- unmarshal sch FUEL m ty cur e; absorb m ty c r
  end.

Definition one_ok (ty : gotype) (v : value) (inslice : bool) : bool :=
  match rk ty with
  | RStruct _ => true
  | RPtr _ => negb (is_nil_ptr v)
  | RSlice _ | RBad => false
  | _ => inslice
  end.

(* the statement proved by induction on the fuel of [wf] *)
Definition RT (n : nat) : Prop :=
  forall ty v fi tmpl inslice,
    wf sch n ty v = true ->
    tyok n ty (given_name fi tmpl) (fi_omit fi) inslice = true ->
    given_name fi tmpl <> "" ->
    exists es,
      (forall m, (n <= m)%nat -> marshal sch m ty v fi tmpl = Ok es)
      /\ Forall (fun e => xname e = given_name fi tmpl) es
      /\ (forall m base, (n <= m)%nat -> zero_like sch n ty base = true -> absorb m ty base es = Ok v)
      /\ (one_ok ty v inslice = true -> exists e, es = [e]).

(* ---------- the struct decoder is field-wise ---------- *)

Theorem unmarshal_struct_fieldwise : forall unm d bs e st1 st2,
  all_supported (struct_fields d) = true ->
  (String.eqb (xmlname_tag d) "" || String.eqb (xmlname_tag d) (xname e)) = true ->
  parents_ok (struct_fields d) = true ->
  nodup_strb (elem_keys sch (struct_fields d)) = true ->
  Forall3 (fun f b r => absorb_attrs sch f b (xattrs e) = Ok r) (struct_fields d) bs st1 ->
  Forall3 (fun f b r => absorb_kids sch unm f b (xkids e) = Ok r) (struct_fields d) st1 st2 ->
  unmarshal_struct sch unm d (VStruct bs) e = Ok (VStruct st2).
Proof.
  intros unm d bs e st1 st2 Hs Hn Hnp Hnd Ha Hk. unfold unmarshal_struct. rewrite Hs. cbn [negb].
  rewrite (Forall3_length12 _ _ _ _ Ha), Nat.eqb_refl. cbn [negb].
  assert (Hc : (negb (String.eqb (xmlname_tag d) "") && negb (String.eqb (xmlname_tag d) (xname e))) = false).
  { apply orb_true_iff in Hn. destruct Hn as [->| ->]; [reflexivity | apply andb_false_r]. }
  rewrite Hc.
  rewrite (unmarshal_attrs_pointwise _ _ _ _ _ Ha). cbn [rbind].
  rewrite (unmarshal_kids_pointwise _ _ _ _ _ _ Hnp Hnd Hk). reflexivity.
Qed.

(* ---------- zero values ---------- *)

Lemma fields_all_imp : forall (P Q P' Q' : gotype -> value -> bool) fs vs,
  (forall ty x, P ty x = true -> P' ty x = true) ->
  (forall ty x, Q ty x = true -> Q' ty x = true) ->
  fields_all P Q fs vs = true -> fields_all P' Q' fs vs = true.
Proof.
  intros P Q P' Q' fs. induction fs as [|f fs IH]; intros vs HP HQ H; destruct vs as [|x vs]; cbn in *; try discriminate; [reflexivity|].
  apply andb_true_iff in H. destruct H as [H1 H2]. rewrite (IH _ HP HQ H2), andb_true_r.
  destruct (x_skip (f_xml f)); [apply HQ | apply HP]; exact H1.
Qed.

(* the allocated zero of a type is zero-like at every depth some value of the type lives at *)
Lemma zero_like_zero : forall n k ty x,
  (n <= k)%nat -> (wf sch n ty x = true \/ zero_like sch n ty x = true) ->
  zero_like sch n ty (zero sch k ty) = true.
Proof.
  induction n as [|n IH]; intros k ty x Hle H; [destruct H; discriminate|].
  destruct k as [|k]; [lia|]. cbn [zero_like zero wf] in *.
  destruct (rk ty) eqn:Hk; try reflexivity.
  assert (Hf : exists xs, fields_all (fun t y => wf sch n t y || zero_like sch n t y)
                                     (fun t y => wf sch n t y || zero_like sch n t y) (struct_fields d) xs = true).
  { destruct H as [H|H]; destruct x; try discriminate.
    - apply andb_true_iff in H. destruct H as [H _]. exists fs.
      eapply fields_all_imp; [| |exact H]; intros t y E; rewrite E; [reflexivity | apply orb_true_r].
    - exists fs. eapply fields_all_imp; [| |exact H]; intros t y E; rewrite E; apply orb_true_r. }
  destruct Hf as [xs Hf]. clear H. revert xs Hf.
  induction (struct_fields d) as [|f fs IHf]; intros xs Hf; [reflexivity|].
  destruct xs as [|y ys]; [discriminate|]. cbn [map fields_all] in *.
  apply andb_true_iff in Hf. destruct Hf as [H1 H2].
  assert (Hz : zero_like sch n (f_type f) (zero sch k (f_type f)) = true).
  { apply IH with (x := y); [lia|]. destruct (x_skip (f_xml f)); apply orb_true_iff in H1; exact H1. }
  rewrite Hz. destruct (x_skip (f_xml f)); cbn [andb]; exact (IHf _ H2).
Qed.

Lemma zero_like_unique : forall n ty a b,
  zero_unique (rk ty) = true -> zero_like sch n ty a = true -> zero_like sch n ty b = true -> a = b.
Proof.
  intros n ty a b Hu Ha Hb. destruct n; [discriminate|]. cbn [zero_like] in *.
  destruct (rk ty); cbn in Hu; try discriminate;
    destruct a as [za|qa|ba|sa|ta|oa|la|fa|]; try discriminate; destruct b as [zb|qb|bb|sb|tb|ob|lb|fb|]; try discriminate.
  - apply Z.eqb_eq in Ha, Hb. subst. reflexivity.
  - apply Z.eqb_eq in Ha, Hb. subst. reflexivity.
  - destruct ba, bb; try discriminate. reflexivity.
  - destruct sa, sb; try discriminate. reflexivity.
  - apply Z.eqb_eq in Ha, Hb. subst. reflexivity.
  - destruct oa, ob; try discriminate. reflexivity.
  - destruct la, lb; try discriminate. reflexivity.
Qed.

(* ---------- attribute fields ---------- *)

Lemma attr_rt_of_wf : forall n f v b,
  attr_ty_ok (f_type f) = true ->
  wf sch n (f_type f) v = true ->
  zero_like sch n (f_type f) b = true ->
  attr_field_rt sch f v b.
Proof.
  intros n f v b Hty Hwf Hz Ha. unfold attr_ty_ok in Hty. destruct n; [discriminate|].
  cbn [wf] in Hwf. cbn [zero_like] in Hz. unfold AFUEL. cbn [attr_atom attr_value].
  destruct (rk (f_type f)) eqn:Hk; cbn [is_scalar] in Hty; try discriminate.
  - destruct v; try discriminate. destruct b; try discriminate. cbn [is_empty]. apply Z.eqb_eq in Hz. subst.
    destruct (x_omitempty (f_xml f) && (z =? 0)%Z) eqn:Ho.
    + apply andb_true_iff in Ho. destruct Ho as [_ Ho]. apply Z.eqb_eq in Ho. subst. reflexivity.
    + reflexivity.
  - destruct v; try discriminate. destruct b; try discriminate. cbn [is_empty]. apply Z.eqb_eq in Hz. subst.
    destruct (x_omitempty (f_xml f) && (q =? 0)%Z) eqn:Ho.
    + apply andb_true_iff in Ho. destruct Ho as [_ Ho]. apply Z.eqb_eq in Ho. subst. reflexivity.
    + reflexivity.
  - destruct v as [| |vb| | | | | |]; try discriminate. destruct b as [| |bb| | | | | |]; try discriminate. cbn [is_empty].
    destruct bb; [discriminate|].
    destruct (x_omitempty (f_xml f) && negb vb) eqn:Ho.
    + apply andb_true_iff in Ho. destruct Ho as [_ Ho]. destruct vb; [discriminate | reflexivity].
    + reflexivity.
  - destruct v; try discriminate. destruct b as [| | |s0| | | | |]; try discriminate. destruct s0; [|discriminate].
    cbn [is_empty]. destruct s.
    + destruct (x_omitempty (f_xml f)); reflexivity.
    + rewrite andb_false_r. reflexivity.
  - destruct v; try discriminate. destruct b; try discriminate. cbn [is_empty]. rewrite andb_false_r. reflexivity.
  - destruct v as [| | | | |o| | |]; try discriminate. destruct b as [| | | | |ob| | |]; try discriminate.
    destruct ob; [discriminate|]. destruct o as [v'|].
    + cbn [is_empty]. rewrite andb_false_r. destruct n; [discriminate|]. cbn [wf] in Hwf.
      destruct (rk t) eqn:Hkt; cbn [is_scalar] in Hty; try discriminate;
        destruct v'; try discriminate; reflexivity.
    + cbn [is_empty]. destruct (x_omitempty (f_xml f)); reflexivity.
Qed.

Lemma attr_atom_ok : forall n ty v,
  attr_ty_ok ty = true -> wf sch n ty v = true -> exists oa, attr_atom sch AFUEL ty v = Ok oa.
Proof.
  intros n ty v Hty Hwf. unfold attr_ty_ok in Hty. destruct n; [discriminate|]. cbn [wf] in Hwf.
  unfold AFUEL. cbn [attr_atom].
  destruct (rk ty) eqn:Hk; cbn [is_scalar] in Hty; try discriminate;
    try (destruct v; try discriminate; eexists; reflexivity).
  destruct v as [| | | | |o| | |]; try discriminate. destruct o as [v'|]; [|eexists; reflexivity].
  destruct n; [discriminate|]. cbn [wf] in Hwf.
  destruct (rk t) eqn:Hkt; cbn [is_scalar] in Hty; try discriminate;
    destruct v'; try discriminate; eexists; reflexivity.
Qed.

End RT.
