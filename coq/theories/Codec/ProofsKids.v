(* Codec/ProofsKids.v — the child-element phase of struct decoding, reasoned field by field
   (for structs without a>b parent paths).

   unmarshal_kids loops over the children and routes each to the FIRST field whose name matches.
   [absorb_kids f x kids] is what happens to ONE field when element names of fields are distinct;
   [unmarshal_kids_pointwise] shows the loop computes exactly these per-field results;
   [kids_roundtrip]: reading back the concatenation of the per-field element lists gives each
   field what reading its own list alone gives. *)
From Coq Require Import List String Bool ZArith Lia.
From Verif Require Import Codec.Schema Codec.Value Codec.Xml Codec.ProofsAttr.
Import ListNotations.
Open Scope string_scope.
Open Scope list_scope.

Section Kids.
Variable sch : schema.
Variable unm : gotype -> value -> xml -> result value.

Definition key_hit (f : field) (nm : string) : bool := is_elem f && String.eqb (eff_name sch f) nm.

Definition no_parents (fs : list field) : bool :=
  forallb (fun f => negb (is_elem f) || match x_parents (f_xml f) with [] => true | _ => false end) fs.

Definition elem_names (fs : list field) : list string := map (eff_name sch) (filter is_elem fs).

Fixpoint absorb_kids (f : field) (x : value) (kids : list xml) : result value :=
  match kids with
  | [] => Ok x
  | c :: r =>
      if key_hit f (xname c)
      then do v' <- unm (f_type f) x c; absorb_kids f v' r
      else absorb_kids f x r
  end.

Lemma path_match_noparents : forall f nm,
  (negb (is_elem f) || match x_parents (f_xml f) with [] => true | _ => false end) = true ->
  path_match sch f [] nm = if key_hit f nm then PPerfect else PNone.
Proof.
  intros f nm H. unfold path_match, key_hit. destruct (is_elem f) eqn:He; cbn [negb andb orb] in *; [|reflexivity].
  destruct (x_parents (f_xml f)); [|discriminate]. cbn. destruct (String.eqb (eff_name sch f) nm); reflexivity.
Qed.

Lemma nohit_tail_eq : forall fs st st1 nm c,
  (forall g, In g fs -> key_hit g nm = false) ->
  Forall3 (fun f x x1 => (if key_hit f nm then unm (f_type f) x c else Ok x) = Ok x1) fs st st1 ->
  st1 = st.
Proof.
  intros fs st st1 nm c Hno H. induction H as [|f x x1 fs' st' st1' Hh Ht IH]; [reflexivity|].
  rewrite (Hno f (or_introl eq_refl)) in Hh. inversion Hh; subst. f_equal. apply IH.
  intros g Hg. apply Hno. right. exact Hg.
Qed.

Lemma route_pointwise : forall fs st st1 c,
  no_parents fs = true ->
  nodup_strb (elem_names fs) = true ->
  Forall3 (fun f x x1 => (if key_hit f (xname c) then unm (f_type f) x c else Ok x) = Ok x1) fs st st1 ->
  route sch unm fs st [] c = Ok (inl (Some st1)) \/ (route sch unm fs st [] c = Ok (inl None) /\ st1 = st).
Proof.
  intros fs st st1 c Hnp Hnd H. induction H as [|f x x1 fs' st' st1' Hh Ht IH].
  - right. split; reflexivity.
  - cbn [no_parents forallb] in Hnp. apply andb_true_iff in Hnp. destruct Hnp as [Hnpf Hnp].
    cbn [route]. rewrite (path_match_noparents _ _ Hnpf).
    assert (Hnd' : nodup_strb (elem_names fs') = true).
    { unfold elem_names in *. cbn [filter] in Hnd. destruct (is_elem f); [|exact Hnd].
      cbn [map nodup_strb] in Hnd. apply andb_true_iff in Hnd. tauto. }
    destruct (key_hit f (xname c)) eqn:Hhit.
    + left. rewrite Hh. cbn [rbind].
      assert (st1' = st') as ->; [|reflexivity].
      eapply nohit_tail_eq; [|exact Ht]. intros g Hg. unfold key_hit in *.
      apply andb_true_iff in Hhit. destruct Hhit as [Hfe Hfn]. apply String.eqb_eq in Hfn.
      destruct (is_elem g) eqn:Hge; [cbn [andb] | reflexivity].
      unfold elem_names in Hnd. cbn [filter] in Hnd. rewrite Hfe in Hnd. cbn [map nodup_strb] in Hnd.
      apply andb_true_iff in Hnd. destruct Hnd as [Hnd _]. apply negb_true_iff in Hnd.
      pose proof (existsb_eqb_false _ _ Hnd) as Hni.
      destruct (String.eqb (eff_name sch g) (xname c)) eqn:He; [|reflexivity].
      apply String.eqb_eq in He. exfalso. apply Hni. rewrite Hfn, <- He. apply in_map. apply filter_In. split; assumption.
    + inversion Hh; subst x1. destruct (IH Hnp Hnd') as [Hr|[Hr Heq]].
      * left. rewrite Hr. reflexivity.
      * right. rewrite Hr. split; [reflexivity | subst; reflexivity].
Qed.

Lemma unmarshal_kids_pointwise : forall kids fs st st',
  no_parents fs = true ->
  nodup_strb (elem_names fs) = true ->
  Forall3 (fun f x x' => absorb_kids f x kids = Ok x') fs st st' ->
  unmarshal_kids sch unm fs st [] false kids = Ok st'.
Proof.
  induction kids as [|c r IH]; intros fs st st' Hnp Hnd H.
  - cbn in *. apply Forall3_eq in H. subst. reflexivity.
  - assert (Hex : exists st1,
      Forall3 (fun f x x1 => (if key_hit f (xname c) then unm (f_type f) x c else Ok x) = Ok x1) fs st st1 /\
      Forall3 (fun f x x' => absorb_kids f x r = Ok x') fs st1 st').
    { clear IH Hnp Hnd. induction H as [|f x x' fs' st0 st0' Hh Ht IHt].
      - exists []. split; constructor.
      - destruct IHt as [st1 [H1 H2]]. cbn [absorb_kids] in Hh.
        destruct (key_hit f (xname c)) eqn:Hhit.
        + destruct (unm (f_type f) x c) as [v'|e] eqn:Hu; cbn [rbind] in Hh; [|discriminate].
          exists (v' :: st1). split; constructor; auto. rewrite Hhit. exact Hu.
        + exists (x :: st1). split; constructor; auto. rewrite Hhit. reflexivity. }
    destruct Hex as [st1 [H1 H2]].
    cbn [unmarshal_kids].
    destruct (route_pointwise _ _ _ _ Hnp Hnd H1) as [Hr|[Hr Heq]]; rewrite Hr; cbn [rbind].
    + apply IH; assumption.
    + subst st1. apply IH; assumption.
Qed.

Lemma absorb_kids_app : forall f k1 k2 x,
  absorb_kids f x (k1 ++ k2) = do y <- absorb_kids f x k1; absorb_kids f y k2.
Proof.
  intros f k1. induction k1 as [|c r IH]; intros k2 x; [reflexivity|].
  cbn [app absorb_kids]. destruct (key_hit f (xname c)).
  - destruct (unm (f_type f) x c); cbn [rbind]; [apply IH | reflexivity].
  - apply IH.
Qed.

Lemma absorb_kids_skip : forall f kids x,
  (forall c, In c kids -> key_hit f (xname c) = false) -> absorb_kids f x kids = Ok x.
Proof.
  intros f kids. induction kids as [|c r IH]; intros x H; [reflexivity|].
  cbn [absorb_kids]. rewrite (H c (or_introl eq_refl)). apply IH. intros k Hin. apply H. right. exact Hin.
Qed.

(* per-field element lists: [ess] has one list per field, empty for non-element fields, all
   elements of an element field's list carry the field's name *)
Definition own_names (f : field) (es : list xml) : Prop :=
  if is_elem f then Forall (fun e => xname e = eff_name sch f) es else es = [].

Lemma kids_roundtrip : forall fs vs bases ess,
  nodup_strb (elem_names fs) = true ->
  Forall3 (fun f (vb : value * value) es =>
             own_names f es /\ (is_elem f = true -> absorb_kids f (snd vb) es = Ok (fst vb)))
          fs (combine vs bases) ess ->
  List.length vs = List.length bases ->
  Forall3 (fun f b r => absorb_kids f b (List.concat ess) = Ok r) fs bases
          (map (fun fvb => if is_elem (fst (fst fvb)) then snd (fst fvb) else snd fvb)
               (combine (combine fs vs) bases)).
Proof.
  induction fs as [|f fs IH]; intros vs bases ess Hnd H Hlen.
  - inversion H; subst. destruct vs, bases; cbn in *; try discriminate; constructor.
  - destruct vs as [|v vs]; [inversion H|]. destruct bases as [|b bases]; [inversion H|].
    cbn [combine] in H. inversion H as [|f' vb es fs' vbs ess' Hh Ht]; subst. cbn [fst snd] in Hh.
    cbn [List.length] in Hlen. injection Hlen as Hlen.
    assert (Hnd' : nodup_strb (elem_names fs) = true).
    { unfold elem_names in *. cbn [filter] in Hnd. destruct (is_elem f); [|exact Hnd].
      cbn [map nodup_strb] in Hnd. apply andb_true_iff in Hnd. tauto. }
    specialize (IH _ _ _ Hnd' Ht Hlen).
    destruct Hh as [Hown Habs]. cbn [List.concat combine map fst snd].
    (* names inside the tail lists belong to tail element fields *)
    assert (Htail_names : forall c, In c (List.concat ess') -> In (xname c) (elem_names fs)).
    { clear - Ht. intros c Hin. induction Ht as [|g vb es gs vbs ess Hg Hgs IHg]; [destruct Hin|].
      cbn [List.concat] in Hin. apply in_app_or in Hin. destruct Hg as [Hgo _]. unfold own_names in Hgo.
      unfold elem_names. cbn [filter]. destruct (is_elem g) eqn:Hge.
      - cbn [map]. destruct Hin as [Hin|Hin].
        + left. rewrite Forall_forall in Hgo. symmetry. exact (Hgo _ Hin).
        + right. exact (IHg Hin).
      - subst es. destruct Hin as [[]|Hin]. exact (IHg Hin). }
    constructor.
    + destruct (is_elem f) eqn:He.
      * rewrite absorb_kids_app, (Habs eq_refl). cbn [rbind]. apply absorb_kids_skip.
        intros c Hin. unfold key_hit. rewrite He. cbn [andb].
        pose proof (Htail_names c Hin) as Hn.
        unfold elem_names in Hnd. cbn [filter] in Hnd. rewrite He in Hnd. cbn [map nodup_strb] in Hnd.
        apply andb_true_iff in Hnd. destruct Hnd as [Hnd _]. apply negb_true_iff in Hnd.
        pose proof (existsb_eqb_false _ _ Hnd) as Hni.
        destruct (String.eqb (eff_name sch f) (xname c)) eqn:Heq; [|reflexivity].
        apply String.eqb_eq in Heq. rewrite Heq in Hni. contradiction.
      * apply absorb_kids_skip. intros c _. unfold key_hit. rewrite He. reflexivity.
    + (* tail fields skip the head's own elements *)
      assert (Hskip : forall g, In g fs -> forall c, In c es -> key_hit g (xname c) = false).
      { intros g Hg c Hc. unfold key_hit. destruct (is_elem g) eqn:Hge; [cbn [andb] | reflexivity].
        unfold own_names in Hown. destruct (is_elem f) eqn:He; [|subst es; destruct Hc].
        rewrite Forall_forall in Hown. rewrite (Hown _ Hc).
        unfold elem_names in Hnd. cbn [filter] in Hnd. rewrite He in Hnd. cbn [map nodup_strb] in Hnd.
        apply andb_true_iff in Hnd. destruct Hnd as [Hnd _]. apply negb_true_iff in Hnd.
        pose proof (existsb_eqb_false _ _ Hnd) as Hni.
        destruct (String.eqb (eff_name sch g) (eff_name sch f)) eqn:Heq; [|reflexivity].
        apply String.eqb_eq in Heq. exfalso. apply Hni. rewrite <- Heq. apply in_map. apply filter_In. split; assumption. }
      clear - IH Hskip. revert IH.
      generalize (map (fun fvb : field * value * value =>
                         if is_elem (fst (fst fvb)) then snd (fst fvb) else snd fvb)
                      (combine (combine fs vs) bases)) as res.
      intros res IH. revert Hskip.
      induction IH as [|g b0 r gs bs rs Hg Hgs IHg]; intros Hskip; constructor.
      * rewrite absorb_kids_app, absorb_kids_skip; [cbn [rbind]; exact Hg|].
        intros c Hc. exact (Hskip g (or_introl eq_refl) c Hc).
      * apply IHg. intros g' Hin. apply Hskip. right. exact Hin.
Qed.

End Kids.
