(* Codec/ProofsKids.v — the child-element phase of struct decoding, reasoned field by field,
   including one level of a>b parent paths.

   unmarshal_kids loops over the children and routes each to the FIRST field whose path matches;
   a child that is the parent element of an a>b field is descended into and its children are
   routed the same way.  [absorb_kids f x kids] is what happens to ONE field when the keys of the
   element fields (own name, or the parent name for a>b fields) are distinct;
   [unmarshal_kids_pointwise] shows the loops compute exactly these per-field results;
   [kids_roundtrip]: reading back the concatenation of the per-field element lists gives each
   field what reading its own list alone gives. *)
From Coq Require Import List String Bool ZArith Lia.
From Verif Require Import Codec.Schema Codec.Value Codec.Xml Codec.ProofsAttr.
Import ListNotations.
Open Scope string_scope.
Open Scope list_scope.

Section Kids.
Variable sch : schema.
Variable unm : gotype -> value -> xml -> result value.

Definition elem_key (f : field) : string :=
  match x_parents (f_xml f) with p :: _ => p | [] => eff_name sch f end.

Definition key_hit (f : field) (nm : string) : bool := is_elem f && String.eqb (elem_key f) nm.

Definition inner_hit (f : field) (p nm : string) : bool :=
  is_elem f && match x_parents (f_xml f) with [q] => String.eqb p q | _ => false end
  && String.eqb (eff_name sch f) nm.

Definition parents_ok (fs : list field) : bool :=
  forallb (fun f => negb (is_elem f) || match x_parents (f_xml f) with [] | [_] => true | _ => false end) fs.

Definition elem_keys (fs : list field) : list string := map elem_key (filter is_elem fs).

Fixpoint absorb_inner (f : field) (x : value) (p : string) (g : list xml) : result value :=
  match g with
  | [] => Ok x
  | gc :: r =>
      if inner_hit f p (xname gc)
      then do v' <- unm (f_type f) x gc; absorb_inner f v' p r
      else absorb_inner f x p r
  end.

Definition hit_action (f : field) (x : value) (c : xml) : result value :=
  match x_parents (f_xml f) with
  | [] => unm (f_type f) x c
  | _ => absorb_inner f x (xname c) (xkids c)
  end.

Fixpoint absorb_kids (f : field) (x : value) (kids : list xml) : result value :=
  match kids with
  | [] => Ok x
  | c :: r =>
      if key_hit f (xname c)
      then do v' <- hit_action f x c; absorb_kids f v' r
      else absorb_kids f x r
  end.

(* ---------- path_match in terms of the hit predicates ---------- *)

Definition fparents_ok (f : field) : bool :=
  negb (is_elem f) || match x_parents (f_xml f) with [] | [_] => true | _ => false end.

Lemma path_match_top : forall f nm,
  fparents_ok f = true ->
  path_match sch f [] nm =
    if key_hit f nm then (match x_parents (f_xml f) with [] => PPerfect | _ => PPrefix end) else PNone.
Proof.
  intros f nm H. unfold path_match, key_hit, elem_key, fparents_ok in *.
  destruct (is_elem f) eqn:He; cbn [negb andb orb] in *; [|reflexivity].
  destruct (x_parents (f_xml f)) as [|q [|q' r]]; try discriminate; cbn.
  - destruct (String.eqb (eff_name sch f) nm); reflexivity.
  - destruct (String.eqb q nm); reflexivity.
Qed.

Lemma path_match_inner : forall f p nm,
  fparents_ok f = true ->
  path_match sch f [p] nm = if inner_hit f p nm then PPerfect else PNone.
Proof.
  intros f p nm H. unfold path_match, inner_hit, fparents_ok in *.
  destruct (is_elem f) eqn:He; cbn [negb andb orb] in *; [|reflexivity].
  destruct (x_parents (f_xml f)) as [|q [|q' r]]; try discriminate; cbn.
  - reflexivity.
  - destruct (String.eqb p q); cbn; [|reflexivity]. destruct (String.eqb (eff_name sch f) nm); reflexivity.
Qed.

(* ---------- at most one field is hit ---------- *)

Fixpoint uniq (hit : field -> bool) (fs : list field) : Prop :=
  match fs with
  | [] => True
  | f :: r => (hit f = true -> forall g, In g r -> hit g = false) /\ uniq hit r
  end.

Lemma uniq_of_nodup : forall (hit : field -> bool) k fs,
  (forall f, hit f = true -> is_elem f = true /\ elem_key f = k) ->
  nodup_strb (elem_keys fs) = true -> uniq hit fs.
Proof.
  intros hit k fs Hk. induction fs as [|f r IH]; intros Hnd; [exact I|].
  assert (Hnd' : nodup_strb (elem_keys r) = true).
  { unfold elem_keys in *. cbn [filter] in Hnd. destruct (is_elem f); [|exact Hnd].
    cbn [map nodup_strb] in Hnd. apply andb_true_iff in Hnd. tauto. }
  cbn [uniq]. split; [|exact (IH Hnd')].
  intros Hf g Hg. destruct (hit g) eqn:Hgh; [|reflexivity]. exfalso.
  destruct (Hk f Hf) as [Hfe Hfk]. destruct (Hk g Hgh) as [Hge Hgk].
  unfold elem_keys in Hnd. cbn [filter] in Hnd. rewrite Hfe in Hnd. cbn [map nodup_strb] in Hnd.
  apply andb_true_iff in Hnd. destruct Hnd as [Hnd _]. apply negb_true_iff in Hnd.
  apply (existsb_eqb_false _ _ Hnd). rewrite Hfk, <- Hgk. apply in_map. apply filter_In. split; assumption.
Qed.

Lemma uniq_key_hit : forall fs nm, nodup_strb (elem_keys fs) = true -> uniq (fun f => key_hit f nm) fs.
Proof.
  intros fs nm. apply uniq_of_nodup with (k := nm). intros f H. unfold key_hit in H.
  apply andb_true_iff in H. destruct H as [He Hn]. apply String.eqb_eq in Hn. split; assumption.
Qed.

Lemma inner_hit_key : forall f p nm, inner_hit f p nm = true -> is_elem f = true /\ elem_key f = p.
Proof.
  intros f p nm H. unfold inner_hit, elem_key in *. apply andb_true_iff in H. destruct H as [H _].
  apply andb_true_iff in H. destruct H as [He Hp]. split; [exact He|].
  destruct (x_parents (f_xml f)) as [|q [|q' r]]; try discriminate. apply String.eqb_eq in Hp. symmetry. exact Hp.
Qed.

Lemma uniq_inner_hit : forall fs p nm, nodup_strb (elem_keys fs) = true -> uniq (fun f => inner_hit f p nm) fs.
Proof. intros fs p nm. apply uniq_of_nodup with (k := p). intros f H. exact (inner_hit_key _ _ _ H). Qed.

Lemma inner_hit_key_hit : forall f p nm, inner_hit f p nm = true -> key_hit f p = true.
Proof.
  intros f p nm H. destruct (inner_hit_key _ _ _ H) as [He Hk]. unfold key_hit. rewrite He, Hk, String.eqb_refl. reflexivity.
Qed.

(* ---------- route, one element ---------- *)

Lemma nohit_tail_eq : forall (hit : field -> bool) (act : field -> value -> result value) fs st st1,
  (forall g, In g fs -> hit g = false) ->
  Forall3 (fun f x x1 => (if hit f then act f x else Ok x) = Ok x1) fs st st1 ->
  st1 = st.
Proof.
  intros hit act fs st st1 Hno H. induction H as [|f x x1 fs' st' st1' Hh Ht IH]; [reflexivity|].
  rewrite (Hno f (or_introl eq_refl)) in Hh. inversion Hh; subst. f_equal. apply IH.
  intros g Hg. apply Hno. right. exact Hg.
Qed.

Lemma route_pointwise_gen : forall fs st st1 path c (hit : field -> bool),
  (forall f, In f fs -> path_match sch f path (xname c) = if hit f then PPerfect else PNone) ->
  uniq hit fs ->
  Forall3 (fun f x x1 => (if hit f then unm (f_type f) x c else Ok x) = Ok x1) fs st st1 ->
  route sch unm fs st path c = Ok (inl (Some st1))
  \/ (route sch unm fs st path c = Ok (inl None) /\ st1 = st).
Proof.
  intros fs st st1 path c hit Hpm Hu H. induction H as [|f x x1 fs' st' st1' Hh Ht IH].
  - right. split; reflexivity.
  - cbn [route]. rewrite (Hpm f (or_introl eq_refl)). cbn [uniq] in Hu. destruct Hu as [Hu1 Hu2].
    destruct (hit f) eqn:Hhit.
    + left. rewrite Hh. cbn [rbind].
      assert (st1' = st') as ->; [|reflexivity].
      eapply nohit_tail_eq with (hit := hit) (act := fun g y => unm (f_type g) y c); [|exact Ht].
      exact (Hu1 eq_refl).
    + inversion Hh; subst x1.
      destruct (IH (fun g Hg => Hpm g (or_intror Hg)) Hu2) as [Hr|[Hr Heq]].
      * left. rewrite Hr. reflexivity.
      * right. rewrite Hr. split; [reflexivity | subst; reflexivity].
Qed.

(* grandchildren below the parent element p *)
Lemma gkids_pointwise : forall gk fs st st',
  parents_ok fs = true ->
  nodup_strb (elem_keys fs) = true ->
  forall p,
  Forall3 (fun f x x' => absorb_inner f x p gk = Ok x') fs st st' ->
  unmarshal_gkids sch unm fs st [p] gk = Ok st'.
Proof.
  induction gk as [|gc r IH]; intros fs st st' Hpo Hnd p H.
  - cbn in *. apply Forall3_eq in H. subst. reflexivity.
  - assert (Hex : exists st1,
      Forall3 (fun f x x1 => (if inner_hit f p (xname gc) then unm (f_type f) x gc else Ok x) = Ok x1) fs st st1 /\
      Forall3 (fun f x x' => absorb_inner f x p r = Ok x') fs st1 st').
    { clear IH Hpo Hnd. induction H as [|f x x' fs' st0 st0' Hh Ht IHt].
      - exists []. split; constructor.
      - destruct IHt as [st1 [H1 H2]]. cbn [absorb_inner] in Hh.
        destruct (inner_hit f p (xname gc)) eqn:Hhit.
        + destruct (unm (f_type f) x gc) as [v'|e] eqn:Hu; cbn [rbind] in Hh; [|discriminate].
          exists (v' :: st1). split; constructor; auto. rewrite Hhit. exact Hu.
        + exists (x :: st1). split; constructor; auto. rewrite Hhit. reflexivity. }
    destruct Hex as [st1 [H1 H2]].
    cbn [unmarshal_gkids].
    assert (Hpm : forall f, In f fs -> path_match sch f [p] (xname gc) =
                                       if inner_hit f p (xname gc) then PPerfect else PNone).
    { intros f Hf. apply path_match_inner. unfold parents_ok in Hpo. rewrite forallb_forall in Hpo. exact (Hpo f Hf). }
    destruct (route_pointwise_gen fs st st1 [p] gc (fun f => inner_hit f p (xname gc)) Hpm
                (uniq_inner_hit _ _ _ Hnd) H1) as [Hr|[Hr Heq]]; rewrite Hr; cbn [rbind].
    + apply IH; assumption.
    + subst st1. apply IH; assumption.
Qed.

Lemma absorb_inner_nohit : forall f p gk x,
  (forall nm, inner_hit f p nm = false) -> absorb_inner f x p gk = Ok x.
Proof.
  intros f p gk. induction gk as [|gc r IH]; intros x H; [reflexivity|].
  cbn [absorb_inner]. rewrite H. apply IH. exact H.
Qed.

(* classification of the top-level routing of one child *)
Lemma route_top : forall fs st st1 c,
  parents_ok fs = true ->
  uniq (fun f => key_hit f (xname c)) fs ->
  Forall3 (fun f x x1 => (if key_hit f (xname c) then hit_action f x c else Ok x) = Ok x1) fs st st1 ->
  route sch unm fs st [] c = Ok (inl (Some st1))
  \/ (route sch unm fs st [] c = Ok (inl None) /\ st1 = st)
  \/ (route sch unm fs st [] c = Ok (inr [xname c])
      /\ Forall3 (fun f x x1 => absorb_inner f x (xname c) (xkids c) = Ok x1) fs st st1).
Proof.
  intros fs st st1 c Hpo Hu H. induction H as [|f x x1 fs' st' st1' Hh Ht IH].
  - right. left. split; reflexivity.
  - cbn [parents_ok forallb] in Hpo. apply andb_true_iff in Hpo. destruct Hpo as [Hpf Hpo].
    cbn [uniq] in Hu. destruct Hu as [Hu1 Hu2].
    cbn [route]. rewrite (path_match_top _ _ Hpf).
    destruct (key_hit f (xname c)) eqn:Hhit.
    + assert (Htail : st1' = st').
      { eapply nohit_tail_eq with (hit := fun g => key_hit g (xname c)) (act := fun g y => hit_action g y c); [|exact Ht].
        exact (Hu1 eq_refl). }
      subst st1'. unfold hit_action in Hh.
      destruct (x_parents (f_xml f)) as [|q ps] eqn:Hps.
      * left. rewrite Hh. reflexivity.
      * right. right. split; [reflexivity|]. constructor; [exact Hh|].
        clear - Hu1 Ht. specialize (Hu1 eq_refl).
        induction Ht as [|g y y1 gs ys ys1 Hg Hgs IHg]; constructor.
        -- rewrite absorb_inner_nohit; [reflexivity|]. intros nm.
           destruct (inner_hit g (xname c) nm) eqn:E; [|reflexivity].
           apply inner_hit_key_hit in E. rewrite (Hu1 g (or_introl eq_refl)) in E. discriminate.
        -- apply IHg. intros g' Hin. apply Hu1. right. exact Hin.
    + inversion Hh; subst x1.
      assert (Hin0 : absorb_inner f x (xname c) (xkids c) = Ok x).
      { apply absorb_inner_nohit. intros nm. destruct (inner_hit f (xname c) nm) eqn:E; [|reflexivity].
        apply inner_hit_key_hit in E. rewrite Hhit in E. discriminate. }
      destruct (IH Hpo Hu2) as [Hr|[[Hr Heq]|[Hr Hf3]]].
      * left. rewrite Hr. reflexivity.
      * right. left. rewrite Hr. split; [reflexivity | subst; reflexivity].
      * right. right. rewrite Hr. split; [reflexivity|]. constructor; assumption.
Qed.

Lemma unmarshal_kids_pointwise : forall kids fs st st',
  parents_ok fs = true ->
  nodup_strb (elem_keys fs) = true ->
  Forall3 (fun f x x' => absorb_kids f x kids = Ok x') fs st st' ->
  unmarshal_kids sch unm fs st [] false kids = Ok st'.
Proof.
  induction kids as [|c r IH]; intros fs st st' Hpo Hnd H.
  - cbn in *. apply Forall3_eq in H. subst. reflexivity.
  - assert (Hex : exists st1,
      Forall3 (fun f x x1 => (if key_hit f (xname c) then hit_action f x c else Ok x) = Ok x1) fs st st1 /\
      Forall3 (fun f x x' => absorb_kids f x r = Ok x') fs st1 st').
    { clear IH Hpo Hnd. induction H as [|f x x' fs' st0 st0' Hh Ht IHt].
      - exists []. split; constructor.
      - destruct IHt as [st1 [H1 H2]]. cbn [absorb_kids] in Hh.
        destruct (key_hit f (xname c)) eqn:Hhit.
        + destruct (hit_action f x c) as [v'|e] eqn:Hu; cbn [rbind] in Hh; [|discriminate].
          exists (v' :: st1). split; constructor; auto. rewrite Hhit. exact Hu.
        + exists (x :: st1). split; constructor; auto. rewrite Hhit. reflexivity. }
    destruct Hex as [st1 [H1 H2]].
    cbn [unmarshal_kids].
    destruct (route_top _ _ _ _ Hpo (uniq_key_hit _ _ Hnd) H1) as [Hr|[[Hr Heq]|[Hr Hf3]]]; rewrite Hr; cbn [rbind].
    + apply IH; assumption.
    + subst st1. apply IH; assumption.
    + rewrite (gkids_pointwise _ _ _ _ Hpo Hnd _ Hf3). cbn [rbind]. apply IH; assumption.
Qed.

Lemma absorb_kids_app : forall f k1 k2 x,
  absorb_kids f x (k1 ++ k2) = do y <- absorb_kids f x k1; absorb_kids f y k2.
Proof.
  intros f k1. induction k1 as [|c r IH]; intros k2 x; [reflexivity|].
  cbn [app absorb_kids]. destruct (key_hit f (xname c)).
  - destruct (hit_action f x c); cbn [rbind]; [apply IH | reflexivity].
  - apply IH.
Qed.

Lemma absorb_kids_skip : forall f kids x,
  (forall c, In c kids -> key_hit f (xname c) = false) -> absorb_kids f x kids = Ok x.
Proof.
  intros f kids. induction kids as [|c r IH]; intros x H; [reflexivity|].
  cbn [absorb_kids]. rewrite (H c (or_introl eq_refl)). apply IH. intros k Hin. apply H. right. exact Hin.
Qed.

(* per-field element lists: [ess] has one list per field, empty for non-element fields, all
   elements of an element field's list carry the field's key *)
Definition own_names (f : field) (es : list xml) : Prop :=
  if is_elem f then Forall (fun e => xname e = elem_key f) es else es = [].

Lemma kids_roundtrip : forall fs vs bases ess,
  nodup_strb (elem_keys fs) = true ->
  Forall3 (fun f (vb : value * value) es =>
             own_names f es /\ (is_elem f = true -> absorb_kids f (snd vb) es = Ok (fst vb)))
          fs (combine vs bases) ess ->
  List.length vs = List.length bases ->
  Forall3 (fun f b r => absorb_kids f b (List.concat ess) = Ok r) fs bases
          (map (fun fvb => if is_elem (fst (fst fvb)) then snd (fst fvb) else snd fvb)
               (combine (combine fs vs) bases)).
Proof.
  induction fs as [|f fs IH]; intros vs bases ess Hnd H Hlen.
  - inversion H; subst. destruct vs, bases; cbn in *; try discriminate; constructor.
  - destruct vs as [|v vs]; [inversion H|]. destruct bases as [|b bases]; [inversion H|].
    cbn [combine] in H. inversion H as [|f' vb es fs' vbs ess' Hh Ht]; subst. cbn [fst snd] in Hh.
    cbn [List.length] in Hlen. injection Hlen as Hlen.
    assert (Hnd' : nodup_strb (elem_keys fs) = true).
    { unfold elem_keys in *. cbn [filter] in Hnd. destruct (is_elem f); [|exact Hnd].
      cbn [map nodup_strb] in Hnd. apply andb_true_iff in Hnd. tauto. }
    specialize (IH _ _ _ Hnd' Ht Hlen).
    destruct Hh as [Hown Habs]. cbn [List.concat combine map fst snd].
    assert (Htail_names : forall c, In c (List.concat ess') -> In (xname c) (elem_keys fs)).
    { clear - Ht. intros c Hin. induction Ht as [|g vb es gs vbs ess Hg Hgs IHg]; [destruct Hin|].
      cbn [List.concat] in Hin. apply in_app_or in Hin. destruct Hg as [Hgo _]. unfold own_names in Hgo.
      unfold elem_keys. cbn [filter]. destruct (is_elem g) eqn:Hge.
      - cbn [map]. destruct Hin as [Hin|Hin].
        + left. rewrite Forall_forall in Hgo. symmetry. exact (Hgo _ Hin).
        + right. exact (IHg Hin).
      - subst es. destruct Hin as [[]|Hin]. exact (IHg Hin). }
    constructor.
    + destruct (is_elem f) eqn:He.
      * rewrite absorb_kids_app, (Habs eq_refl). cbn [rbind]. apply absorb_kids_skip.
        intros c Hin. unfold key_hit. rewrite He. cbn [andb].
        pose proof (Htail_names c Hin) as Hn.
        unfold elem_keys in Hnd. cbn [filter] in Hnd. rewrite He in Hnd. cbn [map nodup_strb] in Hnd.
        apply andb_true_iff in Hnd. destruct Hnd as [Hnd _]. apply negb_true_iff in Hnd.
        pose proof (existsb_eqb_false _ _ Hnd) as Hni.
        destruct (String.eqb (elem_key f) (xname c)) eqn:Heq; [|reflexivity].
        apply String.eqb_eq in Heq. rewrite Heq in Hni. contradiction.
      * apply absorb_kids_skip. intros c _. unfold key_hit. rewrite He. reflexivity.
    + assert (Hskip : forall g, In g fs -> forall c, In c es -> key_hit g (xname c) = false).
      { intros g Hg c Hc. unfold key_hit. destruct (is_elem g) eqn:Hge; [cbn [andb] | reflexivity].
        unfold own_names in Hown. destruct (is_elem f) eqn:He; [|subst es; destruct Hc].
        rewrite Forall_forall in Hown. rewrite (Hown _ Hc).
        unfold elem_keys in Hnd. cbn [filter] in Hnd. rewrite He in Hnd. cbn [map nodup_strb] in Hnd.
        apply andb_true_iff in Hnd. destruct Hnd as [Hnd _]. apply negb_true_iff in Hnd.
        pose proof (existsb_eqb_false _ _ Hnd) as Hni.
        destruct (String.eqb (elem_key g) (elem_key f)) eqn:Heq; [|reflexivity].
        apply String.eqb_eq in Heq. exfalso. apply Hni. rewrite <- Heq. apply in_map. apply filter_In. split; assumption. }
      clear - IH Hskip. revert IH.
      generalize (map (fun fvb : field * value * value =>
                         if is_elem (fst (fst fvb)) then snd (fst fvb) else snd fvb)
                      (combine (combine fs vs) bases)) as res.
      intros res IH. revert Hskip.
      induction IH as [|g b0 r gs bs rs Hg Hgs IHg]; intros Hskip; constructor.
      * rewrite absorb_kids_app, absorb_kids_skip; [cbn [rbind]; exact Hg|].
        intros c Hc. exact (Hskip g (or_introl eq_refl) c Hc).
      * apply IHg. intros g' Hin. apply Hskip. right. exact Hin.
Qed.

(* ---------- any interleaving of the children ---------- *)

(* a field only sees the children that hit it *)
Lemma absorb_kids_filter : forall f kids x,
  absorb_kids f x kids = absorb_kids f x (filter (fun c => key_hit f (xname c)) kids).
Proof.
  intros f kids. induction kids as [|c r IH]; intros x; [reflexivity|].
  cbn [absorb_kids filter]. destruct (key_hit f (xname c)) eqn:E.
  - cbn [absorb_kids]. rewrite E. destruct (hit_action f x c); cbn [rbind]; [apply IH | reflexivity].
  - apply IH.
Qed.

(* kids' is a rearrangement of kids that keeps, for every field, the sequence of its own
   children: children of different fields may be interleaved in any way, children that no
   field takes (unknown elements) may be added, dropped or moved freely *)
Definition same_per_field (fs : list field) (kids kids' : list xml) : Prop :=
  forall f, In f fs ->
    filter (fun c => key_hit f (xname c)) kids' = filter (fun c => key_hit f (xname c)) kids.

Lemma absorb_same_per_field : forall kids kids' gs st st',
  (forall f, In f gs -> filter (fun c => key_hit f (xname c)) kids' = filter (fun c => key_hit f (xname c)) kids) ->
  Forall3 (fun f x x' => absorb_kids f x kids = Ok x') gs st st' ->
  Forall3 (fun f x x' => absorb_kids f x kids' = Ok x') gs st st'.
Proof.
  intros kids kids' gs st st' Hs H. induction H as [|f x x' fs' st0 st0' Hh Ht IH]; constructor.
  - rewrite absorb_kids_filter, (Hs f (or_introl eq_refl)), <- absorb_kids_filter. exact Hh.
  - apply IH. intros g Hg. apply Hs. right. exact Hg.
Qed.

Theorem kids_any_interleaving : forall kids kids' fs st st',
  parents_ok fs = true ->
  nodup_strb (elem_keys fs) = true ->
  same_per_field fs kids kids' ->
  Forall3 (fun f x x' => absorb_kids f x kids = Ok x') fs st st' ->
  unmarshal_kids sch unm fs st [] false kids' = Ok st'.
Proof.
  intros kids kids' fs st st' Hpo Hnd Hs H. apply unmarshal_kids_pointwise; [exact Hpo | exact Hnd|].
  exact (absorb_same_per_field kids kids' fs st st' Hs H).
Qed.

End Kids.
