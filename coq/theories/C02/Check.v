(* C02/Check.v — correspondence + property oracle for one C02 harness case (executable only).

   tag 1 (full scan):  procs resume items* filter perturb ids* err retained-ids* procs1-ids* procs1-err
     (retained: the identity of every object re-taken after the scan ended; procs1: the unperturbed
      single-decoder scan of the same file)
   tag 2 (scan cut by a cancel issued from a decoder goroutine): procs resume items* at ids* err
   tag 3 (rich file: every object is a token hashing all its content): procs resume blocks (each a list of tokens) perturb observed-tokens err
   codes: 1 = the model's run (fair round-robin schedule; the delivered sequence is schedule
          independent by theorem C02_delivered_is_prefix + completion) <> observed,
          2 = property oracle fails on the observation, 0 = case does not parse. *)
From Coq Require Import ZArith List Bool Arith.
From Verif Require Import Base.Wire Pipeline.Model Pipeline.Exec Pipeline.Source C07.Check.
Import ListNotations.
Open Scope Z_scope.
Open Scope wire_scope.

Definition rep_err (e : err) : err := if e =? eEOF then 0 else e.

Definition check_full : P (list Z) :=
  n <- pnat ;; resume <- pbool ;; its <- plist (ppair pint pint) ;;
  filter <- pint ;; perturb <- pint ;; ids <- plist pint ;; e <- pint ;;
  retained <- plist pint ;; base <- plist pint ;; base_e <- pint ;;
  let inp := mk_input filter 0 its in
  let c := cfg_of_source n inp resume 0 in
  let fuel := (4 * length its + 4 * n + 60)%nat in
  let '(s, fin) := scan_all c fuel (S (length ids + 2)) (init c) in
  let j1 := fin && list_eqb Z.eqb (delivered s) ids && (err_value s =? e) in
  (* oracle: the file's elements in order; the same as the single-decoder scan of the same file;
     every retained object is still what it was when it was delivered *)
  let j2 := wf_cfg c && list_eqb Z.eqb ids (expected inp) && (e =? rep_err (final_err inp))
            && list_eqb Z.eqb ids base && (e =? base_e) && list_eqb Z.eqb retained ids in
  ret (code_if j1 1 ++ code_if j2 2)%list.

Definition check_cut : P (list Z) :=
  n <- pnat ;; resume <- pbool ;; its <- plist (ppair pint pint) ;;
  at_ <- pint ;; ids <- plist pint ;; e <- pint ;;
  let inp := mk_input 0 0 its in
  let c := cfg_of_source n inp resume 0 in
  let complete := list_eqb Z.eqb ids (expected inp) in
  let j2 :=
    wf_cfg c && prefixb ids (expected inp) &&
    ((e =? eCtx) || (complete && (e =? rep_err (final_err inp)))) in
  ret (code_if j2 2)%list.

(* tag 5: size-threshold files ("wide" ids: object j of block b is b*100000 + j + 1, dense nodes only) *)
Fixpoint mk_input_wide (b : nat) (its : list (Z * Z)) : input :=
  match its with
  | [] => []
  | (k, x) :: r =>
      (if k =? 0 then IBlock (map (fun j => Z.of_nat b * 100000 + Z.of_nat j + 1) (seq 0 (Z.to_nat x)))
       else if k =? 1 then IBad x else IRdErr x) :: mk_input_wide (S b) r
  end.

Definition check_wide : P (list Z) :=
  n <- pnat ;; resume <- pbool ;; its <- plist (ppair pint pint) ;; ids <- plist pint ;; e <- pint ;;
  let inp := mk_input_wide 0 its in
  let c := cfg_of_source n inp resume 0 in
  let fuel := (4 * length its + 4 * n + 60)%nat in
  let '(s, fin) := scan_all c fuel (S (length ids + 2)) (init c) in
  let j1 := fin && list_eqb Z.eqb (delivered s) ids && (err_value s =? e) in
  let j2 := wf_cfg c && list_eqb Z.eqb ids (expected inp) && (e =? rep_err (final_err inp)) in
  ret (code_if j1 1 ++ code_if j2 2)%list.

(* tag 3: "rich" files: blocks are given as lists of content tokens *)
Definition check_rich : P (list Z) :=
  n <- pnat ;; resume <- pbool ;; blocks <- plist (plist ptok) ;;
  perturb <- pint ;; obs <- plist ptok ;; e <- pint ;;
  retained <- plist ptok ;; base <- plist ptok ;; base_e <- pint ;;
  let inp := map IBlock blocks in
  let c := cfg_of_source n inp resume 0 in
  let fuel := (4 * length blocks + 4 * n + 60)%nat in
  let '(s, fin) := scan_all c fuel (S (length obs + 2)) (init c) in
  let j1 := fin && list_eqb Z.eqb (delivered s) obs && (err_value s =? e) in
  let j2 := wf_cfg c && list_eqb Z.eqb obs (expected inp) && (e =? 0)
            && list_eqb Z.eqb obs base && (e =? base_e) && list_eqb Z.eqb retained obs in
  ret (code_if j1 1 ++ code_if j2 2)%list.

Definition check_case (t : toks) : list Z :=
  match t with
  | tag :: rest =>
      let p := if tag =? 2 then check_full else if tag =? 4 then check_cut
               else if tag =? 6 then check_rich else if tag =? 10 then check_wide else pfail in
      match parse_all p rest with Some codes => codes | None => [0] end
  | [] => [0]
  end.
