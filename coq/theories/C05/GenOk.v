(* C05/GenOk.v — obligations tying the hand-written part of the model (C05/Osm.v, Spec.v) to
   the data regenerated from /repo by translator/cmd/jsontags.  Every statement is closed by
   computation; when the source changes so that one of them no longer holds, the model has to
   be revisited (the check reports a broken obligation and searches for a failing input). *)
From Coq Require Import ZArith List String Ascii Bool.
From Verif Require Import C05.Json C05.Schema C05.Model C05.Osm C05.Spec.
From VerifGen Require Import GenJsonTags.
Import ListNotations.
Open Scope string_scope.

Fixpoint ty_eqb (a b : ty) {struct a} : bool :=
  match a, b with
  | TInt l h, TInt l' h' => Z.eqb l l' && Z.eqb h h'
  | TFloat, TFloat | TBool, TBool | TStr, TStr | TTime, TTime | TDate, TDate
  | TSkip, TSkip | TNilOnly, TNilOnly | TAny, TAny | TRawList, TRawList
  | TObjects, TObjects | TOSMRef, TOSMRef | TTags, TTags => true
  | TShim n, TShim n' => String.eqb n n'
  | TWayNodes fs, TWayNodes fs' | TStruct fs, TStruct fs' =>
      (fix go (x y : list field) {struct x} : bool :=
         match x, y with
         | [], [] => true
         | Field g n o t :: r, Field g' n' o' t' :: r' =>
             String.eqb g g' && String.eqb n n' && Bool.eqb o o' && ty_eqb t t' && go r r'
         | _, _ => false
         end) fs fs'
  | TMembers t, TMembers t' | TPtr t, TPtr t' | TSlice t, TSlice t' => ty_eqb t t'
  | _, _ => false
  end.

Definition str_list_eqb (a b : list string) : bool :=
  Nat.eqb (List.length a) (List.length b) && forallb (fun p => String.eqb (fst p) (snd p)) (combine a b).
Definition ty_list_eqb (a b : list ty) : bool :=
  Nat.eqb (List.length a) (List.length b) && forallb (fun p => ty_eqb (fst p) (snd p)) (combine a b).

(* the Go struct OSM is laid out as osm_to_val / osm_of_val assume *)
Lemma OSM_layout :
  str_list_eqb (map f_go f_OSM)
    ["Version"; "Generator"; "Copyright"; "Attribution"; "License"; "Bounds"; "Nodes"; "Ways";
     "Relations"; "Changesets"; "Notes"; "Users"]
  && ty_list_eqb (map f_ty f_OSM)
    [TStr; TStr; TStr; TStr; TStr; TPtr t_Bounds; TSlice t_Node; TSlice t_Way;
     TSlice t_Relation; TSlice t_Changeset; TSlice t_Note; TSlice t_User] = true.
Proof. vm_compute. reflexivity. Qed.

(* OSM.Objects() flattens in the order [objects] assumes *)
Lemma Objects_order :
  str_list_eqb objects_order
    ["Bounds"; "Nodes"; "Ways"; "Relations"; "Changesets"; "Users"; "Notes"] = true.
Proof. vm_compute. reflexivity. Qed.

(* the dispatch of OSM.UnmarshalJSON: exactly the seven cases of [add_element] (as a set) *)
Definition has_pair (p : string * string) (l : list (string * string)) : bool :=
  existsb (fun q => String.eqb (fst p) (fst q) && String.eqb (snd p) (snd q)) l.
Lemma Dispatch_table :
  Nat.eqb (List.length unmarshal_dispatch) 7
  && forallb (fun p => has_pair p unmarshal_dispatch)
       [("bounds", "Bounds"); ("node", "Nodes"); ("way", "Ways"); ("relation", "Relations");
        ("changeset", "Changesets"); ("note", "Notes"); ("user", "Users")] = true.
Proof. vm_compute. reflexivity. Qed.

(* the type names the shims marshal = the names dispatched on = the osmjson vocabulary *)
Definition shim_of (fs : list field) : option string :=
  match fs with Field _ "type" false (TShim n) :: _ => Some n | _ => None end.
Lemma Shim_names :
  (shim_of f_Node, shim_of f_Way, shim_of f_Relation, shim_of f_Changeset, shim_of f_Note,
   shim_of f_User, bounds_type_name)
  = (Some "node", Some "way", Some "relation", Some "changeset", Some "note", Some "user", "bounds").
Proof. vm_compute. reflexivity. Qed.

Lemma Types_are_osmjson :
  forallb (fun p => mem_str (fst p) osmjson_types) unmarshal_dispatch = true.
Proof. vm_compute. reflexivity. Qed.

(* the helper structs inside OSM.MarshalJSON / OSM.UnmarshalJSON / findType *)
Lemma Marshal_shim :
  str_list_eqb (map f_name f_OSM_MarshalJSON)
    ["version"; "generator"; "copyright"; "attribution"; "license"; "elements"]
  && ty_list_eqb (map f_ty f_OSM_MarshalJSON) [TStr; TStr; TStr; TStr; TStr; TObjects]
  && forallb (fun p => Bool.eqb (f_omit (fst p)) (snd p))
       (combine f_OSM_MarshalJSON [true; true; true; true; true; false]) = true.
Proof. vm_compute. reflexivity. Qed.

Lemma Unmarshal_shim :
  str_list_eqb (map f_name f_OSM_UnmarshalJSON) (map f_name f_OSM_MarshalJSON)
  && ty_list_eqb (map f_ty f_OSM_UnmarshalJSON) [TAny; TStr; TStr; TStr; TStr; TRawList] = true.
Proof. vm_compute. reflexivity. Qed.

Lemma TypeStruct_shape : ty_eqb t_typeStruct (TStruct [Field "Type" "type" false TStr]) = true.
Proof. vm_compute. reflexivity. Qed.

Lemma BoundsElement_shape :
  ty_eqb t_jsonBoundsElement (TStruct (Field "Type" "type" false TStr :: f_Bounds)) = true.
Proof. vm_compute. reflexivity. Qed.

Lemma Tag_WayNode_shape :
  ty_eqb t_Tag (TStruct [Field "Key" "Key" false TStr; Field "Value" "Value" false TStr])
  && match f_WayNode with
     | Field "ID" _ _ (TInt lo hi) :: _ => Z.eqb lo int64_min && Z.eqb hi int64_max
     | _ => false
     end = true.
Proof. vm_compute. reflexivity. Qed.

Lemma Change_shape :
  str_list_eqb (map f_name f_Change)
    ["version"; "generator"; "copyright"; "attribution"; "license"; "create"; "modify"; "delete"]
  && ty_list_eqb (map f_ty f_Change)
       [TStr; TStr; TStr; TStr; TStr; TPtr TOSMRef; TPtr TOSMRef; TPtr TOSMRef] = true.
Proof. vm_compute. reflexivity. Qed.

(* which codec entry point every hand-written JSON method calls (C05/Codec.v models exactly
   this: everything through the configured codec, except Tags.UnmarshalJSON which calls
   encoding/json directly) *)
Definition calls_of (fn : string) : list string :=
  match find (fun p => String.eqb (fst p) fn) codec_calls with Some p => snd p | None => [] end.
Lemma Codec_entry_points :
  forallb (fun fn => forallb (String.eqb "marshalJSON") (calls_of fn) && negb (Nat.eqb (List.length (calls_of fn)) 0))
          ["OSM.MarshalJSON"; "Tags.MarshalJSON"; "WayNodes.MarshalJSON"; "Members.MarshalJSON"; "Date.MarshalJSON"]
  && forallb (fun fn => forallb (String.eqb "unmarshalJSON") (calls_of fn) && negb (Nat.eqb (List.length (calls_of fn)) 0))
          ["OSM.UnmarshalJSON"; "findType"; "WayNodes.UnmarshalJSON"]
  && str_list_eqb (calls_of "Tags.UnmarshalJSON") ["json.Unmarshal"] = true.
Proof. vm_compute. reflexivity. Qed.

(* the byte literals Members.MarshalJSON / Date.MarshalJSON return as is are the ones the model
   encodes (JArr [] for an empty member list, JNull for the zero date) *)
Lemma Marshal_literals :
  str_list_eqb members_literals ["[]"] && str_list_eqb date_literals ["null"] = true.
Proof. vm_compute. reflexivity. Qed.
