(* C05/Fmt.v — fmt.Sprintf("%v", f) for a float64 f given as its shortest decimal
   m * 10^(-k) (normal form): strconv 'g' format, shortest digits, exponent form when
   exp < -4 or exp >= 6 (the "precision 6" rule of %g with shortest precision).
   Tie: correspondence only (version numbers of generated documents). *)
From Coq Require Import ZArith List String Ascii Bool DecimalString Decimal.
Import ListNotations.
Open Scope string_scope.
Open Scope Z_scope.

Definition digits_of (a : Z) : string :=
  match a with Zpos p => NilEmpty.string_of_uint (Pos.to_uint p) | _ => "" end.

Fixpoint srev_acc (s acc : string) : string :=
  match s with EmptyString => acc | String c r => srev_acc r (String c acc) end.
Definition srev (s : string) : string := srev_acc s "".
Fixpoint drop_zeros (s : string) : string :=
  match s with String "0" r => drop_zeros r | _ => s end.
Definition strip_tz (s : string) : string := srev (drop_zeros (srev s)).
Fixpoint zeros (n : nat) : string := match n with O => "" | S n' => String "0" (zeros n') end.
Definition slen (s : string) : Z := Z.of_nat (String.length s).
Definition stake (n : Z) (s : string) : string := String.substring 0 (Z.to_nat n) s.
Definition sdrop (n : Z) (s : string) : string :=
  String.substring (Z.to_nat n) (String.length s - Z.to_nat n) s.

Definition fmt_g (m k : Z) : string :=
  if m =? 0 then "0" else
  let sign := if m <? 0 then "-" else "" in
  let ds := digits_of (Z.abs m) in
  let D := strip_tz ds in
  let nd := slen D in
  let dp := slen ds - k in
  let e := dp - 1 in
  sign ++
  (if (e <? -4) || (6 <=? e) then
     stake 1 D ++ (if 1 <? nd then "." ++ sdrop 1 D else "")
     ++ "e" ++ (if e <? 0 then "-" else "+")
     ++ (let ed := digits_of (Z.abs e) in if slen ed <? 2 then "0" ++ ed else ed)
   else if dp <=? 0 then "0." ++ zeros (Z.to_nat (- dp)) ++ D
   else if nd <=? dp then D ++ zeros (Z.to_nat (dp - nd))
   else stake dp D ++ "." ++ sdrop dp D).

Example fmt_g_ex :
  (fmt_g 6 1, fmt_g 6 0, fmt_g 1000000 0, fmt_g 123456789 0, fmt_g 1 4, fmt_g 1 5, fmt_g 12 6,
   fmt_g 123456785 1, fmt_g 100000 0, fmt_g (-25) 1, fmt_g 12375 3)
  = ("0.6", "6", "1e+06", "1.23456789e+08", "0.0001", "1e-05", "1.2e-05",
     "1.23456785e+07", "100000", "-2.5", "12.375").
Proof. vm_compute. reflexivity. Qed.
