(* C05/Schema.v — the type descriptors (regenerated from /repo's struct definitions and json
   tags by translator/cmd/jsontags) and the first-order value universe of the C05 model. *)
From Coq Require Import ZArith List String Ascii Bool.
From Verif Require Import C05.Json.
Import ListNotations.
Open Scope Z_scope.

Inductive ty : Type :=
| TInt (lo hi : Z)        (* Go integer kinds; lo <= v <= hi *)
| TFloat                  (* float64 *)
| TBool
| TStr                    (* string kinds *)
| TTime                   (* time.Time (struct: never "empty" for omitempty) *)
| TDate                   (* osm.Date: null when zero (note.go) *)
| TShim (name : string)   (* xmlNameJSONType*: constant on output, ignored on input (json.go) *)
| TSkip                   (* json:"-" *)
| TNilOnly                (* a pointer this model keeps nil (Changeset.Change) *)
| TAny                    (* interface{} *)
| TRawList                (* []nocopyRawMessage *)
| TObjects                (* osm.Objects: already-encoded elements *)
| TOSMRef                 (* *OSM inside Change: handled by change_marshal/unmarshal *)
| TTags                   (* osm.Tags: object on the wire (tag.go) *)
| TWayNodes (fs : list field) (* osm.WayNodes: id array on the wire (way.go); fs = WayNode's fields, ID first *)
| TMembers (t : ty)       (* osm.Members: [] when empty (relation.go) *)
| TPtr (t : ty)
| TSlice (t : ty)         (* plain slice: null when nil *)
| TStruct (fs : list field)
with field : Type :=
| Field (goname jname : string) (omitempty : bool) (t : ty).

Definition f_go (f : field) := let 'Field g _ _ _ := f in g.
Definition f_name (f : field) := let 'Field _ n _ _ := f in n.
Definition f_omit (f : field) := let 'Field _ _ o _ := f in o.
Definition f_ty (f : field) := let 'Field _ _ _ t := f in t.

Inductive val : Type :=
| VInt (z : Z)
| VFloat (m k : Z)        (* exact decimal, normal form *)
| VBool (b : bool)
| VStr (s : string)
| VTime (s : string)      (* canonical RFC 3339 UTC text of the instant *)
| VUnit                   (* shim / skipped field *)
| VJson (j : json)        (* raw message / interface{} value *)
| VNone
| VSome (v : val)
| VList (l : list val)
| VStruct (l : list val).

Definition zero_time : string := "0001-01-01T00:00:00Z".

Fixpoint val_eqb (a b : val) {struct a} : bool :=
  match a, b with
  | VInt x, VInt y => x =? y
  | VFloat m k, VFloat m' k' => (m =? m') && (k =? k')
  | VBool x, VBool y => Bool.eqb x y
  | VStr x, VStr y => String.eqb x y
  | VTime x, VTime y => String.eqb x y
  | VUnit, VUnit => true
  | VJson x, VJson y => json_eqb x y
  | VNone, VNone => true
  | VSome x, VSome y => val_eqb x y
  | VList l, VList l' | VStruct l, VStruct l' =>
      (fix go (l l' : list val) {struct l} : bool :=
         match l, l' with
         | [], [] => true
         | x :: r, y :: r' => val_eqb x y && go r r'
         | _, _ => false
         end) l l'
  | _, _ => false
  end.

(* the zero value of a Go type *)
Fixpoint zero (t : ty) : val :=
  match t with
  | TInt _ _ => VInt 0
  | TFloat => VFloat 0 0
  | TBool => VBool false
  | TStr => VStr ""
  | TTime | TDate => VTime zero_time
  | TShim _ | TSkip => VUnit
  | TNilOnly | TOSMRef | TPtr _ => VNone
  | TAny => VJson JNull
  | TRawList | TObjects | TTags | TWayNodes _ | TMembers _ | TSlice _ => VList []
  | TStruct fs =>
      VStruct ((fix go (fs : list field) : list val :=
                  match fs with
                  | [] => []
                  | Field _ _ _ ft :: r => zero ft :: go r
                  end) fs)
  end.

(* encoding/json's isEmptyValue (omitempty): false, 0, nil pointer/interface, empty
   slice/map/string; structs are never empty *)
Definition is_empty (v : val) : bool :=
  match v with
  | VInt z => z =? 0
  | VFloat m _ => m =? 0
  | VBool b => negb b
  | VStr s => String.eqb s ""
  | VNone => true
  | VList [] => true
  | VJson JNull => true
  | _ => false
  end.
