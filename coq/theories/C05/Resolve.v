(* C05/Resolve.v — facts about key resolution (Json.resolve / entries_f): it coincides with the
   independently written case-insensitive matching of Spec.v when the field names have distinct
   case folds; the entries of a field do not depend on key order or on unknown keys. *)
From Coq Require Import ZArith List String Ascii Bool Permutation Lia.
From Verif Require Import C05.Json C05.Schema C05.Model C05.Spec C05.Fields.
Import ListNotations.

Lemma lower_spec_eq : forall c, lower_spec c = lower c.
Proof. intros c. destruct c as [[] [] [] [] [] [] [] []]; reflexivity. Qed.

Lemma eq_nocase_fold : forall a b, eq_nocase a b = String.eqb (fold_case a) (fold_case b).
Proof.
  induction a as [|x a IH]; intros [|y b]; try reflexivity.
  cbn [eq_nocase fold_case String.eqb]. rewrite !lower_spec_eq, IH. reflexivity.
Qed.

Lemma inj_on_nodup : forall {A B} (f : A -> B) l a b,
  NoDup (map f l) -> In a l -> In b l -> f a = f b -> a = b.
Proof.
  intros A B f l. induction l as [|x r IH]; intros a b Hnd Ha Hb E; [contradiction|].
  simpl in Hnd. inversion Hnd as [|? ? Hni Hnd']; subst.
  destruct Ha as [->|Ha], Hb as [->|Hb]; try reflexivity.
  - exfalso. apply Hni. rewrite E. apply in_map. exact Hb.
  - exfalso. apply Hni. rewrite <- E. apply in_map. exact Ha.
  - apply IH; assumption.
Qed.

Lemma find_fold_unique : forall ns n x, NoDup (map fold_case ns) -> In n ns ->
  match find (fun m => String.eqb (fold_case m) x) ns with Some m => String.eqb m n | None => false end
  = String.eqb (fold_case n) x.
Proof.
  induction ns as [|a r IH]; intros n x Hnd Hin; [contradiction|].
  simpl in Hnd. inversion Hnd as [|? ? Hni Hnd']; subst. cbn [find].
  destruct (String.eqb (fold_case a) x) eqn:Ea.
  - apply String.eqb_eq in Ea. subst x. destruct Hin as [->|Hin].
    + rewrite !String.eqb_refl. reflexivity.
    + destruct (String.eqb a n) eqn:E1; destruct (String.eqb (fold_case n) (fold_case a)) eqn:E2; try reflexivity.
      * apply String.eqb_eq in E1. subst. rewrite String.eqb_refl in E2. discriminate.
      * apply String.eqb_eq in E2. exfalso. apply Hni. rewrite <- E2. apply in_map. exact Hin.
  - destruct Hin as [->|Hin]; [rewrite Ea|apply IH; assumption].
    destruct (find (fun m => String.eqb (fold_case m) x) r) as [m|] eqn:Ef; [|reflexivity].
    apply find_some in Ef. destruct Ef as [Hm Em]. apply String.eqb_eq in Em.
    destruct (String.eqb m n) eqn:E; [|reflexivity]. apply String.eqb_eq in E. subst m.
    rewrite Em, String.eqb_refl in Ea. discriminate.
Qed.

(* resolving to the field n = equal to n up to case, when the names have distinct folds *)
Lemma resolve_iff : forall ns n k, NoDup (map fold_case ns) -> In n ns ->
  match resolve ns k with Some m => String.eqb m n | None => false end
  = String.eqb (fold_case n) (fold_case k).
Proof.
  intros ns n k Hnd Hin. unfold resolve. destruct (existsb (String.eqb k) ns) eqn:Ex.
  - apply existsb_exists in Ex. destruct Ex as [k' [Hk' E]]. apply String.eqb_eq in E. subst k'.
    destruct (String.eqb k n) eqn:E1.
    + apply String.eqb_eq in E1. subst. rewrite String.eqb_refl. reflexivity.
    + destruct (String.eqb (fold_case n) (fold_case k)) eqn:E2; [|reflexivity].
      apply String.eqb_eq in E2. rewrite (inj_on_nodup fold_case ns n k Hnd Hin Hk' E2), String.eqb_refl in E1.
      discriminate.
  - apply find_fold_unique; assumption.
Qed.

Lemma entries_f_spec : forall ns n kv, NoDup (map fold_case ns) -> In n ns ->
  entries_f ns n kv = field_values n kv.
Proof.
  intros ns n kv Hnd Hin. unfold field_values. induction kv as [|[k j] r IH]; [reflexivity|].
  cbn [entries_f filter fst]. rewrite eq_nocase_fold.
  pose proof (resolve_iff ns n k Hnd Hin) as R.
  rewrite (String.eqb_sym (fold_case k) (fold_case n)), <- R.
  destruct (resolve ns k) as [m|]; [destruct (String.eqb m n)|]; cbn [map snd]; rewrite IH; reflexivity.
Qed.

(* ---- order of keys and unknown keys do not matter ---- *)
Lemma entries_f_app : forall ns n a b, entries_f ns n (a ++ b) = (entries_f ns n a ++ entries_f ns n b)%list.
Proof.
  intros ns n a b. induction a as [|[k j] r IH]; [reflexivity|].
  cbn [entries_f app]. destruct (resolve ns k) as [m|]; [destruct (String.eqb m n)|]; rewrite IH; reflexivity.
Qed.

Lemma entries_f_unknown : forall ns n kv, (forall k, In k (keys kv) -> resolve ns k = None) -> entries_f ns n kv = [].
Proof.
  intros ns n kv. induction kv as [|[k j] r IH]; intros H; [reflexivity|].
  cbn [entries_f]. rewrite (H k) by (left; reflexivity). apply IH. intros k' Hk'. apply H. right. exact Hk'.
Qed.

Lemma entries_f_perm : forall ns n a b, Permutation a b -> Permutation (entries_f ns n a) (entries_f ns n b).
Proof.
  intros ns n a b HP. induction HP as [|[k j] a b HP IH|[k1 j1] [k2 j2] a|a b c HP1 IH1 HP2 IH2].
  - constructor.
  - cbn [entries_f]. destruct (resolve ns k) as [m|]; [destruct (String.eqb m n)|]; try exact IH. constructor. exact IH.
  - cbn [entries_f].
    destruct (resolve ns k1) as [m1|]; [destruct (String.eqb m1 n)|];
    (destruct (resolve ns k2) as [m2|]; [destruct (String.eqb m2 n)|]); try apply Permutation_refl.
    apply perm_swap.
  - eapply Permutation_trans; eassumption.
Qed.

Lemma perm_short : forall {A} (l l' : list A), Permutation l l' -> (List.length l' <= 1)%nat -> l = l'.
Proof.
  intros A l l' HP Hl. destruct l' as [|x [|y r]].
  - apply Permutation_sym, Permutation_nil in HP. exact HP.
  - apply Permutation_sym, Permutation_length_1_inv in HP. exact HP.
  - simpl in Hl. lia.
Qed.

(* a document object [kv'] that is [kv] with its entries in any order plus unknown keys *)
Definition respelled (ns : list string) (kv' kv : list (string * json)) : Prop :=
  exists extra, Permutation kv' (kv ++ extra) /\ forall k, In k (keys extra) -> resolve ns k = None.

Lemma entries_respelled : forall ns n kv' kv, respelled ns kv' kv ->
  (List.length (entries_f ns n kv) <= 1)%nat -> entries_f ns n kv' = entries_f ns n kv.
Proof.
  intros ns n kv' kv [extra [HP Hx]] Hl. apply perm_short; [|exact Hl].
  eapply Permutation_trans; [apply entries_f_perm; exact HP|].
  rewrite entries_f_app, (entries_f_unknown ns n extra Hx), app_nil_r. apply Permutation_refl.
Qed.

(* objects every key of which is a field name itself or unknown, keys distinct: at most one
   entry per field *)
Definition self_resolving (ns : list string) (kv : list (string * json)) : Prop :=
  forall k, In k (keys kv) -> resolve ns k = Some k \/ resolve ns k = None.

Lemma entries_f_notin : forall ns n kv, self_resolving ns kv -> ~ In n (keys kv) -> entries_f ns n kv = [].
Proof.
  intros ns n kv. induction kv as [|[k j] r IH]; intros Hs Hni; [reflexivity|].
  assert (Hr : self_resolving ns r) by (intros k' Hk'; apply Hs; right; exact Hk').
  simpl in Hni. cbn [entries_f].
  destruct (Hs k (or_introl eq_refl)) as [E|E]; rewrite E; [|apply IH; tauto].
  destruct (String.eqb k n) eqn:Ek; [apply String.eqb_eq in Ek; tauto|apply IH; tauto].
Qed.

Lemma entries_self : forall ns n kv, self_resolving ns kv -> NoDup (keys kv) ->
  (List.length (entries_f ns n kv) <= 1)%nat.
Proof.
  intros ns n kv. induction kv as [|[k j] r IH]; intros Hs Hnd; [simpl; lia|].
  inversion Hnd as [|? ? Hni Hnd']; subst.
  assert (Hr : self_resolving ns r) by (intros k' Hk'; apply Hs; right; exact Hk').
  cbn [entries_f]. destruct (Hs k (or_introl eq_refl)) as [E|E]; rewrite E; [|apply IH; assumption].
  destruct (String.eqb k n) eqn:Ek; [|apply IH; assumption].
  apply String.eqb_eq in Ek. subst k. rewrite (entries_f_notin ns n r Hr Hni). simpl. lia.
Qed.

Lemma self_resolving_exact : forall ns kv, (forall k, In k (keys kv) -> In k ns) -> self_resolving ns kv.
Proof. intros ns kv H k Hk. left. apply resolve_exact. apply H. exact Hk. Qed.

(* decoding a struct only looks at the entries of its fields *)
Lemma dec_fields_ext : forall ns kv' kv fs,
  (forall n, entries_f ns n kv' = entries_f ns n kv) -> dec_fields ns kv' fs = dec_fields ns kv fs.
Proof.
  intros ns kv' kv fs H. induction fs as [|[g n om ft] fr IH]; [reflexivity|].
  cbn [dec_fields]. rewrite IH. unfold dec_field. rewrite H. reflexivity.
Qed.

Theorem dec_respelled : forall fs kv' kv,
  respelled (names fs) kv' kv -> self_resolving (names fs) kv -> NoDup (keys kv) ->
  dec (TStruct fs) (JObj kv') = dec (TStruct fs) (JObj kv).
Proof.
  intros fs kv' kv Hr Hs Hnd. rewrite !dec_struct. f_equal. apply dec_fields_ext.
  intros n. apply entries_respelled; [exact Hr|apply entries_self; assumption].
Qed.
