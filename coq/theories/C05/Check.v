(* C05/Check.v — one harness case -> failed judgement codes (executable only).

   Case layouts (first item = tag, parsed with pint):
   1 OSM     : cfg  v(osm value)  merr tree  uerr  opt(decoded osm value)
   2 ELEMENT : kind v             merr tree  uerr  opt(decoded value)
   3 DOC     : cfg  doc(tree)  opt(expected osm value)  uerr  opt(decoded osm value)
   4 CHANGE  : cfg  v(change value) merr tree uerr opt(decoded change value)
   5 GO-ONLY : (nothing) — a case outside the modelled fragment (Changeset.Change non-nil),
               judged by the harness: marshal (unmarshal (marshal v)) = marshal v
   codes: 1 = model <> implementation (marshal tree, or unmarshal result class/value),
          2 = property oracle fails on what the implementation returned
              (osmjson shape of its output; own output decodable; decoded value equivalent to
               the input / to what the independent writer wrote; absent version stays empty),
          3 = the input is outside the modelled fragment / the theorems' domain
              (generator error: wf fails or the model answers Unmodelled),
          0 = case does not parse.
   Trees: 0 null | 1 bool b | 2 num m k | 3 str s | 4 arr n x* | 5 obj n (key x)*   (raw tags)
   Values: 0 int z | 1 float m k | 2 bool | 3 str | 4 time | 5 unit | 6 none | 7 some v
           | 8 list n v* | 9 struct n v*                                            (raw tags) *)
From Coq Require Import ZArith List String Ascii Bool.
From Verif Require Import Base.Wire C05.Json C05.Schema C05.Model C05.Fmt C05.Osm C05.Spec.
From VerifGen Require Import GenJsonTags.
Import ListNotations.
Open Scope Z_scope.
Open Scope wire_scope.

Fixpoint pjson (fuel : nat) : P json :=
  match fuel with
  | O => pfail
  | S f =>
      tag <- ptok ;;
      if tag =? 0 then ret JNull
      else if tag =? 1 then (b <- pbool ;; ret (JBool b))
      else if tag =? 2 then (m <- pint ;; k <- pint ;; ret (JNum m k))
      else if tag =? 3 then (s <- pstring ;; ret (JStr s))
      else if tag =? 4 then (l <- plist (pjson f) ;; ret (JArr l))
      else if tag =? 5 then (l <- plist (ppair pstring (pjson f)) ;; ret (JObj l))
      else pfail
  end.

Fixpoint pval (fuel : nat) : P val :=
  match fuel with
  | O => pfail
  | S f =>
      tag <- ptok ;;
      if tag =? 0 then (z <- pint ;; ret (VInt z))
      else if tag =? 1 then (m <- pint ;; k <- pint ;; ret (VFloat m k))
      else if tag =? 2 then (b <- pbool ;; ret (VBool b))
      else if tag =? 3 then (s <- pstring ;; ret (VStr s))
      else if tag =? 4 then (s <- pstring ;; ret (VTime s))
      else if tag =? 5 then ret VUnit
      else if tag =? 6 then ret VNone
      else if tag =? 7 then (v <- pval f ;; ret (VSome v))
      else if tag =? 8 then (l <- plist (pval f) ;; ret (VList l))
      else if tag =? 9 then (l <- plist (pval f) ;; ret (VStruct l))
      else pfail
  end.

Definition depth : nat := 40.
Definition pj := pjson depth.
Definition pv := pval depth.

(* compare the model's result with the observed (error flag, optional decoded value) *)
Definition cmp_res {A} (r : res A) (uerr : bool) (obs : option A) (eqv : A -> A -> bool) : list Z :=
  match r with
  | Ok a => match obs with
            | Some b => code_if (negb uerr && eqv a b) 1
            | None => [1]
            end
  | Err => code_if uerr 1
  | Unmodelled => [3]
  end.

Definition std := @sort_kv string.

(* ---- 1 OSM ---- *)
Definition check_osm : P (list Z) :=
  _cfg <- pint ;; v <- pv ;; merr <- pbool ;; tree <- pj ;; uerr <- pbool ;; dv <- popt pv ;;
  match osm_of_val v with
  | None => ret [0]
  | Some o =>
      let od := match dv with Some d => osm_of_val d | None => None end in
      let dom := code_if (wf_osm o) 3 in
      let j1m := code_if (negb merr && json_equivb (osm_marshal std o) tree) 1 in
      let j1u := cmp_res (osm_unmarshal tree) uerr od osm_equivb in
      let j2 := code_if (negb merr && osmjson_shape tree && negb uerr
                         && match od with Some d => osm_equivb d o | None => false end) 2 in
      ret (dom ++ j1m ++ j1u ++ j2)%list
  end.

(* ---- 2 ELEMENT ---- *)
Definition elem_ty (k : Z) : option ty :=
  nth_error [t_Node; t_Way; t_Relation; t_Changeset; t_Note; t_User; t_Bounds] (Z.to_nat k).

Definition check_elem : P (list Z) :=
  k <- pint ;; v <- pv ;; merr <- pbool ;; tree <- pj ;; uerr <- pbool ;; dv <- popt pv ;;
  match elem_ty k with
  | None => ret [0]
  | Some t =>
      let dom := code_if (wf t v) 3 in
      let j1m := code_if (negb merr && json_equivb (enc std t v) tree) 1 in
      let j1u := cmp_res (dec t tree) uerr dv (equivb t) in
      let j2 := code_if (negb merr && (if k =? 6 then true else element_shape tree) && negb uerr
                         && match dv with Some d => equivb t d v | None => false end) 2 in
      ret (dom ++ j1m ++ j1u ++ j2)%list
  end.

(* ---- 3 DOC ---- *)
Definition check_doc : P (list Z) :=
  _cfg <- pint ;; doc <- pj ;; ev <- popt pv ;; uerr <- pbool ;; dv <- popt pv ;;
  let od := match dv with Some d => osm_of_val d | None => None end in
  let j1 := cmp_res (osm_unmarshal doc) uerr od osm_equivb in
  let j2 :=
    match ev with
    | None => []
    | Some e =>
        match osm_of_val e with
        | Some oe => code_if (negb uerr && match od with Some d => osm_equivb d oe | None => false end) 2
        | None => [0]
        end
    end in
  ret (j1 ++ j2)%list.

(* ---- 4 CHANGE ---- *)
Definition change_of_val (v : val) : option changev :=
  match v with
  | VStruct [VStr a; VStr b; VStr c; VStr d; VStr e; x; y; z] =>
      let o (w : val) : option (option osmv) :=
        match w with
        | VNone => Some None
        | VSome u => match osm_of_val u with Some ou => Some (Some ou) | None => None end
        | _ => None
        end in
      match o x, o y, o z with
      | Some x', Some y', Some z' => Some (mkChange a b c d e x' y' z')
      | _, _, _ => None
      end
  | _ => None
  end.

Definition oo_equivb (a b : option osmv) : bool :=
  match a, b with
  | None, None => true
  | Some x, Some y => osm_equivb x y
  | _, _ => false
  end.
Definition change_equivb (a b : changev) : bool :=
  String.eqb (c_version a) (c_version b) && String.eqb (c_generator a) (c_generator b)
  && String.eqb (c_copyright a) (c_copyright b) && String.eqb (c_attribution a) (c_attribution b)
  && String.eqb (c_license a) (c_license b)
  && oo_equivb (c_create a) (c_create b) && oo_equivb (c_modify a) (c_modify b)
  && oo_equivb (c_delete a) (c_delete b).
Definition oo_wf (a : option osmv) : bool := match a with Some o => wf_osm o | None => true end.

Definition check_change : P (list Z) :=
  _cfg <- pint ;; v <- pv ;; merr <- pbool ;; tree <- pj ;; uerr <- pbool ;; dv <- popt pv ;;
  match change_of_val v with
  | None => ret [0]
  | Some c =>
      let cd := match dv with Some d => change_of_val d | None => None end in
      let dom := code_if (oo_wf (c_create c) && oo_wf (c_modify c) && oo_wf (c_delete c)) 3 in
      let j1m := code_if (negb merr && json_equivb (change_marshal std c) tree) 1 in
      let j1u := cmp_res (change_unmarshal tree) uerr cd change_equivb in
      let shape (k : string) :=
        match tree with
        | JObj kv => match lookup k kv with Some j => osmjson_shape j | None => true end
        | _ => false
        end in
      let j2 := code_if (negb merr && shape "create" && shape "modify" && shape "delete"
                         && negb uerr
                         && match cd with Some d => change_equivb d c | None => false end) 2 in
      ret (dom ++ j1m ++ j1u ++ j2)%list
  end.

Definition check_case (t : toks) : list Z :=
  match parse_all (tag <- pint ;;
                   if tag =? 1 then check_osm
                   else if tag =? 2 then check_elem
                   else if tag =? 3 then check_doc
                   else if tag =? 4 then check_change
                   else if tag =? 5 then ret []   (* judged on the Go side only (OracleFail) *)
                   else pfail) t with
  | Some codes => codes
  | None => [0]
  end.

Definition explain_case (t : toks) : list Z := check_case t.
