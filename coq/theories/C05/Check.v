(* C05/Check.v — one harness case -> failed judgement codes (executable only).

   Case layouts (first item = tag, parsed with pint):
   1 OSM     : cfg  v(osm value)  merr tree  uerr  opt(decoded osm value)  marshalJSON-calls(-1 = not observed)
   2 ELEMENT : kind v             merr tree  uerr  opt(decoded value)
   3 DOC     : cfg  doc(tree)  opt(expected osm value)  uerr  opt(decoded osm value)
   4 CHANGE  : cfg  v(change value) merr tree uerr opt(decoded change value)
   6 BIG     : cfg n  derr summary  merr tree-summary  uerr summary   (see check_big)
   7 ELEMENT outside the round-trip domain: kind v merr tree uerr opt(decoded)  (model + shape only)
   5 GO-ONLY : (nothing) — a case outside the modelled fragment (Changeset.Change non-nil),
               judged by the harness: marshal (unmarshal (marshal v)) = marshal v
   codes: 1 = model <> implementation (marshal tree, or unmarshal result class/value),
          2 = property oracle fails on what the implementation returned
              (osmjson shape of its output; own output decodable; decoded value equivalent to
               the input / to what the independent writer wrote; absent version stays empty),
          3 = the input is outside the modelled fragment / the theorems' domain
              (generator error: wf fails or the model answers Unmodelled),
          0 = case does not parse.
   Trees: 0 null | 1 bool b | 2 num m k | 3 str s | 4 arr n x* | 5 obj n (key x)*   (raw tags)
   Values: 0 int z | 1 float m k | 2 bool | 3 str | 4 time | 5 unit | 6 none | 7 some v
           | 8 list n v* | 9 struct n v*                                            (raw tags) *)
From Coq Require Import ZArith List String Ascii Bool.
From Verif Require Import Base.Wire C05.Json C05.Schema C05.Model C05.Fmt C05.Osm C05.Spec.
From VerifGen Require Import GenJsonTags.
Import ListNotations.
Open Scope Z_scope.
Open Scope wire_scope.

Fixpoint pjson (fuel : nat) : P json :=
  match fuel with
  | O => pfail
  | S f =>
      tag <- ptok ;;
      if tag =? 0 then ret JNull
      else if tag =? 1 then (b <- pbool ;; ret (JBool b))
      else if tag =? 2 then (m <- pint ;; k <- pint ;; ret (JNum m k))
      else if tag =? 3 then (s <- pstring ;; ret (JStr s))
      else if tag =? 4 then (l <- plist (pjson f) ;; ret (JArr l))
      else if tag =? 5 then (l <- plist (ppair pstring (pjson f)) ;; ret (JObj l))
      else pfail
  end.

Fixpoint pval (fuel : nat) : P val :=
  match fuel with
  | O => pfail
  | S f =>
      tag <- ptok ;;
      if tag =? 0 then (z <- pint ;; ret (VInt z))
      else if tag =? 1 then (m <- pint ;; k <- pint ;; ret (VFloat m k))
      else if tag =? 2 then (b <- pbool ;; ret (VBool b))
      else if tag =? 3 then (s <- pstring ;; ret (VStr s))
      else if tag =? 4 then (s <- pstring ;; ret (VTime s))
      else if tag =? 5 then ret VUnit
      else if tag =? 6 then ret VNone
      else if tag =? 7 then (v <- pval f ;; ret (VSome v))
      else if tag =? 8 then (l <- plist (pval f) ;; ret (VList l))
      else if tag =? 9 then (l <- plist (pval f) ;; ret (VStruct l))
      else pfail
  end.

Definition depth : nat := 40.
Definition pj := pjson depth.
Definition pv := pval depth.

(* compare the model's result with the observed (error flag, optional decoded value) *)
Definition cmp_res {A} (r : res A) (uerr : bool) (obs : option A) (eqv : A -> A -> bool) : list Z :=
  match r with
  | Ok a => match obs with
            | Some b => code_if (negb uerr && eqv a b) 1
            | None => [1]
            end
  | Err => code_if uerr 1
  | Unmodelled => [3]
  end.

Definition std := @sort_kv string.

(* the number of marshalJSON calls seen by the installed (counting) codec; -1 = not observed
   (default configuration) *)
Definition calls_ok (observed model : Z) : bool := (observed <? 0) || (observed =? model).

(* ---- 1 OSM ---- *)
Definition check_osm : P (list Z) :=
  _cfg <- pint ;; v <- pv ;; merr <- pbool ;; tree <- pj ;; uerr <- pbool ;; dv <- popt pv ;; mc <- pint ;;
  match osm_of_val v with
  | None => ret [0]
  | Some o =>
      let od := match dv with Some d => osm_of_val d | None => None end in
      let dom := code_if (wf_osm o) 3 in
      let j1m := code_if (negb merr && json_equivb (osm_marshal std o) tree && calls_ok mc (osm_mcalls o)) 1 in
      let j1u := cmp_res (osm_unmarshal tree) uerr od osm_equivb in
      let j2 := code_if (negb merr && osmjson_shape tree && negb uerr
                         && match od with Some d => osm_equivb d o | None => false end) 2 in
      ret (dom ++ j1m ++ j1u ++ j2)%list
  end.

(* ---- 2 ELEMENT ---- *)
Definition elem_ty (k : Z) : option ty :=
  nth_error [t_Node; t_Way; t_Relation; t_Changeset; t_Note; t_User; t_Bounds] (Z.to_nat k).

Definition check_elem : P (list Z) :=
  k <- pint ;; v <- pv ;; merr <- pbool ;; tree <- pj ;; uerr <- pbool ;; dv <- popt pv ;; mc <- pint ;;
  match elem_ty k with
  | None => ret [0]
  | Some t =>
      let dom := code_if (wf t v) 3 in
      let j1m := code_if (negb merr && json_equivb (enc std t v) tree && calls_ok mc (mcalls t v)) 1 in
      let j1u := cmp_res (dec t tree) uerr dv (equivb t) in
      let j2 := code_if (negb merr && (if k =? 6 then true else element_shape tree) && negb uerr
                         && match dv with Some d => equivb t d v | None => false end) 2 in
      ret (dom ++ j1m ++ j1u ++ j2)%list
  end.

(* ---- 3 DOC ---- *)
Definition check_doc : P (list Z) :=
  _cfg <- pint ;; doc <- pj ;; ev <- popt pv ;; uerr <- pbool ;; dv <- popt pv ;;
  let od := match dv with Some d => osm_of_val d | None => None end in
  let j1 := cmp_res (osm_unmarshal doc) uerr od osm_equivb in
  let j2 :=
    match ev with
    | None => []
    | Some e =>
        match osm_of_val e with
        | Some oe => code_if (negb uerr && match od with Some d => osm_equivb d oe | None => false end) 2
        | None => [0]
        end
    end in
  ret (j1 ++ j2)%list.

(* ---- 4 CHANGE ---- *)
Definition change_of_val (v : val) : option changev :=
  match v with
  | VStruct [VStr a; VStr b; VStr c; VStr d; VStr e; x; y; z] =>
      let o (w : val) : option (option osmv) :=
        match w with
        | VNone => Some None
        | VSome u => match osm_of_val u with Some ou => Some (Some ou) | None => None end
        | _ => None
        end in
      match o x, o y, o z with
      | Some x', Some y', Some z' => Some (mkChange a b c d e x' y' z')
      | _, _, _ => None
      end
  | _ => None
  end.

Definition oo_equivb (a b : option osmv) : bool :=
  match a, b with
  | None, None => true
  | Some x, Some y => osm_equivb x y
  | _, _ => false
  end.
Definition change_equivb (a b : changev) : bool :=
  String.eqb (c_version a) (c_version b) && String.eqb (c_generator a) (c_generator b)
  && String.eqb (c_copyright a) (c_copyright b) && String.eqb (c_attribution a) (c_attribution b)
  && String.eqb (c_license a) (c_license b)
  && oo_equivb (c_create a) (c_create b) && oo_equivb (c_modify a) (c_modify b)
  && oo_equivb (c_delete a) (c_delete b).
Definition oo_wf (a : option osmv) : bool := match a with Some o => wf_osm o | None => true end.

Definition check_change : P (list Z) :=
  _cfg <- pint ;; v <- pv ;; merr <- pbool ;; tree <- pj ;; uerr <- pbool ;; dv <- popt pv ;; mc <- pint ;;
  match change_of_val v with
  | None => ret [0]
  | Some c =>
      let cd := match dv with Some d => change_of_val d | None => None end in
      let dom := code_if (oo_wf (c_create c) && oo_wf (c_modify c) && oo_wf (c_delete c)) 3 in
      let j1m := code_if (negb merr && json_equivb (change_marshal std c) tree
                          && calls_ok mc (oo_mcalls (c_create c) + oo_mcalls (c_modify c) + oo_mcalls (c_delete c))) 1 in
      let j1u := cmp_res (change_unmarshal tree) uerr cd change_equivb in
      let shape (k : string) :=
        match tree with
        | JObj kv => match lookup k kv with Some j => osmjson_shape j | None => true end
        | _ => false
        end in
      let j2 := code_if (negb merr && shape "create" && shape "modify" && shape "delete"
                         && negb uerr
                         && match cd with Some d => change_equivb d c | None => false end) 2 in
      ret (dom ++ j1m ++ j1u ++ j2)%list
  end.

(* ---- 6 BIG: size thresholds, compactly.  Both sides expand the same generator from n:
   element i (0-based) has id i+1, lat = i mod 90, lon = 0.5 and is a node (i even), a way
   (i mod 4 = 1) or a relation (i mod 4 = 3).  (a) the document with these n elements, kinds
   interleaved, is unmarshalled; (b) the OSM value holding them is marshalled and its own
   output unmarshalled.  Observations are summaries: per-kind counts and order-sensitive hashes
   of the ids; for the output tree the number of elements and a hash of (kind, id). ---- *)
Definition hmod : Z := 2305843009213693951.
Definition hstep (h x : Z) : Z := (h * 1000003 + x + 1) mod hmod.
Definition hash_ids (l : list Z) : Z := fold_left hstep l 7.

Definition big_kind (i : Z) : Z := if i mod 2 =? 0 then 1 else if i mod 4 =? 1 then 2 else 3.
Definition kind_str (k : Z) : string := if k =? 1 then "node" else if k =? 2 then "way" else "relation".
Fixpoint big_elems (n : nat) (i : Z) : list json :=
  match n with
  | O => []
  | S k => JObj [("type", JStr (kind_str (big_kind i))); ("id", JNum (i + 1) 0);
                 ("lat", JNum (i mod 90) 0); ("lon", JNum 5 1)] :: big_elems k (i + 1)
  end.
Definition big_doc (n : nat) : json := JObj [("version", JNum 6 1); ("elements", JArr (big_elems n 0))].

Definition with_id (t : ty) (id : Z) : val :=
  match zero t with VStruct (u :: _ :: rest) => VStruct (u :: VInt id :: rest) | z => z end.
Definition node_val (id lat : Z) : val :=
  match zero t_Node with
  | VStruct (u :: _ :: _ :: _ :: rest) => VStruct (u :: VInt id :: VFloat lat 0 :: VFloat 5 1 :: rest)
  | z => z
  end.
Fixpoint big_vals (n : nat) (i : Z) (k : Z) : list val :=
  match n with
  | O => []
  | S m =>
      let r := big_vals m (i + 1) k in
      if big_kind i =? k then
        (if k =? 1 then node_val (i + 1) (i mod 90) else with_id (if k =? 2 then t_Way else t_Relation) (i + 1)) :: r
      else r
  end.
Definition big_osm (n : nat) : osmv :=
  mkOsm "0.6" "" "" "" "" None (big_vals n 0 1) (big_vals n 0 2) (big_vals n 0 3) [] [] [].

(* SPEC side: the ids of each kind, straight from the generator *)
Fixpoint big_ids (n : nat) (i : Z) (k : Z) : list Z :=
  match n with
  | O => []
  | S m => if big_kind i =? k then (i + 1) :: big_ids m (i + 1) k else big_ids m (i + 1) k
  end.

Definition val_id (v : val) : Z := match v with VStruct (_ :: VInt id :: _) => id | _ => -1 end.
(* counts and hashes: nodes, ways, relations; count of everything else *)
Definition osm_summary (o : osmv) : list Z :=
  [Z.of_nat (List.length (o_nodes o)); hash_ids (map val_id (o_nodes o));
   Z.of_nat (List.length (o_ways o)); hash_ids (map val_id (o_ways o));
   Z.of_nat (List.length (o_relations o)); hash_ids (map val_id (o_relations o));
   Z.of_nat (List.length (o_changesets o) + List.length (o_notes o) + List.length (o_users o))
   + (match o_bounds o with Some _ => 1 | None => 0 end)].
Definition spec_summary (n : nat) : list Z :=
  [Z.of_nat (List.length (big_ids n 0 1)); hash_ids (big_ids n 0 1);
   Z.of_nat (List.length (big_ids n 0 2)); hash_ids (big_ids n 0 2);
   Z.of_nat (List.length (big_ids n 0 3)); hash_ids (big_ids n 0 3); 0].

Definition kind_code (s : string) : Z :=
  if String.eqb s "node" then 1 else if String.eqb s "way" then 2 else if String.eqb s "relation" then 3 else 9.
Definition elem_code (e : json) : Z :=
  match e with
  | JObj kv => match lookup "type" kv, lookup "id" kv with
               | Some (JStr t), Some (JNum id 0) => kind_code t * 1000000007 + id
               | _, _ => -1
               end
  | _ => -1
  end.
Definition tree_summary (j : json) : list Z :=
  match j with
  | JObj kv => match lookup "elements" kv with
               | Some (JArr es) => [Z.of_nat (List.length es); hash_ids (map elem_code es)]
               | _ => [-1; -1]
               end
  | _ => [-1; -1]
  end.
(* SPEC side of the output: nodes, then ways, then relations *)
Definition spec_tree_summary (n : nat) : list Z :=
  [Z.of_nat n;
   hash_ids (map (fun id => 1 * 1000000007 + id) (big_ids n 0 1)
             ++ map (fun id => 2 * 1000000007 + id) (big_ids n 0 2)
             ++ map (fun id => 3 * 1000000007 + id) (big_ids n 0 3))].

Definition zs_eqb := list_eqb Z.eqb.
Definition res_summary (r : res osmv) (uerr : bool) (obs : list Z) : list Z :=
  match r with
  | Ok o => code_if (negb uerr && zs_eqb (osm_summary o) obs) 1
  | Err => code_if uerr 1
  | Unmodelled => [3]
  end.

Definition check_big : P (list Z) :=
  _cfg <- pint ;; n <- pnat ;;
  derr <- pbool ;; dsum <- plist pint ;;            (* (a) document decoded *)
  merr <- pbool ;; tsum <- plist pint ;;            (* (b) value marshalled: tree summary *)
  uerr <- pbool ;; usum <- plist pint ;;            (*     own output unmarshalled *)
  let o := big_osm n in
  let dom := code_if (wf_osm o) 3 in
  let tree := osm_marshal std o in
  let j1 := (res_summary (osm_unmarshal (big_doc n)) derr dsum
             ++ code_if (negb merr && zs_eqb (tree_summary tree) tsum) 1
             ++ res_summary (osm_unmarshal tree) uerr usum)%list in
  let j2 := code_if (negb derr && zs_eqb dsum (spec_summary n)
                     && negb merr && zs_eqb tsum (spec_tree_summary n)
                     && negb uerr && zs_eqb usum (spec_summary n)) 2 in
  ret (dom ++ j1 ++ j2)%list.

(* ---- 7 ELEMENT outside the round-trip domain (duplicate tag keys): model vs implementation
   and the shape of the output only; no round-trip claim (Properties:
   C05_roundtrip_with_duplicate_tag_keys_refuted) ---- *)
Definition check_elem_model_only : P (list Z) :=
  k <- pint ;; v <- pv ;; merr <- pbool ;; tree <- pj ;; uerr <- pbool ;; dv <- popt pv ;; mc <- pint ;;
  match elem_ty k with
  | None => ret [0]
  | Some t =>
      let j1m := code_if (negb merr && json_equivb (enc std t v) tree && calls_ok mc (mcalls t v)) 1 in
      let j1u := cmp_res (dec t tree) uerr dv (equivb t) in
      let j2 := code_if (negb merr && (if k =? 6 then true else element_shape tree) && negb uerr) 2 in
      ret (j1m ++ j1u ++ j2)%list
  end.

Definition check_case (t : toks) : list Z :=
  match parse_all (tag <- pint ;;
                   if tag =? 1 then check_osm
                   else if tag =? 2 then check_elem
                   else if tag =? 3 then check_doc
                   else if tag =? 4 then check_change
                   else if tag =? 5 then ret []   (* judged on the Go side only (OracleFail) *)
                   else if tag =? 6 then check_big
                   else if tag =? 7 then check_elem_model_only
                   else pfail) t with
  | Some codes => codes
  | None => [0]
  end.

Definition explain_case (t : toks) : list Z := check_case t.
